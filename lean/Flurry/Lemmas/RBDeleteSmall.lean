import Flurry.Lemmas.RBDeleteInv
/-! # The shape test `tooSmall` of `remove_tree_node`, and concrete instances -/
namespace Flurry.RB
namespace Del
open T Ctx

theorem nil_of_BH_zero {t : T} (h : BH t 0) (hr : isRed t = false) : t = nil := by
  rcases t with _ | ⟨_ | _, l, e, r⟩ <;> simp_all

theorem size_BH_zero {t : T} (h : BH t 0) (hn : NoRedRed t) : size t ≤ 1 := by
  rcases t with _ | ⟨_ | _, l, e, r⟩
  · simp [size]
  · simp at h
  · simp only [BH_red, NoRedRed, forall_const] at h hn
    simp [nil_of_BH_zero h.1 hn.1.1, nil_of_BH_zero h.2 hn.1.2, size]

theorem size_BH_one_black {t : T} (h : BH t 1) (hr : isRed t = false) (hn : NoRedRed t) :
    size t ≤ 3 := by
  rcases t with _ | ⟨_ | _, l, e, r⟩
  · simp [size]
  · have h' : BH l 0 ∧ BH r 0 := by simpa using h
    have := size_BH_zero h'.1 hn.2.1
    have := size_BH_zero h'.2 hn.2.2
    simp only [size]; omega
  · simp at hr

theorem size_BH_one {t : T} (h : BH t 1) (hn : NoRedRed t) : size t ≤ 7 := by
  rcases t with _ | ⟨_ | _, l, e, r⟩
  · simp [size]
  · have := size_BH_one_black h rfl hn; omega
  · simp only [BH_red, NoRedRed, forall_const] at h hn
    have := size_BH_one_black h.1 hn.1.1 hn.2.1
    have := size_BH_one_black h.2 hn.1.2 hn.2.2
    simp only [size]; omega

end Del
open Del T Ctx

/-- the shape test only fires on small trees: at most 10 nodes (and 10 is attained, see
`tooSmall_ten`) -/
theorem tooSmall_small {t : T} (hi : TreeInv t) (hs : tooSmall t = true) : size t ≤ 10 := by
  obtain ⟨-, hr, hn, n, hb⟩ := hi
  rcases t with _ | ⟨_ | _, l, e, r⟩
  · simp [size]
  · obtain ⟨k, rfl, hl, hr'⟩ := BH_black.1 hb
    obtain ⟨-, nl, nr⟩ := hn
    rcases r with _ | ⟨rc, rl, re, rr⟩
    · have : k = 0 := by simpa using hr'
      subst this
      have := size_BH_zero hl nl
      simp only [size]; omega
    · rcases l with _ | ⟨lc, ll, le, lr⟩
      · have : k = 0 := by simpa using hl
        subst this
        have := size_BH_zero hr' nr
        simp only [size] at this ⊢; omega
      · rcases ll with _ | ⟨llc, lll, lle, llr⟩
        · cases lc
          · obtain ⟨j, rfl, h1, h2⟩ := BH_black.1 hl
            have : j = 0 := by simpa using h1
            subst this
            have := size_BH_zero h2 nl.2.2
            have := size_BH_one hr' nr
            simp only [size] at this ⊢; omega
          · simp only [BH_red, BH_nil] at hl
            obtain ⟨rfl, h2⟩ := hl
            have := size_BH_zero h2 nl.2.2
            have := size_BH_zero hr' nr
            simp only [size] at this ⊢; omega
        · simp [tooSmall] at hs
  · simp at hr

/-- restructuring only happens on trees with at least 4 nodes (no invariant needed) -/
theorem not_tooSmall_big {t : T} (hs : tooSmall t = false) : 4 ≤ size t := by
  rcases t with _ | ⟨c, _ | ⟨lc, _ | ⟨llc, lll, lle, llr⟩, le, lr⟩, e, _ | ⟨rc, rl, re, rr⟩⟩ <;>
    simp_all [tooSmall, size]
  omega

/-! ## soundness of the Boolean checker (enough to discharge `TreeInv` on concrete trees) -/
namespace Del

theorem All_of_allB {p : Node → Bool} {q : Node → Prop} (hpq : ∀ x, p x = true → q x) {t : T}
    (h : allB p t = true) : All q t := by
  induction t with
  | nil => trivial
  | node c l e r ihl ihr =>
    simp only [allB, Bool.and_eq_true] at h
    exact ⟨hpq _ h.1.1, ihl h.1.2, ihr h.2⟩

theorem BST_of_bstB {t : T} (h : bstB t = true) : BST t := by
  induction t with
  | nil => trivial
  | node c l e r ihl ihr =>
    simp only [bstB, Bool.and_eq_true] at h
    exact ⟨All_of_allB (fun _ hx => of_decide_eq_true hx) h.1.1.1,
      All_of_allB (fun _ hx => of_decide_eq_true hx) h.1.1.2, ihl h.1.2, ihr h.2⟩

theorem NoRedRed_of_noRedRedB {t : T} (h : noRedRedB t = true) : NoRedRed t := by
  induction t with
  | nil => trivial
  | node c l e r ihl ihr =>
    simp only [noRedRedB, Bool.and_eq_true, Bool.or_eq_true, Bool.not_eq_true'] at h
    refine ⟨fun hc => ?_, ihl h.1.2, ihr h.2⟩
    rcases h.1.1 with h1 | h1
    · simp [hc] at h1
    · exact h1

theorem BH_of_bhB {t : T} {n : Nat} (h : bhB t = some n) : BH t n := by
  induction t generalizing n with
  | nil => simp only [bhB, Option.some.injEq] at h; subst h; exact BH.nil
  | node c l e r ihl ihr =>
    simp only [bhB] at h
    split at h
    next a b ha hb =>
      split at h
      next hab =>
        have hab : a = b := by simpa using hab
        subst hab
        cases c
        · simp only [Bool.false_eq_true, if_false, Option.some.injEq] at h
          subst h; exact BH.black (ihl ha) (ihr hb)
        · simp only [if_true, Option.some.injEq] at h
          subst h; exact BH.red (ihl ha) (ihr hb)
      next => simp at h
    next => simp at h

theorem treeInv_of_treeInvB {t : T} (h : treeInvB t = true) : TreeInv t := by
  simp only [treeInvB, Bool.and_eq_true, Bool.not_eq_true', Option.isSome_iff_exists] at h
  obtain ⟨⟨⟨h1, h2⟩, h3⟩, n, h4⟩ := h
  exact ⟨BST_of_bstB h1, h2, NoRedRed_of_noRedRedB h3, n, BH_of_bhB h4⟩

/-! ## concrete instances -/

def mk (k : Nat) : Node := ⟨7, k, k, k, k⟩

/-- 12 nodes with equal hash, built the way `TreeBin::new` builds them -/
def t12 : T := ofList ((List.range 12).map mk)

/-- the largest tree on which the shape test fires -/
def big10 : T :=
  node false (node false nil (mk 1) (node true nil (mk 2) nil)) (mk 3)
    (node true
      (node false (node true nil (mk 4) nil) (mk 5) (node true nil (mk 6) nil)) (mk 7)
      (node false (node true nil (mk 8) nil) (mk 9) (node true nil (mk 10) nil)))

/-- the smallest tree on which it does not -/
def small4 : T :=
  node false (node false (node true nil (mk 1) nil) (mk 2) nil) (mk 3) (node false nil (mk 4) nil)

/-- a two-node bin: removing the root leaves the red child as root -/
def two : T := node false (node true nil (mk 1) nil) (mk 2) nil

end Del

example : TreeInv t12 ∧ tooSmall t12 = false ∧ size t12 = 12 :=
  ⟨treeInv_of_treeInvB (by decide), by decide, by decide⟩

/-- the hypotheses of `removeNode_toList` / `removeNode_inv` hold for every key of `t12`, and the
conclusions are confirmed by evaluation -/
example : ∀ k ∈ List.range 12,
    (∃ e ∈ toList t12, e.hash = 7 ∧ e.key = k) ∧
    treeInvB (removeNode 7 k t12) = true ∧
    toList (removeNode 7 k t12) = ((List.range 12).filter (· != k)).map mk := by decide

example : TreeInv (removeNode 7 5 t12) :=
  removeNode_inv (treeInv_of_treeInvB (by decide)) (by decide) ⟨mk 5, by decide, rfl, rfl⟩

/-- `tooSmall_small` is sharp -/
theorem tooSmall_ten : TreeInv big10 ∧ tooSmall big10 = true ∧ size big10 = 10 :=
  ⟨treeInv_of_treeInvB (by decide), by decide, by decide⟩

/-- `not_tooSmall_big` is sharp -/
theorem not_tooSmall_four : TreeInv small4 ∧ tooSmall small4 = false ∧ size small4 = 4 :=
  ⟨treeInv_of_treeInvB (by decide), by decide, by decide⟩

/-- why `removeNode_inv` needs the shape test (or `removeNode_good`'s side condition): on a root
with one child the result has a red root. The Rust code has the same behaviour
(`balance_deletion` returns at `x == root` without recolouring), but `remove_tree_node` never gets
there because `root.right.is_null()` makes it untreeify first. -/
theorem removeNode_red_root :
    TreeInv two ∧ (∃ e ∈ toList two, e.hash = 7 ∧ e.key = 2) ∧ tooSmall two = true ∧
      isRed (removeNode 7 2 two) = true :=
  ⟨treeInv_of_treeInvB (by decide), ⟨mk 2, by decide, rfl, rfl⟩, by decide, by decide⟩

end Flurry.RB
