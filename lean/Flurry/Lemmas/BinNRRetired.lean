import Flurry.Lemmas.BinNRUnlink
import Flurry.Lemmas.BinNRPrefix
/-! # Proto/BinNR: the nodes a step hands to `retire` are made unreachable by that step (C03: unlink before retire) -/
namespace Flurry.Proto.BinNR
open Flurry.Lin
open Flurry.Proto.BinX (NodeS Cell Pending isReader dflt chainFrom cellHead cellOfHead nodeAt)
open Flurry.Proto.BinN (Pc Local cellAt cellOf chainOfCell Ghost Inv HInv Live chId getCell CellId
  StepK tick setT setNode putCell storeAt finish getCell_put_ne cellAt_put_self)

theorem Live0_congr {n n' : BinN.State} (hh : n'.heap = n.heap) (ht : n'.tabs = n.tabs) (i : Nat) :
    Live0 n' i ↔ Live0 n i := by
  unfold Live0
  constructor
  · rintro ⟨id, h⟩; rw [BinN.chId_congr hh ht] at h; exact ⟨id, h⟩
  · rintro ⟨id, h⟩; rw [← BinN.chId_congr hh ht] at h; exact ⟨id, h⟩

/-- **unlink before retire**: every node a step of thread `t` hands to `retire` was in a chain before the step and
is in no chain of any cell after it; and `t` is under a guard -/
theorem retiredBy_dead {n n' : BinN.State} {G : Ghost} (I : Inv n G) {t : Nat} {l : Local} {pick : Nat}
    (hl : n.threads[t]? = some l) (hK : StepK n t l pick n') :
    ∀ i ∈ retiredBy false n t, Live0 n i ∧ ¬ Live0 n' i ∧ guarded n t = true := by
  intro i hi
  unfold retiredBy at hi
  rw [hl] at hi
  obtain ⟨pc, call⟩ := l
  simp only at hi
  split at hi
  · -- the remover's unlink store
    rename_i g h pred i0 hnext p
    have hop : p.op = .rm ∨ p.op = .cipRm := by
      split at hi
      · rename_i hop; exact Or.inl hop
      · rename_i hop; exact Or.inr hop
      · cases hi
    have hi0 : i = i0 := by
      split at hi
      · simpa using hi
      · simpa using hi
      · cases hi
    subst hi0
    have hg : guarded n t = true := by unfold guarded; rw [hl]; rfl
    obtain ⟨h0, h1⟩ := hit_dead I hl hop
    refine ⟨h0, ?_, hg⟩
    cases hK with
    | store p' g' h' pred' hit' hnext' hp hpc =>
      simp only at hp hpc
      cases hp; cases hpc
      intro hc
      exact h1 ((Live0_congr rfl rfl i).1 hc)
    | move p' pc' hp hm => simp only at hm; cases hm
    | tmove pc' hp hm => simp only at hm; cases hm
    | lockMove p' h' x pc' hp hm => simp only at hm; cases hm
    | tlockMove h' x pc' hp hm => simp only at hm; cases hm
    | fin p' res hp hf => simp only at hf; cases hf
    | idle hpc => simp at hpc
    | invoke k op hpc => simp at hpc
    | resize hpc hr => simp at hpc
    | cas p' g' v vi hp hpc hc hop => simp at hpc
    | unlockFin p' g' h' res hp hpc => simp at hpc
    | casMoved j hp hpc hc => simp at hpc
    | build j h' hp hpc => simp at hpc
    | storeLow j h' lo hg' hp hpc => simp at hpc
    | storeHigh j h' hg' hp hpc => simp at hpc
    | storeMoved j h' hp hpc => simp at hpc
    | commit hp hpc => simp at hpc
  · -- the store of the forwarding marker
    rename_i j h
    simp only [Bool.false_eq_true, if_false] at hi
    have hg : guarded n t = true := by unfold guarded; rw [hl]; rfl
    have T := I.gen.thr t _ hl
    have hj : j < 2 ^ n.cur := T.idx j rfl
    cases hK with
    | storeMoved j' h' hp hpc =>
      simp only at hpc
      cases hpc
      have ht : (putCell (setT (tick n) t { pc := .tUnlock j h, call := none }) n.cur j .moved).tabs =
          n.tabs.modify n.cur (fun row => row.set j .moved) := rfl
      obtain ⟨h0, h1⟩ := copiedPrefix_dead (s' := putCell (setT (tick n) t { pc := .tUnlock j h, call := none }) n.cur j .moved)
        I hl rfl rfl (fun id hne => getCell_put_ne ht hne)
        (cellAt_put_self I.heap.shape ht I.heap.shape.cur_lt hj) i hi
      exact ⟨h0, h1, hg⟩
    | move p' pc' hp hm => simp only at hm; cases hm
    | tmove pc' hp hm => simp only at hm; cases hm
    | lockMove p' h' x pc' hp hm => simp only at hm; cases hm
    | tlockMove h' x pc' hp hm => simp only at hm; cases hm
    | fin p' res hp hf => simp only at hf; cases hf
    | idle hpc => simp at hpc
    | invoke k op hpc => simp at hpc
    | resize hpc hr => simp at hpc
    | cas p' g' v vi hp hpc hc hop => simp at hpc
    | unlockFin p' g' h' res hp hpc => simp at hpc
    | casMoved j' hp hpc hc => simp at hpc
    | build j' h' hp hpc => simp at hpc
    | storeLow j' h' lo hg' hp hpc => simp at hpc
    | storeHigh j' h' hg' hp hpc => simp at hpc
    | store p' g' h' pred' hit' hnext' hp hpc => simp at hpc
    | commit hp hpc => simp at hpc
  · simp at hi
  · cases hi

end Flurry.Proto.BinNR
