import Flurry.Lemmas.BinNAGhost
/-! # Proto/BinNA: the ghost invariant holds in every reachable state (C01, C10)

`ginv_step`: every transition preserves `∃ A pt, GInv`. Linearization points: readers at the load
that returns a cell that is not a marker; writers that see an empty cell and have nothing to insert at
that load; the lock-free insert at its successful CAS; lock-holding writers at their one store
(`wStore`). No step of the resizing thread has a point: none of them changes the abstract state of any
key (`abs_casMoved`, `abs_storeChild`, `abs_storeMoved`, `abs_same`, `abs_commit`). -/
namespace Flurry.Proto.BinNA
open Flurry.Lin

/-- the effect of a writer's CAS / store on the abstract content of all keys -/
theorem write_abs {s s' : State} (I : Inv s) (I' : Inv s') {g key : Nat} {c1 : Cell} (hcur : s'.cur = s.cur)
    (ht : s'.tabs = (setCell s g (ix g key) c1).tabs)
    (hf : Fwd s g (ix g key)) (h0 : getCell s g (ix g key) ≠ .moved) (h1 : c1 ≠ .moved)
    (hother : ∀ k, k ≠ key → cellAbs k c1 = cellAbs k (getCell s g (ix g key))) :
    absOf s key = cellAbs key (getCell s g (ix g key)) ∧ absOf s' key = cellAbs key c1 ∧
      ∀ k, k ≠ key → absOf s' k = absOf s k := by
  have hcells := getCell_of_setCell (s' := s') I ht (I.inb hf) (ix_lt g key)
  have hw := write_live hcur hcells h0 h1
  have hpos := I.livePos_of_fwd hf h0
  refine ⟨I.absOf_of_fwd hf h0, ?_, ?_⟩
  · rw [I'.absOf_eq, hw, if_pos hpos]
  · intro k hk
    rw [I'.absOf_eq, I.absOf_eq, hw]
    by_cases hp : livePos s k = (g, ix g key)
    · rw [if_pos hp, hother k hk]
      unfold live2; rw [hp]
    · rw [if_neg hp]

theorem missRes_spec {op : KOp} (h : isRead op = true) : specStep none op = (none, missRes op) := by
  cases op <;> first | rfl | cases h

theorem hitRes_spec {op : KOp} (h : isRead op = true) (v : Nat × Nat) :
    specStep (some v) op = (some v, hitRes op v) := by
  obtain ⟨a, b⟩ := v
  cases op <;> first | rfl | cases h

theorem Move.not_ext {s : State} {p : Pending} {pc pc' : Pc} (h : Move s p pc pc') :
    (∀ g res, pc ≠ .wUnlock g res false) ∧ (∀ g res, pc' ≠ .wUnlock g res false) := by
  cases h <;> exact ⟨by intro g res; simp, by intro g res; simp⟩

theorem TMove.not_ext {s : State} {pc pc' : Pc} (h : TMove s pc pc') :
    (∀ g res, pc ≠ .wUnlock g res false) ∧ (∀ g res, pc' ≠ .wUnlock g res false) := by
  cases h <;> exact ⟨by intro g res; simp, by intro g res; simp⟩

theorem Fin.not_ext {s : State} {p : Pending} {pc : Pc} {res : KRes} (h : Fin s p pc res) :
    ∀ g res, pc ≠ .wUnlock g res false := by
  cases h <;> (intro g res; simp)

theorem Acq.not_ext {s : State} {l : Local} {g j : Nat} {pc' : Pc} (h : Acq s l g j pc') :
    (∀ g res, l.pc ≠ .wUnlock g res false) ∧ (∀ g res, pc' ≠ .wUnlock g res false) := by
  cases h <;> rename_i hpc <;> exact ⟨by intro g res; rw [hpc]; simp, by intro g res; simp⟩

theorem Rel.not_ext {s : State} {l : Local} {g j : Nat} {pc' : Pc} (h : Rel s l g j pc') :
    (∀ g res, l.pc ≠ .wUnlock g res false) ∧ (∀ g res, pc' ≠ .wUnlock g res false) := by
  cases h with
  | w _ hpc => exact ⟨by intro g res; rw [hpc]; simp, by intro g res; simp⟩
  | tFail _ hpc _ => exact ⟨by intro g res; rw [hpc]; simp, by intro g res; simp⟩
  | t _ hpc => exact ⟨by intro g res; rw [hpc]; simp, by intro g res; simp⟩

/-- the point of a call that completes without a store of its own -/
theorem fin_point {k : Nat} {s : State} {A : Nat → KSt} {pt : Nat → Nat} {t : Nat} {l : Local}
    {p : Pending} {res : KRes}
    (g : GInv k s A pt) (I : Inv s) (hl : s.threads[t]? = some l) (hp : l.call = some p)
    (hk : p.key = k) (hf : Fin s p l.pc res) :
    ∃ τ0, p.inv ≤ τ0 ∧ τ0 ≤ s.now + 1 ∧
      (isRead p.op = true →
        specStep (nextA A s.now (absOf s k) τ0) p.op = (nextA A s.now (absOf s k) τ0, res)) ∧
      (isRead p.op = false → τ0 = s.now + 1 ∧
        specStep (nextA A s.now (absOf s k) s.now) p.op = (nextA A s.now (absOf s k) (s.now + 1), res)) := by
  have hop := I.thr.opOK t l p hl hp
  have hpi := I.thr.pendTime t l p hl hp
  have hpc := I.pc t l hl
  rw [keyOf_some hp] at hpc
  obtain ⟨pc, call⟩ := l
  simp only at hp hf hop hpc
  subst hp
  cases hf with
  | @rEmpty g0 hc =>
    have hrd : isRead p.op = true := by rw [← isReader_eq_isRead]; exact hop
    have hnone : absOf s k = none := by
      rw [← hk, I.absOf_of_fwd hpc (by rw [hc]; simp), hc]; rfl
    refine ⟨s.now, hpi, by omega, ?_, fun h => by rw [hrd] at h; cases h⟩
    intro _
    rw [nextA_old (Nat.le_refl _), g.hA, hnone]
    exact missRes_spec hrd
  | @rMiss g0 xs hc hlk =>
    have hrd : isRead p.op = true := by rw [← isReader_eq_isRead]; exact hop
    have hnone : absOf s k = none := by
      rw [← hk, I.absOf_of_fwd hpc (by rw [hc]; simp), hc]; exact hlk
    refine ⟨s.now, hpi, by omega, ?_, fun h => by rw [hrd] at h; cases h⟩
    intro _
    rw [nextA_old (Nat.le_refl _), g.hA, hnone]
    exact missRes_spec hrd
  | @rHit g0 xs v hc hlk =>
    have hrd : isRead p.op = true := by rw [← isReader_eq_isRead]; exact hop
    have hsome : absOf s k = some v := by
      rw [← hk, I.absOf_of_fwd hpc (by rw [hc]; simp), hc]; exact hlk
    refine ⟨s.now, hpi, by omega, ?_, fun h => by rw [hrd] at h; cases h⟩
    intro _
    rw [nextA_old (Nat.le_refl _), g.hA, hsome]
    exact hitRes_spec hrd v
  | @wEmpty g0 hc hnot =>
    have hwr : isRead p.op = false := by rw [← isReader_eq_isRead]; exact hop
    have hnone : absOf s k = none := by
      rw [← hk, I.absOf_of_fwd hpc (by rw [hc]; simp), hc]; rfl
    refine ⟨s.now + 1, by omega, Nat.le_refl _, fun h => (by rw [hwr] at h; cases h), fun _ => ⟨rfl, ?_⟩⟩
    rw [nextA_old (Nat.le_refl _), nextA_new, g.hA, hnone]
    cases hop' : p.op with
    | ins v vi => exact absurd ⟨v, vi, Or.inl hop'⟩ hnot
    | tryIns v vi => exact absurd ⟨v, vi, Or.inr hop'⟩ hnot
    | get => rw [hop'] at hwr; cases hwr
    | has => rw [hop'] at hwr; cases hwr
    | rm => rfl
    | cipInc nvi => rfl
    | cipRm => rfl

/-- the ghost obligations of a step that performs the call's (writer) linearization point now -/
theorem callOK_now {A : Nat → KSt} {pt : Nat → Nat} {now : Nat} {x y : KSt} {c : Call}
    (hinv : c.inv ≤ now) (hresp : c.resp = now + 1) (hwr : isRead c.op = false) (hA : A now = y)
    (hspec : specStep y c.op = (x, c.res)) :
    CallOK (nextA A now x) (updPt pt c.inv (now + 1)) c := by
  refine ⟨?_, ?_, ?_, ?_⟩
  · rw [updPt_self]; omega
  · rw [updPt_self, hresp]; exact Nat.le_refl _
  · intro hr; rw [hwr] at hr; cases hr
  · rw [updPt_self]
    intro _
    refine ⟨by omega, ?_⟩
    rw [Nat.add_sub_cancel, nextA_old (Nat.le_refl _), nextA_new, hA]
    exact hspec

/-- **every transition preserves the ghost invariant** -/
theorem ginv_step {k : Nat} {s s' : State} {A : Nat → KSt} {pt : Nat → Nat} {t : Nat} {l : Local}
    (g : GInv k s A pt) (I : Inv s) (hl : s.threads[t]? = some l) (hstep : StepK s t l s') :
    ∃ A' pt', GInv k s' A' pt' := by
  have I' := stepK_inv I hl hstep
  have T := I.thr
  have hpc0 := I.pc t l hl
  cases hstep with
  | idle hpc =>
    have he : ∀ now, extOf k now t l = none := fun now =>
      extOf_none_of_pc (by rw [hpc]; intro g res; simp)
    exact ⟨_, _, ginv_quiet (hnew := []) g T hl rfl rfl rfl (by simp) (by apply absOf_congr <;> rfl) (he _) (he _)⟩
  | invoke k' op hpc =>
    exact ⟨_, _, ginv_quiet (hnew := []) g T hl rfl rfl rfl (by simp) (by apply absOf_congr <;> rfl)
      (extOf_none_of_pc (by rw [hpc]; intro g res; simp))
      (extOf_none_of_pc (by intro g res; cases isReader op <;> simp))⟩
  | resize hpc hr =>
    refine ⟨_, _, ginv_quiet (hnew := []) (l' := { l with pc := .tNext }) g T hl rfl rfl rfl (by simp) ?_
      (extOf_none_of_pc (by rw [hpc]; intro g res; simp))
      (extOf_none_of_pc (by intro g res; simp))⟩
    rw [I'.absOf_eq, I.absOf_eq]
    congr 1
    refine abs_same ?_ ?_ k
    · rfl
    · exact fun g j => getD2_append_replicate s.tabs _ g j .empty
  | move p pc' hp hm =>
    exact ⟨_, _, ginv_quiet (hnew := []) g T hl rfl rfl rfl (by simp) (by apply absOf_congr <;> rfl)
      (extOf_none_of_pc hm.not_ext.1) (extOf_none_of_pc hm.not_ext.2)⟩
  | tmove pc' hp hm =>
    exact ⟨_, _, ginv_quiet (hnew := []) g T hl rfl rfl rfl (by simp) (by apply absOf_congr <;> rfl)
      (extOf_none_of_pc hm.not_ext.1) (extOf_none_of_pc hm.not_ext.2)⟩
  | acq g0 j pc' ha hfree =>
    exact ⟨_, _, ginv_quiet (hnew := []) (l' := { l with pc := pc' }) g T hl rfl rfl rfl (by simp)
      (by apply absOf_congr <;> rfl) (extOf_none_of_pc ha.not_ext.1) (extOf_none_of_pc ha.not_ext.2)⟩
  | rel g0 j pc' hrel =>
    exact ⟨_, _, ginv_quiet (hnew := []) (l' := { l with pc := pc' }) g T hl rfl rfl rfl (by simp)
      (by apply absOf_congr <;> rfl) (extOf_none_of_pc hrel.not_ext.1) (extOf_none_of_pc hrel.not_ext.2)⟩
  | fin p res hp hf =>
    have habs : ∀ k, absOf (finish (tick s) t p res) k = absOf s k := absOf_congr rfl rfl
    by_cases hk : p.key = k
    · obtain ⟨τ0, h1, h2, h3, h4⟩ := fin_point g I hl hp hk hf
      refine ⟨_, _, ginv_new (hnew := [(p.key, ⟨t, p.op, res, p.inv, s.now + 1⟩)]) (τ0 := τ0)
        (c0 := ⟨t, p.op, res, p.inv, s.now + 1⟩) (l' := { pc := .idle, call := none }) g T hl hp rfl rfl rfl
        (extOf_none_of_pc hf.not_ext) ?_ ?_ rfl ?_ ?_ ?_⟩
      · rintro c' (hc' | hc')
        · exact (mem_singleton_key hc').2
        · rw [extOf_idle] at hc'; cases hc'
      · refine mem_callsOnExt.2 (Or.inl ?_)
        show (k, _) ∈ (p.key, _) :: s.hist
        rw [hk]; exact List.mem_cons_self
      · rw [habs k]
        refine ⟨?_, ?_, ?_, ?_⟩
        · show p.inv ≤ updPt pt p.inv τ0 p.inv
          rw [updPt_self]; exact h1
        · show updPt pt p.inv τ0 p.inv ≤ s.now + 1
          rw [updPt_self]; exact h2
        · show isRead p.op = true → specStep (nextA A s.now (absOf s k) (updPt pt p.inv τ0 p.inv)) p.op = (_, res)
          rw [updPt_self]; exact h3
        · show isRead p.op = false → 1 ≤ updPt pt p.inv τ0 p.inv ∧
            specStep (nextA A s.now (absOf s k) (updPt pt p.inv τ0 p.inv - 1)) p.op = (nextA A s.now (absOf s k) (updPt pt p.inv τ0 p.inv), res)
          rw [updPt_self]
          intro hw
          obtain ⟨rfl, h5⟩ := h4 hw
          exact ⟨by omega, by rw [Nat.add_sub_cancel]; exact h5⟩
      · intro hw; exact (h4 hw).1
      · intro hne; exact absurd (habs k) hne
    · refine ⟨_, _, ginv_quiet (hnew := [(p.key, ⟨t, p.op, res, p.inv, s.now + 1⟩)])
        (l' := { pc := .idle, call := none }) g T hl rfl rfl rfl
        ?_ (habs k) (extOf_none_of_pc hf.not_ext) (extOf_idle _ _ _)⟩
      intro c hc; exact hk (mem_singleton_key hc).1.symm
  | cas p g0 v vi hp hpc hc hop =>
    rw [hpc, keyOf_some hp] at hpc0
    have hwr : isRead p.op = false := by rcases hop with h | h <;> rw [h] <;> rfl
    have hpi := T.pendTime t l p hl hp
    obtain ⟨ha0, ha1, hao⟩ := write_abs (c1 := .list [(p.key, (v, vi))]) I I' rfl rfl hpc0 (by rw [hc]; simp)
      (by simp) (by
        intro k' hk'
        rw [hc]
        show lookup k' [(p.key, (v, vi))] = none
        rw [lookup_cons, if_neg (fun h => hk' h.symm)]; rfl)
    rw [hc] at ha0
    by_cases hk : p.key = k
    · subst hk
      refine ⟨_, _, ginv_new (hnew := [(p.key, ⟨t, p.op, .none, p.inv, s.now + 1⟩)]) (τ0 := s.now + 1)
        (c0 := ⟨t, p.op, .none, p.inv, s.now + 1⟩) (l' := { pc := .idle, call := none }) g T hl hp rfl rfl rfl
        (extOf_none_of_pc (by rw [hpc]; intro g res; simp)) ?_ ?_ rfl ?_ (fun _ => rfl) (fun _ => hwr)⟩
      · rintro c' (hc' | hc')
        · exact (mem_singleton_key hc').2
        · rw [extOf_idle] at hc'; cases hc'
      · exact mem_callsOnExt.2 (Or.inl List.mem_cons_self)
      · refine callOK_now (c := ⟨t, p.op, .none, p.inv, s.now + 1⟩) hpi rfl hwr g.hA ?_
        have e1 : cellAbs p.key (.list [(p.key, (v, vi))]) = some (v, vi) := by
          show lookup p.key [(p.key, (v, vi))] = _
          rw [lookup_cons, if_pos rfl]
        rw [ha0, ha1, e1]
        show specStep none p.op = (some (v, vi), KRes.none)
        rcases hop with hop | hop <;> rw [hop] <;> rfl
    · refine ⟨_, _, ginv_quiet (hnew := [(p.key, ⟨t, p.op, .none, p.inv, s.now + 1⟩)])
        (l' := { pc := .idle, call := none }) g T hl rfl rfl rfl
        ?_ (hao k (fun h => hk h.symm)) (extOf_none_of_pc (by rw [hpc]; intro g res; simp)) (extOf_idle _ _ _)⟩
      intro c hc; exact hk (mem_singleton_key hc).1.symm
  | store p g0 hp hpc =>
    rw [hpc, keyOf_some hp] at hpc0
    obtain ⟨hf, hlk, hlist⟩ := hpc0
    have hop := T.opOK t l p hl hp
    rw [hpc] at hop
    have hwr : isRead p.op = false := by rw [← isReader_eq_isRead]; exact hop
    have hpi := T.pendTime t l p hl hp
    have hnm := isList_ne_moved hlist
    obtain ⟨ha0, ha1, hao⟩ := write_abs (c1 := storeCell s g0 p) I I' rfl rfl hf hnm (mkCell_ne_moved _) (by
        intro k' hk'
        unfold storeCell
        rw [cellAbs_mkCell, lookup_newContent_ne hk', cellAbs_content hnm])
    by_cases hk : p.key = k
    · subst hk
      have hext : extOf p.key (s.now + 1) t { l with pc := .wUnlock g0 (storeRes s g0 p) false } =
          some ⟨t, p.op, storeRes s g0 p, p.inv, s.now + 1⟩ :=
        extOf_eq_some.2 ⟨g0, _, p, rfl, hp, rfl, rfl⟩
      refine ⟨_, _, ginv_new (hnew := []) (τ0 := s.now + 1)
        (c0 := ⟨t, p.op, storeRes s g0 p, p.inv, s.now + 1⟩)
        (l' := { l with pc := .wUnlock g0 (storeRes s g0 p) false }) g T hl hp rfl rfl rfl
        (extOf_none_of_pc (by rw [hpc]; intro g res; simp)) ?_ ?_ rfl ?_ (fun _ => rfl) (fun _ => hwr)⟩
      · rintro c' (hc' | hc')
        · cases hc'
        · rw [hext] at hc'; cases hc'; rfl
      · exact mem_callsOnExt.2 (Or.inr ⟨t, { l with pc := .wUnlock g0 (storeRes s g0 p) false },
          get_set_self hl, hext⟩)
      · refine callOK_now (c := ⟨t, p.op, storeRes s g0 p, p.inv, s.now + 1⟩) hpi rfl hwr g.hA ?_
        rw [ha0, ha1]
        unfold storeCell storeRes
        rw [cellAbs_mkCell, lookup_newContent_self, cellAbs_content hnm]
    · refine ⟨_, _, ginv_quiet (hnew := []) (l' := { l with pc := .wUnlock g0 (storeRes s g0 p) false })
        g T hl rfl rfl rfl (by simp) (hao k (fun h => hk h.symm))
        (extOf_none_of_pc (by rw [hpc]; intro g res; simp)) (extOf_none_of_key (p := p) hp hk)⟩
  | unlockFin p g0 res hp hpc =>
    have habs : ∀ k, absOf (finish (setLock (tick s) g0 (ix g0 p.key) none) t p res) k = absOf s k :=
      absOf_congr rfl rfl
    by_cases hk : p.key = k
    · have hext : extOf k s.now t l = some ⟨t, p.op, res, p.inv, s.now⟩ :=
        extOf_eq_some.2 ⟨g0, res, p, hpc, hp, hk, rfl⟩
      have hsim : Sim ⟨t, p.op, res, p.inv, s.now⟩ ⟨t, p.op, res, p.inv, s.now + 1⟩ :=
        ⟨rfl, rfl, rfl, rfl, Nat.le_succ _⟩
      have hold : (⟨t, p.op, res, p.inv, s.now⟩ : Call) ∈ callsOnExt s k :=
        mem_callsOnExt.2 (Or.inr ⟨t, l, hl, hext⟩)
      have hnew : (⟨t, p.op, res, p.inv, s.now + 1⟩ : Call) ∈
          callsOnExt (finish (setLock (tick s) g0 (ix g0 p.key) none) t p res) k := by
        refine mem_callsOnExt.2 (Or.inl ?_)
        show (k, _) ∈ (p.key, _) :: s.hist
        rw [hk]; exact List.mem_cons_self
      refine ⟨_, _, g.frame (i0 := 0) (pt' := pt) T rfl (fun _ _ => rfl) ?_ ?_ (fun hne => absurd (habs k) hne)⟩
      · intro c hc
        rcases ext_forward (s' := finish (setLock (tick s) g0 (ix g0 p.key) none) t p res)
          (l' := { pc := .idle, call := none })
          (hnew := [(p.key, ⟨t, p.op, res, p.inv, s.now + 1⟩)]) hl rfl rfl rfl c hc with h | h
        · exact h
        · rw [hext] at h; cases h
          exact ⟨_, hnew, hsim⟩
      · intro c' hc'
        rcases ext_backward (s := s) (l' := { pc := .idle, call := none })
          (hnew := [(p.key, ⟨t, p.op, res, p.inv, s.now + 1⟩)]) rfl rfl rfl c' hc' with h | h | h
        · exact Or.inl h
        · have := (mem_singleton_key h).2; subst this
          exact Or.inl ⟨_, hold, hsim⟩
        · rw [extOf_idle] at h; cases h
    · refine ⟨_, _, ginv_quiet (hnew := [(p.key, ⟨t, p.op, res, p.inv, s.now + 1⟩)])
        (l' := { pc := .idle, call := none }) g T hl rfl rfl rfl
        ?_ (habs k) (extOf_none_of_key (p := p) hp hk) (extOf_idle _ _ _)⟩
      intro c hc; exact hk (mem_singleton_key hc).1.symm
  | casMoved j hp hpc hc =>
    rw [hpc] at hpc0
    have hcells := getCell_of_setCell (s' := setT (setCell (tick s) s.cur j .moved) t { l with pc := .tNext })
      I rfl (by have := I.len_ge; omega) hpc0.2
    refine ⟨_, _, ginv_quiet_nocall (l' := { l with pc := .tNext }) g T hl rfl rfl rfl ?_ hp hp⟩
    rw [I'.absOf_eq, I.absOf_eq]
    refine abs_casMoved ?_ hcells hc ?_ k
    · rfl
    intro j' hj'
    refine I.child j' (by rw [hj', hc]; simp) ?_
    exact I.noMid hl (by rw [hpc]; trivial) (fun q h => by rw [hpc] at h; exact h) _
  | storeLow j lo hi hp hpc =>
    rw [hpc] at hpc0
    obtain ⟨h1, h2, h3, xs, h4, h5, h6, h7, h8⟩ := hpc0
    have hlen := I.len_rz h1
    have hcells := getCell_of_setCell
      (s' := setT (setCell (tick s) (s.cur + 1) j lo) t { l with pc := .tStoreHigh j hi })
      I rfl (by omega) (by rw [Nat.pow_succ]; omega)
    refine ⟨_, _, ginv_quiet_nocall (l' := { l with pc := .tStoreHigh j hi }) g T hl rfl rfl rfl ?_ hp hp⟩
    rw [I'.absOf_eq, I.absOf_eq]
    congr 1
    refine abs_storeChild ?_ hcells ?_ k
    · rfl
    · rw [mod_self_of_lt h2, h4]; simp
  | storeHigh j hi hp hpc =>
    rw [hpc] at hpc0
    obtain ⟨h1, h2, h3, xs, h4, h5, h6, h8⟩ := hpc0
    have hlen := I.len_rz h1
    have hcells := getCell_of_setCell
      (s' := setT (setCell (tick s) (s.cur + 1) (j + 2 ^ s.cur) hi) t { l with pc := .tStoreMoved j })
      I rfl (by omega) (by rw [Nat.pow_succ]; omega)
    refine ⟨_, _, ginv_quiet_nocall (l' := { l with pc := .tStoreMoved j }) g T hl rfl rfl rfl ?_ hp hp⟩
    rw [I'.absOf_eq, I.absOf_eq]
    congr 1
    refine abs_storeChild ?_ hcells ?_ k
    · rfl
    · rw [add_pow_mod h2, h4]; simp
  | storeMoved j hp hpc =>
    rw [hpc] at hpc0
    obtain ⟨h1, h2, h3, xs, h4, h5, h8⟩ := hpc0
    have hcells := getCell_of_setCell (s' := setT (setCell (tick s) s.cur j .moved) t { l with pc := .tUnlock j })
      I rfl (by have := I.len_ge; omega) h2
    refine ⟨_, _, ginv_quiet_nocall (l' := { l with pc := .tUnlock j }) g T hl rfl rfl rfl ?_ hp hp⟩
    rw [I'.absOf_eq, I.absOf_eq]
    refine abs_storeMoved ?_ hcells h4 h5 h8 k
    rfl
  | commit hp hpc =>
    rw [hpc] at hpc0
    refine ⟨_, _, ginv_quiet_nocall (l' := { l with pc := .idle }) g T hl rfl rfl rfl ?_ hp hp⟩
    rw [I'.absOf_eq, I.absOf_eq]
    congr 1
    refine abs_commit I ?_ ?_ hpc0.2 k
    · rfl
    · exact fun _ _ => rfl

end Flurry.Proto.BinNA
