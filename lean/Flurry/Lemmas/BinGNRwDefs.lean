import Flurry.Lemmas.BinGNOwn
/-! # Proto/BinGN: the read-write lock of a `TreeBin` (definitions, frame lemmas)

`RwInv s`: every `TreeBin` a reader refers to exists; the reader count of every `TreeBin` is the number of
threads that hold a read lock on it (`rTree`, `rRelease`); while the write bit is set the reader count is zero;
a tree writer in its locked section (`tPrependLocked` … `tUntreeify`) has the write bit of its bin set.
Consequence (`Lemmas/BinGNRw.lean`): a tree writer in its locked section excludes every lock-protocol reader
from the tree of its bin — in every generation, also for a `TreeBin` that transfers have re-used. -/
namespace Flurry.Proto.BinGN
open Flurry.Lin

/-- holds a read lock of `TreeBin` `b` -/
def holdsRead : Pc → Option Nat
  | .rTree b | .rRelease b _ => some b
  | _ => none

/-- is inside the write-locked section of `TreeBin` `b` -/
def wrSec : Pc → Option Nat
  | .tPrependLocked _ b | .tTreeLinkLocked _ b _ | .tUnlinkLocked _ b _ _ | .tRestructure _ b _ _
  | .tUnlockRoot _ b _ | .tUntreeify _ b _ => some b
  | _ => none

/-- the `TreeBin` a reader refers to -/
def readerRef : Pc → Option Nat
  | .rFirst b | .rState b _ | .rLin b _ | .rCas b _ _ | .rTree b | .rRelease b _ | .lFirst b => some b
  | _ => none

def binOf (tb : List TBin) (b : Nat) : TBin := tb.getD b dfltB

/-- number of threads that hold a read lock on `b` -/
def nRead (b : Nat) (ls : List Local) : Nat := ls.countP (fun l => holdsRead l.pc == some b)

structure RwInv (s : State) : Prop where
  refR : ∀ (t : Nat) (l : Local) (b : Nat), s.threads[t]? = some l → readerRef l.pc = some b → b < s.tbins.length
  rd : ∀ b, b < s.tbins.length → (binOf s.tbins b).readers = nRead b s.threads
  wrd : ∀ b, (binOf s.tbins b).writer = true → (binOf s.tbins b).readers = 0
  wsec : ∀ (t : Nat) (l : Local) (b : Nat), s.threads[t]? = some l → wrSec l.pc = some b →
    (binOf s.tbins b).writer = true

theorem countP_set {α : Type} (q : α → Bool) : ∀ (ls : List α) (t : Nat) (x y : α), ls[t]? = some x →
    (ls.set t y).countP q + (if q x then 1 else 0) = ls.countP q + (if q y then 1 else 0)
  | [], t, x, y, h => by simp at h
  | a :: ls, 0, x, y, h => by
    simp only [List.getElem?_cons_zero, Option.some.injEq] at h
    subst h
    simp only [List.set_cons_zero, List.countP_cons]
    omega
  | a :: ls, t + 1, x, y, h => by
    simp only [List.getElem?_cons_succ] at h
    have := countP_set q ls t x y h
    simp only [List.set_cons_succ, List.countP_cons]
    omega

theorem nRead_set_same {ls : List Local} {t : Nat} {l l' : Local} (b : Nat) (h : ls[t]? = some l)
    (he : holdsRead l'.pc = holdsRead l.pc) : nRead b (ls.set t l') = nRead b ls := by
  have := countP_set (fun l => holdsRead l.pc == some b) ls t l l' h
  unfold nRead
  simp only [he] at this
  omega

theorem nRead_set_enter {ls : List Local} {t : Nat} {l l' : Local} {b : Nat} (h : ls[t]? = some l)
    (h0 : holdsRead l.pc = none) (h1 : holdsRead l'.pc = some b) :
    nRead b (ls.set t l') = nRead b ls + 1 ∧ ∀ b', b' ≠ b → nRead b' (ls.set t l') = nRead b' ls := by
  refine ⟨?_, fun b' hb' => ?_⟩
  · have := countP_set (fun l => holdsRead l.pc == some b) ls t l l' h
    simp only [h0, h1, beq_self_eq_true, if_true] at this
    unfold nRead
    simp at this
    omega
  · have := countP_set (fun l => holdsRead l.pc == some b') ls t l l' h
    simp only [h0, h1] at this
    have e : (some b == some b') = false := by simp [Ne.symm hb']
    rw [e] at this
    unfold nRead
    simp at this
    omega

theorem nRead_set_leave {ls : List Local} {t : Nat} {l l' : Local} {b : Nat} (h : ls[t]? = some l)
    (h0 : holdsRead l.pc = some b) (h1 : holdsRead l'.pc = none) :
    nRead b (ls.set t l') + 1 = nRead b ls ∧ ∀ b', b' ≠ b → nRead b' (ls.set t l') = nRead b' ls := by
  refine ⟨?_, fun b' hb' => ?_⟩
  · have := countP_set (fun l => holdsRead l.pc == some b) ls t l l' h
    simp only [h0, h1, beq_self_eq_true, if_true] at this
    unfold nRead
    simp at this
    omega
  · have := countP_set (fun l => holdsRead l.pc == some b') ls t l l' h
    simp only [h0, h1] at this
    have e : (some b == some b') = false := by simp [Ne.symm hb']
    rw [e] at this
    unfold nRead
    simp at this
    omega

/-- the read-write words of the old bins are unchanged; new bins have default words -/
def RwSame (tb tb' : List TBin) : Prop :=
  tb.length ≤ tb'.length ∧ (∀ i, i < tb.length → (binOf tb' i).readers = (binOf tb i).readers ∧
    (binOf tb' i).writer = (binOf tb i).writer) ∧
  ∀ i, tb.length ≤ i → (binOf tb' i).readers = 0 ∧ (binOf tb' i).writer = false

theorem binOf_ge (tb : List TBin) {i : Nat} (h : tb.length ≤ i) : binOf tb i = dfltB := by
  unfold binOf; rw [getD_eq, List.getElem?_eq_none h]; rfl

theorem RwSame.refl (tb : List TBin) : RwSame tb tb :=
  ⟨Nat.le_refl _, fun _ _ => ⟨rfl, rfl⟩, fun i hi => by rw [binOf_ge tb hi]; exact ⟨rfl, rfl⟩⟩

theorem RwSame.trans {a b c : List TBin} (h1 : RwSame a b) (h2 : RwSame b c) : RwSame a c := by
  refine ⟨Nat.le_trans h1.1 h2.1, fun i hi => ?_, fun i hi => ?_⟩
  · have x := h1.2.1 i hi
    have y := h2.2.1 i (by have := h1.1; omega)
    exact ⟨y.1.trans x.1, y.2.trans x.2⟩
  · by_cases hb : i < b.length
    · have x := h1.2.2 i hi
      have y := h2.2.1 i hb
      exact ⟨y.1.trans x.1, y.2.trans x.2⟩
    · exact h2.2.2 i (by omega)

theorem binOf_modify_ne (tb : List TBin) {b i : Nat} (f : TBin → TBin) (h : i ≠ b) :
    binOf (tb.modify b f) i = binOf tb i := by
  unfold binOf; rw [getD_eq, getD_eq, List.getElem?_modify]; simp [Ne.symm h]

theorem binOf_modify_self (tb : List TBin) {b : Nat} (f : TBin → TBin) (h : b < tb.length) :
    binOf (tb.modify b f) b = f (binOf tb b) := by
  unfold binOf; rw [getD_eq, getD_eq, List.getElem?_modify, List.getElem?_eq_getElem h]; simp

theorem RwSame.modify (tb : List TBin) (b : Nat) (f : TBin → TBin)
    (hf : ∀ n, (f n).readers = n.readers ∧ (f n).writer = n.writer) : RwSame tb (tb.modify b f) := by
  refine ⟨by simp, fun i hi => ?_, fun i hi => ?_⟩
  · by_cases e : i = b
    · subst e; rw [binOf_modify_self _ _ hi]; exact hf _
    · rw [binOf_modify_ne _ _ e]; exact ⟨rfl, rfl⟩
  · rw [binOf_ge _ (by simpa using hi)]; exact ⟨rfl, rfl⟩

theorem RwSame.append1 (tb : List TBin) (n : TBin) (h1 : n.readers = 0) (h2 : n.writer = false) :
    RwSame tb (tb ++ [n]) := by
  refine ⟨by simp, fun i hi => ?_, fun i hi => ?_⟩
  · unfold binOf; rw [getD_eq, getD_eq, List.getElem?_append_left hi]; exact ⟨rfl, rfl⟩
  · unfold binOf
    rw [getD_eq, List.getElem?_append_right hi]
    cases he : [n][i - tb.length]? with
    | none => exact ⟨rfl, rfl⟩
    | some m =>
      have := List.mem_of_getElem? he
      simp at this; subst this; exact ⟨h1, h2⟩

/-- the generic preservation lemma: no read-write word changes, the acting thread keeps its read lock (if any),
does not enter a write section, and refers to an existing bin -/
theorem rwinv_same {s s' : State} {t : Nat} {l l' : Local} (R : RwInv s) (hl : s.threads[t]? = some l)
    (hthr : s'.threads = s.threads.set t l') (hx : RwSame s.tbins s'.tbins)
    (hr : holdsRead l'.pc = holdsRead l.pc) (hw : wrSec l'.pc = none ∨ wrSec l'.pc = wrSec l.pc)
    (href : ∀ b, readerRef l'.pc = some b → b < s.tbins.length) : RwInv s' := by
  have hb : ∀ b, (binOf s'.tbins b).readers = (binOf s.tbins b).readers ∧
      (binOf s'.tbins b).writer = (binOf s.tbins b).writer := by
    intro b
    by_cases h : b < s.tbins.length
    · exact hx.2.1 b h
    · have := hx.2.2 b (by omega)
      rw [binOf_ge s.tbins (by omega)]
      exact this
  refine ⟨?_, ?_, ?_, ?_⟩
  · intro t1 l1 b h1 hr1
    rw [hthr] at h1
    rcases get_set h1 with ⟨rfl, rfl⟩ | ⟨n1, h1⟩
    · exact Nat.lt_of_lt_of_le (href b hr1) hx.1
    · exact Nat.lt_of_lt_of_le (R.refR t1 l1 b h1 hr1) hx.1
  · intro b hbl
    rw [hthr, nRead_set_same b hl hr]
    by_cases h : b < s.tbins.length
    · rw [(hb b).1]; exact R.rd b h
    · rw [(hx.2.2 b (by omega)).1]
      -- nobody holds a read lock on a bin that did not exist
      unfold nRead
      symm
      rw [List.countP_eq_zero]
      intro l1 hl1 hq
      obtain ⟨t1, h1⟩ := List.getElem?_of_mem hl1
      have : holdsRead l1.pc = some b := by simpa using hq
      have hr1 : readerRef l1.pc = some b := by
        obtain ⟨pc, call⟩ := l1
        cases pc <;> simp [holdsRead] at this <;> simp [readerRef, this]
      exact h (R.refR t1 l1 b h1 hr1)
  · intro b hwb
    rw [(hb b).2] at hwb
    rw [(hb b).1]; exact R.wrd b hwb
  · intro t1 l1 b h1 hw1
    rw [hthr] at h1
    rw [(hb b).2]
    rcases get_set h1 with ⟨rfl, rfl⟩ | ⟨n1, h1⟩
    · rcases hw with e | e
      · rw [e] at hw1; cases hw1
      · rw [e] at hw1; exact R.wsec t1 l b hl hw1
    · exact R.wsec t1 l1 b h1 hw1

end Flurry.Proto.BinGN
