import Flurry.Lemmas.BinNIInv
/-! # Proto/BinNI: an iterator is never blocked and writes nothing (C07) -/
namespace Flurry.Proto.BinNI
open Flurry.Lin
open Flurry.Proto.BinX (NodeS Cell Pending isReader dflt chainFrom cellHead cellOfHead nodeAt nodeAt_of_some get_set chainH)
open Flurry.Proto.BinN (Ghost Inv HInv cellAt IGood)

/-- the shared state with the clock advanced -/
def tickN (n : BinN.State) : BinN.State := { n with now := n.now + 1 }

/-- a step of an iterating thread is always enabled, whatever the scheduler's other choices; on the shared
part it only advances the clock -/
theorem iter_enabled {nt : Nat} {s : State} {G : Ghost} (I : IInv nt s G) {t : Nat} {it : Iter}
    (hi : s.its[t]? = some (some it)) (mk : Bool) (inv : Option (Nat × KOp)) (rz : Bool) (pick : Nat) :
    ∃ s', step s t mk inv rz pick = some s' ∧ s'.n = tickN s.n ∧ iterStep s t it (tickN s.n) = some s' := by
  obtain ⟨l0, hl0, hpc0⟩ := I.idle t it hi
  obtain ⟨-, g2, -⟩ := I.good t it hi
  have hstep : step s t mk inv rz pick = iterStep s t it (tickN s.n) := by
    unfold step; rw [hi]; simp only; rw [idle_step hl0 hpc0]; rfl
  have hex : ∃ s', iterStep s t it (tickN s.n) = some s' := by
    unfold iterStep
    cases hp : it.ptr with
    | some c =>
      rw [hp] at g2
      have hlt : c < (tickN s.n).heap.length := g2.lt I.inv.heap
      simp only
      rw [List.getElem?_eq_getElem hlt]
      exact ⟨_, rfl⟩
    | none =>
      simp only
      cases it.todo with
      | nil => exact ⟨_, rfl⟩
      | cons x rest =>
        obtain ⟨g, j⟩ := x
        simp only
        cases cellAt (tickN s.n) g j <;> exact ⟨_, rfl⟩
  obtain ⟨s', h⟩ := hex
  exact ⟨s', by rw [hstep]; exact h, (iterStep_cases h).1, h⟩

end Flurry.Proto.BinNI
