import Flurry.Lemmas.RwLockProgress
/-! # Lemmas/RwLockDrain: the readers can always run to completion, after which the writer is enabled

`wake_progress` excludes failed `cas` steps. Here the refined per-reader measure `mpc` also
accounts for them (a reader whose `cas` fails reloads and then succeeds if nobody interferes), which
gives: from *every* state there is a reader-only run after which all readers are idle; from every
reachable state the writer is enabled at the end of it. -/
namespace Flurry.Proto.RwLock
open Flurry.Gen

/-- steps reader `i` needs (alone, taking `more = false`) until it is idle, given the lock word -/
def mpc (ls : Int) : RPc → Nat
  | .idle => 0
  | .slow => 1
  | .unpark => 1
  | .loadWaiter => 2
  | .release => 3
  | .tree => 4
  | .cas st => if ls == st then 5 else 8
  | .decide st => if hasBit st WAITER || hasBit st WRITER then 2 else if ls == st then 6 else 9
  | .load => 7

theorem stepReader_mpc {s : State} {i : Nat} {pc : RPc} (hi : s.readers[i]? = some pc)
    (hne : pc ≠ .idle) :
    ∃ (s' : State) (pc' : RPc), stepReader s i false = some s' ∧ s'.readers = s.readers.set i pc' ∧
      mpc s'.lockState pc' < mpc s.lockState pc := by
  rcases s with ⟨ls, ws, tk, wpc, wt, rs⟩
  simp only at hi
  simp only [stepReader, hi]
  cases pc <;> simp only []
  all_goals (try split)
  all_goals (try (exact absurd rfl hne))
  all_goals refine ⟨_, _, rfl, rfl, ?_⟩
  all_goals simp_all [mpc]
  all_goals (repeat' split)
  all_goals simp_all

theorem ReaderRun.head {s s' s'' : State} (i : Nat) (more : Bool)
    (hs : stepReader s i more = some s') (r : ReaderRun s' s'') : ReaderRun s s'' := by
  induction r with
  | refl => exact ReaderRun.step i more (ReaderRun.refl s) hs
  | step j m _ hs' ih => exact ReaderRun.step j m ih hs'

theorem ReaderRun.trans {s s' s'' : State} (r1 : ReaderRun s s') (r2 : ReaderRun s' s'') :
    ReaderRun s s'' := by
  induction r2 with
  | refl => exact r1
  | step j m _ hs' ih => exact ReaderRun.step j m ih hs'

theorem set_self_of_getElem? {rs : List RPc} {i : Nat} {pc : RPc} (h : rs[i]? = some pc) :
    rs.set i pc = rs := by
  induction rs generalizing i with
  | nil => rfl
  | cons a t ih =>
    cases i with
    | zero => simp at h; subst h; rfl
    | succ j => simp at h; simp [ih h]

/-- reader `i` alone can run until it is idle; the other readers do not move -/
theorem drain_one (k : Nat) : ∀ (s : State) (i : Nat) (pc : RPc), s.readers[i]? = some pc →
    mpc s.lockState pc ≤ k → ∃ s', ReaderRun s s' ∧ s'.readers = s.readers.set i .idle := by
  induction k with
  | zero =>
    intro s i pc hi hk
    have : pc = .idle := by
      cases pc <;> simp [mpc] at hk ⊢ <;> (repeat' split at hk) <;> omega
    subst this
    exact ⟨s, ReaderRun.refl s, (set_self_of_getElem? hi).symm⟩
  | succ k ih =>
    intro s i pc hi hk
    by_cases hne : pc = .idle
    · subst hne
      exact ⟨s, ReaderRun.refl s, (set_self_of_getElem? hi).symm⟩
    · obtain ⟨s1, pc1, hs, hrs, hlt⟩ := stepReader_mpc hi hne
      have hlen : i < s.readers.length := by
        rcases Nat.lt_or_ge i s.readers.length with h | h
        · exact h
        · simp [List.getElem?_eq_none h] at hi
      have hi1 : s1.readers[i]? = some pc1 := by simp [hrs, hlen]
      obtain ⟨s2, r, hrs2⟩ := ih s1 i pc1 hi1 (by omega)
      refine ⟨s2, ReaderRun.head i false hs r, ?_⟩
      rw [hrs2, hrs, List.set_set]

/-- all readers can run until all of them are idle -/
theorem drain_upto (k : Nat) : ∀ s : State, ∃ s', ReaderRun s s' ∧
    s'.readers.length = s.readers.length ∧
    ∀ i : Nat, i < k → i < s.readers.length → s'.readers[i]? = some .idle := by
  induction k with
  | zero => intro s; exact ⟨s, ReaderRun.refl s, rfl, by intro i h; omega⟩
  | succ k ih =>
    intro s
    obtain ⟨s1, r1, hlen1, h1⟩ := ih s
    by_cases hk : k < s.readers.length
    · have hk1 : k < s1.readers.length := by omega
      obtain ⟨s2, r2, h2⟩ := drain_one _ s1 k s1.readers[k] (List.getElem?_eq_getElem hk1)
        (Nat.le_refl _)
      refine ⟨s2, r1.trans r2, by simp [h2, hlen1], ?_⟩
      intro i hik hil
      rw [h2]
      by_cases hik' : i = k
      · subst hik'; simp [hk1]
      · rw [List.getElem?_set_ne (by omega)]
        exact h1 i (by omega) hil
    · exact ⟨s1, r1, hlen1, by intro i hik hil; exact h1 i (by omega) hil⟩

theorem readers_can_drain (s : State) : ∃ s', ReaderRun s s' ∧
    ∀ (i : Nat) (pc : RPc), s'.readers[i]? = some pc → pc = .idle := by
  obtain ⟨s', r, hlen, h⟩ := drain_upto s.readers.length s
  refine ⟨s', r, ?_⟩
  intro i pc hi
  have hlt : i < s'.readers.length := by
    rcases Nat.lt_or_ge i s'.readers.length with h | h
    · exact h
    · simp [List.getElem?_eq_none h] at hi
  have := h i (by omega) (by omega)
  rw [this] at hi
  exact (Option.some.inj hi).symm

/-- possibility-liveness for the writer: from every reachable state the readers alone can bring
the system to a state in which the writer's next step is enabled — in particular a parked writer
always gets its token once the readers have drained. -/
theorem writer_eventually_enabled {n : Nat} {s : State} (h : Reachable n s) :
    ∃ s', ReaderRun s s' ∧ Reachable n s' ∧ stepWriter s' ≠ none := by
  obtain ⟨s', r, hidle⟩ := readers_can_drain s
  exact ⟨s', r, r.reachable h, deadlock_free (r.reachable h) hidle⟩

end Flurry.Proto.RwLock
