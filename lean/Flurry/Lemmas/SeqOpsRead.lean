import Flurry.Lemmas.SeqOpsCip
/-! # O7 (`len`, `entries`, the read operations) and O4 (`clear`) -/
namespace Flurry.Seq
open Flurry Flurry.Gen

/-! ## O7 -/

theorem len_eq_entries_length {m : Map} (hg : Good m) : len m = (entries m).length := hg.1.len_eq

theorem entries_keys_nodup_of_good {m : Map} (hg : Good m) : ((entries m).map (·.key)).Nodup := by
  cases ht : m.table with
  | none => rw [entries_of_table_none ht]; exact List.nodup_nil
  | some t => exact entries_keys_nodup ht (hg.1.tableWF ht)

/-- iteration and lookup agree: a node is iterated iff looking up its key finds that very node -/
theorem mem_entries_iff {m : Map} (hg : Good m) {nd : Node} :
    nd ∈ entries m ↔ get nd.key m = some nd := by
  cases ht : m.table with
  | none => rw [entries_of_table_none ht, get_of_table_none ht]; simp
  | some t =>
    rw [get_iff ht (hg.1.tableWF ht)]
    exact ⟨fun h => ⟨h, rfl⟩, fun h => h.1⟩

theorem get_some_iff {m : Map} (hg : Good m) {k : Nat} {nd : Node} :
    get k m = some nd ↔ nd ∈ entries m ∧ nd.key = k := by
  cases ht : m.table with
  | none => rw [entries_of_table_none ht, get_of_table_none ht]; simp
  | some t => exact get_iff ht (hg.1.tableWF ht)

theorem len_eq_zero_iff {m : Map} (hg : Good m) : len m = 0 ↔ entries m = [] := by
  rw [len_eq_entries_length hg, List.length_eq_zero_iff]

theorem isEmpty_eq {m : Map} (hg : Good m) : (len m == 0) = (entries m).isEmpty := by
  rw [len_eq_entries_length hg]
  cases entries m <;> rfl

/-- the keys present in the abstract map are exactly the keys iterated … -/
theorem absMap_isSome_iff {m : Map} (hg : Good m) (k : Nat) :
    (absMap m k).isSome = true ↔ k ∈ (entries m).map (·.key) := by
  rw [absMap_isSome]
  cases ht : m.table with
  | none => rw [entries_of_table_none ht, get_of_table_none ht]; simp
  | some t => exact get_isSome_iff ht (hg.1.tableWF ht)

/-- … and (no key is iterated twice) there are `len m` of them -/
theorem len_eq_keys_length {m : Map} (hg : Good m) : len m = ((entries m).map (·.key)).length := by
  rw [List.length_map, len_eq_entries_length hg]

/-- the value triple found for an iterated node -/
theorem absMap_of_mem_entries {m : Map} (hg : Good m) {nd : Node} (h : nd ∈ entries m) :
    absMap m nd.key = some (nd.ki, nd.val, nd.vi) := by
  simp only [absMap, (mem_entries_iff hg).1 h, Option.map_some]

/-! ### the read operations -/

theorem step_get (k : Nat) (m : Map) :
    (step m (.get k)).1 = m ∧ (step m (.get k)).2 = (Ref.step (absMap m) (.get k)).2 := by
  refine ⟨rfl, ?_⟩
  simp only [step, Ref.step, absMap]
  cases get k m <;> rfl

theorem step_getKV (k : Nat) (m : Map) :
    (step m (.getKV k)).1 = m ∧ (step m (.getKV k)).2 = (Ref.step (absMap m) (.getKV k)).2 := by
  refine ⟨rfl, ?_⟩
  simp only [step, Ref.step, absMap]
  cases get k m <;> rfl

theorem step_has (k : Nat) (m : Map) :
    (step m (.has k)).1 = m ∧ (step m (.has k)).2 = (Ref.step (absMap m) (.has k)).2 := by
  refine ⟨rfl, ?_⟩
  simp only [step, Ref.step, absMap_isSome]

/-! ## O4: `clear` -/

theorem clear_of_none {m : Map} (ht : m.table = none) : clear m = m := by
  simp only [clear, ht]

theorem clear_of_some {m : Map} {t : Table} (ht : m.table = some t) :
    clear m = { m with table := some (emptyTable t.length),
                       count := m.count - Int.ofNat (entries m).length } := by
  simp only [clear, ht]
  split
  · rw [addCount_none]
    show _ = _
    congr 1
  next h =>
    have h0 : (entries m).length = 0 := by
      simp only [entries, ht, Int.ofNat_eq_natCast, bne_iff_ne, ne_eq, Int.neg_eq_zero,
        Int.natCast_eq_zero, Decidable.not_not] at h ⊢
      exact h
    rw [h0]
    simp

theorem clear_table_len (m : Map) : tableLen (clear m) = tableLen m := by
  cases ht : m.table with
  | none => rw [clear_of_none ht]
  | some t => rw [clear_of_some ht, tableLen_of_some ht]; simp [tableLen, emptyTable_length]

theorem clear_resizes (m : Map) : (clear m).resizes = m.resizes := by
  cases ht : m.table with
  | none => rw [clear_of_none ht]
  | some t => rw [clear_of_some ht]

theorem clear_hash (m : Map) : (clear m).hash = m.hash := by
  cases ht : m.table with
  | none => rw [clear_of_none ht]
  | some t => rw [clear_of_some ht]

theorem clear_sizeCtl (m : Map) : (clear m).sizeCtl = m.sizeCtl := by
  cases ht : m.table with
  | none => rw [clear_of_none ht]
  | some t => rw [clear_of_some ht]

theorem clear_entries (m : Map) : entries (clear m) = [] := by
  cases ht : m.table with
  | none => rw [clear_of_none ht, entries_of_table_none ht]
  | some t => rw [clear_of_some ht]; exact entries_emptyTable rfl

theorem clear_get (m : Map) (k : Nat) : get k (clear m) = none := by
  cases ht : m.table with
  | none => rw [clear_of_none ht, get_of_table_none ht]
  | some t => rw [clear_of_some ht]; exact get_emptyTable rfl k

theorem clear_good {m : Map} (hg : Good m) : Good (clear m) := by
  cases ht : m.table with
  | none => rw [clear_of_none ht]; exact hg
  | some t =>
    obtain ⟨htw, hc, hs, _⟩ := (wf_some_iff ht).1 hg.1
    rw [clear_of_some ht]
    refine Good.of_some ((wf_some_iff rfl).2 ⟨tableWF_emptyTable _ htw.1 htw.2.1, ?_, ?_, Or.inl ?_⟩) rfl
    · rw [entries_emptyTable (m := { m with table := some (emptyTable t.length), count := m.count - Int.ofNat (entries m).length }) (n := t.length) rfl]
      show m.count - Int.ofNat (entries m).length = _
      rw [hc]; simp
    · rw [emptyTable_length]; exact hs
    · show m.count - Int.ofNat (entries m).length < m.sizeCtl
      rw [hc, hs]
      have := loadFactor_pos htw.length_pos
      simp only [Int.ofNat_eq_natCast] at this ⊢
      omega

/-- **O4** -/
theorem clear_absMap (m : Map) : absMap (clear m) = Ref.empty := by
  funext k; simp only [absMap, clear_get m k, Ref.empty, Option.map_none]

theorem clear_len {m : Map} (hg : Good m) : len (clear m) = 0 := by
  rw [len_eq_entries_length (clear_good hg), clear_entries m]; rfl

theorem step_clear {m : Map} (hg : Good m) :
    Good (step m .clear).1 ∧ absMap (step m .clear).1 = (Ref.step (absMap m) .clear).1 ∧
    (step m .clear).2 = (Ref.step (absMap m) .clear).2 :=
  ⟨clear_good hg, clear_absMap m, rfl⟩

end Flurry.Seq
