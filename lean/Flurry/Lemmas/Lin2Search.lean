import Flurry.Lemmas.Lin2Basic
/-! # The brute-force witness search is sound and complete

(C13 port of `Flurry/Lemmas/LinSearch.lean` to the per-key operations of `Flurry/Lin2.lean`, i.e. with `retain`'s conditional removal `condRm`; below, "`Proto/Bin`" / `Base.` is `Flurry.Proto.BinR.Base` (`Proto/BinRBase.lean`) and "`Proto/BinW`" is `Flurry.Proto.BinR` (`Proto/BinR.lean`), which in addition has the `retain` visit steps.)
-/
namespace Flurry.Lin2

theorem firstM_eq_some {α β : Type} {f : α → Option β} {b : β} :
    ∀ {l : List α}, l.firstM f = some b → ∃ x ∈ l, f x = some b
  | [], hl => by simp [List.firstM] at hl
  | a :: l, hl => by
    have hl' : (f a).or (l.firstM f) = some b := by simpa [List.firstM] using hl
    rcases Option.or_eq_some_iff.1 hl' with h1 | ⟨_, h2⟩
    · exact ⟨a, List.mem_cons_self, h1⟩
    · obtain ⟨x, hx, hfx⟩ := firstM_eq_some h2
      exact ⟨x, List.mem_cons_of_mem _ hx, hfx⟩

theorem firstM_isSome {α β : Type} {f : α → Option β} :
    ∀ {l : List α}, (∃ x ∈ l, (f x).isSome = true) → (l.firstM f).isSome = true
  | [], hl => by simp at hl
  | a :: l, ⟨x, hx, hfx⟩ => by
    have : ((a :: l).firstM f) = (f a).or (l.firstM f) := by simp [List.firstM]
    rw [this]
    cases hfa : f a with
    | some y => simp
    | none =>
      rcases List.mem_cons.1 hx with rfl | hx'
      · simp [hfa] at hfx
      · simpa using firstM_isSome ⟨x, hx', hfx⟩

/-- the body of `search.go` for one candidate `i` -/
def tryNext (h : History2) (fin : KSt) (fuel : Nat) (rem acc : List Nat) (st : KSt) (i : Nat) :
    Option (List Nat) :=
  match h[i]? with
  | none => none
  | some c =>
    if rem.all (fun j => j == i || match h[j]? with | some d => mayPrecede c d | none => false) then
      let r := specStep2 st c.op
      if r.2 = c.res then search.go h fin fuel (rem.erase i) (i :: acc) r.1 else none
    else none

theorem go_cons_eq (h : History2) (fin : KSt) (fuel : Nat) (rem acc : List Nat) (st : KSt)
    (hne : rem ≠ []) :
    search.go h fin (fuel + 1) rem acc st = rem.firstM (tryNext h fin fuel rem acc st) := by
  rw [search.go.eq_3 h fin rem acc st fuel (by simpa using hne)]
  rfl

theorem tryNext_eq_some {h : History2} {fin : KSt} {fuel : Nat} {rem acc : List Nat} {st : KSt}
    {i : Nat} {order : List Nat} (ht : tryNext h fin fuel rem acc st i = some order) :
    ∃ c, h[i]? = some c ∧ (∀ j ∈ rem, j ≠ i → rtOk h i j = true) ∧
      (specStep2 st c.op).2 = c.res ∧
      search.go h fin fuel (rem.erase i) (i :: acc) (specStep2 st c.op).1 = some order := by
  unfold tryNext at ht
  cases hc : h[i]? with
  | none => simp [hc] at ht
  | some c =>
    simp only [hc] at ht
    split at ht
    · rename_i hall
      split at ht
      · rename_i hres
        refine ⟨c, rfl, ?_, hres, ht⟩
        intro j hj hji
        have := List.all_eq_true.1 hall j hj
        simp only [Bool.or_eq_true, beq_iff_eq, hji, false_or] at this
        unfold rtOk
        rw [hc]
        cases hd : h[j]? with
        | none => simp [hd] at this
        | some d => simpa [hd] using this
      · simp at ht
    · simp at ht

theorem tryNext_isSome {h : History2} {fin : KSt} {fuel : Nat} {rem acc : List Nat} {st : KSt}
    {i : Nat} {c : Call2} (hc : h[i]? = some c) (hrt : ∀ j ∈ rem, j ≠ i → rtOk h i j = true)
    (hres : (specStep2 st c.op).2 = c.res)
    (hgo : (search.go h fin fuel (rem.erase i) (i :: acc) (specStep2 st c.op).1).isSome = true) :
    (tryNext h fin fuel rem acc st i).isSome = true := by
  unfold tryNext
  simp only [hc]
  have hall : rem.all (fun j => j == i || match h[j]? with | some d => mayPrecede c d | none => false) = true := by
    apply List.all_eq_true.2
    intro j hj
    by_cases hji : j = i
    · simp [hji]
    · have := hrt j hj hji
      unfold rtOk at this
      rw [hc] at this
      cases hd : h[j]? with
      | none => simp [hd] at this
      | some d => simpa [hd] using Or.inr this
  rw [if_pos hall]
  simp only [hres, if_true]
  exact hgo

theorem replay_cons_some {h : History2} {i : Nat} {rest : List Nat} {st : KSt} {c : Call2}
    (hc : h[i]? = some c) :
    replay2 h (i :: rest) st =
      if (specStep2 st c.op).2 = c.res then replay2 h rest (specStep2 st c.op).1 else none := by
  simp [replay2, hc]

theorem replay_cons_eq_some {h : History2} {i : Nat} {rest : List Nat} {st fin : KSt}
    (hr : replay2 h (i :: rest) st = some fin) :
    ∃ c, h[i]? = some c ∧ (specStep2 st c.op).2 = c.res ∧
      replay2 h rest (specStep2 st c.op).1 = some fin := by
  cases hc : h[i]? with
  | none => simp [replay2, hc] at hr
  | some c =>
    rw [replay_cons_some hc] at hr
    split at hr
    · rename_i hres; exact ⟨c, rfl, hres, hr⟩
    · simp at hr

theorem go_sound (h : History2) (fin : KSt) : ∀ (fuel : Nat) (rem acc : List Nat) (st : KSt)
    (order : List Nat), rem.Nodup → search.go h fin fuel rem acc st = some order →
    ∃ tail, order = acc.reverse ++ tail ∧ tail.Perm rem ∧
      tail.Pairwise (fun i j => rtOk h i j = true) ∧ replay2 h tail st = some fin
  | 0, rem, acc, st, order, _, hgo => by simp [search.go] at hgo
  | fuel + 1, [], acc, st, order, _, hgo => by
    rw [search.go.eq_2] at hgo
    split at hgo
    · rename_i hst
      refine ⟨[], ?_, List.Perm.refl _, List.Pairwise.nil, ?_⟩
      · simpa using (Option.some.inj hgo).symm
      · simp [replay2, hst]
    · simp at hgo
  | fuel + 1, r :: rs, acc, st, order, hnd, hgo => by
    rw [go_cons_eq h fin fuel (r :: rs) acc st (by simp)] at hgo
    obtain ⟨i, hi, hti⟩ := firstM_eq_some hgo
    obtain ⟨c, hc, hrt, hres, hgo'⟩ := tryNext_eq_some hti
    obtain ⟨tail, ho, hperm, hpw, hrep⟩ :=
      go_sound h fin fuel ((r :: rs).erase i) (i :: acc) _ order (hnd.erase i) hgo'
    refine ⟨i :: tail, ?_, ?_, ?_, ?_⟩
    · simp [ho]
    · exact ((List.Perm.cons i hperm).trans (List.perm_cons_erase hi).symm)
    · refine List.pairwise_cons.2 ⟨?_, hpw⟩
      intro j hj
      have hj' := hperm.subset hj
      have := (List.Nodup.mem_erase_iff hnd).1 hj'
      exact hrt j this.2 this.1
    · rw [replay_cons_some hc, if_pos hres]; exact hrep

/-- **Target 2a**: a witness found by the search is an accepted certificate. -/
theorem search_sound {h : History2} {init fin : KSt} {order : List Nat}
    (hs : search h init fin = some order) : validate h order init fin = true := by
  unfold search at hs
  obtain ⟨tail, ho, hperm, hpw, hrep⟩ :=
    go_sound h fin _ _ _ _ order List.nodup_range hs
  simp only [List.reverse_nil, List.nil_append] at ho
  subst ho
  exact validate_iff.2 ⟨hperm, hpw, hrep⟩

theorem search_linearizable {h : History2} {init fin : KSt} {order : List Nat}
    (hs : search h init fin = some order) : Linearizable2 h init fin :=
  validate_sound (search_sound hs)

theorem go_complete (h : History2) (fin : KSt) : ∀ (fuel : Nat) (rem acc : List Nat) (st : KSt)
    (tail : List Nat), rem.length < fuel → tail.Perm rem → tail.Nodup →
    tail.Pairwise (fun i j => rtOk h i j = true) → replay2 h tail st = some fin →
    (search.go h fin fuel rem acc st).isSome = true
  | 0, rem, acc, st, tail, hf, _, _, _, _ => by omega
  | fuel + 1, [], acc, st, tail, _, hperm, _, _, hrep => by
    have : tail = [] := hperm.eq_nil
    subst this
    simp only [replay2, Option.some.injEq] at hrep
    rw [search.go.eq_2, if_pos hrep]; rfl
  | fuel + 1, r :: rs, acc, st, tail, hf, hperm, hnd, hpw, hrep => by
    rw [go_cons_eq h fin fuel (r :: rs) acc st (by simp)]
    match tail, hperm, hnd, hpw, hrep with
    | [], hperm, _, _, _ => exact absurd hperm.symm.eq_nil (by simp)
    | i :: tail', hperm, hnd, hpw, hrep =>
      obtain ⟨c, hc, hres, hrep'⟩ := replay_cons_eq_some hrep
      have hi : i ∈ r :: rs := hperm.subset List.mem_cons_self
      have hperm' : tail'.Perm ((r :: rs).erase i) := by
        have := hperm.erase i
        simpa using this
      apply firstM_isSome
      refine ⟨i, hi, tryNext_isSome hc ?_ hres ?_⟩
      · intro j hj hji
        have hj' : j ∈ i :: tail' := hperm.symm.subset hj
        rcases List.mem_cons.1 hj' with rfl | hj''
        · exact absurd rfl hji
        · exact (List.pairwise_cons.1 hpw).1 j hj''
      · apply go_complete h fin fuel _ _ _ tail' ?_ hperm' (List.nodup_cons.1 hnd).2
          (List.pairwise_cons.1 hpw).2 hrep'
        rw [List.length_erase_of_mem hi]
        simp only [List.length_cons] at hf ⊢
        omega

/-- **Target 2b**: the search is complete. -/
theorem search_complete {h : History2} {init fin : KSt} (hl : Linearizable2 h init fin) :
    (search h init fin).isSome = true := by
  obtain ⟨order, hperm, hpw, hrep⟩ := linearizable_iff_pairwise.1 hl
  unfold search
  exact go_complete h fin _ _ _ _ order (by simp) hperm (hperm.nodup_iff.2 List.nodup_range) hpw hrep

theorem search_isSome_iff {h : History2} {init fin : KSt} :
    (search h init fin).isSome = true ↔ Linearizable2 h init fin := by
  constructor
  · intro hs
    obtain ⟨order, ho⟩ := Option.isSome_iff_exists.1 hs
    exact search_linearizable ho
  · exact search_complete

theorem search_eq_none_iff {h : History2} {init fin : KSt} :
    search h init fin = none ↔ ¬ Linearizable2 h init fin := by
  rw [← search_isSome_iff]
  cases search h init fin <;> simp

instance (h : History2) (init fin : KSt) : Decidable (Linearizable2 h init fin) :=
  decidable_of_iff _ search_isSome_iff

end Flurry.Lin2
