import Flurry.Lemmas.BinGNProgEn
/-! # Proto/BinGN, progress (port of the `Lemmas/BinGProg*.lean` file of the same name): a reader's step is always enabled, takes no lock, and makes progress

`mu s pc` is an upper bound on the number of steps a reader at `pc` still takes when it runs alone
from `s`, whatever the other threads are suspended at. `reader_step`: in every reachable state the step
of a thread at a reader program counter is enabled, and it either completes the call (the thread is
`idle` again, one entry added to `hist`) or moves to another reader program counter with a strictly
smaller `mu`.

Why `mu` decreases:
* the table pointer is loaded once; a cell of generation `g` can be `moved` only if `g < tabs.length`: at most one hop per generation (a cell of the newest table is
  never `moved`: `HInv.newNotMoved`);
* `next` pointers are acyclic: `rank` (`Lemmas/BinKChain.lean`) decreases along `next` (`NextOK`: a
  `next` pointer goes down, or up and then up for ever — nodes are prepended, appended, or copied into
  fresh nodes), and a reader does not change the heap; so a walk standing on node `c` has at most
  `rank c ≤ 2 * heap.length` nodes ahead of it — one step each in a list bin (`rNode`, `lNode`), two
  steps each (`rState`, `rLin`) in the linear mode of a `TreeBin`;
* the lock word belongs to nobody else while the reader runs alone: after an `rState` that saw no
  writer and no waiter and `readers = r`, the CAS `r → r + 1` at `rCas b c r` succeeds; a reader that is
  *resumed* at `rCas b c r` with a stale `r` fails once, goes back to `rState`, and then succeeds or
  walks the list. Hence the case split in `mu (.rCas b c r)`. -/
namespace Flurry.Proto.BinGNP
open Flurry.Lin
open Flurry.Proto.BinK (nodeAt binAt lockSet isInsert NextOK nodeAt_of_some rank rank_le rank_lt get_set
  get_set_self get_set_ne binAt_modify)

/-! ## what a reader leaves alone -/

/-- what a reader's steps leave alone: the heap (so every node's lock word, value and `next`), the
cells of all generations, the table pointer, the resize flag, the number of `TreeBin`s and the `first` field,
the mutex, the `WRITER` and the `WAITER` bit of every one of them, and every other thread (only
`readers` of one `TreeBin`, its own local state, the clock and `hist` change) -/
structure Frame (t : Nat) (s s' : State) : Prop where
  heap : s'.heap = s.heap
  tabs : s'.tabs = s.tabs
  cur : s'.cur = s.cur
  resizing : s'.resizing = s.resizing
  nbins : s'.tbins.length = s.tbins.length
  first : ∀ b, (binAt s'.tbins b).first = (binAt s.tbins b).first
  mutex : ∀ b, (binAt s'.tbins b).mutex = (binAt s.tbins b).mutex
  writer : ∀ b, (binAt s'.tbins b).writer = (binAt s.tbins b).writer
  waiter : ∀ b, (binAt s'.tbins b).waiter = (binAt s.tbins b).waiter
  others : ∀ t', t' ≠ t → s'.threads[t']? = s.threads[t']?

theorem Frame.refl (t : Nat) (s : State) : Frame t s s :=
  ⟨rfl, rfl, rfl, rfl, rfl, fun _ => rfl, fun _ => rfl, fun _ => rfl, fun _ => rfl, fun _ _ => rfl⟩

theorem Frame.trans {t : Nat} {s1 s2 s3 : State} (a : Frame t s1 s2) (b : Frame t s2 s3) : Frame t s1 s3 :=
  ⟨b.heap.trans a.heap, b.tabs.trans a.tabs,
    b.cur.trans a.cur, b.resizing.trans a.resizing, b.nbins.trans a.nbins,
    fun x => (b.first x).trans (a.first x), fun x => (b.mutex x).trans (a.mutex x),
    fun x => (b.writer x).trans (a.writer x), fun x => (b.waiter x).trans (a.waiter x),
    fun t' h => (b.others t' h).trans (a.others t' h)⟩

/-- the successor state of a transition that changes at most the reader count of one `TreeBin` -/
theorem frame_of {s s' : State} {t : Nat} {l' : Local} (hh : s'.heap = s.heap) (h0 : s'.tabs = s.tabs)
    (hc : s'.cur = s.cur)
    (hr : s'.resizing = s.resizing) (hthr : s'.threads = s.threads.set t l')
    (htb : s'.tbins = s.tbins ∨ ∃ (b : Nat) (f : TBin → Nat), s'.tbins = s.tbins.modify b (fun x => { x with readers := f x })) :
    Frame t s s' := by
  have hoth : ∀ t', t' ≠ t → s'.threads[t']? = s.threads[t']? := by
    intro t' h; rw [hthr]; exact get_set_ne h
  rcases htb with htb | ⟨b, f, htb⟩
  · exact ⟨hh, h0, hc, hr, by rw [htb], fun _ => by rw [htb], fun _ => by rw [htb], fun _ => by rw [htb],
      fun _ => by rw [htb], hoth⟩
  · refine ⟨hh, h0, hc, hr, by rw [htb, List.length_modify], ?_, ?_, ?_, ?_, hoth⟩ <;>
      (intro c; rw [htb, binAt_modify]; split <;> rfl)

/-- **a reader takes no lock and stores nothing** (no reachability assumption needed) -/
theorem reader_step_frame_aux {s s' : State} {t : Nat} {l : Local} (hl : s.threads[t]? = some l)
    (hrd : readerPc l.pc = true) {inv : Option (Nat × KOp)} {lo : Bool} {mt : Option Nat} {rz sm sm2 : Bool} {pick : Nat}
    (hs : step s t inv lo mt rz sm sm2 pick = some s') : Frame t s s' := by
  have hk := step_stepN hl hs
  obtain ⟨pc, call⟩ := l
  cases hk with
  | idle hpc => cases hpc; cases hrd
  | maint k hpc => cases hpc; cases hrd
  | resizeStart hpc hr => cases hpc; cases hrd
  | invoke k op lo hpc => cases hpc; cases hrd
  | move p pc' hp hc hm =>
    have : hp = s.heap := by cases hm <;> first | rfl | cases hrd
    subst this
    exact frame_of (l' := ⟨pc', call⟩) rfl rfl rfl rfl rfl (Or.inl rfl)
  | bmove p pc' tb hc hm =>
    cases hm with
    | rCasOk _ _ _ => exact frame_of (l' := ⟨_, call⟩) rfl rfl rfl rfl rfl (Or.inr ⟨_, fun x => x.readers + 1, rfl⟩)
    | rRelVal _ => exact frame_of (l' := ⟨_, call⟩) rfl rfl rfl rfl rfl (Or.inr ⟨_, fun x => x.readers - 1, rfl⟩)
    | _ => cases hrd
  | kmove pc' hp hc hm => cases hm <;> cases hrd
  | kbmove pc' tb hc hm => cases hm <;> cases hrd
  | fin p res hp hc hf =>
    have : hp = s.heap := by cases hf <;> first | rfl | cases hrd
    subst this
    exact frame_of (l' := ⟨.idle, none⟩) rfl rfl rfl rfl rfl (Or.inl rfl)
  | bfin p res tb hc hf =>
    cases hf with
    | rRelNone => exact frame_of (l' := ⟨.idle, none⟩) rfl rfl rfl rfl rfl (Or.inr ⟨_, fun x => x.readers - 1, rfl⟩)
    | rRelHas _ => exact frame_of (l' := ⟨.idle, none⟩) rfl rfl rfl rfl rfl (Or.inr ⟨_, fun x => x.readers - 1, rfl⟩)
    | _ => cases hrd
  | cas p tab v vi hc hpc he hop => cases hpc; cases hrd
  | store p tab h pred hit hnext hc hpc => cases hpc; cases hrd
  | tval p tab b i v res hc hpc => cases hpc; cases hrd
  | prepend p tab b v vi hc hpc hop => cases hpc; cases hrd
  | treeLink p tab b x hc hpc => cases hpc; cases hrd
  | unlink p tab b i res small hc hpc => cases hpc; cases hrd
  | untree p tab b i res hc hpc => cases hpc; cases hrd
  | untreeify p tab b res hc hpc => cases hpc; cases hrd
  | kbuild tab k h hc hpc => cases hpc; cases hrd
  | kstore tab k h b hc hpc => cases hpc; cases hrd
  | xcasMoved j hc hpc h0 => cases hpc; cases hrd
  | xbuild j h hc hpc => cases hpc; cases hrd
  | ybuild j b small small2 hc hpc => cases hpc; cases hrd
  | xstoreLow j unl lo hi hc hpc => cases hpc; cases hrd
  | xstoreHigh j unl hi hc hpc => cases hpc; cases hrd
  | xstoreMoved j unl hc hpc => cases hpc; cases hrd
  | xcommit hc hpc => cases hpc; cases hrd

/-! ## the measure -/

/-- the CAS of a reader at `rCas b c r` would succeed -/
def casOk (s : State) (b r : Nat) : Bool :=
  !(binAt s.tbins b).writer && !(binAt s.tbins b).waiter && (binAt s.tbins b).readers == r

/-- an upper bound on the number of own steps a reader at `pc` still needs in `s` -/
def mu (s : State) : Pc → Nat
  | .rTable _ => s.tabs.length + 4 * s.heap.length + 10
  | .rCell _ g => (s.tabs.length - g) + 4 * s.heap.length + 8
  | .rNode none => 1
  | .rNode (some c) => rank s.heap c + 2
  | .rFirst _ => 4 * s.heap.length + 7
  | .rState _ none => 1
  | .rState _ (some c) => 2 * rank s.heap c + 6
  | .rLin _ c => 2 * rank s.heap c + 5
  | .rCas b c r => if casOk s b r = true then 4 else 2 * rank s.heap c + 7
  | .rTree _ => 3
  | .rRelease _ _ => 2
  | .rVal _ => 1
  | .lFirst _ => 2 * s.heap.length + 3
  | .lNode none => 1
  | .lNode (some c) => rank s.heap c + 2
  | _ => 0

/-- the bound of C12 for `Proto/BinGN`: an explicit function of the number of generations and of the heap size -/
def soloBound (s : State) : Nat := s.tabs.length + 4 * s.heap.length + 10

theorem rank_le_two {heap : List NodeS} {c : Nat} (hc : c < heap.length) : rank heap c ≤ 2 * heap.length := by
  have := rank_le heap c
  omega

/-- the heap indices a reader's program counter walks on -/
def WalkBound (n : Nat) : Pc → Prop
  | .rNode (some c) => c < n
  | .rState _ (some c) => c < n
  | .rLin _ c => c < n
  | .rCas _ c _ => c < n
  | .lNode (some c) => c < n
  | _ => True

theorem walkBound_of_pcInv {s : State} {p : Pending} {pc : Pc} (h : PcInv s p pc) : WalkBound s.heap.length pc := by
  cases pc with
  | rNode cur => cases cur <;> first | trivial | exact h
  | rState b cur => cases cur <;> first | trivial | exact h
  | rLin b c => exact h
  | rCas b c r => exact h
  | lNode cur => cases cur <;> first | trivial | exact h
  | _ => trivial

theorem mu_le_soloBound {s : State} {pc : Pc} (hb : WalkBound s.heap.length pc) : mu s pc ≤ soloBound s := by
  unfold soloBound
  cases pc with
  | rCell lo tab => simp only [mu]; omega
  | rNode cur =>
    cases cur with
    | none => simp only [mu]; omega
    | some c => have := rank_le_two (heap := s.heap) (c := c) hb; simp only [mu]; omega
  | rState b cur =>
    cases cur with
    | none => simp only [mu]; omega
    | some c => have := rank_le_two (heap := s.heap) (c := c) hb; simp only [mu]; omega
  | rLin b c => have := rank_le_two (heap := s.heap) (c := c) hb; simp only [mu]; omega
  | rCas b c r => have := rank_le_two (heap := s.heap) (c := c) hb; simp only [mu]; split <;> omega
  | lNode cur =>
    cases cur with
    | none => simp only [mu]; omega
    | some c => have := rank_le_two (heap := s.heap) (c := c) hb; simp only [mu]; omega
  | _ => simp only [mu] <;> omega

theorem mu_pos {s : State} {pc : Pc} (hr : readerPc pc = true) : 0 < mu s pc := by
  cases pc with
  | rCell lo tab => simp only [mu]; omega
  | rNode cur => cases cur <;> simp only [mu] <;> omega
  | rState b cur => cases cur <;> simp only [mu] <;> omega
  | lNode cur => cases cur <;> simp only [mu] <;> omega
  | rCas b c r => simp only [mu]; split <;> omega
  | rTable _ | rFirst _ | rLin _ _ | rTree _ | rRelease _ _ | rVal _ | lFirst _ => simp only [mu] <;> omega
  | _ => cases hr

theorem mu_congr {s s' : State} (hh : s'.heap = s.heap) (ht : s'.tbins = s.tbins) (hx : s'.tabs = s.tabs) (pc : Pc) :
    mu s' pc = mu s pc := by
  unfold mu casOk
  rw [hh, ht, hx]

/-! ## one step of a reader -/

/-- the result of one step of a reader `t` (call `p`, at `pc`) from `s`: it has returned, or it is at
a reader pc with a smaller measure; the history is untouched unless it returned -/
def Outcome (s : State) (t : Nat) (p : Pending) (pc : Pc) (s' : State) : Prop :=
  (s'.threads[t]? = some { pc := .idle, call := none } ∧
    ∃ res, s'.hist = (p.key, { tid := t, op := p.op, res := res, inv := p.inv, resp := s.now + 1 }) :: s.hist) ∨
  (∃ pc', s'.threads[t]? = some { pc := pc', call := some p } ∧ readerPc pc' = true ∧ s'.hist = s.hist ∧
    mu s' pc' < mu s pc)

theorem Outcome.fin {s s1 : State} {t : Nat} {l : Local} {p : Pending} {pc : Pc} (hl : s.threads[t]? = some l)
    (ht : s1.threads = s.threads) (hh : s1.hist = s.hist) (hn : s1.now = s.now + 1) (res : KRes) :
    Outcome s t p pc (finish s1 t p res) := by
  left
  refine ⟨?_, res, ?_⟩
  · show (s1.threads.set t _)[t]? = _
    rw [ht]; exact get_set_self hl
  · show (p.key, _) :: s1.hist = _
    rw [hh, hn]

theorem Outcome.move {s s1 : State} {t : Nat} {l : Local} {p : Pending} {pc : Pc} (hl : s.threads[t]? = some l)
    (pc' : Pc) (ht : s1.threads = s.threads.set t { pc := pc', call := some p }) (hh : s1.hist = s.hist)
    (hr : readerPc pc' = true) (hmu : mu s1 pc' < mu s pc) : Outcome s t p pc s1 := by
  right
  refine ⟨pc', ?_, hr, hh, hmu⟩
  rw [ht]; exact get_set_self hl

theorem cellOf_moved_lt {s : State} {g k : Nat} (hc : cellOf s g k = .moved) : g < s.tabs.length := by
  by_cases h : g < s.tabs.length
  · exact h
  · exfalso
    simp [Flurry.Proto.BinGN.cellOf, Flurry.Proto.BinGN.cellAt, List.getD_eq_getElem?_getD,
      List.getElem?_eq_none (Nat.le_of_not_lt h)] at hc

/-- the moves of a reader other than the CAS decrease the measure -/
theorem Move.mu_lt {s : State} {t : Nat} {p : Pending} {pc pc' : Pc} {hp : List NodeS}
    (hm : Move s t p pc pc' hp) (H : HInv s) (hrd : readerPc pc = true) (hnc : ∀ b c r, pc ≠ .rCas b c r) :
    hp = s.heap ∧ readerPc pc' = true ∧ mu s pc' < mu s pc := by
  cases hm with
  | rTable => refine ⟨rfl, rfl, ?_⟩; simp only [mu]; omega
  | @rCellMoved lo tab hc =>
    have := cellOf_moved_lt hc
    refine ⟨rfl, rfl, ?_⟩; simp only [mu]; omega
  | @rCellList lo tab h hc =>
    have hlt := cellOf_list_lt H hc
    have := rank_le_two hlt
    refine ⟨rfl, rfl, ?_⟩
    simp only [mu]; omega
  | @rCellTree lo tab b hc =>
    refine ⟨rfl, by cases lo <;> rfl, ?_⟩
    cases lo <;> simp only [mu, if_true, Bool.false_eq_true, if_false] <;> omega
  | @rNodeNext c n hn hk =>
    refine ⟨rfl, rfl, ?_⟩
    cases hx : n.next with
    | none => simp only [mu]; omega
    | some j => have := rank_lt H.nextOK hn hx; simp only [mu]; omega
  | @rFirst b =>
    refine ⟨rfl, rfl, ?_⟩
    cases hf : (binAt s.tbins b).first with
    | none => simp only [mu]; omega
    | some h => have := rank_le_two (H.firstOK b h hf); simp only [mu]; omega
  | rLinMode _ => refine ⟨rfl, rfl, ?_⟩; simp only [mu]; omega
  | @rTreeMode b c hbits =>
    refine ⟨rfl, rfl, ?_⟩
    have hw : (binAt s.tbins b).writer = false ∧ (binAt s.tbins b).waiter = false := by
      cases hw : (binAt s.tbins b).writer <;> cases ha : (binAt s.tbins b).waiter <;> simp_all
    have : casOk s b (binAt s.tbins b).readers = true := by
      unfold casOk; rw [hw.1, hw.2]; simp
    simp only [mu, this, if_true]; omega
  | @rLinNext b c n hn hk =>
    refine ⟨rfl, rfl, ?_⟩
    cases hx : n.next with
    | none => simp only [mu]; omega
    | some j => have := rank_lt H.nextOK hn hx; simp only [mu]; omega
  | rLinHit _ _ _ => refine ⟨rfl, rfl, ?_⟩; simp only [mu]; omega
  | @rCasFail b c r => exact absurd rfl (hnc b c r)
  | rTree => refine ⟨rfl, rfl, ?_⟩; simp only [mu]; omega
  | @lFirst b =>
    refine ⟨rfl, rfl, ?_⟩
    cases hf : (binAt s.tbins b).first with
    | none => simp only [mu]; omega
    | some h => have := rank_le_two (H.firstOK b h hf); simp only [mu]; omega
  | @lNext c n hn hk =>
    refine ⟨rfl, rfl, ?_⟩
    cases hx : n.next with
    | none => simp only [mu]; omega
    | some j => have := rank_lt H.nextOK hn hx; simp only [mu]; omega
  | lHit _ _ _ => refine ⟨rfl, rfl, ?_⟩; simp only [mu]; omega
  | _ => cases hrd

/-- the CAS of a reader: it succeeds, or fails once -/
theorem reader_step_cas {s : State} {t : Nat} {b c r : Nat} {p : Pending}
    (hl : s.threads[t]? = some ⟨.rCas b c r, some p⟩) (inv : Option (Nat × KOp)) (lo : Bool)
    (mt : Option Nat) (rz sm sm2 : Bool) (pick : Nat) :
    ∃ s', step s t inv lo mt rz sm sm2 pick = some s' ∧ Outcome s t p (.rCas b c r) s' := by
  unfold step stepG
  rw [hl]
  dsimp only
  by_cases hcond : casOk s b r = true
  · have hcond' := hcond
    unfold casOk binAt at hcond'
    rw [if_pos hcond']
    refine ⟨_, rfl, ?_⟩
    refine Outcome.move hl (.rTree b) rfl rfl rfl ?_
    simp only [mu, hcond, if_true]; omega
  · have hcond' := hcond
    unfold casOk binAt at hcond'
    rw [if_neg hcond']
    refine ⟨_, rfl, ?_⟩
    refine Outcome.move hl (.rState b (some c)) rfl rfl rfl ?_
    show mu s (.rState b (some c)) < mu s (.rCas b c r)
    simp only [mu]; rw [if_neg hcond]; omega

/-- **one step of a reader**: enabled, and it returns or gets closer to returning — in every state
with the invariants, for every choice of the scheduler's arguments -/
theorem reader_step_aux {s : State} (I : Inv s) (B : BInv s) {t : Nat} {l : Local}
    (hl : s.threads[t]? = some l) (hrd : readerPc l.pc = true) (inv : Option (Nat × KOp)) (lo : Bool)
    (mt : Option Nat) (rz sm sm2 : Bool) (pick : Nat) :
    ∃ p s', l.call = some p ∧ step s t inv lo mt rz sm sm2 pick = some s' ∧ Outcome s t p l.pc s' := by
  have hne : l.pc ≠ .idle := by intro h; rw [h] at hrd; cases hrd
  have hcs : l.call ≠ none := by
    intro h
    have := (I.thr.callOK t l hl).1 h
    revert this hrd
    cases l.pc <;> simp [readerPc, noCallPc, kPc, xPc]
  obtain ⟨pc, call⟩ := l
  cases call with
  | none => exact absurd rfl hcs
  | some p =>
  refine ⟨p, ?_⟩
  by_cases hcas : ∃ b c r, pc = .rCas b c r
  · obtain ⟨b, c, r, rfl⟩ := hcas
    obtain ⟨s', h1, h2⟩ := reader_step_cas hl inv lo mt rz sm sm2 pick
    exact ⟨s', rfl, h1, h2⟩
  · have hnc : ∀ b c r, pc ≠ .rCas b c r := fun b c r h => hcas ⟨b, c, r, h⟩
    have hen : (step s t inv lo mt rz sm sm2 pick).isSome = true := by
      rcases step_enabled_or_blocked I B hl hne inv lo mt rz sm sm2 pick with h | h
      · exact h
      · revert h hrd; cases pc <;> simp [readerPc, Blocked]
    obtain ⟨s', hs⟩ := Option.isSome_iff_exists.1 hen
    refine ⟨s', rfl, hs, ?_⟩
    have hk := step_stepN hl hs
    cases hk with
    | idle hpc => cases hpc; cases hrd
    | maint k hpc => cases hpc; cases hrd
    | resizeStart hpc hr => cases hpc; cases hrd
    | invoke k op lo hpc => cases hpc; cases hrd
    | move p' pc' hp hc hm =>
      cases hc
      obtain ⟨rfl, h2, h3⟩ := hm.mu_lt I.heap hrd hnc
      refine Outcome.move hl pc' rfl rfl h2 ?_
      exact h3
    | bmove p' pc' tb hc hm =>
      cases hc
      cases hm with
      | rCasOk _ _ _ => exact absurd rfl (hnc _ _ _)
      | rRelVal _ => refine Outcome.move hl (.rVal _) rfl rfl rfl ?_; simp only [mu]; omega
      | _ => cases hrd
    | kmove pc' hp hc hm => cases hc
    | kbmove pc' tb hc hm => cases hc
    | fin p' res hp hc hf =>
      cases hc
      exact Outcome.fin (s1 := qst s hp s.tbins) hl rfl rfl rfl res
    | bfin p' res tb hc hf =>
      cases hc
      exact Outcome.fin (s1 := qst s s.heap tb) hl rfl rfl rfl res
    | cas p' tab v vi hc hpc he hop => cases hpc; cases hrd
    | store p' tab h pred hit hnext hc hpc => cases hpc; cases hrd
    | tval p' tab b i v res hc hpc => cases hpc; cases hrd
    | prepend p' tab b v vi hc hpc hop => cases hpc; cases hrd
    | treeLink p' tab b x hc hpc => cases hpc; cases hrd
    | unlink p' tab b i res small hc hpc => cases hpc; cases hrd
    | untree p' tab b i res hc hpc => cases hpc; cases hrd
    | untreeify p' tab b res hc hpc => cases hpc; cases hrd
    | kbuild tab k h hc hpc => cases hc
    | kstore tab k h b hc hpc => cases hc
    | xcasMoved j hc hpc h0 => cases hc
    | xbuild j h hc hpc => cases hc
    | ybuild j b small small2 hc hpc => cases hc
    | xstoreLow j unl lo hi hc hpc => cases hc
    | xstoreHigh j unl hi hc hpc => cases hc
    | xstoreMoved j unl hc hpc => cases hc
    | xcommit hc hpc => cases hc

end Flurry.Proto.BinGNP
