import Flurry.Lemmas.BinGNNext
/-! # Proto/BinGN: while the resizing thread works on a cell (past its load), the cell is not forwarded -/
namespace Flurry.Proto.BinGN
open Flurry.Lin

/-- the cell the resizing thread works on, past the load that showed it is not forwarded -/
def preIdx : Pc → Option Nat
  | .xCasMoved j | .xLock j _ | .xCheck j _ | .xBuild j _ | .yMutex j _ | .yCheck j _ | .yBuild j _
  | .xStoreLow j _ _ _ | .xStoreHigh j _ _ | .xStoreMoved j _ => some j
  | _ => none

def PreInv (s : State) : Prop :=
  ∀ (t : Nat) (l : Local) (j : Nat), s.threads[t]? = some l → preIdx l.pc = some j → cellAt s s.cur j ≠ .moved

theorem preIdx_isX {c : Nat} {l : Local} {j : Nat} (h : preIdx l.pc = some j) : (desc c l).isX = true := by
  obtain ⟨pc, call⟩ := l
  cases pc <;> simp [preIdx] at h <;> rfl

/-- no cell of generation `cur` becomes forwarded; the acting thread keeps or drops its cell, or has just seen
its cell not forwarded -/
theorem preInv_frame {s s' : State} {t : Nat} {l l' : Local} (P : PreInv s) (hl : s.threads[t]? = some l)
    (hthr : s'.threads = s.threads.set t l') (hcur : s'.cur = s.cur)
    (hcell : ∀ j, cellAt s s.cur j ≠ .moved → cellAt s' s.cur j ≠ .moved)
    (hself : ∀ j, preIdx l'.pc = some j → preIdx l.pc = some j ∨ cellAt s s.cur j ≠ .moved) : PreInv s' := by
  intro t1 l1 j h1 hp
  rw [hthr] at h1
  rw [hcur]
  rcases get_set h1 with ⟨rfl, rfl⟩ | ⟨n1, h1⟩
  · rcases hself j hp with h | h
    · exact hcell j (P t1 l j hl h)
    · exact hcell j h
  · exact hcell j (P t1 l1 j h1 hp)

theorem preInv_same {s s' : State} {t : Nat} {l l' : Local} (P : PreInv s) (hl : s.threads[t]? = some l)
    (hthr : s'.threads = s.threads.set t l') (hcur : s'.cur = s.cur) (htabs : s'.tabs = s.tabs)
    (hself : ∀ j, preIdx l'.pc = some j → preIdx l.pc = some j ∨ cellAt s s.cur j ≠ .moved) : PreInv s' :=
  preInv_frame P hl hthr hcur (fun j h => by rw [cellAt_eq, htabs]; exact h) hself

/-- a store of a value that is not the marker -/
theorem preInv_put {s s' : State} {t : Nat} {l l' : Local} {g0 j0 : Nat} {c : Cell} (P : PreInv s)
    (hl : s.threads[t]? = some l)
    (hthr : s'.threads = s.threads.set t l') (hcur : s'.cur = s.cur)
    (htabs : s'.tabs = s.tabs.modify g0 (fun row => row.set j0 c)) (hc : c ≠ .moved)
    (hself : ∀ j, preIdx l'.pc = some j → preIdx l.pc = some j ∨ cellAt s s.cur j ≠ .moved) : PreInv s' := by
  refine preInv_frame P hl hthr hcur ?_ hself
  intro j h
  rw [cellAt_eq, htabs]
  by_cases e : s.cur = g0 ∧ j = j0
  · obtain ⟨rfl, rfl⟩ := e
    rcases cellT_put_self s.tabs s.cur j c with e1 | e1
    · rw [e1]; exact hc
    · rw [e1]; exact h
  · rw [cellT_put_ne _ _ e]; exact h

/-- the resizing thread stores the marker and turns away from the cell -/
theorem preInv_moved {s s' : State} {t : Nat} {l l' : Local} (P : PreInv s) (I : GenInv s)
    (hl : s.threads[t]? = some l) (hX : (desc s.cur l).isX = true)
    (hthr : s'.threads = s.threads.set t l') (hcur : s'.cur = s.cur)
    (hself : preIdx l'.pc = none) : PreInv s' := by
  intro t1 l1 j h1 hp
  rw [hthr] at h1
  rcases get_set h1 with ⟨rfl, rfl⟩ | ⟨n1, h1⟩
  · rw [hself] at hp; cases hp
  · exact absurd (I.uniqX _ _ _ _ h1 hl (preIdx_isX hp) hX) n1

macro "pi_one" P:ident hl:ident : tactic =>
  `(tactic| first
    | exact preInv_same $P $hl rfl rfl rfl (fun j h => Or.inl h)
    | exact preInv_same $P $hl rfl rfl rfl (fun j h => nomatch h)
    | (split <;> exact preInv_same $P $hl rfl rfl rfl (fun j h => nomatch h))
    | (split <;> split <;> exact preInv_same $P $hl rfl rfl rfl (fun j h => nomatch h)))

macro "pi_all" P:ident hl:ident hs:ident : tactic =>
  `(tactic| (open_step $hs $hl; (try simp only [afterLock] at $hs:ident); repeat' split at $hs:ident
             all_goals first
               | (cases $hs:ident; done)
               | (cases $hs:ident; pi_one $P $hl)))

section
variable {s s' : State} {t : Nat} {inv : Option (Nat × KOp)} {lo : Bool} {mt : Option Nat} {rz sm sm2 : Bool}
  {pick : Nat} {p : Pending} {c : Option Pending}

theorem pi_rTable {x : Bool} (P : PreInv s)
    (hl : s.threads[t]? = some { pc := .rTable x, call := some p })
    (hs : step s t inv lo mt rz sm sm2 pick = some s') : PreInv s' := by
  pi_all P hl hs

theorem pi_rCell {x : Bool} {g : Nat} (P : PreInv s)
    (hl : s.threads[t]? = some { pc := .rCell x g, call := some p })
    (hs : step s t inv lo mt rz sm sm2 pick = some s') : PreInv s' := by
  pi_all P hl hs

theorem pi_rFirst {b : Nat} (P : PreInv s)
    (hl : s.threads[t]? = some { pc := .rFirst b, call := some p })
    (hs : step s t inv lo mt rz sm sm2 pick = some s') : PreInv s' := by
  pi_all P hl hs

theorem pi_rLin {b x : Nat} (P : PreInv s)
    (hl : s.threads[t]? = some { pc := .rLin b x, call := some p })
    (hs : step s t inv lo mt rz sm sm2 pick = some s') : PreInv s' := by
  pi_all P hl hs

theorem pi_rCas {b x r : Nat} (P : PreInv s)
    (hl : s.threads[t]? = some { pc := .rCas b x r, call := some p })
    (hs : step s t inv lo mt rz sm sm2 pick = some s') : PreInv s' := by
  pi_all P hl hs

theorem pi_rTree {b : Nat} (P : PreInv s)
    (hl : s.threads[t]? = some { pc := .rTree b, call := some p })
    (hs : step s t inv lo mt rz sm sm2 pick = some s') : PreInv s' := by
  pi_all P hl hs

theorem pi_rRelease {b : Nat} {x : Option Nat} (P : PreInv s)
    (hl : s.threads[t]? = some { pc := .rRelease b x, call := some p })
    (hs : step s t inv lo mt rz sm sm2 pick = some s') : PreInv s' := by
  pi_all P hl hs

theorem pi_rVal {x : Nat} (P : PreInv s)
    (hl : s.threads[t]? = some { pc := .rVal x, call := some p })
    (hs : step s t inv lo mt rz sm sm2 pick = some s') : PreInv s' := by
  pi_all P hl hs

theorem pi_lFirst {b : Nat} (P : PreInv s)
    (hl : s.threads[t]? = some { pc := .lFirst b, call := some p })
    (hs : step s t inv lo mt rz sm sm2 pick = some s') : PreInv s' := by
  pi_all P hl hs

theorem pi_wTable  (P : PreInv s)
    (hl : s.threads[t]? = some { pc := .wTable, call := some p })
    (hs : step s t inv lo mt rz sm sm2 pick = some s') : PreInv s' := by
  pi_all P hl hs

theorem pi_wCell {g : Nat} (P : PreInv s)
    (hl : s.threads[t]? = some { pc := .wCell g, call := some p })
    (hs : step s t inv lo mt rz sm sm2 pick = some s') : PreInv s' := by
  pi_all P hl hs

theorem pi_wLock {g h : Nat} (P : PreInv s)
    (hl : s.threads[t]? = some { pc := .wLock g h, call := some p })
    (hs : step s t inv lo mt rz sm sm2 pick = some s') : PreInv s' := by
  pi_all P hl hs

theorem pi_wCheck {g h : Nat} (P : PreInv s)
    (hl : s.threads[t]? = some { pc := .wCheck g h, call := some p })
    (hs : step s t inv lo mt rz sm sm2 pick = some s') : PreInv s' := by
  pi_all P hl hs

theorem pi_wUnlock {g h : Nat} {res : KRes} {retry : Bool} (P : PreInv s)
    (hl : s.threads[t]? = some { pc := .wUnlock g h res retry, call := some p })
    (hs : step s t inv lo mt rz sm sm2 pick = some s') : PreInv s' := by
  pi_all P hl hs

theorem pi_tMutex {g b : Nat} (P : PreInv s)
    (hl : s.threads[t]? = some { pc := .tMutex g b, call := some p })
    (hs : step s t inv lo mt rz sm sm2 pick = some s') : PreInv s' := by
  pi_all P hl hs

theorem pi_tCheck {g b : Nat} (P : PreInv s)
    (hl : s.threads[t]? = some { pc := .tCheck g b, call := some p })
    (hs : step s t inv lo mt rz sm sm2 pick = some s') : PreInv s' := by
  pi_all P hl hs

theorem pi_tFind {g b : Nat} (P : PreInv s)
    (hl : s.threads[t]? = some { pc := .tFind g b, call := some p })
    (hs : step s t inv lo mt rz sm sm2 pick = some s') : PreInv s' := by
  pi_all P hl hs

theorem pi_tVal {g b i : Nat} {v : Nat × Nat} {res : KRes} (P : PreInv s)
    (hl : s.threads[t]? = some { pc := .tVal g b i v res, call := some p })
    (hs : step s t inv lo mt rz sm sm2 pick = some s') : PreInv s' := by
  pi_all P hl hs

theorem pi_tPrependLocked {g b : Nat} (P : PreInv s)
    (hl : s.threads[t]? = some { pc := .tPrependLocked g b, call := some p })
    (hs : step s t inv lo mt rz sm sm2 pick = some s') : PreInv s' := by
  pi_all P hl hs

theorem pi_tTreeLinkLocked {g b x : Nat} (P : PreInv s)
    (hl : s.threads[t]? = some { pc := .tTreeLinkLocked g b x, call := some p })
    (hs : step s t inv lo mt rz sm sm2 pick = some s') : PreInv s' := by
  pi_all P hl hs

theorem pi_tUnlinkLocked {g b i : Nat} {res : KRes} (P : PreInv s)
    (hl : s.threads[t]? = some { pc := .tUnlinkLocked g b i res, call := some p })
    (hs : step s t inv lo mt rz sm sm2 pick = some s') : PreInv s' := by
  pi_all P hl hs

theorem pi_tRestructure {g b i : Nat} {res : KRes} (P : PreInv s)
    (hl : s.threads[t]? = some { pc := .tRestructure g b i res, call := some p })
    (hs : step s t inv lo mt rz sm sm2 pick = some s') : PreInv s' := by
  pi_all P hl hs

theorem pi_tUnlockRoot {g b : Nat} {res : KRes} (P : PreInv s)
    (hl : s.threads[t]? = some { pc := .tUnlockRoot g b res, call := some p })
    (hs : step s t inv lo mt rz sm sm2 pick = some s') : PreInv s' := by
  pi_all P hl hs

theorem pi_tUnlockM {g b : Nat} {res : KRes} {retry : Bool} (P : PreInv s)
    (hl : s.threads[t]? = some { pc := .tUnlockM g b res retry, call := some p })
    (hs : step s t inv lo mt rz sm sm2 pick = some s') : PreInv s' := by
  pi_all P hl hs

theorem pi_kTable {k : Nat} (P : PreInv s)
    (hl : s.threads[t]? = some { pc := .kTable k, call := none })
    (hs : step s t inv lo mt rz sm sm2 pick = some s') : PreInv s' := by
  pi_all P hl hs

theorem pi_kCell {g k : Nat} (P : PreInv s)
    (hl : s.threads[t]? = some { pc := .kCell g k, call := none })
    (hs : step s t inv lo mt rz sm sm2 pick = some s') : PreInv s' := by
  pi_all P hl hs

theorem pi_kLock {g k h : Nat} (P : PreInv s)
    (hl : s.threads[t]? = some { pc := .kLock g k h, call := none })
    (hs : step s t inv lo mt rz sm sm2 pick = some s') : PreInv s' := by
  pi_all P hl hs

theorem pi_kCheck {g k h : Nat} (P : PreInv s)
    (hl : s.threads[t]? = some { pc := .kCheck g k h, call := none })
    (hs : step s t inv lo mt rz sm sm2 pick = some s') : PreInv s' := by
  pi_all P hl hs

theorem pi_kBuild {g k h : Nat} (P : PreInv s)
    (hl : s.threads[t]? = some { pc := .kBuild g k h, call := none })
    (hs : step s t inv lo mt rz sm sm2 pick = some s') : PreInv s' := by
  pi_all P hl hs

theorem pi_kUnlock {h : Nat} (P : PreInv s)
    (hl : s.threads[t]? = some { pc := .kUnlock h, call := none })
    (hs : step s t inv lo mt rz sm sm2 pick = some s') : PreInv s' := by
  pi_all P hl hs

theorem pi_xNext  (P : PreInv s)
    (hl : s.threads[t]? = some { pc := .xNext, call := none })
    (hs : step s t inv lo mt rz sm sm2 pick = some s') : PreInv s' := by
  pi_all P hl hs

theorem pi_xLock {j h : Nat} (P : PreInv s)
    (hl : s.threads[t]? = some { pc := .xLock j h, call := none })
    (hs : step s t inv lo mt rz sm sm2 pick = some s') : PreInv s' := by
  pi_all P hl hs

theorem pi_xCheck {j h : Nat} (P : PreInv s)
    (hl : s.threads[t]? = some { pc := .xCheck j h, call := none })
    (hs : step s t inv lo mt rz sm sm2 pick = some s') : PreInv s' := by
  pi_all P hl hs

theorem pi_xBuild {j h : Nat} (P : PreInv s)
    (hl : s.threads[t]? = some { pc := .xBuild j h, call := none })
    (hs : step s t inv lo mt rz sm sm2 pick = some s') : PreInv s' := by
  pi_all P hl hs

theorem pi_yMutex {j b : Nat} (P : PreInv s)
    (hl : s.threads[t]? = some { pc := .yMutex j b, call := none })
    (hs : step s t inv lo mt rz sm sm2 pick = some s') : PreInv s' := by
  pi_all P hl hs

theorem pi_yCheck {j b : Nat} (P : PreInv s)
    (hl : s.threads[t]? = some { pc := .yCheck j b, call := none })
    (hs : step s t inv lo mt rz sm sm2 pick = some s') : PreInv s' := by
  pi_all P hl hs

theorem pi_rNode {x : Option Nat} (P : PreInv s)
    (hl : s.threads[t]? = some { pc := .rNode x, call := some p })
    (hs : step s t inv lo mt rz sm sm2 pick = some s') : PreInv s' := by
  cases x <;> pi_all P hl hs

theorem pi_rState {b : Nat} {x : Option Nat} (P : PreInv s)
    (hl : s.threads[t]? = some { pc := .rState b x, call := some p })
    (hs : step s t inv lo mt rz sm sm2 pick = some s') : PreInv s' := by
  cases x <;> pi_all P hl hs

theorem pi_lNode {x : Option Nat} (P : PreInv s)
    (hl : s.threads[t]? = some { pc := .lNode x, call := some p })
    (hs : step s t inv lo mt rz sm sm2 pick = some s') : PreInv s' := by
  cases x <;> pi_all P hl hs

theorem pi_wFind {g h : Nat} {pred cur : Option Nat} (P : PreInv s)
    (hl : s.threads[t]? = some { pc := .wFind g h pred cur, call := some p })
    (hs : step s t inv lo mt rz sm sm2 pick = some s') : PreInv s' := by
  cases cur <;> pi_all P hl hs

theorem pi_xUnlock {unl : Nat ⊕ Nat} (P : PreInv s)
    (hl : s.threads[t]? = some { pc := .xUnlock unl, call := none })
    (hs : step s t inv lo mt rz sm sm2 pick = some s') : PreInv s' := by
  cases unl <;> pi_all P hl hs

theorem pi_lrTry {g b : Nat} {k : After} {res : KRes} (P : PreInv s)
    (hl : s.threads[t]? = some { pc := .lrTry g b k res, call := some p })
    (hs : step s t inv lo mt rz sm sm2 pick = some s') : PreInv s' := by
  cases k <;> pi_all P hl hs

theorem pi_lrLoop {g b : Nat} {k : After} {res : KRes} (P : PreInv s)
    (hl : s.threads[t]? = some { pc := .lrLoop g b k res, call := some p })
    (hs : step s t inv lo mt rz sm sm2 pick = some s') : PreInv s' := by
  cases k <;> pi_all P hl hs

theorem pi_xCell {j : Nat} (P : PreInv s)
    (hl : s.threads[t]? = some { pc := .xCell j, call := none })
    (hs : step s t inv lo mt rz sm sm2 pick = some s') : PreInv s' := by
  open_step hs hl
  split at hs
  · rename_i hc
    cases hs
    exact preInv_same P hl rfl rfl rfl (fun j' h => by cases h; exact Or.inr (by rw [show cellAt s s.cur j = _ from hc]; simp))
  · rename_i hc
    cases hs
    exact preInv_same P hl rfl rfl rfl (fun j' h => by cases h; exact Or.inr (by rw [show cellAt s s.cur j = _ from hc]; simp))
  · rename_i hc
    cases hs
    exact preInv_same P hl rfl rfl rfl (fun j' h => by cases h; exact Or.inr (by rw [show cellAt s s.cur j = _ from hc]; simp))
  · cases hs
    exact preInv_same P hl rfl rfl rfl (fun j h => nomatch h)

theorem pi_wCas {g : Nat} (P : PreInv s)
    (hl : s.threads[t]? = some { pc := .wCas g, call := some p })
    (hs : step s t inv lo mt rz sm sm2 pick = some s') : PreInv s' := by
  open_step hs hl
  split at hs
  · cases hs
    exact preInv_put (g0 := g) (j0 := p.key % 2 ^ g) (c := .list s.heap.length) P hl rfl rfl rfl (by simp)
      (fun j h => nomatch h)
  · cases hs
    exact preInv_put (g0 := g) (j0 := p.key % 2 ^ g) (c := .list s.heap.length) P hl rfl rfl rfl (by simp)
      (fun j h => nomatch h)
  · cases hs; exact preInv_same P hl rfl rfl rfl (fun j h => nomatch h)

theorem pi_wStore {g h : Nat} {pred hit hnext : Option Nat} (P : PreInv s)
    (hl : s.threads[t]? = some { pc := .wStore g h pred hit hnext, call := some p })
    (hs : step s t inv lo mt rz sm sm2 pick = some s') : PreInv s' := by
  open_step hs hl
  cases hs
  obtain ⟨e1, e2, e3, e4, e6, e7⟩ := storeAt_shape (tick s) g p pred hit hnext
  have hthr : (setT (storeAt (tick s) g p pred hit hnext).1 t
      { pc := .wUnlock g h (storeAt (tick s) g p pred hit hnext).2 false, call := some p }).threads =
      s.threads.set t { pc := .wUnlock g h (storeAt (tick s) g p pred hit hnext).2 false, call := some p } := by
    show (storeAt _ _ _ _ _ _).1.threads.set _ _ = _; rw [e1]; rfl
  rcases e7 with e7 | ⟨c, hcm, hct, e7⟩
  · exact preInv_same P hl hthr e2 e7 (fun j h => nomatch h)
  · exact preInv_put (g0 := g) (j0 := p.key % 2 ^ g) (c := c) P hl hthr e2 e7 hcm (fun j h => nomatch h)

theorem pi_tUntreeify {g b : Nat} {res : KRes} (P : PreInv s)
    (hl : s.threads[t]? = some { pc := .tUntreeify g b res, call := some p })
    (hs : step s t inv lo mt rz sm sm2 pick = some s') : PreInv s' := by
  open_step hs hl
  cases hs
  exact preInv_put (g0 := g) (j0 := p.key % 2 ^ g) (c := cellOfHead _) P hl rfl rfl rfl (cellOfHead_ne_moved _)
    (fun j h => nomatch h)

theorem pi_kStore {g k h b : Nat} (P : PreInv s)
    (hl : s.threads[t]? = some { pc := .kStore g k h b, call := none })
    (hs : step s t inv lo mt rz sm sm2 pick = some s') : PreInv s' := by
  open_step hs hl
  cases hs
  exact preInv_put (g0 := g) (j0 := k % 2 ^ g) (c := .tree b) P hl rfl rfl rfl (by simp) (fun j h => nomatch h)

theorem pi_xCasMoved {j : Nat} (P : PreInv s) (I : GenInv s)
    (hl : s.threads[t]? = some { pc := .xCasMoved j, call := none })
    (hs : step s t inv lo mt rz sm sm2 pick = some s') : PreInv s' := by
  open_step hs hl
  split at hs
  · cases hs
    exact preInv_moved P I hl rfl rfl rfl rfl
  · cases hs; exact preInv_same P hl rfl rfl rfl (fun j h => nomatch h)

theorem pi_yBuild {j b : Nat} (P : PreInv s)
    (hl : s.threads[t]? = some { pc := .yBuild j b, call := none })
    (hs : step s t inv lo mt rz sm sm2 pick = some s') : PreInv s' := by
  open_step hs hl
  generalize h1 : splitSide _ b _ sm _ = r1 at hs
  obtain ⟨s1, lo1⟩ := r1
  simp only at hs
  generalize h2 : splitSide s1 b _ sm2 _ = r2 at hs
  obtain ⟨s2, hi2⟩ := r2
  simp only at hs
  cases hs
  obtain ⟨a1, a2, a3, a4, -⟩ := splitSide_shape' h1
  obtain ⟨b1, b2, b3, b4, -⟩ := splitSide_shape' h2
  exact preInv_same (l' := { pc := .xStoreLow j (.inr b) lo1 hi2, call := none }) P hl
    (by show s2.threads.set _ _ = _; rw [b4, a4]) (b2.trans a2) (b1.trans a1) (fun j h => Or.inl h)

theorem pi_xStoreLow {j : Nat} {unl : Nat ⊕ Nat} {c1 c2 : Cell} (P : PreInv s) (I : GenInv s)
    (hl : s.threads[t]? = some { pc := .xStoreLow j unl c1 c2, call := none })
    (hs : step s t inv lo mt rz sm sm2 pick = some s') : PreInv s' := by
  have hp := ((I.thr t _ hl).plan c1 (by simp [desc, descPc])).1
  open_step hs hl
  cases hs
  exact preInv_put (g0 := s.cur + 1) (j0 := j) (c := c1) P hl rfl rfl rfl hp (fun j h => Or.inl h)

theorem pi_xStoreHigh {j : Nat} {unl : Nat ⊕ Nat} {c2 : Cell} (P : PreInv s) (I : GenInv s)
    (hl : s.threads[t]? = some { pc := .xStoreHigh j unl c2, call := none })
    (hs : step s t inv lo mt rz sm sm2 pick = some s') : PreInv s' := by
  have hp := ((I.thr t _ hl).plan c2 (by simp [desc, descPc])).1
  open_step hs hl
  cases hs
  exact preInv_put (g0 := s.cur + 1) (j0 := j + 2 ^ s.cur) (c := c2) P hl rfl rfl rfl hp (fun j h => Or.inl h)

theorem pi_xStoreMoved {j : Nat} {unl : Nat ⊕ Nat} (P : PreInv s) (I : GenInv s)
    (hl : s.threads[t]? = some { pc := .xStoreMoved j unl, call := none })
    (hs : step s t inv lo mt rz sm sm2 pick = some s') : PreInv s' := by
  open_step hs hl
  cases hs
  exact preInv_moved P I hl rfl rfl rfl rfl

theorem pi_xCommit  (P : PreInv s) (I : GenInv s)
    (hl : s.threads[t]? = some { pc := .xCommit, call := none })
    (hs : step s t inv lo mt rz sm sm2 pick = some s') : PreInv s' := by
  open_step hs hl
  cases hs
  intro t1 l1 j h1 hp
  exfalso
  rcases get_set h1 with ⟨rfl, rfl⟩ | ⟨n1, h1⟩
  · cases hp
  · exact n1 (I.uniqX _ _ _ _ h1 hl (preIdx_isX hp) rfl)

theorem pi_idle (P : PreInv s) (I : GenInv s) (hl : s.threads[t]? = some { pc := .idle, call := c })
    (hs : step s t inv lo mt rz sm sm2 pick = some s') : PreInv s' := by
  unfold step stepG at hs; rw [hl] at hs; simp only at hs
  split at hs
  · split at hs
    · cases hs
      exact preInv_same (l' := { pc := .idle, call := c }) P hl (set_same hl) rfl rfl (fun j h => nomatch h)
    · cases hs
      refine preInv_frame P hl rfl rfl ?_ (fun j h => nomatch h)
      intro j h
      show cellT (s.tabs ++ [List.replicate (2 ^ (s.cur + 1)) (.empty : Cell)]) s.cur j ≠ _
      rw [cellT_alloc]; exact h
  · split at hs
    · cases hs; exact preInv_same P hl rfl rfl rfl (fun j h => nomatch h)
    · split at hs
      · cases hs
        exact preInv_same (l' := { pc := .idle, call := c }) P hl (set_same hl) rfl rfl (fun j h => nomatch h)
      · cases hs
        split <;> exact preInv_same P hl rfl rfl rfl (fun j h => nomatch h)

end

theorem step_preInv {s s' : State} {t : Nat} {inv : Option (Nat × KOp)} {lo : Bool} {mt : Option Nat}
    {rz sm sm2 : Bool} {pick : Nat} (I : GenInv s) (P : PreInv s)
    (hs : step s t inv lo mt rz sm sm2 pick = some s') : PreInv s' := by
  cases hl : s.threads[t]? with
  | none => unfold step stepG at hs; rw [hl] at hs; cases hs
  | some l =>
    obtain ⟨pc, call⟩ := l
    cases pc with
    | idle => exact pi_idle P I hl hs
    | rTable x => cases call with
      | none => unfold step stepG at hs; rw [hl] at hs; simp at hs
      | some p => exact pi_rTable P hl hs
    | rCell x g => cases call with
      | none => unfold step stepG at hs; rw [hl] at hs; simp at hs
      | some p => exact pi_rCell P hl hs
    | rFirst b => cases call with
      | none => unfold step stepG at hs; rw [hl] at hs; simp at hs
      | some p => exact pi_rFirst P hl hs
    | rLin b x => cases call with
      | none => unfold step stepG at hs; rw [hl] at hs; simp at hs
      | some p => exact pi_rLin P hl hs
    | rCas b x r => cases call with
      | none => unfold step stepG at hs; rw [hl] at hs; simp at hs
      | some p => exact pi_rCas P hl hs
    | rTree b => cases call with
      | none => unfold step stepG at hs; rw [hl] at hs; simp at hs
      | some p => exact pi_rTree P hl hs
    | rRelease b x => cases call with
      | none => unfold step stepG at hs; rw [hl] at hs; simp at hs
      | some p => exact pi_rRelease P hl hs
    | rVal x => cases call with
      | none => unfold step stepG at hs; rw [hl] at hs; simp at hs
      | some p => exact pi_rVal P hl hs
    | lFirst b => cases call with
      | none => unfold step stepG at hs; rw [hl] at hs; simp at hs
      | some p => exact pi_lFirst P hl hs
    | wTable => cases call with
      | none => unfold step stepG at hs; rw [hl] at hs; simp at hs
      | some p => exact pi_wTable P hl hs
    | wCell g => cases call with
      | none => unfold step stepG at hs; rw [hl] at hs; simp at hs
      | some p => exact pi_wCell P hl hs
    | wLock g h => cases call with
      | none => unfold step stepG at hs; rw [hl] at hs; simp at hs
      | some p => exact pi_wLock P hl hs
    | wCheck g h => cases call with
      | none => unfold step stepG at hs; rw [hl] at hs; simp at hs
      | some p => exact pi_wCheck P hl hs
    | wUnlock g h res retry => cases call with
      | none => unfold step stepG at hs; rw [hl] at hs; simp at hs
      | some p => exact pi_wUnlock P hl hs
    | tMutex g b => cases call with
      | none => unfold step stepG at hs; rw [hl] at hs; simp at hs
      | some p => exact pi_tMutex P hl hs
    | tCheck g b => cases call with
      | none => unfold step stepG at hs; rw [hl] at hs; simp at hs
      | some p => exact pi_tCheck P hl hs
    | tFind g b => cases call with
      | none => unfold step stepG at hs; rw [hl] at hs; simp at hs
      | some p => exact pi_tFind P hl hs
    | tVal g b i v res => cases call with
      | none => unfold step stepG at hs; rw [hl] at hs; simp at hs
      | some p => exact pi_tVal P hl hs
    | tPrependLocked g b => cases call with
      | none => unfold step stepG at hs; rw [hl] at hs; simp at hs
      | some p => exact pi_tPrependLocked P hl hs
    | tTreeLinkLocked g b x => cases call with
      | none => unfold step stepG at hs; rw [hl] at hs; simp at hs
      | some p => exact pi_tTreeLinkLocked P hl hs
    | tUnlinkLocked g b i res => cases call with
      | none => unfold step stepG at hs; rw [hl] at hs; simp at hs
      | some p => exact pi_tUnlinkLocked P hl hs
    | tRestructure g b i res => cases call with
      | none => unfold step stepG at hs; rw [hl] at hs; simp at hs
      | some p => exact pi_tRestructure P hl hs
    | tUnlockRoot g b res => cases call with
      | none => unfold step stepG at hs; rw [hl] at hs; simp at hs
      | some p => exact pi_tUnlockRoot P hl hs
    | tUnlockM g b res retry => cases call with
      | none => unfold step stepG at hs; rw [hl] at hs; simp at hs
      | some p => exact pi_tUnlockM P hl hs
    | kTable k => cases call with
      | some p => unfold step stepG at hs; rw [hl] at hs; simp at hs
      | none => exact pi_kTable P hl hs
    | kCell g k => cases call with
      | some p => unfold step stepG at hs; rw [hl] at hs; simp at hs
      | none => exact pi_kCell P hl hs
    | kLock g k h => cases call with
      | some p => unfold step stepG at hs; rw [hl] at hs; simp at hs
      | none => exact pi_kLock P hl hs
    | kCheck g k h => cases call with
      | some p => unfold step stepG at hs; rw [hl] at hs; simp at hs
      | none => exact pi_kCheck P hl hs
    | kBuild g k h => cases call with
      | some p => unfold step stepG at hs; rw [hl] at hs; simp at hs
      | none => exact pi_kBuild P hl hs
    | kUnlock h => cases call with
      | some p => unfold step stepG at hs; rw [hl] at hs; simp at hs
      | none => exact pi_kUnlock P hl hs
    | xNext => cases call with
      | some p => unfold step stepG at hs; rw [hl] at hs; simp at hs
      | none => exact pi_xNext P hl hs
    | xLock j h => cases call with
      | some p => unfold step stepG at hs; rw [hl] at hs; simp at hs
      | none => exact pi_xLock P hl hs
    | xCheck j h => cases call with
      | some p => unfold step stepG at hs; rw [hl] at hs; simp at hs
      | none => exact pi_xCheck P hl hs
    | xBuild j h => cases call with
      | some p => unfold step stepG at hs; rw [hl] at hs; simp at hs
      | none => exact pi_xBuild P hl hs
    | yMutex j b => cases call with
      | some p => unfold step stepG at hs; rw [hl] at hs; simp at hs
      | none => exact pi_yMutex P hl hs
    | yCheck j b => cases call with
      | some p => unfold step stepG at hs; rw [hl] at hs; simp at hs
      | none => exact pi_yCheck P hl hs
    | rNode x => cases call with
      | none => unfold step stepG at hs; rw [hl] at hs; simp at hs
      | some p => exact pi_rNode P hl hs
    | rState b x => cases call with
      | none => unfold step stepG at hs; rw [hl] at hs; simp at hs
      | some p => exact pi_rState P hl hs
    | lNode x => cases call with
      | none => unfold step stepG at hs; rw [hl] at hs; simp at hs
      | some p => exact pi_lNode P hl hs
    | wFind g h pred cur => cases call with
      | none => unfold step stepG at hs; rw [hl] at hs; simp at hs
      | some p => exact pi_wFind P hl hs
    | xUnlock unl => cases call with
      | some p => unfold step stepG at hs; rw [hl] at hs; simp at hs
      | none => exact pi_xUnlock P hl hs
    | lrTry g b k res => cases call with
      | none => unfold step stepG at hs; rw [hl] at hs; simp at hs
      | some p => exact pi_lrTry P hl hs
    | lrLoop g b k res => cases call with
      | none => unfold step stepG at hs; rw [hl] at hs; simp at hs
      | some p => exact pi_lrLoop P hl hs
    | xCell j => cases call with
      | some p => unfold step stepG at hs; rw [hl] at hs; simp at hs
      | none => exact pi_xCell P hl hs
    | wCas g => cases call with
      | none => unfold step stepG at hs; rw [hl] at hs; simp at hs
      | some p => exact pi_wCas P hl hs
    | wStore g h pred hit hnext => cases call with
      | none => unfold step stepG at hs; rw [hl] at hs; simp at hs
      | some p => exact pi_wStore P hl hs
    | tUntreeify g b res => cases call with
      | none => unfold step stepG at hs; rw [hl] at hs; simp at hs
      | some p => exact pi_tUntreeify P hl hs
    | kStore g k h b => cases call with
      | some p => unfold step stepG at hs; rw [hl] at hs; simp at hs
      | none => exact pi_kStore P hl hs
    | xCasMoved j => cases call with
      | some p => unfold step stepG at hs; rw [hl] at hs; simp at hs
      | none => exact pi_xCasMoved P I hl hs
    | yBuild j b => cases call with
      | some p => unfold step stepG at hs; rw [hl] at hs; simp at hs
      | none => exact pi_yBuild P hl hs
    | xStoreLow j unl c1 c2 => cases call with
      | some p => unfold step stepG at hs; rw [hl] at hs; simp at hs
      | none => exact pi_xStoreLow P I hl hs
    | xStoreHigh j unl c2 => cases call with
      | some p => unfold step stepG at hs; rw [hl] at hs; simp at hs
      | none => exact pi_xStoreHigh P I hl hs
    | xStoreMoved j unl => cases call with
      | some p => unfold step stepG at hs; rw [hl] at hs; simp at hs
      | none => exact pi_xStoreMoved P I hl hs
    | xCommit => cases call with
      | some p => unfold step stepG at hs; rw [hl] at hs; simp at hs
      | none => exact pi_xCommit P I hl hs

theorem reachable_preInv {n : Nat} {s : State} (hr : Reachable n s) : PreInv s := by
  have : GenInv s ∧ PreInv s := by
    induction hr with
    | init =>
      refine ⟨init_geninv n, ?_⟩
      intro t l j h hp
      have : l = {} := List.eq_of_mem_replicate (List.mem_of_getElem? h)
      rw [this] at hp; cases hp
    | step t inv lo mt rz sm sm2 pick _ hs ih => exact ⟨step_geninv ih.1 hs, step_preInv ih.1 ih.2 hs⟩
  exact this.2

end Flurry.Proto.BinGN
