import Flurry.Proto.BinGN
import Flurry.Lemmas.LinSearch
/-! # Proto/BinGN: the model exercised by execution (random schedule explorer) and kernel-checked runs

* `explore`: a seeded random scheduler over `step` / `stepNoCheck` (any number of threads, calls on a few
  keys with different low bits, treeify, resizes whenever none is running, the resizing thread's cell
  order at random, both `small` decisions at random, iterators, optionally a *sleeper*: thread 0 is frozen
  a random number of steps after it loaded the table pointer and only woken when `cur` has reached a given
  generation — so it sits in a table / inside a `TreeBin` that is two or three generations old), then a
  drain to quiescence; every quiescent per-key history is decided by the complete procedure `Lin.search`
  against `absOf`. Coverage: every `Pc` constructor, the per-side outcomes of a tree-bin transfer per
  generation, a `TreeBin` re-used by one resize and re-used AGAIN by the next, readers / writers inside
  a `TreeBin` while the table pointer is two generations ahead.
* kernel-checked runs (`decide`): see the end of the file. -/
namespace Flurry.Proto.BinGN
open Flurry.Lin

structure Act where
  t : Nat
  inv : Option (Nat × KOp) := none
  lo : Bool := false
  maint : Option Nat := none
  rz : Bool := false
  sm : Bool := false
  sm2 : Bool := false
  pick : Nat := 0
deriving Repr, DecidableEq

abbrev Sched := List Act

abbrev StepFn := State → Nat → Option (Nat × KOp) → Bool → Option Nat → Bool → Bool → Bool → Nat → Option State

def act (f : StepFn) (s : State) (a : Act) : Option State := f s a.t a.inv a.lo a.maint a.rz a.sm a.sm2 a.pick

/-- run a schedule (`none` if some step is not enabled) -/
def run (f : StepFn) : State → Sched → Option State
  | s, [] => some s
  | s, a :: rest =>
    match act f s a with
    | none => none
    | some s' => run f s' rest

theorem run_reachable {n : Nat} : ∀ (sc : Sched) {s s' : State}, Reachable n s → run step s sc = some s' →
    Reachable n s'
  | [], s, s', hr, h => by simp only [run, Option.some.injEq] at h; exact h ▸ hr
  | a :: rest, s, s', hr, h => by
    simp only [run] at h
    cases hs : act step s a with
    | none => rw [hs] at h; cases h
    | some s1 => rw [hs] at h; exact run_reachable rest (.step a.t a.inv a.lo a.maint a.rz a.sm a.sm2 a.pick hr hs) h

theorem run_reachableNoCheck {n : Nat} : ∀ (sc : Sched) {s s' : State}, ReachableNoCheck n s →
    run stepNoCheck s sc = some s' → ReachableNoCheck n s'
  | [], s, s', hr, h => by simp only [run, Option.some.injEq] at h; exact h ▸ hr
  | a :: rest, s, s', hr, h => by
    simp only [run] at h
    cases hs : act stepNoCheck s a with
    | none => rw [hs] at h; cases h
    | some s1 =>
      rw [hs] at h
      exact run_reachableNoCheck rest (.step a.t a.inv a.lo a.maint a.rz a.sm a.sm2 a.pick hr hs) h

def quiescentB (s : State) : Bool := s.threads.all (fun l => l.pc == .idle)

theorem quiescentB_iff (s : State) : quiescentB s = true ↔ quiescent s := by
  unfold quiescentB quiescent
  simp [List.all_eq_true]

def linB (s : State) (k : Nat) : Bool := (search (callsOn s k) none (absOf s k)).isSome

theorem linB_iff (s : State) (k : Nat) : linB s k = true ↔ Linearizable (callsOn s k) none (absOf s k) :=
  search_isSome_iff

theorem linB_false_iff (s : State) (k : Nat) : linB s k = false ↔ ¬ Linearizable (callsOn s k) none (absOf s k) := by
  rw [← linB_iff]; cases linB s k <;> simp

/-! ## the explorer (`#eval` / `lean --run` only) -/

def pcTag : Pc → String
  | .idle => "idle"
  | .rTable lo => if lo then "rTable.it" else "rTable"
  | .rCell lo _ => if lo then "rCell.it" else "rCell"
  | .rNode _ => "rNode" | .rFirst _ => "rFirst" | .rState _ _ => "rState" | .rLin _ _ => "rLin"
  | .rCas _ _ _ => "rCas" | .rTree _ => "rTree" | .rRelease _ _ => "rRelease" | .rVal _ => "rVal"
  | .lFirst _ => "lFirst" | .lNode _ => "lNode"
  | .wTable => "wTable" | .wCell _ => "wCell" | .wCas _ => "wCas" | .wLock _ _ => "wLock"
  | .wCheck _ _ => "wCheck" | .wFind _ _ _ _ => "wFind" | .wStore _ _ _ _ _ => "wStore"
  | .wUnlock _ _ _ retry => if retry then "wUnlock.retry" else "wUnlock"
  | .tMutex _ _ => "tMutex" | .tCheck _ _ => "tCheck" | .tFind _ _ => "tFind" | .tVal _ _ _ _ _ => "tVal"
  | .lrTry _ _ _ _ => "lrTry" | .lrLoop _ _ _ _ => "lrLoop" | .tPrependLocked _ _ => "tPrependLocked"
  | .tTreeLinkLocked _ _ _ => "tTreeLinkLocked" | .tUnlinkLocked _ _ _ _ => "tUnlinkLocked"
  | .tRestructure _ _ _ _ => "tRestructure" | .tUnlockRoot _ _ _ => "tUnlockRoot"
  | .tUntreeify _ _ _ => "tUntreeify"
  | .tUnlockM _ _ _ retry => if retry then "tUnlockM.retry" else "tUnlockM"
  | .kTable _ => "kTable" | .kCell _ _ => "kCell" | .kLock _ _ _ => "kLock" | .kCheck _ _ _ => "kCheck"
  | .kBuild _ _ _ => "kBuild" | .kStore _ _ _ _ => "kStore" | .kUnlock _ => "kUnlock"
  | .xNext => "xNext" | .xCell _ => "xCell" | .xCasMoved _ => "xCasMoved" | .xLock _ _ => "xLock"
  | .xCheck _ _ => "xCheck" | .xBuild _ _ => "xBuild" | .yMutex _ _ => "yMutex" | .yCheck _ _ => "yCheck"
  | .yBuild _ _ => "yBuild"
  | .xStoreLow _ (.inl _) _ _ => "xStoreLow.list" | .xStoreLow _ (.inr _) _ _ => "xStoreLow.tree"
  | .xStoreHigh _ (.inl _) _ => "xStoreHigh.list" | .xStoreHigh _ (.inr _) _ => "xStoreHigh.tree"
  | .xStoreMoved _ (.inl _) => "xStoreMoved.list" | .xStoreMoved _ (.inr _) => "xStoreMoved.tree"
  | .xUnlock (.inl _) => "xUnlock.list" | .xUnlock (.inr _) => "xUnlock.tree"
  | .xCommit => "xCommit"

/-- the generation a program counter works in -/
def genOf : Pc → Option Nat
  | .rCell _ g | .wCell g | .wCas g | .wLock g _ | .wCheck g _ | .wFind g _ _ _ | .wStore g _ _ _ _
  | .wUnlock g _ _ _ | .tMutex g _ | .tCheck g _ | .tFind g _ | .tVal g _ _ _ _ | .lrTry g _ _ _
  | .lrLoop g _ _ _ | .tPrependLocked g _ | .tTreeLinkLocked g _ _ | .tUnlinkLocked g _ _ _
  | .tRestructure g _ _ _ | .tUnlockRoot g _ _ | .tUntreeify g _ _ | .tUnlockM g _ _ _
  | .kCell g _ | .kLock g _ _ | .kCheck g _ _ | .kBuild g _ _ | .kStore g _ _ _ => some g
  | _ => none

/-- the `TreeBin` a reader is inside -/
def readerBin : Pc → Option Nat
  | .rFirst b | .rState b _ | .rLin b _ | .rCas b _ _ | .rTree b | .rRelease b _ | .lFirst b => some b
  | _ => none

abbrev Cov := List (String × Nat)

def Cov.bump (c : Cov) (k : String) : Cov :=
  match c with
  | [] => [(k, 1)]
  | (k', n) :: rest => if k' == k then (k', n + 1) :: rest else (k', n) :: Cov.bump rest k

def rngNext (x : Nat) : Nat := (x * 6364136223846793005 + 1442695040888963407) % 18446744073709551616
def rngPick (x n : Nat) : Nat := (x / 4294967296) % n

def sideTag (b : Nat) : Cell → String
  | .empty => "empty"
  | .list _ => "smallList"
  | .tree b' => if b' == b then "reusedTreeBin" else "freshTreeBin"
  | .moved => "moved?"

/-- is `TreeBin` `b` in a cell of generation `g` -/
def binInGen (s : State) (g b : Nat) : Bool := (s.tabs.getD g []).any (· == .tree b)

/-- coverage events of one executed step `s —a→ s'`; `rgen`: the generation in which the thread entered the
structure it reads (readers do not carry it in their program counter) -/
def events (s s' : State) (a : Act) (rgen : Nat) (c : Cov) : Cov := Id.run do
  let mut c := c
  let l' := s'.threads.getD a.t {}
  let l := s.threads.getD a.t {}
  c := c.bump ("pc:" ++ pcTag l'.pc)
  match genOf l.pc with
  | some g =>
    if g + 2 ≤ s.cur then c := c.bump ("stale>=2:" ++ pcTag l.pc)
    else if g + 1 ≤ s.cur then c := c.bump ("stale=1:" ++ pcTag l.pc)
    else if g == s.cur + 1 then c := c.bump ("inNext:" ++ pcTag l.pc)
  | none => pure ()
  match readerBin l.pc with
  | some b =>
    if rgen + 2 ≤ s.cur then
      c := c.bump ("treeReaderStale>=2:" ++ pcTag l.pc)
      -- is the bin the reader is inside still live (re-used) two generations later?
      if binInGen s s.cur b || binInGen s (s.cur + 1) b then c := c.bump ("treeReaderStale>=2.binStillLive:" ++ pcTag l.pc)
    else if rgen + 1 ≤ s.cur then c := c.bump ("treeReaderStale=1:" ++ pcTag l.pc)
  | none => pure ()
  match l.pc with
  | .rNode _ | .lNode _ | .rVal _ => if rgen + 2 ≤ s.cur then c := c.bump ("listReaderStale>=2:" ++ pcTag l.pc)
  | _ => pure ()
  match l.pc, l'.pc with
  | .yBuild _ b, .xStoreLow _ _ lo hi =>
    c := c.bump (s!"treeTransfer.g{s.cur}:" ++ sideTag b lo ++ "/" ++ sideTag b hi)
  | .xBuild _ _, .xStoreLow _ _ lo hi =>
    c := c.bump (s!"listTransfer.g{s.cur}:" ++ sideTag 0 lo ++ "/" ++ sideTag 0 hi ++
      (if s'.heap.length > s.heap.length then "+copies" else ""))
  | .wCheck _ _, .wUnlock _ _ _ true => c := c.bump "recheckFailed:wCheck"
  | .tCheck _ _, .tUnlockM _ _ _ true => c := c.bump "recheckFailed:tCheck"
  | .kCheck _ _ _, .kUnlock _ => c := c.bump "recheckFailed:kCheck"
  | .xCheck _ _, .xCell _ => c := c.bump "recheckFailed:xCheck"
  | .yCheck _ _, .xCell _ => c := c.bump "recheckFailed:yCheck"
  | .xCommit, _ => c := c.bump s!"commit->{s'.cur}"
  | .kStore g _ _ _, _ => c := c.bump s!"treeify.g{g}"
  | .tUntreeify g _ _, _ => c := c.bump s!"untreeify.g{g}"
  | _, _ => pure ()
  return c

structure Cfg where
  nthreads : Nat := 3
  keys : List Nat := [0, 1, 2, 3, 4, 6]
  steps : Nat := 250
  calls : Nat := 14
  maints : Nat := 5
  resizes : Nat := 3
  pResize : Nat := 5
  pMaint : Nat := 12
  pCall : Nat := 60
  noCheck : Bool := false
  /-- thread `0` is frozen while it has a call in flight and `cur < wake` (0 = no sleeper) -/
  wake : Nat := 0

def mkOp (r : Nat) (vi : Nat) : KOp :=
  match r % 13 with
  | 0 | 1 | 2 | 3 => .ins (vi % 7) vi
  | 4 | 5 => .rm
  | 6 | 7 => .get
  | 8 => .has
  | 9 => .tryIns (vi % 7) vi
  | 10 => .cipInc vi
  | 11 => .cipRm
  | _ => .get

structure Out where
  cov : Cov
  bad : Option (Sched × Nat)
  runs : Nat
  quiescentRuns : Nat
  maxHist : Nat
  maxGen : Nat

def frozen (cfg : Cfg) (s : State) (t : Nat) (sleepAt : Nat) : Bool :=
  cfg.wake > 0 && t == 0 && s.cur < cfg.wake &&
    (let l := s.threads.getD 0 {}
     l.call.isSome && (match l.pc with | .rTable _ | .wTable => false | _ => true) && sleepAt == 0)

/-- bookkeeping of the explorer after an executed step: the generation in which each thread entered the
structure it reads; the `TreeBin`s that have been re-used by a transfer -/
def track (s s' : State) (a : Act) (rgens : Array Nat) (reused : List Nat) (cov : Cov) : Array Nat × List Nat × Cov :=
  let l := s.threads.getD a.t {}
  let l' := s'.threads.getD a.t {}
  let rgens := match l.pc, l'.pc with
    | .rCell _ g, .rNode _ | .rCell _ g, .rFirst _ | .rCell _ g, .lFirst _ => rgens.setIfInBounds a.t g
    | _, _ => rgens
  match l.pc, l'.pc with
  | .yBuild _ b, .xStoreLow _ _ lo hi =>
    if lo == .tree b || hi == .tree b then
      if reused.contains b then (rgens, reused, cov.bump s!"treeBinReusedAGAIN.g{s.cur}") else (rgens, b :: reused, cov)
    else (rgens, reused, cov)
  | _, _ => (rgens, reused, cov)

def oneRun (cfg : Cfg) (seed : Nat) (cov : Cov) : Sched × State × Cov := Id.run do
  let f : StepFn := if cfg.noCheck then stepNoCheck else step
  let mut s := init cfg.nthreads
  let mut rng := seed
  let mut sc : Array Act := #[]
  let mut cov := cov
  let mut calls := 0
  let mut maints := 0
  let mut rzs := 0
  let mut rgens : Array Nat := Array.replicate cfg.nthreads 0
  let mut reused : List Nat := []
  rng := rngNext rng
  let mut extra := rngPick rng 10
  for _ in [0:cfg.steps] do
    rng := rngNext rng
    let t := rngPick rng cfg.nthreads
    rng := rngNext rng
    let l := s.threads.getD t {}
    if frozen cfg s t extra then continue
    let mut a : Act := { t := t }
    if l.pc == .idle then
      let r := rngPick rng 100
      rng := rngNext rng
      if r < cfg.pResize && !s.resizing && rzs < cfg.resizes && !(cfg.wake > 0 && t == 0) then
        a := { t := t, rz := true }
        rzs := rzs + 1
      else if r < cfg.pResize + cfg.pMaint && maints < cfg.maints && !(cfg.wake > 0 && t == 0) then
        a := { t := t, maint := some (cfg.keys.getD (rngPick rng cfg.keys.length) 0) }
        maints := maints + 1
      else if r < cfg.pResize + cfg.pMaint + cfg.pCall && calls < cfg.calls then
        let k := cfg.keys.getD (rngPick rng cfg.keys.length) 0
        rng := rngNext rng
        let op := mkOp (rngPick rng 13) (100 + calls)
        rng := rngNext rng
        a := { t := t, inv := some (k, op), lo := rngPick rng 4 == 0 }
        calls := calls + 1
      else continue
    else
      a := { t := t, sm := rngPick rng 3 == 0, sm2 := rngPick rng 7 < 2, pick := rngPick rng 64 }
      if cfg.wake > 0 && t == 0 && l.call.isSome && s.cur < cfg.wake then
        match l.pc with
        | .rTable _ | .wTable => pure ()
        | _ => if extra > 0 then extra := extra - 1
    match act f s a with
    | none => cov := cov.bump ("blocked:" ++ pcTag l.pc)
    | some s' =>
      cov := events s s' a (rgens.getD t 0) cov
      (rgens, reused, cov) := track s s' a rgens reused cov
      sc := sc.push a
      s := s'
  -- drain (the sleeper last, so that the resizes complete first)
  let mut stuck := false
  for _ in [0:800] do
    if quiescentB s then break
    let mut progress := false
    for t' in [0:cfg.nthreads] do
      let t := cfg.nthreads - 1 - t'
      let l := s.threads.getD t {}
      if l.pc != .idle then
        if frozen cfg s t 0 && !stuck then continue
        rng := rngNext rng
        let a : Act := { t := t, sm := rngPick rng 3 == 0, sm2 := rngPick rng 7 < 2, pick := rngPick rng 64 }
        match act f s a with
        | none => cov := cov.bump ("blocked:" ++ pcTag l.pc)
        | some s' =>
          cov := events s s' a (rgens.getD t 0) cov
          (rgens, reused, cov) := track s s' a rgens reused cov
          sc := sc.push a
          s := s'
          progress := true
    stuck := !progress
  return (sc.toList, s, cov)

def explore (cfg : Cfg) (seed0 nruns : Nat) : Out := Id.run do
  let mut cov : Cov := []
  let mut bad : Option (Sched × Nat) := none
  let mut q := 0
  let mut mh := 0
  let mut mg := 0
  for i in [0:nruns] do
    let (sc, s, cov') := oneRun cfg (rngNext (seed0 + 7919 * i)) cov
    cov := cov'
    if s.cur > mg then mg := s.cur
    cov := cov.bump s!"final:cur={s.cur}"
    if quiescentB s then
      q := q + 1
      for k in cfg.keys do
        let h := callsOn s k
        if h.length > mh then mh := h.length
        if !linB s k && bad.isNone then bad := some (sc, k)
    else cov := cov.bump "notDrained"
  return { cov := cov, bad := bad, runs := nruns, quiescentRuns := q, maxHist := mh, maxGen := mg }

def Out.report (o : Out) : String :=
  let lines := (o.cov.toArray.qsort (fun a b => a.1 < b.1)).toList.map fun (k, n) => s!"  {k}: {n}"
  s!"runs {o.runs}, drained to quiescence {o.quiescentRuns}, longest per-key history {o.maxHist}, max generation {o.maxGen}, " ++
  (match o.bad with | none => "ALL LINEARIZABLE" | some (sc, k) => s!"NOT LINEARIZABLE on key {k}: {repr sc}") ++
  "\n" ++ "\n".intercalate lines

/-! ## kernel-checked runs

Four threads: thread 0 performs most calls, thread 1 treeifies and then is the slow reader, thread 2 is the
slow writer, thread 3 resizes — twice. -/

def rep (t n : Nat) : Sched := List.replicate n { t := t }
def call (t k : Nat) (op : KOp) : Sched := [{ t := t, inv := some (k, op) }]
def rz (t : Nat) : Sched := [{ t := t, rz := true }]
/-- the resizing thread `t` transfers the tree bin in cell `j` (9 steps from `xNext` back to `xNext`);
`sm`, `sm2`: the low / high side becomes a plain list -/
def xferTree (t j : Nat) (sm sm2 : Bool) : Sched :=
  [{ t := t, pick := j }] ++ rep t 3 ++ [{ t := t, sm := sm, sm2 := sm2 }] ++ rep t 4
/-- … forwards the empty cell `j` -/
def xferEmpty (t j : Nat) : Sched := [{ t := t, pick := j }] ++ rep t 2
/-- `xNext` (all forwarded), `xCommit` -/
def commit (t : Nat) : Sched := rep t 2

/-- quiescent in generation 2?, and per key `0 … 5`: the abstract state and whether the exhaustive search
finds a linearization of the key's history ending in it -/
def verdict (f : StepFn) (n : Nat) (sc : Sched) : Option (Bool × List (KSt × Bool)) :=
  (run f (init n) sc).map fun s => (quiescentB s && s.cur == 2, (List.range 6).map fun k => (absOf s k, linB s k))

/-- thread 0: `insert(0)`, `insert(4)` (bits 0 and 1 of both keys are clear: they stay together through two
splits); thread 1 treeifies cell `(0,0)`: `TreeBin` 0 over the nodes 2, 3 -/
def setupLow : Sched :=
  call 0 0 (.ins 5 100) ++ rep 0 3 ++ call 0 4 (.ins 6 101) ++ rep 0 8 ++ [{ t := 1, maint := some 0 }] ++ rep 1 7

/-- **a `TreeBin` that is re-used by the first resize and re-used AGAIN by the second, with a writer queued
on its mutex and a reader holding its read lock all the time.** Thread 2 calls `insert(4)` and loads cell
`(0,0) = tree 0` (about to lock the mutex of bin 0); thread 1 calls `get(0)`, takes the read lock of bin 0 and
finds node 2. Resize `0 → 1`: the high side is empty and the low side is not small: bin 0 itself goes to
`(1,0)`. Resize `1 → 2`: again bin 0 itself goes to `(2,0)`. Thread 2 wakes up in generation 0: takes the
mutex, its re-check fails (`(0,0) = moved`), it follows `(0,0) → (1,0) → (2,0)`, finds the SAME `TreeBin`,
locks it again and updates node 3. Thread 0: `get(4)` (lock protocol, second reader). Thread 1 releases the
read lock it has held across both resizes. -/
def schedReuse2 : Sched :=
  setupLow ++ call 2 4 (.ins 7 102) ++ rep 2 2 ++ call 1 0 .get ++ rep 1 6 ++
  rz 3 ++ xferTree 3 0 false false ++ commit 3 ++
  rz 3 ++ xferTree 3 0 false false ++ xferEmpty 3 1 ++ commit 3 ++
  rep 2 11 ++ call 0 4 .get ++ rep 0 8 ++ rep 1 2

set_option maxRecDepth 8192 in
theorem verdict_reuse2 : verdict step 4 schedReuse2 =
    some (true, [(some (5, 100), true), (none, true), (none, true), (none, true), (some (7, 102), true), (none, true)]) := by
  decide

set_option maxRecDepth 8192 in
/-- the one and only `TreeBin` is in cell `(2,0)`; generations 0 and 1 are forwarded; the slow insert was
invoked (22) before the first resize and returned (69) after the second; the reader (invoked 25) returned at 80 -/
theorem reuse2_history :
    (run step (init 4) schedReuse2).map (fun s => (s.tabs, s.tbins.length, callsOn s 4, callsOn s 0)) =
      some ([[.moved], [.moved, .moved], [.tree 0, .empty, .empty, .empty]], 1,
        [⟨0, .ins 6 101, .none, 5, 13⟩, ⟨2, .ins 7 102, .some 6 101, 22, 69⟩, ⟨0, .get, .some 7 102, 70, 78⟩],
        [⟨0, .ins 5 100, .none, 1, 4⟩, ⟨1, .get, .some 5 100, 25, 80⟩]) := by
  decide

/-- thread 0: `insert(1)`, `insert(3)`, `insert(5)`, `insert(0)`; thread 1 treeifies: `TreeBin` 0 -/
def setupBoth : Sched :=
  call 0 1 (.ins 5 100) ++ rep 0 3 ++ call 0 3 (.ins 6 101) ++ rep 0 8 ++ call 0 5 (.ins 4 102) ++ rep 0 9 ++
  call 0 0 (.ins 3 103) ++ rep 0 10 ++ [{ t := 1, maint := some 0 }] ++ rep 1 7

/-- resize `0 → 1`: bin 0 `{1,3,5,0}` is split into two fresh `TreeBin`s (1: `{0}`, 2: `{1,3,5}`);
resize `1 → 2`: bin 1 is re-used in `(2,0)`; bin 2 is split into the fresh `TreeBin` 3 `{1,5}` in `(2,1)` and the
plain list `[3]` in `(2,3)` -/
def twoResizes : Sched :=
  rz 3 ++ xferTree 3 0 false false ++ commit 3 ++
  rz 3 ++ xferTree 3 0 false false ++ xferTree 3 1 false true ++ commit 3

/-- **a reader and a writer inside a `TreeBin` that is two generations old.** Thread 1 calls `get(1)`, takes
the read lock of bin 0 in generation 0 and finds its node; thread 2 calls `insert(3)` and loads `(0,0) = tree 0`;
both sleep through BOTH resizes (`twoResizes`). Thread 0 (generation 2): `insert(1) = 9` returns the old value,
`get(1)` returns 9. Only then thread 1 releases the read lock of the long dead bin 0 and returns the OLD value
(hindsight across two forwardings). Thread 2 takes the mutex of the dead bin 0, fails its re-check, follows
`(0,0) → (1,1) → (2,3)`, finds a plain LIST there and updates it under the node lock. -/
def schedStale2 : Sched :=
  setupBoth ++ call 1 1 .get ++ rep 1 6 ++ call 2 3 (.ins 8 104) ++ rep 2 2 ++ twoResizes ++
  call 0 1 (.ins 9 105) ++ rep 0 7 ++ call 0 1 .get ++ rep 0 8 ++ rep 1 2 ++ rep 2 11 ++ call 0 3 .get ++ rep 0 3

/-- the same without the re-checks: thread 2 trusts the mutex of the bin that died two generations ago and
overwrites its node; `insert(3) = 8` returns, a later `get(3)` still finds 6 -/
def schedLost2 : Sched :=
  setupBoth ++ call 1 1 .get ++ rep 1 6 ++ call 2 3 (.ins 8 104) ++ rep 2 2 ++ twoResizes ++
  call 0 1 (.ins 9 105) ++ rep 0 7 ++ call 0 1 .get ++ rep 0 8 ++ rep 1 2 ++ rep 2 5 ++ call 0 3 .get ++ rep 0 3

set_option maxRecDepth 8192 in
theorem verdict_stale2 : verdict step 4 schedStale2 =
    some (true, [(some (3, 103), true), (some (9, 105), true), (none, true), (some (8, 104), true), (none, true),
      (some (4, 102), true)]) := by
  decide

set_option maxRecDepth 8192 in
theorem verdict_lost2_noCheck : verdict stepNoCheck 4 schedLost2 =
    some (true, [(some (3, 103), true), (some (9, 105), true), (none, true), (some (6, 101), false), (none, true),
      (some (4, 102), true)]) := by
  decide

set_option maxRecDepth 8192 in
/-- the slow `get(1)` (invoked at 43 in generation 0) returns the old value at 104, after `get(1) = 9` returned
at 102 in generation 2; the slow `insert(3)` (invoked at 50) returns at 115 -/
theorem stale2_history :
    (run step (init 4) schedStale2).map (fun s => (s.tabs, callsOn s 1, callsOn s 3)) =
      some ([[.moved], [.moved, .moved], [.tree 1, .tree 3, .empty, .list 14]],
        [⟨0, .ins 5 100, .none, 1, 4⟩, ⟨0, .ins 9 105, .some 5 100, 86, 93⟩, ⟨0, .get, .some 9 105, 94, 102⟩,
         ⟨1, .get, .some 5 100, 43, 104⟩],
        [⟨0, .ins 6 101, .none, 5, 13⟩, ⟨2, .ins 8 104, .some 6 101, 50, 115⟩, ⟨0, .get, .some 8 104, 116, 119⟩]) := by
  decide

theorem of_verdict {f : StepFn} {n : Nat} {sc : Sched} {r : List (KSt × Bool)}
    (h : verdict f n sc = some (true, r)) :
    ∃ s, run f (init n) sc = some s ∧ quiescent s ∧ s.cur = 2 ∧
      (List.range 6).map (fun k => (absOf s k, linB s k)) = r := by
  unfold verdict at h
  cases hr : run f (init n) sc with
  | none => rw [hr] at h; cases h
  | some s =>
    rw [hr] at h
    simp only [Option.map_some, Option.some.injEq, Prod.mk.injEq] at h
    have h1 := h.1
    simp only [Bool.and_eq_true, beq_iff_eq] at h1
    exact ⟨s, rfl, (quiescentB_iff s).1 h1.1, h1.2, h.2⟩

/-- **the re-checks are load-bearing across any number of forwardings, also inside tree bins**: without them, a
reachable quiescent state (after two complete resizes) whose history of key 3 is not linearizable -/
theorem noCheck_not_linearizable :
    ∃ s, ReachableNoCheck 4 s ∧ quiescent s ∧ s.cur = 2 ∧ ¬ Lin.Linearizable (callsOn s 3) none (absOf s 3) := by
  obtain ⟨s, hr, hq, hc, hv⟩ := of_verdict verdict_lost2_noCheck
  refine ⟨s, run_reachableNoCheck _ .init hr, hq, hc, (linB_false_iff s 3).1 ?_⟩
  have h1 : (((List.range 6).map (fun k => (absOf s k, linB s k)))[3]?).map (·.2) = some false := by
    rw [hv]; rfl
  simpa using h1

theorem noCheck_refutes_aux :
    ∃ (n : Nat) (s : State) (k : Nat), ReachableNoCheck n s ∧ quiescent s ∧
      ¬ Linearizable (callsOn s k) none (absOf s k) := by
  obtain ⟨s, hr, hq, -, hn⟩ := noCheck_not_linearizable
  exact ⟨4, s, 3, hr, hq, hn⟩

/-- the two runs of the checked model are reachable quiescent states in generation 2 whose histories are
linearizable for the keys `0 … 5` (complete decision procedure, kernel-checked) -/
theorem runs_linearizable :
    ∀ sc ∈ [schedReuse2, schedStale2], ∃ s, run step (init 4) sc = some s ∧ Reachable 4 s ∧
      quiescent s ∧ s.cur = 2 ∧ ∀ k, k < 6 → Linearizable (callsOn s k) none (absOf s k) := by
  intro sc hsc
  simp only [List.mem_cons, List.not_mem_nil, or_false] at hsc
  rcases hsc with rfl | rfl
  · obtain ⟨s, hr, hq, hc, hv⟩ := of_verdict verdict_reuse2
    refine ⟨s, hr, run_reachable _ .init hr, hq, hc, fun k hk => (linB_iff s k).1 ?_⟩
    have h1 : ∀ k < 6, (((List.range 6).map (fun k => (absOf s k, linB s k)))[k]?).map (·.2) = some true := by
      rw [hv]; decide
    have := h1 k hk
    simpa [hk] using this
  · obtain ⟨s, hr, hq, hc, hv⟩ := of_verdict verdict_stale2
    refine ⟨s, hr, run_reachable _ .init hr, hq, hc, fun k hk => (linB_iff s k).1 ?_⟩
    have h1 : ∀ k < 6, (((List.range 6).map (fun k => (absOf s k, linB s k)))[k]?).map (·.2) = some true := by
      rw [hv]; decide
    have := h1 k hk
    simpa [hk] using this

/-- a small sample at build time (larger runs: see the file header of `Props/C01BinGN.lean`) -/
def sample : Out := explore { nthreads := 3, steps := 250, wake := 2 } 11 150

#eval IO.println (s!"{sample.runs} runs, {sample.quiescentRuns} quiescent, max generation {sample.maxGen}, " ++
  s!"not linearizable: {sample.bad.isSome}, coverage entries: {sample.cov.length}")

end Flurry.Proto.BinGN
