import Flurry.Proto.BinNR
import Flurry.Lemmas.BinNExamples
/-! # Proto/BinNR: the model exercised by execution, kernel-checked runs, and the refutation of
"retire before unlink" (C03, C04)

* `explore`: the seeded random scheduler of `Lemmas/BinNExamples.lean` over `BinNR.stepG early` (calls with
  removals and replacing inserts on a few keys, 1–3 resizes, optionally the *sleeper* that is frozen with a
  pointer into a table two generations old), with **eager `free`** (after every step every node whose
  `waitFor` is empty is freed) and explicit `retire` steps at random times (otherwise at the response).
  After EVERY step `check` asserts by brute force, for all threads and all node indices: no step touches a
  freed node, every holder of a retired node is awaited, retired nodes are unreachable, and the whole proof
  invariant of `Lemmas/BinNRInv.lean` (`J1`–`J7`, `W`).
* kernel-checked runs (`decide`) and the kernel-checked refutation of the `early` variant: end of the file. -/
namespace Flurry.Proto.BinNR
open Flurry.Lin
open Flurry.Proto.BinX (NodeS Cell Pending isReader dflt chainFrom cellHead cellOfHead)
open Flurry.Proto.BinN (Pc Local cellAt cellOf chainOfCell rngNext rngPick mkOp pcTag Cov Cov.bump)

structure RAct where
  t : Nat
  a : Act
deriving Repr, DecidableEq

abbrev Sched := List RAct

def act (early : Bool) (s : State) (x : RAct) : Option State := stepG early s x.t x.a

def run (early : Bool) : State → Sched → Option State
  | s, [] => some s
  | s, x :: rest =>
    match act early s x with
    | none => none
    | some s' => run early s' rest

def subsetB (a b : List Nat) : Bool := a.all fun x => b.contains x

/-- C03 on one state: no thread is about to touch a freed node -/
def noTouchFreedB (nthreads : Nat) (s : State) : Bool :=
  (List.range nthreads).all fun t => (touches s.n t).all fun i => s.life i != .freed

/-- every holder of a retired node is awaited (and nobody holds a freed node) -/
def holdersAwaitedB (nthreads : Nat) (s : State) : Bool :=
  (List.range nthreads).all fun t => (holdsOf s.n t).all fun i =>
    match s.life i with
    | .live => true
    | .retired w => w.contains t
    | .freed => false

/-- a node that is not `live` is in no chain of any cell -/
def retiredUnreachableB (s : State) : Bool :=
  (List.range s.n.heap.length).all fun i => s.life i == .live || !reach s.n i

/-- the proof invariant, by brute force; `none` = holds, `some tag` = the first clause that fails -/
def check (nthreads : Nat) (s : State) : Option String := Id.run do
  let N := s.n.heap.length
  let gs := guardedSet s.n
  if !noTouchFreedB nthreads s then return some "touch-after-free"
  if !holdersAwaitedB nthreads s then return some "holder-not-awaited"
  if !retiredUnreachableB s then return some "retired-reachable"
  for i in [0:N + 2] do
    match s.unl i with
    | some u =>
      if reach s.n i || N ≤ i then return some "J1"
      if !subsetB u gs then return some "J5"
      match (s.n.heap.getD i dflt).next with
      | some j =>
        if !(reach s.n j || (match s.unl j with | some uj => subsetB u uj | none => false)) then return some "J3"
      | none => pure ()
      match s.life i with
      | .live => pure ()
      | .retired w => if !subsetB u w then return some "J4r"
      | .freed => if u != [] then return some "J4f"
    | none => if s.life i != .live then return some "J4n"
    match s.life i with
    | .live => pure ()
    | .retired w =>
      if !((s.w0 i).all fun t => w.contains t || (s.exited i).contains t) then return some "Wr"
    | .freed => if !subsetB (s.w0 i) (s.exited i) then return some "Wf"
  for t in [0:nthreads] do
    for i in holdsOf s.n t do
      if !(reach s.n i || (match s.unl i with | some u => u.contains t | none => false)) then return some "J2"
    for i in s.pend t do
      if (s.unl i).isNone || s.life i != .live || !guarded s.n t then return some "J7"
      for t' in [0:nthreads] do
        if t' != t && (s.pend t').contains i then return some "J7x"
    if !(s.pend t).Nodup then return some "J7d"
  return none

/-- the nodes of the old list `h` of cell `(cur, j)` that are in neither new list -/
def notReused (n : BinN.State) (j h : Nat) : List Nat :=
  (chainFrom n.heap n.heap.length (some h)).filter fun x =>
    !(chainOfCell n (cellAt n (n.cur + 1) j)).contains x &&
    !(chainOfCell n (cellAt n (n.cur + 1) (j + 2 ^ n.cur))).contains x

structure Cfg where
  nthreads : Nat := 3
  keys : List Nat := [0, 1, 2, 3]
  steps : Nat := 200
  calls : Nat := 12
  resizes : Nat := 3
  pResize : Nat := 6
  pCall : Nat := 70
  /-- probability (%) that a thread with a retire obligation retires now -/
  pRetire : Nat := 30
  early : Bool := false
  /-- thread `0` is frozen while it has a call in flight and `cur < wake` (0 = no sleeper) -/
  wake : Nat := 0

def frozen (cfg : Cfg) (s : State) (t : Nat) (extra : Nat) : Bool :=
  cfg.wake > 0 && t == 0 && s.n.cur < cfg.wake &&
    (let l := s.n.threads.getD 0 {}
     l.call.isSome && (match l.pc with | .rTable | .wTable => false | _ => true) && extra == 0)

def mkOpR (r vi : Nat) : KOp :=
  match r % 12 with
  | 0 | 1 | 2 => .ins (vi % 7) vi
  | 3 | 4 | 5 | 6 => .rm
  | 7 | 8 => .get
  | 9 => .cipRm
  | 10 => .cipInc vi
  | _ => .has

structure St where
  s : State
  sc : Array RAct := #[]
  cov : Cov := []
  bad : Option String := none

/-- execute one action, then free eagerly, checking after every single transition -/
def exec (cfg : Cfg) (x : St) (a : RAct) : St := Id.run do
  if x.bad.isSome then return x
  match act cfg.early x.s a with
  | none => return { x with cov := x.cov.bump ("blocked:" ++ pcTag (x.s.n.threads.getD a.t {}).pc) }
  | some s' =>
    let mut cov := x.cov
    let mut sc := x.sc.push a
    let mut bad := check cfg.nthreads s'
    let l := x.s.n.threads.getD a.t {}
    match a.a with
    | .base .. =>
      cov := cov.bump ("pc:" ++ pcTag (s'.n.threads.getD a.t {}).pc)
      match l.pc with
      | .tStoreMoved j h =>
        let cp := copiedPrefix x.s.n h
        cov := cov.bump s!"transfer:prefix={cp.length}"
        if cp != notReused x.s.n j h then bad := some "prefix≠notReused"
      | .rNode (some c) =>
        match x.s.life c with
        | .retired _ =>
          cov := cov.bump "readerTouchesRetired"
          if x.s.n.cur ≥ 2 && l.call.any (fun p => p.inv < 40) then cov := cov.bump "staleReaderTouchesRetired"
        | _ => pure ()
      | .wLock _ h | .wUnlock _ h _ _ =>
        match x.s.life h with
        | .retired _ => cov := cov.bump "writerLocksRetired"
        | _ => pure ()
      | _ => pure ()
      if !(retiredBy cfg.early x.s.n a.t).isEmpty then cov := cov.bump "unlink"
    | .retire _ => cov := cov.bump "retire(explicit)"
    | .free _ => pure ()
    let mut s := s'
    -- eager free
    for i in [0:s.n.heap.length] do
      if bad.isSome then break
      if s.life i == .retired [] then
        match act cfg.early s ⟨0, .free i⟩ with
        | some s2 =>
          s := s2
          sc := sc.push ⟨0, .free i⟩
          cov := cov.bump "free"
          bad := check cfg.nthreads s
        | none => bad := some "free-refused"
    return { s := s, sc := sc, cov := cov, bad := bad }

def oneRun (cfg : Cfg) (seed : Nat) (cov : Cov) : St := Id.run do
  let mut x : St := { s := init cfg.nthreads, cov := cov }
  let mut rng := seed
  let mut calls := 0
  let mut rzs := 0
  rng := rngNext rng
  let mut extra := rngPick rng 8
  for _ in [0:cfg.steps] do
    if x.bad.isSome then break
    rng := rngNext rng
    let t := rngPick rng cfg.nthreads
    rng := rngNext rng
    let s := x.s
    let l := s.n.threads.getD t {}
    if frozen cfg s t extra then continue
    let mut a : Act := .base none false 0
    if l.pc == .idle then
      let r := rngPick rng 100
      rng := rngNext rng
      if r < cfg.pResize && !s.n.resizing && rzs < cfg.resizes && !(cfg.wake > 0 && t == 0) then
        a := .base none true 0
        rzs := rzs + 1
      else if r < cfg.pResize + cfg.pCall && calls < cfg.calls then
        let k := cfg.keys.getD (rngPick rng cfg.keys.length) 0
        rng := rngNext rng
        let op := if cfg.wake > 0 && t == 0 then KOp.get else mkOpR (rngPick rng 12) (100 + calls)
        a := .base (some (k, op)) false 0
        calls := calls + 1
      else continue
    else
      let r := rngPick rng 100
      rng := rngNext rng
      match s.pend t with
      | i :: _ => if r < cfg.pRetire then a := .retire i else a := .base none false (rngPick rng 64)
      | [] => a := .base none false (rngPick rng 64)
      if cfg.wake > 0 && t == 0 && l.call.isSome && s.n.cur < cfg.wake then
        match l.pc with
        | .rTable | .wTable => pure ()
        | _ => if extra > 0 then extra := extra - 1
    x := exec cfg x ⟨t, a⟩
  -- drain
  let mut stuck := false
  for _ in [0:600] do
    if x.bad.isSome || BinN.quiescentB x.s.n then break
    let mut progress := false
    for t' in [0:cfg.nthreads] do
      let t := cfg.nthreads - 1 - t'
      let l := x.s.n.threads.getD t {}
      if l.pc != .idle then
        if frozen cfg x.s t 0 && !stuck then continue
        rng := rngNext rng
        let before := x.sc.size
        x := exec cfg x ⟨t, .base none false (rngPick rng 64)⟩
        if x.sc.size > before then progress := true
    stuck := !progress
  return x

structure Out where
  cov : Cov
  bad : Option (String × Sched)
  runs : Nat
  steps : Nat
  maxGen : Nat
  leaked : Nat

def explore (cfg : Cfg) (seed0 nruns : Nat) : Out := Id.run do
  let mut cov : Cov := []
  let mut bad : Option (String × Sched) := none
  let mut steps := 0
  let mut mg := 0
  let mut leaked := 0
  for i in [0:nruns] do
    let x := oneRun cfg (rngNext (seed0 + 7919 * i)) cov
    cov := x.cov
    steps := steps + x.sc.size
    if x.s.n.cur > mg then mg := x.s.n.cur
    cov := cov.bump s!"final:cur={x.s.n.cur}"
    match x.bad with
    | some b => if bad.isNone then bad := some (b, x.sc.toList)
    | none =>
      if BinN.quiescentB x.s.n then
        -- at quiescence everything that was unlinked has been freed
        for j in [0:x.s.n.heap.length] do
          if (x.s.unl j).isSome && x.s.life j != .freed then leaked := leaked + 1
      else cov := cov.bump "notDrained"
  return { cov := cov, bad := bad, runs := nruns, steps := steps, maxGen := mg, leaked := leaked }

def Out.report (o : Out) : String :=
  let lines := (o.cov.toArray.qsort (fun a b => a.1 < b.1)).toList.map fun (k, n) => s!"  {k}: {n}"
  s!"runs {o.runs}, transitions {o.steps} (each checked), max generation {o.maxGen}, unlinked-but-not-freed at quiescence {o.leaked}, " ++
  (match o.bad with | none => "ALL CHECKS PASS" | some (b, sc) => s!"VIOLATION {b}: {repr sc}") ++
  "\n" ++ "\n".intercalate lines

end Flurry.Proto.BinNR
