import Flurry.Lemmas.BinGNGenStepX
/-! # Proto/BinGN: every lock word has an owner whose program counter says so (definitions, frame lemmas)

The converse of the lock part of `GenInv`: `OwnInv s` says that a node lock / `TreeBin` mutex that is taken is
taken by a thread whose program counter holds it, and that while `resizing` is set there is a resizing thread.
Consequence (`Lemmas/BinGNOwn.lean`): in a quiescent state nothing is locked and no resize is half done. -/
namespace Flurry.Proto.BinGN
open Flurry.Lin

/-- the parts of a descriptor that do not depend on `cur` -/
def holdNOf (l : Local) : Option Nat := (desc 0 l).holdN
def holdMOf (l : Local) : Option Nat := (desc 0 l).holdM
def isXOf (l : Local) : Bool := (desc 0 l).isX

theorem holdN_indep (c : Nat) (l : Local) : (desc c l).holdN = holdNOf l := by
  obtain ⟨pc, call⟩ := l; cases pc <;> rfl
theorem holdM_indep (c : Nat) (l : Local) : (desc c l).holdM = holdMOf l := by
  obtain ⟨pc, call⟩ := l; cases pc <;> rfl
theorem isX_indep (c : Nat) (l : Local) : (desc c l).isX = isXOf l := by
  obtain ⟨pc, call⟩ := l; cases pc <;> rfl

structure OwnInv (s : State) : Prop where
  ownN : ∀ h x, lockAt s.heap h = some x → ∃ l : Local, s.threads[x]? = some l ∧ holdNOf l = some h
  ownM : ∀ b x, mutexAt s.tbins b = some x → ∃ l : Local, s.threads[x]? = some l ∧ holdMOf l = some b
  resX : s.resizing = true → ∃ (t : Nat) (l : Local), s.threads[t]? = some l ∧ isXOf l = true

/-- the heap grew by unlocked nodes, and no lock word of an old node changed -/
def LockExt (heap heap' : List NodeS) : Prop :=
  LockSame heap heap' ∧ ∀ i, heap.length ≤ i → lockAt heap' i = none

theorem LockExt.refl (heap : List NodeS) : LockExt heap heap :=
  ⟨.refl _, fun i hi => by unfold lockAt; rw [getD_eq, List.getElem?_eq_none hi]; rfl⟩

theorem LockExt.trans {a b c : List NodeS} (h1 : LockExt a b) (h2 : LockExt b c) : LockExt a c := by
  refine ⟨h1.1.trans h2.1, fun i hi => ?_⟩
  by_cases hb : i < b.length
  · rw [h2.1.2 i hb]; exact h1.2 i hi
  · exact h2.2 i (by omega)

theorem LockExt.modify (heap : List NodeS) (i : Nat) (f : NodeS → NodeS) (hf : ∀ n, (f n).lock = n.lock) :
    LockExt heap (heap.modify i f) := by
  refine ⟨LockSame.modify _ _ _ hf, fun j hj => ?_⟩
  unfold lockAt; rw [getD_eq, List.getElem?_eq_none (by simpa using hj)]; rfl

theorem LockExt.append (heap ext : List NodeS) (hx : ∀ n ∈ ext, n.lock = none) : LockExt heap (heap ++ ext) := by
  refine ⟨LockSame.append _ _, fun i hi => ?_⟩
  unfold lockAt
  rw [getD_eq, List.getElem?_append_right hi]
  cases he : ext[i - heap.length]? with
  | none => rfl
  | some n => exact hx n (List.mem_of_getElem? he)

theorem LockExt.append1 (heap : List NodeS) (n : NodeS) (hn : n.lock = none) : LockExt heap (heap ++ [n]) :=
  LockExt.append _ _ (fun m hm => by simp at hm; subst hm; exact hn)

theorem copyChain_lockExt (heap : List NodeS) (c : List Nat) (mk : NodeS → Option Nat → NodeS)
    (hmk : ∀ a b, (mk a b).lock = none) : LockExt heap (copyChain heap c mk).1 := by
  refine LockExt.append _ _ ?_
  intro n hn
  simp only [List.mem_map] at hn
  obtain ⟨j, -, rfl⟩ := hn
  exact hmk _ _

theorem splitBinB_lockExt (bit : Nat → Bool) (heap : List NodeS) (c : List Nat) :
    LockExt heap (splitBinB bit heap c).1 := by
  unfold splitBinB
  simp only
  generalize (c.take (lastRunStartB bit heap c)) = pre
  generalize (if (match (List.drop (lastRunStartB bit heap c) c).head? with
        | some i => bit (heap.getD i dflt).key
        | none => false) = true then none else (List.drop (lastRunStartB bit heap c) c).head?) = lo
  generalize (if (match (List.drop (lastRunStartB bit heap c) c).head? with
        | some i => bit (heap.getD i dflt).key
        | none => false) = true then (List.drop (lastRunStartB bit heap c) c).head? else none) = hg
  suffices h : ∀ (pre : List Nat) (hp : List NodeS) (lo hg : Option Nat), LockExt heap hp →
      LockExt heap (pre.foldl
        (fun (acc : List NodeS × Option Nat × Option Nat) i =>
          let (hp, lo, hg) := acc
          let n := hp.getD i dflt
          let idx := hp.length
          if bit n.key then (hp ++ [⟨n.key, n.val, hg, none, false, none⟩], lo, some idx)
          else (hp ++ [⟨n.key, n.val, lo, none, false, none⟩], some idx, hg)) (hp, lo, hg)).1 from
    h pre heap lo hg (LockExt.refl _)
  intro pre
  induction pre with
  | nil => intro hp lo hg h; exact h
  | cons i pre ih =>
    intro hp lo hg h
    simp only [List.foldl_cons]
    split
    · exact ih _ _ _ (h.trans (LockExt.append1 _ _ rfl))
    · exact ih _ _ _ (h.trans (LockExt.append1 _ _ rfl))

/-- the `TreeBin` table grew by unlocked bins, and no mutex of an old bin changed -/
def MutexExt (tb tb' : List TBin) : Prop :=
  MutexSame tb tb' ∧ ∀ i, tb.length ≤ i → mutexAt tb' i = none

theorem MutexExt.refl (tb : List TBin) : MutexExt tb tb :=
  ⟨.refl _, fun i hi => by unfold mutexAt; rw [getD_eq, List.getElem?_eq_none hi]; rfl⟩

theorem MutexExt.trans {a b c : List TBin} (h1 : MutexExt a b) (h2 : MutexExt b c) : MutexExt a c := by
  refine ⟨h1.1.trans h2.1, fun i hi => ?_⟩
  by_cases hb : i < b.length
  · rw [h2.1.2 i hb]; exact h1.2 i hi
  · exact h2.2 i (by omega)

theorem MutexExt.modify (tb : List TBin) (i : Nat) (f : TBin → TBin) (hf : ∀ n, (f n).mutex = n.mutex) :
    MutexExt tb (tb.modify i f) := by
  refine ⟨MutexSame.modify _ _ _ hf, fun j hj => ?_⟩
  unfold mutexAt; rw [getD_eq, List.getElem?_eq_none (by simpa using hj)]; rfl

theorem MutexExt.append1 (tb : List TBin) (n : TBin) (hn : n.mutex = none) : MutexExt tb (tb ++ [n]) := by
  refine ⟨MutexSame.append _ _, fun i hi => ?_⟩
  unfold mutexAt
  rw [getD_eq, List.getElem?_append_right hi]
  cases he : [n][i - tb.length]? with
  | none => rfl
  | some m =>
    have := List.mem_of_getElem? he
    simp at this; subst this; exact hn

/-- the generic preservation lemma -/
theorem owninv_frame {s s' : State} {t : Nat} {l l' : Local} (O : OwnInv s) (hl : s.threads[t]? = some l)
    (hthr : s'.threads = s.threads.set t l')
    (hres : s'.resizing = true → s.resizing = true ∨ isXOf l' = true)
    (hX : isXOf l = true → isXOf l' = true ∨ s'.resizing = false)
    (hN : ∀ h x, lockAt s'.heap h = some x → (x = t ∧ holdNOf l' = some h) ∨ (x ≠ t ∧ lockAt s.heap h = some x))
    (hM : ∀ b x, mutexAt s'.tbins b = some x → (x = t ∧ holdMOf l' = some b) ∨ (x ≠ t ∧ mutexAt s.tbins b = some x)) :
    OwnInv s' := by
  have ht : t < s.threads.length := (List.getElem?_eq_some_iff.1 hl).1
  have hself : s'.threads[t]? = some l' := by rw [hthr, List.getElem?_set_self ht]
  have hoth : ∀ x, x ≠ t → s'.threads[x]? = s.threads[x]? := by
    intro x hx; rw [hthr, List.getElem?_set_ne (Ne.symm hx)]
  refine ⟨?_, ?_, ?_⟩
  · intro h x hx
    rcases hN h x hx with ⟨rfl, e⟩ | ⟨n, e⟩
    · exact ⟨l', hself, e⟩
    · obtain ⟨l1, a, b⟩ := O.ownN h x e
      exact ⟨l1, by rw [hoth x n]; exact a, b⟩
  · intro b x hx
    rcases hM b x hx with ⟨rfl, e⟩ | ⟨n, e⟩
    · exact ⟨l', hself, e⟩
    · obtain ⟨l1, a, c⟩ := O.ownM b x e
      exact ⟨l1, by rw [hoth x n]; exact a, c⟩
  · intro hr
    rcases hres hr with h | h
    · obtain ⟨t1, l1, a, b⟩ := O.resX h
      by_cases e : t1 = t
      · subst e
        rw [hl] at a; cases a
        rcases hX b with h2 | h2
        · exact ⟨t1, l', hself, h2⟩
        · rw [hr] at h2; cases h2
      · exact ⟨t1, l1, by rw [hoth t1 e]; exact a, b⟩
    · exact ⟨t, l', hself, h⟩

/-- no lock word changes and the acting thread holds the same node lock as before -/
theorem hN_same {s : State} {t : Nat} {l l' : Local} {heap' : List NodeS} (O : OwnInv s) (hl : s.threads[t]? = some l)
    (hx : LockExt s.heap heap') (he : holdNOf l' = holdNOf l) :
    ∀ h x, lockAt heap' h = some x → (x = t ∧ holdNOf l' = some h) ∨ (x ≠ t ∧ lockAt s.heap h = some x) := by
  intro h x hlk
  have hh : h < s.heap.length := by
    by_cases hh : h < s.heap.length
    · exact hh
    · rw [hx.2 h (by omega)] at hlk; cases hlk
  rw [hx.1.2 h hh] at hlk
  by_cases e : x = t
  · subst e
    obtain ⟨l1, a, b⟩ := O.ownN h x hlk
    rw [hl] at a; cases a
    exact Or.inl ⟨rfl, by rw [he]; exact b⟩
  · exact Or.inr ⟨e, hlk⟩

theorem hM_same {s : State} {t : Nat} {l l' : Local} {tb' : List TBin} (O : OwnInv s) (hl : s.threads[t]? = some l)
    (hx : MutexExt s.tbins tb') (he : holdMOf l' = holdMOf l) :
    ∀ b x, mutexAt tb' b = some x → (x = t ∧ holdMOf l' = some b) ∨ (x ≠ t ∧ mutexAt s.tbins b = some x) := by
  intro h x hlk
  have hh : h < s.tbins.length := by
    by_cases hh : h < s.tbins.length
    · exact hh
    · rw [hx.2 h (by omega)] at hlk; cases hlk
  rw [hx.1.2 h hh] at hlk
  by_cases e : x = t
  · subst e
    obtain ⟨l1, a, b⟩ := O.ownM h x hlk
    rw [hl] at a; cases a
    exact Or.inl ⟨rfl, by rw [he]; exact b⟩
  · exact Or.inr ⟨e, hlk⟩

/-- the acting thread takes the free lock of node `h0` -/
theorem hN_acq {s : State} {t h0 : Nat} {l l' : Local} (O : OwnInv s) (hl : s.threads[t]? = some l)
    (h0' : holdNOf l = none) (h1' : holdNOf l' = some h0) :
    ∀ h x, lockAt (s.heap.modify h0 (fun m => { m with lock := some t })) h = some x →
      (x = t ∧ holdNOf l' = some h) ∨ (x ≠ t ∧ lockAt s.heap h = some x) := by
  intro h x hlk
  by_cases e : h = h0
  · subst e
    by_cases hh : h < s.heap.length
    · rw [lockAt_modify_self _ hh] at hlk; cases hlk; exact Or.inl ⟨rfl, h1'⟩
    · unfold lockAt at hlk
      rw [getD_eq, List.getElem?_eq_none (by simpa using hh)] at hlk; cases hlk
  · rw [lockAt_modify_ne _ e] at hlk
    refine Or.inr ⟨?_, hlk⟩
    rintro rfl
    obtain ⟨l1, a, b⟩ := O.ownN h x hlk
    rw [hl] at a; cases a
    rw [h0'] at b; cases b

/-- the acting thread releases the lock of node `h0` -/
theorem hN_rel {s : State} {t h0 : Nat} {l l' : Local} (O : OwnInv s) (hl : s.threads[t]? = some l)
    (h0' : holdNOf l = some h0) :
    ∀ h x, lockAt (s.heap.modify h0 (fun m => { m with lock := none })) h = some x →
      (x = t ∧ holdNOf l' = some h) ∨ (x ≠ t ∧ lockAt s.heap h = some x) := by
  intro h x hlk
  by_cases e : h = h0
  · subst e
    by_cases hh : h < s.heap.length
    · rw [lockAt_modify_self _ hh] at hlk; cases hlk
    · unfold lockAt at hlk
      rw [getD_eq, List.getElem?_eq_none (by simpa using hh)] at hlk; cases hlk
  · rw [lockAt_modify_ne _ e] at hlk
    refine Or.inr ⟨?_, hlk⟩
    rintro rfl
    obtain ⟨l1, a, b⟩ := O.ownN h x hlk
    rw [hl] at a; cases a
    rw [h0'] at b; cases b; exact e rfl

theorem hM_acq {s : State} {t b0 : Nat} {l l' : Local} (O : OwnInv s) (hl : s.threads[t]? = some l)
    (h0' : holdMOf l = none) (h1' : holdMOf l' = some b0) :
    ∀ b x, mutexAt (s.tbins.modify b0 (fun m => { m with mutex := some t })) b = some x →
      (x = t ∧ holdMOf l' = some b) ∨ (x ≠ t ∧ mutexAt s.tbins b = some x) := by
  intro h x hlk
  by_cases e : h = b0
  · subst e
    by_cases hh : h < s.tbins.length
    · rw [mutexAt_modify_self _ hh] at hlk; cases hlk; exact Or.inl ⟨rfl, h1'⟩
    · unfold mutexAt at hlk
      rw [getD_eq, List.getElem?_eq_none (by simpa using hh)] at hlk; cases hlk
  · rw [mutexAt_modify_ne _ e] at hlk
    refine Or.inr ⟨?_, hlk⟩
    rintro rfl
    obtain ⟨l1, a, b⟩ := O.ownM h x hlk
    rw [hl] at a; cases a
    rw [h0'] at b; cases b

theorem hM_rel {s : State} {t b0 : Nat} {l l' : Local} (O : OwnInv s) (hl : s.threads[t]? = some l)
    (h0' : holdMOf l = some b0) :
    ∀ b x, mutexAt (s.tbins.modify b0 (fun m => { m with mutex := none })) b = some x →
      (x = t ∧ holdMOf l' = some b) ∨ (x ≠ t ∧ mutexAt s.tbins b = some x) := by
  intro h x hlk
  by_cases e : h = b0
  · subst e
    by_cases hh : h < s.tbins.length
    · rw [mutexAt_modify_self _ hh] at hlk; cases hlk
    · unfold mutexAt at hlk
      rw [getD_eq, List.getElem?_eq_none (by simpa using hh)] at hlk; cases hlk
  · rw [mutexAt_modify_ne _ e] at hlk
    refine Or.inr ⟨?_, hlk⟩
    rintro rfl
    obtain ⟨l1, a, b⟩ := O.ownM h x hlk
    rw [hl] at a; cases a
    rw [h0'] at b; cases b; exact e rfl

end Flurry.Proto.BinGN
