import Flurry.Lemmas.BinGNGenDefs
/-! # Proto/BinGN: the generation invariant — frame lemmas -/
namespace Flurry.Proto.BinGN
open Flurry.Lin

theorem get_set {α : Type} {l : List α} {t t1 : Nat} {x y : α} (h : (l.set t x)[t1]? = some y) :
    (t1 = t ∧ y = x) ∨ (t1 ≠ t ∧ l[t1]? = some y) := by
  by_cases e : t = t1
  · subst e
    by_cases hl : t < l.length
    · rw [List.getElem?_set_self hl] at h
      exact Or.inl ⟨rfl, (Option.some.inj h).symm⟩
    · rw [List.getElem?_eq_none (by simp; omega)] at h; cases h
  · rw [List.getElem?_set_ne e] at h
    exact Or.inr ⟨fun h' => e h'.symm, h⟩

/-- a descriptor that knows nothing more than another one -/
structure Desc.le (D' D : Desc) : Prop where
  isX : D'.isX = true → D.isX = true
  gen : D'.gen = none ∨ D'.gen = D.gen
  idx : D'.idx = none ∨ D'.idx = D.idx
  commit : D'.commit = true → D.commit = true
  holdN : D'.holdN = none ∨ D'.holdN = D.holdN
  holdM : D'.holdM = none ∨ D'.holdM = D.holdM
  valid : D'.valid = none ∨ (D'.valid = D.valid ∧ D'.holdN = D.holdN ∧ D'.holdM = D.holdM)
  plan : ∀ c ∈ D'.plan, c ∈ D.plan

theorem POK.weaken {s : State} {t : Nat} {D D' : Desc} (h : POK s t D) (le : D'.le D) : POK s t D' := by
  refine ⟨fun hx => h.tres (le.isX hx), ?_, ?_, fun hc => h.commit (le.commit hc), ?_, ?_, ?_, ?_⟩
  · intro g k hg
    rcases le.gen with e | e
    · rw [e] at hg; cases hg
    · rw [e] at hg; exact h.gen g k hg
  · intro j hj
    rcases le.idx with e | e
    · rw [e] at hj; cases hj
    · rw [e] at hj; exact h.idx j hj
  · intro x hx
    rcases le.holdN with e | e
    · rw [e] at hx; cases hx
    · rw [e] at hx; exact h.heldN x hx
  · intro x hx
    rcases le.holdM with e | e
    · rw [e] at hx; cases hx
    · rw [e] at hx; exact h.heldM x hx
  · intro g j c hv
    rcases le.valid with e | ⟨e, e1, e2⟩
    · rw [e] at hv; cases hv
    · rw [e] at hv; rw [e1, e2]; exact h.valid g j c hv
  · intro c hc
    exact h.plan c (le.plan c hc)

/-- `POK` only depends on the tables, `cur`, `resizing`, the lock words / mutexes the thread holds and the
length of the `TreeBin` table -/
theorem POK.congr {s s' : State} {t : Nat} {D : Desc} (h : POK s t D)
    (htabs : s'.tabs = s.tabs) (hcur : s'.cur = s.cur) (hres : s'.resizing = s.resizing)
    (hN : ∀ x, D.holdN = some x → x < s'.heap.length ∧ lockAt s'.heap x = some t)
    (hM : ∀ x, D.holdM = some x → x < s'.tbins.length ∧ mutexAt s'.tbins x = some t)
    (hlen : s.tbins.length ≤ s'.tbins.length) : POK s' t D := by
  have hc : ∀ g j, cellAt s' g j = cellAt s g j := fun g j => by rw [cellAt_eq, cellAt_eq, htabs]
  refine ⟨?_, ?_, ?_, ?_, hN, hM, ?_, ?_⟩
  · rw [hres]; exact h.tres
  · intro g k hg
    rw [hcur]; unfold cellOf; rw [hc]; exact h.gen g k hg
  · rw [hcur]; exact h.idx
  · rw [hcur]; intro h1 j hj; rw [hc]; exact h.commit h1 j hj
  · intro g j c hv; rw [hc]; exact h.valid g j c hv
  · intro c hc; exact ⟨(h.plan c hc).1, fun b e => Nat.lt_of_lt_of_le ((h.plan c hc).2 b e) hlen⟩

theorem descPc_cur_indep {c c' k : Nat} {pc : Pc} (h : (descPc c k pc).isX = false) :
    descPc c k pc = descPc c' k pc := by
  cases pc <;> first | rfl | (simp [descPc] at h)

namespace GenInv
variable {s : State}

theorem cur_lt (I : GenInv s) : s.cur < s.tabs.length := by
  have := I.len
  omega

theorem row_cur (I : GenInv s) : ∃ row, s.tabs[s.cur]? = some row ∧ row.length = 2 ^ s.cur := by
  have h := I.cur_lt
  exact ⟨s.tabs[s.cur], List.getElem?_eq_getElem h, I.rows _ _ (List.getElem?_eq_getElem h)⟩

theorem row_next (I : GenInv s) (hr : s.resizing = true) :
    ∃ row, s.tabs[s.cur + 1]? = some row ∧ row.length = 2 ^ (s.cur + 1) := by
  have h : s.cur + 1 < s.tabs.length := by
    have := I.len
    rw [hr] at this
    simp at this
    omega
  exact ⟨s.tabs[s.cur + 1], List.getElem?_eq_getElem h, I.rows _ _ (List.getElem?_eq_getElem h)⟩

/-- **mutual exclusion**: at most one thread holds a validated lock on a cell -/
theorem mutex (I : GenInv s) {t t1 : Nat} {l l1 : Local} {g j : Nat} {c c1 : Cell}
    (hl : s.threads[t]? = some l) (hl1 : s.threads[t1]? = some l1)
    (hv : (desc s.cur l).valid = some (g, j, c)) (hv1 : (desc s.cur l1).valid = some (g, j, c1)) : t = t1 := by
  obtain ⟨e, hh⟩ := (I.thr t l hl).valid g j c hv
  obtain ⟨e1, hh1⟩ := (I.thr t1 l1 hl1).valid g j c1 hv1
  rw [e] at e1
  subst e1
  rcases hh with ⟨h, rfl, a⟩ | ⟨b, rfl, a⟩
  · rcases hh1 with ⟨h1, e2, a1⟩ | ⟨b1, e2, a1⟩
    · cases e2
      have x := ((I.thr t l hl).heldN h a).2
      have y := ((I.thr t1 l1 hl1).heldN h a1).2
      rw [x] at y; exact Option.some.inj y
    · cases e2
  · rcases hh1 with ⟨h1, e2, a1⟩ | ⟨b1, e2, a1⟩
    · cases e2
    · cases e2
      have x := ((I.thr t l hl).heldM b a).2
      have y := ((I.thr t1 l1 hl1).heldM b a1).2
      rw [x] at y; exact Option.some.inj y

/-- all cells of generation `cur` are forwarded -/
theorem of_allMoved (I : GenInv s) (h : allMoved s s.cur = true) : ∀ j, j < 2 ^ s.cur → cellAt s s.cur j = .moved := by
  obtain ⟨row, hr, hlen⟩ := I.row_cur
  intro j hj
  unfold allMoved at h
  rw [getD_eq, hr] at h
  simp only [Option.getD_some, List.all_eq_true, beq_iff_eq] at h
  have e : s.tabs.getD s.cur [] = row := by rw [getD_eq, hr]; rfl
  unfold cellAt
  rw [e, getD_eq, List.getElem?_eq_getElem (by omega)]
  exact h _ (List.getElem_mem _)

end GenInv

/-- the locks of the other threads survive the transition of thread `t` -/
def OthersN (s : State) (t : Nat) (heap' : List NodeS) : Prop :=
  ∀ h t1, t1 ≠ t → h < s.heap.length → lockAt s.heap h = some t1 → h < heap'.length ∧ lockAt heap' h = some t1

def OthersM (s : State) (t : Nat) (tb' : List TBin) : Prop :=
  ∀ b t1, t1 ≠ t → b < s.tbins.length → mutexAt s.tbins b = some t1 → b < tb'.length ∧ mutexAt tb' b = some t1

theorem OthersN.of_same {s : State} {t : Nat} {heap' : List NodeS} (h : LockSame s.heap heap') : OthersN s t heap' :=
  fun x t1 _ hx hl => ⟨Nat.lt_of_lt_of_le hx h.1, by rw [h.2 x hx]; exact hl⟩

theorem OthersM.of_same {s : State} {t : Nat} {tb' : List TBin} (h : MutexSame s.tbins tb') : OthersM s t tb' :=
  fun x t1 _ hx hl => ⟨Nat.lt_of_lt_of_le hx h.1, by rw [h.2 x hx]; exact hl⟩

/-- the acting thread changes a lock word that is free or its own -/
theorem OthersN.of_modify {s : State} {t h : Nat} {x : Option Nat}
    (hfree : lockAt s.heap h = none ∨ lockAt s.heap h = some t) :
    OthersN s t (s.heap.modify h (fun m => { m with lock := x })) := by
  intro h1 t1 hne a b
  have hne' : h1 ≠ h := by
    rintro rfl
    rcases hfree with e | e <;> rw [e] at b
    · cases b
    · exact hne (Option.some.inj b).symm
  exact ⟨by simpa using a, by rw [lockAt_modify_ne x hne']; exact b⟩

theorem OthersM.of_modify {s : State} {t b : Nat} {x : Option Nat}
    (hfree : mutexAt s.tbins b = none ∨ mutexAt s.tbins b = some t) :
    OthersM s t (s.tbins.modify b (fun m => { m with mutex := x })) := by
  intro h1 t1 hne a c
  have hne' : h1 ≠ b := by
    rintro rfl
    rcases hfree with e | e <;> rw [e] at c
    · cases c
    · exact hne (Option.some.inj c).symm
  exact ⟨by simpa using a, by rw [mutexAt_modify_ne x hne']; exact c⟩

/-- the generic preservation lemma for transitions that keep `cur`, `resizing` and the shape of the tables -/
theorem geninv_frame {s s' : State} {t : Nat} {l l' : Local} (I : GenInv s) (hl : s.threads[t]? = some l)
    (hthr : s'.threads = s.threads.set t l') (hcur : s'.cur = s.cur) (hres : s'.resizing = s.resizing)
    (hlen : s'.tabs.length = s.tabs.length)
    (hrows : ∀ (g : Nat) (row' : List Cell), s'.tabs[g]? = some row' →
      ∃ row : List Cell, s.tabs[g]? = some row ∧ row'.length = row.length)
    (hmono : ∀ g j, cellAt s g j = .moved → cellAt s' g j = .moved)
    (hnew : ∀ g j, cellAt s' g j = .moved → cellAt s g j = .moved ∨ (g = s.cur ∧ s.resizing = true))
    (hvalid : ∀ t1 l1 g j c, t1 ≠ t → s.threads[t1]? = some l1 → (desc s.cur l1).valid = some (g, j, c) →
      cellAt s' g j = cellAt s g j)
    (hN : OthersN s t s'.heap) (hM : OthersM s t s'.tbins) (hblen : s.tbins.length ≤ s'.tbins.length)
    (hbins : ∀ g j b, cellAt s' g j = .tree b → cellAt s g j = .tree b ∨ b < s'.tbins.length)
    (hX : (desc s.cur l').isX = true → (desc s.cur l).isX = true)
    (hself : POK s' t (desc s.cur l')) : GenInv s' := by
  refine ⟨?_, ?_, ?_, ?_, ?_, ?_, ?_, ?_⟩
  · rw [hlen, hcur, hres]; exact I.len
  · intro g row' hr'
    obtain ⟨row, hr, he⟩ := hrows g row' hr'
    rw [he]; exact I.rows g row hr
  · intro g j hg hj
    rw [hcur] at hg
    exact hmono g j (I.old g j hg hj)
  · intro j hm
    rw [hcur] at hm
    rcases hnew _ _ hm with h | ⟨h, -⟩
    · exact I.nextOK j h
    · omega
  · intro j hm
    rw [hcur] at hm
    rw [hres]
    rcases hnew _ _ hm with h | ⟨-, h⟩
    · exact I.curMoved j h
    · exact h
  · intro t1 t2 l1 l2 h1 h2 hT1 hT2
    rw [hthr] at h1 h2
    rw [hcur] at hT1 hT2
    rcases get_set h1 with ⟨e1, f1⟩ | ⟨n1, h1⟩ <;> rcases get_set h2 with ⟨e2, f2⟩ | ⟨n2, h2⟩
    · rw [e1, e2]
    · rw [f1] at hT1; rw [e1]; exact I.uniqX _ _ _ _ hl h2 (hX hT1) hT2
    · rw [f2] at hT2; rw [e2]; exact I.uniqX _ _ _ _ h1 hl hT1 (hX hT2)
    · exact I.uniqX _ _ _ _ h1 h2 hT1 hT2
  · intro g j b hc
    rcases hbins g j b hc with h | h
    · exact Nat.lt_of_lt_of_le (I.bins g j b h) hblen
    · exact h
  · intro t1 l1 h1
    rw [hthr] at h1
    rw [hcur]
    rcases get_set h1 with ⟨rfl, rfl⟩ | ⟨n1, h1⟩
    · exact hself
    · have T := I.thr t1 l1 h1
      refine ⟨?_, ?_, ?_, ?_, ?_, ?_, ?_, ?_⟩
      · rw [hres]; exact T.tres
      · intro g k hg
        rw [hcur]
        obtain ⟨a, b⟩ := T.gen g k hg
        exact ⟨a, fun e => hmono _ _ (b e)⟩
      · rw [hcur]; exact T.idx
      · rw [hcur]; intro hc j hj; exact hmono _ _ (T.commit hc j hj)
      · intro h hh
        obtain ⟨a, b⟩ := T.heldN h hh
        exact hN h t1 n1 a b
      · intro b hh
        obtain ⟨a, c⟩ := T.heldM b hh
        exact hM b t1 n1 a c
      · intro g j c hv
        rw [hvalid t1 l1 g j c n1 h1 hv]
        exact T.valid g j c hv
      · intro c hc; exact ⟨(T.plan c hc).1, fun b e => Nat.lt_of_lt_of_le ((T.plan c hc).2 b e) hblen⟩

/-- transitions that do not touch the tables -/
theorem geninv_same {s s' : State} {t : Nat} {l l' : Local} (I : GenInv s) (hl : s.threads[t]? = some l)
    (hthr : s'.threads = s.threads.set t l') (hcur : s'.cur = s.cur) (hres : s'.resizing = s.resizing)
    (htabs : s'.tabs = s.tabs)
    (hN : OthersN s t s'.heap) (hM : OthersM s t s'.tbins) (hblen : s.tbins.length ≤ s'.tbins.length)
    (hX : (desc s.cur l').isX = true → (desc s.cur l).isX = true)
    (hself : POK s' t (desc s.cur l')) : GenInv s' := by
  have hc : ∀ g j, cellAt s' g j = cellAt s g j := fun g j => by rw [cellAt_eq, cellAt_eq, htabs]
  refine geninv_frame I hl hthr hcur hres (by rw [htabs]) ?_ ?_ ?_ ?_ hN hM hblen ?_ hX hself
  · intro g row' h; rw [htabs] at h; exact ⟨row', h, rfl⟩
  · intro g j h; rw [hc]; exact h
  · intro g j h; rw [hc] at h; exact Or.inl h
  · intro _ _ g j _ _ _ _; exact hc g j
  · intro g j b h; rw [hc] at h; exact Or.inl h

/-- transitions that store `c` into cell `(g0, j0)` -/
theorem geninv_put {s s' : State} {t : Nat} {l l' : Local} {g0 j0 : Nat} {c : Cell} (I : GenInv s)
    (hl : s.threads[t]? = some l)
    (hthr : s'.threads = s.threads.set t l') (hcur : s'.cur = s.cur) (hres : s'.resizing = s.resizing)
    (htabs : s'.tabs = s.tabs.modify g0 (fun row => row.set j0 c))
    (hold : cellAt s g0 j0 ≠ .moved ∨ c = .moved)
    (hc : c = .moved → g0 = s.cur ∧ s.resizing = true)
    (hother : ∀ t1 l1 c1, t1 ≠ t → s.threads[t1]? = some l1 → (desc s.cur l1).valid ≠ some (g0, j0, c1))
    (hN : OthersN s t s'.heap) (hM : OthersM s t s'.tbins) (hblen : s.tbins.length ≤ s'.tbins.length)
    (hcb : ∀ b, c = .tree b → b < s'.tbins.length)
    (hX : (desc s.cur l').isX = true → (desc s.cur l).isX = true)
    (hself : POK s' t (desc s.cur l')) : GenInv s' := by
  have hne : ∀ g j, ¬ (g = g0 ∧ j = j0) → cellAt s' g j = cellAt s g j := by
    intro g j h
    rw [cellAt_eq, cellAt_eq, htabs]
    exact cellT_put_ne _ _ h
  have hself' : cellAt s' g0 j0 = c ∨ cellAt s' g0 j0 = cellAt s g0 j0 := by
    rw [cellAt_eq, cellAt_eq, htabs]
    exact cellT_put_self _ _ _ _
  refine geninv_frame I hl hthr hcur hres (by rw [htabs]; simp) ?_ ?_ ?_ ?_ hN hM hblen ?_ hX hself
  · intro g row' hr'
    rw [htabs, List.getElem?_modify] at hr'
    cases hr : s.tabs[g]? with
    | none => rw [hr] at hr'; cases hr'
    | some row =>
      rw [hr] at hr'
      simp only [Option.map_eq_map, Option.map_some, Option.some.injEq] at hr'
      refine ⟨row, rfl, ?_⟩
      rw [← hr']
      split <;> simp
  · intro g j hm
    by_cases h : g = g0 ∧ j = j0
    · obtain ⟨rfl, rfl⟩ := h
      rcases hself' with e | e
      · rcases hold with h1 | h1
        · exact absurd hm h1
        · rw [e]; exact h1
      · rw [e]; exact hm
    · rw [hne g j h]; exact hm
  · intro g j hm
    by_cases h : g = g0 ∧ j = j0
    · obtain ⟨rfl, rfl⟩ := h
      rcases hself' with e | e
      · rw [e] at hm
        exact Or.inr (hc hm)
      · rw [e] at hm; exact Or.inl hm
    · rw [hne g j h] at hm; exact Or.inl hm
  · intro t1 l1 g j c1 n1 h1 hv
    by_cases hh : g = g0 ∧ j = j0
    · obtain ⟨rfl, rfl⟩ := hh
      exact absurd hv (hother t1 l1 c1 n1 h1)
    · exact hne g j hh
  · intro g j b hcell
    by_cases h : g = g0 ∧ j = j0
    · obtain ⟨rfl, rfl⟩ := h
      rcases hself' with e | e
      · rw [e] at hcell; exact Or.inr (hcb b hcell)
      · rw [e] at hcell; exact Or.inl hcell
    · rw [hne g j h] at hcell; exact Or.inl hcell

/-- nobody else holds a validated lock on a cell that holds neither a list nor a tree bin -/
theorem no_valid_of_plain {s : State} (I : GenInv s) {g j : Nat}
    (hc : (∀ h, cellAt s g j ≠ .list h) ∧ ∀ b, cellAt s g j ≠ .tree b) :
    ∀ (t1 : Nat) (l1 : Local) (c1 : Cell), s.threads[t1]? = some l1 → (desc s.cur l1).valid ≠ some (g, j, c1) := by
  intro t1 l1 c1 h1 hv
  obtain ⟨e, hh⟩ := (I.thr t1 l1 h1).valid g j c1 hv
  rcases hh with ⟨h, rfl, -⟩ | ⟨b, rfl, -⟩
  · exact hc.1 h e
  · exact hc.2 b e

/-- nobody else holds a validated lock on a cell on which the acting thread holds one -/
theorem no_valid_of_mutex {s : State} (I : GenInv s) {t : Nat} {l : Local} {g j : Nat} {c0 : Cell}
    (hl : s.threads[t]? = some l) (hv0 : (desc s.cur l).valid = some (g, j, c0)) :
    ∀ (t1 : Nat) (l1 : Local) (c1 : Cell), t1 ≠ t → s.threads[t1]? = some l1 →
      (desc s.cur l1).valid ≠ some (g, j, c1) := by
  intro t1 l1 c1 n1 h1 hv
  exact n1 (I.mutex h1 hl hv hv0)

/-- a validated thread that is not the resizing thread: its cell is the cell of its key in its generation -/
theorem valid_writer {cur : Nat} {l : Local} {g j : Nat} {c : Cell} (hv : (desc cur l).valid = some (g, j, c))
    (hX : (desc cur l).isX = false) : ∃ k, (desc cur l).gen = some (g, k) ∧ j = k % 2 ^ g := by
  obtain ⟨pc, call⟩ := l
  unfold desc at hv hX ⊢
  simp only at hv hX ⊢
  generalize keyOf { pc := pc, call := call } = key at hv hX ⊢
  cases pc <;> simp only [descPc, reduceCtorEq, Bool.true_eq_false] at hv hX <;>
    simp only [descPc, Option.some.injEq, Prod.mk.injEq] at hv ⊢ <;>
    (obtain ⟨rfl, rfl, rfl⟩ := hv; exact ⟨_, ⟨rfl, rfl⟩, rfl⟩)

/-- no other thread holds a validated lock on a child of a cell that is not forwarded -/
theorem no_valid_child {s : State} (I : GenInv s) {t : Nat} {l : Local} {j j' : Nat} (hl : s.threads[t]? = some l)
    (hT : (desc s.cur l).isX = true) (hnm : cellAt s s.cur j ≠ .moved) (hpar : j' % 2 ^ s.cur = j) :
    ∀ (t1 : Nat) (l1 : Local) (c1 : Cell), t1 ≠ t → s.threads[t1]? = some l1 →
      (desc s.cur l1).valid ≠ some (s.cur + 1, j', c1) := by
  intro t1 l1 c1 n1 h1 hv
  have hT1 : (desc s.cur l1).isX = false := by
    cases hx : (desc s.cur l1).isX with
    | false => rfl
    | true => exact absurd (I.uniqX _ _ _ _ h1 hl hx hT) n1
  obtain ⟨k, hg, hj⟩ := valid_writer hv hT1
  have := ((I.thr t1 l1 h1).gen _ _ hg).2 rfl
  apply hnm
  rw [← hpar, hj, mod_succ_mod]
  exact this

end Flurry.Proto.BinGN
