import Flurry.Lemmas.SeqTableCtl
/-! # T4: `addCount` -/
namespace Flurry.Seq
open Flurry Flurry.Gen

/-! ## facts that need no hypothesis -/

/-- the loop of `addCount` only ever applies `transfer` -/
theorem addCount_go_rel (R : Map → Map → Prop) (hr : ∀ m, R m m)
    (ht : ∀ a b c, R a b → R b c → R a c) (hs : ∀ m, R m (transfer m)) :
    ∀ (fuel : Nat) (c : Int) (m : Map), R m (addCount.go fuel c m) := by
  intro fuel
  induction fuel with
  | zero => intro c m; exact hr m
  | succ f ih =>
    intro c m
    simp only [addCount.go]
    split
    · exact hr m
    · split
      · exact hr m
      · split
        · exact hr m
        · split
          · exact hr m
          · exact ht _ _ _ (hs m) (ih _ _)

theorem addCount_go_hash (fuel : Nat) (c : Int) (m : Map) : (addCount.go fuel c m).hash = m.hash :=
  addCount_go_rel (fun a b => b.hash = a.hash) (fun _ => rfl) (fun _ _ _ h1 h2 => h2.trans h1)
    transfer_hash fuel c m

theorem addCount_go_count (fuel : Nat) (c : Int) (m : Map) :
    (addCount.go fuel c m).count = m.count :=
  addCount_go_rel (fun a b => b.count = a.count) (fun _ => rfl) (fun _ _ _ h1 h2 => h2.trans h1)
    transfer_count fuel c m

theorem addCount_go_tableLen_le (fuel : Nat) (c : Int) (m : Map) :
    tableLen m ≤ tableLen (addCount.go fuel c m) :=
  addCount_go_rel (fun a b => tableLen a ≤ tableLen b) (fun _ => Nat.le_refl _)
    (fun _ _ _ h1 h2 => Nat.le_trans h1 h2) transfer_tableLen_le fuel c m

theorem addCount_go_resizes_le (fuel : Nat) (c : Int) (m : Map) :
    m.resizes ≤ (addCount.go fuel c m).resizes :=
  addCount_go_rel (fun a b => a.resizes ≤ b.resizes) (fun _ => Nat.le_refl _)
    (fun _ _ _ h1 h2 => Nat.le_trans h1 h2) transfer_resizes_le fuel c m

theorem addCount_go_entries_perm (fuel : Nat) (c : Int) (m : Map) :
    (entries (addCount.go fuel c m)).Perm (entries m) :=
  addCount_go_rel (fun a b => (entries b).Perm (entries a)) (fun _ => List.Perm.refl _)
    (fun _ _ _ h1 h2 => h2.trans h1) transfer_entries_perm fuel c m

/-- with `hint = none` no resize is ever attempted (`replaceNode`, `clear`) -/
theorem addCount_none (n : Int) (m : Map) : addCount n none m = { m with count := m.count + n } := by
  unfold addCount
  simp only [C14.add_count_stored]

/-- the state after the counter update, then the resize check -/
theorem addCount_some (n : Int) (h : Nat) (m : Map) :
    addCount n (some h) m = addCount.go 64 (m.count + n) { m with count := m.count + n } := by
  unfold addCount
  simp only [C14.add_count_stored, C14.add_count_local]

theorem addCount_hash (n : Int) (hint : Option Nat) (m : Map) :
    (addCount n hint m).hash = m.hash := by
  cases hint
  · rw [addCount_none]
  · rw [addCount_some, addCount_go_hash]

/-- the counter is `old + n`, whatever happens -/
theorem addCount_count (n : Int) (hint : Option Nat) (m : Map) :
    (addCount n hint m).count = m.count + n := by
  cases hint
  · rw [addCount_none]
  · rw [addCount_some, addCount_go_count]

theorem addCount_tableLen_le (n : Int) (hint : Option Nat) (m : Map) :
    tableLen m ≤ tableLen (addCount n hint m) := by
  cases hint
  · rw [addCount_none]; exact Nat.le_refl _
  · rw [addCount_some]
    exact addCount_go_tableLen_le 64 _ { m with count := m.count + n }

theorem addCount_resizes_le (n : Int) (hint : Option Nat) (m : Map) :
    m.resizes ≤ (addCount n hint m).resizes := by
  cases hint
  · rw [addCount_none]; exact Nat.le_refl _
  · rw [addCount_some]
    exact addCount_go_resizes_le 64 _ { m with count := m.count + n }

theorem addCount_entries_perm (n : Int) (hint : Option Nat) (m : Map) :
    (entries (addCount n hint m)).Perm (entries m) := by
  cases hint
  · rw [addCount_none]; exact List.Perm.refl _
  · rw [addCount_some]
    exact addCount_go_entries_perm 64 _ { m with count := m.count + n }

/-! ## the resize loop -/

/-- Fuel sufficiency and the result of the loop: started in a state that is well formed up to
the `count < sizeCtl` clause, with enough fuel to double up to the maximum (`2^30 < len * 2^fuel`),
the loop ends in a well-formed state. -/
theorem addCount_go_spec (fuel : Nat) : ∀ (m : Map) (t : Table), PreWF m t →
    m.count = Int.ofNat (entries m).length → MAXIMUM_CAPACITY < t.length * 2 ^ fuel →
    WF (addCount.go fuel m.count m) ∧ Same m (addCount.go fuel m.count m) := by
  induction fuel with
  | zero =>
    intro m t hp _ hf
    have := hp.twf.2.1
    omega
  | succ f ih =>
    intro m t hp hc hf
    simp only [addCount.go, hp.table]
    split
    next hb =>
      exact ⟨hp.wf hc (Or.inl ((C14.grow_test _ _).1 hb)), Same.refl m⟩
    next hb =>
      split
      next hmax =>
        have h1 : t.length ≥ MAXIMUM_CAPACITY := by simpa [addCountAtMax] using hmax
        have h2 := hp.twf.2.1
        exact ⟨hp.wf hc (Or.inr (by omega)), Same.refl m⟩
      next hmax =>
        have hlt : t.length < MAXIMUM_CAPACITY := by
          have : ¬ t.length ≥ MAXIMUM_CAPACITY := by simpa [addCountAtMax] using hmax
          omega
        split
        next hneg => have := hp.sizeCtl_pos; omega
        next =>
          have hp' := transfer_preWF hp hlt
          have hf' : MAXIMUM_CAPACITY < (transferTable t).length * 2 ^ f := by
            have : 2 * t.length * 2 ^ f = t.length * 2 ^ (f + 1) := by
              rw [Nat.pow_succ]; ac_rfl
            rw [transferTable_length, this]; exact hf
          obtain ⟨w, s⟩ := ih (transfer m) _ hp' (transfer_count_entries hc) hf'
          exact ⟨w, (transfer_same hp.table hp.twf).trans s⟩

/-- … and without fuel considerations, when the check succeeds at once nothing happens -/
theorem addCount_go_of_below {fuel : Nat} {c : Int} {m : Map} {t : Table} (ht : m.table = some t)
    (hb : c < m.sizeCtl ∨ t.length = MAXIMUM_CAPACITY) : addCount.go fuel c m = m := by
  cases fuel with
  | zero => rfl
  | succ f =>
    simp only [addCount.go, ht]
    split
    · rfl
    next hnb =>
      have hnb' : ¬ c < m.sizeCtl := by simpa [addCountBelow] using hnb
      have hmax : t.length = MAXIMUM_CAPACITY := by omega
      have : addCountAtMax t.length = true := by simp [addCountAtMax, hmax]
      simp [this]

/-! ## `addCount` after the caller has changed the entries -/

/-- **T4 (a)**: `addCount n (some _)` (the callers are `put` with `n = 1` and
`computeIfPresent` with `n = -1`). The caller has already changed the entries, so the old count
is off by `n`; the state is otherwise well formed. The result is well formed: the loop grows the
table until `count < sizeCtl` or the maximum length is reached, and 64 rounds are enough. -/
theorem addCount_some_wf {n : Int} {h : Nat} {m : Map} {t : Table} (hp : PreWF m t)
    (hc : m.count + n = Int.ofNat (entries m).length) :
    WF (addCount n (some h) m) ∧ Same m (addCount n (some h) m) ∧
      (addCount n (some h) m).count = m.count + n := by
  refine ⟨?_, ?_, addCount_count _ _ _⟩
  all_goals
    rw [addCount_some]
    have hp' : PreWF { m with count := m.count + n } t := hp.of_eq rfl rfl rfl
    have hf : MAXIMUM_CAPACITY < t.length * 2 ^ 64 := by
      have := hp.twf.length_pos
      rw [max_cap_eq]
      calc 2 ^ 30 < 1 * 2 ^ 64 := by decide
        _ ≤ t.length * 2 ^ 64 := Nat.mul_le_mul_right _ this
    obtain ⟨w, s⟩ := addCount_go_spec 64 _ t hp' (by simpa [entries] using hc) hf
  · exact w
  · exact (Same.of_eq (m := m) (m' := { m with count := m.count + n }) rfl rfl).trans s

/-- **T4 (b)**: when the new count is below the threshold (or the table is at its maximum
length) `addCount` only changes the counter, whatever the hint. -/
theorem addCount_of_below {n : Int} {hint : Option Nat} {m : Map} {t : Table}
    (ht : m.table = some t)
    (hb : m.count + n < m.sizeCtl ∨ t.length = MAXIMUM_CAPACITY) :
    addCount n hint m = { m with count := m.count + n } := by
  cases hint with
  | none => exact addCount_none n m
  | some h =>
    rw [addCount_some]
    exact addCount_go_of_below (m := { m with count := m.count + n }) ht hb

theorem addCount_below_wf {n : Int} {hint : Option Nat} {m : Map} {t : Table} (hp : PreWF m t)
    (hc : m.count + n = Int.ofNat (entries m).length)
    (hb : m.count + n < m.sizeCtl ∨ t.length = MAXIMUM_CAPACITY) :
    WF (addCount n hint m) ∧ Same m (addCount n hint m) ∧
      (addCount n hint m).count = m.count + n ∧ (addCount n hint m).table = m.table ∧
      (addCount n hint m).sizeCtl = m.sizeCtl ∧ (addCount n hint m).resizes = m.resizes := by
  rw [addCount_of_below hp.table hb]
  refine ⟨?_, Same.of_eq rfl rfl, rfl, rfl, rfl, rfl⟩
  exact (hp.of_eq (m' := { m with count := m.count + n }) rfl rfl rfl).wf
    (by simpa [entries] using hc) hb

/-- **removals never grow the table**: `n < 0`, any hint, from a state whose old count was below
the threshold (or whose table is at the maximum) — in particular after removing `-n` entries from
a well-formed state. -/
theorem addCount_removal {n : Int} {hint : Option Nat} {m : Map} {t : Table} (hp : PreWF m t)
    (hn : n < 0) (hc : m.count + n = Int.ofNat (entries m).length)
    (hold : m.count < m.sizeCtl ∨ t.length = MAXIMUM_CAPACITY) :
    WF (addCount n hint m) ∧ Same m (addCount n hint m) ∧
      (addCount n hint m).count = m.count + n ∧ (addCount n hint m).table = m.table ∧
      tableLen (addCount n hint m) = tableLen m ∧ (addCount n hint m).resizes = m.resizes := by
  have hb : m.count + n < m.sizeCtl ∨ t.length = MAXIMUM_CAPACITY := by omega
  obtain ⟨w, s, c, tb, _, r⟩ := addCount_below_wf (hint := hint) hp hc hb
  exact ⟨w, s, c, tb, by simp only [tableLen, tb], r⟩

/-- `n = 1`, `hint = some _` from a well-formed state `m0` whose table got one more entry -/
theorem addCount_insert_wf {h : Nat} {m0 m : Map} {t t' : Table} (hw : WF m0)
    (ht0 : m0.table = some t) (hm : m = { m0 with table := some t' })
    (htw : TableWF m0.hash t') (hlen : t'.length = t.length)
    (hent : (t'.flatMap Bin.nodes).length = (t.flatMap Bin.nodes).length + 1) :
    WF (addCount 1 (some h) m) ∧ Same m (addCount 1 (some h) m) ∧
      (addCount 1 (some h) m).count = m0.count + 1 := by
  obtain ⟨_, hc, hs, _⟩ := (wf_some_iff ht0).1 hw
  subst hm
  have hp : PreWF { m0 with table := some t' } t' := ⟨rfl, htw, by rw [hlen]; exact hs⟩
  refine addCount_some_wf hp ?_
  show m0.count + 1 = Int.ofNat (t'.flatMap Bin.nodes).length
  rw [hent, hc, entries_eq ht0]
  simp only [Int.ofNat_eq_natCast]; omega

end Flurry.Seq
