import Flurry.Lemmas.BinXCDefs
/-! # Proto/BinXC: mutual exclusion of the validated lock holders, frame (C01, C04)

As `Lemmas/BinXMem.lean`, with `clear` at `cStore` as one more kind of validated lock holder. -/
namespace Flurry.Proto.BinXC
open Flurry.Lin
open Flurry.Proto.BinX (Ghost Phase CellId CR Active MemStep)

theorem Inv.mutex {s : State} {g : Ghost} (I : Inv s g) {t t1 : Nat} {l l1 : Local} {id : CellId} {h h1 : Nat}
    (hl : s.threads[t]? = some l) (hl1 : s.threads[t1]? = some l1)
    (hv : vcell l = some (id, h)) (hv1 : vcell l1 = some (id, h1)) : t = t1 := by
  obtain ⟨c1, k1⟩ := I.lock.validated t l id h hl hv
  obtain ⟨c2, k2⟩ := I.lock.validated t1 l1 id h1 hl1 hv1
  rw [c1] at c2
  cases c2
  have e1 := (I.lock.lockHeld t l h hl k1).2
  have e2 := (I.lock.lockHeld t1 l1 h hl1 k2).2
  rw [e1] at e2
  cases e2
  rfl

theorem vcell_mid {l : Local} (h : isMidPc l.pc) : ∃ h', vcell l = some (.c0, h') := by
  obtain ⟨pc, call⟩ := l
  cases pc <;> first | exact ⟨_, rfl⟩ | exact False.elim h

theorem cellId_ne_c0 {tab : Tab} {k : Nat} (h : BinX.cellId (cT tab) k ≠ .c0) : tab = .new := by
  cases tab with
  | old => exact absurd rfl h
  | new => rfl

theorem cellIdAt_ne_c0 {tab : Tab} {idx : Nat} (h : cellIdAt tab idx ≠ .c0) : tab = .new := by
  cases tab with
  | old => exact absurd rfl h
  | new => rfl

theorem cellIdAt_new_ne_c0 (idx : Nat) : cellIdAt .new idx ≠ .c0 := by
  cases idx <;> simp [cellIdAt]

theorem vcell_cases {l : Local} {id : CellId} {h : Nat} (hv : vcell l = some (id, h)) :
    (∃ tab, tabOf l.pc = some tab ∧ ¬ isT l.pc ∧ (id ≠ .c0 → tab = .new)) ∨ (id = .c0 ∧ isT l.pc) := by
  obtain ⟨pc, call⟩ := l
  unfold vcell at hv
  cases pc <;> cases call <;> simp only [reduceCtorEq] at hv <;>
    first
    | (left; simp only [Option.some.injEq, Prod.mk.injEq] at hv
       exact ⟨_, rfl, by simp [isT], fun hid => cellId_ne_c0 (hv.1 ▸ hid)⟩)
    | (left; simp only [Option.some.injEq, Prod.mk.injEq] at hv
       exact ⟨_, rfl, by simp [isT], fun hid => cellIdAt_ne_c0 (hv.1 ▸ hid)⟩)
    | (right; simp only [Option.some.injEq, Prod.mk.injEq] at hv; exact ⟨hv.1.symm, trivial⟩)

theorem vcell_tab {l : Local} {id : CellId} {h : Nat} (hv : vcell l = some (id, h)) (hid : id ≠ .c0) :
    ¬ isT l.pc ∧ tabOf l.pc = some .new := by
  rcases vcell_cases hv with ⟨tab, htab, hT, hn⟩ | ⟨h0, -⟩
  · rw [hn hid] at htab; exact ⟨hT, htab⟩
  · exact absurd h0 hid

theorem vcell_holds {l : Local} {id : CellId} {h : Nat} (hv : vcell l = some (id, h)) : Holds l.pc h := by
  obtain ⟨pc, call⟩ := l
  unfold vcell at hv
  cases pc <;> cases call <;> simp only [reduceCtorEq] at hv <;>
    (simp only [Option.some.injEq, Prod.mk.injEq] at hv; exact hv.2)

/-- a cell of the new table is only worked on after the forwarding -/
theorem Inv.post_of_new {s : State} {g : Ghost} (I : Inv s g) {t : Nat} {l : Local}
    (hl : s.threads[t]? = some l) (hT : ¬ isT l.pc) (htab : tabOf l.pc = some .new) : g.ph = .post := by
  have := I.ph.pcPh t l hl
  obtain ⟨pc, call⟩ := l
  cases pc <;> first | exact absurd trivial hT | exact this htab | (simp [tabOf] at htab)

/-- the cell a validated lock holder (not the transferring thread after the split) works on is active -/
theorem Inv.active_of_vcell {s : State} {g : Ghost} (I : Inv s g) {t : Nat} {l : Local} {id : CellId} {h : Nat}
    (hl : s.threads[t]? = some l) (hv : vcell l = some (id, h)) (hnm : ¬ isMidPc l.pc) : Active g id := by
  obtain ⟨hc, -⟩ := I.lock.validated t l id h hl hv
  by_cases hid : id = .c0
  · subst hid
    left
    refine ⟨rfl, ?_⟩
    cases hp : g.ph with
    | pre => rfl
    | mid lo hg =>
      obtain ⟨t1, l1, hl1, hm1⟩ := I.ph.midHas lo hg hp
      obtain ⟨h1, hv1⟩ := vcell_mid hm1
      have := I.mutex hl hl1 hv hv1
      subst this
      rw [hl] at hl1; cases hl1
      exact absurd hm1 hnm
    | post =>
      have := I.heap.post hp
      unfold BinX.getCell at hc
      rw [this] at hc; cases hc
  · right
    refine ⟨hid, ?_⟩
    obtain ⟨hT, htab⟩ := vcell_tab hv hid
    exact I.post_of_new hl hT htab

/-- the cell of a successful lock-free CAS is active -/
theorem Inv.active_of_empty {s : State} {g : Ghost} (I : Inv s g) {t : Nat} {l : Local} {tab : Tab} {k : Nat}
    (hl : s.threads[t]? = some l) (hT : ¬ isT l.pc) (htab : tabOf l.pc = some tab)
    (he : BinX.getCell (mem s) (BinX.cellId (cT tab) k) = .empty) : Active g (BinX.cellId (cT tab) k) := by
  cases tab with
  | old =>
    left
    refine ⟨rfl, ?_⟩
    have he' : (mem s).cell0 = .empty := he
    cases hp : g.ph with
    | pre => rfl
    | mid lo hg =>
      obtain ⟨⟨h, hc⟩, -⟩ := I.heap.mid lo hg hp
      rw [hc] at he'; cases he'
    | post =>
      have := I.heap.post hp
      rw [this] at he'; cases he'
  | new => exact Or.inr ⟨BinX.cellId_new_ne_c0 k, I.post_of_new hl hT htab⟩

theorem vcell_wStore {l : Local} {p : Pending} {tab : Tab} {h : Nat} {pred hit hnext : Option Nat}
    (hc : l.call = some p) (hpc : l.pc = .wStore tab h pred hit hnext) :
    vcell l = some (BinX.cellId (cT tab) p.key, h) := by
  obtain ⟨pc, call⟩ := l
  simp only at hc hpc
  subst hc hpc
  rfl

theorem vcell_wFind {l : Local} {p : Pending} {tab : Tab} {h : Nat} {pred cur : Option Nat}
    (hc : l.call = some p) (hpc : l.pc = .wFind tab h pred cur) :
    vcell l = some (BinX.cellId (cT tab) p.key, h) := by
  obtain ⟨pc, call⟩ := l
  simp only at hc hpc
  subst hc hpc
  rfl

theorem vcell_cStore {l : Local} {tab : Tab} {idx h : Nat} (hpc : l.pc = .cStore tab idx h) :
    vcell l = some (cellIdAt tab idx, h) := by
  obtain ⟨pc, call⟩ := l
  simp only at hpc
  subst hpc
  rfl

theorem vcell_t {l : Local} {h : Nat}
    (hpc : l.pc = .tBuild h ∨ (∃ lo hg, l.pc = .tStoreLow h lo hg) ∨ (∃ hg, l.pc = .tStoreHigh h hg) ∨ l.pc = .tStoreMoved h) :
    vcell l = some (.c0, h) := by
  obtain ⟨pc, call⟩ := l
  simp only at hpc
  rcases hpc with rfl | ⟨lo, hg, rfl⟩ | ⟨hg, rfl⟩ | rfl <;> rfl

/-- the store of a validated writer, in context (on the projected memory) -/
theorem Inv.store_ok {s : State} {g : Ghost} (I : Inv s g) {t : Nat} {l : Local} {p : Pending} {tab : Tab}
    {h : Nat} {pred hit hnext : Option Nat} (hl : s.threads[t]? = some l) (hp : l.call = some p)
    (hpc : l.pc = .wStore tab h pred hit hnext) :
    Active g (BinX.cellId (cT tab) p.key) ∧
    BinX.StoreOK (BinX.tick (mem s)) g (BinX.cellId (cT tab) p.key) (cP p)
      (BinX.storeAt (BinX.tick (mem s)) (cT tab) (cP p) pred hit hnext) := by
  have hv := vcell_wStore hp hpc
  have act := I.active_of_vcell hl hv (by rw [hpc]; exact id)
  refine ⟨act, ?_⟩
  have hop := I.thr.opOK t l p hl hp
  rw [hpc] at hop
  have hw := I.walk.walk t l p hl hp
  rw [hpc] at hw
  obtain ⟨hc, -⟩ := I.lock.validated t l _ h hl hv
  have hne : BinX.chId (BinX.tick (mem s)) (BinX.cellId (cT tab) p.key) ≠ [] := by
    rw [BinX.chId_tick]
    unfold BinX.chId
    rw [hc]
    obtain ⟨l', hl'⟩ := BinX.chainH_node I.heap.nextOK (I.heap.headOK _ h hc)
    rw [hl']; simp
  refine BinX.store_effect (p := cP p) I.heap.tick hop act ?_ hne ?_
  · rw [BinX.chId_tick]
    have := hw.1
    rw [BinX.cellOf_eq] at this
    exact this
  · exact hw.2

/-- **frame**: a transition of thread `t` does not touch the cell, the chain and the chain nodes of a
cell on which another thread holds a validated lock -/
theorem Inv.frame {s : State} {m' : BinX.State} {g g' : Ghost} {t t1 : Nat} {l l1 : Local} (I : Inv s g)
    (hl : s.threads[t]? = some l) (m : MemStep (mem s) m' (vcell l) g g') (hne : t1 ≠ t)
    (hl1 : s.threads[t1]? = some l1) {id1 : CellId} {h1 : Nat} (hv1 : vcell l1 = some (id1, h1)) :
    BinX.getCell m' id1 = BinX.getCell (mem s) id1 ∧ BinX.chId m' id1 = BinX.chId (mem s) id1 ∧
      ∀ j ∈ BinX.chId (mem s) id1, (BinX.nodeAt m'.heap j).key = (BinX.nodeAt (mem s).heap j).key ∧
        (BinX.nodeAt m'.heap j).next = (BinX.nodeAt (mem s).heap j).next := by
  obtain ⟨hcell1, -⟩ := I.lock.validated t1 l1 id1 h1 hl1 hv1
  refine m.frame' I.heap hcell1 ?_ ?_
  · intro hid
    obtain ⟨hT, htab⟩ := vcell_tab hv1 hid
    exact I.post_of_new hl1 hT htab
  · intro h hv
    exact hne (I.mutex hl1 hl hv1 hv)

end Flurry.Proto.BinXC
