import Flurry.Seq.Iter
/-! # Lemmas/IterBasic: one-step facts about the traverser model `Seq/Iter`

`advance` on a `nodes` bin always continues with `recover` (with an empty stack the inlined
"next top-level part" computation of `advance` is what `recover` does); on a `moved` bin it pushes a
frame; `recover` with the low half just finished moves to the high half; `recover` with the high
half finished behaves as `recover` of the parent position. -/
namespace Flurry.Seq.Iter
open Flurry

/-- the nodes of a frozen bin (`moved` carries none) -/
def FBin.toList : FBin → List Node
  | .nodes ns => ns
  | .moved => []

/-- number of `advance` turns spent in the forwarding subtree below bin `i` of table `j` -/
def steps (c : Chain) : Nat → Nat → Nat → Nat
  | 0, _, _ => 0
  | fuel + 1, j, i =>
    match (tableAt c j).getD i (.nodes []) with
    | .nodes _ => 1
    | .moved => 1 + steps c fuel (j + 1) i + steps c fuel (j + 1) (i + (tableAt c j).length)

theorem steps_le (c : Chain) : ∀ d j i, steps c d j i ≤ 2 ^ d - 1 := by
  intro d
  induction d with
  | zero => intro j i; simp [steps]
  | succ d ih =>
    intro j i
    unfold steps
    split
    · have : 1 ≤ 2 ^ d := Nat.one_le_two_pow
      rw [Nat.pow_succ]; omega
    · have h1 := ih (j + 1) i
      have h2 := ih (j + 1) (i + (tableAt c j).length)
      have : 1 ≤ 2 ^ d := Nat.one_le_two_pow
      rw [Nat.pow_succ]; omega

theorem traverse_succ (c : Chain) (fuel : Nat) (s : St) :
    traverse c (fuel + 1) s =
      match advance c s with
      | none => []
      | some (ns, s') => ns ++ traverse c fuel s' := rfl

/-- with an empty stack `recover` is the inlined top-level step of `advance` -/
theorem recover_nil (j : Option Nat) (i b bl bs n : Nat) :
    recover ⟨j, [], i, b, bl, bs⟩ n =
      if i + bs ≥ n then ⟨j, [], b + 1, b + 1, bl, bs⟩ else ⟨j, [], i + bs, b, bl, bs⟩ := by
  simp [recover, recoverGo]

/-- low half finished: go to the high half in the same table -/
theorem recover_low (j : Option Nat) (f : Frame) (σ : List Frame) (i b bl bs n : Nat)
    (h : i + f.length < n) :
    recover ⟨j, f :: σ, i, b, bl, bs⟩ n = ⟨j, f :: σ, i + f.length, b, bl, bs⟩ := by
  simp [recover, recoverGo, h]

/-- high half finished: pop, and continue as the parent position would -/
theorem recover_high (j : Option Nat) (f : Frame) (σ : List Frame) (i b bl bs n : Nat)
    (h : ¬ i + f.length < n) :
    recover ⟨j, f :: σ, i, b, bl, bs⟩ n =
      recover ⟨some f.table, σ, f.index, b, bl, bs⟩ f.length := by
  simp [recover, recoverGo, h]

theorem advance_nodes (c : Chain) (j : Nat) (σ : List Frame) (i b bl bs : Nat) (ns : List Node)
    (hb : b < bl) (hi : i < (tableAt c j).length)
    (hbin : (tableAt c j).getD i (.nodes []) = .nodes ns) :
    advance c ⟨some j, σ, i, b, bl, bs⟩ =
      some (ns, recover ⟨some j, σ, i, b, bl, bs⟩ (tableAt c j).length) := by
  cases σ with
  | nil =>
    simp only [advance, hbin, recover_nil]
    have h1 : ¬ b ≥ bl := by omega
    have h2 : ¬ (tableAt c j).length ≤ i := by omega
    simp [h1, h2]
  | cons f σ =>
    simp only [advance, hbin]
    have h1 : ¬ b ≥ bl := by omega
    have h2 : ¬ (tableAt c j).length ≤ i := by omega
    simp [h1, h2]

theorem advance_moved (c : Chain) (j : Nat) (σ : List Frame) (i b bl bs : Nat)
    (hb : b < bl) (hi : i < (tableAt c j).length)
    (hbin : (tableAt c j).getD i (.nodes []) = .moved) :
    advance c ⟨some j, σ, i, b, bl, bs⟩ =
      some ([], ⟨some (j + 1), ⟨(tableAt c j).length, i, j⟩ :: σ, i, b, bl, bs⟩) := by
  simp only [advance, hbin]
  have h1 : ¬ b ≥ bl := by omega
  have h2 : ¬ (tableAt c j).length ≤ i := by omega
  simp [h1, h2]

theorem advance_done (c : Chain) (j : Option Nat) (σ : List Frame) (i b bl bs : Nat)
    (hb : bl ≤ b) : advance c ⟨j, σ, i, b, bl, bs⟩ = none := by
  cases j with
  | none => simp [advance]
  | some j => simp [advance, hb]

theorem traverse_done (c : Chain) (fuel : Nat) (j : Option Nat) (σ : List Frame)
    (i b bl bs : Nat) (hb : bl ≤ b) : traverse c fuel ⟨j, σ, i, b, bl, bs⟩ = [] := by
  cases fuel with
  | zero => rfl
  | succ fuel => rw [traverse_succ, advance_done c j σ i b bl bs hb]

/-! ## well-formed chains -/

theorem tableAt_cons_succ (t : FTable) (c : Chain) (j : Nat) :
    tableAt (t :: c) (j + 1) = tableAt c j := by
  simp [tableAt]

theorem ChainWF.len_succ {c : Chain} (h : ChainWF c) {j : Nat} (hj : j + 1 < c.length) :
    (tableAt c (j + 1)).length = 2 * (tableAt c j).length := h.1 j hj

theorem ChainWF.len_pos {c : Chain} (h : ChainWF c) {j : Nat} (hj : j < c.length) :
    0 < (tableAt c j).length := h.2.1 j hj

theorem getLast?_eq_tableAt (c : Chain) (j : Nat) (hj : j + 1 = c.length) :
    c.getLast? = some (tableAt c j) := by
  have hj' : j < c.length := by omega
  rw [List.getLast?_eq_getElem?]
  have : c.length - 1 = j := by omega
  rw [this]
  simp [tableAt, List.getD, List.getElem?_eq_getElem hj']

/-- a moved bin is never in the last table -/
theorem ChainWF.moved_not_last {c : Chain} (h : ChainWF c) {j i : Nat} (hj : j < c.length)
    (hi : i < (tableAt c j).length) (hbin : (tableAt c j).getD i (.nodes []) = .moved) :
    j + 1 < c.length := by
  apply Classical.byContradiction
  intro hn
  have hlast := getLast?_eq_tableAt c j (by omega)
  have hmem : (tableAt c j).getD i (.nodes []) ∈ tableAt c j := by
    rw [List.getD_eq_getElem?_getD, List.getElem?_eq_getElem hi]
    simp
  exact h.2.2 _ hlast _ hmem hbin

theorem ChainWF.len_eq {c : Chain} (h : ChainWF c) :
    ∀ j, j < c.length → (tableAt c j).length = (tableAt c 0).length * 2 ^ j := by
  intro j
  induction j with
  | zero => intro _; simp
  | succ j ih =>
    intro hj
    rw [h.len_succ hj, ih (by omega), Nat.pow_succ]
    rw [Nat.mul_comm 2, Nat.mul_assoc]

theorem length_tableAt_le_sum (c : Chain) (j : Nat) (hj : j < c.length) :
    (tableAt c j).length ≤ (c.map List.length).sum := by
  induction c generalizing j with
  | nil => simp at hj
  | cons t c ih =>
    cases j with
    | zero => simp [tableAt]
    | succ j =>
      rw [tableAt_cons_succ]
      have := ih j (by simpa using hj)
      simp only [List.map_cons, List.sum_cons]
      omega

/-- the fuel covers a full binary forwarding tree below every top-level bin -/
theorem ChainWF.fuel_bound {c : Chain} (h : ChainWF c) :
    (tableAt c 0).length * (2 ^ c.length - 1) ≤ fuelFor c := by
  unfold fuelFor
  cases hc : c.length with
  | zero => simp
  | succ L =>
    have hL : L < c.length := by omega
    have h1 := h.len_eq L hL
    have h2 := length_tableAt_le_sum c L hL
    have h3 : (tableAt c 0).length * (2 ^ (L + 1) - 1) ≤ 2 * ((tableAt c 0).length * 2 ^ L) := by
      rw [Nat.pow_succ, Nat.mul_sub]
      have : (tableAt c 0).length * (2 ^ L * 2) = 2 * ((tableAt c 0).length * 2 ^ L) := by
        rw [← Nat.mul_assoc, Nat.mul_comm]
      omega
    generalize (c.map List.length).sum = S at *
    have h4 : S * 2 ≤ S * (L + 1 + 2) := Nat.mul_le_mul_left _ (by omega)
    omega

end Flurry.Seq.Iter
