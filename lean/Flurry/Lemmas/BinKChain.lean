import Flurry.Proto.BinK
/-! # Proto/BinK: heap segments and chains (C01, a bin that changes its kind)

The heap of `Proto/BinK` holds list nodes (appended at the tail: `next` goes **upwards**), tree-bin
nodes made by `kBuild` / `tUntreeify` (copies chained upwards) and tree-bin nodes prepended by an
insertion (`next` goes **downwards**). `NextOK`: every `next` pointer is valid, and once a pointer
goes upwards all pointers behind it go upwards; `rank` turns this into a strictly decreasing measure,
so segments have no duplicates and `chainFrom` with fuel `heap.length` computes the chain.
`IsSeg`, the list surgeries (`isChain_prepend`, `isChain_append_tail`, `isChain_unlink`), `predOf`,
`copyChain`. -/
namespace Flurry.Proto.BinK
open Flurry.Lin

def nodeAt (heap : List NodeS) (i : Nat) : NodeS := heap.getD i dflt
def binAt (tbins : List TBin) (b : Nat) : TBin := tbins.getD b dfltB

theorem nodeAt_eq (heap : List NodeS) (i : Nat) : nodeAt heap i = (heap[i]?).getD dflt := by
  simp [nodeAt, List.getD_eq_getElem?_getD]

theorem nodeAt_of_some {heap : List NodeS} {i : Nat} {n : NodeS} (h : heap[i]? = some n) :
    nodeAt heap i = n := by
  rw [nodeAt_eq, h]; rfl

theorem getElem?_nodeAt {heap : List NodeS} {i : Nat} (h : i < heap.length) :
    heap[i]? = some (nodeAt heap i) := by
  rw [nodeAt_eq, List.getElem?_eq_getElem h]; rfl

theorem nodeAt_ge {heap : List NodeS} {i : Nat} (h : heap.length ≤ i) : nodeAt heap i = dflt := by
  rw [nodeAt_eq, List.getElem?_eq_none h]; rfl

theorem nodeAt_modify (heap : List NodeS) (i : Nat) (f : NodeS → NodeS) (j : Nat) :
    nodeAt (heap.modify i f) j = if i = j ∧ j < heap.length then f (nodeAt heap j) else nodeAt heap j := by
  rw [nodeAt_eq, nodeAt_eq, List.getElem?_modify]
  by_cases hj : j < heap.length
  · rw [List.getElem?_eq_getElem hj]
    by_cases hij : i = j <;> simp [hij, hj]
  · rw [List.getElem?_eq_none (by omega)]
    simp [hj]

theorem nodeAt_modify_self {heap : List NodeS} {i : Nat} (f : NodeS → NodeS) (hi : i < heap.length) :
    nodeAt (heap.modify i f) i = f (nodeAt heap i) := by
  rw [nodeAt_modify, if_pos ⟨rfl, hi⟩]

theorem nodeAt_modify_ne {heap : List NodeS} {i j : Nat} (f : NodeS → NodeS) (h : i ≠ j) :
    nodeAt (heap.modify i f) j = nodeAt heap j := by
  rw [nodeAt_modify, if_neg (fun e => h e.1)]

theorem nodeAt_append_left {heap : List NodeS} (l : List NodeS) {j : Nat} (hj : j < heap.length) :
    nodeAt (heap ++ l) j = nodeAt heap j := by
  rw [nodeAt_eq, nodeAt_eq, List.getElem?_append_left hj]

theorem nodeAt_append_new (heap : List NodeS) (n : NodeS) : nodeAt (heap ++ [n]) heap.length = n := by
  rw [nodeAt_eq]; simp

theorem nodeAt_append_right (heap l : List NodeS) {j : Nat} (hj : j < l.length) :
    nodeAt (heap ++ l) (heap.length + j) = l[j] := by
  rw [nodeAt_eq, List.getElem?_append_right (by omega)]
  simp [hj]

theorem binAt_eq (tbins : List TBin) (b : Nat) : binAt tbins b = (tbins[b]?).getD dfltB := by
  simp [binAt, List.getD_eq_getElem?_getD]

theorem binAt_ge {tbins : List TBin} {b : Nat} (h : tbins.length ≤ b) : binAt tbins b = dfltB := by
  rw [binAt_eq, List.getElem?_eq_none h]; rfl

theorem binAt_modify (tbins : List TBin) (b : Nat) (f : TBin → TBin) (c : Nat) :
    binAt (tbins.modify b f) c = if b = c ∧ c < tbins.length then f (binAt tbins c) else binAt tbins c := by
  rw [binAt_eq, binAt_eq, List.getElem?_modify]
  by_cases hc : c < tbins.length
  · rw [List.getElem?_eq_getElem hc]
    by_cases hbc : b = c <;> simp [hbc, hc]
  · rw [List.getElem?_eq_none (by omega)]
    simp [hc]

theorem binAt_modify_self {tbins : List TBin} {b : Nat} (f : TBin → TBin) (hb : b < tbins.length) :
    binAt (tbins.modify b f) b = f (binAt tbins b) := by
  rw [binAt_modify, if_pos ⟨rfl, hb⟩]

theorem binAt_modify_ne {tbins : List TBin} {b c : Nat} (f : TBin → TBin) (h : b ≠ c) :
    binAt (tbins.modify b f) c = binAt tbins c := by
  rw [binAt_modify, if_neg (fun e => h e.1)]

theorem binAt_append_left {tbins : List TBin} (l : List TBin) {b : Nat} (hb : b < tbins.length) :
    binAt (tbins ++ l) b = binAt tbins b := by
  rw [binAt_eq, binAt_eq, List.getElem?_append_left hb]

theorem binAt_append_new (tbins : List TBin) (x : TBin) : binAt (tbins ++ [x]) tbins.length = x := by
  rw [binAt_eq]; simp

/-! ## well-foundedness of `next` -/

/-- every `next` pointer is valid and is no self-loop; behind a pointer that goes upwards every
pointer goes upwards -/
def NextOK (heap : List NodeS) : Prop :=
  ∀ (i : Nat) (n : NodeS) (j : Nat), heap[i]? = some n → n.next = some j →
    j < heap.length ∧ j ≠ i ∧ (i < j → ∀ (m : NodeS) (j' : Nat), heap[j]? = some m → m.next = some j' → j < j')

/-- a measure that decreases along `next` -/
def rank (heap : List NodeS) (i : Nat) : Nat :=
  match (nodeAt heap i).next with
  | some j => if j < i then heap.length + i + 1 else heap.length - i
  | none => heap.length - i

theorem rank_le (heap : List NodeS) (i : Nat) : rank heap i ≤ heap.length + i + 1 := by
  unfold rank
  split
  · split <;> omega
  · omega

theorem rank_lt {heap : List NodeS} (hok : NextOK heap) {i j : Nat} {n : NodeS}
    (hn : heap[i]? = some n) (hj : n.next = some j) : rank heap j < rank heap i := by
  obtain ⟨hjl, hne, hup⟩ := hok i n j hn hj
  have hi : rank heap i = if j < i then heap.length + i + 1 else heap.length - i := by
    unfold rank; rw [nodeAt_of_some hn, hj]
  rw [hi]
  by_cases hji : j < i
  · rw [if_pos hji]
    have := rank_le heap j
    omega
  · rw [if_neg hji]
    have hij : i < j := by omega
    have hm := getElem?_nodeAt hjl
    unfold rank
    cases hnx : (nodeAt heap j).next with
    | none => simp only; omega
    | some j' =>
      have := hup hij _ j' hm hnx
      simp only
      rw [if_neg (by omega)]
      omega

/-! ## segments -/

inductive IsSeg (heap : List NodeS) : Option Nat → List Nat → Option Nat → Prop
  | nil (e : Option Nat) : IsSeg heap e [] e
  | cons {i : Nat} {n : NodeS} {l : List Nat} {e : Option Nat} :
      heap[i]? = some n → IsSeg heap n.next l e → IsSeg heap (some i) (i :: l) e

abbrev IsChain (heap : List NodeS) (a : Option Nat) (l : List Nat) : Prop := IsSeg heap a l none

theorem IsSeg.nil_iff {heap : List NodeS} {a e : Option Nat} : IsSeg heap a [] e ↔ a = e := by
  constructor
  · intro h; cases h; rfl
  · rintro rfl; exact .nil _

theorem IsSeg.cons_iff {heap : List NodeS} {a e : Option Nat} {i : Nat} {l : List Nat} :
    IsSeg heap a (i :: l) e ↔ a = some i ∧ ∃ n, heap[i]? = some n ∧ IsSeg heap n.next l e := by
  constructor
  · intro h; cases h with | cons h1 h2 => exact ⟨rfl, _, h1, h2⟩
  · rintro ⟨rfl, n, h1, h2⟩; exact .cons h1 h2

theorem IsSeg.append {heap : List NodeS} {a b c : Option Nat} {l1 l2 : List Nat}
    (h1 : IsSeg heap a l1 b) (h2 : IsSeg heap b l2 c) : IsSeg heap a (l1 ++ l2) c := by
  induction h1 with
  | nil e => simpa using h2
  | cons hn _ ih => exact .cons hn (ih h2)

theorem IsSeg.split {heap : List NodeS} {l2 : List Nat} {c : Option Nat} :
    ∀ {l1 : List Nat} {a : Option Nat}, IsSeg heap a (l1 ++ l2) c →
      ∃ b, IsSeg heap a l1 b ∧ IsSeg heap b l2 c
  | [], a, h => ⟨a, .nil _, by simpa using h⟩
  | i :: l1, a, h => by
    rw [List.cons_append, IsSeg.cons_iff] at h
    obtain ⟨rfl, n, hn, hs⟩ := h
    obtain ⟨b, hb1, hb2⟩ := IsSeg.split hs
    exact ⟨b, .cons hn hb1, hb2⟩

theorem IsSeg.unique {heap : List NodeS} {a : Option Nat} {l1 : List Nat}
    (h1 : IsSeg heap a l1 none) : ∀ {l2 : List Nat}, IsSeg heap a l2 none → l1 = l2 := by
  generalize he : (none : Option Nat) = e at h1
  induction h1 with
  | nil e =>
    subst he
    intro l2 h2
    cases h2; rfl
  | cons hn _ ih =>
    subst he
    intro l2 h2
    cases h2 with
    | cons hn2 hs2 =>
      rw [hn] at hn2; cases hn2
      rw [ih rfl hs2]

theorem IsSeg.valid {heap : List NodeS} {a e : Option Nat} {l : List Nat} (h : IsSeg heap a l e) :
    ∀ j ∈ l, ∃ n, heap[j]? = some n := by
  induction h with
  | nil e => intro j hj; cases hj
  | cons hn _ ih =>
    intro j hj
    rcases List.mem_cons.1 hj with rfl | hj
    · exact ⟨_, hn⟩
    · exact ih j hj

theorem IsSeg.lt_length {heap : List NodeS} {a e : Option Nat} {l : List Nat} (h : IsSeg heap a l e) :
    ∀ j ∈ l, j < heap.length := by
  intro j hj
  obtain ⟨n, hn⟩ := h.valid j hj
  exact (List.getElem?_eq_some_iff.1 hn).1

/-- every node of a segment has a rank at most that of its start -/
theorem IsSeg.rank_le {heap : List NodeS} (hok : NextOK heap) {a e : Option Nat} {l : List Nat}
    (h : IsSeg heap a l e) : ∀ j ∈ l, ∀ i, a = some i → rank heap j ≤ rank heap i := by
  induction h with
  | nil e => intro j hj; cases hj
  | cons hn hs ih =>
    rename_i i n l e
    intro j hj i' hi'
    cases hi'
    rcases List.mem_cons.1 hj with rfl | hj
    · exact Nat.le_refl _
    · cases hnx : n.next with
      | none =>
        rw [hnx] at hs
        cases hs with
        | nil => cases hj
      | some b =>
        have := ih j hj b hnx
        have := rank_lt hok hn hnx
        omega

/-- ranks strictly decrease along a segment -/
theorem IsSeg.sorted {heap : List NodeS} (hok : NextOK heap) {a e : Option Nat} {l : List Nat}
    (h : IsSeg heap a l e) : l.Pairwise (fun x y => rank heap y < rank heap x) := by
  induction h with
  | nil e => exact List.Pairwise.nil
  | cons hn hs ih =>
    rename_i i n l e
    refine List.pairwise_cons.2 ⟨?_, ih⟩
    intro j hj
    cases hnx : n.next with
    | none =>
      rw [hnx] at hs
      cases hs with
      | nil => cases hj
    | some b =>
      have := hs.rank_le hok j hj b hnx
      have := rank_lt hok hn hnx
      omega

theorem IsSeg.nodup {heap : List NodeS} (hok : NextOK heap) {a e : Option Nat} {l : List Nat}
    (h : IsSeg heap a l e) : l.Nodup :=
  (h.sorted hok).imp (fun hab he => by subst he; omega)

/-- the end pointer of a segment is none of its nodes -/
theorem IsSeg.end_not_mem {heap : List NodeS} (hok : NextOK heap) {a e : Option Nat} {l : List Nat}
    (h : IsSeg heap a l e) : ∀ x, e = some x → x ∉ l := by
  induction h with
  | nil e => intro x _ hx; cases hx
  | cons hn hs ih =>
    rename_i i n l e
    intro x hx hm
    rcases List.mem_cons.1 hm with rfl | hm
    · -- the end of the segment is strictly below its start in rank
      cases hl : l with
      | nil =>
        subst hl
        rw [IsSeg.nil_iff] at hs
        rw [hx] at hs
        have := rank_lt hok hn hs
        omega
      | cons b l' =>
        subst hl
        obtain ⟨hb, nb, hnb, hs'⟩ := IsSeg.cons_iff.1 hs
        have h1 := rank_lt hok hn hb
        -- x is the end of the segment starting at b
        have h2 : rank heap x < rank heap b := by
          clear ih
          -- generalize: end of a nonempty segment has rank below the start
          have key : ∀ {a e : Option Nat} {l : List Nat}, IsSeg heap a l e → ∀ s x, a = some s → e = some x →
              l ≠ [] → rank heap x < rank heap s := by
            intro a e l h
            induction h with
            | nil e => intro s x _ _ hne; exact absurd rfl hne
            | cons hn hs ih =>
              rename_i i n l e
              intro s x hs' hx' _
              cases hs'
              cases hl : l with
              | nil =>
                subst hl
                rw [IsSeg.nil_iff] at hs
                rw [hx'] at hs
                exact rank_lt hok hn hs
              | cons b l' =>
                subst hl
                obtain ⟨hb, -⟩ := IsSeg.cons_iff.1 hs
                have := ih b x hb hx' (by simp)
                have := rank_lt hok hn hb
                omega
          exact key hs b x hb hx (by simp)
        omega
    · exact ih x hx hm

/-- a segment only depends on the `next` fields of its own nodes -/
theorem IsSeg.congr {heap heap' : List NodeS} {a e : Option Nat} {l : List Nat}
    (h : IsSeg heap a l e)
    (hsame : ∀ j ∈ l, ∀ n, heap[j]? = some n → ∃ n', heap'[j]? = some n' ∧ n'.next = n.next) :
    IsSeg heap' a l e := by
  induction h with
  | nil e => exact .nil _
  | cons hn hs ih =>
    obtain ⟨n', hn', hnx⟩ := hsame _ (List.mem_cons_self) _ hn
    refine .cons hn' ?_
    rw [hnx]
    exact ih (fun j hj => hsame j (List.mem_cons_of_mem _ hj))

theorem IsSeg.at_mem {heap : List NodeS} {a e : Option Nat} {l : List Nat} (h : IsSeg heap a l e)
    {c : Nat} (hc : c ∈ l) :
    ∃ l1 l2 n, l = l1 ++ c :: l2 ∧ heap[c]? = some n ∧ IsSeg heap a l1 (some c) ∧
      IsSeg heap n.next l2 e := by
  obtain ⟨l1, l2, rfl⟩ := List.append_of_mem hc
  obtain ⟨b, h1, h2⟩ := h.split
  obtain ⟨rfl, n, hn, hs⟩ := IsSeg.cons_iff.1 h2
  exact ⟨l1, l2, n, rfl, hn, h1, hs⟩

/-- the successor of a chain node -/
theorem IsSeg.next_eq {heap : List NodeS} {a : Option Nat} {l1 l2 : List Nat} {c : Nat} {n : NodeS}
    (h : IsChain heap a (l1 ++ c :: l2)) (hn : heap[c]? = some n) : n.next = l2.head? := by
  obtain ⟨b, _, h2⟩ := h.split
  obtain ⟨-, n', hn', hs⟩ := IsSeg.cons_iff.1 h2
  rw [hn] at hn'; cases hn'
  cases l2 with
  | nil => exact IsSeg.nil_iff.1 hs
  | cons d l3 => exact (IsSeg.cons_iff.1 hs).1

theorem IsSeg.head_eq {heap : List NodeS} {a e : Option Nat} {i : Nat} {l : List Nat}
    (h : IsSeg heap a (i :: l) e) : a = some i := (IsSeg.cons_iff.1 h).1

theorem IsChain.start_none {heap : List NodeS} {l : List Nat} (h : IsChain heap none l) : l = [] := by
  cases l with
  | nil => rfl
  | cons a l => exact absurd (IsSeg.cons_iff.1 h).1 (by simp)

theorem IsChain.start_some {heap : List NodeS} {l : List Nat} {h0 : Nat} (h : IsChain heap (some h0) l) :
    ∃ l', l = h0 :: l' := by
  cases l with
  | nil => cases h
  | cons a l =>
    obtain ⟨ha, -⟩ := IsSeg.cons_iff.1 h
    cases ha
    exact ⟨l, rfl⟩

/-! ## `chainFrom` computes the chain -/

theorem chainFrom_none (heap : List NodeS) (fuel : Nat) : chainFrom heap fuel none = [] := by
  cases fuel <;> rfl

theorem chainFrom_eq {heap : List NodeS} {st : Option Nat} {l : List Nat} (h : IsChain heap st l) :
    ∀ fuel, l.length ≤ fuel → chainFrom heap fuel st = l := by
  have key : ∀ {a e : Option Nat} {l : List Nat}, IsSeg heap a l e → e = none →
      ∀ fuel, l.length ≤ fuel → chainFrom heap fuel a = l := by
    intro a e l h
    induction h with
    | nil e => intro he fuel _; subst he; exact chainFrom_none heap fuel
    | cons hn hs ih =>
      intro he fuel hf
      cases fuel with
      | zero => simp at hf
      | succ fuel =>
        simp only [chainFrom, hn]
        rw [ih he fuel (by simpa using hf)]
  exact key h rfl

theorem nodup_length_le : ∀ (n : Nat) (l : List Nat), l.Nodup → (∀ x ∈ l, x < n) → l.length ≤ n
  | 0, l, _, h => by
    cases l with
    | nil => simp
    | cons a l => have := h a (by simp); omega
  | n + 1, l, hnd, h => by
    have h1 : (l.erase n).Nodup := hnd.erase n
    have h2 : ∀ x ∈ l.erase n, x < n := by
      intro x hx
      have hx' := (List.Nodup.mem_erase_iff hnd).1 hx
      have := h x hx'.2
      have := hx'.1
      omega
    have h3 := nodup_length_le n (l.erase n) h1 h2
    have h4 : l.length ≤ (l.erase n).length + 1 := by
      rw [List.length_erase]
      split <;> omega
    omega

/-- every valid start has a chain -/
theorem exists_chain {heap : List NodeS} (hok : NextOK heap) :
    ∀ (r i : Nat), rank heap i < r → i < heap.length → ∃ l, IsChain heap (some i) l
  | 0, _, h, _ => by omega
  | r + 1, i, h, hi => by
    have hn := getElem?_nodeAt hi
    cases hnx : (nodeAt heap i).next with
    | none => exact ⟨[i], .cons hn (by rw [hnx]; exact .nil _)⟩
    | some j =>
      have h1 := rank_lt hok hn hnx
      obtain ⟨l, hl⟩ := exists_chain hok r j (by omega) (hok i _ j hn hnx).1
      exact ⟨i :: l, .cons hn (by rw [hnx]; exact hl)⟩

/-- the chain from `st`, computed with fuel `heap.length` -/
def chainOf (heap : List NodeS) (st : Option Nat) : List Nat := chainFrom heap heap.length st

theorem chainOf_isChain {heap : List NodeS} (hok : NextOK heap) (st : Option Nat)
    (hst : ∀ i, st = some i → i < heap.length) : IsChain heap st (chainOf heap st) := by
  cases st with
  | none => unfold chainOf; rw [chainFrom_none]; exact .nil _
  | some i =>
    obtain ⟨l, hl⟩ := exists_chain hok _ i (Nat.lt_succ_self _) (hst i rfl)
    have hlen := nodup_length_le heap.length l (hl.nodup hok) (hl.lt_length)
    unfold chainOf
    rw [chainFrom_eq hl _ hlen]
    exact hl

theorem chainOf_eq {heap : List NodeS} (hok : NextOK heap) {st : Option Nat} {l : List Nat}
    (h : IsChain heap st l) : chainOf heap st = l := by
  have hlen := nodup_length_le heap.length l (h.nodup hok) (h.lt_length)
  unfold chainOf
  exact chainFrom_eq h _ hlen

theorem chainOf_none (heap : List NodeS) : chainOf heap none = [] := chainFrom_none _ _

/-! ## preservation of `NextOK` -/

/-- a store to a field other than `next` -/
theorem nextOK_modify_other {heap : List NodeS} (hok : NextOK heap) (i : Nat) {f : NodeS → NodeS}
    (hf : ∀ n, (f n).next = n.next) : NextOK (heap.modify i f) := by
  have hget : ∀ (a : Nat) (n : NodeS), (heap.modify i f)[a]? = some n →
      ∃ n0 : NodeS, heap[a]? = some n0 ∧ n.next = n0.next := by
    intro a n hn
    rw [List.getElem?_modify] at hn
    cases hn0 : heap[a]? with
    | none => rw [hn0] at hn; cases hn
    | some n0 =>
      rw [hn0] at hn
      simp only [Option.map_eq_map, Option.map_some, Option.some.injEq] at hn
      subst hn
      refine ⟨n0, rfl, ?_⟩
      split
      · exact hf n0
      · rfl
  intro a n b hn hb
  obtain ⟨n0, hn0, hnx⟩ := hget a n hn
  obtain ⟨h1, h2, h3⟩ := hok a n0 b hn0 (hnx ▸ hb)
  refine ⟨by rw [List.length_modify]; exact h1, h2, ?_⟩
  intro hab m b' hm hb'
  obtain ⟨m0, hm0, hmx⟩ := hget b m hm
  exact h3 hab m0 b' hm0 (hmx ▸ hb')

/-- appending nodes that are chained upwards (or a single node pointing anywhere into the old heap) -/
theorem nextOK_append {heap ext : List NodeS} (hok : NextOK heap)
    (hext : ∀ (j : Nat) (hj : j < ext.length) (x : Nat), ext[j].next = some x →
      (x < heap.length ∧ ext.length = 1) ∨ (x = heap.length + j + 1 ∧ j + 1 < ext.length)) :
    NextOK (heap ++ ext) := by
  intro a n b hn hb
  by_cases ha : a < heap.length
  · rw [List.getElem?_append_left ha] at hn
    obtain ⟨h1, h2, h3⟩ := hok a n b hn hb
    refine ⟨by rw [List.length_append]; omega, h2, ?_⟩
    intro hab m b' hm hb'
    rw [List.getElem?_append_left h1] at hm
    exact h3 hab m b' hm hb'
  · have hal : a < (heap ++ ext).length := (List.getElem?_eq_some_iff.1 hn).1
    rw [List.length_append] at hal
    rw [List.getElem?_append_right (by omega)] at hn
    have hj : a - heap.length < ext.length := by omega
    rw [List.getElem?_eq_getElem hj] at hn
    cases hn
    rcases hext _ hj b hb with ⟨h1, h2⟩ | ⟨h1, h2⟩
    · refine ⟨by rw [List.length_append]; omega, by omega, fun h => by omega⟩
    · refine ⟨by rw [List.length_append]; omega, by omega, ?_⟩
      intro _ m b' hm hb'
      rw [List.getElem?_append_right (by omega)] at hm
      have hj' : b - heap.length < ext.length := by omega
      rw [List.getElem?_eq_getElem hj'] at hm
      cases hm
      rcases hext _ hj' b' hb' with ⟨h3, h4⟩ | ⟨h3, h4⟩
      · omega
      · omega

/-- a store to the `next` field of `pr` -/
theorem nextOK_modify_next {heap : List NodeS} (hok : NextOK heap) (pr : Nat) (nx : Option Nat)
    (h1 : ∀ j, nx = some j → j < heap.length ∧ j ≠ pr ∧
      (pr < j → ∀ (m : NodeS) (j' : Nat), heap[j]? = some m → m.next = some j' → j < j'))
    (h2 : ∀ (x : Nat) (n : NodeS), heap[x]? = some n → n.next = some pr → x < pr → ∀ j, nx = some j → pr < j) :
    NextOK (heap.modify pr (fun m => { m with next := nx })) := by
  have hget : ∀ (a : Nat) (n : NodeS), (heap.modify pr (fun m => { m with next := nx }))[a]? = some n →
      ∃ n0 : NodeS, heap[a]? = some n0 ∧ ((a = pr ∧ n.next = nx) ∨ (a ≠ pr ∧ n = n0)) := by
    intro a n hn
    by_cases hpa : pr = a
    · subst hpa
      rw [List.getElem?_modify_eq] at hn
      cases hn0 : heap[pr]? with
      | none => rw [hn0] at hn; cases hn
      | some n0 =>
        rw [hn0] at hn
        simp only [Option.map_eq_map, Option.map_some, Option.some.injEq] at hn
        subst hn
        exact ⟨n0, rfl, Or.inl ⟨rfl, rfl⟩⟩
    · rw [List.getElem?_modify_ne _ _ hpa] at hn
      exact ⟨n, hn, Or.inr ⟨fun e => hpa e.symm, rfl⟩⟩
  intro a n b hn hb
  rw [List.length_modify]
  obtain ⟨n0, hn0, hc⟩ := hget a n hn
  rcases hc with ⟨rfl, hnx⟩ | ⟨hne, rfl⟩
  · rw [hnx] at hb
    obtain ⟨e1, e2, e3⟩ := h1 b hb
    refine ⟨e1, e2, ?_⟩
    intro hab m b' hm hb'
    obtain ⟨m0, hm0, hc'⟩ := hget b m hm
    rcases hc' with ⟨rfl, _⟩ | ⟨_, rfl⟩
    · exact absurd rfl e2
    · exact e3 hab m b' hm0 hb'
  · obtain ⟨e1, e2, e3⟩ := hok a n b hn0 hb
    refine ⟨e1, e2, ?_⟩
    intro hab m b' hm hb'
    obtain ⟨m0, hm0, hc'⟩ := hget b m hm
    rcases hc' with ⟨rfl, hmx⟩ | ⟨_, rfl⟩
    · rw [hmx] at hb'
      exact h2 a n hn0 hb hab b' hb'
    · exact e3 hab m b' hm0 hb'

/-! ## list surgery -/

/-- prepending a fresh node whose `next` is the old start -/
theorem isChain_prepend {heap : List NodeS} {a : Option Nat} {l : List Nat}
    (h : IsChain heap a l) (new : NodeS) (hnew : new.next = a) :
    IsChain (heap ++ [new]) (some heap.length) (heap.length :: l) := by
  refine .cons (n := new) (by simp) ?_
  rw [hnew]
  refine h.congr ?_
  intro j _ n hn
  have hjl : j < heap.length := (List.getElem?_eq_some_iff.1 hn).1
  exact ⟨n, by rw [List.getElem?_append_left hjl, hn], rfl⟩

/-- appending a fresh node behind the last node `pr` of a chain -/
theorem isChain_append_tail {heap : List NodeS} {a : Option Nat} {l1 : List Nat} {pr : Nat}
    (h : IsChain heap a (l1 ++ [pr])) (hnd : (l1 ++ [pr]).Nodup) (new : NodeS) (hnew : new.next = none) :
    IsChain ((heap ++ [new]).modify pr (fun m => { m with next := some heap.length })) a
      (l1 ++ [pr, heap.length]) := by
  obtain ⟨b, h1, h2⟩ := h.split
  obtain ⟨rfl, np, hnp, _⟩ := IsSeg.cons_iff.1 h2
  have hprl : pr < heap.length := (List.getElem?_eq_some_iff.1 hnp).1
  have hpr1 : pr ∉ l1 := by
    intro hm
    exact (List.nodup_append.1 hnd).2.2 pr hm pr (by simp) rfl
  refine IsSeg.append (b := some pr) ?_ ?_
  · refine h1.congr ?_
    intro j hj n hn
    have hne : pr ≠ j := fun he => hpr1 (he ▸ hj)
    have hjl : j < heap.length := (List.getElem?_eq_some_iff.1 hn).1
    refine ⟨n, ?_, rfl⟩
    rw [List.getElem?_modify_ne _ _ hne, List.getElem?_append_left hjl, hn]
  · refine .cons (n := { np with next := some heap.length }) ?_ ?_
    · rw [List.getElem?_modify_eq, List.getElem?_append_left hprl, hnp]; rfl
    · refine .cons (n := new) ?_ ?_
      · rw [List.getElem?_modify_ne _ _ (by omega)]; simp
      · rw [hnew]; exact .nil _

/-- unlinking the node `i` behind `pr` -/
theorem isChain_unlink {heap : List NodeS} {a : Option Nat} {l1 l2 : List Nat}
    {pr i : Nat} {ni : NodeS} (h : IsChain heap a (l1 ++ pr :: i :: l2))
    (hnd : (l1 ++ pr :: i :: l2).Nodup) (hni : heap[i]? = some ni) :
    IsChain (heap.modify pr (fun m => { m with next := ni.next })) a (l1 ++ pr :: l2) := by
  obtain ⟨b, h1, h2⟩ := h.split
  obtain ⟨rfl, np, hnp, hs⟩ := IsSeg.cons_iff.1 h2
  obtain ⟨hb, ni', hni', hs2⟩ := IsSeg.cons_iff.1 hs
  rw [hni] at hni'; cases hni'
  have h5 := List.nodup_append.1 hnd
  have hpr1 : pr ∉ l1 := fun hm => h5.2.2 pr hm pr (by simp) rfl
  have hpr2 : pr ∉ l2 := by
    intro hm
    have := (List.nodup_cons.1 h5.2.1).1
    exact this (List.mem_cons_of_mem _ hm)
  refine IsSeg.append (b := some pr) ?_ ?_
  · refine h1.congr ?_
    intro j hj n hn
    have hne : pr ≠ j := fun he => hpr1 (he ▸ hj)
    refine ⟨n, ?_, rfl⟩
    rw [List.getElem?_modify, hn]
    simp [hne]
  · refine .cons (n := { np with next := ni.next }) ?_ ?_
    · rw [List.getElem?_modify, hnp]; simp
    · refine hs2.congr ?_
      intro j hj n hn
      have hne : pr ≠ j := fun he => hpr2 (he ▸ hj)
      refine ⟨n, ?_, rfl⟩
      rw [List.getElem?_modify, hn]
      simp [hne]

/-! ## `predOf` -/

theorem predOf_none_of_not_mem_tail (i : Nat) : ∀ l : List Nat, i ∉ l.tail → predOf l i = none
  | [], _ => rfl
  | [_], _ => rfl
  | a :: b :: rest, h => by
    have hb : b ≠ i := fun he => h (by simp [he])
    have hr : i ∉ (b :: rest).tail := fun hm => h (by simp at hm ⊢; exact Or.inr hm)
    simp only [predOf, beq_iff_eq, hb, if_false]
    exact predOf_none_of_not_mem_tail i (b :: rest) hr

theorem predOf_head (i : Nat) (l : List Nat) (hi : i ∉ l) : predOf (i :: l) i = none :=
  predOf_none_of_not_mem_tail i (i :: l) hi

theorem predOf_mid (i a : Nat) (l2 : List Nat) (ha : a ≠ i) :
    ∀ l1 : List Nat, i ∉ l1 → predOf (l1 ++ a :: i :: l2) i = some a
  | [], _ => by simp [predOf]
  | [x], _ => by
    simp only [List.cons_append, List.nil_append, predOf, beq_iff_eq, ha, if_false, if_true]
  | x :: y :: l1, h => by
    have hy : y ≠ i := fun he => h (by simp [he])
    have hr : i ∉ y :: l1 := fun hm => h (List.mem_cons_of_mem _ hm)
    simp only [List.cons_append, predOf, beq_iff_eq, hy, if_false]
    exact predOf_mid i a l2 ha (y :: l1) hr

theorem predOf_cases {l : List Nat} (hnd : l.Nodup) {i : Nat} (hi : i ∈ l) :
    (∃ l2, l = i :: l2 ∧ predOf l i = none) ∨
    (∃ l1 pr l2, l = l1 ++ pr :: i :: l2 ∧ predOf l i = some pr) := by
  obtain ⟨l1, l2, rfl⟩ := List.append_of_mem hi
  have h5 := List.nodup_append.1 hnd
  have hi1 : i ∉ l1 := fun hm => h5.2.2 i hm i (by simp) rfl
  have hi2 : i ∉ l2 := (List.nodup_cons.1 h5.2.1).1
  rcases List.eq_nil_or_concat l1 with rfl | ⟨l1', pr, rfl⟩
  · exact Or.inl ⟨l2, rfl, predOf_head i l2 hi2⟩
  · refine Or.inr ⟨l1', pr, l2, by simp, ?_⟩
    have hpr : pr ≠ i := fun he => hi1 (by simp [he])
    have : i ∉ l1' := fun hm => hi1 (by simp [hm])
    have h := predOf_mid i pr l2 hpr l1' this
    simpa using h

/-! ## "before" on a list without duplicates -/

/-- in a list without duplicates, `[i, c]` is a sublist iff `i` is in front of `c` -/
theorem pair_sublist_iff {L p q : List Nat} {c : Nat} (hnd : L.Nodup) (hL : L = p ++ c :: q) (i : Nat) :
    List.Sublist [i, c] L ↔ i ∈ p := by
  subst hL
  have h5 := List.nodup_append.1 hnd
  have hcp : c ∉ p := fun hm => h5.2.2 c hm c (by simp) rfl
  have hcq : c ∉ q := (List.nodup_cons.1 h5.2.1).1
  constructor
  · intro h
    obtain ⟨a1, a2, he, h1, h2⟩ := List.sublist_append_iff.1 h
    cases a1 with
    | nil =>
      simp only [List.nil_append] at he
      subst he
      exfalso
      cases h2 with
      | cons _ h3 => exact hcq (h3.subset (by simp))
      | cons_cons _ h3 => exact hcq (h3.subset (by simp))
    | cons x a1' =>
      cases a1' with
      | nil =>
        simp only [List.cons_append, List.nil_append, List.cons.injEq] at he
        obtain ⟨rfl, -⟩ := he
        exact h1.subset (by simp)
      | cons y a1'' =>
        simp only [List.cons_append, List.cons.injEq] at he
        obtain ⟨rfl, rfl, -⟩ := he
        exact absurd (h1.subset (by simp)) hcp
  · intro hi
    obtain ⟨p1, p2, rfl⟩ := List.append_of_mem hi
    have : List.Sublist [i, c] ((p1 ++ i :: p2) ++ c :: q) := by
      have h1 : List.Sublist [i] (p1 ++ i :: p2) := List.singleton_sublist.2 (by simp)
      have h2 : List.Sublist [c] (c :: q) := List.singleton_sublist.2 (by simp)
      exact List.Sublist.append h1 h2
    exact this

/-! ## `copyChain` -/

/-- the nodes made by `copyChain` -/
def copiesOf (heap : List NodeS) (c : List Nat) (mk : NodeS → Option Nat → NodeS) : List NodeS :=
  (List.range c.length).map fun j =>
    mk (heap.getD (c.getD j 0) dflt) (if j + 1 < c.length then some (heap.length + j + 1) else none)

theorem copyChain_eq (heap : List NodeS) (c : List Nat) (mk : NodeS → Option Nat → NodeS) :
    copyChain heap c mk = (heap ++ copiesOf heap c mk, if c.length = 0 then none else some heap.length) := rfl

theorem copiesOf_length (heap : List NodeS) (c : List Nat) (mk : NodeS → Option Nat → NodeS) :
    (copiesOf heap c mk).length = c.length := by simp [copiesOf]

theorem copiesOf_get (heap : List NodeS) (c : List Nat) (mk : NodeS → Option Nat → NodeS) {j : Nat}
    (hj : j < c.length) :
    nodeAt (heap ++ copiesOf heap c mk) (heap.length + j) =
      mk (nodeAt heap (c.getD j 0)) (if j + 1 < c.length then some (heap.length + j + 1) else none) := by
  rw [nodeAt_append_right _ _ (by rw [copiesOf_length]; exact hj)]
  simp [copiesOf, nodeAt]

/-- the copies form a chain -/
theorem copiesOf_isSeg (heap : List NodeS) (c : List Nat) (mk : NodeS → Option Nat → NodeS)
    (hmk : ∀ src nx, (mk src nx).next = nx) :
    ∀ (m j : Nat), j + m = c.length →
      IsChain (heap ++ copiesOf heap c mk) (if m = 0 then none else some (heap.length + j))
        (List.range' (heap.length + j) m)
  | 0, j, _ => by simp only [if_true, List.range'_zero]; exact .nil _
  | m + 1, j, h => by
    have hj : j < c.length := by omega
    have hlt : heap.length + j < (heap ++ copiesOf heap c mk).length := by
      rw [List.length_append, copiesOf_length]; omega
    have hn := getElem?_nodeAt hlt
    rw [copiesOf_get heap c mk hj] at hn
    rw [if_neg (by omega), List.range'_succ]
    refine .cons hn ?_
    rw [hmk]
    have ih := copiesOf_isSeg heap c mk hmk m (j + 1) (by omega)
    have e1 : heap.length + (j + 1) = heap.length + j + 1 := by omega
    rw [e1] at ih
    by_cases hm : m = 0
    · subst hm
      rw [if_neg (by omega)]
      simpa using ih
    · rw [if_pos (by omega)]
      rw [if_neg hm] at ih
      exact ih

theorem copiesOf_isChain (heap : List NodeS) (c : List Nat) (mk : NodeS → Option Nat → NodeS)
    (hmk : ∀ src nx, (mk src nx).next = nx) :
    IsChain (heap ++ copiesOf heap c mk) (if c.length = 0 then none else some heap.length)
      (List.range' heap.length c.length) := by
  have := copiesOf_isSeg heap c mk hmk c.length 0 (by omega)
  simpa using this

theorem nextOK_copies {heap : List NodeS} (hok : NextOK heap) (c : List Nat) (mk : NodeS → Option Nat → NodeS)
    (hmk : ∀ src nx, (mk src nx).next = nx) : NextOK (heap ++ copiesOf heap c mk) := by
  refine nextOK_append hok ?_
  intro j hj x hx
  rw [copiesOf_length] at hj
  right
  have : (copiesOf heap c mk)[j] = mk (heap.getD (c.getD j 0) dflt)
      (if j + 1 < c.length then some (heap.length + j + 1) else none) := by
    simp [copiesOf]
  rw [this, hmk] at hx
  split at hx
  · cases hx
    rw [copiesOf_length]
    exact ⟨rfl, by assumption⟩
  · cases hx

end Flurry.Proto.BinK
