import Flurry.Lemmas.BinNInvFrame
/-! # Proto/BinN: every transition preserves the structural invariant (C01, C10) -/
namespace Flurry.Proto.BinN
open Flurry.Lin
open Flurry.Proto.BinX (NodeS Cell Pending isReader dflt chainFrom cellHead cellOfHead nodeAt nodeAt_of_some getElem?_nodeAt
  nodeAt_append_left IsSeg IsChain chainH absIn KeysDistinct Walk get_set get_set_self get_set_ne cellOfHead_ne_moved)

/-- what a transition does to the abstract states of the keys -/
inductive AbsEff (s s' : State) (l : Local) : Prop
  | quiet : (∀ k, absOf s' k = absOf s k) → AbsEff s s' l
  | cas (p : Pending) (g v vi : Nat) : l.call = some p → l.pc = .wCas g → cellOf s g p.key = .empty →
      (p.op = .ins v vi ∨ p.op = .tryIns v vi) →
      (∀ k, absOf s' k = if p.key = k then some (v, vi) else absOf s k) → AbsEff s s' l
  | store (p : Pending) (g h : Nat) (pred hit hnext : Option Nat) : l.call = some p →
      l.pc = .wStore g h pred hit hnext →
      specStep (absOf s p.key) p.op = (absOf s' p.key, (storeAt (tick s) g p pred hit hnext).2) →
      (∀ k, k ≠ p.key → absOf s' k = absOf s k) → AbsEff s s' l

/-- transitions that do not touch the memory -/
theorem inv_same {s s' : State} {G : Ghost} {t : Nat} {l l' : Local} (I : Inv s G) (hl : s.threads[t]? = some l)
    (Gn' : GenInv s') (Tn' : TInv s') (m : SameMem s s') (hthr : s'.threads = s.threads.set t l')
    (hnm : ¬ isMidPc l.pc) (hnm' : ¬ isMidPc l'.pc)
    (hself : ∀ p, l'.call = some p → WalkOK s' p l'.pc) :
    Inv s' G ∧ MemStep s s' G G ∧ AbsEff s s' l := by
  obtain ⟨a, b, c, d⟩ := m
  have hcell : ∀ g j, cellAt s' g j = cellAt s g j := fun g j => by rw [cellAt_eq, cellAt_eq, b]
  refine ⟨⟨Gn', I.heap.congr a b c d, Tn', ?_, ?_⟩, .heap (HeapStep.of_same a b c), .quiet (absOf_congr' a b c)⟩
  · exact pinv_frame I hl hthr c hnm hnm' (fun j lo hg _ => ⟨hcell _ _, hcell _ _⟩)
  · refine winv_frame I.walk hthr ?_ hself
    intro t1 l1 g j h _ _ _ _
    exact hfr_same b (chId_congr a b) (fun i => by rw [a]; exact ⟨rfl, rfl⟩) g j

/-- transitions that change a lock word -/
theorem inv_lock {s s' : State} {G : Ghost} {t : Nat} {l l' : Local} {i : Nat} {x : Option Nat} (I : Inv s G)
    (hl : s.threads[t]? = some l) (Gn' : GenInv s') (Tn' : TInv s')
    (hh : s'.heap = s.heap.modify i (fun m => { m with lock := x }))
    (ht : s'.tabs = s.tabs) (hc : s'.cur = s.cur) (hr : s'.resizing = s.resizing)
    (hthr : s'.threads = s.threads.set t l')
    (hnm : ¬ isMidPc l.pc) (hnm' : ¬ isMidPc l'.pc)
    (hself : ∀ p, l'.call = some p → WalkOK s' p l'.pc) :
    Inv s' G ∧ MemStep s s' G G ∧ AbsEff s s' l := by
  obtain ⟨H', hs, hch, habs, -, hn⟩ := lock_effect I.heap hh ht hc hr
  have hcell : ∀ g j, cellAt s' g j = cellAt s g j := fun g j => by rw [cellAt_eq, cellAt_eq, ht]
  refine ⟨⟨Gn', H', Tn', ?_, ?_⟩, .heap hs, .quiet habs⟩
  · exact pinv_frame I hl hthr hc hnm hnm' (fun j lo hg _ => ⟨hcell _ _, hcell _ _⟩)
  · refine winv_frame I.walk hthr ?_ hself
    intro t1 l1 g j h _ _ _ _
    exact hfr_same ht hch (fun i => ⟨(hn i).1, (hn i).2.2⟩) g j

/-- transitions that store into the chain of an active cell -/
theorem inv_update {s s' : State} {G : Ghost} {t : Nat} {l l' : Local} {id : CellId} (I : Inv s G)
    (hl : s.threads[t]? = some l) (Gn' : GenInv s') (Tn' : TInv s') (act : Active s G id)
    (e : Effect s s' G id) (hthr : s'.threads = s.threads.set t l')
    (hnm : ¬ isMidPc l.pc) (hnm' : ¬ isMidPc l'.pc)
    (hother : ∀ (t1 : Nat) (l1 : Local) (h : Nat), t1 ≠ t → s.threads[t1]? = some l1 →
      vcell s.cur l1 ≠ some (id.1, id.2, h))
    (hself : ∀ p, l'.call = some p → WalkOK s' p l'.pc) :
    Inv s' G ∧ MemStep s s' G G := by
  obtain ⟨C', u, hs, -⟩ := e
  refine ⟨⟨Gn', hinv_update I.heap act u, Tn', ?_, ?_⟩, .heap hs⟩
  · refine pinv_frame I hl hthr u.cur hnm hnm' ?_
    intro j lo hg hm
    obtain ⟨-, h2, h3, -⟩ := act.ne_mid I.heap hm
    exact ⟨u.cell (s.cur + 1, j) (fun h => h2 h.symm), u.cell (s.cur + 1, j + 2 ^ s.cur) (fun h => h3 h.symm)⟩
  · refine winv_frame I.walk hthr ?_ hself
    intro t1 l1 g j h n1 h1 hv _
    refine hfr_update I.heap act u ?_
    intro he
    apply hother t1 l1 h n1 h1
    rw [← he]; exact hv

/-- the split only appends nodes -/
theorem splitBinB_ext (bit : Nat → Bool) (heap : List NodeS) (c : List Nat) :
    ∃ ext, (splitBinB bit heap c).1 = heap ++ ext := by
  unfold splitBinB
  simp only
  generalize (c.take (lastRunStartB bit heap c)) = pre
  generalize (if (match (List.drop (lastRunStartB bit heap c) c).head? with
        | some i => bit (heap.getD i dflt).key
        | none => false) = true then none else (List.drop (lastRunStartB bit heap c) c).head?) = lo
  generalize (if (match (List.drop (lastRunStartB bit heap c) c).head? with
        | some i => bit (heap.getD i dflt).key
        | none => false) = true then (List.drop (lastRunStartB bit heap c) c).head? else none) = hg
  suffices h : ∀ (pre : List Nat) (hp : List NodeS) (lo hg : Option Nat), (∃ ext, hp = heap ++ ext) →
      ∃ ext, (pre.foldl
        (fun (acc : List NodeS × Option Nat × Option Nat) i =>
          let (hp, lo, hg) := acc
          let n := hp.getD i dflt
          let idx := hp.length
          if bit n.key then (hp ++ [⟨n.key, n.val, hg, none⟩], lo, some idx)
          else (hp ++ [⟨n.key, n.val, lo, none⟩], some idx, hg)) (hp, lo, hg)).1 = heap ++ ext from
    h pre heap lo hg ⟨[], by simp⟩
  intro pre
  induction pre with
  | nil => intro hp lo hg h; exact h
  | cons i pre ih =>
    intro hp lo hg h
    obtain ⟨ext, rfl⟩ := h
    simp only [List.foldl_cons]
    split
    · exact ih _ _ _ ⟨ext ++ [_], by rw [List.append_assoc]⟩
    · exact ih _ _ _ ⟨ext ++ [_], by rw [List.append_assoc]⟩

/-- `PInv` after a transition of the resizing thread that ends outside the middle phase -/
theorem pinv_T_none {s s' : State} {G' : Ghost} {t : Nat} {l l' : Local} (Gn : GenInv s)
    (hl : s.threads[t]? = some l) (hT : isT l.pc) (hthr : s'.threads = s.threads.set t l')
    (hnm' : ¬ isMidPc l'.pc) (hm : G'.mid = none) : PInv s' G' := by
  refine pinv_of ?_ (fun h => by rw [hm] at h; cases h)
  intro t1 l1 h1 hm1
  rw [hthr] at h1
  rcases get_set h1 with ⟨rfl, rfl⟩ | ⟨n1, h1⟩
  · exact absurd hm1 hnm'
  · exact absurd (Gn.uniqT _ _ _ _ h1 hl (isMidPc_isT hm1) hT) n1

/-- `PInv` after a transition of the resizing thread that ends in the middle phase -/
theorem pinv_T_mid {s s' : State} {G' : Ghost} {t : Nat} {l l' : Local} (Gn : GenInv s)
    (hl : s.threads[t]? = some l) (hT : isT l.pc) (hthr : s'.threads = s.threads.set t l')
    (hp : PcMid s' G' l'.pc) (hm' : isMidPc l'.pc) : PInv s' G' := by
  refine pinv_of ?_ (fun _ => ⟨t, l', by rw [hthr]; exact get_set_self hl, hm'⟩)
  intro t1 l1 h1 hm1
  rw [hthr] at h1
  rcases get_set h1 with ⟨rfl, rfl⟩ | ⟨n1, h1⟩
  · exact hp
  · exact absurd (Gn.uniqT _ _ _ _ h1 hl (isMidPc_isT hm1) hT) n1

end Flurry.Proto.BinN
