import Flurry.Lemmas.BinGNQuiet
import Flurry.Lemmas.BinGNRw
import Flurry.Lemmas.BinGNTime
import Flurry.Lemmas.BinKBasic
/-! # Proto/BinGN: the structural invariant that is still TO BE PROVED — definitions only

`Inv s` = what is proved (`GenInv`, `OwnInv`, `RwInv`, `TInv`, `NextEmpty`) ∧ what is not (`HInv`, `PlanInv`,
`BitsInv`, `DInv`): the invariant `Inv` of `Lemmas/BinGInv.lean` re-stated for the cells `(g, j)` of any number of
generations. The unproved part is validated by execution: `Lemmas/BinGNInvCheck.lean` evaluates a Boolean mirror
of every clause below after every step of 6 400 random schedules (10^6 states, 2–4 threads, up to 3 resizes,
sleepers stale by two / three generations) — no clause is ever violated (with `stepNoCheck`: `side`, `refOK`, the
plan clauses `src` / `cover` / `fresh` fail within 100 runs).

What `binGN_linearizable_quiescent` needs on top: the ghost invariant `GInv` of `Lemmas/BinGGhost.lean` with
`Foreign` generalised as in `Lemmas/BinNGhost.lean` (`Good.foreign` for a cell in which the key does not live). -/
namespace Flurry.Proto.BinGN
open Flurry.Lin
open Flurry.Proto.BinK (nodeAt binAt NextOK chainOf CInv absL)

abbrev CellId := Nat × Nat

def cellI (s : State) (id : CellId) : Cell := cellAt s id.1 id.2

/-- the start of the list of a structure -/
def startOf (tbins : List TBin) : Cell → Option Nat
  | .list h => some h
  | .tree b => (binAt tbins b).first
  | _ => none

/-- the list of a structure -/
def chainC (s : State) (c : Cell) : List Nat := chainOf s.heap (startOf s.tbins c)

/-- the nodes in the tree of a structure -/
def treeOf (s : State) (c : Cell) (j : Nat) : Prop :=
  j < s.heap.length ∧ (nodeAt s.heap j).inTree = true ∧ ∃ b, c = .tree b ∧ (nodeAt s.heap j).owner = some b

def ownerOf : Cell → Option Nat
  | .tree b => some b
  | _ => none

/-- the cell a lookup of `k` ends in -/
def liveId (s : State) (k : Nat) : CellId :=
  if cellOf s s.cur k = .moved then (s.cur + 1, k % 2 ^ (s.cur + 1)) else (s.cur, k % 2 ^ s.cur)

/-- `BinG.CopyOK`, verbatim: the structure `C` holds exactly the nodes of the list of `old` whose key satisfies
`sel`, as re-used nodes (a suffix, same order) or as copies (same key and value) in front of the re-used ones -/
structure CopyOK (s : State) (old : Cell) (sel : Nat → Bool) (C : Cell) : Prop where
  notMoved : C ≠ .moved
  cinv : CInv s.heap (startOf s.tbins C) (treeOf s C)
  cellOK : ∀ b, C = .tree b → b < s.tbins.length
  chainOwner : ∀ j ∈ chainC s C, (nodeAt s.heap j).owner = ownerOf C
  selOK : ∀ j, (j ∈ chainC s C ∨ treeOf s C j) → sel (nodeAt s.heap j).key = true
  src : ∀ j ∈ chainC s C, j ∉ chainC s old → ∃ i ∈ chainC s old, (nodeAt s.heap i).key = (nodeAt s.heap j).key ∧
    (nodeAt s.heap i).val = (nodeAt s.heap j).val ∧ ∀ r ∈ chainC s old, r ∈ chainC s C → List.Sublist [i, r] (chainC s old)
  cover : ∀ i ∈ chainC s old, sel (nodeAt s.heap i).key = true → ∃ j ∈ chainC s C,
    (nodeAt s.heap j).key = (nodeAt s.heap i).key ∧ (nodeAt s.heap j).val = (nodeAt s.heap i).val ∧
    (j = i ∨ j ∉ chainC s old)
  suffix : ∀ r ∈ chainC s old, r ∈ chainC s C → ∀ i ∈ chainC s old, List.Sublist [r, i] (chainC s old) → i ∈ chainC s C
  order : ∀ i c, i ∈ chainC s old → c ∈ chainC s old → List.Sublist [i, c] (chainC s C) → List.Sublist [i, c] (chainC s old)
  fresh : ∀ b, C = .tree b → old ≠ .tree b →
    binAt s.tbins b = { first := (binAt s.tbins b).first } ∧
    (∀ j, j < s.heap.length → ((nodeAt s.heap j).owner = some b ↔ j ∈ chainC s C)) ∧
    (∀ j ∈ chainC s C, (nodeAt s.heap j).inTree = true)

/-- the transfer that re-uses `TreeBin` `b` is past its first store: `b` is in cell `(cur, j0)` and in a child -/
def Reusing (s : State) (b j0 : Nat) : Prop :=
  ∃ (t : Nat) (l : Local), s.threads[t]? = some l ∧
    ((∃ hi, l.pc = .xStoreHigh j0 (.inr b) hi) ∨ l.pc = .xStoreMoved j0 (.inr b))

/-- the heap (`BinG.HInv`; `side` is `key % 2^g = j`; `curMoved` / `newNotMoved` are part of `GenInv`) -/
structure HInv (s : State) : Prop where
  cinv : ∀ id, CInv s.heap (startOf s.tbins (cellI s id)) (treeOf s (cellI s id))
  ownerOK : ∀ j b, (nodeAt s.heap j).owner = some b → b < s.tbins.length
  firstOK : ∀ b h, (binAt s.tbins b).first = some h → h < s.heap.length
  chainOwner : ∀ id, ∀ j ∈ chainC s (cellI s id), (nodeAt s.heap j).owner = ownerOf (cellI s id)
  /-- every key on the list / in the tree of cell `(g, j)` belongs to the cell -/
  side : ∀ id : CellId, ∀ j, (j ∈ chainC s (cellI s id) ∨ treeOf s (cellI s id) j) →
    (nodeAt s.heap j).key % 2 ^ id.1 = id.2
  /-- two cells hold the same `TreeBin` only while the transfer that re-uses it is past its first store -/
  binsDistinct : ∀ (id id' : CellId) b, cellI s id = .tree b → cellI s id' = .tree b → id = id' ∨
    ∃ j0, Reusing s b j0 ∧ ((id = (s.cur, j0) ∧ id'.1 = s.cur + 1 ∧ id'.2 % 2 ^ s.cur = j0) ∨
      (id' = (s.cur, j0) ∧ id.1 = s.cur + 1 ∧ id.2 % 2 ^ s.cur = j0))

def sideSel (g : Nat) (b : Bool) : Nat → Bool := fun k => bitAt g k == b

/-- the two new structures are the two sides of the chain of the old cell `(cur, j)` -/
structure Plan (s : State) (j : Nat) (lo hi : Cell) : Prop where
  low : CopyOK s (cellAt s s.cur j) (sideSel s.cur false) lo
  high : CopyOK s (cellAt s s.cur j) (sideSel s.cur true) hi
  distinct : ∀ b, lo = .tree b → hi ≠ .tree b

/-- what the program counter of the resizing thread says about the children of the cell under transfer -/
def XPc (s : State) : Pc → Prop
  | .xStoreLow j _ lo hi => Plan s j lo hi
  | .xStoreHigh j _ hi => Plan s j (cellAt s (s.cur + 1) j) hi
  | .xStoreMoved j _ => Plan s j (cellAt s (s.cur + 1) j) (cellAt s (s.cur + 1) (j + 2 ^ s.cur))
  | _ => True

def PlanInv (s : State) : Prop := ∀ (t : Nat) (l : Local), s.threads[t]? = some l → XPc s l.pc

/-- the structures a thread has built (or stored into a cell that is not yet live) but not yet published -/
def pend (s : State) : Pc → List Cell
  | .kStore _ _ _ b => [.tree b]
  | .xStoreLow _ _ lo hi => [lo, hi]
  | .xStoreHigh j _ hi => [cellAt s (s.cur + 1) j, hi]
  | .xStoreMoved j _ => [cellAt s (s.cur + 1) j, cellAt s (s.cur + 1) (j + 2 ^ s.cur)]
  | _ => []

def xferIdx : Pc → Option Nat
  | .xStoreLow j _ _ _ | .xStoreHigh j _ _ | .xStoreMoved j _ => some j
  | _ => none

/-- a `TreeBin` that is built but not yet published (the re-used bin of a transfer is in the old cell) -/
def PrivBin (s : State) (b : Nat) : Prop :=
  ∃ (t : Nat) (l : Local), s.threads[t]? = some l ∧ (.tree b : Cell) ∈ pend s l.pc ∧
    ∀ j, xferIdx l.pc = some j → cellAt s s.cur j ≠ .tree b

def binRef : Pc → Option Nat
  | .rFirst b | .rState b _ | .rLin b _ | .rCas b _ _ | .rTree b | .rRelease b _ | .lFirst b | .tMutex _ b
  | .tCheck _ b | .tFind _ b | .tVal _ b _ _ _ | .lrTry _ b _ _ | .lrLoop _ b _ _ | .tPrependLocked _ b
  | .tTreeLinkLocked _ b _ | .tUnlinkLocked _ b _ _ | .tRestructure _ b _ _ | .tUnlockRoot _ b _
  | .tUntreeify _ b _ | .tUnlockM _ b _ _ | .yMutex _ b | .yCheck _ b | .yBuild _ b => some b
  | .xStoreLow _ (.inr b) _ _ | .xStoreHigh _ (.inr b) _ | .xStoreMoved _ (.inr b) | .xUnlock (.inr b) => some b
  | _ => none

def isLoop : Pc → Bool
  | .lrLoop _ _ _ _ => true
  | _ => false

/-- the synchronisation words of the `TreeBin`s in cells; referenced `TreeBin`s are published
(`lk`, `mx`, `vL`, `vT`, `rd`, `wrd` of `BinG.LInv` are `GenInv`, `OwnInv`, `RwInv`) -/
structure BitsInv (s : State) : Prop where
  bitsNone : ∀ id b, cellI s id = .tree b → (binAt s.tbins b).mutex = none →
    (binAt s.tbins b).writer = false ∧ (binAt s.tbins b).waiter = false
  bitsSome : ∀ (id : CellId) (b t : Nat) (l : Local), cellI s id = .tree b → s.threads[t]? = some l →
    (binAt s.tbins b).mutex = some t →
    (binAt s.tbins b).writer = (wrSec l.pc).isSome ∧ ((binAt s.tbins b).waiter = true → isLoop l.pc = true)
  refOK : ∀ (t : Nat) (l : Local) (b : Nat), s.threads[t]? = some l → binRef l.pc = some b →
    b < s.tbins.length ∧ ¬ PrivBin s b

/-- the walk of a validated list-bin writer looking for `key` on the list from `h` -/
def Walk (s : State) (h key : Nat) (pred cur : Option Nat) : Prop :=
  ∃ l1 l2, chainOf s.heap (some h) = l1 ++ l2 ∧ cur = l2.head? ∧ pred = l1.getLast? ∧
    ∀ j ∈ l1, (nodeAt s.heap j).key ≠ key

def RemOK (s : State) (b : Nat) (p : Pending) (i : Nat) (res : KRes) : Prop :=
  i ∈ chainC s (.tree b) ∧ (nodeAt s.heap i).inTree = true ∧ (nodeAt s.heap i).key = p.key ∧
    specStep (some (nodeAt s.heap i).val) p.op = (none, res)

def FreshOK (s : State) (b : Nat) (p : Pending) : Prop :=
  ∀ j, j < s.heap.length → (nodeAt s.heap j).owner = some b → (nodeAt s.heap j).inTree = true →
    (nodeAt s.heap j).key ≠ p.key

def PcInv (s : State) (p : Pending) : Pc → Prop
  | .rNode (some c) => c < s.heap.length
  | .rState _ (some c) => c < s.heap.length
  | .rCas _ c _ => c < s.heap.length
  | .rLin _ c => c < s.heap.length
  | .lNode (some c) => c < s.heap.length
  | .rVal _ => p.op ≠ .has
  | .wFind _ h pred cur => Walk s h p.key pred cur
  | .wStore _ h pred hit hnext => Walk s h p.key pred hit ∧
      ∀ i, hit = some i → (nodeAt s.heap i).key = p.key ∧ hnext = (nodeAt s.heap i).next
  | .tVal _ b i v res => i ∈ chainC s (.tree b) ∧ (nodeAt s.heap i).key = p.key ∧
      specStep (some (nodeAt s.heap i).val) p.op = (some v, res)
  | .lrTry _ b .insert _ => FreshOK s b p
  | .lrLoop _ b .insert _ => FreshOK s b p
  | .tPrependLocked _ b => FreshOK s b p
  | .tTreeLinkLocked _ b x => x ∈ chainC s (.tree b) ∧ (nodeAt s.heap x).inTree = false ∧
      (nodeAt s.heap x).key = p.key ∧ FreshOK s b p
  | .lrTry _ b (.remove i) res => RemOK s b p i res
  | .lrLoop _ b (.remove i) res => RemOK s b p i res
  | .tUnlinkLocked _ b i res => RemOK s b p i res
  | .tRestructure _ b i _ => i ∉ chainC s (.tree b) ∧ (nodeAt s.heap i).inTree = true ∧ i < s.heap.length ∧
      (nodeAt s.heap i).owner = some b
  | _ => True

/-- the private `TreeBin` of a treeify is a copy of the list from `h` and is in no cell -/
def KInv (s : State) : Pc → Prop
  | .kStore _ _ h b => CopyOK s (.list h) (fun _ => true) (.tree b) ∧ ∀ id, cellI s id ≠ .tree b
  | _ => True

structure DInv (s : State) : Prop where
  pcInv : ∀ (t : Nat) (l : Local) (p : Pending), s.threads[t]? = some l → l.call = some p → PcInv s p l.pc
  kInv : ∀ (t : Nat) (l : Local), s.threads[t]? = some l → KInv s l.pc
  treeSub : ∀ id b, cellI s id = .tree b → ∀ j, j < s.heap.length → (nodeAt s.heap j).owner = some b →
    (nodeAt s.heap j).inTree = true → j ∉ chainC s (.tree b) →
    ∃ (t : Nat) (l : Local), s.threads[t]? = some l ∧
      ((∃ g res, l.pc = .tRestructure g b j res) ∨ (∃ g res, l.pc = .tUntreeify g b res))
  chainSub : ∀ id b, cellI s id = .tree b → ∀ j ∈ chainC s (.tree b), (nodeAt s.heap j).inTree = false →
    ∃ (t : Nat) (l : Local) (g : Nat), s.threads[t]? = some l ∧ l.pc = .tTreeLinkLocked g b j

/-- the structural invariant: proved part ∧ part to be proved -/
structure Inv (s : State) : Prop where
  gen : GenInv s
  own : OwnInv s
  rw : RwInv s
  thr : TInv s
  next : NextEmpty s
  heap : HInv s
  plan : PlanInv s
  bits : BitsInv s
  data : DInv s

/-- what is proved of `Inv` so far -/
theorem reachable_inv_proved_part {n : Nat} {s : State} (hr : Reachable n s) :
    GenInv s ∧ OwnInv s ∧ RwInv s ∧ TInv s ∧ NextEmpty s :=
  ⟨reachable_geninv hr, reachable_owninv hr, (reachable_rwinv hr).2, reachable_tinv hr, (reachable_nextEmpty hr).2⟩

end Flurry.Proto.BinGN
