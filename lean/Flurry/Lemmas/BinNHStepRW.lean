import Flurry.Lemmas.BinNHDefs
/-! # Proto/BinNH: what a reader's / writer's transition does to the shared memory

The readers and writers of `Proto/BinNH` take `Proto/BinN`'s transitions literally; `BinN.step_stepK`
dissects them. `RWEff` is all the resizing threads have to know about them: `cur` and `resizing` stay;
a lock word changes only if it was free or the acting thread's own; a cell changes only if it was empty
or its head's mutex is held by the acting thread, and never to a forwarding marker. -/
namespace Flurry.Proto.BinNH
open Flurry.Lin
open Flurry.Proto.BinX (NodeS Cell Pending isReader dflt chainFrom cellHead cellOfHead get_set get_set_self get_set_ne
  cellOfHead_ne_moved)
open Flurry.Proto.BinN (cellAt cellOf putCell setNode allMoved splitBinB bitAt lockAt LockSame GenInv ThrOK isT
  Holds vcell genOfPc cellT StepK tick setT finish)

structure RWEff (n : BinN.State) (t : Nat) (n' : BinN.State) : Prop where
  cur : n'.cur = n.cur
  res : n'.resizing = n.resizing
  tlen : n'.tabs.length = n.tabs.length
  hlen : n.heap.length ≤ n'.heap.length
  locks : ∀ h, h < n.heap.length →
    lockAt n'.heap h = lockAt n.heap h ∨ lockAt n.heap h = none ∨ lockAt n.heap h = some t
  cells : ∀ g j, cellAt n' g j = cellAt n g j ∨
    (cellAt n' g j ≠ .moved ∧ (cellAt n g j = .empty ∨
      ∃ h, cellAt n g j = .node h ∧ h < n.heap.length ∧ lockAt n.heap h = some t))
  thr : ∃ l' : BinN.Local, n'.threads = n.threads.set t l' ∧ ¬ isT l'.pc

theorem rwEff_of {n n' : BinN.State} {t : Nat} {l' : BinN.Local} (hc : n'.cur = n.cur) (hr : n'.resizing = n.resizing)
    (hls : LockSame n.heap n'.heap) (ht : n'.tabs = n.tabs) (hthr : n'.threads = n.threads.set t l')
    (hT : ¬ isT l'.pc) : RWEff n t n' :=
  ⟨hc, hr, by rw [ht], hls.1, fun h hh => Or.inl (hls.2 h hh),
    fun g j => Or.inl (by rw [BinN.cellAt_eq, BinN.cellAt_eq, ht]), l', hthr, hT⟩

theorem rwEff_lock {n n' : BinN.State} {t : Nat} {l' : BinN.Local} {h : Nat} {x : Option Nat}
    (hc : n'.cur = n.cur) (hr : n'.resizing = n.resizing)
    (hheap : n'.heap = n.heap.modify h (fun m => { m with lock := x }))
    (hfree : lockAt n.heap h = none ∨ lockAt n.heap h = some t)
    (ht : n'.tabs = n.tabs) (hthr : n'.threads = n.threads.set t l') (hT : ¬ isT l'.pc) : RWEff n t n' := by
  refine ⟨hc, hr, by rw [ht], by rw [hheap]; simp, ?_, fun g j => Or.inl (by rw [BinN.cellAt_eq, BinN.cellAt_eq, ht]),
    l', hthr, hT⟩
  intro h1 _
  by_cases e : h1 = h
  · subst e; exact Or.inr hfree
  · left; rw [hheap, BinN.lockAt_modify_ne x e]

theorem rwEff_put {n n' : BinN.State} {t : Nat} {l' : BinN.Local} {g j : Nat} {c : Cell}
    (hc : n'.cur = n.cur) (hr : n'.resizing = n.resizing) (hls : LockSame n.heap n'.heap)
    (ht : n'.tabs = n.tabs.modify g (fun row => row.set j c)) (hcm : c ≠ .moved)
    (hold : cellAt n g j = .empty ∨ ∃ h, cellAt n g j = .node h ∧ h < n.heap.length ∧ lockAt n.heap h = some t)
    (hthr : n'.threads = n.threads.set t l') (hT : ¬ isT l'.pc) : RWEff n t n' := by
  refine ⟨hc, hr, by rw [ht]; simp, hls.1, fun h hh => Or.inl (hls.2 h hh), ?_, l', hthr, hT⟩
  intro g1 j1
  rw [BinN.cellAt_eq, BinN.cellAt_eq, ht]
  by_cases e : g1 = g ∧ j1 = j
  · obtain ⟨rfl, rfl⟩ := e
    rcases BinN.cellT_put_self n.tabs g1 j1 c with e | e
    · right; rw [e]; exact ⟨hcm, hold⟩
    · left; exact e
  · left; exact BinN.cellT_put_ne _ _ e

/-- the transitions of a thread with a call in flight, dissected -/
theorem stepK_rwEff {n n' : BinN.State} {t : Nat} {l : BinN.Local} {pick : Nat} (I : GenInv n)
    (hl : n.threads[t]? = some l) (hni : l.pc ≠ .idle) (hnT : ¬ isT l.pc) (hs : StepK n t l pick n') :
    RWEff n t n' := by
  have T := I.thr t l hl
  obtain ⟨pc, call⟩ := l
  simp only at hni hnT
  cases hs with
  | idle hpc => exact absurd hpc hni
  | invoke k op hpc => exact absurd hpc hni
  | resize hpc hr => exact absurd hpc hni
  | move p pc' hp hm =>
    refine rwEff_of rfl rfl (LockSame.refl _) rfl rfl ?_
    cases hm <;> exact fun h => h
  | tmove pc' hp hm => cases hm <;> exact absurd trivial hnT
  | lockMove p h x pc' hp hm =>
    cases hm with
    | @lock g h nd hn hfree =>
      exact rwEff_lock rfl rfl rfl (Or.inl (by rw [BinN.lockAt_of_some hn]; exact hfree)) rfl rfl (fun h => h)
    | @unlockRetry g h res =>
      exact rwEff_lock rfl rfl rfl (Or.inr (T.held h rfl).2) rfl rfl (fun h => h)
  | tlockMove h x pc' hp hm => cases hm <;> exact absurd trivial hnT
  | fin p res hp hf => exact rwEff_of rfl rfl (LockSame.refl _) rfl rfl (fun h => h)
  | cas p g v vi hp hpc hc hop =>
    exact rwEff_put (g := g) (j := p.key % 2 ^ g) (c := .node n.heap.length) rfl rfl (LockSame.append _ _) rfl
      (by simp) (Or.inl hc) rfl (fun h => h)
  | store p g h pred hit hnext hp hpc =>
    simp only at hp hpc
    subst hp hpc
    obtain ⟨e1, e2, e3, -, -, e6, e7⟩ := BinN.storeAt_shape (tick n) g p pred hit hnext
    have hv0 : vcell n.cur { pc := BinN.Pc.wStore g h pred hit hnext, call := some p } = some (g, p.key % 2 ^ g, h) := rfl
    obtain ⟨hcell, -⟩ := T.valid _ _ _ hv0
    have hheld := T.held h rfl
    have hthr : (setT (BinN.storeAt (tick n) g p pred hit hnext).1 t
        { pc := .wUnlock g h (BinN.storeAt (tick n) g p pred hit hnext).2 false, call := some p }).threads =
        n.threads.set t { pc := .wUnlock g h (BinN.storeAt (tick n) g p pred hit hnext).2 false, call := some p } := by
      show (BinN.storeAt _ _ _ _ _ _).1.threads.set _ _ = _; rw [e1]; rfl
    rcases e7 with e7 | ⟨c, hcm, e7⟩
    · exact rwEff_of e2 e3 e6 e7 hthr (fun h => h)
    · exact rwEff_put e2 e3 e6 e7 hcm (Or.inr ⟨h, hcell, hheld.1, hheld.2⟩) hthr (fun h => h)
  | unlockFin p g h res hp hpc =>
    simp only at hp hpc
    subst hp hpc
    exact rwEff_lock rfl rfl rfl (Or.inr (T.held h rfl).2) rfl rfl (fun h => h)
  | casMoved j hp hpc hc => simp only at hpc; subst hpc; exact absurd trivial hnT
  | build j h hp hpc => simp only at hpc; subst hpc; exact absurd trivial hnT
  | storeLow j h lo hg hp hpc => simp only at hpc; subst hpc; exact absurd trivial hnT
  | storeHigh j h hg hp hpc => simp only at hpc; subst hpc; exact absurd trivial hnT
  | storeMoved j h hp hpc => simp only at hpc; subst hpc; exact absurd trivial hnT
  | commit hp hpc => simp only at hpc; subst hpc; exact absurd trivial hnT

/-- a resizing thread that is not the acting reader / writer keeps its invariant -/
theorem HOK.of_rwEff {n n' : BinN.State} {t t1 : Nat} {hp : Helper} (H : HOK n t1 hp) (E : RWEff n t n')
    (hne : t1 ≠ t) : HOK n' t1 hp := by
  refine H.frame E.cur (fun h => by rw [E.res]; exact h) ?_ ?_ ?_
  · intro h hh hlk
    refine ⟨by have := E.hlen; omega, ?_⟩
    rcases E.locks h hh with e | e | e
    · rw [e]; exact hlk
    · rw [e] at hlk; cases hlk
    · rw [e] at hlk; exact absurd (Option.some.inj hlk).symm hne
  · intro j h hc hlk hh
    rcases E.cells hp.g j with e | ⟨-, e | ⟨h', e, -, e'⟩⟩
    · rw [e]; exact hc
    · rw [e] at hc; cases hc
    · rw [e] at hc
      cases hc
      rw [e'] at hlk
      exact absurd (Option.some.inj hlk).symm hne
  · intro g j hm
    rcases E.cells g j with e | ⟨-, e | ⟨h', e, -⟩⟩
    · rw [e]; exact hm
    · rw [e] at hm; cases hm
    · rw [e] at hm; cases hm

end Flurry.Proto.BinNH
