import Flurry.Lemmas.RwLockThms
/-! # Lemmas/RwLockProgress: wake-up progress, token provenance, and concrete runs -/
namespace Flurry.Proto.RwLock
open Flurry.Gen

/-! ## reader steps leave the writer alone -/

theorem stepReader_wpc {s s' : State} {i : Nat} {more : Bool} (hs : stepReader s i more = some s') :
    s'.wpc = s.wpc ∧ s'.waiting = s.waiting ∧ s'.waiterSet = s.waiterSet := by
  simp only [stepReader] at hs
  split at hs
  · simp at hs
  · rename_i pc _
    cases pc <;> simp only [] at hs <;> (repeat' split at hs) <;> simp at hs <;> subst hs <;> simp

/-- runs consisting of reader steps only -/
inductive ReaderRun : State → State → Prop
  | refl (s : State) : ReaderRun s s
  | step {s s' s'' : State} (i : Nat) (more : Bool) :
      ReaderRun s s' → stepReader s' i more = some s'' → ReaderRun s s''

theorem ReaderRun.reachable {n : Nat} {s s' : State} (h : Reachable n s) (r : ReaderRun s s') :
    Reachable n s' := by
  induction r with
  | refl => exact h
  | step i more _ hs ih => exact Reachable.step (.reader i) more ih hs

theorem ReaderRun.wpc {s s' : State} (r : ReaderRun s s') : s'.wpc = s.wpc := by
  induction r with
  | refl => rfl
  | step i more _ hs ih => rw [(stepReader_wpc hs).1, ih]

/-- if the writer is at `park` and the readers run until all of them are idle, the writer has a
token: it cannot sleep forever -/
theorem park_token_when_readers_done {n : Nat} {s s' : State} (h : Reachable n s)
    (hp : s.wpc = .park) (r : ReaderRun s s')
    (hidle : ∀ (i : Nat) (pc : RPc), s'.readers[i]? = some pc → pc = .idle) :
    s'.token = true := by
  have hr := r.reachable h
  have hp' : s'.wpc = .park := by rw [r.wpc, hp]
  have := deadlock_free hr hidle
  cases ht : s'.token with
  | true => rfl
  | false => exact absurd ((stepWriter_eq_none_iff s').mpr ⟨hp', ht⟩) this

/-! ## the measure: stages a reader still has to go through (taking `more = false`) -/

def stagesLeft : RPc → Nat
  | .idle => 0
  | .slow => 1
  | .unpark => 1
  | .loadWaiter => 2
  | .release => 3
  | .tree => 4
  | .cas _ => 5
  | .decide _ => 6
  | .load => 7

def μ (s : State) : Nat := (s.readers.map stagesLeft).sum

theorem sum_map_set (f : RPc → Nat) (rs : List RPc) (i : Nat) (old new : RPc)
    (h : rs[i]? = some old) :
    ((rs.set i new).map f).sum + f old = (rs.map f).sum + f new := by
  induction rs generalizing i with
  | nil => simp at h
  | cons a t ih =>
    cases i with
    | zero =>
      simp at h; subst h
      simp only [List.set_cons_zero, List.map_cons, List.sum_cons]; omega
    | succ j =>
      simp at h; have := ih j h
      simp only [List.set_cons_succ, List.map_cons, List.sum_cons] at this ⊢; omega

/-- every reader step with `more = false` from a non-idle pc strictly decreases `μ`, unless it is
a failed `cas` (the lock word changed since the reader loaded it; it then retries from `load`) -/
theorem wake_progress {s s' : State} {i : Nat} {pc : RPc} (hi : s.readers[i]? = some pc)
    (hne : pc ≠ .idle) (hcas : ∀ st, pc = .cas st → s.lockState = st)
    (hs : stepReader s i false = some s') : μ s' < μ s := by
  rcases s with ⟨ls, ws, tk, wpc, wt, rs⟩
  simp only at hi hcas
  have key := fun new => sum_map_set stagesLeft rs i pc new hi
  simp only [stepReader, hi] at hs
  cases pc <;> simp only [] at hs
  all_goals (repeat' split at hs)
  all_goals (try (simp at hs))
  all_goals (try subst hs)
  all_goals simp only [μ, setReader]
  all_goals (first
    | (exact absurd rfl hne)
    | (have := hcas _ rfl; simp_all; done)
    | (have := key .slow; simp only [stagesLeft] at this; omega)
    | (have := key .idle; simp only [stagesLeft] at this; omega)
    | (have := key .release; simp only [stagesLeft] at this; omega)
    | (have := key .tree; simp only [stagesLeft] at this; omega)
    | (have := key .unpark; simp only [stagesLeft] at this; omega)
    | (have := key .loadWaiter; simp only [stagesLeft] at this; omega)
    | (have := key (.decide ls); simp only [stagesLeft] at this; omega)
    | (rename_i hf; cases hf)
    | (rename_i st _; have := key (.cas st); simp only [stagesLeft] at this; omega))

theorem sum_eq_zero (l : List Nat) (h : l.sum = 0) : ∀ x ∈ l, x = 0 := by
  induction l with
  | nil => simp
  | cons a t ih =>
    simp only [List.sum_cons] at h
    intro x hx
    rcases List.mem_cons.mp hx with hx | hx
    · omega
    · exact ih (by omega) x hx

/-- `μ = 0` means all readers are idle -/
theorem all_idle_of_μ_zero {s : State} (h : μ s = 0) (i : Nat) (pc : RPc)
    (hi : s.readers[i]? = some pc) : pc = .idle := by
  have hm : stagesLeft pc ∈ s.readers.map stagesLeft :=
    List.mem_map.mpr ⟨pc, List.mem_iff_getElem?.mpr ⟨i, hi⟩, rfl⟩
  have : stagesLeft pc = 0 := sum_eq_zero _ h _ hm
  cases pc <;> simp [stagesLeft] at this ⊢

/-! ## 5. where tokens come from -/

/-- a token is only produced by a reader executing its `unpark` -/
theorem token_set_only_by_unpark {s s' : State} {a : Actor} {more : Bool}
    (hs : step s a more = some s') (h0 : s.token = false) (h1 : s'.token = true) :
    ∃ i : Nat, a = .reader i ∧ s.readers[i]? = some .unpark := by
  rcases s with ⟨ls, ws, tk, wpc, wt, rs⟩
  simp only at h0; subst h0
  cases a with
  | writer =>
    simp only [step] at hs
    cases wpc <;> simp only [stepWriter] at hs <;> (repeat' split at hs) <;> simp at hs <;>
      subst hs <;> simp at h1
  | reader i =>
    refine ⟨i, rfl, ?_⟩
    simp only [step, stepReader] at hs
    split at hs
    · simp at hs
    · rename_i pc hget
      cases pc <;> simp only [] at hs <;> (repeat' split at hs) <;> simp at hs <;>
        subst hs <;> simp at h1
      exact hget

/-- a reader reaches `unpark` only from `loadWaiter`, having seen the published handle; the
writer is then really waiting: it set `WAITER` in this lock attempt, published its handle, and has
not yet executed the `swapOut` -/
theorem unpark_only_when_published {n : Nat} {s s' : State} {i : Nat} {more : Bool}
    (h : Reachable n s) (hs : stepReader s i more = some s')
    (hu : s'.readers[i]? = some .unpark) :
    s.readers[i]? = some .loadWaiter ∧ s.waiterSet = true ∧ s.waiting = true ∧
      (s.wpc = .load ∨ (∃ st, s.wpc = .decide st) ∨ (∃ st, s.wpc = .casWriter st) ∨
        s.wpc = .park ∨ s.wpc = .swapOut) := by
  have hws := waiterSet_iff h
  rcases s with ⟨ls, ws, tk, wpc, wt, rs⟩
  simp only [stepReader] at hs
  split at hs
  · simp at hs
  · rename_i pc hget
    have hlt : i < rs.length := by
      rcases Nat.lt_or_ge i rs.length with h | h
      · exact h
      · simp [List.getElem?_eq_none h] at hget
    cases pc <;> simp only [] at hs <;> (repeat' split at hs) <;> simp at hs <;> subst hs <;>
      simp [setReader, hlt] at hu
    all_goals simp_all

/-- a reader reaches `loadWaiter` only as the last reader out under a set `WAITER` bit -/
theorem loadWaiter_only_last_reader {n : Nat} {s s' : State} {i : Nat} {more : Bool}
    (h : Reachable n s) (hs : stepReader s i more = some s')
    (hu : s'.readers[i]? = some .loadWaiter) :
    s.readers[i]? = some .release ∧ s.lockState = READER + WAITER ∧ waiterBit s = true ∧
      numHolding s.readers = 1 ∧ numHolding s'.readers = 0 := by
  have hl := (inv_of_reachable h).lock
  rcases s with ⟨ls, ws, tk, wpc, wt, rs⟩
  simp only [stepReader] at hs
  split at hs
  · simp at hs
  · rename_i pc hget
    simp only at hget hl
    have hlt : i < rs.length := by
      rcases Nat.lt_or_ge i rs.length with h | h
      · exact h
      · simp [List.getElem?_eq_none h] at hget
    have e1 := fun new => cnt_set_eq holdsRead rs i pc new hget
    have g1 := cnt_ge holdsRead rs i pc hget
    cases pc <;> simp only [] at hs <;> (repeat' split at hs) <;> simp at hs <;> subst hs <;>
      simp [setReader, hlt] at hu
    rename_i h6
    simp only [beq_iff_eq] at h6
    refine ⟨hget, h6, ?_⟩
    simp only [setReader, numHolding_eq_cnt, e1, holdsRead] at g1 ⊢
    cases wpc <;> cases wt <;> simp [wBits, waiterBit, READER, WAITER, WRITER] at hl h6 g1 ⊢ <;> omega

end Flurry.Proto.RwLock
