import Flurry.Lemmas.BinGStore
import Flurry.Lemmas.BinGLock
import Flurry.Lemmas.BinGFacts
import Flurry.Lemmas.BinGGhostL
/-! # Proto/BinG: shared assembly lemmas for the writer / treeify stores

What the per-transition "facts" proofs of the stores (`cas`, `store`, `tval`, `prepend`, `treeLink`, `unlink`,
`untree`, `untreeify`, `kstore`, and the allocation `kbuild`) share.

* the frame of ONE structure: `FrameC s s' C` (list, start, nodes of the list, the `TreeBin` and all nodes owned
  by it are untouched); makers `Touch.frameC`, `Touch.frame_cell` (another cell, under `Writable`),
  `Touch.frame_priv` (the private `TreeBin` of a treeify), `frameC_grow` (an allocation); consumers
  `FrameC.treeOf_iff`, `FrameC.cinv`, `FrameC.tree_node`, `FrameC.chainOfBin`, `Walk.frame`, `FreshOK.frame`,
  `RemOK.frame`, `PcInv.frame`, `CopyOK.frame`, `Plan.frame`.
* (a) `Inv.writable_valid`, `Inv.writable_empty` (via `Inv.no_planner`, `Inv.writable_of`; `InvW.planPc`: the
  program counters `xStoreLow/High/Moved`; `LInv.valid_cell`).
* (b) `pcInv_other`, `kInv_other`, `Inv.kStore_bins_ne` (two treeify threads have different private `TreeBin`s —
  derivable from `Inv`: both lists would have to hold the same keys, but they are in cells of different sides).
* (c) `xinv_store`, `inv_store`; `inv_grow` (the allocation `kBuild`, no `Writable` needed).
* (d) `Touch.own_frame`, `absTree_frame`, `Writable.liveBin`, `eff_store`.
Generic helper lemmas live in the namespace `Flurry.Proto.BinG.InvW` (opened here): `planPc`, `planPc_of_pend`,
`planPc_of_lowStored`, `planPc_of_highStored`, `planPc_facts`, `xPc_of_planPc`, `XPc_of_not_plan`,
`cidOf_of_tabOf_none`, `tabOf_new_of_cidOf`, `KInv_of_not_kStore`, `xPc_of_xPre`, `pend_ne_nil_of_planPc`,
`planPc_false_of_xPc`, `range_split`, `find?_congr_mem`, `treeFind_spec`.

## Deviations from the brief
* `PcInv.frame` is stated with `FrameC` of the structure the program counter is validated for (`hL`, `hT`) instead
  of a disjointness hypothesis, so that the same lemma serves `Touch` (`pcInv_other`) and allocations (`inv_grow`).
* `kInv_other`: `hcells : ∀ tab k h b, l1.pc = .kStore tab k h b → cellAt s' id ≠ .tree b` (the only cell that
  changes is `id`), and `hok' : NextOK s'.heap` instead of `HInv s'`.
* `inv_store`: `hx : xPc l.pc = false` is not needed (dropped); the CAS disjunct of `hv` is
  `cellAt s id = .empty ∧ validT l.pc = none`; `hkother` is DERIVED from the new hypothesis
  `hcell' : ∀ b, cellAt s' id = .tree b → cellAt s id = .tree b ∨ ∃ tab k h, l.pc = .kStore tab k h b`
  (`kInv_other` + `Inv.kStore_bins_ne`); `hnm : cellAt s' id ≠ .moved` is a hypothesis. Nothing about (b)/(c) had to
  be assumed beyond `Inv s`.
* `eff_store`: `hfirst` and `htreeb` are weakened to what a store has to show about the bin of `id` only
  (`cellAt s id = .tree b → … ≠ … → cellAt s' id = .tree b`); `liveId s k = id` is derived (`HInv.side`);
  additional hypothesis `hnm : cellAt s' id ≠ .moved`. -/
namespace Flurry.Proto.BinG
open Flurry.Lin
open Flurry.Proto.BinK (nodeAt binAt NextOK IsChain IsSeg chainOf CInv absL HeapStep getElem?_nodeAt nodeAt_of_some
  chainOf_eq chainOf_isChain get_set get_set_self get_set_ne)
open Store

/-! ## the frame of one structure -/

/-- the structure `C` (its list, its `TreeBin`, the nodes owned by its `TreeBin`) is untouched by `s → s'` -/
structure FrameC (s s' : State) (C : Cell) : Prop where
  chain : chainC s' C = chainC s C
  start : startOf s'.tbins C = startOf s.tbins C
  node : ∀ j ∈ chainC s C, nodeAt s'.heap j = nodeAt s.heap j
  lt : ∀ j ∈ chainC s C, j < s.heap.length
  own : ∀ b, C = .tree b → b < s.tbins.length ∧ binAt s'.tbins b = binAt s.tbins b ∧
    (∀ j, j < s.heap.length → ((nodeAt s.heap j).owner = some b ∨ (nodeAt s'.heap j).owner = some b) →
      nodeAt s'.heap j = nodeAt s.heap j) ∧
    (∀ j, s.heap.length ≤ j → (nodeAt s'.heap j).owner ≠ some b)

theorem FrameC.treeOf_iff {s s' : State} {C : Cell} (F : FrameC s s' C) (hlen : s.heap.length ≤ s'.heap.length) (j : Nat) :
    treeOf s' C j ↔ treeOf s C j := by
  constructor
  · rintro ⟨h1, h2, b, rfl, h3⟩
    obtain ⟨_, _, f1, f2⟩ := F.own b rfl
    by_cases hj : j < s.heap.length
    · have := f1 j hj (Or.inr h3)
      rw [this] at h2 h3
      exact ⟨hj, h2, b, rfl, h3⟩
    · exact absurd h3 (f2 j (by omega))
  · rintro ⟨h1, h2, b, rfl, h3⟩
    obtain ⟨_, _, f1, _⟩ := F.own b rfl
    have := f1 j h1 (Or.inl h3)
    exact ⟨by omega, by rw [this]; exact h2, b, rfl, by rw [this]; exact h3⟩

theorem FrameC.cinv {s s' : State} {C : Cell} (F : FrameC s s' C) (hok' : NextOK s'.heap)
    (hlen : s.heap.length ≤ s'.heap.length) (h : CInv s.heap (startOf s.tbins C) (treeOf s C)) :
    CInv s'.heap (startOf s'.tbins C) (treeOf s' C) := by
  rw [F.start]
  refine (cinv_frame h hok' hlen ?_ ?_).1
  · intro j hj
    rw [F.node j hj]; exact ⟨rfl, rfl⟩
  · intro j hj
    have h1 := (F.treeOf_iff hlen j).1 hj
    refine ⟨h1, ?_⟩
    obtain ⟨hjl, _, b, rfl, h3⟩ := h1
    rw [(F.own b rfl).2.2.1 j hjl (Or.inl h3)]

/-- `Touch`: a structure that shares neither a node nor a `TreeBin` with the structure of `id` -/
theorem Touch.frameC {s s' : State} {id : Cid} (T : Touch s s' id) (H : HInv s) (hok' : NextOK s'.heap) {C : Cell}
    (hst : ∀ h, startOf s.tbins C = some h → h < s.heap.length)
    (hdisj : ∀ j ∈ chainC s C, j ∉ chainC s (cellAt s id) ∧ ¬ treeOf s (cellAt s id) j)
    (hbin : ∀ b, C = .tree b → cellAt s id ≠ .tree b ∧ b < s.tbins.length) : FrameC s s' C := by
  obtain ⟨hc, hn⟩ := T.chain_frame H hok' hst hdisj hbin
  refine ⟨hc, T.startOf_eq hbin, hn, (chainOf_isChain H.nextOK _ hst).lt_length, ?_⟩
  intro b hb
  obtain ⟨hne, hbl⟩ := hbin b hb
  refine ⟨hbl, T.bin b hbl hne, ?_, ?_⟩
  · intro j hj ho
    have ho' : (nodeAt s.heap j).owner = some b := by
      rcases ho with ho | ho
      · exact ho
      · rw [← (T.keep j hj).2.1]; exact ho
    refine T.node j hj ?_ ?_
    · intro hc'
      have := H.chainOwner id j hc'
      rw [ho'] at this
      exact hne (ownerOf_eq_some.1 this.symm)
    · intro ht
      have := treeOf_owner ht
      rw [ho'] at this
      exact hne (ownerOf_eq_some.1 this.symm)
  · intro j hj ho
    rcases T.newOwner j hj b ho with h | h
    · exact hne h
    · omega

/-- an allocation: every structure that exists is untouched -/
theorem frameC_grow {s s' : State} (hok : NextOK s.heap) (hok' : NextOK s'.heap) (hlen : s.heap.length ≤ s'.heap.length)
    (hold : ∀ j, j < s.heap.length → nodeAt s'.heap j = nodeAt s.heap j)
    (hbin : ∀ b, b < s.tbins.length → binAt s'.tbins b = binAt s.tbins b)
    (hno : ∀ j, s.heap.length ≤ j → ∀ b, (nodeAt s'.heap j).owner = some b → s.tbins.length ≤ b) {C : Cell}
    (hst : ∀ h, startOf s.tbins C = some h → h < s.heap.length) (hb : ∀ b, C = .tree b → b < s.tbins.length) :
    FrameC s s' C := by
  obtain ⟨h1, h2⟩ := chainC_grow hok hok' hlen hold hbin hst hb
  have hlt := (chainOf_isChain hok _ hst).lt_length
  refine ⟨h2, h1, fun j hj => hold j (hlt j hj), hlt, ?_⟩
  intro b hC
  refine ⟨hb b hC, hbin b (hb b hC), fun j hj _ => hold j hj, ?_⟩
  intro j hj ho
  have := hno j hj b ho
  have := hb b hC
  omega

/-! ## what program counters know, framed -/

theorem Walk.frame {s s' : State} {h key : Nat} {pred cur : Option Nat} (F : FrameC s s' (.list h))
    (w : Walk s h key pred cur) : Walk s' h key pred cur := by
  obtain ⟨l1, l2, h1, h2, h3, h4⟩ := w
  have hc : chainOf s'.heap (some h) = chainOf s.heap (some h) := F.chain
  refine ⟨l1, l2, by rw [hc]; exact h1, h2, h3, ?_⟩
  intro j hj
  have : j ∈ chainC s (.list h) := by
    show j ∈ chainOf s.heap (some h)
    rw [h1]; exact List.mem_append_left _ hj
  rw [F.node j this]; exact h4 j hj

theorem FreshOK.frame {s s' : State} {b : Nat} {p : Pending} (F : FrameC s s' (.tree b)) (h : FreshOK s b p) :
    FreshOK s' b p := by
  obtain ⟨_, _, f1, f2⟩ := F.own b rfl
  intro j _ ho hin
  by_cases hjl : j < s.heap.length
  · have e := f1 j hjl (Or.inr ho)
    rw [e] at ho hin ⊢
    exact h j hjl ho hin
  · exact absurd ho (f2 j (by omega))

theorem FrameC.chainOfBin {s s' : State} {b : Nat} (F : FrameC s s' (.tree b)) : chainOfBin s' b = chainOfBin s b := F.chain

theorem RemOK.frame {s s' : State} {b : Nat} {p : Pending} {i : Nat} {res : KRes} (F : FrameC s s' (.tree b))
    (h : RemOK s b p i res) : RemOK s' b p i res := by
  obtain ⟨h1, h2, h3, h4⟩ := h
  have e := F.node i h1
  exact ⟨by rw [F.chainOfBin]; exact h1, by rw [e]; exact h2, by rw [e]; exact h3, by rw [e]; exact h4⟩

/-- what a program counter knows survives if the structure it is validated for is framed -/
theorem PcInv.frame {s s' : State} {p : Pending} {pc : Pc} (hlen : s.heap.length ≤ s'.heap.length) (h : PcInv s p pc)
    (hL : ∀ h, validL pc = some h → FrameC s s' (.list h))
    (hT : ∀ b, validT pc = some b → FrameC s s' (.tree b)) : PcInv s' p pc := by
  cases pc <;> simp only [PcInv] at h ⊢
  case rNode cur =>
    cases cur with
    | none => trivial
    | some c => exact Nat.lt_of_lt_of_le h hlen
  case rState b cur =>
    cases cur with
    | none => trivial
    | some c => exact Nat.lt_of_lt_of_le h hlen
  case rLin b c => omega
  case rCas b c r => omega
  case rVal i => exact h
  case lNode cur =>
    cases cur with
    | none => trivial
    | some c => exact Nat.lt_of_lt_of_le h hlen
  case wFind tab h0 pred cur => exact Walk.frame (hL h0 rfl) h
  case wStore tab h0 pred hit hnext =>
    have F := hL h0 rfl
    refine ⟨Walk.frame F h.1, ?_⟩
    intro i hi
    obtain ⟨l1, l2, w1, w2, _, _⟩ := h.1
    have hic : i ∈ chainC s (.list h0) := by
      show i ∈ chainOf s.heap (some h0)
      rw [w1]
      subst hi
      cases l2 with
      | nil => cases w2
      | cons a l2' =>
        simp only [List.head?_cons, Option.some.injEq] at w2
        subst w2; simp
    rw [F.node i hic]; exact h.2 i hi
  case tVal tab b i v res =>
    have F := hT b rfl
    have e := F.node i h.1
    exact ⟨by rw [F.chainOfBin]; exact h.1, by rw [e]; exact h.2.1, by rw [e]; exact h.2.2⟩
  case lrTry tab b k res =>
    cases k with
    | insert => exact FreshOK.frame (hT b rfl) h
    | remove i => exact RemOK.frame (hT b rfl) h
  case lrLoop tab b k res =>
    cases k with
    | insert => exact FreshOK.frame (hT b rfl) h
    | remove i => exact RemOK.frame (hT b rfl) h
  case tPrependLocked tab b => exact FreshOK.frame (hT b rfl) h
  case tTreeLinkLocked tab b x =>
    have F := hT b rfl
    have e := F.node x h.1
    exact ⟨by rw [F.chainOfBin]; exact h.1, by rw [e]; exact h.2.1, by rw [e]; exact h.2.2.1, FreshOK.frame F h.2.2.2⟩
  case tUnlinkLocked tab b i res => exact RemOK.frame (hT b rfl) h
  case tRestructure tab b i res =>
    have F := hT b rfl
    obtain ⟨h1, h2, h3, h4⟩ := h
    have e := (F.own b rfl).2.2.1 i h3 (Or.inl h4)
    exact ⟨by rw [F.chainOfBin]; exact h1, by rw [e]; exact h2, by omega, by rw [e]; exact h4⟩

theorem FrameC.tree_node {s s' : State} {C : Cell} (F : FrameC s s' C) {j : Nat} (h : treeOf s C j) :
    nodeAt s'.heap j = nodeAt s.heap j := by
  obtain ⟨hjl, _, b, rfl, h3⟩ := h
  exact (F.own b rfl).2.2.1 j hjl (Or.inl h3)

/-- a copy relation survives if both structures are framed -/
theorem CopyOK.frame {s s' : State} {old : Cell} {sel : Nat → Bool} {C : Cell} (hok' : NextOK s'.heap)
    (hlen : s.heap.length ≤ s'.heap.length) (htl : s.tbins.length ≤ s'.tbins.length)
    (Fo : FrameC s s' old) (Fc : FrameC s s' C) (h : CopyOK s old sel C) : CopyOK s' old sel C := by
  have eO := Fo.chain
  have eC := Fc.chain
  refine ⟨h.notMoved, Fc.cinv hok' hlen h.cinv, ?_, ?_, ?_, ?_, ?_, ?_, ?_, ?_⟩
  · intro b hb
    have := h.cellOK b hb
    omega
  · intro j hj
    rw [eC] at hj
    rw [Fc.node j hj]; exact h.chainOwner j hj
  · intro j hj
    rcases hj with hj | hj
    · rw [eC] at hj
      rw [Fc.node j hj]; exact h.selOK j (Or.inl hj)
    · have hj' := (Fc.treeOf_iff hlen j).1 hj
      rw [Fc.tree_node hj']; exact h.selOK j (Or.inr hj')
  · intro j hj hjo
    rw [eC] at hj
    rw [eO] at hjo
    obtain ⟨i, hi1, hi2, hi3, hi4⟩ := h.src j hj hjo
    refine ⟨i, by rw [eO]; exact hi1, by rw [Fo.node i hi1, Fc.node j hj]; exact hi2,
      by rw [Fo.node i hi1, Fc.node j hj]; exact hi3, ?_⟩
    intro r hr hrc
    rw [eO] at hr ⊢
    rw [eC] at hrc
    exact hi4 r hr hrc
  · intro i hi1 hsel
    rw [eO] at hi1
    rw [Fo.node i hi1] at hsel
    obtain ⟨j, hj1, hj2, hj3, hj4⟩ := h.cover i hi1 hsel
    refine ⟨j, by rw [eC]; exact hj1, by rw [Fo.node i hi1, Fc.node j hj1]; exact hj2,
      by rw [Fo.node i hi1, Fc.node j hj1]; exact hj3, ?_⟩
    rw [eO]; exact hj4
  · intro r hr hrc i hi1 hsub
    rw [eO] at hr hi1 hsub
    rw [eC] at hrc ⊢
    exact h.suffix r hr hrc i hi1 hsub
  · intro i c hi1 hc hsub
    rw [eO] at hi1 hc ⊢
    rw [eC] at hsub
    exact h.order i c hi1 hc hsub
  · intro b hCb hob
    obtain ⟨f1, f2, f3⟩ := h.fresh b hCb hob
    obtain ⟨_, g1, g2, g3⟩ := Fc.own b hCb
    refine ⟨by rw [g1]; exact f1, ?_, ?_⟩
    · intro j hj
      rw [eC]
      by_cases hjl : j < s.heap.length
      · rw [← f2 j hjl]
        constructor
        · intro ho; rw [← g2 j hjl (Or.inr ho)]; exact ho
        · intro ho; rw [g2 j hjl (Or.inl ho)]; exact ho
      · constructor
        · intro ho; exact absurd ho (g3 j (by omega))
        · intro hc; exact absurd (Fc.lt j hc) hjl
    · intro j hj
      rw [eC] at hj
      rw [Fc.node j hj]; exact f3 j hj

/-! ## (a) `Writable` from the invariant -/

namespace InvW

/-- the resizing thread has built (or partly stored) the new structures and not yet stored the marker -/
def planPc : Pc → Bool
  | .xStoreLow _ _ _ | .xStoreHigh _ _ | .xStoreMoved _ => true
  | _ => false

theorem planPc_of_pend {s : State} {pc : Pc} (hx : xPc pc = true) (hp : pend s pc ≠ []) : planPc pc = true := by
  cases pc <;> simp [xPc] at hx <;> simp [pend] at hp <;> rfl

theorem planPc_of_lowStored {pc : Pc} (h : lowStored pc = true) : planPc pc = true := by
  cases pc <;> simp [lowStored] at h <;> rfl

theorem planPc_of_highStored {pc : Pc} (h : highStored pc = true) : planPc pc = true := by
  cases pc <;> simp [highStored] at h <;> rfl

theorem planPc_facts {pc : Pc} (h : planPc pc = true) :
    xPc pc = true ∧ xPre pc = true ∧ tabOf pc = none ∧ validated pc = true := by
  cases pc with
  | xStoreLow unl lo hi => cases unl <;> simp [xPc, xPre, tabOf, validated, validL, validT, unlL, unlT]
  | xStoreHigh unl hi => cases unl <;> simp [xPc, xPre, tabOf, validated, validL, validT, unlL, unlT]
  | xStoreMoved unl => cases unl <;> simp [xPc, xPre, tabOf, validated, validL, validT, unlL, unlT]
  | _ => simp [planPc] at h

theorem xPc_of_planPc {pc : Pc} (h : planPc pc = true) : xPc pc = true := (planPc_facts h).1

theorem XPc_of_not_plan {s : State} {pc : Pc} (h : planPc pc = false) : XPc s pc := by
  cases pc <;> simp [planPc] at h <;> trivial

theorem cidOf_of_tabOf_none {l : Local} (h : tabOf l.pc = none) : cidOf l = .c0 := by
  unfold cidOf; rw [h]

theorem tabOf_new_of_cidOf {l : Local} (h : cidOf l ≠ .c0) : tabOf l.pc = some .new := by
  unfold cidOf at h
  cases ht : tabOf l.pc with
  | none => rw [ht] at h; exact absurd rfl h
  | some tab =>
    cases tab with
    | new => rfl
    | old => rw [ht] at h; exact absurd rfl h

end InvW
open InvW

/-- the cell a validated thread works in holds a list or a tree bin -/
theorem LInv.valid_cell {s : State} (L : LInv s) {t : Nat} {l : Local} (hl : s.threads[t]? = some l)
    (hv : validated l.pc = true) : (∃ h, cellAt s (cidOf l) = .list h) ∨ (∃ b, cellAt s (cidOf l) = .tree b) := by
  rcases validated_cases hv with ⟨a, ha⟩ | ⟨b, hb⟩
  · exact Or.inl ⟨a, L.vL t l a hl ha⟩
  · exact Or.inr ⟨b, L.vT t l b hl hb⟩

/-- while a thread is validated in `id` (and is not the resizing thread), or `id` is empty, and a new cell `id` is
only used after the forwarding: the resizing thread is not between its build step and the forwarding store -/
theorem Inv.no_planner {s : State} {id : Cid} {t : Nat} {l : Local} (I : Inv s) (hl : s.threads[t]? = some l)
    (hv : (validated l.pc = true ∧ cidOf l = id ∧ xPc l.pc = false) ∨ cellAt s id = .empty)
    (hmv : id ≠ .c0 → s.cell0 = .moved) {t' : Nat} {l' : Local} (hl' : s.threads[t']? = some l')
    (hp : planPc l'.pc = true) : False := by
  obtain ⟨hxp, hpre, htab, hval⟩ := planPc_facts hp
  have hnm := I.rsz.pre t' l' hl' hpre
  have hc0 := cidOf_of_tabOf_none htab
  by_cases hid : id = .c0
  · subst hid
    rcases hv with ⟨hv, hcid, hnx⟩ | he
    · have : t' = t := I.lock.valid_unique hl' hl hval hv (by rw [hc0, hcid])
      subst this
      rw [hl] at hl'; cases hl'
      rw [hxp] at hnx; cases hnx
    · rcases I.lock.valid_cell hl' hval with ⟨a, ha⟩ | ⟨b, hb⟩
      · rw [hc0, he] at ha; cases ha
      · rw [hc0, he] at hb; cases hb
  · exact hnm (hmv hid)

theorem Inv.writable_of {s : State} {id : Cid} (I : Inv s) (hmv : id ≠ .c0 → s.cell0 = .moved)
    (h0 : id = .c0 → s.cell0 ≠ .moved)
    (hnp : ∀ (t' : Nat) (l' : Local), s.threads[t']? = some l' → planPc l'.pc = true → False) : Writable s id := by
  constructor
  · by_cases hid : id = .c0
    · left
      refine ⟨hid, h0 hid, I.rsz.lowEmpty (h0 hid) ?_, I.rsz.highEmpty (h0 hid) ?_⟩
      · intro t' l' hl'
        cases hs : lowStored l'.pc with
        | false => rfl
        | true => exact (hnp t' l' hl' (planPc_of_lowStored hs)).elim
      · intro t' l' hl'
        cases hs : highStored l'.pc with
        | false => rfl
        | true => exact (hnp t' l' hl' (planPc_of_highStored hs)).elim
    · exact Or.inr ⟨hid, hmv hid⟩
  · intro t' l' hl' hx
    apply Classical.byContradiction
    intro hne
    exact hnp t' l' hl' (planPc_of_pend hx hne)

/-- a validated thread (other than the resizing thread) may store into the structure of its cell -/
theorem Inv.writable_valid {s : State} {t : Nat} {l : Local} (I : Inv s) (hl : s.threads[t]? = some l)
    (hv : validated l.pc = true) (hnx : xPc l.pc = false) : Writable s (cidOf l) := by
  have hmv : cidOf l ≠ .c0 → s.cell0 = .moved := fun h => I.rsz.tabNew t l hl (tabOf_new_of_cidOf h)
  refine I.writable_of hmv ?_ (fun t' l' hl' hp => I.no_planner hl (Or.inl ⟨hv, rfl, hnx⟩) hmv hl' hp)
  intro h0 hm
  rcases I.lock.valid_cell hl hv with ⟨a, ha⟩ | ⟨b, hb⟩
  · rw [h0] at ha
    have : s.cell0 = .list a := ha
    rw [hm] at this; cases this
  · rw [h0] at hb
    have : s.cell0 = .tree b := hb
    rw [hm] at this; cases this

/-- the CAS into an empty cell -/
theorem Inv.writable_empty {s : State} {t : Nat} {l : Local} {p : Pending} {tab : Tab} (I : Inv s)
    (hl : s.threads[t]? = some l) (_hp : l.call = some p) (hpc : l.pc = .wCas tab)
    (he : cellOf s tab p.key = .empty) : Writable s (idOf tab p.key) := by
  rw [cellOf_eq] at he
  have hmv : idOf tab p.key ≠ .c0 → s.cell0 = .moved := by
    intro h
    refine I.rsz.tabNew t l hl ?_
    rw [hpc]
    cases tab with
    | new => rfl
    | old => exact absurd rfl h
  refine I.writable_of hmv ?_ (fun t' l' hl' hp' => I.no_planner hl (Or.inr he) hmv hl' hp')
  intro h0 hm
  rw [h0] at he
  have : s.cell0 = .empty := he
  rw [hm] at this; cases this

/-! ## (b) what the other threads know survives a store into the structure of `id` -/

/-- the structure in another cell is framed -/
theorem Touch.frame_cell {s s' : State} {id : Cid} (T : Touch s s' id) (H : HInv s) (W : Writable s id)
    (hok' : NextOK s'.heap) {id' : Cid} (hne : id' ≠ id) : FrameC s s' (cellAt s id') :=
  T.frameC H hok' (H.cinv id').startOK (fun _ hj => W.chain_disj H hne hj)
    (fun b hb => ⟨W.tree_ne H hne hb, H.cellOK id' b hb⟩)

/-- a thread that is not validated in `id` keeps what its program counter knows -/
theorem pcInv_other {s s' : State} {id : Cid} {t1 : Nat} {l1 : Local} {p1 : Pending} (I : Inv s) (W : Writable s id)
    (T : Touch s s' id) (hok' : NextOK s'.heap) (h1 : s.threads[t1]? = some l1) (hc1 : l1.call = some p1)
    (hnv : cidOf l1 = id → validL l1.pc = none ∧ validT l1.pc = none) : PcInv s' p1 l1.pc := by
  refine PcInv.frame T.len (I.data.pcInv t1 l1 p1 h1 hc1) ?_ ?_
  · intro h hv
    have hne : cidOf l1 ≠ id := fun e => by have := (hnv e).1; rw [hv] at this; cases this
    have := T.frame_cell I.heap W hok' hne
    rw [I.lock.vL t1 l1 h h1 hv] at this; exact this
  · intro b hv
    have hne : cidOf l1 ≠ id := fun e => by have := (hnv e).2; rw [hv] at this; cases this
    have := T.frame_cell I.heap W hok' hne
    rw [I.lock.vT t1 l1 b h1 hv] at this; exact this

namespace InvW

theorem KInv_of_not_kStore {s : State} {pc : Pc} (h : ∀ tab k h b, pc ≠ .kStore tab k h b) : KInv s pc := by
  cases pc <;> first | trivial | exact absurd rfl (h _ _ _ _)

end InvW
open InvW

/-- the private `TreeBin` of a treeify is framed by a transition that touches the structure of a cell only -/
theorem Touch.frame_priv {s s' : State} {id : Cid} (T : Touch s s' id) (H : HInv s) (hok' : NextOK s'.heap)
    {old : Cell} {sel : Nat → Bool} {b : Nat} (hcp : CopyOK s old sel (.tree b)) (hnc : cellAt s id ≠ .tree b) :
    FrameC s s' (.tree b) := by
  refine T.frameC H hok' hcp.cinv.startOK ?_ ?_
  · intro j hj
    have ho : (nodeAt s.heap j).owner = some b := hcp.chainOwner j hj
    constructor
    · intro hc
      have := H.chainOwner id j hc
      rw [ho] at this
      exact hnc (ownerOf_eq_some.1 this.symm)
    · intro ht
      have := treeOf_owner ht
      rw [ho] at this
      exact hnc (ownerOf_eq_some.1 this.symm)
  · intro b' hb'
    cases hb'
    exact ⟨hnc, hcp.cellOK b rfl⟩

/-- a treeify thread that is not validated in `id` keeps its private copy; `hcells`: its `TreeBin` is not stored
into `id` -/
theorem kInv_other {s s' : State} {id : Cid} {t1 : Nat} {l1 : Local} (I : Inv s) (W : Writable s id)
    (T : Touch s s' id) (hok' : NextOK s'.heap) (h1 : s.threads[t1]? = some l1)
    (hnv : cidOf l1 = id → validL l1.pc = none ∧ validT l1.pc = none)
    (hcells : ∀ tab k h b, l1.pc = .kStore tab k h b → cellAt s' id ≠ .tree b) : KInv s' l1.pc := by
  by_cases hks : ∃ tab k h b, l1.pc = .kStore tab k h b
  · obtain ⟨tab, k, h, b, hpc⟩ := hks
    have hk := I.data.kInv t1 l1 h1
    have hv : validL l1.pc = some h := by rw [hpc]; rfl
    have hne : cidOf l1 ≠ id := fun e => by have := (hnv e).1; rw [hv] at this; cases this
    have hcell := I.lock.vL t1 l1 h h1 hv
    have hnb := hcells tab k h b hpc
    rw [hpc] at hk ⊢
    simp only [KInv] at hk ⊢
    have Fo := T.frame_cell I.heap W hok' hne
    rw [hcell] at Fo
    have Fc := T.frame_priv I.heap hok' hk.1 (hk.2 id)
    refine ⟨CopyOK.frame hok' T.len T.tlen Fo Fc hk.1, ?_⟩
    intro id0
    by_cases h0 : id0 = id
    · subst h0; exact hnb
    · rw [T.cells id0 h0]; exact hk.2 id0
  · exact KInv_of_not_kStore (fun tab k h b e => hks ⟨tab, k, h, b, e⟩)

/-- two treeify threads have different private `TreeBin`s -/
theorem Inv.kStore_bins_ne {s : State} {t t1 : Nat} {l l1 : Local} {tab tab1 : Tab} {k k1 h h1 b b1 : Nat} (I : Inv s)
    (hl : s.threads[t]? = some l) (hl1 : s.threads[t1]? = some l1) (hne : t1 ≠ t)
    (hpc : l.pc = .kStore tab k h b) (hpc1 : l1.pc = .kStore tab1 k1 h1 b1) : b1 ≠ b := by
  rintro rfl
  have H := I.heap
  have hv : validL l.pc = some h := by rw [hpc]; rfl
  have hv1 : validL l1.pc = some h1 := by rw [hpc1]; rfl
  have hx : xPc l.pc = false := by rw [hpc]; rfl
  have hcell := I.lock.vL t l h hl hv
  have hcell1 := I.lock.vL t1 l1 h1 hl1 hv1
  have hk := I.data.kInv t l hl
  have hk1 := I.data.kInv t1 l1 hl1
  rw [hpc] at hk
  rw [hpc1] at hk1
  simp only [KInv] at hk hk1
  by_cases hid : cidOf l1 = cidOf l
  · exact hne (I.lock.valid_unique hl1 hl (validated_of_validL hv1) (validated_of_validL hv) hid)
  · have W := I.writable_valid hl (validated_of_validL hv) hx
    rcases W.other_cases hid with he | he | ⟨h0, h0', hs⟩
    · rw [he] at hcell1; cases hcell1
    · rw [he] at hcell1; cases hcell1
    · -- the head of the list of `l1` has a copy in `b1`, which has a source on the list of `l`
      have hch1 := (H.cinv (cidOf l1)).isChain
      rw [hcell1] at hch1
      obtain ⟨r, hr⟩ := Flurry.Proto.BinK.IsChain.start_some hch1
      have hh1 : h1 ∈ chainC s (.list h1) := by
        show h1 ∈ chainOf s.heap (startOf s.tbins (.list h1))
        rw [hr]; simp
      obtain ⟨j, hj, hjk, -⟩ := hk1.1.cover h1 hh1 rfl
      have hjo : (nodeAt s.heap j).owner = some b1 := hk.1.chainOwner j hj
      have hjn : j ∉ chainC s (.list h) := by
        intro hc
        have := H.chainOwner (cidOf l) j (by rw [hcell]; exact hc)
        rw [hjo, hcell] at this
        cases this
      obtain ⟨i, hi, hik, -⟩ := hk.1.src j hj hjn
      have s1 := H.side (cidOf l1) h0' h1 (Or.inl (by rw [hcell1]; exact hh1))
      have s2 := H.side (cidOf l) h0 i (Or.inl (by rw [hcell]; exact hi))
      rw [hik, hjk, s1, hs] at s2
      cases hb : sideOf (cidOf l) <;> simp [hb] at s2

/-! ## (c) assembling `Inv s'` -/

namespace InvW

theorem xPc_of_xPre {pc : Pc} (h : xPre pc = true) : xPc pc = true := by
  cases pc <;> simp [xPre] at h <;> rfl

theorem pend_ne_nil_of_planPc {s : State} {pc : Pc} (h : planPc pc = true) : pend s pc ≠ [] := by
  cases pc <;> simp [planPc] at h <;> simp [pend]

end InvW
open InvW

theorem Writable.not_planPc {s : State} {id : Cid} (W : Writable s id) {t1 : Nat} {l1 : Local}
    (h1 : s.threads[t1]? = some l1) : planPc l1.pc = false := by
  cases hp : planPc l1.pc with
  | false => rfl
  | true => exact absurd (W.noPlan t1 l1 h1 (xPc_of_planPc hp)) (pend_ne_nil_of_planPc hp)

namespace InvW

theorem planPc_false_of_xPc {pc : Pc} (h : xPc pc = false) : planPc pc = false := by
  cases hp : planPc pc with
  | false => rfl
  | true => rw [xPc_of_planPc hp] at h; cases h

end InvW
open InvW

/-- `XInv` after a step of a thread that is not the resizing thread, while no plan is pending, that neither sets
nor clears the forwarding marker -/
theorem xinv_store {s s' : State} {id : Cid} {t : Nat} {l l' : Local} (I : Inv s) (W : Writable s id)
    (hl : s.threads[t]? = some l) (hthr : s'.threads = s.threads.set t l')
    (hcells : ∀ id', id' ≠ id → cellAt s' id' = cellAt s id') (hnm : cellAt s' id ≠ .moved)
    (hres : s'.resizing = s.resizing) (hx' : xPc l'.pc = false)
    (htab : tabOf l'.pc = some .new → tabOf l.pc = some .new) : XInv s' := by
  have hmv := W.moved_iff hcells hnm
  have hoth : ∀ (t1 : Nat) (l1 : Local), s'.threads[t1]? = some l1 → xPc l1.pc = true → t1 ≠ t ∧ s.threads[t1]? = some l1 := by
    intro t1 l1 h1 hxp
    rw [hthr] at h1
    rcases get_set h1 with ⟨rfl, rfl⟩ | ⟨hne, h1⟩
    · rw [hx'] at hxp; cases hxp
    · exact ⟨hne, h1⟩
  refine ⟨?_, ?_, ?_, ?_, ?_, ?_, ?_, ?_, ?_⟩
  · intro t1 t2 l1 l2 h1 h2 hx1 hx2
    exact I.rsz.uniqX t1 t2 l1 l2 (hoth t1 l1 h1 hx1).2 (hoth t2 l2 h2 hx2).2 hx1 hx2
  · intro t1 l1 h1 hx1
    rw [hres]; exact I.rsz.resz t1 l1 (hoth t1 l1 h1 hx1).2 hx1
  · intro hr hm
    rw [hres] at hr
    exact I.rsz.noResz hr (hmv.1 hm)
  · intro t1 l1 h1 hp hm
    exact I.rsz.pre t1 l1 (hoth t1 l1 h1 (xPc_of_xPre hp)).2 hp (hmv.1 hm)
  · intro t1 l1 h1 hx1 hp
    exact hmv.2 (I.rsz.post t1 l1 (hoth t1 l1 h1 hx1).2 hx1 hp)
  · intro hm _
    have hm0 : s.cell0 ≠ .moved := fun h => hm (hmv.2 h)
    rcases W.act with ⟨rfl, _, hlo, _⟩ | ⟨_, h⟩
    · have : s'.lowCell = s.lowCell := hcells .lo (by decide)
      rw [this]; exact hlo
    · exact absurd h hm0
  · intro hm _
    have hm0 : s.cell0 ≠ .moved := fun h => hm (hmv.2 h)
    rcases W.act with ⟨rfl, _, _, hhi⟩ | ⟨_, h⟩
    · have : s'.highCell = s.highCell := hcells .hi (by decide)
      rw [this]; exact hhi
    · exact absurd h hm0
  · intro t1 l1 h1 ht
    rw [hthr] at h1
    rcases get_set h1 with ⟨rfl, rfl⟩ | ⟨_, h1⟩
    · exact hmv.2 (I.rsz.tabNew t1 l hl (htab ht))
    · exact hmv.2 (I.rsz.tabNew t1 l1 h1 ht)
  · intro t1 l1 h1
    rw [hthr] at h1
    rcases get_set h1 with ⟨rfl, rfl⟩ | ⟨_, h1⟩
    · exact XPc_of_not_plan (planPc_false_of_xPc hx')
    · exact XPc_of_not_plan (W.not_planPc h1)

/-- a store by thread `t` into the structure of cell `id`: the acting thread is validated in `id`, or it is the CAS
into the empty cell `id` -/
theorem inv_store {s s' : State} {id : Cid} {t : Nat} {l l' : Local} (I : Inv s) (W : Writable s id) (T : Touch s s' id)
    (hl : s.threads[t]? = some l)
    (hv : (validated l.pc = true ∧ cidOf l = id) ∨ (cellAt s id = .empty ∧ validT l.pc = none))
    (hthr : s'.threads = s.threads.set t l') (H' : HInv s') (T' : TInv s') (L' : LInv s')
    (hres : s'.resizing = s.resizing) (hx' : xPc l'.pc = false)
    (htab : tabOf l'.pc = some .new → tabOf l.pc = some .new)
    (hnm : cellAt s' id ≠ .moved)
    (hcell' : ∀ b, cellAt s' id = .tree b → cellAt s id = .tree b ∨ ∃ tab k h, l.pc = .kStore tab k h b)
    (hself : ∀ p, l'.call = some p → PcInv s' p l'.pc) (hkself : KInv s' l'.pc)
    (htree : ∀ b, cellAt s' id = .tree b → ∀ j, j < s'.heap.length → (nodeAt s'.heap j).owner = some b →
      (nodeAt s'.heap j).inTree = true → j ∉ chainOfBin s' b →
      (∃ tab res, l'.pc = .tRestructure tab b j res) ∨ (∃ tab res, l'.pc = .tUntreeify tab b res))
    (hchain : ∀ b, cellAt s' id = .tree b → ∀ j ∈ chainOfBin s' b, (nodeAt s'.heap j).inTree = false →
      ∃ tab, l'.pc = .tTreeLinkLocked tab b j) : Inv s' := by
  have H := I.heap
  have hok' := H'.nextOK
  have hself' : s'.threads[t]? = some l' := by rw [hthr]; exact get_set_self hl
  have hv0 : (validated l.pc = true ∧ cidOf l = id) ∨ cellAt s id = .empty := by
    rcases hv with h | h
    · exact Or.inl h
    · exact Or.inr h.1
  -- the acting thread is not validated for a `TreeBin` of another cell
  have hnotT : ∀ id0 b, id0 ≠ id → cellAt s id0 = .tree b → validT l.pc ≠ some b := by
    intro id0 b hne hc hvt
    rcases hv with ⟨_, hid⟩ | ⟨_, hn⟩
    · have := I.lock.vT t l b hl hvt
      rw [hid] at this
      exact W.tree_ne H hne hc this
    · rw [hn] at hvt; cases hvt
  refine ⟨H', T', xinv_store I W hl hthr T.cells hnm hres hx' htab, L', ?_, ?_, ?_, ?_⟩
  · intro t1 l1 p1 h1 hc1
    rw [hthr] at h1
    rcases get_set h1 with ⟨rfl, rfl⟩ | ⟨hne, h1⟩
    · exact hself p1 hc1
    · exact pcInv_other I W T hok' h1 hc1 (fun e => others_not_valid_cell I.lock hl hv0 hne h1 e)
  · intro t1 l1 h1
    rw [hthr] at h1
    rcases get_set h1 with ⟨rfl, rfl⟩ | ⟨hne, h1⟩
    · exact hkself
    · refine kInv_other I W T hok' h1 (fun e => others_not_valid_cell I.lock hl hv0 hne h1 e) ?_
      intro tab1 k1 hh1 b1 hpc1 hc
      have hk1 := I.data.kInv t1 l1 h1
      rw [hpc1] at hk1
      rcases hcell' b1 hc with h | ⟨tab, k, h, hpc⟩
      · exact hk1.2 id h
      · exact I.kStore_bins_ne hl h1 hne hpc hpc1 rfl
  · intro id0 b hc j hj ho hin hnc
    by_cases h0 : id0 = id
    · subst h0
      exact ⟨t, l', hself', htree b hc j hj ho hin hnc⟩
    · have hc0 : cellAt s id0 = .tree b := by rw [← T.cells id0 h0]; exact hc
      have F := T.frame_cell H W hok' h0
      rw [hc0] at F
      obtain ⟨g1, g2, b', hb', g3⟩ := (F.treeOf_iff T.len j).1 ⟨hj, hin, b, rfl, ho⟩
      cases hb'
      rw [F.chainOfBin] at hnc
      obtain ⟨t0, l0, hl0, hw⟩ := I.data.treeSub id0 b hc0 j g1 g3 g2 hnc
      have hne : t0 ≠ t := by
        rintro rfl
        rw [hl] at hl0; cases hl0
        refine hnotT id0 b h0 hc0 ?_
        rcases hw with ⟨tab, res, e⟩ | ⟨tab, res, e⟩ <;> rw [e] <;> rfl
      exact ⟨t0, l0, by rw [hthr, get_set_ne hne]; exact hl0, hw⟩
  · intro id0 b hc j hj hin
    by_cases h0 : id0 = id
    · subst h0
      obtain ⟨tab, e⟩ := hchain b hc j hj hin
      exact ⟨t, l', tab, hself', e⟩
    · have hc0 : cellAt s id0 = .tree b := by rw [← T.cells id0 h0]; exact hc
      have F := T.frame_cell H W hok' h0
      rw [hc0] at F
      rw [F.chainOfBin] at hj
      rw [F.node j hj] at hin
      obtain ⟨t0, l0, tab, hl0, hw⟩ := I.data.chainSub id0 b hc0 j hj hin
      have hne : t0 ≠ t := by
        rintro rfl
        rw [hl] at hl0; cases hl0
        refine hnotT id0 b h0 hc0 ?_
        rw [hw]; rfl
      exact ⟨t0, l0, tab, by rw [hthr, get_set_ne hne]; exact hl0, hw⟩

/-! ### a private allocation (`kBuild`) -/

theorem Plan.frame {s s' : State} {lo hi : Cell} (hok' : NextOK s'.heap) (hlen : s.heap.length ≤ s'.heap.length)
    (htl : s.tbins.length ≤ s'.tbins.length) (h0 : s'.cell0 = s.cell0)
    (F : ∀ C, (∀ h, startOf s.tbins C = some h → h < s.heap.length) → (∀ b, C = .tree b → b < s.tbins.length) →
      FrameC s s' C)
    (H : HInv s) (h : Plan s lo hi) : Plan s' lo hi := by
  have F0 : FrameC s s' s.cell0 := F s.cell0 (H.cinv .c0).startOK (fun b hb => H.cellOK .c0 b hb)
  refine ⟨?_, ?_, h.distinct⟩
  · rw [h0]; exact CopyOK.frame hok' hlen htl F0 (F lo h.low.cinv.startOK h.low.cellOK) h.low
  · rw [h0]; exact CopyOK.frame hok' hlen htl F0 (F hi h.high.cinv.startOK h.high.cellOK) h.high

/-- a step of thread `t` (not the resizing thread, not validated for a `TreeBin`) that allocates nodes and `TreeBin`s
at the end and changes nothing that exists (`kBuild`) -/
theorem inv_grow {s s' : State} {t : Nat} {l l' : Local} (I : Inv s) (hl : s.threads[t]? = some l)
    (hthr : s'.threads = s.threads.set t l') (H' : HInv s') (T' : TInv s') (L' : LInv s')
    (hlen : s.heap.length ≤ s'.heap.length)
    (hold : ∀ j, j < s.heap.length → nodeAt s'.heap j = nodeAt s.heap j)
    (htl : s.tbins.length ≤ s'.tbins.length)
    (hbin : ∀ b, b < s.tbins.length → binAt s'.tbins b = binAt s.tbins b)
    (hno : ∀ j, s.heap.length ≤ j → ∀ b, (nodeAt s'.heap j).owner = some b → s.tbins.length ≤ b)
    (hcells : ∀ id, cellAt s' id = cellAt s id) (hres : s'.resizing = s.resizing)
    (hx : xPc l.pc = false) (hx' : xPc l'.pc = false) (hvT : validT l.pc = none)
    (htab : tabOf l'.pc = some .new → tabOf l.pc = some .new)
    (hself : ∀ p, l'.call = some p → PcInv s' p l'.pc) (hkself : KInv s' l'.pc) : Inv s' := by
  have H := I.heap
  have hok' := H'.nextOK
  have h0 : s'.cell0 = s.cell0 := hcells .c0
  have h1 : s'.lowCell = s.lowCell := hcells .lo
  have h2 : s'.highCell = s.highCell := hcells .hi
  have F : ∀ C, (∀ h, startOf s.tbins C = some h → h < s.heap.length) → (∀ b, C = .tree b → b < s.tbins.length) →
      FrameC s s' C := fun C hst hb => frameC_grow H.nextOK hok' hlen hold hbin hno hst hb
  have Fcell : ∀ id, FrameC s s' (cellAt s id) := fun id => F _ (H.cinv id).startOK (fun b hb => H.cellOK id b hb)
  have hoth : ∀ (t1 : Nat) (l1 : Local), s'.threads[t1]? = some l1 → xPc l1.pc = true → t1 ≠ t ∧ s.threads[t1]? = some l1 := by
    intro t1 l1 h1 hxp
    rw [hthr] at h1
    rcases get_set h1 with ⟨rfl, rfl⟩ | ⟨hne, h1⟩
    · rw [hx'] at hxp; cases hxp
    · exact ⟨hne, h1⟩
  have hback : ∀ (q : Pc → Bool), (∀ pc, q pc = true → xPc pc = true) →
      (∀ (t1 : Nat) (l1 : Local), s'.threads[t1]? = some l1 → q l1.pc = false) →
      ∀ (t1 : Nat) (l1 : Local), s.threads[t1]? = some l1 → q l1.pc = false := by
    intro q hq hall t1 l1 h1
    by_cases hne : t1 = t
    · subst hne
      rw [hl] at h1; cases h1
      cases hql : q l.pc with
      | false => rfl
      | true => rw [hq _ hql] at hx; cases hx
    · exact hall t1 l1 (by rw [hthr, get_set_ne hne]; exact h1)
  have hself' : s'.threads[t]? = some l' := by rw [hthr]; exact get_set_self hl
  refine ⟨H', T', ⟨?_, ?_, ?_, ?_, ?_, ?_, ?_, ?_, ?_⟩, L', ⟨?_, ?_, ?_, ?_⟩⟩
  · intro t1 t2 l1 l2 h1' h2' hx1 hx2
    exact I.rsz.uniqX t1 t2 l1 l2 (hoth t1 l1 h1' hx1).2 (hoth t2 l2 h2' hx2).2 hx1 hx2
  · intro t1 l1 h1' hx1
    rw [hres]; exact I.rsz.resz t1 l1 (hoth t1 l1 h1' hx1).2 hx1
  · intro hr
    rw [hres] at hr; rw [h0]; exact I.rsz.noResz hr
  · intro t1 l1 h1' hp
    rw [h0]; exact I.rsz.pre t1 l1 (hoth t1 l1 h1' (xPc_of_xPre hp)).2 hp
  · intro t1 l1 h1' hx1 hp
    rw [h0]; exact I.rsz.post t1 l1 (hoth t1 l1 h1' hx1).2 hx1 hp
  · intro hm hall
    rw [h0] at hm; rw [h1]
    exact I.rsz.lowEmpty hm (hback lowStored (fun pc h => xPc_of_planPc (planPc_of_lowStored h)) hall)
  · intro hm hall
    rw [h0] at hm; rw [h2]
    exact I.rsz.highEmpty hm (hback highStored (fun pc h => xPc_of_planPc (planPc_of_highStored h)) hall)
  · intro t1 l1 h1' ht
    rw [hthr] at h1'
    rw [h0]
    rcases get_set h1' with ⟨rfl, rfl⟩ | ⟨_, h1'⟩
    · exact I.rsz.tabNew t1 l hl (htab ht)
    · exact I.rsz.tabNew t1 l1 h1' ht
  · intro t1 l1 h1'
    rw [hthr] at h1'
    rcases get_set h1' with ⟨rfl, rfl⟩ | ⟨_, h1'⟩
    · exact XPc_of_not_plan (planPc_false_of_xPc hx')
    · have hp := I.rsz.plan t1 l1 h1'
      cases hpc : l1.pc <;> rw [hpc] at hp <;> simp only [XPc] at hp ⊢
      · exact Plan.frame hok' hlen htl h0 F H hp
      · rw [h1]; exact Plan.frame hok' hlen htl h0 F H hp
      · rw [h1, h2]; exact Plan.frame hok' hlen htl h0 F H hp
  · intro t1 l1 p1 h1' hc1
    rw [hthr] at h1'
    rcases get_set h1' with ⟨rfl, rfl⟩ | ⟨_, h1'⟩
    · exact hself p1 hc1
    · refine PcInv.frame hlen (I.data.pcInv t1 l1 p1 h1' hc1) ?_ ?_
      · intro h hv
        have := Fcell (cidOf l1)
        rw [I.lock.vL t1 l1 h h1' hv] at this; exact this
      · intro b hv
        have := Fcell (cidOf l1)
        rw [I.lock.vT t1 l1 b h1' hv] at this; exact this
  · intro t1 l1 h1'
    rw [hthr] at h1'
    rcases get_set h1' with ⟨rfl, rfl⟩ | ⟨_, h1'⟩
    · exact hkself
    · by_cases hks : ∃ tab k h b, l1.pc = .kStore tab k h b
      · obtain ⟨tab, k, h, b, hpc⟩ := hks
        have hk := I.data.kInv t1 l1 h1'
        have hv : validL l1.pc = some h := by rw [hpc]; rfl
        have Fo := Fcell (cidOf l1)
        rw [I.lock.vL t1 l1 h h1' hv] at Fo
        rw [hpc] at hk ⊢
        simp only [KInv] at hk ⊢
        refine ⟨CopyOK.frame hok' hlen htl Fo (F _ hk.1.cinv.startOK hk.1.cellOK) hk.1, ?_⟩
        intro id0
        rw [hcells id0]; exact hk.2 id0
      · exact KInv_of_not_kStore (fun tab k h b e => hks ⟨tab, k, h, b, e⟩)
  · intro id0 b hc j hj ho hin hnc
    rw [hcells id0] at hc
    have Fc := Fcell id0
    rw [hc] at Fc
    obtain ⟨g1, g2, b', hb', g3⟩ := (Fc.treeOf_iff hlen j).1 ⟨hj, hin, b, rfl, ho⟩
    cases hb'
    rw [Fc.chainOfBin] at hnc
    obtain ⟨t0, l0, hl0, hw⟩ := I.data.treeSub id0 b hc j g1 g3 g2 hnc
    have hne : t0 ≠ t := by
      rintro rfl
      rw [hl] at hl0; cases hl0
      rcases hw with ⟨tab, res, e⟩ | ⟨tab, res, e⟩ <;> rw [e] at hvT <;> cases hvT
    exact ⟨t0, l0, by rw [hthr, get_set_ne hne]; exact hl0, hw⟩
  · intro id0 b hc j hj hin
    rw [hcells id0] at hc
    have Fc := Fcell id0
    rw [hc] at Fc
    rw [Fc.chainOfBin] at hj
    rw [Fc.node j hj] at hin
    obtain ⟨t0, l0, tab, hl0, hw⟩ := I.data.chainSub id0 b hc j hj hin
    have hne : t0 ≠ t := by
      rintro rfl
      rw [hl] at hl0; cases hl0
      rw [hw] at hvT; cases hvT
    exact ⟨t0, l0, tab, by rw [hthr, get_set_ne hne]; exact hl0, hw⟩

/-! ## (d) assembling `Eff s s'` -/

namespace InvW

theorem range_split {n m : Nat} (h : n ≤ m) : List.range m = List.range n ++ List.range' n (m - n) := by
  rw [List.range_eq_range', List.range_eq_range']
  have := List.range'_append_1 (s := 0) (m := n) (n := m - n)
  simp at this
  rw [this]
  congr 1
  omega

theorem find?_congr_mem {α : Type} {p q : α → Bool} : ∀ {l : List α}, (∀ x ∈ l, p x = q x) → l.find? p = l.find? q
  | [], _ => rfl
  | a :: l, h => by
    have ha := h a (by simp)
    have ih := find?_congr_mem (l := l) (fun x hx => h x (by simp [hx]))
    simp only [List.find?_cons, ha, ih]

theorem treeFind_spec {s : State} {b k i : Nat} (h : treeFind s b k = some i) :
    i < s.heap.length ∧ (nodeAt s.heap i).owner = some b ∧ (nodeAt s.heap i).inTree = true ∧ (nodeAt s.heap i).key = k := by
  rw [treeFind_def] at h
  have h1 := List.mem_of_find?_eq_some h
  have h2 := List.find?_some h
  simp only [Bool.and_eq_true, beq_iff_eq] at h2
  exact ⟨List.mem_range.1 h1, h2.1.1, h2.1.2, h2.2⟩

end InvW
open InvW

/-- the nodes of a `TreeBin` other than that of `id` -/
theorem Touch.own_frame {s s' : State} {id : Cid} (T : Touch s s' id) (H : HInv s) {b : Nat} (hb : b < s.tbins.length)
    (hne : cellAt s id ≠ .tree b) :
    (∀ j, j < s.heap.length → ((nodeAt s.heap j).owner = some b ∨ (nodeAt s'.heap j).owner = some b) →
      nodeAt s'.heap j = nodeAt s.heap j) ∧
    (∀ j, s.heap.length ≤ j → (nodeAt s'.heap j).owner ≠ some b) := by
  constructor
  · intro j hj ho
    have ho' : (nodeAt s.heap j).owner = some b := by
      rcases ho with ho | ho
      · exact ho
      · rw [← (T.keep j hj).2.1]; exact ho
    refine T.node j hj ?_ ?_
    · intro hc'
      have := H.chainOwner id j hc'
      rw [ho'] at this
      exact hne (ownerOf_eq_some.1 this.symm)
    · intro ht
      have := treeOf_owner ht
      rw [ho'] at this
      exact hne (ownerOf_eq_some.1 this.symm)
  · intro j hj ho
    rcases T.newOwner j hj b ho with h | h
    · exact hne h
    · omega

/-- the tree content of a `TreeBin` whose nodes are untouched -/
theorem absTree_frame {s s' : State} {b : Nat} (hlen : s.heap.length ≤ s'.heap.length)
    (hold : ∀ j, j < s.heap.length → ((nodeAt s.heap j).owner = some b ∨ (nodeAt s'.heap j).owner = some b) →
      nodeAt s'.heap j = nodeAt s.heap j)
    (hnew : ∀ j, s.heap.length ≤ j → (nodeAt s'.heap j).owner ≠ some b) (k : Nat) :
    absTree s' b k = absTree s b k := by
  have hfind : treeFind s' b k = treeFind s b k := by
    rw [treeFind_def, treeFind_def, range_split hlen, List.find?_append]
    have h2 : (List.range' s.heap.length (s'.heap.length - s.heap.length)).find? (fun i =>
        (nodeAt s'.heap i).owner == some b && (nodeAt s'.heap i).inTree && (nodeAt s'.heap i).key == k) = none := by
      rw [List.find?_eq_none]
      intro x hx
      have hxl : s.heap.length ≤ x := (List.mem_range'_1.1 hx).1
      have := hnew x hxl
      simp [this]
    rw [h2, Option.or_none]
    refine find?_congr_mem ?_
    intro x hx
    have hxl := List.mem_range.1 hx
    by_cases ho : (nodeAt s.heap x).owner = some b ∨ (nodeAt s'.heap x).owner = some b
    · rw [hold x hxl ho]
    · have h1 : (nodeAt s.heap x).owner ≠ some b := fun h => ho (Or.inl h)
      have h2 : (nodeAt s'.heap x).owner ≠ some b := fun h => ho (Or.inr h)
      have e1 : ((nodeAt s.heap x).owner == some b) = false := by simpa using h1
      have e2 : ((nodeAt s'.heap x).owner == some b) = false := by simpa using h2
      show ((nodeAt s'.heap x).owner == some b && (nodeAt s'.heap x).inTree && (nodeAt s'.heap x).key == k) =
        ((nodeAt s.heap x).owner == some b && (nodeAt s.heap x).inTree && (nodeAt s.heap x).key == k)
      rw [e1, e2]; rfl
  unfold absTree
  rw [hfind]
  cases hf : treeFind s b k with
  | none => rfl
  | some i =>
    obtain ⟨h1, h2, _, _⟩ := treeFind_spec hf
    simp only
    rw [hold i h1 (Or.inl h2)]

theorem Writable.liveBin {s : State} {id : Cid} (W : Writable s id) {b : Nat} (h : cellAt s id = .tree b) : LiveBin s b := by
  rcases W.act with ⟨rfl, _, _, _⟩ | ⟨hid, hm⟩
  · exact Or.inl h
  · right
    refine ⟨hm, ?_⟩
    cases id with
    | c0 => exact absurd rfl hid
    | lo => exact Or.inl h
    | hi => exact Or.inr h

/-- `Eff` of a store into the structure of `id` -/
theorem eff_store {s s' : State} {id : Cid} (Iv' : Inv s') (I : Inv s) (W : Writable s id) (T : Touch s s' id)
    (ks : ∀ k, KStep s s' k) (hnm : cellAt s' id ≠ .moved)
    (hfirst : ∀ b, cellAt s id = .tree b → (binAt s'.tbins b).first ≠ (binAt s.tbins b).first → cellAt s' id = .tree b)
    (htreeb : ∀ b k, cellAt s id = .tree b → absTree s' b k ≠ absTree s b k → cellAt s' id = .tree b)
    (hwriter : ∀ b, b < s.tbins.length → (binAt s.tbins b).writer = true → (binAt s'.tbins b).writer = true ∨ InCell s b)
    (hlive : ∀ b, cellAt s id = .tree b → cellAt s' id = .tree b ∨ (¬ InCell s' b ∧ (binAt s'.tbins b).writer = true))
    (hnew : ∀ b, cellAt s' id = .tree b → cellAt s id = .tree b ∨ PrivBin s b) : Eff s s' := by
  have H := I.heap
  have H' := Iv'.heap
  have hmv := W.moved_iff T.cells hnm
  have hlid : ∀ k, liveId s' k = liveId s k := liveId_congr hmv
  -- the cell `id` stays live
  have hlb' : ∀ b, cellAt s' id = .tree b → LiveBin s' b := by
    intro b h
    rcases W.act with ⟨rfl, _, _, _⟩ | ⟨hid, hm⟩
    · exact Or.inl h
    · right
      refine ⟨hmv.2 hm, ?_⟩
      cases id with
      | c0 => exact absurd rfl hid
      | lo => exact Or.inl h
      | hi => exact Or.inr h
  refine ⟨Iv', ks, ?_, ?_, ?_, ?_⟩
  · intro b hb hne
    by_cases hc : cellAt s id = .tree b
    · exact ⟨W.liveBin hc, hlb' b (hfirst b hc hne)⟩
    · rw [T.bin b hb hc] at hne; exact absurd rfl hne
  · intro b k hb hne
    by_cases hc : cellAt s id = .tree b
    · have hc' := htreeb b k hc hne
      have hl : liveId s k = id := by
        cases hf : treeFind s b k with
        | some i =>
          obtain ⟨h1, h2, h3, h4⟩ := treeFind_spec hf
          have := W.liveId_of_mem H (j := i) (Or.inr (by rw [hc]; exact ⟨h1, h3, b, rfl, h2⟩))
          rw [h4] at this; exact this
        | none =>
          cases hf' : treeFind s' b k with
          | none =>
            exfalso; apply hne
            unfold absTree; rw [hf, hf']
          | some i =>
            obtain ⟨h1, h2, h3, h4⟩ := treeFind_spec hf'
            rw [W.liveId_iff]
            by_cases h0 : id = .c0
            · exact Or.inl h0
            · right
              have := H'.side id h0 i (Or.inr (by rw [hc']; exact ⟨h1, h3, b, rfl, h2⟩))
              rw [h4] at this; exact this
      rw [hlid, hl]; exact ⟨hc, hc'⟩
    · obtain ⟨f1, f2⟩ := T.own_frame H hb hc
      exact absurd (absTree_frame T.len f1 f2 k) hne
  · intro b k hc
    rw [hlid]
    by_cases hl : liveId s k = id
    · rw [hl] at hc ⊢
      rcases hlive b hc with h | h
      · exact Or.inl h
      · exact Or.inr (Or.inl h)
    · left; rw [T.cells _ hl]; exact hc
  · intro b hb hnc hnp
    constructor
    · rintro ⟨id0, h0⟩
      by_cases hid : id0 = id
      · subst hid
        rcases hnew b h0 with h | h
        · exact hnc ⟨id0, h⟩
        · exact hnp h
      · rw [T.cells id0 hid] at h0
        exact hnc ⟨id0, h0⟩
    · intro hw
      rcases hwriter b hb hw with h | h
      · exact h
      · exact absurd h hnc

end Flurry.Proto.BinG
