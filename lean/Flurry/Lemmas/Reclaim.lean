import Flurry.Lemmas.ReclaimBasic
import Flurry.Lemmas.ReclaimSafe
import Flurry.Lemmas.ReclaimFree
import Flurry.Lemmas.ReclaimExamples
/-! # Proto/Reclaim lemmas: summary (C03, C04, F1)

* `ReclaimBasic.lean`: `guardedB`, `holdsOf`, `mem_activeThreads(_iff)`, `run_cons_some`, `run_append(_some)`,
  `run_preserves`, `dropWaiter_eq_*`, inversion of `step` per event (`step_enter` … `step_free`).
* `ReclaimSafe.lean`: trace predicates `publishGuarded`, `allocGuarded`; invariant `Inv` (`inv_init`, `inv_step`,
  `inv_run`); `HoldsGuarded`, `publishGuarded_of_allocGuarded`;
  **`no_touch_after_free`** / `no_touch_after_free_of_publishGuarded`, **`held_pointers_valid`** /
  `held_pointers_valid_of_publishGuarded`, `held_retired_waits`, `free_refused_while_held`,
  `holder_guarded_or_fresh`; `Decidable (Protected es)`;
  **`no_touch_after_free_needs_guard`**: the statement without a guard hypothesis is false in the model
  (an unguarded creator keeps its pointer across another thread's unlink + retire + free).
* `ReclaimFree.lean`: `FInv`, **`free_at_most_once`** (all runs), `frees_eq_one_iff`, `frees_eq_zero_iff`;
  `rank`, `run_rank_mono`, `freed_stays_freed`; **`retire_after_unlink`**, `unprotectedRetire_after_unlink`,
  `acquire_only_linked`, `unlink_only_linked`, `no_acquire_after_unlink(_event)`;
  **`freed_was_retired_or_unprotected`**, `freed_was_retired`; `free_enabled_only_if`, `free_enabled_iff`,
  `free_refused_of_waiting`, `run_exits_retired`, `exits_enabled`, **`eventually_freeable`**,
  `eventually_freeable'`; `nodup_activeThreads`, `WInv`, **`retired_eventually_freed`**.
* `ReclaimExamples.lean`: **`unprotected_unsafe`** (F1), `unguarded_creator_bad_touch`, writer/reader examples,
  all by `decide`. -/
