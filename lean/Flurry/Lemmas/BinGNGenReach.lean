import Flurry.Lemmas.BinGNGenStepT
import Flurry.Lemmas.BinGNGenStepX
/-! # Proto/BinGN: the generation invariant holds in every reachable state; what follows from it -/
namespace Flurry.Proto.BinGN
open Flurry.Lin

theorem init_geninv (n : Nat) : GenInv (init n) := by
  have hl : ∀ (t : Nat) (l : Local), (init n).threads[t]? = some l → l = {} := by
    intro t l h1
    have := List.mem_of_getElem? h1
    exact List.eq_of_mem_replicate this
  refine ⟨rfl, ?_, ?_, ?_, ?_, ?_, ?_, ?_⟩
  · intro g row h
    cases g with
    | zero => cases h; rfl
    | succ g => cases h
  · intro g j hg; cases hg
  · intro j
    show cellT [[(.empty : Cell)]] 1 j ≠ _
    unfold cellT; simp
  · intro j hm
    have : cellT [[(.empty : Cell)]] 0 j = .moved := hm
    unfold cellT at this
    cases j <;> simp at this
  · intro t t' l l' h1 _ hT
    rw [hl t l h1] at hT; cases hT
  · intro g j b h
    have : cellT [[(.empty : Cell)]] g j = .tree b := h
    unfold cellT at this
    cases g with
    | zero => cases j <;> simp at this
    | succ g => simp at this
  · intro t l h1
    rw [hl t l h1]; exact POK.empty _ _

theorem step_geninv {s s' : State} {t : Nat} {inv : Option (Nat × KOp)} {lo : Bool} {mt : Option Nat}
    {rz sm sm2 : Bool} {pick : Nat} (I : GenInv s)
    (hs : step s t inv lo mt rz sm sm2 pick = some s') : GenInv s' := by
  cases hl : s.threads[t]? with
  | none => unfold step stepG at hs; rw [hl] at hs; cases hs
  | some l =>
    obtain ⟨pc, call⟩ := l
    cases pc with
    | idle =>
      by_cases hrz : rz = true ∧ s.resizing = false
      · exact step_alloc I hl hrz.1 hrz.2 hs
      · exact step_idle I hl hrz hs
    | rTable x => cases call with
      | none => unfold step stepG at hs; rw [hl] at hs; simp at hs
      | some p => exact step_rTable I hl hs
    | rCell x g => cases call with
      | none => unfold step stepG at hs; rw [hl] at hs; simp at hs
      | some p => exact step_rCell I hl hs
    | rNode x => cases call with
      | none => unfold step stepG at hs; rw [hl] at hs; simp at hs
      | some p => exact step_rNode I hl hs
    | rFirst b => cases call with
      | none => unfold step stepG at hs; rw [hl] at hs; simp at hs
      | some p => exact step_rFirst I hl hs
    | rState b x => cases call with
      | none => unfold step stepG at hs; rw [hl] at hs; simp at hs
      | some p => exact step_rState I hl hs
    | rLin b x => cases call with
      | none => unfold step stepG at hs; rw [hl] at hs; simp at hs
      | some p => exact step_rLin I hl hs
    | rCas b x r => cases call with
      | none => unfold step stepG at hs; rw [hl] at hs; simp at hs
      | some p => exact step_rCas I hl hs
    | rTree b => cases call with
      | none => unfold step stepG at hs; rw [hl] at hs; simp at hs
      | some p => exact step_rTree I hl hs
    | rRelease b x => cases call with
      | none => unfold step stepG at hs; rw [hl] at hs; simp at hs
      | some p => exact step_rRelease I hl hs
    | rVal x => cases call with
      | none => unfold step stepG at hs; rw [hl] at hs; simp at hs
      | some p => exact step_rVal I hl hs
    | lFirst b => cases call with
      | none => unfold step stepG at hs; rw [hl] at hs; simp at hs
      | some p => exact step_lFirst I hl hs
    | lNode x => cases call with
      | none => unfold step stepG at hs; rw [hl] at hs; simp at hs
      | some p => exact step_lNode I hl hs
    | wTable => cases call with
      | none => unfold step stepG at hs; rw [hl] at hs; simp at hs
      | some p => exact step_wTable I hl hs
    | wCell g => cases call with
      | none => unfold step stepG at hs; rw [hl] at hs; simp at hs
      | some p => exact step_wCell I hl hs
    | wCas g => cases call with
      | none => unfold step stepG at hs; rw [hl] at hs; simp at hs
      | some p => exact step_wCas I hl hs
    | wLock g h => cases call with
      | none => unfold step stepG at hs; rw [hl] at hs; simp at hs
      | some p => exact step_wLock I hl hs
    | wCheck g h => cases call with
      | none => unfold step stepG at hs; rw [hl] at hs; simp at hs
      | some p => exact step_wCheck I hl hs
    | wFind g h a b => cases call with
      | none => unfold step stepG at hs; rw [hl] at hs; simp at hs
      | some p => exact step_wFind I hl hs
    | wStore g h a b c => cases call with
      | none => unfold step stepG at hs; rw [hl] at hs; simp at hs
      | some p => exact step_wStore I hl hs
    | wUnlock g h r x => cases call with
      | none => unfold step stepG at hs; rw [hl] at hs; simp at hs
      | some p => exact step_wUnlock I hl hs
    | tMutex g b => cases call with
      | none => unfold step stepG at hs; rw [hl] at hs; simp at hs
      | some p => exact step_tMutex I hl hs
    | tCheck g b => cases call with
      | none => unfold step stepG at hs; rw [hl] at hs; simp at hs
      | some p => exact step_tCheck I hl hs
    | tFind g b => cases call with
      | none => unfold step stepG at hs; rw [hl] at hs; simp at hs
      | some p => exact step_tFind I hl hs
    | tVal g b i v r => cases call with
      | none => unfold step stepG at hs; rw [hl] at hs; simp at hs
      | some p => exact step_tVal I hl hs
    | lrTry g b k r => cases call with
      | none => unfold step stepG at hs; rw [hl] at hs; simp at hs
      | some p => exact step_lrTry I hl hs
    | lrLoop g b k r => cases call with
      | none => unfold step stepG at hs; rw [hl] at hs; simp at hs
      | some p => exact step_lrLoop I hl hs
    | tPrependLocked g b => cases call with
      | none => unfold step stepG at hs; rw [hl] at hs; simp at hs
      | some p => exact step_tPrependLocked I hl hs
    | tTreeLinkLocked g b x => cases call with
      | none => unfold step stepG at hs; rw [hl] at hs; simp at hs
      | some p => exact step_tTreeLinkLocked I hl hs
    | tUnlinkLocked g b i r => cases call with
      | none => unfold step stepG at hs; rw [hl] at hs; simp at hs
      | some p => exact step_tUnlinkLocked I hl hs
    | tRestructure g b i r => cases call with
      | none => unfold step stepG at hs; rw [hl] at hs; simp at hs
      | some p => exact step_tRestructure I hl hs
    | tUnlockRoot g b r => cases call with
      | none => unfold step stepG at hs; rw [hl] at hs; simp at hs
      | some p => exact step_tUnlockRoot I hl hs
    | tUntreeify g b r => cases call with
      | none => unfold step stepG at hs; rw [hl] at hs; simp at hs
      | some p => exact step_tUntreeify I hl hs
    | tUnlockM g b r x => cases call with
      | none => unfold step stepG at hs; rw [hl] at hs; simp at hs
      | some p => exact step_tUnlockM I hl hs
    | kTable k => cases call with
      | some p => unfold step stepG at hs; rw [hl] at hs; simp at hs
      | none => exact step_kTable I hl hs
    | kCell g k => cases call with
      | some p => unfold step stepG at hs; rw [hl] at hs; simp at hs
      | none => exact step_kCell I hl hs
    | kLock g k h => cases call with
      | some p => unfold step stepG at hs; rw [hl] at hs; simp at hs
      | none => exact step_kLock I hl hs
    | kCheck g k h => cases call with
      | some p => unfold step stepG at hs; rw [hl] at hs; simp at hs
      | none => exact step_kCheck I hl hs
    | kBuild g k h => cases call with
      | some p => unfold step stepG at hs; rw [hl] at hs; simp at hs
      | none => exact step_kBuild I hl hs
    | kStore g k h b => cases call with
      | some p => unfold step stepG at hs; rw [hl] at hs; simp at hs
      | none => exact step_kStore I hl hs
    | kUnlock h => cases call with
      | some p => unfold step stepG at hs; rw [hl] at hs; simp at hs
      | none => exact step_kUnlock I hl hs
    | xNext => cases call with
      | some p => unfold step stepG at hs; rw [hl] at hs; simp at hs
      | none => exact step_xNext I hl hs
    | xCell j => cases call with
      | some p => unfold step stepG at hs; rw [hl] at hs; simp at hs
      | none => exact step_xCell I hl hs
    | xCasMoved j => cases call with
      | some p => unfold step stepG at hs; rw [hl] at hs; simp at hs
      | none => exact step_xCasMoved I hl hs
    | xLock j h => cases call with
      | some p => unfold step stepG at hs; rw [hl] at hs; simp at hs
      | none => exact step_xLock I hl hs
    | xCheck j h => cases call with
      | some p => unfold step stepG at hs; rw [hl] at hs; simp at hs
      | none => exact step_xCheck I hl hs
    | xBuild j h => cases call with
      | some p => unfold step stepG at hs; rw [hl] at hs; simp at hs
      | none => exact step_xBuild I hl hs
    | yMutex j b => cases call with
      | some p => unfold step stepG at hs; rw [hl] at hs; simp at hs
      | none => exact step_yMutex I hl hs
    | yCheck j b => cases call with
      | some p => unfold step stepG at hs; rw [hl] at hs; simp at hs
      | none => exact step_yCheck I hl hs
    | yBuild j b => cases call with
      | some p => unfold step stepG at hs; rw [hl] at hs; simp at hs
      | none => exact step_yBuild I hl hs
    | xStoreLow j u a b => cases call with
      | some p => unfold step stepG at hs; rw [hl] at hs; simp at hs
      | none => exact step_xStoreLow I hl hs
    | xStoreHigh j u a => cases call with
      | some p => unfold step stepG at hs; rw [hl] at hs; simp at hs
      | none => exact step_xStoreHigh I hl hs
    | xStoreMoved j u => cases call with
      | some p => unfold step stepG at hs; rw [hl] at hs; simp at hs
      | none => exact step_xStoreMoved I hl hs
    | xUnlock u => cases call with
      | some p => unfold step stepG at hs; rw [hl] at hs; simp at hs
      | none => exact step_xUnlock I hl hs
    | xCommit => cases call with
      | some p => unfold step stepG at hs; rw [hl] at hs; simp at hs
      | none => exact step_xCommit I hl hs

theorem reachable_geninv {n : Nat} {s : State} (hr : Reachable n s) : GenInv s := by
  induction hr with
  | init => exact init_geninv n
  | step t inv lo mt rz sm sm2 pick _ hs ih => exact step_geninv ih hs

end Flurry.Proto.BinGN
