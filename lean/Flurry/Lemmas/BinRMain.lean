import Flurry.Lemmas.BinRLin
import Flurry.Lemmas.BinRBMain

/-! # C01 (bin level, writer traversal spelled out): the list bin is linearizable

(C13 port of `Flurry/Props/C01BinW.lean` to the per-key operations of `Flurry/Lin2.lean`, i.e. with `retain`'s conditional removal `condRm`; below, "`Proto/Bin`" / `Base.` is `Flurry.Proto.BinR.Base` (`Proto/BinRBase.lean`) and "`Proto/BinW`" is `Flurry.Proto.BinR` (`Proto/BinR.lean`), which in addition has the `retain` visit steps.)

`Proto/BinW.lean` is `Proto/BinRBase.lean` with the walk of a validated writer made explicit: one `next`
load per transition, then a single store *through the positions remembered during the walk*. Here
the lock inside the first node and the re-check of the bin cell are load-bearing: the proof needs
that nobody else changes the chain between the walk and the store (`Base.stepK_frozen`, from the lock
invariant `Base.LInv`), so that the remembered positions are the current ones
(`storeAt_eq_writerStore`). With that, every `BinW` transition is a `Bin` transition on the projected
state or a stutter step (`stepW_proj`), the ghost invariant of `Proto/Bin` transfers, and so does
the theorem. The variant without the re-check is refuted in `Lemmas/BinWExamples.lean`. -/
namespace Flurry.Proto.BinR
open Flurry.Lin2

/-- the ghost invariant of `Proto/Bin` holds on the projection of every reachable state -/
theorem reachable_ginv {n : Nat} {s : State} (hr : Reachable n s) (k : Nat) :
    ∃ A pt, Base.GInv k (proj s) A pt := by
  induction hr with
  | init => exact ⟨_, _, by rw [proj_init]; exact Base.init_ginv n k⟩
  | @step s s' t inv hr hs ih =>
    obtain ⟨A, pt, g⟩ := ih
    obtain ⟨l, hl⟩ := step_some_thread hs
    exact ginv_stepW g (reachable_winv hr) hl (step_stepW hl hs)

/-- the invariants of `Proto/Bin` hold on the projection of every reachable state of `BinW` -/
theorem binR_simulated {n : Nat} {s : State} (hr : Reachable n s) :
    Base.Inv (proj s) ∧ Base.LInv (proj s) ∧ ∀ k, ∃ A pt, Base.GInv k (proj s) A pt :=
  ⟨(reachable_winv hr).inv, (reachable_winv hr).linv, reachable_ginv hr⟩

/-- at most one thread is walking the list or about to store: validated writers exclude each other -/
theorem walkers_mutex {n : Nat} {s : State} (hr : Reachable n s) {t1 t2 : Nat} {l1 l2 : Local}
    (hl1 : s.threads[t1]? = some l1) (hl2 : s.threads[t2]? = some l2)
    (hp1 : walkPc l1.pc) (hp2 : walkPc l2.pc) : t1 = t2 := by
  have L := (reachable_winv hr).linv
  obtain ⟨h1, hh1⟩ := walkPc_iff.1 hp1
  obtain ⟨h2, hh2⟩ := walkPc_iff.1 hp2
  have e1 := L.validated t1 (cL l1) h1 (proj_thread hl1) hh1
  have e2 := L.validated t2 (cL l2) h2 (proj_thread hl2) hh2
  rw [e1] at e2; cases e2
  have k1 := (L.lockHeld t1 (cL l1) h1 (proj_thread hl1) (by rw [cL_pc, hh1]; exact rfl)).2
  have k2 := (L.lockHeld t2 (cL l2) h1 (proj_thread hl2) (by rw [cL_pc, hh2]; exact rfl)).2
  rw [k1] at k2; cases k2
  rfl

/-- **the store through the remembered positions is the store on the current chain**: when a writer
reaches `wStore`, what `storeAt` does with the positions it remembered is exactly what
`Base.writerStore` does on the current state -/
theorem storeAt_eq_writerStore_reachable {n : Nat} {s : State} (hr : Reachable n s) {t : Nat} {l : Local}
    {p : Pending} {h : Nat} {pred hit hnext : Option Nat}
    (hl : s.threads[t]? = some l) (hpc : l.pc = .wStore h pred hit hnext) (hc : l.call = some p) :
    proj (storeAt s p pred hit hnext).1 = (Base.writerStore (proj s) (cP p)).1 ∧
    (storeAt s p pred hit hnext).2 = (Base.writerStore (proj s) (cP p)).2 := by
  have W := reachable_winv hr
  have w := W.walk t l p hl hc
  rw [hpc] at w
  exact storeAt_eq_writerStore W.inv.heap w.1 w.2

/-- **C01, bin level, with the writer's walk spelled out.** Under every interleaving of any number
of threads, the per-key history (completed calls plus stored-but-not-yet-unlocked writers) is
linearizable and ends in the abstract content of the bin. -/
theorem binR_linearizable {n : Nat} {s : State} (hr : Reachable n s) (k : Nat) :
    Lin2.Linearizable2 (callsOnExt s k) none (absOf s k) := by
  obtain ⟨A, pt, g⟩ := reachable_ginv hr k
  have := g.linearizable (reachable_winv hr).inv
  rw [callsOnExt_proj, absOf_proj] at this
  exact this

/-- **quiescent form** -/
theorem binR_linearizable_quiescent {n : Nat} {s : State} (hr : Reachable n s) (hq : quiescent s) (k : Nat) :
    Lin2.Linearizable2 (callsOn s k) none (absOf s k) := by
  have := binR_linearizable hr k
  rw [callsOnExt_quiescent hq] at this
  exact this

end Flurry.Proto.BinR
