import Flurry.Lemmas.BinGNPStore
import Flurry.Lemmas.BinGNPLock
import Flurry.Lemmas.BinGNPGhostL
import Flurry.Lemmas.BinGNPShape
/-! # Proto/BinGN (port of `Lemmas/BinGInvW.lean`): shared assembly lemmas for the writer / treeify stores

What the per-transition "facts" proofs of the stores share. Port of `Lemmas/BinGInvW.lean`; the frame of one
structure (`FrameC`, `Touch.frameC`, `frameC_grow`, `FrameC.*`, `Walk.frame`, `FreshOK.frame`, `RemOK.frame`,
`PcInv.frame`, `CopyOK.frame`), `Touch.frame_priv`, `Touch.own_frame`, `absTree_frame` and the generic helpers of the
namespace `InvW` are verbatim. What differs:

* `InvW.planPc_facts` also yields `∃ j, xIdx pc = some j`; `planPc_of_lowStored/highStored` take `… = some j`;
  `InvW.cidOf_of_tabOf_none`, `InvW.tabOf_new_of_cidOf` are gone, `InvW.cidOf_of_xIdx` is new.
* a planner (resizing thread past its build) of ANOTHER cell may exist while `id` is written:
  `Inv.no_planner` says that no planner works in `id` (extra hypothesis `hid : cidOf s l' = id`, no `hmv`);
  `Inv.writable_of` takes the `act` disjunct, `hnp` (no planner in `id`) and `hpriv`;
  `Writable.not_planPc` takes `hid : cidOf s l1 = id`.
* `Inv.writable_valid` is `Writable.of_validated`.
* `Touch.frame_cell` takes `X : XInv s` after `H`.
* `Plan.frame` takes the frames of the three structures (old cell, `lo`, `hi`) instead of a frame of everything;
  `XPc.frame` (new) frames what the program counter of the resizing thread knows; `xPc_other` (new): the plan of
  another thread survives a store into the structure of `id` (`Writable.pend_frame`).
* `xinv_store`, `inv_store`, `inv_grow` take `XS' : XShape s'` and show only `XInv.plan`; hypotheses that only
  served the other fields of `XInv` are dropped (`hres`, `htab`, `hnm`; `hl`, `hcells` of `xinv_store`; `hx` of
  `inv_grow`); `xinv_store` takes `T : Touch s s' id` and `hok'` instead; `inv_grow` takes `hcur : s'.cur = s.cur`.
* `Inv.kStore_bins_ne`: same argument as in BinG, with `Writable.other_cases` (no key lives in both cells).
* `XInv.lt_of_tree` (new); `Writable.liveBin` takes `X : XInv s`.
* `eff_store` is unchanged (it takes `Inv s'`). -/
namespace Flurry.Proto.BinGNP
open Flurry.Lin
open Flurry.Proto.BinK (nodeAt binAt NextOK IsChain IsSeg chainOf CInv absL HeapStep getElem?_nodeAt nodeAt_of_some
  chainOf_eq chainOf_isChain get_set get_set_self get_set_ne)
open Store

/-! ## the frame of one structure -/

/-- the structure `C` (its list, its `TreeBin`, the nodes owned by its `TreeBin`) is untouched by `s → s'` -/
structure FrameC (s s' : State) (C : Cell) : Prop where
  chain : chainC s' C = chainC s C
  start : startOf s'.tbins C = startOf s.tbins C
  node : ∀ j ∈ chainC s C, nodeAt s'.heap j = nodeAt s.heap j
  lt : ∀ j ∈ chainC s C, j < s.heap.length
  own : ∀ b, C = .tree b → b < s.tbins.length ∧ binAt s'.tbins b = binAt s.tbins b ∧
    (∀ j, j < s.heap.length → ((nodeAt s.heap j).owner = some b ∨ (nodeAt s'.heap j).owner = some b) →
      nodeAt s'.heap j = nodeAt s.heap j) ∧
    (∀ j, s.heap.length ≤ j → (nodeAt s'.heap j).owner ≠ some b)

theorem FrameC.treeOf_iff {s s' : State} {C : Cell} (F : FrameC s s' C) (hlen : s.heap.length ≤ s'.heap.length) (j : Nat) :
    treeOf s' C j ↔ treeOf s C j := by
  constructor
  · rintro ⟨h1, h2, b, rfl, h3⟩
    obtain ⟨_, _, f1, f2⟩ := F.own b rfl
    by_cases hj : j < s.heap.length
    · have := f1 j hj (Or.inr h3)
      rw [this] at h2 h3
      exact ⟨hj, h2, b, rfl, h3⟩
    · exact absurd h3 (f2 j (by omega))
  · rintro ⟨h1, h2, b, rfl, h3⟩
    obtain ⟨_, _, f1, _⟩ := F.own b rfl
    have := f1 j h1 (Or.inl h3)
    exact ⟨by omega, by rw [this]; exact h2, b, rfl, by rw [this]; exact h3⟩

theorem FrameC.cinv {s s' : State} {C : Cell} (F : FrameC s s' C) (hok' : NextOK s'.heap)
    (hlen : s.heap.length ≤ s'.heap.length) (h : CInv s.heap (startOf s.tbins C) (treeOf s C)) :
    CInv s'.heap (startOf s'.tbins C) (treeOf s' C) := by
  rw [F.start]
  refine (cinv_frame h hok' hlen ?_ ?_).1
  · intro j hj
    rw [F.node j hj]; exact ⟨rfl, rfl⟩
  · intro j hj
    have h1 := (F.treeOf_iff hlen j).1 hj
    refine ⟨h1, ?_⟩
    obtain ⟨hjl, _, b, rfl, h3⟩ := h1
    rw [(F.own b rfl).2.2.1 j hjl (Or.inl h3)]

/-- `Touch`: a structure that shares neither a node nor a `TreeBin` with the structure of `id` -/
theorem Touch.frameC {s s' : State} {id : Cid} (T : Touch s s' id) (H : HInv s) (hok' : NextOK s'.heap) {C : Cell}
    (hst : ∀ h, startOf s.tbins C = some h → h < s.heap.length)
    (hdisj : ∀ j ∈ chainC s C, j ∉ chainC s (cellAt s id) ∧ ¬ treeOf s (cellAt s id) j)
    (hbin : ∀ b, C = .tree b → cellAt s id ≠ .tree b ∧ b < s.tbins.length) : FrameC s s' C := by
  obtain ⟨hc, hn⟩ := T.chain_frame H hok' hst hdisj hbin
  refine ⟨hc, T.startOf_eq hbin, hn, (chainOf_isChain H.nextOK _ hst).lt_length, ?_⟩
  intro b hb
  obtain ⟨hne, hbl⟩ := hbin b hb
  refine ⟨hbl, T.bin b hbl hne, ?_, ?_⟩
  · intro j hj ho
    have ho' : (nodeAt s.heap j).owner = some b := by
      rcases ho with ho | ho
      · exact ho
      · rw [← (T.keep j hj).2.1]; exact ho
    refine T.node j hj ?_ ?_
    · intro hc'
      have := H.chainOwner id j hc'
      rw [ho'] at this
      exact hne (ownerOf_eq_some.1 this.symm)
    · intro ht
      have := treeOf_owner ht
      rw [ho'] at this
      exact hne (ownerOf_eq_some.1 this.symm)
  · intro j hj ho
    rcases T.newOwner j hj b ho with h | h
    · exact hne h
    · omega

/-- an allocation: every structure that exists is untouched -/
theorem frameC_grow {s s' : State} (hok : NextOK s.heap) (hok' : NextOK s'.heap) (hlen : s.heap.length ≤ s'.heap.length)
    (hold : ∀ j, j < s.heap.length → nodeAt s'.heap j = nodeAt s.heap j)
    (hbin : ∀ b, b < s.tbins.length → binAt s'.tbins b = binAt s.tbins b)
    (hno : ∀ j, s.heap.length ≤ j → ∀ b, (nodeAt s'.heap j).owner = some b → s.tbins.length ≤ b) {C : Cell}
    (hst : ∀ h, startOf s.tbins C = some h → h < s.heap.length) (hb : ∀ b, C = .tree b → b < s.tbins.length) :
    FrameC s s' C := by
  obtain ⟨h1, h2⟩ := chainC_grow hok hok' hlen hold hbin hst hb
  have hlt := (chainOf_isChain hok _ hst).lt_length
  refine ⟨h2, h1, fun j hj => hold j (hlt j hj), hlt, ?_⟩
  intro b hC
  refine ⟨hb b hC, hbin b (hb b hC), fun j hj _ => hold j hj, ?_⟩
  intro j hj ho
  have := hno j hj b ho
  have := hb b hC
  omega

/-! ## what program counters know, framed -/

theorem Walk.frame {s s' : State} {h key : Nat} {pred cur : Option Nat} (F : FrameC s s' (.list h))
    (w : Walk s h key pred cur) : Walk s' h key pred cur := by
  obtain ⟨l1, l2, h1, h2, h3, h4⟩ := w
  have hc : chainOf s'.heap (some h) = chainOf s.heap (some h) := F.chain
  refine ⟨l1, l2, by rw [hc]; exact h1, h2, h3, ?_⟩
  intro j hj
  have : j ∈ chainC s (.list h) := by
    show j ∈ chainOf s.heap (some h)
    rw [h1]; exact List.mem_append_left _ hj
  rw [F.node j this]; exact h4 j hj

theorem FreshOK.frame {s s' : State} {b : Nat} {p : Pending} (F : FrameC s s' (.tree b)) (h : FreshOK s b p) :
    FreshOK s' b p := by
  obtain ⟨_, _, f1, f2⟩ := F.own b rfl
  intro j _ ho hin
  by_cases hjl : j < s.heap.length
  · have e := f1 j hjl (Or.inr ho)
    rw [e] at ho hin ⊢
    exact h j hjl ho hin
  · exact absurd ho (f2 j (by omega))

theorem FrameC.chainOfBin {s s' : State} {b : Nat} (F : FrameC s s' (.tree b)) : chainOfBin s' b = chainOfBin s b := F.chain

theorem RemOK.frame {s s' : State} {b : Nat} {p : Pending} {i : Nat} {res : KRes} (F : FrameC s s' (.tree b))
    (h : RemOK s b p i res) : RemOK s' b p i res := by
  obtain ⟨h1, h2, h3, h4⟩ := h
  have e := F.node i h1
  exact ⟨by rw [F.chainOfBin]; exact h1, by rw [e]; exact h2, by rw [e]; exact h3, by rw [e]; exact h4⟩

/-- what a program counter knows survives if the structure it is validated for is framed -/
theorem PcInv.frame {s s' : State} {p : Pending} {pc : Pc} (hlen : s.heap.length ≤ s'.heap.length) (h : PcInv s p pc)
    (hL : ∀ h, validL pc = some h → FrameC s s' (.list h))
    (hT : ∀ b, validT pc = some b → FrameC s s' (.tree b)) : PcInv s' p pc := by
  cases pc <;> simp only [PcInv] at h ⊢
  case rNode cur =>
    cases cur with
    | none => trivial
    | some c => exact Nat.lt_of_lt_of_le h hlen
  case rState b cur =>
    cases cur with
    | none => trivial
    | some c => exact Nat.lt_of_lt_of_le h hlen
  case rLin b c => omega
  case rCas b c r => omega
  case rVal i => exact h
  case lNode cur =>
    cases cur with
    | none => trivial
    | some c => exact Nat.lt_of_lt_of_le h hlen
  case wFind tab h0 pred cur => exact Walk.frame (hL h0 rfl) h
  case wStore tab h0 pred hit hnext =>
    have F := hL h0 rfl
    refine ⟨Walk.frame F h.1, ?_⟩
    intro i hi
    obtain ⟨l1, l2, w1, w2, _, _⟩ := h.1
    have hic : i ∈ chainC s (.list h0) := by
      show i ∈ chainOf s.heap (some h0)
      rw [w1]
      subst hi
      cases l2 with
      | nil => cases w2
      | cons a l2' =>
        simp only [List.head?_cons, Option.some.injEq] at w2
        subst w2; simp
    rw [F.node i hic]; exact h.2 i hi
  case tVal tab b i v res =>
    have F := hT b rfl
    have e := F.node i h.1
    exact ⟨by rw [F.chainOfBin]; exact h.1, by rw [e]; exact h.2.1, by rw [e]; exact h.2.2⟩
  case lrTry tab b k res =>
    cases k with
    | insert => exact FreshOK.frame (hT b rfl) h
    | remove i => exact RemOK.frame (hT b rfl) h
  case lrLoop tab b k res =>
    cases k with
    | insert => exact FreshOK.frame (hT b rfl) h
    | remove i => exact RemOK.frame (hT b rfl) h
  case tPrependLocked tab b => exact FreshOK.frame (hT b rfl) h
  case tTreeLinkLocked tab b x =>
    have F := hT b rfl
    have e := F.node x h.1
    exact ⟨by rw [F.chainOfBin]; exact h.1, by rw [e]; exact h.2.1, by rw [e]; exact h.2.2.1, FreshOK.frame F h.2.2.2⟩
  case tUnlinkLocked tab b i res => exact RemOK.frame (hT b rfl) h
  case tRestructure tab b i res =>
    have F := hT b rfl
    obtain ⟨h1, h2, h3, h4⟩ := h
    have e := (F.own b rfl).2.2.1 i h3 (Or.inl h4)
    exact ⟨by rw [F.chainOfBin]; exact h1, by rw [e]; exact h2, by omega, by rw [e]; exact h4⟩

theorem FrameC.tree_node {s s' : State} {C : Cell} (F : FrameC s s' C) {j : Nat} (h : treeOf s C j) :
    nodeAt s'.heap j = nodeAt s.heap j := by
  obtain ⟨hjl, _, b, rfl, h3⟩ := h
  exact (F.own b rfl).2.2.1 j hjl (Or.inl h3)

/-- a copy relation survives if both structures are framed -/
theorem CopyOK.frame {s s' : State} {old : Cell} {sel : Nat → Bool} {C : Cell} (hok' : NextOK s'.heap)
    (hlen : s.heap.length ≤ s'.heap.length) (htl : s.tbins.length ≤ s'.tbins.length)
    (Fo : FrameC s s' old) (Fc : FrameC s s' C) (h : CopyOK s old sel C) : CopyOK s' old sel C := by
  have eO := Fo.chain
  have eC := Fc.chain
  refine ⟨h.notMoved, Fc.cinv hok' hlen h.cinv, ?_, ?_, ?_, ?_, ?_, ?_, ?_, ?_⟩
  · intro b hb
    have := h.cellOK b hb
    omega
  · intro j hj
    rw [eC] at hj
    rw [Fc.node j hj]; exact h.chainOwner j hj
  · intro j hj
    rcases hj with hj | hj
    · rw [eC] at hj
      rw [Fc.node j hj]; exact h.selOK j (Or.inl hj)
    · have hj' := (Fc.treeOf_iff hlen j).1 hj
      rw [Fc.tree_node hj']; exact h.selOK j (Or.inr hj')
  · intro j hj hjo
    rw [eC] at hj
    rw [eO] at hjo
    obtain ⟨i, hi1, hi2, hi3, hi4⟩ := h.src j hj hjo
    refine ⟨i, by rw [eO]; exact hi1, by rw [Fo.node i hi1, Fc.node j hj]; exact hi2,
      by rw [Fo.node i hi1, Fc.node j hj]; exact hi3, ?_⟩
    intro r hr hrc
    rw [eO] at hr ⊢
    rw [eC] at hrc
    exact hi4 r hr hrc
  · intro i hi1 hsel
    rw [eO] at hi1
    rw [Fo.node i hi1] at hsel
    obtain ⟨j, hj1, hj2, hj3, hj4⟩ := h.cover i hi1 hsel
    refine ⟨j, by rw [eC]; exact hj1, by rw [Fo.node i hi1, Fc.node j hj1]; exact hj2,
      by rw [Fo.node i hi1, Fc.node j hj1]; exact hj3, ?_⟩
    rw [eO]; exact hj4
  · intro r hr hrc i hi1 hsub
    rw [eO] at hr hi1 hsub
    rw [eC] at hrc ⊢
    exact h.suffix r hr hrc i hi1 hsub
  · intro i c hi1 hc hsub
    rw [eO] at hi1 hc ⊢
    rw [eC] at hsub
    exact h.order i c hi1 hc hsub
  · intro b hCb hob
    obtain ⟨f1, f2, f3⟩ := h.fresh b hCb hob
    obtain ⟨_, g1, g2, g3⟩ := Fc.own b hCb
    refine ⟨by rw [g1]; exact f1, ?_, ?_⟩
    · intro j hj
      rw [eC]
      by_cases hjl : j < s.heap.length
      · rw [← f2 j hjl]
        constructor
        · intro ho; rw [← g2 j hjl (Or.inr ho)]; exact ho
        · intro ho; rw [g2 j hjl (Or.inl ho)]; exact ho
      · constructor
        · intro ho; exact absurd ho (g3 j (by omega))
        · intro hc; exact absurd (Fc.lt j hc) hjl
    · intro j hj
      rw [eC] at hj
      rw [Fc.node j hj]; exact f3 j hj


/-! ## (a) `Writable` from the invariant -/

namespace InvW

/-- the resizing thread has built (or partly stored) the new structures and not yet stored the marker -/
def planPc : Pc → Bool
  | .xStoreLow _ _ _ _ | .xStoreHigh _ _ _ | .xStoreMoved _ _ => true
  | _ => false

theorem planPc_of_pend {s : State} {pc : Pc} (hx : xPc pc = true) (hp : pend s pc ≠ []) : planPc pc = true := by
  cases pc <;> simp [xPc] at hx <;> simp [pend] at hp <;> rfl

theorem planPc_of_lowStored {pc : Pc} {j : Nat} (h : lowStored pc = some j) : planPc pc = true := by
  cases pc <;> simp [lowStored] at h <;> rfl

theorem planPc_of_highStored {pc : Pc} {j : Nat} (h : highStored pc = some j) : planPc pc = true := by
  cases pc <;> simp [highStored] at h <;> rfl

theorem planPc_facts {pc : Pc} (h : planPc pc = true) :
    xPc pc = true ∧ xPre pc = true ∧ tabOf pc = none ∧ validated pc = true ∧ ∃ j, xIdx pc = some j := by
  cases pc with
  | xStoreLow j unl lo hi => cases unl <;> simp [xPc, xPre, tabOf, validated, validL, validT, unlL, unlT, xIdx]
  | xStoreHigh j unl hi => cases unl <;> simp [xPc, xPre, tabOf, validated, validL, validT, unlL, unlT, xIdx]
  | xStoreMoved j unl => cases unl <;> simp [xPc, xPre, tabOf, validated, validL, validT, unlL, unlT, xIdx]
  | _ => simp [planPc] at h

theorem xPc_of_planPc {pc : Pc} (h : planPc pc = true) : xPc pc = true := (planPc_facts h).1

theorem XPc_of_not_plan {s : State} {pc : Pc} (h : planPc pc = false) : XPc s pc := by
  cases pc <;> simp [planPc] at h <;> trivial

theorem cidOf_of_xIdx {s : State} {l : Local} {j : Nat} (h : xIdx l.pc = some j) : cidOf s l = (s.cur, j) := by
  unfold cidOf; rw [h]

end InvW
open InvW

/-- the cell a validated thread works in holds a list or a tree bin -/
theorem LInv.valid_cell {s : State} (L : LInv s) {t : Nat} {l : Local} (hl : s.threads[t]? = some l)
    (hv : validated l.pc = true) : (∃ h, cellAt s (cidOf s l) = .list h) ∨ (∃ b, cellAt s (cidOf s l) = .tree b) := by
  rcases validated_cases hv with ⟨a, ha⟩ | ⟨b, hb⟩
  · exact Or.inl ⟨a, L.vL t l a hl ha⟩
  · exact Or.inr ⟨b, L.vT t l b hl hb⟩

/-- while a thread is validated in `id` (and is not the resizing thread), or `id` is empty: the resizing thread is not
between its build step and the forwarding store OF THE CELL `id` -/
theorem Inv.no_planner {s : State} {id : Cid} {t : Nat} {l : Local} (I : Inv s) (hl : s.threads[t]? = some l)
    (hv : (validated l.pc = true ∧ cidOf s l = id ∧ xPc l.pc = false) ∨ cellAt s id = .empty)
    {t' : Nat} {l' : Local} (hl' : s.threads[t']? = some l')
    (hp : planPc l'.pc = true) (hid : cidOf s l' = id) : False := by
  obtain ⟨hxp, _, _, hval, _⟩ := planPc_facts hp
  rcases hv with ⟨hv, hcid, hnx⟩ | he
  · have : t' = t := I.lock.valid_unique hl' hl hval hv (by rw [hid, hcid])
    subst this
    rw [hl] at hl'; cases hl'
    rw [hxp] at hnx; cases hnx
  · rcases I.lock.valid_cell hl' hval with ⟨a, ha⟩ | ⟨b, hb⟩
    · rw [hid, he] at ha; cases ha
    · rw [hid, he] at hb; cases hb

theorem Inv.writable_of {s : State} {id : Cid} (_I : Inv s)
    (hact : (id.1 = s.cur ∧ cellAt s id ≠ .moved) ∨ (id.1 = s.cur + 1 ∧ cellAt s (s.cur, id.2 % 2 ^ s.cur) = .moved))
    (hnp : ∀ (t' : Nat) (l' : Local), s.threads[t']? = some l' → planPc l'.pc = true → cidOf s l' = id → False)
    (hpriv : ∀ b, cellAt s id = .tree b → ¬ PrivBin s b) : Writable s id := by
  refine ⟨hact, ?_, hpriv⟩
  intro t' l' hl' hg hi
  apply Classical.byContradiction
  intro hne
  refine hnp t' l' hl' (planPc_of_pend (xPc_of_xIdx hi) hne) ?_
  rw [cidOf_of_xIdx hi, ← hg]

/-- a validated thread (other than the resizing thread) may store into the structure of its cell -/
theorem Inv.writable_valid {s : State} {t : Nat} {l : Local} (I : Inv s) (hl : s.threads[t]? = some l)
    (hv : validated l.pc = true) (hnx : xPc l.pc = false) : Writable s (cidOf s l) :=
  Writable.of_validated I hl hv hnx

/-- the CAS into an empty cell -/
theorem Inv.writable_empty {s : State} {t : Nat} {l : Local} {p : Pending} {tab : Nat} (I : Inv s)
    (hl : s.threads[t]? = some l) (hp : l.call = some p) (hpc : l.pc = .wCas tab)
    (he : cellOf s tab p.key = .empty) : Writable s (idOf tab p.key) := by
  rw [cellOf_eq] at he
  have X := I.rsz
  have hk : keyOf l = p.key := by simp only [keyOf, hpc, hp]
  obtain ⟨hle, hnew⟩ := X.tabNew t l tab hl (by rw [hpc]; rfl)
  refine I.writable_of ?_ (fun t' l' hl' hp' hid => I.no_planner hl (Or.inr he) hl' hp' hid) ?_
  · by_cases h1 : tab < s.cur
    · have hm := X.old tab (p.key % 2 ^ tab) h1 (Nat.mod_lt p.key (two_pow_pos' tab))
      have he' : cellAt s (tab, p.key % 2 ^ tab) = .empty := he
      rw [hm] at he'; cases he'
    · by_cases h2 : tab = s.cur
      · exact Or.inl ⟨h2, by rw [he]; intro h; cases h⟩
      · have h3 : tab = s.cur + 1 := by omega
        refine Or.inr ⟨h3, ?_⟩
        have hm := hnew h3
        rw [hk] at hm
        subst h3
        show cellAt s (s.cur, p.key % 2 ^ (s.cur + 1) % 2 ^ s.cur) = .moved
        rw [Store.mod_succ_mod]; exact hm
  · intro b hb; rw [he] at hb; cases hb

/-! ## (b) what the other threads know survives a store into the structure of `id` -/

/-- the structure in another cell is framed -/
theorem Touch.frame_cell {s s' : State} {id : Cid} (T : Touch s s' id) (H : HInv s) (X : XInv s) (W : Writable s id)
    (hok' : NextOK s'.heap) {id' : Cid} (hne : id' ≠ id) : FrameC s s' (cellAt s id') :=
  T.frameC H hok' (H.cinv id').startOK (fun _ hj => W.chain_disj H X hne hj)
    (fun b hb => ⟨W.tree_ne H X hne hb, H.cellOK id' b hb⟩)

/-- a thread that is not validated in `id` keeps what its program counter knows -/
theorem pcInv_other {s s' : State} {id : Cid} {t1 : Nat} {l1 : Local} {p1 : Pending} (I : Inv s) (W : Writable s id)
    (T : Touch s s' id) (hok' : NextOK s'.heap) (h1 : s.threads[t1]? = some l1) (hc1 : l1.call = some p1)
    (hnv : cidOf s l1 = id → validL l1.pc = none ∧ validT l1.pc = none) : PcInv s' p1 l1.pc := by
  refine PcInv.frame T.len (I.data.pcInv t1 l1 p1 h1 hc1) ?_ ?_
  · intro h hv
    have hne : cidOf s l1 ≠ id := fun e => by have := (hnv e).1; rw [hv] at this; cases this
    have := T.frame_cell I.heap I.rsz W hok' hne
    rw [I.lock.vL t1 l1 h h1 hv] at this; exact this
  · intro b hv
    have hne : cidOf s l1 ≠ id := fun e => by have := (hnv e).2; rw [hv] at this; cases this
    have := T.frame_cell I.heap I.rsz W hok' hne
    rw [I.lock.vT t1 l1 b h1 hv] at this; exact this

namespace InvW

theorem KInv_of_not_kStore {s : State} {pc : Pc} (h : ∀ tab k h b, pc ≠ .kStore tab k h b) : KInv s pc := by
  cases pc <;> first | trivial | exact absurd rfl (h _ _ _ _)

end InvW
open InvW

/-- the private `TreeBin` of a treeify is framed by a transition that touches the structure of a cell only -/
theorem Touch.frame_priv {s s' : State} {id : Cid} (T : Touch s s' id) (H : HInv s) (hok' : NextOK s'.heap)
    {old : Cell} {sel : Nat → Bool} {b : Nat} (hcp : CopyOK s old sel (.tree b)) (hnc : cellAt s id ≠ .tree b) :
    FrameC s s' (.tree b) := by
  refine T.frameC H hok' hcp.cinv.startOK ?_ ?_
  · intro j hj
    have ho : (nodeAt s.heap j).owner = some b := hcp.chainOwner j hj
    constructor
    · intro hc
      have := H.chainOwner id j hc
      rw [ho] at this
      exact hnc (ownerOf_eq_some.1 this.symm)
    · intro ht
      have := treeOf_owner ht
      rw [ho] at this
      exact hnc (ownerOf_eq_some.1 this.symm)
  · intro b' hb'
    cases hb'
    exact ⟨hnc, hcp.cellOK b rfl⟩

/-- a treeify thread that is not validated in `id` keeps its private copy; `hcells`: its `TreeBin` is not stored
into `id` -/
theorem kInv_other {s s' : State} {id : Cid} {t1 : Nat} {l1 : Local} (I : Inv s) (W : Writable s id)
    (T : Touch s s' id) (hok' : NextOK s'.heap) (h1 : s.threads[t1]? = some l1)
    (hnv : cidOf s l1 = id → validL l1.pc = none ∧ validT l1.pc = none)
    (hcells : ∀ tab k h b, l1.pc = .kStore tab k h b → cellAt s' id ≠ .tree b) : KInv s' l1.pc := by
  by_cases hks : ∃ tab k h b, l1.pc = .kStore tab k h b
  · obtain ⟨tab, k, h, b, hpc⟩ := hks
    have hk := I.data.kInv t1 l1 h1
    have hv : validL l1.pc = some h := by rw [hpc]; rfl
    have hne : cidOf s l1 ≠ id := fun e => by have := (hnv e).1; rw [hv] at this; cases this
    have hcell := I.lock.vL t1 l1 h h1 hv
    have hnb := hcells tab k h b hpc
    rw [hpc] at hk ⊢
    simp only [KInv] at hk ⊢
    have Fo := T.frame_cell I.heap I.rsz W hok' hne
    rw [hcell] at Fo
    have Fc := T.frame_priv I.heap hok' hk.1 (hk.2 id)
    refine ⟨CopyOK.frame hok' T.len T.tlen Fo Fc hk.1, ?_⟩
    intro id0
    by_cases h0 : id0 = id
    · subst h0; exact hnb
    · rw [T.cells id0 h0]; exact hk.2 id0
  · exact KInv_of_not_kStore (fun tab k h b e => hks ⟨tab, k, h, b, e⟩)

/-- two treeify threads have different private `TreeBin`s (both lists would have to hold the same keys, but they are
in different cells, in which no common key lives) -/
theorem Inv.kStore_bins_ne {s : State} {t t1 : Nat} {l l1 : Local} {tab tab1 : Nat} {k k1 h h1 b b1 : Nat} (I : Inv s)
    (hl : s.threads[t]? = some l) (hl1 : s.threads[t1]? = some l1) (hne : t1 ≠ t)
    (hpc : l.pc = .kStore tab k h b) (hpc1 : l1.pc = .kStore tab1 k1 h1 b1) : b1 ≠ b := by
  rintro rfl
  have H := I.heap
  have hv : validL l.pc = some h := by rw [hpc]; rfl
  have hv1 : validL l1.pc = some h1 := by rw [hpc1]; rfl
  have hx : xPc l.pc = false := by rw [hpc]; rfl
  have hcell := I.lock.vL t l h hl hv
  have hcell1 := I.lock.vL t1 l1 h1 hl1 hv1
  have hk := I.data.kInv t l hl
  have hk1 := I.data.kInv t1 l1 hl1
  rw [hpc] at hk
  rw [hpc1] at hk1
  simp only [KInv] at hk hk1
  by_cases hid : cidOf s l1 = cidOf s l
  · exact hne (I.lock.valid_unique hl1 hl (validated_of_validL hv1) (validated_of_validL hv) hid)
  · have W := I.writable_valid hl (validated_of_validL hv) hx
    rcases W.other_cases I.rsz hid with he | he | hs
    · rw [he] at hcell1; cases hcell1
    · rw [he] at hcell1; cases hcell1
    · -- the head of the list of `l1` has a copy in `b1`, which has a source on the list of `l`
      have hch1 := (H.cinv (cidOf s l1)).isChain
      rw [hcell1] at hch1
      obtain ⟨r, hr⟩ := Flurry.Proto.BinK.IsChain.start_some hch1
      have hh1 : h1 ∈ chainC s (.list h1) := by
        show h1 ∈ chainOf s.heap (startOf s.tbins (.list h1))
        rw [hr]; simp
      obtain ⟨j, hj, hjk, -⟩ := hk1.1.cover h1 hh1 rfl
      have hjo : (nodeAt s.heap j).owner = some b1 := hk.1.chainOwner j hj
      have hjn : j ∉ chainC s (.list h) := by
        intro hc
        have := H.chainOwner (cidOf s l) j (by rw [hcell]; exact hc)
        rw [hjo, hcell] at this
        cases this
      obtain ⟨i, hi, hik, -⟩ := hk.1.src j hj hjn
      have s1 := H.side (cidOf s l1) h1 (Or.inl (by rw [hcell1]; exact hh1))
      have s2 := H.side (cidOf s l) i (Or.inl (by rw [hcell]; exact hi))
      rw [hik, hjk] at s2
      exact hs _ s1 s2

/-! ## (c) assembling `Inv s'` -/

namespace InvW

theorem xPc_of_xPre {pc : Pc} (h : xPre pc = true) : xPc pc = true := by
  cases pc <;> simp [xPre] at h <;> rfl

theorem pend_ne_nil_of_planPc {s : State} {pc : Pc} (h : planPc pc = true) : pend s pc ≠ [] := by
  cases pc <;> simp [planPc] at h <;> simp [pend]

end InvW
open InvW

/-- no planner works in the cell `id` -/
theorem Writable.not_planPc {s : State} {id : Cid} (W : Writable s id) {t1 : Nat} {l1 : Local}
    (h1 : s.threads[t1]? = some l1) (hid : cidOf s l1 = id) : planPc l1.pc = false := by
  cases hp : planPc l1.pc with
  | false => rfl
  | true =>
    obtain ⟨_, _, _, _, j, hj⟩ := planPc_facts hp
    rw [cidOf_of_xIdx hj] at hid
    subst hid
    exact absurd (W.noPlan t1 l1 h1 rfl hj) (pend_ne_nil_of_planPc hp)

namespace InvW

theorem planPc_false_of_xPc {pc : Pc} (h : xPc pc = false) : planPc pc = false := by
  cases hp : planPc pc with
  | false => rfl
  | true => rw [xPc_of_planPc hp] at h; cases h

end InvW
open InvW

/-! ### the plan of the resizing thread, framed -/

theorem Plan.frame {s s' : State} {j : Nat} {lo hi : Cell} (hok' : NextOK s'.heap) (hlen : s.heap.length ≤ s'.heap.length)
    (htl : s.tbins.length ≤ s'.tbins.length) (hcur : s'.cur = s.cur)
    (h0 : cellAt s' (s.cur, j) = cellAt s (s.cur, j))
    (F0 : FrameC s s' (cellAt s (s.cur, j))) (Flo : FrameC s s' lo) (Fhi : FrameC s s' hi)
    (h : Plan s j lo hi) : Plan s' j lo hi := by
  refine ⟨?_, ?_, h.distinct⟩
  · rw [hcur, h0]; exact CopyOK.frame hok' hlen htl F0 Flo h.low
  · rw [hcur, h0]; exact CopyOK.frame hok' hlen htl F0 Fhi h.high

/-- what the program counter of the resizing thread says about the children of the cell under transfer survives if
the cell under transfer and its children are unchanged and the three structures are framed -/
theorem XPc.frame {s s' : State} {pc : Pc} (hok' : NextOK s'.heap) (hlen : s.heap.length ≤ s'.heap.length)
    (htl : s.tbins.length ≤ s'.tbins.length) (hcur : s'.cur = s.cur)
    (hcells : ∀ j, xIdx pc = some j → cellAt s' (s.cur, j) = cellAt s (s.cur, j) ∧
      cellAt s' (s.cur + 1, j) = cellAt s (s.cur + 1, j) ∧
      cellAt s' (s.cur + 1, j + 2 ^ s.cur) = cellAt s (s.cur + 1, j + 2 ^ s.cur))
    (F0 : ∀ j, xIdx pc = some j → FrameC s s' (cellAt s (s.cur, j)))
    (F : xPc pc = true → ∀ C ∈ pend s pc, FrameC s s' C) (h : XPc s pc) : XPc s' pc := by
  cases pc with
  | xStoreLow j unl lo hi =>
    simp only [XPc] at h ⊢
    exact Plan.frame hok' hlen htl hcur (hcells j rfl).1 (F0 j rfl) (F rfl lo (by simp [pend])) (F rfl hi (by simp [pend])) h
  | xStoreHigh j unl hi =>
    simp only [XPc] at h ⊢
    rw [hcur, (hcells j rfl).2.1]
    exact Plan.frame hok' hlen htl hcur (hcells j rfl).1 (F0 j rfl) (F rfl _ (by simp [pend])) (F rfl hi (by simp [pend])) h
  | xStoreMoved j unl =>
    simp only [XPc] at h ⊢
    rw [hcur, (hcells j rfl).2.1, (hcells j rfl).2.2]
    exact Plan.frame hok' hlen htl hcur (hcells j rfl).1 (F0 j rfl) (F rfl _ (by simp [pend])) (F rfl _ (by simp [pend])) h
  | _ => trivial

/-- the plan of a thread survives a store into the structure of `id` (the planner works in another cell) -/
theorem xPc_other {s s' : State} {id : Cid} {t1 : Nat} {l1 : Local} (I : Inv s) (W : Writable s id)
    (T : Touch s s' id) (hok' : NextOK s'.heap) (h1 : s.threads[t1]? = some l1) : XPc s' l1.pc := by
  have H := I.heap
  have X := I.rsz
  cases hp : planPc l1.pc with
  | false => exact XPc_of_not_plan hp
  | true =>
    have hx := xPc_of_planPc hp
    obtain ⟨C0, hC0⟩ : ∃ C0, C0 ∈ pend s l1.pc := by
      cases hpe : pend s l1.pc with
      | nil => exact absurd hpe (pend_ne_nil_of_planPc hp)
      | cons a _ => exact ⟨a, by simp⟩
    obtain ⟨j0, hi, hn0, hn1, hn2, -, -, -⟩ := W.pend_frame H X h1 hx hC0
    refine XPc.frame hok' T.len T.tlen T.cur ?_ ?_ ?_ (X.plan t1 l1 h1)
    · intro j hj
      rw [hi] at hj; cases hj
      exact ⟨T.cells _ hn0, T.cells _ hn1, T.cells _ hn2⟩
    · intro j hj
      rw [hi] at hj; cases hj
      exact T.frame_cell H X W hok' hn0
    · intro _ C hC
      obtain ⟨_, _, _, _, _, hst, hd, hb⟩ := W.pend_frame H X h1 hx hC
      exact T.frameC H hok' hst hd hb

/-- `XInv` after a step of a thread that is not the resizing thread that touches the structure of `id` only: the
generation structure is supplied (`XShape s'`), the plans of the other threads are framed -/
theorem xinv_store {s s' : State} {id : Cid} {t : Nat} {l' : Local} (I : Inv s) (W : Writable s id)
    (T : Touch s s' id) (hok' : NextOK s'.heap) (hthr : s'.threads = s.threads.set t l')
    (hx' : xPc l'.pc = false) (XS' : XShape s') : XInv s' := by
  refine XS'.xinv ?_
  intro t1 l1 h1
  rw [hthr] at h1
  rcases get_set h1 with ⟨rfl, rfl⟩ | ⟨_, h1⟩
  · exact XPc_of_not_plan (planPc_false_of_xPc hx')
  · exact xPc_other I W T hok' h1

/-- a store by thread `t` into the structure of cell `id`: the acting thread is validated in `id`, or it is the CAS
into the empty cell `id` -/
theorem inv_store {s s' : State} {id : Cid} {t : Nat} {l l' : Local} (I : Inv s) (W : Writable s id) (T : Touch s s' id)
    (hl : s.threads[t]? = some l)
    (hv : (validated l.pc = true ∧ cidOf s l = id) ∨ (cellAt s id = .empty ∧ validT l.pc = none))
    (hthr : s'.threads = s.threads.set t l') (H' : HInv s') (T' : TInv s') (L' : LInv s') (XS' : XShape s')
    (hx' : xPc l'.pc = false)
    (hcell' : ∀ b, cellAt s' id = .tree b → cellAt s id = .tree b ∨ ∃ tab k h, l.pc = .kStore tab k h b)
    (hself : ∀ p, l'.call = some p → PcInv s' p l'.pc) (hkself : KInv s' l'.pc)
    (htree : ∀ b, cellAt s' id = .tree b → ∀ j, j < s'.heap.length → (nodeAt s'.heap j).owner = some b →
      (nodeAt s'.heap j).inTree = true → j ∉ chainOfBin s' b →
      (∃ tab res, l'.pc = .tRestructure tab b j res) ∨ (∃ tab res, l'.pc = .tUntreeify tab b res))
    (hchain : ∀ b, cellAt s' id = .tree b → ∀ j ∈ chainOfBin s' b, (nodeAt s'.heap j).inTree = false →
      ∃ tab, l'.pc = .tTreeLinkLocked tab b j) : Inv s' := by
  have H := I.heap
  have X := I.rsz
  have hok' := H'.nextOK
  have hself' : s'.threads[t]? = some l' := by rw [hthr]; exact get_set_self hl
  have hv0 : (validated l.pc = true ∧ cidOf s l = id) ∨ cellAt s id = .empty := by
    rcases hv with h | h
    · exact Or.inl h
    · exact Or.inr h.1
  -- the acting thread is not validated for a `TreeBin` of another cell
  have hnotT : ∀ id0 b, id0 ≠ id → cellAt s id0 = .tree b → validT l.pc ≠ some b := by
    intro id0 b hne hc hvt
    rcases hv with ⟨_, hid⟩ | ⟨_, hn⟩
    · have := I.lock.vT t l b hl hvt
      rw [hid] at this
      exact W.tree_ne H X hne hc this
    · rw [hn] at hvt; cases hvt
  refine ⟨H', T', xinv_store I W T hok' hthr hx' XS', L', ?_, ?_, ?_, ?_⟩
  · intro t1 l1 p1 h1 hc1
    rw [hthr] at h1
    rcases get_set h1 with ⟨rfl, rfl⟩ | ⟨hne, h1⟩
    · exact hself p1 hc1
    · exact pcInv_other I W T hok' h1 hc1 (fun e => others_not_valid_cell I.lock hl hv0 hne h1 e)
  · intro t1 l1 h1
    rw [hthr] at h1
    rcases get_set h1 with ⟨rfl, rfl⟩ | ⟨hne, h1⟩
    · exact hkself
    · refine kInv_other I W T hok' h1 (fun e => others_not_valid_cell I.lock hl hv0 hne h1 e) ?_
      intro tab1 k1 hh1 b1 hpc1 hc
      have hk1 := I.data.kInv t1 l1 h1
      rw [hpc1] at hk1
      rcases hcell' b1 hc with h | ⟨tab, k, h, hpc⟩
      · exact hk1.2 id h
      · exact I.kStore_bins_ne hl h1 hne hpc hpc1 rfl
  · intro id0 b hc j hj ho hin hnc
    by_cases h0 : id0 = id
    · subst h0
      exact ⟨t, l', hself', htree b hc j hj ho hin hnc⟩
    · have hc0 : cellAt s id0 = .tree b := by rw [← T.cells id0 h0]; exact hc
      have F := T.frame_cell H X W hok' h0
      rw [hc0] at F
      obtain ⟨g1, g2, b', hb', g3⟩ := (F.treeOf_iff T.len j).1 ⟨hj, hin, b, rfl, ho⟩
      cases hb'
      rw [F.chainOfBin] at hnc
      obtain ⟨t0, l0, hl0, hw⟩ := I.data.treeSub id0 b hc0 j g1 g3 g2 hnc
      have hne : t0 ≠ t := by
        rintro rfl
        rw [hl] at hl0; cases hl0
        refine hnotT id0 b h0 hc0 ?_
        rcases hw with ⟨tab, res, e⟩ | ⟨tab, res, e⟩ <;> rw [e] <;> rfl
      exact ⟨t0, l0, by rw [hthr, get_set_ne hne]; exact hl0, hw⟩
  · intro id0 b hc j hj hin
    by_cases h0 : id0 = id
    · subst h0
      obtain ⟨tab, e⟩ := hchain b hc j hj hin
      exact ⟨t, l', tab, hself', e⟩
    · have hc0 : cellAt s id0 = .tree b := by rw [← T.cells id0 h0]; exact hc
      have F := T.frame_cell H X W hok' h0
      rw [hc0] at F
      rw [F.chainOfBin] at hj
      rw [F.node j hj] at hin
      obtain ⟨t0, l0, tab, hl0, hw⟩ := I.data.chainSub id0 b hc0 j hj hin
      have hne : t0 ≠ t := by
        rintro rfl
        rw [hl] at hl0; cases hl0
        refine hnotT id0 b h0 hc0 ?_
        rw [hw]; rfl
      exact ⟨t0, l0, tab, by rw [hthr, get_set_ne hne]; exact hl0, hw⟩

/-! ### a private allocation (`kBuild`) -/

/-- a step of thread `t` (not the resizing thread, not validated for a `TreeBin`) that allocates nodes and `TreeBin`s
at the end and changes nothing that exists (`kBuild`) -/
theorem inv_grow {s s' : State} {t : Nat} {l l' : Local} (I : Inv s) (hl : s.threads[t]? = some l)
    (hthr : s'.threads = s.threads.set t l') (H' : HInv s') (T' : TInv s') (L' : LInv s') (XS' : XShape s')
    (hlen : s.heap.length ≤ s'.heap.length)
    (hold : ∀ j, j < s.heap.length → nodeAt s'.heap j = nodeAt s.heap j)
    (htl : s.tbins.length ≤ s'.tbins.length)
    (hbin : ∀ b, b < s.tbins.length → binAt s'.tbins b = binAt s.tbins b)
    (hno : ∀ j, s.heap.length ≤ j → ∀ b, (nodeAt s'.heap j).owner = some b → s.tbins.length ≤ b)
    (hcells : ∀ id, cellAt s' id = cellAt s id) (hcur : s'.cur = s.cur)
    (hx' : xPc l'.pc = false) (hvT : validT l.pc = none)
    (hself : ∀ p, l'.call = some p → PcInv s' p l'.pc) (hkself : KInv s' l'.pc) : Inv s' := by
  have H := I.heap
  have hok' := H'.nextOK
  have F : ∀ C, (∀ h, startOf s.tbins C = some h → h < s.heap.length) → (∀ b, C = .tree b → b < s.tbins.length) →
      FrameC s s' C := fun C hst hb => frameC_grow H.nextOK hok' hlen hold hbin hno hst hb
  have Fcell : ∀ id, FrameC s s' (cellAt s id) := fun id => F _ (H.cinv id).startOK (fun b hb => H.cellOK id b hb)
  have hself' : s'.threads[t]? = some l' := by rw [hthr]; exact get_set_self hl
  have XI' : XInv s' := by
    refine XS'.xinv ?_
    intro t1 l1 h1'
    rw [hthr] at h1'
    rcases get_set h1' with ⟨rfl, rfl⟩ | ⟨_, h1'⟩
    · exact XPc_of_not_plan (planPc_false_of_xPc hx')
    · refine XPc.frame hok' hlen htl hcur (fun j _ => ⟨hcells _, hcells _, hcells _⟩) (fun j _ => Fcell _) ?_
        (I.rsz.plan t1 l1 h1')
      intro hx1 C hC
      obtain ⟨j0, sel, _, _, hcp⟩ := pend_copyOK hx1 (I.rsz.plan t1 l1 h1') hC
      exact F C hcp.cinv.startOK hcp.cellOK
  refine ⟨H', T', XI', L', ⟨?_, ?_, ?_, ?_⟩⟩
  · intro t1 l1 p1 h1' hc1
    rw [hthr] at h1'
    rcases get_set h1' with ⟨rfl, rfl⟩ | ⟨_, h1'⟩
    · exact hself p1 hc1
    · refine PcInv.frame hlen (I.data.pcInv t1 l1 p1 h1' hc1) ?_ ?_
      · intro h hv
        have := Fcell (cidOf s l1)
        rw [I.lock.vL t1 l1 h h1' hv] at this; exact this
      · intro b hv
        have := Fcell (cidOf s l1)
        rw [I.lock.vT t1 l1 b h1' hv] at this; exact this
  · intro t1 l1 h1'
    rw [hthr] at h1'
    rcases get_set h1' with ⟨rfl, rfl⟩ | ⟨_, h1'⟩
    · exact hkself
    · by_cases hks : ∃ tab k h b, l1.pc = .kStore tab k h b
      · obtain ⟨tab, k, h, b, hpc⟩ := hks
        have hk := I.data.kInv t1 l1 h1'
        have hv : validL l1.pc = some h := by rw [hpc]; rfl
        have Fo := Fcell (cidOf s l1)
        rw [I.lock.vL t1 l1 h h1' hv] at Fo
        rw [hpc] at hk ⊢
        simp only [KInv] at hk ⊢
        refine ⟨CopyOK.frame hok' hlen htl Fo (F _ hk.1.cinv.startOK hk.1.cellOK) hk.1, ?_⟩
        intro id0
        rw [hcells id0]; exact hk.2 id0
      · exact KInv_of_not_kStore (fun tab k h b e => hks ⟨tab, k, h, b, e⟩)
  · intro id0 b hc j hj ho hin hnc
    rw [hcells id0] at hc
    have Fc := Fcell id0
    rw [hc] at Fc
    obtain ⟨g1, g2, b', hb', g3⟩ := (Fc.treeOf_iff hlen j).1 ⟨hj, hin, b, rfl, ho⟩
    cases hb'
    rw [Fc.chainOfBin] at hnc
    obtain ⟨t0, l0, hl0, hw⟩ := I.data.treeSub id0 b hc j g1 g3 g2 hnc
    have hne : t0 ≠ t := by
      rintro rfl
      rw [hl] at hl0; cases hl0
      rcases hw with ⟨tab, res, e⟩ | ⟨tab, res, e⟩ <;> rw [e] at hvT <;> cases hvT
    exact ⟨t0, l0, by rw [hthr, get_set_ne hne]; exact hl0, hw⟩
  · intro id0 b hc j hj hin
    rw [hcells id0] at hc
    have Fc := Fcell id0
    rw [hc] at Fc
    rw [Fc.chainOfBin] at hj
    rw [Fc.node j hj] at hin
    obtain ⟨t0, l0, tab, hl0, hw⟩ := I.data.chainSub id0 b hc j hj hin
    have hne : t0 ≠ t := by
      rintro rfl
      rw [hl] at hl0; cases hl0
      rw [hw] at hvT; cases hvT
    exact ⟨t0, l0, tab, by rw [hthr, get_set_ne hne]; exact hl0, hw⟩

/-! ## (d) assembling `Eff s s'` -/

namespace InvW

theorem range_split {n m : Nat} (h : n ≤ m) : List.range m = List.range n ++ List.range' n (m - n) := by
  rw [List.range_eq_range', List.range_eq_range']
  have := List.range'_append_1 (s := 0) (m := n) (n := m - n)
  simp at this
  rw [this]
  congr 1
  omega

theorem find?_congr_mem {α : Type} {p q : α → Bool} : ∀ {l : List α}, (∀ x ∈ l, p x = q x) → l.find? p = l.find? q
  | [], _ => rfl
  | a :: l, h => by
    have ha := h a (by simp)
    have ih := find?_congr_mem (l := l) (fun x hx => h x (by simp [hx]))
    simp only [List.find?_cons, ha, ih]

theorem treeFind_spec {s : State} {b k i : Nat} (h : treeFind s b k = some i) :
    i < s.heap.length ∧ (nodeAt s.heap i).owner = some b ∧ (nodeAt s.heap i).inTree = true ∧ (nodeAt s.heap i).key = k := by
  rw [treeFind_def] at h
  have h1 := List.mem_of_find?_eq_some h
  have h2 := List.find?_some h
  simp only [Bool.and_eq_true, beq_iff_eq] at h2
  exact ⟨List.mem_range.1 h1, h2.1.1, h2.1.2, h2.2⟩

end InvW
open InvW

/-- the nodes of a `TreeBin` other than that of `id` -/
theorem Touch.own_frame {s s' : State} {id : Cid} (T : Touch s s' id) (H : HInv s) {b : Nat} (hb : b < s.tbins.length)
    (hne : cellAt s id ≠ .tree b) :
    (∀ j, j < s.heap.length → ((nodeAt s.heap j).owner = some b ∨ (nodeAt s'.heap j).owner = some b) →
      nodeAt s'.heap j = nodeAt s.heap j) ∧
    (∀ j, s.heap.length ≤ j → (nodeAt s'.heap j).owner ≠ some b) := by
  constructor
  · intro j hj ho
    have ho' : (nodeAt s.heap j).owner = some b := by
      rcases ho with ho | ho
      · exact ho
      · rw [← (T.keep j hj).2.1]; exact ho
    refine T.node j hj ?_ ?_
    · intro hc'
      have := H.chainOwner id j hc'
      rw [ho'] at this
      exact hne (ownerOf_eq_some.1 this.symm)
    · intro ht
      have := treeOf_owner ht
      rw [ho'] at this
      exact hne (ownerOf_eq_some.1 this.symm)
  · intro j hj ho
    rcases T.newOwner j hj b ho with h | h
    · exact hne h
    · omega

/-- the tree content of a `TreeBin` whose nodes are untouched -/
theorem absTree_frame {s s' : State} {b : Nat} (hlen : s.heap.length ≤ s'.heap.length)
    (hold : ∀ j, j < s.heap.length → ((nodeAt s.heap j).owner = some b ∨ (nodeAt s'.heap j).owner = some b) →
      nodeAt s'.heap j = nodeAt s.heap j)
    (hnew : ∀ j, s.heap.length ≤ j → (nodeAt s'.heap j).owner ≠ some b) (k : Nat) :
    absTree s' b k = absTree s b k := by
  have hfind : treeFind s' b k = treeFind s b k := by
    rw [treeFind_def, treeFind_def, range_split hlen, List.find?_append]
    have h2 : (List.range' s.heap.length (s'.heap.length - s.heap.length)).find? (fun i =>
        (nodeAt s'.heap i).owner == some b && (nodeAt s'.heap i).inTree && (nodeAt s'.heap i).key == k) = none := by
      rw [List.find?_eq_none]
      intro x hx
      have hxl : s.heap.length ≤ x := (List.mem_range'_1.1 hx).1
      have := hnew x hxl
      simp [this]
    rw [h2, Option.or_none]
    refine find?_congr_mem ?_
    intro x hx
    have hxl := List.mem_range.1 hx
    by_cases ho : (nodeAt s.heap x).owner = some b ∨ (nodeAt s'.heap x).owner = some b
    · rw [hold x hxl ho]
    · have h1 : (nodeAt s.heap x).owner ≠ some b := fun h => ho (Or.inl h)
      have h2 : (nodeAt s'.heap x).owner ≠ some b := fun h => ho (Or.inr h)
      have e1 : ((nodeAt s.heap x).owner == some b) = false := by simpa using h1
      have e2 : ((nodeAt s'.heap x).owner == some b) = false := by simpa using h2
      show ((nodeAt s'.heap x).owner == some b && (nodeAt s'.heap x).inTree && (nodeAt s'.heap x).key == k) =
        ((nodeAt s.heap x).owner == some b && (nodeAt s.heap x).inTree && (nodeAt s.heap x).key == k)
      rw [e1, e2]; rfl
  unfold absTree
  rw [hfind]
  cases hf : treeFind s b k with
  | none => rfl
  | some i =>
    obtain ⟨h1, h2, _, _⟩ := treeFind_spec hf
    simp only
    rw [hold i h1 (Or.inl h2)]

/-- a cell that holds a `TreeBin` exists -/
theorem XInv.lt_of_tree {s : State} (X : XInv s) {id : Cid} {b : Nat} (h : cellAt s id = .tree b) : id.2 < 2 ^ id.1 := by
  obtain ⟨g, j⟩ := id
  apply Classical.byContradiction
  intro hlt
  have he : cellAt s (g, j) = .empty :=
    cellAt_none (fun row hr => by rw [X.rows g row hr]; exact Nat.le_of_not_lt hlt)
  rw [he] at h; cases h

theorem Writable.liveBin {s : State} {id : Cid} (W : Writable s id) (X : XInv s) {b : Nat} (h : cellAt s id = .tree b) :
    LiveBin s b := by
  refine ⟨id.2, ?_⟩
  rw [(W.liveId_iff id.2).2 (Nat.mod_eq_of_lt (X.lt_of_tree h))]; exact h

/-- `Eff` of a store into the structure of `id` -/
theorem eff_store {s s' : State} {id : Cid} (Iv' : Inv s') (I : Inv s) (W : Writable s id) (T : Touch s s' id)
    (ks : ∀ k, KStep s s' k) (hnm : cellAt s' id ≠ .moved)
    (hfirst : ∀ b, cellAt s id = .tree b → (binAt s'.tbins b).first ≠ (binAt s.tbins b).first → cellAt s' id = .tree b)
    (htreeb : ∀ b k, cellAt s id = .tree b → absTree s' b k ≠ absTree s b k → cellAt s' id = .tree b)
    (hwriter : ∀ b, b < s.tbins.length → (binAt s.tbins b).writer = true → (binAt s'.tbins b).writer = true ∨ InCell s b)
    (hlive : ∀ b, cellAt s id = .tree b → cellAt s' id = .tree b ∨ (¬ InCell s' b ∧ (binAt s'.tbins b).writer = true))
    (hnew : ∀ b, cellAt s' id = .tree b → cellAt s id = .tree b ∨ PrivBin s b) : Eff s s' := by
  have H := I.heap
  have X := I.rsz
  have H' := Iv'.heap
  have hmv := W.moved_iff X T.cells hnm
  have hlid : ∀ k, liveId s' k = liveId s k := Store.liveId_congr T.cur hmv
  -- the cell `id` stays live
  have hlb' : ∀ b, cellAt s' id = .tree b → LiveBin s' b := by
    intro b h
    refine ⟨id.2, ?_⟩
    rw [hlid, (W.liveId_iff id.2).2 (Nat.mod_eq_of_lt (Iv'.rsz.lt_of_tree h))]; exact h
  refine ⟨Iv', ks, ?_, ?_, ?_, ?_⟩
  · intro b hb hne
    by_cases hc : cellAt s id = .tree b
    · exact ⟨W.liveBin X hc, hlb' b (hfirst b hc hne)⟩
    · rw [T.bin b hb hc] at hne; exact absurd rfl hne
  · intro b k hb hne
    by_cases hc : cellAt s id = .tree b
    · have hc' := htreeb b k hc hne
      have hl : liveId s k = id := by
        cases hf : treeFind s b k with
        | some i =>
          obtain ⟨h1, h2, h3, h4⟩ := treeFind_spec hf
          have := W.liveId_of_mem H (j := i) (Or.inr (by rw [hc]; exact ⟨h1, h3, b, rfl, h2⟩))
          rw [h4] at this; exact this
        | none =>
          cases hf' : treeFind s' b k with
          | none =>
            exfalso; apply hne
            unfold absTree; rw [hf, hf']
          | some i =>
            obtain ⟨h1, h2, h3, h4⟩ := treeFind_spec hf'
            rw [W.liveId_iff]
            have := H'.side id i (Or.inr (by rw [hc']; exact ⟨h1, h3, b, rfl, h2⟩))
            rw [h4] at this; exact this
      rw [hlid, hl]; exact ⟨hc, hc'⟩
    · obtain ⟨f1, f2⟩ := T.own_frame H hb hc
      exact absurd (absTree_frame T.len f1 f2 k) hne
  · intro b k hc
    rw [hlid]
    by_cases hl : liveId s k = id
    · rw [hl] at hc ⊢
      rcases hlive b hc with h | h
      · exact Or.inl h
      · exact Or.inr (Or.inl h)
    · left; rw [T.cells _ hl]; exact hc
  · intro b hb hnc hnp
    constructor
    · rintro ⟨id0, h0⟩
      by_cases hid : id0 = id
      · subst hid
        rcases hnew b h0 with h | h
        · exact hnc ⟨id0, h⟩
        · exact hnp h
      · rw [T.cells id0 hid] at h0
        exact hnc ⟨id0, h0⟩
    · intro hw
      rcases hwriter b hb hw with h | h
      · exact h
      · exact absurd h hnc

end Flurry.Proto.BinGNP
