import Flurry.Lemmas.BinUGhost
/-! # Proto/BinU: the ghost invariant holds in every reachable state; linearizability (C01/C07, tree bins)

`ginv_step`: every transition preserves `∃ A pt, GInv k s A pt`. Linearization points: a value
store at `wVal`, an insert at `wPrependLocked` (the store to `first`, under the write lock), a
removal at `wUnlinkLocked` (the list unlink, under the write lock), a writer that changes nothing at
`wFind` (the tree it searches equals the list: it holds the mutex and nobody holds the write lock);
tree-mode readers at `rTree` (they hold a read lock, so `writer` is clear and the tree equals the
list); list walkers — linear steps of lock-protocol readers and list readers (iterators) — in
hindsight (`RdOK`). Then `lin_of_trace` gives `binu_linearizable_ext`. -/
namespace Flurry.Proto.BinU
open Flurry.Lin

/-- point-wise update of the point assignment -/
def updPt (pt : Nat → Nat) (i τ : Nat) : Nat → Nat := fun j => if j = i then τ else pt j

theorem updPt_self (pt : Nat → Nat) (i τ : Nat) : updPt pt i τ i = τ := by
  unfold updPt; rw [if_pos rfl]

theorem updPt_ne (pt : Nat → Nat) {i j : Nat} (τ : Nat) (h : j ≠ i) : updPt pt i τ j = pt j := by
  unfold updPt; rw [if_neg h]

theorem RdOK_of_not_reader {A : Nat → KSt} {k inv : Nat} {s : State} {pc : Pc} (h : readerPc pc = false) :
    RdOK A k inv s pc := by
  cases pc <;> simp [readerPc] at h <;> simp only [RdOK]

/-- the readers' justifications survive a transition -/
theorem readers_step {k : Nat} {s s' : State} {A : Nat → KSt} {pt : Nat → Nat} {t : Nat} {l' : Local}
    (g : GInv k s A pt) (I : Inv s) (I' : Inv s') (hs : HeapStep s s')
    (hthr : s'.threads = s.threads.set t l') (hnow : s'.now = s.now + 1)
    (hself : ∀ (p : Pending), l'.call = some p → p.key = k →
      (p.inv ≤ s.now ∧ RdOK A k p.inv s l'.pc) ∨ RdOK (nextA A s.now (absOf s' k)) k p.inv s' l'.pc) :
    ∀ (t1 : Nat) (l1 : Local) (p1 : Pending), s'.threads[t1]? = some l1 →
      l1.call = some p1 → p1.key = k → RdOK (nextA A s.now (absOf s' k)) k p1.inv s' l1.pc := by
  intro t1 l1 p1 h1 hc1 hk1
  have hA'n : nextA A s.now (absOf s' k) s'.now = absOf s' k := by rw [hnow, nextA_new]
  rw [hthr] at h1
  rcases get_set h1 with ⟨rfl, rfl⟩ | ⟨_, h1⟩
  · rcases hself p1 hc1 hk1 with ⟨hi, hg⟩ | hg
    · exact hg.step I.heap I'.heap hs hnow (fun τ h => nextA_old h) g.hA hA'n hi
    · exact hg
  · exact (g.readers t1 l1 p1 h1 hc1 hk1).step I.heap I'.heap hs hnow (fun τ h => nextA_old h) g.hA hA'n
      (I.thr.pendTime t1 l1 p1 h1 hc1)

/-- transitions that add no call on `k` and do not change the ghost state of `k` -/
theorem ginv_quiet {k : Nat} {s s' : State} {A : Nat → KSt} {pt : Nat → Nat} {t : Nat} {l l' : Local}
    {hnew : List (Nat × Call)}
    (g : GInv k s A pt) (I : Inv s) (I' : Inv s') (hs : HeapStep s s')
    (hl : s.threads[t]? = some l) (hthr : s'.threads = s.threads.set t l') (hnow : s'.now = s.now + 1)
    (hhist : s'.hist = hnew ++ s.hist)
    (habs : absOf s' k = absOf s k)
    (hB : ∀ c', (k, c') ∈ hnew ∨ extOf k (s.now + 1) t l' = some c' →
      ∃ c, extOf k s.now t l = some c ∧ Sim c c')
    (hF : ∀ c, extOf k s.now t l = some c →
      ∃ c', ((k, c') ∈ hnew ∨ extOf k (s.now + 1) t l' = some c') ∧ Sim c c')
    (hself : ∀ (p : Pending), l'.call = some p → p.key = k →
      (p.inv ≤ s.now ∧ RdOK A k p.inv s l'.pc) ∨ RdOK (nextA A s.now (absOf s' k)) k p.inv s' l'.pc) :
    GInv k s' (nextA A s.now (absOf s' k)) pt := by
  have hl' : s'.threads[t]? = some l' := by rw [hthr]; exact get_set_self hl
  have hin' : ∀ c', ((k, c') ∈ hnew ∨ extOf k (s.now + 1) t l' = some c') → c' ∈ callsOnExt s' k := by
    rintro c' (h | h)
    · exact mem_callsOnExt.2 (Or.inl (by rw [hhist]; exact List.mem_append_left _ h))
    · exact mem_callsOnExt.2 (Or.inr ⟨t, l', hl', by rw [hnow]; exact h⟩)
  refine g.frame (i0 := 0) I.thr hnow (fun _ _ => rfl) ?_ ?_ (fun h => absurd habs h)
    (readers_step g I I' hs hthr hnow hself)
  · intro c hc
    rcases ext_forward hl hthr hnow hhist c hc with h | h
    · exact h
    · obtain ⟨c', hc', hsim⟩ := hF c h
      exact ⟨c', hin' c' hc', hsim⟩
  · intro c' hc'
    rcases ext_backward hthr hnow hhist c' hc' with h | h | h
    · exact Or.inl h
    · obtain ⟨c, hc, hsim⟩ := hB c' (Or.inl h)
      exact Or.inl ⟨c, mem_callsOnExt.2 (Or.inr ⟨t, l, hl, hc⟩), hsim⟩
    · obtain ⟨c, hc, hsim⟩ := hB c' (Or.inr h)
      exact Or.inl ⟨c, mem_callsOnExt.2 (Or.inr ⟨t, l, hl, hc⟩), hsim⟩

/-- quiet, and the thread is not counted in the extended history before or after -/
theorem ginv_quiet_none {k : Nat} {s s' : State} {A : Nat → KSt} {pt : Nat → Nat} {t : Nat} {l l' : Local}
    {hnew : List (Nat × Call)}
    (g : GInv k s A pt) (I : Inv s) (I' : Inv s') (hs : HeapStep s s')
    (hl : s.threads[t]? = some l) (hthr : s'.threads = s.threads.set t l') (hnow : s'.now = s.now + 1)
    (hhist : s'.hist = hnew ++ s.hist) (hnk : ∀ c, (k, c) ∉ hnew)
    (habs : absOf s' k = absOf s k)
    (he : extOf k s.now t l = none) (he' : extOf k (s.now + 1) t l' = none)
    (hself : ∀ (p : Pending), l'.call = some p → p.key = k →
      (p.inv ≤ s.now ∧ RdOK A k p.inv s l'.pc) ∨ RdOK (nextA A s.now (absOf s' k)) k p.inv s' l'.pc) :
    GInv k s' (nextA A s.now (absOf s' k)) pt := by
  refine ginv_quiet g I I' hs hl hthr hnow hhist habs ?_ ?_ hself
  · rintro c' (h | h)
    · exact absurd h (hnk c')
    · rw [he'] at h; cases h
  · intro c h; rw [he] at h; cases h

theorem extOf_congr {k now t : Nat} {l l' : Local} (hpc : resOfPc l'.pc = resOfPc l.pc) (hcall : l'.call = l.call) :
    extOf k now t l' = extOf k now t l := by
  unfold extOf; rw [hpc, hcall]

/-- quiet, and the thread stays where it is with respect to its linearization point -/
theorem ginv_quiet_keep {k : Nat} {s s' : State} {A : Nat → KSt} {pt : Nat → Nat} {t : Nat} {l l' : Local}
    (g : GInv k s A pt) (I : Inv s) (I' : Inv s') (hs : HeapStep s s')
    (hl : s.threads[t]? = some l) (hthr : s'.threads = s.threads.set t l') (hnow : s'.now = s.now + 1)
    (hhist : s'.hist = s.hist)
    (habs : absOf s' k = absOf s k)
    (hpc : resOfPc l'.pc = resOfPc l.pc) (hcall : l'.call = l.call)
    (hself : ∀ (p : Pending), l'.call = some p → p.key = k →
      (p.inv ≤ s.now ∧ RdOK A k p.inv s l'.pc) ∨ RdOK (nextA A s.now (absOf s' k)) k p.inv s' l'.pc) :
    GInv k s' (nextA A s.now (absOf s' k)) pt := by
  refine ginv_quiet (hnew := []) g I I' hs hl hthr hnow (by rw [hhist]; rfl) habs ?_ ?_ hself
  · rintro c' (h | h)
    · cases h
    · rw [extOf_congr hpc hcall] at h
      exact extOf_bump (Nat.le_succ _) h
  · intro c h
    obtain ⟨c', hc', hsim⟩ := extOf_bump' (Nat.le_succ s.now) h
    exact ⟨c', Or.inr (by rw [extOf_congr hpc hcall]; exact hc'), hsim⟩

/-- transitions that add the call `c0` of thread `t` (to the history or as a writer past its point) -/
theorem ginv_new {k : Nat} {s s' : State} {A : Nat → KSt} {pt : Nat → Nat} {t : Nat} {l l' : Local}
    {hnew : List (Nat × Call)} {p : Pending} {c0 : Call} {τ0 : Nat}
    (g : GInv k s A pt) (I : Inv s) (I' : Inv s') (hs : HeapStep s s')
    (hl : s.threads[t]? = some l) (hp : l.call = some p)
    (hthr : s'.threads = s.threads.set t l') (hnow : s'.now = s.now + 1)
    (hhist : s'.hist = hnew ++ s.hist)
    (he : extOf k s.now t l = none)
    (honly : ∀ c', (k, c') ∈ hnew ∨ extOf k (s.now + 1) t l' = some c' → c' = c0)
    (hmem : c0 ∈ callsOnExt s' k)
    (hinv0 : c0.inv = p.inv)
    (hok : CallOK (nextA A s.now (absOf s' k)) (updPt pt p.inv τ0) c0)
    (hw : isRead c0.op = false → τ0 = s.now + 1)
    (hchg : absOf s' k ≠ absOf s k → isRead c0.op = false)
    (hself : ∀ (p : Pending), l'.call = some p → p.key = k →
      (p.inv ≤ s.now ∧ RdOK A k p.inv s l'.pc) ∨ RdOK (nextA A s.now (absOf s' k)) k p.inv s' l'.pc) :
    GInv k s' (nextA A s.now (absOf s' k)) (updPt pt p.inv τ0) := by
  refine g.frame (i0 := p.inv) I.thr hnow ?_ ?_ ?_ ?_ (readers_step g I I' hs hthr hnow hself)
  · intro c hc
    exact updPt_ne pt τ0 (inv_ne_of_mem_callsOnExt I.thr hl hp he hc)
  · intro c hc
    rcases ext_forward hl hthr hnow hhist c hc with h | h
    · exact h
    · rw [he] at h; cases h
  · intro c' hc'
    rcases ext_backward hthr hnow hhist c' hc' with h | h | h
    · exact Or.inl h
    · have := honly c' (Or.inl h); subst this
      exact Or.inr ⟨hinv0, hok, fun hwr => by rw [hinv0, updPt_self]; exact hw hwr⟩
    · have := honly c' (Or.inr h); subst this
      exact Or.inr ⟨hinv0, hok, fun hwr => by rw [hinv0, updPt_self]; exact hw hwr⟩
  · intro hne
    have hwr := hchg hne
    exact ⟨c0, hmem, hwr, by rw [hinv0, updPt_self]; exact hw hwr⟩

/-- a step of a thread whose pending call is on another key -/
theorem ginv_other_key {k : Nat} {s s' : State} {A : Nat → KSt} {pt : Nat → Nat} {t : Nat} {l l' : Local}
    {hnew : List (Nat × Call)} {p : Pending}
    (g : GInv k s A pt) (I : Inv s) (I' : Inv s') (hs : HeapStep s s')
    (hl : s.threads[t]? = some l) (hp : l.call = some p) (hk : p.key ≠ k)
    (hthr : s'.threads = s.threads.set t l') (hnow : s'.now = s.now + 1)
    (hhist : s'.hist = hnew ++ s.hist) (hnk : ∀ x ∈ hnew, x.1 = p.key)
    (habs : absOf s' k = absOf s k) (hcall : l'.call = l.call ∨ l'.call = none) :
    GInv k s' (nextA A s.now (absOf s' k)) pt := by
  refine ginv_quiet_none g I I' hs hl hthr hnow hhist ?_ habs (extOf_none_of_key hp hk) ?_ ?_
  · intro c hc; exact hk (hnk _ hc).symm
  · rcases hcall with h | h
    · exact extOf_none_of_key (h.trans hp) hk
    · cases he : extOf k (s.now + 1) t l' with
      | none => rfl
      | some c =>
        obtain ⟨_, p', _, hc', _⟩ := extOf_eq_some.1 he
        rw [h] at hc'; cases hc'
  · intro p1 hp1 hk1
    rcases hcall with h | h
    · rw [h, hp] at hp1; cases hp1; exact absurd hk1 hk
    · rw [h] at hp1; cases hp1

/-- a writer on key `k` passes its linearization point -/
theorem ginv_writer_point {k : Nat} {s s' : State} {A : Nat → KSt} {pt : Nat → Nat} {t : Nat} {l l' : Local}
    {p : Pending} {res : KRes}
    (g : GInv k s A pt) (I : Inv s) (I' : Inv s') (hs : HeapStep s s')
    (hl : s.threads[t]? = some l) (hp : l.call = some p) (hk : p.key = k)
    (hthr : s'.threads = s.threads.set t l') (hnow : s'.now = s.now + 1) (hhist : s'.hist = s.hist)
    (hres0 : resOfPc l.pc = none) (hres' : resOfPc l'.pc = some res) (hcall : l'.call = l.call)
    (hwr : isRead p.op = false) (hspec : specStep (absOf s k) p.op = (absOf s' k, res))
    (hnr : readerPc l'.pc = false) :
    GInv k s' (nextA A s.now (absOf s' k)) (updPt pt p.inv (s.now + 1)) := by
  have hpi := I.thr.pendTime t l p hl hp
  have hext : extOf k (s.now + 1) t l' = some ⟨t, p.op, res, p.inv, s.now + 1⟩ :=
    extOf_eq_some.2 ⟨res, p, hres', hcall.trans hp, hk, rfl⟩
  refine ginv_new (hnew := []) (τ0 := s.now + 1) (c0 := ⟨t, p.op, res, p.inv, s.now + 1⟩) g I I' hs hl hp hthr hnow
    (by rw [hhist]; rfl) (extOf_none_of_pc hres0) ?_ ?_ rfl ?_ (fun _ => rfl) (fun _ => hwr) ?_
  · rintro c' (hc' | hc')
    · cases hc'
    · rw [hext] at hc'; cases hc'; rfl
  · refine mem_callsOnExt.2 (Or.inr ⟨t, l', by rw [hthr]; exact get_set_self hl, by rw [hnow]; exact hext⟩)
  · refine ⟨?_, ?_, ?_, ?_⟩
    · show p.inv ≤ updPt pt p.inv (s.now + 1) p.inv
      rw [updPt_self]; omega
    · show updPt pt p.inv (s.now + 1) p.inv ≤ s.now + 1
      rw [updPt_self]; exact Nat.le_refl _
    · intro hr; rw [hwr] at hr; cases hr
    · show isRead p.op = false → 1 ≤ updPt pt p.inv (s.now + 1) p.inv ∧
        specStep (nextA A s.now _ (updPt pt p.inv (s.now + 1) p.inv - 1)) p.op =
          (nextA A s.now _ (updPt pt p.inv (s.now + 1) p.inv), res)
      rw [updPt_self]
      intro _
      refine ⟨by omega, ?_⟩
      rw [Nat.add_sub_cancel, nextA_old (Nat.le_refl _), nextA_new, g.hA]
      exact hspec
  · intro p1 _ _
    exact Or.inr (RdOK_of_not_reader hnr)

/-- a read call on key `k` completes; `τ0` is the time that justifies its result -/
theorem ginv_reader_fin {k : Nat} {s s' : State} {A : Nat → KSt} {pt : Nat → Nat} {t : Nat} {l : Local}
    {p : Pending} {res : KRes} {τ0 : Nat}
    (g : GInv k s A pt) (I : Inv s) (I' : Inv s') (hs : HeapStep s s')
    (hl : s.threads[t]? = some l) (hp : l.call = some p) (hk : p.key = k)
    (hthr : s'.threads = s.threads.set t { pc := .idle, call := none }) (hnow : s'.now = s.now + 1)
    (hhist : s'.hist = [(p.key, ⟨t, p.op, res, p.inv, s.now + 1⟩)] ++ s.hist)
    (habs : absOf s' k = absOf s k) (hres0 : resOfPc l.pc = none)
    (hrd : isRead p.op = true) (h1 : p.inv ≤ τ0) (h2 : τ0 ≤ s.now)
    (hspec : specStep (A τ0) p.op = (A τ0, res)) :
    GInv k s' (nextA A s.now (absOf s' k)) (updPt pt p.inv τ0) := by
  refine ginv_new (τ0 := τ0) (c0 := ⟨t, p.op, res, p.inv, s.now + 1⟩) g I I' hs hl hp hthr hnow hhist
    (extOf_none_of_pc hres0) ?_ ?_ rfl ?_ ?_ (fun hne => absurd habs hne) ?_
  · rintro c' (hc' | hc')
    · simp only [List.mem_singleton, Prod.mk.injEq] at hc'
      exact hc'.2
    · have : extOf k (s.now + 1) t { pc := .idle, call := none } = none := rfl
      rw [this] at hc'; cases hc'
  · refine mem_callsOnExt.2 (Or.inl ?_)
    rw [hhist, hk]; exact List.mem_cons_self
  · refine ⟨?_, ?_, ?_, ?_⟩
    · show p.inv ≤ updPt pt p.inv τ0 p.inv
      rw [updPt_self]; exact h1
    · show updPt pt p.inv τ0 p.inv ≤ s.now + 1
      rw [updPt_self]; omega
    · show isRead p.op = true → specStep (nextA A s.now _ (updPt pt p.inv τ0 p.inv)) p.op = (_, res)
      rw [updPt_self, nextA_old h2]
      intro _; exact hspec
    · intro hw
      have : isRead p.op = false := hw
      rw [hrd] at this; cases this
  · intro hw
    have : isRead p.op = false := hw
    rw [hrd] at this; cases this
  · intro p1 hp1; cases hp1

theorem isRead_cases {op : KOp} (h : isRead op = true) : op = .get ∨ op = .has := by
  cases op <;> first | exact Or.inl rfl | exact Or.inr rfl | cases h

/-- the time that justifies the result of a read call that completes -/
theorem fin_point {k : Nat} {s : State} {A : Nat → KSt} {pt : Nat → Nat} {t : Nat} {l : Local}
    {p : Pending} {res : KRes} {m : Option Nat} {r : Nat}
    (g : GInv k s A pt) (I : Inv s) (hl : s.threads[t]? = some l) (hp : l.call = some p)
    (hk : p.key = k) (hf : Fin s p l.pc res m r) (hrd : isRead p.op = true) :
    ∃ τ0, p.inv ≤ τ0 ∧ τ0 ≤ s.now ∧ specStep (A τ0) p.op = (A τ0, res) := by
  have hpi := I.thr.pendTime t l p hl hp
  have hR := g.readers t l p hl hp hk
  have hP := I.data.pcInv t l p hl hp
  have hO := I.thr.opOK t l p hl hp
  obtain ⟨pc, call⟩ := l
  simp only at hp hf hR hP hO
  subst hp
  cases hf with
  | rMiss =>
    simp only [RdOK] at hR
    obtain ⟨τ, h1, h2, h3⟩ := hR.miss
    refine ⟨τ, h1, h2, ?_⟩
    rw [h3]
    rcases isRead_cases hrd with hop | hop <;> rw [hop] <;> rfl
  | @rLinHas c n hn hkey hop =>
    simp only [RdOK] at hR
    simp only [PcInv] at hP
    have hnode := nodeAt_of_some hn
    obtain ⟨τ, h1, h2, h3⟩ := hR.hit I.heap g.hA hpi (by rw [hnode, hkey, hk])
    refine ⟨τ, h1, h2, ?_⟩
    rw [h3, hop]; rfl
  | lMiss =>
    simp only [RdOK] at hR
    obtain ⟨τ, h1, h2, h3⟩ := hR.miss
    refine ⟨τ, h1, h2, ?_⟩
    rw [h3]
    rcases isRead_cases hrd with hop | hop <;> rw [hop] <;> rfl
  | @lHas c n hn hkey hop =>
    simp only [RdOK] at hR
    have hnode := nodeAt_of_some hn
    obtain ⟨τ, h1, h2, h3⟩ := hR.hit I.heap g.hA hpi (by rw [hnode, hkey, hk])
    refine ⟨τ, h1, h2, ?_⟩
    rw [h3, hop]; rfl
  | rRelNone =>
    simp only [RdOK] at hR
    obtain ⟨τ, h1, h2, h3⟩ := hR
    refine ⟨τ, h1, h2, ?_⟩
    rw [h3]
    rcases isRead_cases hrd with hop | hop <;> rw [hop] <;> rfl
  | @rRelHas i hop =>
    simp only [RdOK] at hR
    obtain ⟨_, _, τ, h1, h2, h3⟩ := hR
    refine ⟨τ, h1, h2, ?_⟩
    rw [h3, hop]; rfl
  | @rVal i n hn =>
    simp only [RdOK] at hR
    simp only [PcInv] at hP
    obtain ⟨_, _, τ, h1, h2, h3⟩ := hR
    refine ⟨τ, h1, h2, ?_⟩
    rw [h3, nodeAt_of_some hn]
    rcases isRead_cases hrd with hop | hop
    · rw [hop]
      have : ∀ x : Nat × Nat, specStep (some x) .get = (some x, .some x.1 x.2) := fun ⟨_, _⟩ => rfl
      exact this _
    · exact absurd hop hP
  | unlockM =>
    have := hO (by simp)
    rw [isReader_eq_isRead, hrd] at this
    cases this

/-- a `Move` either keeps the thread on its side of its linearization point, or it is the `wFind`
step of a writer that changes nothing -/
theorem Move.res_keep {s : State} {t : Nat} {p : Pending} {pc pc' : Pc} {m : Option Nat} {w a : Bool} {r : Nat}
    (hm : Move s t p pc pc' m w a r) :
    resOfPc pc' = resOfPc pc ∨
    (resOfPc pc = none ∧ ∃ res, pc' = .wUnlockM res ∧ pc = .wFind ∧
      specStep (absTree s p.key) p.op = (absTree s p.key, res)) := by
  cases hm
  case findDone res h => exact Or.inr ⟨rfl, res, rfl, rfl, h⟩
  case lrTryOk k res _ _ _ => cases k <;> exact Or.inl rfl
  case lrLoopOk k res _ _ => cases k <;> exact Or.inl rfl
  case lrTryFail k res => cases k <;> exact Or.inl rfl
  all_goals exact Or.inl rfl

/-- what the new program counter of a reader knows (in the old state) -/
theorem Move.rdOK {k : Nat} {s : State} {A : Nat → KSt} {pt : Nat → Nat} {t : Nat} {p : Pending} {l : Local}
    {pc' : Pc} {m : Option Nat} {w a : Bool} {r : Nat}
    (hm : Move s t p l.pc pc' m w a r) (g : GInv k s A pt) (I : Inv s)
    (hl : s.threads[t]? = some l) (hp : l.call = some p) (hk : p.key = k) : RdOK A k p.inv s pc' := by
  have hpi := I.thr.pendTime t l p hl hp
  have hR := g.readers t l p hl hp hk
  have hP := I.data.pcInv t l p hl hp
  have hrp : holdsRead l.pc = true → 1 ≤ s.readers := I.lock.reader_pos hl
  obtain ⟨pc, call⟩ := l
  simp only at hp hm hR hP hrp
  subst hp
  cases hm with
  | rFirst => simp only [RdOK]; exact Good.first I.heap g.hA hpi
  | rLinMode _ => simp only [RdOK] at hR ⊢; exact hR
  | rTreeMode _ => simp only [RdOK] at hR ⊢; exact hR
  | @rLinNext c n hn hne =>
    simp only [RdOK] at hR ⊢
    have hnode := nodeAt_of_some hn
    have := hR.next I.heap g.hA hpi (by rw [hnode, ← hk]; exact hne)
    rw [hnode] at this
    exact this
  | @rLinHit c n hn hkey _ =>
    simp only [RdOK] at hR ⊢
    simp only [PcInv] at hP
    have hnode := nodeAt_of_some hn
    have hkc : (nodeAt s.heap c).key = k := by rw [hnode, hkey, hk]
    exact ⟨hkc, hP, hR.hit I.heap g.hA hpi hkc⟩
  | rCasOk _ _ _ => simp only [RdOK]
  | rCasFail => simp only [RdOK] at hR ⊢; exact hR
  | rTree =>
    have hw : s.writer = false := by
      cases hw : s.writer with
      | false => rfl
      | true =>
        have h1 := hrp rfl
        have h2 := I.lock.wrd hw
        omega
    have hga := I.absTree_eq_absOf_of_no_writer hw k
    rw [hk]
    cases hf : treeFind s k with
    | none =>
      simp only [RdOK]
      refine ⟨s.now, hpi, Nat.le_refl _, ?_⟩
      rw [g.hA, ← hga]; unfold absTree; rw [hf]
    | some i =>
      simp only [RdOK]
      obtain ⟨hi, _, hik⟩ := treeFind_some hf
      refine ⟨hik, hi, s.now, hpi, Nat.le_refl _, ?_⟩
      rw [g.hA, ← hga]; unfold absTree; rw [hf]; rfl
  | rRelVal _ => simp only [RdOK] at hR ⊢; exact hR
  | lFirst => simp only [RdOK]; exact Good.first I.heap g.hA hpi
  | @lNext c n hn hne =>
    simp only [RdOK] at hR ⊢
    have hnode := nodeAt_of_some hn
    have := hR.next I.heap g.hA hpi (by rw [hnode, ← hk]; exact hne)
    rw [hnode] at this
    exact this
  | @lHit c n hn hkey _ =>
    simp only [RdOK] at hR ⊢
    simp only [PcInv] at hP
    have hnode := nodeAt_of_some hn
    have hkc : (nodeAt s.heap c).key = k := by rw [hnode, hkey, hk]
    exact ⟨hkc, hP, hR.hit I.heap g.hA hpi hkc⟩
  | wMutex _ => exact RdOK_of_not_reader rfl
  | findVal _ _ => exact RdOK_of_not_reader rfl
  | findInsert _ => exact RdOK_of_not_reader rfl
  | findRemove _ _ => exact RdOK_of_not_reader rfl
  | findDone _ => exact RdOK_of_not_reader rfl
  | @lrTryOk k0 res _ _ _ => cases k0 <;> exact RdOK_of_not_reader rfl
  | lrTryFail => exact RdOK_of_not_reader rfl
  | @lrLoopOk k0 res _ _ => cases k0 <;> exact RdOK_of_not_reader rfl
  | lrLoopWait _ => exact RdOK_of_not_reader rfl
  | restructNone => exact RdOK_of_not_reader rfl
  | unlockRoot => exact RdOK_of_not_reader rfl

theorem Fin.kind {s : State} {p : Pending} {pc : Pc} {res : KRes} {m : Option Nat} {r : Nat}
    (hf : Fin s p pc res m r) :
    (readerPc pc = true ∧ resOfPc pc = none) ∨ (pc = .wUnlockM res ∧ m = none ∧ r = s.readers) := by
  cases hf
  case unlockM => exact Or.inr ⟨rfl, rfl, rfl⟩
  all_goals exact Or.inl ⟨rfl, rfl⟩

/-- a writer pc: the pending operation is a write -/
theorem isRead_false_of_pc {s : State} (I : Inv s) {t : Nat} {l : Local} {p : Pending}
    (hl : s.threads[t]? = some l) (hp : l.call = some p) (hni : l.pc ≠ .idle) (hnr : readerPc l.pc = false) :
    isRead p.op = false := by
  have := I.thr.opOK t l p hl hp hni
  rw [← isReader_eq_isRead, this, hnr]

/-- **every transition preserves the ghost invariant** -/
theorem ginv_step {k : Nat} {s s' : State} {A : Nat → KSt} {pt : Nat → Nat} {t : Nat} {l : Local}
    (g : GInv k s A pt) (I : Inv s) (hl : s.threads[t]? = some l) (hstep : StepK s t l s') :
    ∃ A' pt', GInv k s' A' pt' := by
  have I' := stepK_inv I hl hstep
  cases hstep with
  | idle hpc =>
    refine ⟨_, _, ginv_quiet_keep (l' := l) g I I' (.of_same I.heap rfl rfl) hl rfl rfl rfl
      (absOf_congr rfl rfl k) rfl rfl ?_⟩
    intro p hp hk
    exact Or.inl ⟨I.thr.pendTime t l p hl hp, g.readers t l p hl hp hk⟩
  | invoke k' op lo hpc =>
    refine ⟨_, _, ginv_quiet_none (hnew := []) g I I' (.of_same I.heap rfl rfl) hl rfl rfl rfl (by simp)
      (absOf_congr rfl rfl k) (extOf_none_of_pc (by rw [hpc]; rfl))
      (extOf_none_of_pc (by show resOfPc (if isReader op then (if lo then .lFirst else .rFirst) else .wMutex) = none
                            cases isReader op <;> cases lo <;> rfl)) ?_⟩
    intro p _ _
    refine Or.inr ?_
    show RdOK _ _ _ _ (if isReader op then (if lo then .lFirst else .rFirst) else .wMutex)
    cases isReader op <;> cases lo <;> simp [RdOK]
  | move p pc' m w a r hp hm =>
    have hs : HeapStep s (setT (sync s m w a r) t { l with pc := pc' }) := .of_same I.heap rfl rfl
    have habs : absOf (setT (sync s m w a r) t { l with pc := pc' }) k = absOf s k := absOf_congr rfl rfl k
    by_cases hk : p.key = k
    · rcases hm.res_keep with hkeep | ⟨hres0, res, rfl, hpcf, hspec⟩
      · refine ⟨_, _, ginv_quiet_keep (l' := { l with pc := pc' }) g I I' hs hl rfl rfl rfl habs hkeep rfl ?_⟩
        intro p1 hp1 _
        have : p1 = p := by
          have h : l.call = some p1 := hp1
          rw [hp] at h; exact (Option.some.inj h).symm
        subst this
        exact Or.inl ⟨I.thr.pendTime t l p1 hl hp, hm.rdOK g I hl hp hk⟩
      · have hcr : crit l.pc = true := by rw [hpcf]; rfl
        have hsets := I.sets_eq_of_crit hl hcr (by rw [hpcf]; intro j res; simp) (by rw [hpcf]; intro j; simp)
        have hga : absTree s k = absOf s k := absTree_eq_absOf I.heap hsets.1 hsets.2 k
        refine ⟨_, _, ginv_writer_point (l' := { l with pc := .wUnlockM res }) g I I' hs hl hp hk rfl rfl rfl
          hres0 rfl rfl (isRead_false_of_pc I hl hp (by rw [hpcf]; simp) (by rw [hpcf]; rfl)) ?_ rfl⟩
        rw [habs, ← hga, ← hk]; exact hspec
    · exact ⟨_, _, ginv_other_key (hnew := []) (l' := { l with pc := pc' }) g I I' hs hl hp hk rfl rfl rfl
        (by simp) habs (Or.inl rfl)⟩
  | fin p res m r hp hf =>
    have hs : HeapStep s (finish (sync s m s.writer s.waiter r) t p res) := .of_same I.heap rfl rfl
    have habs : absOf (finish (sync s m s.writer s.waiter r) t p res) k = absOf s k := absOf_congr rfl rfl k
    by_cases hk : p.key = k
    · rcases hf.kind with ⟨hrp, hres0⟩ | ⟨hpcu, -, -⟩
      · have hni : l.pc ≠ .idle := by intro h; rw [h] at hrp; cases hrp
        have hrd : isRead p.op = true := by
          rw [← isReader_eq_isRead, I.thr.opOK t l p hl hp hni, hrp]
        obtain ⟨τ0, h1, h2, h3⟩ := fin_point g I hl hp hk hf hrd
        exact ⟨_, _, ginv_reader_fin g I I' hs hl hp hk rfl rfl rfl habs hres0 hrd h1 h2 h3⟩
      · have hext : extOf k s.now t l = some ⟨t, p.op, res, p.inv, s.now⟩ :=
          extOf_eq_some.2 ⟨res, p, by rw [hpcu]; rfl, hp, hk, rfl⟩
        have hsim : Sim ⟨t, p.op, res, p.inv, s.now⟩ ⟨t, p.op, res, p.inv, s.now + 1⟩ :=
          ⟨rfl, rfl, rfl, rfl, Nat.le_succ _⟩
        refine ⟨_, _, ginv_quiet (hnew := [(p.key, ⟨t, p.op, res, p.inv, s.now + 1⟩)])
          (l' := { pc := .idle, call := none }) g I I' hs hl rfl rfl rfl habs ?_ ?_ ?_⟩
        · rintro c' (hc' | hc')
          · simp only [List.mem_singleton, Prod.mk.injEq] at hc'
            rw [hc'.2]
            exact ⟨_, hext, hsim⟩
          · have : extOf k (s.now + 1) t { pc := .idle, call := none } = none := rfl
            rw [this] at hc'; cases hc'
        · intro c hc
          rw [hext] at hc; cases hc
          exact ⟨_, Or.inl (by rw [hk]; exact List.mem_singleton.2 rfl), hsim⟩
        · intro p1 hp1; cases hp1
    · exact ⟨_, _, ginv_other_key (hnew := [(p.key, ⟨t, p.op, res, p.inv, s.now + 1⟩)])
        (l' := { pc := .idle, call := none }) g I I' hs hl hp hk rfl rfl rfl
        (by intro x hx; rw [List.mem_singleton.1 hx]) habs (Or.inr rfl)⟩
  | val p i v res hp hpc =>
    have h0 := I.data.pcInv t l p hl hp
    rw [hpc] at h0
    simp only [PcInv] at h0
    obtain ⟨hi, hkey0, hspec⟩ := h0
    obtain ⟨_, hs, _, _, _, _, _, hga⟩ :=
      val_store (s' := setT (setNode (tick s) i (fun n => { n with val := v })) t { l with pc := .wUnlockM res })
        I.heap hi rfl rfl
    by_cases hk : p.key = k
    · refine ⟨_, _, ginv_writer_point (l' := { l with pc := .wUnlockM res }) g I I' hs hl hp hk rfl rfl rfl
        (by rw [hpc]; rfl) rfl rfl (isRead_false_of_pc I hl hp (by rw [hpc]; simp) (by rw [hpc]; rfl)) ?_ rfl⟩
      have h1 : absOf s k = some (nodeAt s.heap i).val :=
        (absOf_eq_some_iff I.heap).2 ⟨i, hi, by rw [hkey0, hk], rfl⟩
      rw [hga k, if_pos (by rw [hkey0, hk]), h1]
      exact hspec
    · exact ⟨_, _, ginv_other_key (hnew := []) (l' := { l with pc := .wUnlockM res }) g I I' hs hl hp hk rfl rfl rfl
        (by simp) (by rw [hga k, if_neg (by rw [hkey0]; exact hk)]) (Or.inl rfl)⟩
  | prepend p v vi hp hpc hop =>
    have h0 := I.data.pcInv t l p hl hp
    rw [hpc] at h0
    simp only [PcInv, FreshOK] at h0
    have hcr : crit l.pc = true := by rw [hpc]; rfl
    have hsup := I.chain_sub_tree_of_crit hl hcr (by rw [hpc]; intro j; simp)
    have hfr : ∀ j, Alive s j → (nodeAt s.heap j).key ≠ p.key := by
      intro j hj
      rcases hj with hj | ⟨hj1, hj2⟩
      · exact h0 j (chain_lt I.heap hj) (hsup j hj)
      · exact h0 j hj1 hj2
    obtain ⟨_, hs, _, _, _, _, hga⟩ :=
      prepend_store (s' := setT (prependOf (tick s) ⟨p.key, (v, vi), s.first, false⟩) t
          { l with pc := .wTreeLinkLocked s.heap.length })
        (new := ⟨p.key, (v, vi), s.first, false⟩) I.heap rfl hfr rfl rfl
    by_cases hk : p.key = k
    · refine ⟨_, _, ginv_writer_point (res := .none) (l' := { l with pc := .wTreeLinkLocked s.heap.length })
        g I I' hs hl hp hk rfl rfl rfl
        (by rw [hpc]; rfl) rfl rfl (isRead_false_of_pc I hl hp (by rw [hpc]; simp) (by rw [hpc]; rfl)) ?_ rfl⟩
      have h1 : absOf s k = none := by
        rw [absOf_eq_none_iff]
        intro j hj
        rw [← hk]; exact hfr j (Or.inl hj)
      rw [hga k, if_pos hk, h1]
      rcases hop with hop | hop <;> rw [hop] <;> rfl
    · exact ⟨_, _, ginv_other_key (hnew := []) (l' := { l with pc := .wTreeLinkLocked s.heap.length })
        g I I' hs hl hp hk rfl rfl rfl
        (by simp) (by rw [hga k, if_neg hk]) (Or.inl rfl)⟩
  | treeLink p x hp hpc =>
    have h0 := I.data.pcInv t l p hl hp
    rw [hpc] at h0
    simp only [PcInv] at h0
    obtain ⟨hx, hxin, hxk, hfresh⟩ := h0
    obtain ⟨_, hs, _, _, _, _, _, hga⟩ :=
      treeLink_store (s' := setT (setNode (tick s) x (fun n => { n with inTree := true })) t
          { l with pc := .wUnlockRoot .none })
        I.heap hx rfl rfl
    refine ⟨_, _, ginv_quiet_keep (l' := { l with pc := .wUnlockRoot .none }) g I I' hs hl rfl rfl rfl
      (hga k) (by rw [hpc]; rfl) rfl ?_⟩
    intro p1 _ _
    exact Or.inr (RdOK_of_not_reader rfl)
  | unlink p i res hp hpc =>
    have h0 := I.data.pcInv t l p hl hp
    rw [hpc] at h0
    simp only [PcInv, RemOK] at h0
    obtain ⟨hi, hin, hkey0, hspec⟩ := h0
    obtain ⟨u1, u2, u3, u4, u5, -⟩ := unlinkOf_tick s i
    obtain ⟨_, hs, _, _, _, hga⟩ :=
      unlink_store (s' := setT (unlinkOf (tick s) i) t { l with pc := .wRestructure (some i) res })
        I.heap hi u1 u2
    have hthr : (setT (unlinkOf (tick s) i) t { l with pc := .wRestructure (some i) res }).threads =
        s.threads.set t { l with pc := .wRestructure (some i) res } := by
      show (unlinkOf (tick s) i).threads.set t _ = _
      rw [u3]
    by_cases hk : p.key = k
    · refine ⟨_, _, ginv_writer_point (l' := { l with pc := .wRestructure (some i) res }) g I I' hs hl hp hk hthr u5 u4
        (by rw [hpc]; rfl) rfl rfl (isRead_false_of_pc I hl hp (by rw [hpc]; simp) (by rw [hpc]; rfl)) ?_ rfl⟩
      have h1 : absOf s k = some (nodeAt s.heap i).val :=
        (absOf_eq_some_iff I.heap).2 ⟨i, hi, by rw [hkey0, hk], rfl⟩
      rw [hga k, if_pos (by rw [hkey0, hk]), h1]
      exact hspec
    · exact ⟨_, _, ginv_other_key (hnew := []) (l' := { l with pc := .wRestructure (some i) res }) g I I' hs hl hp hk
        hthr u5 (by show (unlinkOf (tick s) i).hist = _; rw [u4]; rfl) (by simp) (by rw [hga k, if_neg (by rw [hkey0]; exact hk)]) (Or.inl rfl)⟩
  | untree p i res hp hpc =>
    have h0 := I.data.pcInv t l p hl hp
    rw [hpc] at h0
    simp only [PcInv] at h0
    obtain ⟨_, hs, _, _, _, _, _, _, hga⟩ :=
      untree_store (s' := setT (setNode (tick s) i (fun n => { n with inTree := false })) t
          { l with pc := .wUnlockRoot res }) I.heap h0.1 rfl rfl
    refine ⟨_, _, ginv_quiet_keep (l' := { l with pc := .wUnlockRoot res }) g I I' hs hl rfl rfl rfl
      (hga k) (by rw [hpc]; rfl) rfl ?_⟩
    intro p1 _ _
    exact Or.inr (RdOK_of_not_reader rfl)
  | dead p s' hp hpc =>
    have h0 := I.data.pcInv t l p hl hp
    obtain ⟨pc, call⟩ := l
    simp only at hpc h0
    cases pc <;> simp [deadPc] at hpc <;> exact absurd h0 (by simp [PcInv])

/-! ## from the ghost invariant to linearizability -/

theorem init_ginv (n k : Nat) : GInv k (init n) (fun _ => none) id := by
  have hthr : ∀ (t : Nat) (l : Local), (init n).threads[t]? = some l → l = {} := fun t l h => init_threads h
  have hnil : callsOnExt (init n) k = [] := by
    rw [List.eq_nil_iff_forall_not_mem]
    intro c hc
    rcases mem_callsOnExt.1 hc with hc | ⟨t, l, hl, he⟩
    · simp [init] at hc
    · rw [hthr t l hl] at he
      cases he
  refine ⟨rfl, ?_, ?_, ?_, ?_, ?_⟩
  · symm
    rw [absOf_eq_none_iff]
    intro i hi
    simp [chain, init, chainFrom] at hi
  · intro c hc; rw [hnil] at hc; cases hc
  · intro τ h1 h2
    have : (init n).now = 0 := rfl
    omega
  · intro c hc; rw [hnil] at hc; cases hc
  · intro t l p hl hc
    rw [hthr t l hl] at hc
    cases hc

/-- the ghost invariant holds in every reachable state -/
theorem reachable_ginv {n : Nat} {s : State} (hr : Reachable n s) (k : Nat) :
    ∃ A pt, GInv k s A pt := by
  induction hr with
  | init => exact ⟨_, _, init_ginv n k⟩
  | @step s s' t inv bal lo hr hs ih =>
    obtain ⟨A, pt, g⟩ := ih
    cases hl : s.threads[t]? with
    | none => unfold step stepG at hs; rw [hl] at hs; cases hs
    | some l => exact ginv_step g (reachable_inv hr) hl (step_stepK hl hs)

/-- from the ghost invariant to linearizability (the trace lemma) -/
theorem GInv.linearizable {k : Nat} {s : State} {A : Nat → KSt} {pt : Nat → Nat}
    (g : GInv k s A pt) (I : Inv s) : Linearizable (callsOnExt s k) none (absOf s k) := by
  have h := lin_of_trace (h := callsOnExt s k) A s.now (fun c => pt c.inv) ?_ ?_ ?_ ?_ ?_
  · rw [g.h0, g.hA] at h; exact h
  · intro c hc
    obtain ⟨h1, h2, -, -⟩ := g.calls c hc
    have := callsOnExt_resp_le I.thr hc
    exact ⟨h1, h2, by omega⟩
  · intro c hc hw; exact (g.calls c hc).2.2.2 hw
  · intro c hc hrd; exact (g.calls c hc).2.2.1 hrd
  · refine (callsOnExt_pairwise I.thr k).imp_of_mem ?_
    intro c d hc hd hne hwc hwd hpe
    exact hne (g.inj c hc d hd hwc hwd hpe)
  · intro τ h1 h2 hno
    apply Classical.byContradiction
    intro hne
    obtain ⟨c, hc, hw, hp⟩ := g.stab τ h1 h2 hne
    exact hno c hc hw hp

/-- list and tree hold the same entries whenever nobody holds the tree's write lock -/
theorem absTree_eq_absOf_of_reachable {n : Nat} {s : State} (hr : Reachable n s) (hw : s.writer = false)
    (k : Nat) : absTree s k = absOf s k :=
  (reachable_inv hr).absTree_eq_absOf_of_no_writer hw k

theorem writer_false_of_quiescent {n : Nat} {s : State} (hr : Reachable n s) (hq : quiescent s) :
    s.writer = false := by
  have I := reachable_inv hr
  cases hw : s.writer with
  | false => rfl
  | true =>
    have hb : (s.writer || s.waiter) = true := by rw [hw]; rfl
    obtain ⟨h, l, hl, _, hpc⟩ := I.lock.bits_holder hb
    rw [hq l (List.mem_of_getElem? hl)] at hpc
    rcases hpc with h | h <;> cases h

/-- **linearizability of the extended per-key history** (completed calls plus writers past their
linearization point), ending in the abstract state = list membership -/
theorem binu_linearizable_ext {n : Nat} {s : State} (hr : Reachable n s) (k : Nat) :
    Lin.Linearizable (callsOnExt s k) none (absOf s k) := by
  obtain ⟨A, pt, g⟩ := reachable_ginv hr k
  exact g.linearizable (reachable_inv hr)

/-- quiescent form, with the agreement of tree and list -/
theorem binu_linearizable_quiescent_aux {n : Nat} {s : State} (hr : Reachable n s) (hq : quiescent s) (k : Nat) :
    Lin.Linearizable (callsOn s k) none (absOf s k) ∧ absTree s k = absOf s k := by
  refine ⟨?_, absTree_eq_absOf_of_reachable hr (writer_false_of_quiescent hr hq) k⟩
  have := binu_linearizable_ext hr k
  rw [callsOnExt_quiescent hq] at this
  exact this

end Flurry.Proto.BinU
