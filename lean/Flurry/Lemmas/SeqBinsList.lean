import Flurry.Seq.Inv
import Flurry.Lemmas.Bits
import Flurry.Lemmas.RBInsertHeight
import Flurry.Lemmas.RBDeleteSmall
/-! # Bin-level lemmas of the sequential model (`Flurry/Seq/Model.lean`)

B1/B2: lookups in list bins and bins; B3: list updates; B4: the bin updates of a present key;
B5: insertion of an absent key; B6: treeify. (B4–B6: `SeqBinsUpdate.lean`; B7: `SeqBinsSplit.lean`.)

Core Lean only. -/
namespace Flurry.Seq
open Flurry Flurry.Gen
open Flurry.RB (upd)

/-! ## generalities on `KeysNodup` / `NodeOk` -/

theorem keysNodup_nil : KeysNodup [] := by simp [KeysNodup]

theorem keysNodup_cons {a : Node} {ns : List Node} :
    KeysNodup (a :: ns) ↔ (∀ x ∈ ns, x.key ≠ a.key) ∧ KeysNodup ns := by
  simp only [KeysNodup, List.map_cons, List.nodup_cons, List.mem_map, not_exists, not_and]

theorem keysNodup_iff_pairwise {ns : List Node} :
    KeysNodup ns ↔ ns.Pairwise (fun a b => a.key ≠ b.key) := by
  simp [KeysNodup, List.Nodup, List.pairwise_map]

theorem KeysNodup.sublist {l l' : List Node} (hs : l'.Sublist l) (h : KeysNodup l) :
    KeysNodup l' := by
  rw [keysNodup_iff_pairwise] at h ⊢
  exact h.sublist hs

theorem KeysNodup.filter {l : List Node} (p : Node → Bool) (h : KeysNodup l) :
    KeysNodup (l.filter p) := h.sublist List.filter_sublist

theorem KeysNodup.perm {l l' : List Node} (hp : l.Perm l') (h : KeysNodup l) : KeysNodup l' := by
  unfold KeysNodup at *
  exact (hp.map _).nodup_iff.1 h

/-- distinct keys: the form the tree lemmas (`ofList_inv`, …) want -/
theorem KeysNodup.pairwise_hk {l : List Node} (h : KeysNodup l) :
    l.Pairwise (fun a b => ¬(a.hash = b.hash ∧ a.key = b.key)) := by
  rw [keysNodup_iff_pairwise] at h
  exact h.imp (fun hab hc => hab hc.2)

/-- in a list without duplicate keys, two nodes with the same key are the same node -/
theorem KeysNodup.eq_of_key {ns : List Node} (hd : KeysNodup ns) {a b : Node}
    (ha : a ∈ ns) (hb : b ∈ ns) (hk : a.key = b.key) : a = b := by
  induction ns with
  | nil => simp at ha
  | cons c ns ih =>
    rw [keysNodup_cons] at hd
    rcases List.mem_cons.1 ha with rfl | ha' <;> rcases List.mem_cons.1 hb with rfl | hb'
    · rfl
    · exact absurd hk.symm (hd.1 b hb')
    · exact absurd hk (hd.1 a ha')
    · exact ih hd.2 ha' hb'

theorem keysNodup_map_upd (h k v vi : Nat) (ns : List Node) :
    KeysNodup (ns.map (upd h k v vi)) ↔ KeysNodup ns := by
  simp [KeysNodup, List.map_map, Function.comp_def]

theorem nodeOk_upd {hash : Nat → Nat} {n i : Nat} (h k v vi : Nat) (x : Node) :
    NodeOk hash n i (upd h k v vi x) ↔ NodeOk hash n i x := by
  simp [NodeOk]

theorem BinWF.nodeOk {hash : Nat → Nat} {n i : Nat} {b : Bin} (hb : BinWF hash n i b) :
    ∀ nd ∈ b.nodes, NodeOk hash n i nd := by
  cases b with
  | empty => simp [Bin.nodes]
  | list ns => exact hb.2.1
  | tree t o => exact hb.2.1

theorem BinWF.keysNodup {hash : Nat → Nat} {n i : Nat} {b : Bin} (hb : BinWF hash n i b) :
    KeysNodup b.nodes := by
  cases b with
  | empty => exact keysNodup_nil
  | list ns => exact hb.2.2
  | tree t o => exact hb.2.2.1

theorem binWF_ofNodes {hash : Nat → Nat} {n i : Nat} {l : List Node}
    (h1 : ∀ nd ∈ l, NodeOk hash n i nd) (h2 : KeysNodup l) : BinWF hash n i (Bin.ofNodes l) := by
  cases l with
  | nil => simp [Bin.ofNodes, BinWF]
  | cons a l => exact ⟨by simp, h1, h2⟩

@[simp] theorem nodes_empty : Bin.empty.nodes = [] := rfl
@[simp] theorem nodes_list (ns : List Node) : (Bin.list ns).nodes = ns := rfl
@[simp] theorem nodes_tree (t : RB.T) (o : List Node) : (Bin.tree t o).nodes = o := rfl

@[simp] theorem nodes_ofNodes (l : List Node) : (Bin.ofNodes l).nodes = l := by
  cases l <;> rfl

/-! ## B1: `listFind` -/

theorem listFind_none_iff (h k : Nat) (ns : List Node) :
    listFind h k ns = none ↔ ∀ x ∈ ns, ¬(x.hash = h ∧ x.key = k) := by
  induction ns with
  | nil => simp [listFind]
  | cons a ns ih =>
    simp only [listFind, List.mem_cons, forall_eq_or_imp]
    split <;> simp_all

/-- soundness needs no hypothesis; the node found is the *first* match -/
theorem listFind_sound {h k : Nat} {ns : List Node} {e : Node} (hf : listFind h k ns = some e) :
    e ∈ ns ∧ e.hash = h ∧ e.key = k := by
  induction ns with
  | nil => simp [listFind] at hf
  | cons a ns ih =>
    simp only [listFind] at hf
    split at hf
    · simp_all
    · have := ih hf; simp_all

theorem listFind_iff {h k : Nat} {ns : List Node} {e : Node} (hd : KeysNodup ns) :
    listFind h k ns = some e ↔ e ∈ ns ∧ e.hash = h ∧ e.key = k := by
  refine ⟨listFind_sound, ?_⟩
  rintro ⟨hm, hh, hk⟩
  cases hf : listFind h k ns with
  | none => exact absurd ⟨hh, hk⟩ ((listFind_none_iff h k ns).1 hf e hm)
  | some e' =>
    obtain ⟨hm', -, hk'⟩ := listFind_sound hf
    rw [hd.eq_of_key hm' hm (hk'.trans hk.symm)]

/-- without `KeysNodup`: decomposition at the first match -/
theorem listFind_eq_some_iff_split {h k : Nat} {ns : List Node} {e : Node} :
    listFind h k ns = some e ↔
      ∃ l1 l2, ns = l1 ++ e :: l2 ∧ (∀ x ∈ l1, ¬(x.hash = h ∧ x.key = k)) ∧ e.hash = h ∧ e.key = k := by
  induction ns with
  | nil => simp [listFind]
  | cons a ns ih =>
    simp only [listFind]
    split
    next hc =>
      simp only [Bool.and_eq_true, beq_iff_eq] at hc
      constructor
      · intro he; cases he; exact ⟨[], ns, rfl, by simp, hc⟩
      · rintro ⟨l1, l2, h1, h2, h3⟩
        cases l1 with
        | nil => simp at h1; rw [h1.1]
        | cons b l1 => simp at h1; exact absurd hc (h1.1 ▸ h2 b (by simp))
    next hc =>
      simp only [Bool.and_eq_true, beq_iff_eq] at hc
      rw [ih]
      constructor
      · rintro ⟨l1, l2, h1, h2, h3⟩
        refine ⟨a :: l1, l2, by simp [h1], fun x hx => ?_, h3⟩
        rcases List.mem_cons.1 hx with rfl | hx
        · exact hc
        · exact h2 x hx
      · rintro ⟨l1, l2, h1, h2, h3⟩
        cases l1 with
        | nil => simp at h1; exact absurd h3 (h1.1 ▸ hc)
        | cons b l1 =>
          simp at h1
          exact ⟨l1, l2, h1.2, fun x hx => h2 x (by simp [hx]), h3⟩

/-! ## B2: `Bin.find` -/

theorem Bin.find_iff {hash : Nat → Nat} {n i h k : Nat} {b : Bin} {e : Node}
    (hb : BinWF hash n i b) :
    b.find h k = some e ↔ e ∈ b.nodes ∧ e.hash = h ∧ e.key = k := by
  cases b with
  | empty => simp [Bin.find, Bin.nodes]
  | list ns => exact listFind_iff hb.2.2
  | tree t o =>
    obtain ⟨-, -, -, hi, hp⟩ := hb
    simp only [Bin.find, Bin.nodes]
    rw [RB.find_iff h k t e hi.1, hp.mem_iff]

theorem Bin.find_none_iff {hash : Nat → Nat} {n i h k : Nat} {b : Bin}
    (hb : BinWF hash n i b) :
    b.find h k = none ↔ ∀ x ∈ b.nodes, ¬(x.hash = h ∧ x.key = k) := by
  cases b with
  | empty => simp [Bin.find, Bin.nodes]
  | list ns => exact listFind_none_iff h k ns
  | tree t o =>
    obtain ⟨-, -, -, hi, hp⟩ := hb
    simp only [Bin.find, Bin.nodes]
    rw [RB.find_none_iff h k t hi.1]
    exact ⟨fun H x hx => H x (hp.mem_iff.2 hx), fun H x hx => H x (hp.mem_iff.1 hx)⟩

/-- in a well-formed bin the hash is determined by the key: a lookup only depends on the key -/
theorem Bin.find_iff_key {hash : Nat → Nat} {n i k : Nat} {b : Bin} {e : Node}
    (hb : BinWF hash n i b) :
    b.find (hash k) k = some e ↔ e ∈ b.nodes ∧ e.key = k := by
  rw [Bin.find_iff hb]
  constructor
  · exact fun ⟨h1, _, h3⟩ => ⟨h1, h3⟩
  · exact fun ⟨h1, h3⟩ => ⟨h1, by rw [(hb.nodeOk e h1).1, h3], h3⟩

/-! ## B3: list updates -/

/-- what `listSetVal` does in general: only the *first* match is updated -/
theorem listSetVal_split (h k v vi : Nat) (l1 l2 : List Node) (e : Node)
    (h1 : ∀ x ∈ l1, ¬(x.hash = h ∧ x.key = k)) (h2 : e.hash = h ∧ e.key = k) :
    listSetVal h k v vi (l1 ++ e :: l2) = l1 ++ { e with val := v, vi := vi } :: l2 := by
  induction l1 with
  | nil => simp [listSetVal, h2]
  | cons a l1 ih =>
    have ha := h1 a (by simp)
    have := ih (fun x hx => h1 x (by simp [hx]))
    simp only [List.cons_append, listSetVal]
    split
    next hc => simp only [Bool.and_eq_true, beq_iff_eq] at hc; exact absurd hc ha
    next => rw [this]

theorem listSetVal_absent (h k v vi : Nat) (ns : List Node)
    (h1 : ∀ x ∈ ns, ¬(x.hash = h ∧ x.key = k)) : listSetVal h k v vi ns = ns := by
  induction ns with
  | nil => rfl
  | cons a ns ih =>
    have ha := h1 a (by simp)
    simp only [listSetVal]
    split
    next hc => simp only [Bool.and_eq_true, beq_iff_eq] at hc; exact absurd hc ha
    next => rw [ih (fun x hx => h1 x (by simp [hx]))]

theorem listSetVal_eq_map (h k v vi : Nat) (ns : List Node) (hd : KeysNodup ns) :
    listSetVal h k v vi ns = ns.map (upd h k v vi) := by
  induction ns with
  | nil => rfl
  | cons a ns ih =>
    rw [keysNodup_cons] at hd
    simp only [listSetVal, List.map_cons]
    split
    next hc =>
      simp only [Bool.and_eq_true, beq_iff_eq] at hc
      rw [RB.map_upd_id h k v vi ns (fun x hx hx' => hd.1 x hx (hx'.2.trans hc.2.symm))]
      simp [upd, hc]
    next hc =>
      simp only [Bool.and_eq_true, beq_iff_eq] at hc
      rw [ih hd.2, RB.upd_id h k v vi a hc]

/-- the hypothesis of `listSetVal_eq_map` is needed: with a duplicate only the first is updated -/
example : listSetVal 0 0 1 1 [⟨0, 0, 0, 0, 0⟩, ⟨0, 0, 0, 0, 0⟩]
    ≠ [⟨0, 0, 0, 0, 0⟩, ⟨0, 0, 0, 0, 0⟩].map (upd 0 0 1 1) := by decide

@[simp] theorem listSetVal_length (h k v vi : Nat) (ns : List Node) :
    (listSetVal h k v vi ns).length = ns.length := by
  induction ns with
  | nil => rfl
  | cons a ns ih => simp only [listSetVal]; split <;> simp [ih]

theorem listSetVal_ne_nil (h k v vi : Nat) (ns : List Node) (hn : ns ≠ []) :
    listSetVal h k v vi ns ≠ [] := by
  intro hc
  have := congrArg List.length hc
  simp at this; exact hn this

theorem listSetVal_keys (h k v vi : Nat) (ns : List Node) :
    (listSetVal h k v vi ns).map (·.key) = ns.map (·.key) := by
  induction ns with
  | nil => rfl
  | cons a ns ih => simp only [listSetVal]; split <;> simp [ih]

/-- `listSetVal` keeps `KeysNodup` (no hypothesis on the match) -/
theorem listSetVal_keysNodup (h k v vi : Nat) (ns : List Node) (hd : KeysNodup ns) :
    KeysNodup (listSetVal h k v vi ns) := by
  unfold KeysNodup at *; rw [listSetVal_keys]; exact hd

theorem listSetVal_nodeOk {hash : Nat → Nat} {n i : Nat} (h k v vi : Nat) (ns : List Node)
    (ho : ∀ nd ∈ ns, NodeOk hash n i nd) : ∀ nd ∈ listSetVal h k v vi ns, NodeOk hash n i nd := by
  induction ns with
  | nil => simp [listSetVal]
  | cons a ns ih =>
    have ha := ho a (by simp)
    have := ih (fun x hx => ho x (by simp [hx]))
    simp only [listSetVal]
    split
    · intro nd hnd
      rcases List.mem_cons.1 hnd with rfl | hnd
      · exact ha
      · exact ho nd (by simp [hnd])
    · intro nd hnd
      rcases List.mem_cons.1 hnd with rfl | hnd
      · exact ha
      · exact this nd hnd

theorem mem_listSetVal {h k v vi : Nat} {ns : List Node} (hd : KeysNodup ns) {y : Node} :
    y ∈ listSetVal h k v vi ns ↔ ∃ x ∈ ns, y = upd h k v vi x := by
  rw [listSetVal_eq_map h k v vi ns hd, List.mem_map]
  exact ⟨fun ⟨x, h1, h2⟩ => ⟨x, h1, h2.symm⟩, fun ⟨x, h1, h2⟩ => ⟨x, h1, h2.symm⟩⟩

theorem listFind_listSetVal_same {h k v vi : Nat} {ns : List Node} {e : Node}
    (hf : listFind h k ns = some e) :
    listFind h k (listSetVal h k v vi ns) = some { e with val := v, vi := vi } := by
  obtain ⟨l1, l2, rfl, h1, h2⟩ := listFind_eq_some_iff_split.1 hf
  rw [listSetVal_split h k v vi l1 l2 e h1 h2]
  exact listFind_eq_some_iff_split.2 ⟨l1, l2, rfl, h1, h2⟩

/-- what `listRemove` does in general: only the *first* match is removed -/
theorem listRemove_split (h k : Nat) (l1 l2 : List Node) (e : Node)
    (h1 : ∀ x ∈ l1, ¬(x.hash = h ∧ x.key = k)) (h2 : e.hash = h ∧ e.key = k) :
    listRemove h k (l1 ++ e :: l2) = l1 ++ l2 := by
  induction l1 with
  | nil => simp [listRemove, h2]
  | cons a l1 ih =>
    have ha := h1 a (by simp)
    have := ih (fun x hx => h1 x (by simp [hx]))
    simp only [List.cons_append, listRemove]
    split
    next hc => simp only [Bool.and_eq_true, beq_iff_eq] at hc; exact absurd hc ha
    next => rw [this]

theorem listRemove_absent (h k : Nat) (ns : List Node)
    (h1 : ∀ x ∈ ns, ¬(x.hash = h ∧ x.key = k)) : listRemove h k ns = ns := by
  induction ns with
  | nil => rfl
  | cons a ns ih =>
    have ha := h1 a (by simp)
    simp only [listRemove]
    split
    next hc => simp only [Bool.and_eq_true, beq_iff_eq] at hc; exact absurd hc ha
    next => rw [ih (fun x hx => h1 x (by simp [hx]))]

theorem listRemove_eq_filter (h k : Nat) (ns : List Node) (hd : KeysNodup ns) :
    listRemove h k ns = ns.filter (fun x => !(x.hash == h && x.key == k)) := by
  induction ns with
  | nil => rfl
  | cons a ns ih =>
    rw [keysNodup_cons] at hd
    simp only [listRemove, List.filter_cons]
    split
    next hc =>
      simp only [hc, Bool.not_true, Bool.false_eq_true, if_false]
      simp only [Bool.and_eq_true, beq_iff_eq] at hc
      symm; rw [List.filter_eq_self]
      intro x hx
      have : ¬ (x.key = k) := fun hk => hd.1 x hx (hk.trans hc.2.symm)
      simp [this]
    next hc =>
      simp only [hc, Bool.not_false, if_true]
      rw [ih hd.2]

/-- the hypothesis of `listRemove_eq_filter` is needed -/
example : listRemove 0 0 [⟨0, 0, 0, 0, 0⟩, ⟨0, 0, 0, 0, 0⟩]
    ≠ [⟨0, 0, 0, 0, 0⟩, ⟨0, 0, 0, 0, 0⟩].filter (fun x => !(x.hash == 0 && x.key == 0)) := by decide

theorem listRemove_sublist (h k : Nat) (ns : List Node) : (listRemove h k ns).Sublist ns := by
  induction ns with
  | nil => exact List.Sublist.refl _
  | cons a ns ih =>
    simp only [listRemove]
    split
    · exact List.sublist_cons_self a ns
    · exact ih.cons_cons a

theorem listRemove_keysNodup (h k : Nat) (ns : List Node) (hd : KeysNodup ns) :
    KeysNodup (listRemove h k ns) := hd.sublist (listRemove_sublist h k ns)

theorem listRemove_nodeOk {hash : Nat → Nat} {n i : Nat} (h k : Nat) (ns : List Node)
    (ho : ∀ nd ∈ ns, NodeOk hash n i nd) : ∀ nd ∈ listRemove h k ns, NodeOk hash n i nd :=
  fun nd hnd => ho nd ((listRemove_sublist h k ns).subset hnd)

theorem mem_listRemove {h k : Nat} {ns : List Node} (hd : KeysNodup ns) {y : Node} :
    y ∈ listRemove h k ns ↔ y ∈ ns ∧ ¬(y.hash = h ∧ y.key = k) := by
  rw [listRemove_eq_filter h k ns hd, List.mem_filter]
  simp only [Bool.not_eq_eq_eq_not, Bool.not_true, Bool.and_eq_false_imp, beq_iff_eq, not_and,
    beq_eq_false_iff_ne, ne_eq]

theorem listFind_listRemove_same {h k : Nat} {ns : List Node} (hd : KeysNodup ns) :
    listFind h k (listRemove h k ns) = none := by
  rw [listFind_none_iff]
  intro x hx
  exact ((mem_listRemove hd).1 hx).2

theorem listRemove_length {h k : Nat} {ns : List Node} {e : Node}
    (hf : listFind h k ns = some e) : (listRemove h k ns).length + 1 = ns.length := by
  obtain ⟨l1, l2, rfl, h1, h2⟩ := listFind_eq_some_iff_split.1 hf
  rw [listRemove_split h k l1 l2 e h1 h2]; simp; omega

/-! ### `listBinCount` -/

theorem listBinCount_le (h k : Nat) (ns : List Node) (c : Nat) :
    listBinCount h k ns c ≤ c + ns.length := by
  fun_induction listBinCount h k ns c <;> simp_all <;> omega

theorem listBinCount_ge (h k : Nat) (ns : List Node) (c : Nat) (hn : ns ≠ []) :
    c + 1 ≤ listBinCount h k ns c := by
  fun_induction listBinCount h k ns c <;> simp_all
  rename_i ih
  cases hns : (‹List Node› : List Node) <;> simp_all
  omega

theorem listBinCount_pos (h k : Nat) (ns : List Node) (hn : ns ≠ []) :
    1 ≤ listBinCount h k ns 0 := by
  simpa using listBinCount_ge h k ns 0 hn

theorem listBinCount_absent_aux (h k : Nat) (ns : List Node) (c : Nat)
    (ha : ∀ x ∈ ns, ¬(x.hash = h ∧ x.key = k)) :
    listBinCount h k ns c = c + ns.length := by
  fun_induction listBinCount h k ns c <;> simp_all
  omega

theorem listBinCount_absent (h k : Nat) (ns : List Node)
    (ha : ∀ x ∈ ns, ¬(x.hash = h ∧ x.key = k)) (_hn : ns ≠ []) :
    listBinCount h k ns 0 = ns.length := by
  simpa using listBinCount_absent_aux h k ns 0 ha

/-- the bin count of a present key is its 1-based position -/
theorem listBinCount_split (h k : Nat) (l1 l2 : List Node) (e : Node) (c : Nat)
    (h1 : ∀ x ∈ l1, ¬(x.hash = h ∧ x.key = k)) (h2 : e.hash = h ∧ e.key = k) :
    listBinCount h k (l1 ++ e :: l2) c = c + l1.length + 1 := by
  induction l1 generalizing c with
  | nil => simp [listBinCount, h2]
  | cons a l1 ih =>
    have ha := h1 a (by simp)
    have := ih (c + 1) (fun x hx => h1 x (by simp [hx]))
    simp only [List.cons_append, listBinCount]
    split
    next hc => simp only [Bool.and_eq_true, beq_iff_eq] at hc; exact absurd hc ha
    next =>
      split
      next heq => simp at heq
      next => rw [this]; simp; omega

end Flurry.Seq
