import Flurry.Lemmas.BinNRInv
import Flurry.Lemmas.BinNRRetired
/-! # Proto/BinNR: the reclamation invariant holds in every reachable state (C03, C04) -/
namespace Flurry.Proto.BinNR
open Flurry.Lin
open Flurry.Proto.BinX (NodeS Cell Pending isReader dflt chainFrom cellHead cellOfHead nodeAt)
open Flurry.Proto.BinN (Pc Local cellAt cellOf chainOfCell Ghost Inv HInv Live chId getCell CellId StepK step_stepK)

/-- the shared memory, the readers and the writers of a `BinNR` run are a `BinN` run -/
theorem reachable_n {nt : Nat} {s : State} (hr : Reachable nt s) : BinN.Reachable nt s.n := by
  induction hr with
  | init => exact .init
  | @step s s' t a hr hs ih =>
    unfold step stepG at hs
    cases a with
    | base inv rz pick =>
      simp only at hs
      cases hb : BinN.step s.n t inv rz pick with
      | none => rw [hb] at hs; cases hs
      | some n' =>
        rw [hb] at hs
        cases hs
        exact .step t inv rz pick ih hb
    | retire i =>
      simp only at hs
      split at hs
      · cases hs; exact ih
      · cases hs
    | free i =>
      simp only at hs
      split at hs
      · cases hs; exact ih
      · cases hs

theorem reachable_rinv {nt : Nat} {s : State} (hr : Reachable nt s) : ∃ G, RInv s G := by
  induction hr with
  | init => exact ⟨_, RInv.init nt⟩
  | @step s s' t a hr hs ih =>
    obtain ⟨G, R⟩ := ih
    cases a with
    | base inv rz pick =>
      unfold step stepG at hs
      simp only at hs
      cases hb : BinN.step s.n t inv rz pick with
      | none => rw [hb] at hs; cases hs
      | some n' =>
        rw [hb] at hs
        cases hs
        cases hl : s.n.threads[t]? with
        | none => unfold BinN.step BinN.stepG at hb; rw [hl] at hb; cases hb
        | some l =>
          have hK := step_stepK hl hb
          exact R.base hl hK (retiredBy_dead R.inv hl hK)
    | retire i => exact ⟨G, R.retire hs⟩
    | free i => exact ⟨G, R.free hs⟩

/-- what a step touches: a node index of the program counter, or (the split, under the bin lock) a node of the
chain of the validated cell -/
theorem touches_sub {n : BinN.State} {G : Ghost} (I : Inv n G) {t i : Nat} (hi : i ∈ touches n t) :
    (∃ l, n.threads[t]? = some l ∧ i ∈ holds l.pc) ∨ Live0 n i := by
  unfold touches at hi
  cases hl : n.threads[t]? with
  | none => rw [hl] at hi; cases hi
  | some l =>
    rw [hl] at hi
    obtain ⟨pc, call⟩ := l
    simp only at hi
    cases pc with
    | tBuild j h =>
      right
      have T := I.gen.thr t _ hl
      obtain ⟨hcell, -⟩ := T.valid n.cur j h rfl
      refine ⟨(n.cur, j), ?_⟩
      unfold chId getCell
      simp only
      rw [hcell]
      exact hi
    | rNode c =>
      cases c with
      | none => simp at hi
      | some c => left; exact ⟨_, rfl, by simpa [holds] using hi⟩
    | wFind g h pred cur =>
      cases cur with
      | none => simp at hi
      | some c =>
        left; refine ⟨_, rfl, ?_⟩
        simp only [List.mem_singleton] at hi
        simp [holds, hi]
    | wStore g h pred hit hnext =>
      left; refine ⟨_, rfl, ?_⟩
      simp only [List.mem_append, Option.mem_toList] at hi
      simp only [holds, List.mem_cons, List.mem_append, Option.mem_toList]
      rcases hi with h1 | h1
      · exact Or.inr (Or.inl (Or.inl h1))
      · exact Or.inr (Or.inl (Or.inr h1))
    | wLock g h => left; exact ⟨_, rfl, by simpa [holds] using hi⟩
    | wUnlock g h res retry => left; exact ⟨_, rfl, by simpa [holds] using hi⟩
    | tLock j h => left; exact ⟨_, rfl, by simpa [holds] using hi⟩
    | tCheck j h => left; exact ⟨_, rfl, by simpa [holds] using hi⟩
    | tUnlock j h => left; exact ⟨_, rfl, by simpa [holds] using hi⟩
    | _ => simp at hi

end Flurry.Proto.BinNR
