import Flurry.Lemmas.BinNRDefs
/-! # Proto/BinNR: the store of the forwarding marker makes exactly the copied prefix unreachable (C03, C04)

The re-used last run is the MAXIMAL suffix of the old chain with equal split bits (`lastRunStartB_le_of_suffix`);
a node of the old chain that is also in a new chain is followed in the old chain only by nodes of the same new
chain (`SideOK.suffix`), which all have the split bit of that side (`SideOK.side`): it lies in the last run, not
in the copied prefix. -/
namespace Flurry.Proto.BinNR
open Flurry.Lin
open Flurry.Proto.BinX (NodeS Cell Pending dflt chainFrom cellHead cellOfHead nodeAt IsSeg IsChain chainH chainH_empty
  chainH_moved)
open Flurry.Proto.BinN (Pc Local cellAt cellOf chainOfCell Ghost Inv HInv Live chId getCell CellId SideOK ord bitAt
  lastRunStartB chId_of_moved chId_of_empty keyOn PcMid)

/-- maximality of the last run: a non-empty suffix whose nodes all have the same split bit lies inside it -/
theorem lastRunStartB_le_of_suffix (bit : Nat → Bool) (heap : List NodeS) (pre suf : List Nat) (b : Bool)
    (hne : suf ≠ []) (hb : ∀ i ∈ suf, bit (heap.getD i dflt).key = b) :
    lastRunStartB bit heap (pre ++ suf) ≤ pre.length := by
  unfold lastRunStartB
  dsimp only
  rw [List.getLast?_eq_head?_reverse, List.map_append, List.reverse_append]
  have hall : ∀ a ∈ (suf.map fun i => bit (heap.getD i dflt).key).reverse, a = b := by
    intro a ha
    rw [List.mem_reverse, List.mem_map] at ha
    obtain ⟨i, hi, rfl⟩ := ha
    exact hb i hi
  have hlen : (suf.map fun i => bit (heap.getD i dflt).key).reverse.length = suf.length := by
    rw [List.length_reverse, List.length_map]
  generalize (suf.map fun i => bit (heap.getD i dflt).key).reverse = r at hall hlen
  cases r with
  | nil =>
    exfalso
    apply hne
    exact List.eq_nil_of_length_eq_zero hlen.symm
  | cons a r' =>
    have ha : a = b := hall a List.mem_cons_self
    subst ha
    simp only [List.cons_append, List.head?_cons]
    have hp : ∀ x ∈ a :: r', (fun y => y == a) x = true := by
      intro x hx
      rw [hall x hx]
      simp
    have e := List.takeWhile_append_of_pos (p := fun y => y == a) (l₂ := (pre.map fun i => bit (heap.getD i dflt).key).reverse) hp
    rw [List.cons_append] at e
    rw [e, List.length_append, List.length_append, hlen]
    omega

/-- a node of a strictly `ord`-sorted duplicate-free chain `O`, all of whose successors (and itself) have the
split bit `b`, is not in the copied prefix -/
theorem not_mem_take_lastRun {bit : Nat → Bool} {heap : List NodeS} {cr : BinN.CR} {O : List Nat} {x : Nat} {b : Bool}
    (hnd : O.Nodup) (hs : O.Pairwise (fun x y => ord cr x < ord cr y)) (hx : x ∈ O)
    (hbx : bit (nodeAt heap x).key = b)
    (hb : ∀ i ∈ O, ord cr x < ord cr i → bit (nodeAt heap i).key = b) :
    x ∉ O.take (lastRunStartB bit heap O) := by
  obtain ⟨pre, post, rfl⟩ := List.append_of_mem hx
  have hpost : ∀ i ∈ post, ord cr x < ord cr i := by
    have := (List.pairwise_append.1 hs).2.1
    exact (List.pairwise_cons.1 this).1
  have hle := lastRunStartB_le_of_suffix bit heap pre (x :: post) b (by simp) (by
    intro i hi
    rcases List.mem_cons.1 hi with rfl | hi
    · exact hbx
    · exact hb i (List.mem_append_right _ (List.mem_cons_of_mem _ hi)) (hpost i hi))
  intro hmem
  rw [List.take_append_of_le_length hle] at hmem
  have hpre : x ∈ pre := List.mem_of_mem_take hmem
  have := (List.nodup_append.1 hnd).2.2 x hpre x List.mem_cons_self
  exact this rfl

/-- what the invariant says at the store of the forwarding marker -/
theorem storeMoved_facts {s : BinN.State} {G : Ghost} (I : Inv s G) {t j h : Nat} {l : Local}
    (hl : s.threads[t]? = some l) (hpc : l.pc = .tStoreMoved j h) :
    chId s (s.cur, j) = chainFrom s.heap s.heap.length (some h) ∧ j < 2 ^ s.cur ∧
    SideOK (bitAt s.cur) s.heap G.cr G.fr (chId s (s.cur, j)) false (chId s (s.cur + 1, j)) ∧
    SideOK (bitAt s.cur) s.heap G.cr G.fr (chId s (s.cur, j)) true (chId s (s.cur + 1, j + 2 ^ s.cur)) := by
  have hp := I.ph.pcMid t l hl
  have T := I.gen.thr t l hl
  obtain ⟨pc, call⟩ := l
  simp only at hpc
  subst hpc
  obtain ⟨lo, hg, hmid, hlow, hhigh⟩ := hp
  obtain ⟨hcell, -⟩ := T.valid s.cur j h rfl
  have hj : j < 2 ^ s.cur := T.idx j rfl
  obtain ⟨-, sL, sH⟩ := BinN.mid_chains I.heap hmid hlow hhigh
  refine ⟨?_, hj, sL, sH⟩
  unfold chId getCell
  simp only
  rw [hcell]
  rfl

theorem copiedPrefix_nodup {s : BinN.State} {G : Ghost} (I : Inv s G) {t j h : Nat} {l : Local}
    (hl : s.threads[t]? = some l) (hpc : l.pc = .tStoreMoved j h) : (copiedPrefix s h).Nodup := by
  obtain ⟨hO, -⟩ := storeMoved_facts I hl hpc
  unfold copiedPrefix
  dsimp only
  rw [← hO]
  exact (I.heap.chain_nodup (s.cur, j)).sublist (List.take_sublist _ _)

/-- the store of the forwarding marker makes exactly the copied prefix unreachable: every node of the copied prefix
is in the chain of the old cell before the store and in no chain of any cell after it -/
theorem copiedPrefix_dead {s s' : BinN.State} {G : Ghost} (I : Inv s G) {t j h : Nat} {l : Local}
    (hl : s.threads[t]? = some l) (hpc : l.pc = .tStoreMoved j h)
    (hheap : s'.heap = s.heap)
    (hcell : ∀ id : CellId, id ≠ (s.cur, j) → getCell s' id = getCell s id)
    (hmv : getCell s' (s.cur, j) = .moved) :
    ∀ x ∈ copiedPrefix s h, Live0 s x ∧ ¬ Live0 s' x := by
  obtain ⟨hO, hj, sL, sH⟩ := storeMoved_facts I hl hpc
  have H := I.heap
  have S := H.shape
  intro x hx
  unfold copiedPrefix at hx
  dsimp only at hx
  rw [← hO] at hx
  have hxO : x ∈ chId s (s.cur, j) := List.mem_of_mem_take hx
  refine ⟨⟨(s.cur, j), hxO⟩, ?_⟩
  rintro ⟨id, hid⟩
  by_cases hideq : id = (s.cur, j)
  · subst hideq
    rw [chId_of_moved hmv] at hid
    cases hid
  · have e : chId s' id = chId s id := by
      unfold chId
      rw [hheap, hcell id hideq]
    rw [e] at hid
    obtain ⟨g, j'⟩ := id
    have k1 : (nodeAt s.heap x).key % 2 ^ s.cur = j := H.side _ x hxO
    have k2 : (nodeAt s.heap x).key % 2 ^ g = j' := H.side _ x hid
    have hne' : getCell s (g, j') ≠ .empty := fun h => by rw [chId_of_empty h] at hid; cases hid
    have hnm' : getCell s (g, j') ≠ .moved := fun h => by rw [chId_of_moved h] at hid; cases hid
    have hj' : j' < 2 ^ g := by
      rw [← k2]; exact Nat.mod_lt _ (Nat.two_pow_pos g)
    -- a node of the old chain that is in the new chain `X` of side `b` is not in the copied prefix
    have key : ∀ (b : Bool) (X : List Nat),
        SideOK (bitAt s.cur) s.heap G.cr G.fr (chId s (s.cur, j)) b X → x ∈ X → False := by
      intro b X sX hxX
      refine not_mem_take_lastRun (H.chain_nodup (s.cur, j)) ((H.isChain (s.cur, j)).sortedN H.nextOK) hxO
        (sX.side x hxX) ?_ hx
      intro i hi hlt
      exact sX.side i (sX.suffix x hxO hxX i hi hlt)
    rcases Nat.lt_or_ge g s.cur with hg | hg
    · exact hnm' (S.old g j' hg hj')
    · rcases Nat.lt_or_ge (s.cur + 1) g with hg2 | hg2
      · exact hne' (S.cell_of_gen_gt hg2)
      · rcases Nat.lt_or_ge s.cur g with hg3 | hg3
        · have : g = s.cur + 1 := by omega
          subst this
          have hb := BinN.mod_succ_bit (nodeAt s.heap x).key s.cur
          rw [k2, k1] at hb
          cases hbit : bitAt s.cur (nodeAt s.heap x).key with
          | false =>
            rw [hbit] at hb
            simp only [Bool.false_eq_true, if_false, Nat.add_zero] at hb
            subst hb
            exact key false _ sL hid
          | true =>
            rw [hbit] at hb
            simp only [if_true] at hb
            subst hb
            exact key true _ sH hid
        · have : g = s.cur := by omega
          subst this
          apply hideq
          rw [← k1, ← k2]

end Flurry.Proto.BinNR

#print axioms Flurry.Proto.BinNR.copiedPrefix_nodup
#print axioms Flurry.Proto.BinNR.copiedPrefix_dead
