import Flurry.Lemmas.BinGNOwn
/-! # Proto/BinGN: the cells of the generation being filled are empty until the transfer of their parent stores
them (definitions, frame lemmas) -/
namespace Flurry.Proto.BinGN
open Flurry.Lin

/-- the resizing thread has stored the low child of cell `j` -/
def storedLow : Pc → Option Nat
  | .xStoreHigh j _ _ | .xStoreMoved j _ => some j
  | _ => none

/-- the resizing thread has stored the high child of cell `j` -/
def storedHigh : Pc → Option Nat
  | .xStoreMoved j _ => some j
  | _ => none

/-- the transfer in progress has stored child `j'` -/
def StoredW (s : State) (j' : Nat) : Prop :=
  ∃ (t : Nat) (l : Local), s.threads[t]? = some l ∧
    (storedLow l.pc = some j' ∨ ∃ j, storedHigh l.pc = some j ∧ j' = j + 2 ^ s.cur)

/-- a cell of generation `cur + 1` that is not empty has a forwarded parent, or has just been stored by the
transfer of its parent -/
def NextEmpty (s : State) : Prop :=
  ∀ j', cellAt s (s.cur + 1) j' ≠ .empty → cellAt s s.cur (j' % 2 ^ s.cur) = .moved ∨ StoredW s j'

theorem StoredW.of_set {s s' : State} {t : Nat} {l l' : Local} {j' : Nat} (hl : s.threads[t]? = some l)
    (hthr : s'.threads = s.threads.set t l') (hcur : s'.cur = s.cur)
    (hlo : storedLow l.pc = some j' → storedLow l'.pc = some j')
    (hhi : ∀ j, storedHigh l.pc = some j → storedHigh l'.pc = some j) (h : StoredW s j') : StoredW s' j' := by
  have ht : t < s.threads.length := (List.getElem?_eq_some_iff.1 hl).1
  obtain ⟨t1, l1, h1, hw⟩ := h
  by_cases e : t1 = t
  · subst e
    rw [hl] at h1; cases h1
    refine ⟨t1, l', by rw [hthr, List.getElem?_set_self ht], ?_⟩
    rcases hw with hw | ⟨j, hw, hj⟩
    · exact Or.inl (hlo hw)
    · exact Or.inr ⟨j, hhi j hw, by rw [hcur]; exact hj⟩
  · refine ⟨t1, l1, by rw [hthr, List.getElem?_set_ne (Ne.symm e)]; exact h1, ?_⟩
    rcases hw with hw | ⟨j, hw, hj⟩
    · exact Or.inl hw
    · exact Or.inr ⟨j, hw, by rw [hcur]; exact hj⟩

/-- the cells of generations `cur` and `cur + 1` change only as described -/
theorem nextEmpty_frame {s s' : State} {t : Nat} {l l' : Local} (N : NextEmpty s) (hl : s.threads[t]? = some l)
    (hthr : s'.threads = s.threads.set t l') (hcur : s'.cur = s.cur)
    (hmono : ∀ j, cellAt s s.cur j = .moved → cellAt s' s.cur j = .moved)
    (hchild : ∀ j', cellAt s' (s.cur + 1) j' ≠ .empty → cellAt s (s.cur + 1) j' ≠ .empty ∨
      cellAt s' s.cur (j' % 2 ^ s.cur) = .moved ∨ StoredW s' j')
    (hw : ∀ j', StoredW s j' → StoredW s' j' ∨ cellAt s' s.cur (j' % 2 ^ s.cur) = .moved) : NextEmpty s' := by
  intro j' hne
  rw [hcur] at hne ⊢
  rcases hchild j' hne with h | h | h
  · rcases N j' h with h1 | h1
    · exact Or.inl (hmono _ h1)
    · rcases hw j' h1 with h2 | h2
      · exact Or.inr h2
      · exact Or.inl h2
  · exact Or.inl h
  · exact Or.inr h

/-- transitions that do not touch the tables, by a thread that keeps what it has stored -/
theorem nextEmpty_same {s s' : State} {t : Nat} {l l' : Local} (N : NextEmpty s) (hl : s.threads[t]? = some l)
    (hthr : s'.threads = s.threads.set t l') (hcur : s'.cur = s.cur) (htabs : s'.tabs = s.tabs)
    (hlo : storedLow l'.pc = storedLow l.pc) (hhi : storedHigh l'.pc = storedHigh l.pc) : NextEmpty s' := by
  have hc : ∀ g j, cellAt s' g j = cellAt s g j := fun g j => by rw [cellAt_eq, cellAt_eq, htabs]
  refine nextEmpty_frame N hl hthr hcur (fun j h => by rw [hc]; exact h) (fun j' h => Or.inl (by rw [hc] at h; exact h))
    (fun j' h => Or.inl (h.of_set hl hthr hcur (fun e => by rw [hlo]; exact e) (fun j e => by rw [hhi]; exact e)))

/-- a store into cell `(g0, j0)` by a thread that keeps what it has stored; a child cell is stored only behind
a forwarded parent -/
theorem nextEmpty_put {s s' : State} {t : Nat} {l l' : Local} {g0 j0 : Nat} {c : Cell} (N : NextEmpty s)
    (hl : s.threads[t]? = some l)
    (hthr : s'.threads = s.threads.set t l') (hcur : s'.cur = s.cur)
    (htabs : s'.tabs = s.tabs.modify g0 (fun row => row.set j0 c))
    (hold : cellAt s g0 j0 ≠ .moved ∨ c = .moved)
    (hpar : g0 = s.cur + 1 → cellAt s s.cur (j0 % 2 ^ s.cur) = .moved)
    (hlo : storedLow l'.pc = storedLow l.pc) (hhi : storedHigh l'.pc = storedHigh l.pc) : NextEmpty s' := by
  have hne : ∀ g j, ¬ (g = g0 ∧ j = j0) → cellAt s' g j = cellAt s g j := by
    intro g j h
    rw [cellAt_eq, cellAt_eq, htabs]
    exact cellT_put_ne _ _ h
  have hself : cellAt s' g0 j0 = c ∨ cellAt s' g0 j0 = cellAt s g0 j0 := by
    rw [cellAt_eq, cellAt_eq, htabs]
    exact cellT_put_self _ _ _ _
  have hmono : ∀ g j, cellAt s g j = .moved → cellAt s' g j = .moved := by
    intro g j hm
    by_cases h : g = g0 ∧ j = j0
    · obtain ⟨rfl, rfl⟩ := h
      rcases hself with e | e
      · rcases hold with h1 | h1
        · exact absurd hm h1
        · rw [e]; exact h1
      · rw [e]; exact hm
    · rw [hne g j h]; exact hm
  refine nextEmpty_frame N hl hthr hcur (fun j h => hmono _ _ h) ?_
    (fun j' h => Or.inl (h.of_set hl hthr hcur (fun e => by rw [hlo]; exact e) (fun j e => by rw [hhi]; exact e)))
  intro j' h
  by_cases e : s.cur + 1 = g0 ∧ j' = j0
  · obtain ⟨rfl, rfl⟩ := e
    exact Or.inr (Or.inl (hmono _ _ (hpar rfl)))
  · rw [hne _ _ e] at h; exact Or.inl h

end Flurry.Proto.BinGN
