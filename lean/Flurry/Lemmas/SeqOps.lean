import Flurry.Lemmas.SeqOpsRoom
/-! # Operation-level lemmas of the sequential model: summary, `step`/`run` refinement

Invariant: `Good m := WF m ∧ InitOk m` (`SeqOpsCore.lean`).

* `SeqOpsCore.lean`: `Good`, `get_set_bin*`, lookups of other keys in the bin updates,
  `tryPresize_go_preWF`, `treeifyBin_preWF`
* `SeqOpsUpd.lean`: `UpdPost`, `insert_post`, `update_post`, `remove_post`
* `SeqOpsPut.lean` (O1): `put_spec`, `put_good`, `put_absMap`, `put_out`, `step_ins`, `step_tryIns`,
  `put_keeps_first_key`, `putBinCount`, `PutNoGrow`
* `SeqOpsRemove.lean` (O2): `replaceNode_rm_spec`, `remove_absMap`, `remove_out`, `remove_if_absMap`,
  `step_rm`, `step_rmEntry`
* `SeqOpsCip.lean` (O3): `cip_spec`, `step_cip`, `cip_unchanged`, `cip_panic_iff`, `cip_of_panic`
* `SeqOpsRead.lean` (O7, O4): `len_eq_entries_length`, `entries_keys_nodup_of_good`,
  `mem_entries_iff`, `len_eq_zero_iff`, `absMap_isSome_iff`, `len_eq_keys_length`; `clear_good`,
  `clear_absMap`, `clear_table_len`, `clear_entries`
* `SeqOpsRetain.lean` (O5): `retainGo_append`, `retainGo_panic_prefix`, `retainGo_spec`,
  `retain_spec`, `retain_absMap`, `retain_any`, `retain_removes_only_rejected`
* `SeqOpsBulk.lean` (O6): `reserve_*`, `putAll_spec`, `extend_absMap`, `collect_absMap`,
  `clone_absMap`, `mapEq_clone`
* `SeqOpsCap.lean` (O8): `step_good`, `step_never_shrinks`, `step_removal_never_grows`,
  `put_grow_only_when`, `no_growth_with_room`, `no_growth_with_room_bins`
* `SeqOpsRoom.lean` (O8): `no_growth_with_room_hash` (hypothesis on the inserted keys only) -/
namespace Flurry.Seq
open Flurry Flurry.Gen

/-- **one step refines the reference map** -/
theorem step_refines_lemma {m : Map} (hg : Good m) (op : Op) (ht : op.total) :
    Good (step m op).1 ∧ absMap (step m op).1 = (Ref.step (absMap m) op).1 ∧
    (op.answered = true → (step m op).2 = (Ref.step (absMap m) op).2) := by
  cases op with
  | ins k ki v vi => obtain ⟨a, b, c⟩ := step_ins k ki v vi hg; exact ⟨a, b, fun _ => c⟩
  | tryIns k ki v vi => obtain ⟨a, b, c⟩ := step_tryIns k ki v vi hg; exact ⟨a, b, fun _ => c⟩
  | get k => exact ⟨hg, rfl, fun _ => (step_get k m).2⟩
  | getKV k => exact ⟨hg, rfl, fun _ => (step_getKV k m).2⟩
  | has k => exact ⟨hg, rfl, fun _ => (step_has k m).2⟩
  | rm k => obtain ⟨a, b, c⟩ := step_rm k hg; exact ⟨a, b, fun _ => c⟩
  | rmEntry k => obtain ⟨a, b, c⟩ := step_rmEntry k hg; exact ⟨a, b, fun _ => c⟩
  | cip k f => obtain ⟨a, b, c⟩ := step_cip k f hg; exact ⟨a, b, fun _ => c⟩
  | retain force f => obtain ⟨a, b, c⟩ := step_retain force hg ht; exact ⟨a, b, fun _ => c⟩
  | clear => obtain ⟨a, b, c⟩ := step_clear hg; exact ⟨a, b, fun _ => c⟩
  | reserve n => obtain ⟨a, b, c⟩ := step_reserve n hg; exact ⟨a, b, fun _ => c⟩
  | extend hint items => obtain ⟨a, b, c⟩ := step_extend hint items hg; exact ⟨a, b, fun _ => c⟩
  | len => exact ⟨hg, rfl, fun h => by cases h⟩
  | isEmpty => exact ⟨hg, rfl, fun h => by cases h⟩

/-- the answers of `len` / `is_empty` (which the reference map does not determine by itself):
the number of keys present -/
theorem step_len (m : Map) : step m .len = (m, .nat (len m)) := rfl
theorem step_isEmpty (m : Map) : step m .isEmpty = (m, .bool (len m == 0)) := rfl

/-- the reference map run over an operation list -/
def Ref.run (r : Ref) : List Op → Ref × List Ans
  | [] => (r, [])
  | op :: ops => let s := Ref.step r op; let rs := Ref.run s.1 ops; (rs.1, s.2 :: rs.2)

theorem run_nil (m : Map) : run m [] = (m, []) := rfl
theorem run_cons (m : Map) (op : Op) (ops : List Op) :
    run m (op :: ops) = ((run (step m op).1 ops).1, (step m op).2 :: (run (step m op).1 ops).2) := rfl
theorem Ref.run_cons (r : Ref) (op : Op) (ops : List Op) :
    Ref.run r (op :: ops) =
      ((Ref.run (Ref.step r op).1 ops).1, (Ref.step r op).2 :: (Ref.run (Ref.step r op).1 ops).2) := rfl

theorem run_append (m : Map) (ops₁ ops₂ : List Op) :
    (run m (ops₁ ++ ops₂)).1 = (run (run m ops₁).1 ops₂).1 := by
  induction ops₁ generalizing m with
  | nil => rfl
  | cons op rest ih => rw [List.cons_append, run_cons, run_cons]; exact ih _

/-- every state reachable from a `Good` state is `Good` — whatever the callbacks do -/
theorem run_good {m : Map} (hg : Good m) (ops : List Op) : Good (run m ops).1 := by
  induction ops generalizing m with
  | nil => exact hg
  | cons op rest ih => rw [run_cons]; exact ih (step_good hg op)

theorem run_hash {m : Map} (hg : Good m) (ops : List Op) : (run m ops).1.hash = m.hash := by
  induction ops generalizing m with
  | nil => rfl
  | cons op rest ih => rw [run_cons]; exact (ih (step_good hg op)).trans (step_hash hg op)

/-- the table never shrinks along a run -/
theorem run_never_shrinks {m : Map} (hg : Good m) (ops : List Op) :
    tableLen m ≤ tableLen (run m ops).1 ∧ m.resizes ≤ (run m ops).1.resizes := by
  induction ops generalizing m with
  | nil => exact ⟨Nat.le_refl _, Nat.le_refl _⟩
  | cons op rest ih =>
    rw [run_cons]
    obtain ⟨h1, h2⟩ := step_never_shrinks hg op
    obtain ⟨h3, h4⟩ := ih (step_good hg op)
    exact ⟨Nat.le_trans h1 h3, Nat.le_trans h2 h4⟩

/-- a run of removal-class operations and reads never resizes -/
theorem run_removal_never_grows {m : Map} (hg : Good m) (ops : List Op)
    (hops : ∀ op ∈ ops, op.nonGrowing = true) :
    (run m ops).1.resizes = m.resizes ∧ (m.table ≠ none → tableLen (run m ops).1 = tableLen m) := by
  induction ops generalizing m with
  | nil => exact ⟨rfl, fun _ => rfl⟩
  | cons op rest ih =>
    rw [run_cons]
    obtain ⟨h1, h2⟩ := step_removal_never_grows hg op (hops op (by simp))
    obtain ⟨h3, h4⟩ := ih (step_good hg op) (fun o ho => hops o (by simp [ho]))
    refine ⟨h3.trans h1, fun hne => ?_⟩
    have hl := (h2 hne).1
    have hne' : (step m op).1.table ≠ none := by
      intro hn
      have hpos : 0 < tableLen m := by
        cases ht : m.table with
        | none => exact absurd ht hne
        | some t => exact hg.1.tableLen_pos ht
      rw [← hl, tableLen_of_none hn] at hpos
      omega
    exact (h4 hne').trans hl

/-- **a run refines the reference map**: same abstract map, same answers (of the operations
the reference determines) -/
theorem run_refines {m : Map} (hg : Good m) (ops : List Op) (ht : ∀ op ∈ ops, op.total) :
    Good (run m ops).1 ∧ absMap (run m ops).1 = (Ref.run (absMap m) ops).1 ∧
    (run m ops).2.length = ops.length ∧ (Ref.run (absMap m) ops).2.length = ops.length ∧
    ∀ (i : Nat) (op : Op), ops[i]? = some op → op.answered = true →
      (run m ops).2[i]? = (Ref.run (absMap m) ops).2[i]? := by
  induction ops generalizing m with
  | nil => exact ⟨hg, rfl, rfl, rfl, fun i op h => by simp at h⟩
  | cons op rest ih =>
    obtain ⟨s1, s2, s3⟩ := step_refines_lemma hg op (ht op (by simp))
    obtain ⟨r1, r2, r3, r4, r5⟩ := ih s1 (fun o ho => ht o (by simp [ho]))
    rw [run_cons, Ref.run_cons, ← s2]
    refine ⟨r1, r2, by simp [r3], by simp [r4], ?_⟩
    intro i o hi ha
    cases i with
    | zero =>
      simp only [List.getElem?_cons_zero, Option.some.injEq] at hi
      subst hi
      simp only [List.getElem?_cons_zero, s3 ha]
    | succ j =>
      simp only [List.getElem?_cons_succ] at hi ⊢
      exact r5 j o hi ha

/-! ## a concrete instance: identity hash, `with_capacity(4)` (8 bins, threshold 6), two inserts -/

def ex0 : Map := { hash := fun k => k, table := some (emptyTable 8), sizeCtl := 6 }

theorem withCapacity_id_4 : withCapacity (fun k => k) 4 = ex0 := by
  simp [withCapacity, presizeCap, npow2, npow2Go, MAXIMUM_CAPACITY, presizeThreshold, loadFactor, ex0]

theorem ex0_good : Good ex0 := withCapacity_id_4 ▸ good_withCapacity _ 4

def ex2 : Map := (run ex0 [.ins 1 7 10 100, .ins 2 8 20 200]).1

theorem ex2_good : Good ex2 := run_good ex0_good _

example : tableLen ex2 = 8 ∧ len ex2 = 2 ∧ ex2.sizeCtl = 6 := by decide
example : absMap ex2 1 = some (7, 10, 100) ∧ absMap ex2 3 = none := by decide
example : (entries ex2).map (·.key) = [1, 2] := by decide

end Flurry.Seq
