import Flurry.Lemmas.BinNRExamples
/-! # Proto/BinNR: kernel-checked runs (`decide`) and the refutation of "retire before unlink" (C03, C04)

Hand-written schedules over `BinNR.stepG early`, executed by the kernel (`by decide`, no `native_decide`).
`runChecked early n sc` runs `sc` from `init n` and evaluates, after EVERY step, the three safety checks
`noTouchFreedB`, `holdersAwaitedB`, `retiredUnreachableB` (`checkB`): `some none` = every step enabled and
every check holds after every step; `some (some (v, k))` = the first violated check `v`, after step `k`;
`none` = some step is not enabled.

Node indices (allocation order): thread 0 inserts keys 1, 2 (and 3): `a = 0` (key 1), `b = 1` (key 2),
`c = 2` (key 3); cell `(0,0) = [a, b, c]`. The first resize (split bit 0) re-uses the last run `[c]` and
copies `a` (→ `a' = 3`, high) and `b` (→ `b' = 4`, low): `(1,0) = [b']`, `(1,1) = [a', c]`; the copied
prefix `[a, b]` is what the resizing thread has to retire.

* `schedRemove` — a reader holds the node that a remover unlinks and retires: the node is `retired [reader]`,
  `free` is refused, the reader reads the retired node and responds, then `free` is enabled.
* `schedTransfer` / `schedTransfer2` — a reader holds the old head `a` and sleeps through one / two complete
  resizes; after the commit `a`, `b` are `retired [reader]`, the re-used `c` is `live`; the reader walks
  `a → b → c` (retired, retired, live), responds, then `a`, `b` (and the second resize's `a'`) are freed.
* `schedEarly` — **the refutation**: in the variant `early := true` the resizing thread may retire `a`
  BEFORE it stores the forwarding marker; a reader that starts after that retirement still finds `a` in
  cell `(0,0)`, is not awaited, `a` is freed at the commit, and the reader's next step dereferences freed
  memory (`early_retire_touches_freed`, `early_refutes`). In the correct model the same schedule is not
  executable (`early_sched_not_enabled_in_correct_model`), and with the retirement after the marker store
  the late reader finds `moved` and never holds `a` (`late_checked`). -/
namespace Flurry.Proto.BinNR
open Flurry.Lin

/-! ## schedules, the checked run -/

def rep (t n : Nat) : Sched := List.replicate n ⟨t, .base none false 0⟩
def call (t k : Nat) (op : KOp) : Sched := [⟨t, .base (some (k, op)) false 0⟩]
def rz (t : Nat) : Sched := [⟨t, .base none true 0⟩]
def ret (t i : Nat) : Sched := [⟨t, .retire i⟩]
def fre (t i : Nat) : Sched := [⟨t, .free i⟩]
/-- the resizing thread `t` transfers the non-empty cell `j` (9 steps from `tNext` back to `tNext`) -/
def xfer (t j : Nat) : Sched := [⟨t, .base none false j⟩] ++ rep t 8
/-- `tNext` (all forwarded), `tCommit` -/
def commit (t : Nat) : Sched := rep t 2

inductive Viol where
  | touchAfterFree | holderNotAwaited | retiredReachable
deriving Repr, DecidableEq

/-- the three safety checks on one state; `none` = all hold -/
def checkB (n : Nat) (s : State) : Option Viol :=
  if !noTouchFreedB n s then some .touchAfterFree
  else if !holdersAwaitedB n s then some .holderNotAwaited
  else if !retiredUnreachableB s then some .retiredReachable
  else none

def runCheckedFrom (early : Bool) (n : Nat) : State → Sched → Nat → Option (Option (Viol × Nat))
  | _, [], _ => some none
  | s, x :: rest, k =>
    match act early s x with
    | none => none
    | some s' =>
      match checkB n s' with
      | some v => some (some (v, k))
      | none => runCheckedFrom early n s' rest (k + 1)

/-- `some none`: every step of `sc` is enabled and `checkB` holds after every step;
`some (some (v, k))`: first violation `v`, after step `k`; `none`: a step is not enabled -/
def runChecked (early : Bool) (n : Nat) (sc : Sched) : Option (Option (Viol × Nat)) :=
  runCheckedFrom early n (init n) sc 0

theorem checkB_none {n : Nat} {s : State} (h : checkB n s = none) :
    noTouchFreedB n s = true ∧ holdersAwaitedB n s = true ∧ retiredUnreachableB s = true := by
  unfold checkB at h
  cases h1 : noTouchFreedB n s <;> cases h2 : holdersAwaitedB n s <;> cases h3 : retiredUnreachableB s <;>
    simp [h1, h2, h3] at h ⊢

/-- what `runChecked … = some none` means: the run is enabled, and the checks hold after every prefix -/
theorem runCheckedFrom_ok {early : Bool} {n : Nat} : ∀ (sc : Sched) {s : State} {k : Nat},
    runCheckedFrom early n s sc k = some none →
    ∀ pre post, sc = pre ++ post → pre ≠ [] → ∃ s', run early s pre = some s' ∧ checkB n s' = none
  | [], s, k, _, pre, post, hsc, hne => by
    cases pre with
    | nil => exact absurd rfl hne
    | cons a p => cases hsc
  | x :: rest, s, k, h, pre, post, hsc, hne => by
    cases pre with
    | nil => exact absurd rfl hne
    | cons a p =>
      simp only [List.cons_append, List.cons.injEq] at hsc
      obtain ⟨rfl, hrest⟩ := hsc
      simp only [runCheckedFrom] at h
      cases ha : act early s x with
      | none => rw [ha] at h; cases h
      | some s1 =>
        rw [ha] at h
        simp only at h
        cases hc : checkB n s1 with
        | some v => rw [hc] at h; cases h
        | none =>
          rw [hc] at h
          simp only at h
          cases p with
          | nil => exact ⟨s1, by simp [run, ha], hc⟩
          | cons b q =>
            obtain ⟨s', hr, hc'⟩ := runCheckedFrom_ok rest h (b :: q) post hrest (by simp)
            exact ⟨s', by simp only [run, ha]; exact hr, hc'⟩

theorem of_map {α : Type} {early : Bool} {s0 : State} {sc : Sched} {f : State → α} {a : α}
    (h : (run early s0 sc).map f = some a) : ∃ s, run early s0 sc = some s ∧ f s = a := by
  cases hr : run early s0 sc with
  | none => rw [hr] at h; cases h
  | some s => rw [hr] at h; exact ⟨s, rfl, by simpa using h⟩

theorem free_refused {early : Bool} {s : State} {t i : Nat} (h : s.life i ≠ .retired []) :
    stepG early s t (.free i) = none := by
  simp [stepG, h]

theorem run_reachable {n : Nat} : ∀ (sc : Sched) {s s' : State}, Reachable n s → run false s sc = some s' →
    Reachable n s'
  | [], s, s', hr, h => by simp only [run, Option.some.injEq] at h; exact h ▸ hr
  | a :: rest, s, s', hr, h => by
    simp only [run] at h
    cases hs : act false s a with
    | none => rw [hs] at h; cases h
    | some s1 => rw [hs] at h; exact run_reachable rest (.step a.t a.a hr hs) h

/-- reachability in the variant "retire before unlink" -/
inductive ReachableEarly (nthreads : Nat) : State → Prop
  | init : ReachableEarly nthreads (init nthreads)
  | step {s s' : State} (t : Nat) (a : Act) : ReachableEarly nthreads s → stepG true s t a = some s' →
      ReachableEarly nthreads s'

theorem run_reachableEarly {n : Nat} : ∀ (sc : Sched) {s s' : State}, ReachableEarly n s →
    run true s sc = some s' → ReachableEarly n s'
  | [], s, s', hr, h => by simp only [run, Option.some.injEq] at h; exact h ▸ hr
  | a :: rest, s, s', hr, h => by
    simp only [run] at h
    cases hs : act true s a with
    | none => rw [hs] at h; cases h
    | some s1 => rw [hs] at h; exact run_reachableEarly rest (.step a.t a.a hr hs) h

/-- thread 0: `insert(1)` (CAS into the empty cell), `insert(2)` (appended under the lock): `(0,0) = [a, b]` -/
def setup2 : Sched := call 0 1 (.ins 5 100) ++ rep 0 3 ++ call 0 2 (.ins 6 101) ++ rep 0 8
/-- … and `insert(3)`: `(0,0) = [a, b, c]` -/
def setup3 : Sched := setup2 ++ call 0 3 (.ins 7 102) ++ rep 0 9

/-! ## 1. a reader holds the node that is removed, retired, and (only after the reader's response) freed -/

/-- thread 1 `get(2)`: table, cell, holds `a`, holds `b`; thread 0 `remove(2)`: …, `wStore` unlinks `b`
(`b ∈ pend 0`), explicit `retire b`, unlock + response -/
def schedRemoveA : Sched :=
  setup2 ++ call 1 2 .get ++ rep 1 3 ++ call 0 2 .rm ++ rep 0 7 ++ ret 0 1 ++ rep 0 1
/-- the reader reads `b` (retired, not freed) and responds -/
def schedRemoveB : Sched := schedRemoveA ++ rep 1 1
def schedRemove : Sched := schedRemoveB ++ fre 0 1

set_option maxRecDepth 100000 in
theorem remove_checked : runChecked false 3 schedRemove = some none := by decide

set_option maxRecDepth 100000 in
/-- after the remover's unlink store: `b` is the remover's retire obligation, still `live`, the reader holds it -/
theorem remove_unlinked :
    (run false (init 3) (setup2 ++ call 1 2 .get ++ rep 1 3 ++ call 0 2 .rm ++ rep 0 7)).map
      (fun s => (s.pend 0, s.life 1, holdsOf s.n 1, reach s.n 1)) = some ([1], .live, [1], false) := by decide

set_option maxRecDepth 100000 in
/-- after the remover's response: `b` is retired and waits for the reader (thread 1), which is about to
dereference it; `free b` is refused -/
theorem remove_A :
    (run false (init 3) schedRemoveA).map
      (fun s => (s.life 1, touches s.n 1, (stepG false s 0 (.free 1)).isSome, guardedSet s.n)) =
    some (.retired [1], [1], false, [1]) := by decide

set_option maxRecDepth 100000 in
/-- the reader has read the retired node and responded (`get(2) = 6`); now `free b` is enabled -/
theorem remove_B :
    (run false (init 3) schedRemoveB).map
      (fun s => (s.life 1, (stepG false s 0 (.free 1)).isSome, BinN.callsOn s.n 2)) =
    some (.retired [], true,
      [⟨0, .ins 6 101, .none, 5, 13⟩, ⟨0, .rm, .some 6 101, 18, 26⟩, ⟨1, .get, .some 6 101, 14, 27⟩]) := by
  decide

set_option maxRecDepth 100000 in
theorem remove_final :
    (run false (init 3) schedRemove).map (fun s => (s.life 0, s.life 1, guardedSet s.n)) =
    some (.live, .freed, []) := by decide

/-- the retired node is awaited: while the reader holds `b`, `b` is `retired [1]` and cannot be freed -/
theorem remove_reader_awaited :
    ∃ s, run false (init 3) schedRemoveA = some s ∧ Reachable 3 s ∧ s.life 1 = .retired [1] ∧
      1 ∈ touches s.n 1 ∧ stepG false s 0 (.free 1) = none := by
  obtain ⟨s, hr, hv⟩ := of_map remove_A
  simp only [Prod.mk.injEq] at hv
  refine ⟨s, hr, run_reachable _ .init hr, hv.1, by rw [hv.2.1]; simp, free_refused ?_⟩
  rw [hv.1]; decide

/-! ## 2. a reader sleeps on the old head through a complete resize (and through two) -/

/-- thread 1 `get(3)`: table, cell, holds `a` (the marker is not yet stored) — sleeps; thread 2 resizes
`0 → 1` and commits -/
def schedTransferA : Sched := setup3 ++ call 1 3 .get ++ rep 1 2 ++ rz 2 ++ xfer 2 0 ++ commit 2
/-- the reader walks `a → b → c` and responds -/
def schedTransferB : Sched := schedTransferA ++ rep 1 3
def schedTransfer : Sched := schedTransferB ++ fre 0 0 ++ fre 0 1

set_option maxRecDepth 100000 in
theorem transfer_checked : runChecked false 3 schedTransfer = some none := by decide

set_option maxRecDepth 100000 in
/-- the store of the forwarding marker puts the copied prefix `[a, b]` into `pend` of the resizing thread -/
theorem transfer_marker :
    (run false (init 3) (setup3 ++ call 1 3 .get ++ rep 1 2 ++ rz 2 ++ rep 2 8)).map
      (fun s => (s.pend 2, s.n.tabs, holdsOf s.n 1)) =
    some ([0, 1], [[.moved], [.node 4, .node 3]], [0]) := by decide

set_option maxRecDepth 100000 in
/-- after the commit: `a`, `b` are retired and wait for the reader; the re-used `c` and the copies are live;
neither `a` nor `b` can be freed -/
theorem transfer_A :
    (run false (init 3) schedTransferA).map
      (fun s => (s.n.cur, [s.life 0, s.life 1, s.life 2, s.life 3, s.life 4], touches s.n 1,
        (stepG false s 0 (.free 0)).isSome, (stepG false s 0 (.free 1)).isSome)) =
    some (1, [.retired [1], .retired [1], .live, .live, .live], [0], false, false) := by decide

set_option maxRecDepth 100000 in
/-- the reader's second step dereferences `b` (retired, awaited), its third `c` (live) -/
theorem transfer_walk :
    ((run false (init 3) (schedTransferA ++ rep 1 1)).map (fun s => (touches s.n 1, s.life 1)),
     (run false (init 3) (schedTransferA ++ rep 1 2)).map (fun s => (touches s.n 1, s.life 2))) =
    (some ([1], .retired [1]), some ([2], .live)) := by decide

set_option maxRecDepth 100000 in
/-- the reader has responded (`get(3) = 7`, invoked in generation 0); `a`, `b` can be freed -/
theorem transfer_B :
    (run false (init 3) schedTransferB).map
      (fun s => (s.life 0, s.life 1, (stepG false s 0 (.free 0)).isSome, (stepG false s 0 (.free 1)).isSome,
        (BinN.callsOn s.n 3).map (·.res))) =
    some (.retired [], .retired [], true, true, [.none, .some 7 102]) := by decide

set_option maxRecDepth 100000 in
theorem transfer_final :
    (run false (init 3) schedTransfer).map (fun s => [s.life 0, s.life 1, s.life 2, s.life 3, s.life 4]) =
    some [.freed, .freed, .live, .live, .live] := by decide

theorem transfer_reader_awaited :
    ∃ s, run false (init 3) schedTransferA = some s ∧ Reachable 3 s ∧ s.n.cur = 1 ∧
      s.life 0 = .retired [1] ∧ s.life 1 = .retired [1] ∧ s.life 2 = .live ∧ 0 ∈ touches s.n 1 ∧
      stepG false s 0 (.free 0) = none ∧ stepG false s 0 (.free 1) = none := by
  obtain ⟨s, hr, hv⟩ := of_map transfer_A
  simp only [Prod.mk.injEq, List.cons.injEq] at hv
  obtain ⟨hc, ⟨h0, h1, h2, -⟩, ht, -, -⟩ := hv
  refine ⟨s, hr, run_reachable _ .init hr, hc, h0, h1, h2, by rw [ht]; simp, free_refused ?_, free_refused ?_⟩
  · rw [h0]; decide
  · rw [h1]; decide

/-- the reader sleeps through a SECOND resize `1 → 2` (cells `(1,0) = [b']`: moved as a whole;
`(1,1) = [a', c]`: `c` re-used again, `a'` copied to `a'' = 5` and retired): stale by two generations -/
def schedTransfer2A : Sched := schedTransferA ++ rz 2 ++ xfer 2 0 ++ xfer 2 1 ++ commit 2
def schedTransfer2 : Sched := schedTransfer2A ++ rep 1 3 ++ fre 0 0 ++ fre 0 1 ++ fre 0 3

set_option maxRecDepth 100000 in
theorem transfer2_checked : runChecked false 3 schedTransfer2 = some none := by decide

set_option maxRecDepth 100000 in
/-- generation 2 is current; the reader still holds `a` of generation 0; `a`, `b` and `a'` wait for it -/
theorem transfer2_A :
    (run false (init 3) schedTransfer2A).map
      (fun s => (s.n.cur, s.n.tabs, [s.life 0, s.life 1, s.life 2, s.life 3, s.life 4, s.life 5],
        holdsOf s.n 1)) =
    some (2, [[.moved], [.moved, .moved], [.empty, .node 5, .node 4, .node 2]],
      [.retired [1], .retired [1], .live, .retired [1], .live, .live], [0]) := by decide

set_option maxRecDepth 100000 in
theorem transfer2_final :
    (run false (init 3) schedTransfer2).map
      (fun s => ([s.life 0, s.life 1, s.life 2, s.life 3, s.life 4, s.life 5],
        (BinN.callsOn s.n 3).map (·.res))) =
    some ([.freed, .freed, .live, .freed, .live, .live], [.none, .some 7 102]) := by decide

/-! ## 3. REFUTATION of the variant "retire before unlink" (`early := true`) -/

/-- thread 2 starts the resize and runs up to and including its store of the LOW list (in the variant this
step puts the copied prefix `[a, b]` into `pend 2`) -/
def schedEarlyPre : Sched := setup3 ++ rz 2 ++ rep 2 6
/-- `retire a` NOW — before the forwarding marker is stored; THEN thread 1 starts `get(1)`, loads the table
and the cell `(0,0)` (still `node a`) and holds `a`; thread 2: storeHigh, storeMoved, unlock, tNext, tCommit -/
def schedEarlyA : Sched := schedEarlyPre ++ ret 2 0 ++ call 1 1 .get ++ rep 1 2 ++ rep 2 5
def schedEarly : Sched := schedEarlyA ++ fre 2 0

set_option maxRecDepth 100000 in
/-- in the variant the copied prefix is in `pend` before the marker is stored: `(0,0)` is still `node a` -/
theorem early_pre :
    (run true (init 3) schedEarlyPre).map (fun s => (s.pend 2, s.n.tabs, reach s.n 0)) =
    some ([0, 1], [[.node 0], [.node 4, .empty]], true) := by decide

set_option maxRecDepth 100000 in
/-- after the commit `a` waits for nobody although the reader (thread 1) holds it, and `free a` is enabled -/
theorem early_A :
    (run true (init 3) schedEarlyA).map
      (fun s => (s.life 0, holdsOf s.n 1, guardedSet s.n, (stepG true s 2 (.free 0)).isSome)) =
    some (.retired [], [0], [1], true) := by decide

set_option maxRecDepth 100000 in
/-- `a` is freed, and the next step of the reader — which is enabled — dereferences `a` -/
theorem early_final :
    (run true (init 3) schedEarly).map
      (fun s => (s.life 0, touches s.n 1, (stepG true s 1 (.base none false 0)).isSome)) =
    some (.freed, [0], true) := by decide

set_option maxRecDepth 100000 in
theorem early_noTouchFreedB : (run true (init 3) schedEarly).map (noTouchFreedB 3) = some false := by decide

set_option maxRecDepth 100000 in
/-- the checked run: the first violated check is `retiredUnreachableB`, after step 30 (the early `retire a`:
`a` is retired while still in the chain of cell `(0,0)`); the run as a whole ends in a touch of freed memory -/
theorem early_checked : runChecked true 3 schedEarly = some (some (.retiredReachable, 30)) := by decide

theorem early_retire_touches_freed :
    ∃ s, run true (init 3) schedEarly = some s ∧ noTouchFreedB 3 s = false := by
  obtain ⟨s, hr, hv⟩ := of_map early_noTouchFreedB
  exact ⟨s, hr, hv⟩

theorem early_reachable_touch_freed :
    ∃ s, ReachableEarly 3 s ∧ 0 ∈ touches s.n 1 ∧ s.life 0 = .freed ∧
      (stepG true s 1 (.base none false 0)).isSome = true := by
  obtain ⟨s, hr, hv⟩ := of_map early_final
  simp only [Prod.mk.injEq] at hv
  exact ⟨s, run_reachableEarly _ .init hr, by rw [hv.2.1]; simp, hv.1, hv.2.2⟩

/-- hence `no_touch_after_free` is false for the variant that retires before the unlink -/
theorem early_refutes :
    ¬ ∀ s, ReachableEarly 3 s → ∀ t i, i ∈ touches s.n t → s.life i ≠ .freed := by
  intro hall
  obtain ⟨s, hr, ht, hf, -⟩ := early_reachable_touch_freed
  exact hall s hr 1 0 ht hf

set_option maxRecDepth 100000 in
/-- the SAME interleaving in the correct model: up to the store of the low list everything is enabled, but
nothing is in `pend 2`, and `retire a` is not enabled … -/
theorem early_pre_in_correct_model :
    (run false (init 3) schedEarlyPre).map
      (fun s => (s.pend 2, (stepG false s 2 (.retire 0)).isSome, checkB 3 s)) = some ([], false, none) := by
  decide

set_option maxRecDepth 100000 in
theorem early_sched_isNone_in_correct_model : (run false (init 3) schedEarly).isNone = true := by decide

/-- … so the schedule is not executable in the correct model -/
theorem early_sched_not_enabled_in_correct_model : run false (init 3) schedEarly = none := by
  have h := early_sched_isNone_in_correct_model
  cases hr : run false (init 3) schedEarly with
  | none => rfl
  | some s => rw [hr] at h; cases h

/-- the corrected schedule: `retire a` after the store of the forwarding marker (2 steps later); the late
reader `get(1)` finds `moved` in `(0,0)`, goes on to generation 1 (`(1,1) = [a', c]`), never holds `a`;
`a` is freed at the commit while the reader is still running; the reader reads `a'` and responds -/
def schedLate : Sched :=
  setup3 ++ rz 2 ++ rep 2 8 ++ ret 2 0 ++ call 1 1 .get ++ rep 1 2 ++ rep 2 3 ++ fre 2 0 ++ rep 1 2 ++ fre 2 1

set_option maxRecDepth 100000 in
theorem late_checked : runChecked false 3 schedLate = some none := by decide

set_option maxRecDepth 100000 in
/-- `a` is freed while the late reader is in flight; it holds nothing of generation 0 -/
theorem late_mid :
    (run false (init 3) (setup3 ++ rz 2 ++ rep 2 8 ++ ret 2 0 ++ call 1 1 .get ++ rep 1 2 ++ rep 2 3 ++ fre 2 0)).map
      (fun s => (s.life 0, s.life 1, guardedSet s.n, holdsOf s.n 1, noTouchFreedB 3 s)) =
    some (.freed, .retired [1], [1], [], true) := by decide

set_option maxRecDepth 100000 in
theorem late_final :
    (run false (init 3) schedLate).map
      (fun s => ([s.life 0, s.life 1, s.life 2, s.life 3, s.life 4], (BinN.callsOn s.n 1).map (·.res))) =
    some ([.freed, .freed, .live, .live, .live], [.none, .some 5 100]) := by decide

#print axioms remove_checked
#print axioms remove_reader_awaited
#print axioms transfer_checked
#print axioms transfer_reader_awaited
#print axioms transfer2_checked
#print axioms transfer2_final
#print axioms early_retire_touches_freed
#print axioms early_refutes
#print axioms early_sched_not_enabled_in_correct_model
#print axioms late_checked
#print axioms runCheckedFrom_ok

end Flurry.Proto.BinNR
