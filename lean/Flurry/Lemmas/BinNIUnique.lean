import Flurry.Lemmas.BinNIDelta
/-! # Proto/BinNI: a key that is present and untouched during a whole iteration is yielded AT MOST once (C07)

For a live iterator created at `t0` and a key `k` with `absOf k = some v` in every state since `t0` (`Unch`):
* at most one node with key `k` is reachable from its pointer through `next` (`AtMost1`);
* if a pending cell covers `k`, no node with key `k` is reachable from the pointer (`NoK`);
* `k` has been yielded at most once, and if once, no node with key `k` is reachable from the pointer and
  no pending cell covers `k`.
Other threads' transitions only make the reachable `k`-nodes fewer (`BinN.stepK_delta`, `Reach.delta`); the
pending cells have pairwise disjoint classes (`reachable_frames_disjoint`); the list of a cell that is not
forwarded has distinct keys, all of the cell's class; `next` pointers have no cycles. -/
namespace Flurry.Proto.BinNI
open Flurry.Lin
open Flurry.Proto.BinX (NodeS Cell Pending isReader dflt chainFrom cellHead cellOfHead nodeAt nodeAt_of_some getElem?_nodeAt get_set chainH)
open Flurry.Proto.BinN (Ghost Inv HInv cellAt Reach Delta chId getCell)

def NoK (k : Nat) (h : List NodeS) (ptr : Option Nat) : Prop := ∀ i, Reach h ptr i → (nodeAt h i).key ≠ k

def AtMost1 (k : Nat) (h : List NodeS) (ptr : Option Nat) : Prop :=
  ∀ i j, Reach h ptr i → Reach h ptr j → (nodeAt h i).key = k → (nodeAt h j).key = k → i = j

def Covers (c : Nat × Nat) (k : Nat) : Prop := k % 2 ^ c.1 = c.2

/-- the number of yields of key `k` by the iteration `(t, t0)` -/
def Ycnt (s : State) (t t0 k : Nat) : Nat :=
  (s.yields.filter fun y => decide (y.tid = t ∧ y.t0 = t0 ∧ y.key = k)).length

theorem ycnt_cons {s s' : State} {y : Yield} (h : s'.yields = y :: s.yields) (t t0 k : Nat) :
    Ycnt s' t t0 k = (if y.tid = t ∧ y.t0 = t0 ∧ y.key = k then 1 else 0) + Ycnt s t t0 k := by
  unfold Ycnt
  rw [h, List.filter_cons]
  by_cases e : y.tid = t ∧ y.t0 = t0 ∧ y.key = k
  · rw [if_pos e, if_pos (by simpa using e)]; simp; omega
  · rw [if_neg e, if_neg (by simpa using e)]; simp

theorem ycnt_same {s s' : State} (h : s'.yields = s.yields) (t t0 k : Nat) : Ycnt s' t t0 k = Ycnt s t t0 k := by
  unfold Ycnt; rw [h]

theorem nok_none (k : Nat) (h : List NodeS) : NoK k h none := fun i hr => by cases hr
theorem am1_none (k : Nat) (h : List NodeS) : AtMost1 k h none := fun i j hr => by cases hr

theorem key_old {k : Nat} {h h' : List NodeS} (d : Delta k h h') {i : Nat} (hi : i < h.length) :
    (nodeAt h' i).key = (nodeAt h i).key := by
  have hi' : i < h'.length := Nat.lt_of_lt_of_le hi d.len
  obtain ⟨nd, h1, h2, -⟩ := d.old i _ hi (getElem?_nodeAt hi')
  rw [h2, nodeAt_of_some h1]

theorem nok_delta {k : Nat} {cr : BinN.CR} {h h' : List NodeS} (d : Delta k h h') (hok : BinN.NextOK cr h) {ptr : Option Nat}
    (hp : ∀ c, ptr = some c → c < h.length) (hn : NoK k h ptr) : NoK k h' ptr := by
  intro i hr
  rcases hr.delta d hok hp with ⟨h1, h2⟩ | ⟨-, h2⟩
  · rw [key_old d h1]; exact hn i h2
  · exact h2 _ (getElem?_nodeAt hr.lt)

theorem am1_delta {k : Nat} {cr : BinN.CR} {h h' : List NodeS} (d : Delta k h h') (hok : BinN.NextOK cr h) {ptr : Option Nat}
    (hp : ∀ c, ptr = some c → c < h.length) (hn : AtMost1 k h ptr) : AtMost1 k h' ptr := by
  intro i j hri hrj hi hj
  rcases hri.delta d hok hp with ⟨a1, a2⟩ | ⟨-, a2⟩
  · rcases hrj.delta d hok hp with ⟨b1, b2⟩ | ⟨-, b2⟩
    · rw [key_old d a1] at hi; rw [key_old d b1] at hj
      exact hn i j a2 b2 hi hj
    · exact absurd hj (b2 _ (getElem?_nodeAt hrj.lt))
  · exact absurd hi (a2 _ (getElem?_nodeAt hri.lt))

/-- what the invariant says about one iterator and one key -/
def UOK (s : State) (t : Nat) (it : Iter) (k : Nat) : Prop :=
  AtMost1 k s.n.heap it.ptr ∧ ((∃ c ∈ it.todo, Covers c k) → NoK k s.n.heap it.ptr) ∧
  Ycnt s t it.t0 k ≤ 1 ∧ (Ycnt s t it.t0 k = 1 → NoK k s.n.heap it.ptr ∧ ∀ c ∈ it.todo, ¬ Covers c k)

structure UInv (nt : Nat) (s : State) : Prop where
  live : ∀ (t : Nat) (it : Iter), s.its[t]? = some (some it) → ∀ (k : Nat) (v : Nat × Nat), Unch nt s it.t0 k v → UOK s t it k
  done : ∀ e ∈ s.ends, ∀ (k : Nat) (v : Nat × Nat), UnchI nt s e.2.1 e.2.2 k v → Ycnt s e.1 e.2.1 k ≤ 1

theorem init_uinv (nt : Nat) : UInv nt (init nt) := by
  refine ⟨?_, (fun e he => by cases he)⟩
  intro t it h
  have : (List.replicate nt (none : Option Iter))[t]? = some (some it) := h
  rw [List.getElem?_replicate] at this
  split at this <;> cases this

/-- a key of the class of a child is of the class of the parent -/
theorem covers_child {g j k : Nat} (hj : j < 2 ^ g) {c : Nat × Nat} (hc : c = (g + 1, j) ∨ c = (g + 1, j + 2 ^ g))
    (h : Covers c k) : Covers (g, j) k := by
  unfold Covers at h ⊢
  rcases hc with rfl | rfl
  · have := BinN.keyOn_mod (Nat.le_succ g) h
    rw [this]; exact Nat.mod_eq_of_lt hj
  · have := BinN.keyOn_mod (Nat.le_succ g) h
    rw [this]; exact BinN.high_mod _ g hj

theorem uinv_step {nt : Nat} {s s' : State} {t : Nat} {mk : Bool} {inv : Option (Nat × KOp)} {rz : Bool}
    {pick : Nat} (hr : Reachable nt s) (U : UInv nt s) (hs : step s t mk inv rz pick = some s') : UInv nt s' := by
  obtain ⟨G, I⟩ := reachable_iinv hr
  have T := reachable_time hr
  obtain ⟨inv', rz', pick', hn⟩ := step_n hs
  cases hl : s.n.threads[t]? with
  | none => unfold BinN.step BinN.stepG at hn; rw [hl] at hn; cases hn
  | some l =>
  have hk := BinN.step_stepK hl hn
  have H := I.inv.heap
  have hst : Steps s s' := .tail t mk inv rz pick (.refl s) hs
  have unchDown : ∀ t0 k v, Unch nt s' t0 k v → Unch nt s t0 k v :=
    fun t0 k v h s₁ r st => h s₁ r (st.trans hst)
  have unchNow : ∀ t0 k v, t0 ≤ s.n.now → Unch nt s' t0 k v → BinN.absOf s.n k = some v :=
    fun t0 k v h0 h => h s hr hst h0
  -- an iterator that does not move, when the yields of its iteration do not change
  have other : ∀ (t' : Nat) (it' : Iter), s.its[t']? = some (some it') →
      (∀ k, Ycnt s' t' it'.t0 k = Ycnt s t' it'.t0 k) →
      ∀ (k : Nat) (v : Nat × Nat), Unch nt s' it'.t0 k v → UOK s' t' it' k := by
    intro t' it' hi hy k v hu
    have h0 := (T.live t' it' hi).1
    have hv := unchNow _ _ _ h0 hu
    have d := BinN.stepK_delta I.inv hl hk hv
    obtain ⟨-, g2, -⟩ := I.good t' it' hi
    have hp : ∀ c, it'.ptr = some c → c < s.n.heap.length := fun c hc => by rw [hc] at g2; exact g2.lt H
    obtain ⟨a1, a2, a3, a4⟩ := U.live t' it' hi k v (unchDown _ _ _ hu)
    refine ⟨am1_delta d H.nextOK hp a1, fun hc => nok_delta d H.nextOK hp (a2 hc), by rw [hy]; exact a3, fun h1 => ?_⟩
    rw [hy] at h1
    exact ⟨nok_delta d H.nextOK hp (a4 h1).1, (a4 h1).2⟩
  have doneOld : (∀ e ∈ s.ends, ∀ k, Ycnt s' e.1 e.2.1 k = Ycnt s e.1 e.2.1 k) →
      ∀ e ∈ s.ends, ∀ (k : Nat) (v : Nat × Nat), UnchI nt s' e.2.1 e.2.2 k v → Ycnt s' e.1 e.2.1 k ≤ 1 := by
    intro hy e he k v hu
    rw [hy e he]
    exact U.done e he k v (fun s₁ r st a b => hu s₁ r (st.trans hst) a b)
  rcases step_cases hs with ⟨hi, -, n', -, rfl⟩ | ⟨hi, -, l0, hl0, hpc0, rfl⟩ | ⟨it, n', hi, hn', hit⟩
  · -- a transition of `BinN`
    exact ⟨fun t' it' h => other t' it' h (fun k => rfl), doneOld (fun e he k => rfl)⟩
  · -- creation
    refine ⟨?_, doneOld (fun e he k => rfl)⟩
    intro t' it' h k v hu
    rcases get_set h with ⟨rfl, e⟩ | ⟨hne, h⟩
    · cases e
      have hz : Ycnt s t' (s.n.now + 1) k = 0 := by
        unfold Ycnt
        rw [List.length_eq_zero_iff, List.filter_eq_nil_iff]
        intro y hy hd
        have hd' : y.tid = t' ∧ y.t0 = s.n.now + 1 ∧ y.key = k := by simpa using hd
        obtain ⟨τ, h1, h2, -⟩ := I.yl y hy
        have := T.yt y hy
        omega
      refine ⟨am1_none _ _, fun _ => nok_none _ _, ?_, ?_⟩
      · show Ycnt s t' (s.n.now + 1) k ≤ 1; omega
      · intro h1
        have : Ycnt s t' (s.n.now + 1) k = 1 := h1
        omega
    · exact other t' it' h (fun k => rfl) k v hu
  · -- a step of an iterator
    obtain ⟨l0, hl0, hpc0⟩ := I.idle t it hi
    rw [idle_step hl0 hpc0] at hn'
    cases hn'
    have h0 := (T.live t it hi).1
    obtain ⟨hsn, hcase⟩ := iterStep_cases hit
    have hheap : s'.n.heap = s.n.heap := by rw [hsn]
    rcases hcase with ⟨c, nd, hptr, hnd, hits, hyl, hen⟩ | ⟨hptr, htodo, hits, hyl, hen⟩ |
      ⟨g, j, rest, ptr', todo', hptr, htodo, hits, hyl, hen, hcell⟩
    · -- yield
      have hnd0 : s.n.heap[c]? = some nd := hnd
      have hnd' : nodeAt s.n.heap c = nd := nodeAt_of_some hnd0
      have ycOther : ∀ t' t0' k, (t' ≠ t ∨ t0' ≠ it.t0) → Ycnt s' t' t0' k = Ycnt s t' t0' k := by
        intro t' t0' k hne
        rw [ycnt_cons hyl, if_neg]
        · omega
        · rintro ⟨a, b, -⟩
          rcases hne with h | h
          · exact h a.symm
          · exact h b.symm
      refine ⟨?_, ?_⟩
      · intro t' it' h k v hu
        rw [hits] at h
        rcases get_set h with ⟨rfl, e⟩ | ⟨hne, h⟩
        · cases e
          obtain ⟨a1, a2, a3, a4⟩ := U.live t' it hi k v (unchDown _ _ _ hu)
          rw [hptr] at a1 a2 a4
          have sub : ∀ i, Reach s.n.heap nd.next i → Reach s.n.heap (some c) i := fun i h => .step hnd0 h
          have hyc : Ycnt s' t' it.t0 k = (if nd.key = k then 1 else 0) + Ycnt s t' it.t0 k := by
            rw [ycnt_cons hyl]
            by_cases e : nd.key = k
            · rw [if_pos ⟨rfl, rfl, e⟩, if_pos e]
            · rw [if_neg (fun h => e h.2.2), if_neg e]
          show AtMost1 k s'.n.heap nd.next ∧ ((∃ c ∈ it.todo, Covers c k) → NoK k s'.n.heap nd.next) ∧
            Ycnt s' t' it.t0 k ≤ 1 ∧ (Ycnt s' t' it.t0 k = 1 → NoK k s'.n.heap nd.next ∧ ∀ c ∈ it.todo, ¬ Covers c k)
          rw [hheap, hyc]
          have am : AtMost1 k s.n.heap nd.next := fun i j hi hj => a1 i j (sub i hi) (sub j hj)
          by_cases e : nd.key = k
          · rw [if_pos e]
            have hck : (nodeAt s.n.heap c).key = k := by rw [hnd']; exact e
            have hzero : Ycnt s t' it.t0 k = 0 := by
              rcases Nat.lt_or_ge 0 (Ycnt s t' it.t0 k) with hpos | hz
              · exact absurd hck ((a4 (by omega)).1 c (.here hnd0))
              · omega
            have nk : NoK k s.n.heap nd.next := by
              intro i hi hik
              have := a1 i c (sub i hi) (.here hnd0) hik hck
              have hlt := Reach.ord_lt H.nextOK hnd0 hi
              rw [this] at hlt
              omega
            have nf : ∀ c' ∈ it.todo, ¬ Covers c' k := fun c' hc' hcov =>
              (a2 ⟨c', hc', hcov⟩) c (.here hnd0) hck
            exact ⟨am, fun _ => nk, by omega, fun _ => ⟨nk, nf⟩⟩
          · rw [if_neg e]
            refine ⟨am, fun hc i hi => a2 hc i (sub i hi), by omega, fun h1 => ?_⟩
            have h1' : Ycnt s t' it.t0 k = 1 := by omega
            exact ⟨fun i hi => (a4 h1').1 i (sub i hi), (a4 h1').2⟩
        · exact other t' it' h (fun k => ycOther _ _ _ (Or.inl hne)) k v hu
      · rw [hen]
        refine doneOld (fun e he k => ycOther _ _ _ ?_)
        by_cases h1 : e.1 = t
        · right
          have k1 := (T.live t it hi).2 e he h1
          have k2 := (T.et e he).1
          omega
        · exact Or.inl h1
    · -- the end
      have ycs : ∀ t' t0' k, Ycnt s' t' t0' k = Ycnt s t' t0' k := fun t' t0' k => ycnt_same hyl _ _ _
      refine ⟨?_, ?_⟩
      · intro t' it' h k v hu
        rw [hits] at h
        rcases get_set h with ⟨rfl, e⟩ | ⟨hne, h⟩
        · cases e
        · exact other t' it' h (fun k => ycs _ _ _) k v hu
      · intro e he k v hu
        rw [hen] at he
        rcases List.mem_cons.1 he with rfl | he
        · have hU : Unch nt s it.t0 k v := by
            intro s₁ r st a
            refine hu s₁ r (st.trans hst) a ?_
            have := st.now_le
            show s₁.n.now ≤ s.n.now + 1
            omega
          have := (U.live t it hi k v hU).2.2.1
          show Ycnt s' t it.t0 k ≤ 1
          rw [ycs]; exact this
        · exact doneOld (fun e he k => ycs _ _ _) e he k v hu
    · -- the load of a cell
      have ycs : ∀ t' t0' k, Ycnt s' t' t0' k = Ycnt s t' t0' k := fun t' t0' k => ycnt_same hyl _ _ _
      have hdisj := reachable_frames_disjoint hr t it hi
      rw [htodo] at hdisj
      obtain ⟨hd1, -⟩ := List.pairwise_cons.1 hdisj
      refine ⟨?_, by rw [hen]; exact doneOld (fun e he k => ycs _ _ _)⟩
      intro t' it' h k v hu
      rw [hits] at h
      rcases get_set h with ⟨rfl, e⟩ | ⟨hne, h⟩
      · cases e
        obtain ⟨a1, a2, a3, a4⟩ := U.live t' it hi k v (unchDown _ _ _ hu)
        rw [htodo] at a2 a4
        show AtMost1 k s'.n.heap ptr' ∧ ((∃ c ∈ todo', Covers c k) → NoK k s'.n.heap ptr') ∧
          Ycnt s' t' it.t0 k ≤ 1 ∧ (Ycnt s' t' it.t0 k = 1 → NoK k s'.n.heap ptr' ∧ ∀ c ∈ todo', ¬ Covers c k)
        rw [hheap, ycs]
        rcases hcell with ⟨-, rfl, rfl⟩ | ⟨hd, hcn, rfl, rfl⟩ | ⟨hcm, rfl, rfl⟩
        · exact ⟨am1_none _ _, fun _ => nok_none _ _, a3,
            fun h1 => ⟨nok_none _ _, fun c hc => (a4 h1).2 c (List.mem_cons_of_mem _ hc)⟩⟩
        · -- the head of a list
          have hcn' : getCell s.n (g, j) = .node hd := hcn
          have hchain := H.isChain (g, j)
          rw [hcn'] at hchain
          have inch : ∀ i, Reach s.n.heap (some hd) i → i ∈ chId s.n (g, j) := fun i hi => hi.mem_chain _ hchain
          have nok_of : ¬ Covers (g, j) k → NoK k s.n.heap (some hd) := by
            intro hnc i hi hik
            have := H.side (g, j) i (inch i hi)
            rw [hik] at this
            exact hnc this
          refine ⟨?_, ?_, a3, fun h1 => ⟨nok_of ((a4 h1).2 (g, j) (by simp)), fun c hc => (a4 h1).2 c (List.mem_cons_of_mem _ hc)⟩⟩
          · intro i i' hi hi' hik hik'
            exact H.keys (g, j) i (inch i hi) i' (inch i' hi') (by rw [hik, hik'])
          · rintro ⟨c', hc', hcov⟩
            exact nok_of (fun hgj => hd1 c' hc' k ⟨hgj, hcov⟩)
        · -- a forwarding marker
          have hj : j < 2 ^ g := by
            rcases Nat.lt_or_ge j (2 ^ g) with h | h
            · exact h
            · have hc' : cellAt s.n g j = .moved := hcm
              rw [H.shape.cell_of_idx_ge h] at hc'; cases hc'
          refine ⟨am1_none _ _, fun _ => nok_none _ _, a3, fun h1 => ⟨nok_none _ _, ?_⟩⟩
          intro c' hc' hcov
          rcases List.mem_cons.1 hc' with rfl | hc'
          · exact (a4 h1).2 (g, j) (by simp) (covers_child hj (Or.inl rfl) hcov)
          · rcases List.mem_cons.1 hc' with rfl | hc'
            · exact (a4 h1).2 (g, j) (by simp) (covers_child hj (Or.inr rfl) hcov)
            · exact (a4 h1).2 c' (List.mem_cons_of_mem _ hc') hcov
      · exact other t' it' h (fun k => ycs _ _ _) k v hu

theorem reachable_uinv {nt : Nat} {s : State} (hr : Reachable nt s) : UInv nt s := by
  induction hr with
  | init => exact init_uinv nt
  | step t mk inv rz pick hr hs ih => exact uinv_step hr ih hs

/-- **a key that is present and untouched during the whole iteration is yielded at most once** -/
theorem untouched_at_most_once {nt : Nat} {s : State} (hr : Reachable nt s) {t τ0 τ1 k : Nat} {v : Nat × Nat}
    (he : (t, τ0, τ1) ∈ s.ends)
    (hun : ∀ s₁, Reachable nt s₁ → Steps s₁ s → τ0 ≤ s₁.n.now → s₁.n.now ≤ τ1 → absOf s₁ k = some v) :
    Ycnt s t τ0 k ≤ 1 := (reachable_uinv hr).done _ he k v hun

end Flurry.Proto.BinNI
