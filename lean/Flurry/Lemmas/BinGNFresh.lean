import Flurry.Lemmas.BinGNFreshDefs
/-! # Proto/BinGN: fresh planned `TreeBin`s are in no cell — every reachable state -/
namespace Flurry.Proto.BinGN
open Flurry.Lin

macro "fi_one" F:ident I:ident hl:ident : tactic =>
  `(tactic| first
    | exact freshInv_same $F $I $hl rfl rfl (fun b h => nomatch h) trivial
    | (split <;> exact freshInv_same $F $I $hl rfl rfl (fun b h => nomatch h) trivial)
    | (split <;> split <;> exact freshInv_same $F $I $hl rfl rfl (fun b h => nomatch h) trivial))

macro "fi_all" F:ident I:ident hl:ident hs:ident : tactic =>
  `(tactic| (open_step $hs $hl; (try simp only [afterLock] at $hs:ident); repeat' split at $hs:ident
             all_goals first
               | (cases $hs:ident; done)
               | (cases $hs:ident; fi_one $F $I $hl)))

theorem binsOf_cellOfHead (x : Option Nat) : binsOf (cellOfHead x) = [] := by cases x <;> rfl

/-- the `TreeBin` of one side of a tree-bin split: the re-used bin (only if the side is not empty and `reuse` is
set) or the next fresh index -/
theorem splitSide_bins (s : State) (b : Nat) (c : List Nat) (sm ru : Bool) :
    s.tbins.length ≤ (splitSide s b c sm ru).1.tbins.length ∧
    ∀ b', (splitSide s b c sm ru).2 = .tree b' →
      (b' = b ∧ ru = true ∧ c.isEmpty = false ∧ (splitSide s b c sm ru).1.tbins.length = s.tbins.length) ∨
      (b' = s.tbins.length ∧ (splitSide s b c sm ru).1.tbins.length = s.tbins.length + 1) := by
  unfold splitSide
  simp only [copyChain]
  split
  · exact ⟨Nat.le_refl _, fun b' h => by cases h⟩
  · rename_i hne
    split
    · exact ⟨Nat.le_refl _, fun b' h => absurd h (cellOfHead_ne_tree _ _)⟩
    · split
      · rename_i hru
        exact ⟨Nat.le_refl _, fun b' h => by cases h; exact Or.inl ⟨rfl, hru, by simpa using hne, rfl⟩⟩
      · refine ⟨by simp, fun b' h => ?_⟩
        cases h
        exact Or.inr ⟨rfl, by simp⟩

theorem splitSide_bins' {s : State} {b : Nat} {c : List Nat} {sm ru : Bool} {s1 : State} {c1 : Cell}
    (h : splitSide s b c sm ru = (s1, c1)) :
    s.tbins.length ≤ s1.tbins.length ∧
    ∀ b', c1 = .tree b' → (b' = b ∧ ru = true ∧ c.isEmpty = false ∧ s1.tbins.length = s.tbins.length) ∨
      (b' = s.tbins.length ∧ s1.tbins.length = s.tbins.length + 1) := by
  have := splitSide_bins s b c sm ru
  rw [h] at this
  exact this

section
variable {s s' : State} {t : Nat} {inv : Option (Nat × KOp)} {lo : Bool} {mt : Option Nat} {rz sm sm2 : Bool}
  {pick : Nat} {p : Pending} {c : Option Pending}

theorem fi_rTable {x : Bool} (F : FreshInv s) (I : GenInv s)
    (hl : s.threads[t]? = some { pc := .rTable x, call := some p })
    (hs : step s t inv lo mt rz sm sm2 pick = some s') : FreshInv s' := by
  fi_all F I hl hs

theorem fi_rCell {x : Bool} {g : Nat} (F : FreshInv s) (I : GenInv s)
    (hl : s.threads[t]? = some { pc := .rCell x g, call := some p })
    (hs : step s t inv lo mt rz sm sm2 pick = some s') : FreshInv s' := by
  fi_all F I hl hs

theorem fi_rFirst {b : Nat} (F : FreshInv s) (I : GenInv s)
    (hl : s.threads[t]? = some { pc := .rFirst b, call := some p })
    (hs : step s t inv lo mt rz sm sm2 pick = some s') : FreshInv s' := by
  fi_all F I hl hs

theorem fi_rLin {b x : Nat} (F : FreshInv s) (I : GenInv s)
    (hl : s.threads[t]? = some { pc := .rLin b x, call := some p })
    (hs : step s t inv lo mt rz sm sm2 pick = some s') : FreshInv s' := by
  fi_all F I hl hs

theorem fi_rCas {b x r : Nat} (F : FreshInv s) (I : GenInv s)
    (hl : s.threads[t]? = some { pc := .rCas b x r, call := some p })
    (hs : step s t inv lo mt rz sm sm2 pick = some s') : FreshInv s' := by
  fi_all F I hl hs

theorem fi_rTree {b : Nat} (F : FreshInv s) (I : GenInv s)
    (hl : s.threads[t]? = some { pc := .rTree b, call := some p })
    (hs : step s t inv lo mt rz sm sm2 pick = some s') : FreshInv s' := by
  fi_all F I hl hs

theorem fi_rRelease {b : Nat} {x : Option Nat} (F : FreshInv s) (I : GenInv s)
    (hl : s.threads[t]? = some { pc := .rRelease b x, call := some p })
    (hs : step s t inv lo mt rz sm sm2 pick = some s') : FreshInv s' := by
  fi_all F I hl hs

theorem fi_rVal {x : Nat} (F : FreshInv s) (I : GenInv s)
    (hl : s.threads[t]? = some { pc := .rVal x, call := some p })
    (hs : step s t inv lo mt rz sm sm2 pick = some s') : FreshInv s' := by
  fi_all F I hl hs

theorem fi_lFirst {b : Nat} (F : FreshInv s) (I : GenInv s)
    (hl : s.threads[t]? = some { pc := .lFirst b, call := some p })
    (hs : step s t inv lo mt rz sm sm2 pick = some s') : FreshInv s' := by
  fi_all F I hl hs

theorem fi_wTable  (F : FreshInv s) (I : GenInv s)
    (hl : s.threads[t]? = some { pc := .wTable, call := some p })
    (hs : step s t inv lo mt rz sm sm2 pick = some s') : FreshInv s' := by
  fi_all F I hl hs

theorem fi_wCell {g : Nat} (F : FreshInv s) (I : GenInv s)
    (hl : s.threads[t]? = some { pc := .wCell g, call := some p })
    (hs : step s t inv lo mt rz sm sm2 pick = some s') : FreshInv s' := by
  fi_all F I hl hs

theorem fi_wLock {g h : Nat} (F : FreshInv s) (I : GenInv s)
    (hl : s.threads[t]? = some { pc := .wLock g h, call := some p })
    (hs : step s t inv lo mt rz sm sm2 pick = some s') : FreshInv s' := by
  fi_all F I hl hs

theorem fi_wCheck {g h : Nat} (F : FreshInv s) (I : GenInv s)
    (hl : s.threads[t]? = some { pc := .wCheck g h, call := some p })
    (hs : step s t inv lo mt rz sm sm2 pick = some s') : FreshInv s' := by
  fi_all F I hl hs

theorem fi_wUnlock {g h : Nat} {res : KRes} {retry : Bool} (F : FreshInv s) (I : GenInv s)
    (hl : s.threads[t]? = some { pc := .wUnlock g h res retry, call := some p })
    (hs : step s t inv lo mt rz sm sm2 pick = some s') : FreshInv s' := by
  fi_all F I hl hs

theorem fi_tMutex {g b : Nat} (F : FreshInv s) (I : GenInv s)
    (hl : s.threads[t]? = some { pc := .tMutex g b, call := some p })
    (hs : step s t inv lo mt rz sm sm2 pick = some s') : FreshInv s' := by
  fi_all F I hl hs

theorem fi_tCheck {g b : Nat} (F : FreshInv s) (I : GenInv s)
    (hl : s.threads[t]? = some { pc := .tCheck g b, call := some p })
    (hs : step s t inv lo mt rz sm sm2 pick = some s') : FreshInv s' := by
  fi_all F I hl hs

theorem fi_tFind {g b : Nat} (F : FreshInv s) (I : GenInv s)
    (hl : s.threads[t]? = some { pc := .tFind g b, call := some p })
    (hs : step s t inv lo mt rz sm sm2 pick = some s') : FreshInv s' := by
  fi_all F I hl hs

theorem fi_tVal {g b i : Nat} {v : Nat × Nat} {res : KRes} (F : FreshInv s) (I : GenInv s)
    (hl : s.threads[t]? = some { pc := .tVal g b i v res, call := some p })
    (hs : step s t inv lo mt rz sm sm2 pick = some s') : FreshInv s' := by
  fi_all F I hl hs

theorem fi_tPrependLocked {g b : Nat} (F : FreshInv s) (I : GenInv s)
    (hl : s.threads[t]? = some { pc := .tPrependLocked g b, call := some p })
    (hs : step s t inv lo mt rz sm sm2 pick = some s') : FreshInv s' := by
  fi_all F I hl hs

theorem fi_tTreeLinkLocked {g b x : Nat} (F : FreshInv s) (I : GenInv s)
    (hl : s.threads[t]? = some { pc := .tTreeLinkLocked g b x, call := some p })
    (hs : step s t inv lo mt rz sm sm2 pick = some s') : FreshInv s' := by
  fi_all F I hl hs

theorem fi_tUnlinkLocked {g b i : Nat} {res : KRes} (F : FreshInv s) (I : GenInv s)
    (hl : s.threads[t]? = some { pc := .tUnlinkLocked g b i res, call := some p })
    (hs : step s t inv lo mt rz sm sm2 pick = some s') : FreshInv s' := by
  fi_all F I hl hs

theorem fi_tRestructure {g b i : Nat} {res : KRes} (F : FreshInv s) (I : GenInv s)
    (hl : s.threads[t]? = some { pc := .tRestructure g b i res, call := some p })
    (hs : step s t inv lo mt rz sm sm2 pick = some s') : FreshInv s' := by
  fi_all F I hl hs

theorem fi_tUnlockRoot {g b : Nat} {res : KRes} (F : FreshInv s) (I : GenInv s)
    (hl : s.threads[t]? = some { pc := .tUnlockRoot g b res, call := some p })
    (hs : step s t inv lo mt rz sm sm2 pick = some s') : FreshInv s' := by
  fi_all F I hl hs

theorem fi_tUnlockM {g b : Nat} {res : KRes} {retry : Bool} (F : FreshInv s) (I : GenInv s)
    (hl : s.threads[t]? = some { pc := .tUnlockM g b res retry, call := some p })
    (hs : step s t inv lo mt rz sm sm2 pick = some s') : FreshInv s' := by
  fi_all F I hl hs

theorem fi_kTable {k : Nat} (F : FreshInv s) (I : GenInv s)
    (hl : s.threads[t]? = some { pc := .kTable k, call := none })
    (hs : step s t inv lo mt rz sm sm2 pick = some s') : FreshInv s' := by
  fi_all F I hl hs

theorem fi_kCell {g k : Nat} (F : FreshInv s) (I : GenInv s)
    (hl : s.threads[t]? = some { pc := .kCell g k, call := none })
    (hs : step s t inv lo mt rz sm sm2 pick = some s') : FreshInv s' := by
  fi_all F I hl hs

theorem fi_kLock {g k h : Nat} (F : FreshInv s) (I : GenInv s)
    (hl : s.threads[t]? = some { pc := .kLock g k h, call := none })
    (hs : step s t inv lo mt rz sm sm2 pick = some s') : FreshInv s' := by
  fi_all F I hl hs

theorem fi_kCheck {g k h : Nat} (F : FreshInv s) (I : GenInv s)
    (hl : s.threads[t]? = some { pc := .kCheck g k h, call := none })
    (hs : step s t inv lo mt rz sm sm2 pick = some s') : FreshInv s' := by
  fi_all F I hl hs

theorem fi_kUnlock {h : Nat} (F : FreshInv s) (I : GenInv s)
    (hl : s.threads[t]? = some { pc := .kUnlock h, call := none })
    (hs : step s t inv lo mt rz sm sm2 pick = some s') : FreshInv s' := by
  fi_all F I hl hs

theorem fi_xNext  (F : FreshInv s) (I : GenInv s)
    (hl : s.threads[t]? = some { pc := .xNext, call := none })
    (hs : step s t inv lo mt rz sm sm2 pick = some s') : FreshInv s' := by
  fi_all F I hl hs

theorem fi_xCell {j : Nat} (F : FreshInv s) (I : GenInv s)
    (hl : s.threads[t]? = some { pc := .xCell j, call := none })
    (hs : step s t inv lo mt rz sm sm2 pick = some s') : FreshInv s' := by
  fi_all F I hl hs

theorem fi_xLock {j h : Nat} (F : FreshInv s) (I : GenInv s)
    (hl : s.threads[t]? = some { pc := .xLock j h, call := none })
    (hs : step s t inv lo mt rz sm sm2 pick = some s') : FreshInv s' := by
  fi_all F I hl hs

theorem fi_xCheck {j h : Nat} (F : FreshInv s) (I : GenInv s)
    (hl : s.threads[t]? = some { pc := .xCheck j h, call := none })
    (hs : step s t inv lo mt rz sm sm2 pick = some s') : FreshInv s' := by
  fi_all F I hl hs

theorem fi_yMutex {j b : Nat} (F : FreshInv s) (I : GenInv s)
    (hl : s.threads[t]? = some { pc := .yMutex j b, call := none })
    (hs : step s t inv lo mt rz sm sm2 pick = some s') : FreshInv s' := by
  fi_all F I hl hs

theorem fi_yCheck {j b : Nat} (F : FreshInv s) (I : GenInv s)
    (hl : s.threads[t]? = some { pc := .yCheck j b, call := none })
    (hs : step s t inv lo mt rz sm sm2 pick = some s') : FreshInv s' := by
  fi_all F I hl hs

theorem fi_xCommit  (F : FreshInv s) (I : GenInv s)
    (hl : s.threads[t]? = some { pc := .xCommit, call := none })
    (hs : step s t inv lo mt rz sm sm2 pick = some s') : FreshInv s' := by
  fi_all F I hl hs

theorem fi_rNode {x : Option Nat} (F : FreshInv s) (I : GenInv s)
    (hl : s.threads[t]? = some { pc := .rNode x, call := some p })
    (hs : step s t inv lo mt rz sm sm2 pick = some s') : FreshInv s' := by
  cases x <;> fi_all F I hl hs

theorem fi_rState {b : Nat} {x : Option Nat} (F : FreshInv s) (I : GenInv s)
    (hl : s.threads[t]? = some { pc := .rState b x, call := some p })
    (hs : step s t inv lo mt rz sm sm2 pick = some s') : FreshInv s' := by
  cases x <;> fi_all F I hl hs

theorem fi_lNode {x : Option Nat} (F : FreshInv s) (I : GenInv s)
    (hl : s.threads[t]? = some { pc := .lNode x, call := some p })
    (hs : step s t inv lo mt rz sm sm2 pick = some s') : FreshInv s' := by
  cases x <;> fi_all F I hl hs

theorem fi_wFind {g h : Nat} {pred cur : Option Nat} (F : FreshInv s) (I : GenInv s)
    (hl : s.threads[t]? = some { pc := .wFind g h pred cur, call := some p })
    (hs : step s t inv lo mt rz sm sm2 pick = some s') : FreshInv s' := by
  cases cur <;> fi_all F I hl hs

theorem fi_xUnlock {unl : Nat ⊕ Nat} (F : FreshInv s) (I : GenInv s)
    (hl : s.threads[t]? = some { pc := .xUnlock unl, call := none })
    (hs : step s t inv lo mt rz sm sm2 pick = some s') : FreshInv s' := by
  cases unl <;> fi_all F I hl hs

theorem fi_lrTry {g b : Nat} {k : After} {res : KRes} (F : FreshInv s) (I : GenInv s)
    (hl : s.threads[t]? = some { pc := .lrTry g b k res, call := some p })
    (hs : step s t inv lo mt rz sm sm2 pick = some s') : FreshInv s' := by
  cases k <;> fi_all F I hl hs

theorem fi_lrLoop {g b : Nat} {k : After} {res : KRes} (F : FreshInv s) (I : GenInv s)
    (hl : s.threads[t]? = some { pc := .lrLoop g b k res, call := some p })
    (hs : step s t inv lo mt rz sm sm2 pick = some s') : FreshInv s' := by
  cases k <;> fi_all F I hl hs

theorem fi_wCas {g : Nat} (F : FreshInv s) (I : GenInv s)
    (hl : s.threads[t]? = some { pc := .wCas g, call := some p })
    (hs : step s t inv lo mt rz sm sm2 pick = some s') : FreshInv s' := by
  open_step hs hl
  split at hs
  · cases hs
    exact freshInv_put (g0 := g) (j0 := p.key % 2 ^ g) (c := .list s.heap.length) F I hl rfl rfl
      (fun b h => by cases h) (fun b h => nomatch h) trivial
  · cases hs
    exact freshInv_put (g0 := g) (j0 := p.key % 2 ^ g) (c := .list s.heap.length) F I hl rfl rfl
      (fun b h => by cases h) (fun b h => nomatch h) trivial
  · cases hs; exact freshInv_same F I hl rfl rfl (fun b h => nomatch h) trivial

theorem fi_wStore {g h : Nat} {pred hit hnext : Option Nat} (F : FreshInv s) (I : GenInv s)
    (hl : s.threads[t]? = some { pc := .wStore g h pred hit hnext, call := some p })
    (hs : step s t inv lo mt rz sm sm2 pick = some s') : FreshInv s' := by
  open_step hs hl
  cases hs
  obtain ⟨e1, e2, e3, e4, e6, e7⟩ := storeAt_shape (tick s) g p pred hit hnext
  have hthr : (setT (storeAt (tick s) g p pred hit hnext).1 t
      { pc := .wUnlock g h (storeAt (tick s) g p pred hit hnext).2 false, call := some p }).threads =
      s.threads.set t { pc := .wUnlock g h (storeAt (tick s) g p pred hit hnext).2 false, call := some p } := by
    show (storeAt _ _ _ _ _ _).1.threads.set _ _ = _; rw [e1]; rfl
  rcases e7 with e7 | ⟨c, hcm, hct, e7⟩
  · exact freshInv_same F I hl hthr e7 (fun b h => nomatch h) trivial
  · exact freshInv_put (g0 := g) (j0 := p.key % 2 ^ g) (c := c) F I hl hthr e7
      (fun b h => absurd h (hct b)) (fun b h => nomatch h) trivial

theorem fi_tUntreeify {g b : Nat} {res : KRes} (F : FreshInv s) (I : GenInv s)
    (hl : s.threads[t]? = some { pc := .tUntreeify g b res, call := some p })
    (hs : step s t inv lo mt rz sm sm2 pick = some s') : FreshInv s' := by
  open_step hs hl
  cases hs
  exact freshInv_put (g0 := g) (j0 := p.key % 2 ^ g) (c := cellOfHead _) F I hl rfl rfl
    (fun b' h => absurd h (cellOfHead_ne_tree _ _)) (fun b h => nomatch h) trivial

theorem fi_kBuild {g k h : Nat} (F : FreshInv s) (I : GenInv s)
    (hl : s.threads[t]? = some { pc := .kBuild g k h, call := none })
    (hs : step s t inv lo mt rz sm sm2 pick = some s') : FreshInv s' := by
  open_step hs hl
  cases hs
  refine freshInv_frame F hl rfl (fun g' j b' hc => Or.inl ⟨g', j, hc⟩) ?_ I.bins (fresh_lt I) trivial
  intro b' hb
  right
  have : b' = s.tbins.length := by simpa [freshB] using hb
  omega

theorem fi_kStore {g k h b : Nat} (F : FreshInv s) (I : GenInv s)
    (hl : s.threads[t]? = some { pc := .kStore g k h b, call := none })
    (hs : step s t inv lo mt rz sm sm2 pick = some s') : FreshInv s' := by
  open_step hs hl
  cases hs
  exact freshInv_put (g0 := g) (j0 := k % 2 ^ g) (c := .tree b) F I hl rfl rfl
    (fun b' h => by cases h; exact Or.inl (by simp [freshB])) (fun b h => nomatch h) trivial

theorem fi_xCasMoved {j : Nat} (F : FreshInv s) (I : GenInv s)
    (hl : s.threads[t]? = some { pc := .xCasMoved j, call := none })
    (hs : step s t inv lo mt rz sm sm2 pick = some s') : FreshInv s' := by
  open_step hs hl
  split at hs
  · cases hs
    exact freshInv_put (g0 := s.cur) (j0 := j) (c := .moved) F I hl rfl rfl (fun b h => by cases h)
      (fun b h => nomatch h) trivial
  · cases hs; exact freshInv_same F I hl rfl rfl (fun b h => nomatch h) trivial

theorem fi_xBuild {j h : Nat} (F : FreshInv s) (I : GenInv s)
    (hl : s.threads[t]? = some { pc := .xBuild j h, call := none })
    (hs : step s t inv lo mt rz sm sm2 pick = some s') : FreshInv s' := by
  open_step hs hl
  cases hs
  refine freshInv_frame F hl rfl (fun g' j' b' hc => Or.inl ⟨g', j', hc⟩) ?_ I.bins (fresh_lt I) ?_
  · intro b' hb
    exfalso
    simp [freshB, binsOf_cellOfHead] at hb
  · intro b' hb'
    exact absurd hb' (cellOfHead_ne_tree _ _)

theorem fi_yBuild {j b : Nat} (F : FreshInv s) (I : GenInv s)
    (hl : s.threads[t]? = some { pc := .yBuild j b, call := none })
    (hs : step s t inv lo mt rz sm sm2 pick = some s') : FreshInv s' := by
  have hheld := ((I.thr t _ hl).heldM b rfl).1
  open_step hs hl
  generalize h1 : splitSide _ b _ sm _ = r1 at hs
  obtain ⟨s1, lo1⟩ := r1
  simp only at hs
  generalize h2 : splitSide s1 b _ sm2 _ = r2 at hs
  obtain ⟨s2, hi2⟩ := r2
  simp only at hs
  cases hs
  obtain ⟨a1, a2, a3, a4, -⟩ := splitSide_shape' h1
  obtain ⟨b1, b2, b3, b4, -⟩ := splitSide_shape' h2
  obtain ⟨la, lb⟩ := splitSide_bins' h1
  obtain ⟨ha, hb⟩ := splitSide_bins' h2
  have hc : ∀ g' j', cellAt (setT s2 t { pc := Pc.xStoreLow j (Sum.inr b) lo1 hi2, call := none }) g' j' = cellAt s g' j' := by
    intro g' j'; show cellT s2.tabs g' j' = _; rw [b1, a1]; rfl
  refine freshInv_frame (l' := { pc := .xStoreLow j (.inr b) lo1 hi2, call := none }) F hl
    (by show s2.threads.set _ _ = _; rw [b4, a4]) (fun g' j' b' h => Or.inl ⟨g', j', by rw [hc] at h; exact h⟩) ?_
    I.bins (fresh_lt I) ?_
  · intro b' hb'
    right
    simp only [freshB, List.mem_filter, List.mem_append, mem_binsOf, decide_eq_true_eq, ne_eq, Sum.inr.injEq] at hb'
    obtain ⟨hm, hne⟩ := hb'
    rcases hm with rfl | rfl
    · rcases lb b' rfl with ⟨e, -⟩ | ⟨e, -⟩
      · exact absurd e.symm hne
      · show s.tbins.length ≤ b'; rw [e]; exact Nat.le_refl _
    · rcases hb b' rfl with ⟨e, -⟩ | ⟨e, -⟩
      · exact absurd e.symm hne
      · show s.tbins.length ≤ b'; rw [e]; exact la
  · intro b' hlo hhi
    rcases lb b' hlo with ⟨e1, r1, n1, l1⟩ | ⟨e1, l1⟩ <;> rcases hb b' hhi with ⟨e2, r2, n2, l2⟩ | ⟨e2, l2⟩
    · -- both re-used: each side would have to be empty for the other to be re-used
      rw [r2] at n1; cases n1
    · have h0 : b' < s.tbins.length := by rw [e1]; exact hheld
      have l1' : s1.tbins.length = s.tbins.length := l1
      omega
    · have h0 : b' < s.tbins.length := by rw [e2]; exact hheld
      have e1' : b' = s.tbins.length := e1
      omega
    · have e1' : b' = s.tbins.length := e1
      have l1' : s1.tbins.length = s.tbins.length + 1 := l1
      omega

theorem fi_xStoreLow {j : Nat} {unl : Nat ⊕ Nat} {c1 c2 : Cell} (F : FreshInv s) (I : GenInv s)
    (hl : s.threads[t]? = some { pc := .xStoreLow j unl c1 c2, call := none })
    (hs : step s t inv lo mt rz sm sm2 pick = some s') : FreshInv s' := by
  have T := I.thr t _ hl
  have hd := F.dist t _ hl
  have hv0 : (desc s.cur { pc := Pc.xStoreLow j unl c1 c2, call := none }).valid = some (s.cur, j, unlCell unl) := rfl
  obtain ⟨hcell, -⟩ := T.valid _ _ _ hv0
  open_step hs hl
  cases hs
  refine freshInv_put (g0 := s.cur + 1) (j0 := j) (c := c1) F I hl rfl rfl ?_ ?_ trivial
  · intro b hb
    by_cases e : unl = .inr b
    · subst e
      exact Or.inr ⟨s.cur, j, hcell⟩
    · left
      simp only [freshB, List.mem_filter, List.mem_append, mem_binsOf, decide_eq_true_eq, ne_eq]
      exact ⟨Or.inl hb, e⟩
  · intro b hb
    simp only [freshB, List.mem_filter, List.mem_append, mem_binsOf, decide_eq_true_eq, ne_eq] at hb ⊢
    exact ⟨⟨Or.inr hb.1, hb.2⟩, fun h => hd b h hb.1⟩

theorem fi_xStoreHigh {j : Nat} {unl : Nat ⊕ Nat} {c2 : Cell} (F : FreshInv s) (I : GenInv s)
    (hl : s.threads[t]? = some { pc := .xStoreHigh j unl c2, call := none })
    (hs : step s t inv lo mt rz sm sm2 pick = some s') : FreshInv s' := by
  have T := I.thr t _ hl
  have hv0 : (desc s.cur { pc := Pc.xStoreHigh j unl c2, call := none }).valid = some (s.cur, j, unlCell unl) := rfl
  obtain ⟨hcell, -⟩ := T.valid _ _ _ hv0
  open_step hs hl
  cases hs
  refine freshInv_put (g0 := s.cur + 1) (j0 := j + 2 ^ s.cur) (c := c2) F I hl rfl rfl ?_ (fun b h => nomatch h) trivial
  intro b hb
  by_cases e : unl = .inr b
  · subst e
    exact Or.inr ⟨s.cur, j, hcell⟩
  · left
    simp only [freshB, List.mem_filter, mem_binsOf, decide_eq_true_eq, ne_eq]
    exact ⟨hb, e⟩

theorem fi_xStoreMoved {j : Nat} {unl : Nat ⊕ Nat} (F : FreshInv s) (I : GenInv s)
    (hl : s.threads[t]? = some { pc := .xStoreMoved j unl, call := none })
    (hs : step s t inv lo mt rz sm sm2 pick = some s') : FreshInv s' := by
  open_step hs hl
  cases hs
  exact freshInv_put (g0 := s.cur) (j0 := j) (c := .moved) F I hl rfl rfl (fun b h => by cases h)
    (fun b h => nomatch h) trivial

theorem fi_idle (F : FreshInv s) (I : GenInv s) (hl : s.threads[t]? = some { pc := .idle, call := c })
    (hs : step s t inv lo mt rz sm sm2 pick = some s') : FreshInv s' := by
  unfold step stepG at hs; rw [hl] at hs; simp only at hs
  split at hs
  · split at hs
    · cases hs
      exact freshInv_same (l' := { pc := .idle, call := c }) F I hl (set_same hl) rfl (fun b h => nomatch h) trivial
    · cases hs
      refine freshInv_frame F hl rfl ?_ (fun b h => nomatch h) I.bins (fresh_lt I) trivial
      intro g j b h
      have h' : cellT (s.tabs ++ [List.replicate (2 ^ (s.cur + 1)) (.empty : Cell)]) g j = .tree b := h
      rw [cellT_alloc] at h'
      exact Or.inl ⟨g, j, h'⟩
  · split at hs
    · cases hs; exact freshInv_same F I hl rfl rfl (fun b h => nomatch h) trivial
    · split at hs
      · cases hs
        exact freshInv_same (l' := { pc := .idle, call := c }) F I hl (set_same hl) rfl (fun b h => nomatch h) trivial
      · cases hs
        split <;> exact freshInv_same F I hl rfl rfl (fun b h => nomatch h) trivial

end

theorem step_freshInv {s s' : State} {t : Nat} {inv : Option (Nat × KOp)} {lo : Bool} {mt : Option Nat}
    {rz sm sm2 : Bool} {pick : Nat} (I : GenInv s) (F : FreshInv s)
    (hs : step s t inv lo mt rz sm sm2 pick = some s') : FreshInv s' := by
  cases hl : s.threads[t]? with
  | none => unfold step stepG at hs; rw [hl] at hs; cases hs
  | some l =>
    obtain ⟨pc, call⟩ := l
    cases pc with
    | idle => exact fi_idle F I hl hs
    | rTable x => cases call with
      | none => unfold step stepG at hs; rw [hl] at hs; simp at hs
      | some p => exact fi_rTable F I hl hs
    | rCell x g => cases call with
      | none => unfold step stepG at hs; rw [hl] at hs; simp at hs
      | some p => exact fi_rCell F I hl hs
    | rFirst b => cases call with
      | none => unfold step stepG at hs; rw [hl] at hs; simp at hs
      | some p => exact fi_rFirst F I hl hs
    | rLin b x => cases call with
      | none => unfold step stepG at hs; rw [hl] at hs; simp at hs
      | some p => exact fi_rLin F I hl hs
    | rCas b x r => cases call with
      | none => unfold step stepG at hs; rw [hl] at hs; simp at hs
      | some p => exact fi_rCas F I hl hs
    | rTree b => cases call with
      | none => unfold step stepG at hs; rw [hl] at hs; simp at hs
      | some p => exact fi_rTree F I hl hs
    | rRelease b x => cases call with
      | none => unfold step stepG at hs; rw [hl] at hs; simp at hs
      | some p => exact fi_rRelease F I hl hs
    | rVal x => cases call with
      | none => unfold step stepG at hs; rw [hl] at hs; simp at hs
      | some p => exact fi_rVal F I hl hs
    | lFirst b => cases call with
      | none => unfold step stepG at hs; rw [hl] at hs; simp at hs
      | some p => exact fi_lFirst F I hl hs
    | wTable => cases call with
      | none => unfold step stepG at hs; rw [hl] at hs; simp at hs
      | some p => exact fi_wTable F I hl hs
    | wCell g => cases call with
      | none => unfold step stepG at hs; rw [hl] at hs; simp at hs
      | some p => exact fi_wCell F I hl hs
    | wLock g h => cases call with
      | none => unfold step stepG at hs; rw [hl] at hs; simp at hs
      | some p => exact fi_wLock F I hl hs
    | wCheck g h => cases call with
      | none => unfold step stepG at hs; rw [hl] at hs; simp at hs
      | some p => exact fi_wCheck F I hl hs
    | wUnlock g h res retry => cases call with
      | none => unfold step stepG at hs; rw [hl] at hs; simp at hs
      | some p => exact fi_wUnlock F I hl hs
    | tMutex g b => cases call with
      | none => unfold step stepG at hs; rw [hl] at hs; simp at hs
      | some p => exact fi_tMutex F I hl hs
    | tCheck g b => cases call with
      | none => unfold step stepG at hs; rw [hl] at hs; simp at hs
      | some p => exact fi_tCheck F I hl hs
    | tFind g b => cases call with
      | none => unfold step stepG at hs; rw [hl] at hs; simp at hs
      | some p => exact fi_tFind F I hl hs
    | tVal g b i v res => cases call with
      | none => unfold step stepG at hs; rw [hl] at hs; simp at hs
      | some p => exact fi_tVal F I hl hs
    | tPrependLocked g b => cases call with
      | none => unfold step stepG at hs; rw [hl] at hs; simp at hs
      | some p => exact fi_tPrependLocked F I hl hs
    | tTreeLinkLocked g b x => cases call with
      | none => unfold step stepG at hs; rw [hl] at hs; simp at hs
      | some p => exact fi_tTreeLinkLocked F I hl hs
    | tUnlinkLocked g b i res => cases call with
      | none => unfold step stepG at hs; rw [hl] at hs; simp at hs
      | some p => exact fi_tUnlinkLocked F I hl hs
    | tRestructure g b i res => cases call with
      | none => unfold step stepG at hs; rw [hl] at hs; simp at hs
      | some p => exact fi_tRestructure F I hl hs
    | tUnlockRoot g b res => cases call with
      | none => unfold step stepG at hs; rw [hl] at hs; simp at hs
      | some p => exact fi_tUnlockRoot F I hl hs
    | tUnlockM g b res retry => cases call with
      | none => unfold step stepG at hs; rw [hl] at hs; simp at hs
      | some p => exact fi_tUnlockM F I hl hs
    | kTable k => cases call with
      | some p => unfold step stepG at hs; rw [hl] at hs; simp at hs
      | none => exact fi_kTable F I hl hs
    | kCell g k => cases call with
      | some p => unfold step stepG at hs; rw [hl] at hs; simp at hs
      | none => exact fi_kCell F I hl hs
    | kLock g k h => cases call with
      | some p => unfold step stepG at hs; rw [hl] at hs; simp at hs
      | none => exact fi_kLock F I hl hs
    | kCheck g k h => cases call with
      | some p => unfold step stepG at hs; rw [hl] at hs; simp at hs
      | none => exact fi_kCheck F I hl hs
    | kUnlock h => cases call with
      | some p => unfold step stepG at hs; rw [hl] at hs; simp at hs
      | none => exact fi_kUnlock F I hl hs
    | xNext => cases call with
      | some p => unfold step stepG at hs; rw [hl] at hs; simp at hs
      | none => exact fi_xNext F I hl hs
    | xCell j => cases call with
      | some p => unfold step stepG at hs; rw [hl] at hs; simp at hs
      | none => exact fi_xCell F I hl hs
    | xLock j h => cases call with
      | some p => unfold step stepG at hs; rw [hl] at hs; simp at hs
      | none => exact fi_xLock F I hl hs
    | xCheck j h => cases call with
      | some p => unfold step stepG at hs; rw [hl] at hs; simp at hs
      | none => exact fi_xCheck F I hl hs
    | yMutex j b => cases call with
      | some p => unfold step stepG at hs; rw [hl] at hs; simp at hs
      | none => exact fi_yMutex F I hl hs
    | yCheck j b => cases call with
      | some p => unfold step stepG at hs; rw [hl] at hs; simp at hs
      | none => exact fi_yCheck F I hl hs
    | xCommit => cases call with
      | some p => unfold step stepG at hs; rw [hl] at hs; simp at hs
      | none => exact fi_xCommit F I hl hs
    | rNode x => cases call with
      | none => unfold step stepG at hs; rw [hl] at hs; simp at hs
      | some p => exact fi_rNode F I hl hs
    | rState b x => cases call with
      | none => unfold step stepG at hs; rw [hl] at hs; simp at hs
      | some p => exact fi_rState F I hl hs
    | lNode x => cases call with
      | none => unfold step stepG at hs; rw [hl] at hs; simp at hs
      | some p => exact fi_lNode F I hl hs
    | wFind g h pred cur => cases call with
      | none => unfold step stepG at hs; rw [hl] at hs; simp at hs
      | some p => exact fi_wFind F I hl hs
    | xUnlock unl => cases call with
      | some p => unfold step stepG at hs; rw [hl] at hs; simp at hs
      | none => exact fi_xUnlock F I hl hs
    | lrTry g b k res => cases call with
      | none => unfold step stepG at hs; rw [hl] at hs; simp at hs
      | some p => exact fi_lrTry F I hl hs
    | lrLoop g b k res => cases call with
      | none => unfold step stepG at hs; rw [hl] at hs; simp at hs
      | some p => exact fi_lrLoop F I hl hs
    | wCas g => cases call with
      | none => unfold step stepG at hs; rw [hl] at hs; simp at hs
      | some p => exact fi_wCas F I hl hs
    | wStore g h pred hit hnext => cases call with
      | none => unfold step stepG at hs; rw [hl] at hs; simp at hs
      | some p => exact fi_wStore F I hl hs
    | tUntreeify g b res => cases call with
      | none => unfold step stepG at hs; rw [hl] at hs; simp at hs
      | some p => exact fi_tUntreeify F I hl hs
    | kBuild g k h => cases call with
      | some p => unfold step stepG at hs; rw [hl] at hs; simp at hs
      | none => exact fi_kBuild F I hl hs
    | kStore g k h b => cases call with
      | some p => unfold step stepG at hs; rw [hl] at hs; simp at hs
      | none => exact fi_kStore F I hl hs
    | xCasMoved j => cases call with
      | some p => unfold step stepG at hs; rw [hl] at hs; simp at hs
      | none => exact fi_xCasMoved F I hl hs
    | xBuild j h => cases call with
      | some p => unfold step stepG at hs; rw [hl] at hs; simp at hs
      | none => exact fi_xBuild F I hl hs
    | yBuild j b => cases call with
      | some p => unfold step stepG at hs; rw [hl] at hs; simp at hs
      | none => exact fi_yBuild F I hl hs
    | xStoreLow j unl c1 c2 => cases call with
      | some p => unfold step stepG at hs; rw [hl] at hs; simp at hs
      | none => exact fi_xStoreLow F I hl hs
    | xStoreHigh j unl c2 => cases call with
      | some p => unfold step stepG at hs; rw [hl] at hs; simp at hs
      | none => exact fi_xStoreHigh F I hl hs
    | xStoreMoved j unl => cases call with
      | some p => unfold step stepG at hs; rw [hl] at hs; simp at hs
      | none => exact fi_xStoreMoved F I hl hs

theorem reachable_freshInv {n : Nat} {s : State} (hr : Reachable n s) : FreshInv s := by
  have : GenInv s ∧ FreshInv s := by
    induction hr with
    | init =>
      have hl : ∀ (t : Nat) (l : Local), (init n).threads[t]? = some l → l = {} := fun t l h =>
        List.eq_of_mem_replicate (List.mem_of_getElem? h)
      refine ⟨init_geninv n, ?_, ?_, ?_⟩
      · intro t l b h hb; rw [hl t l h] at hb; cases hb
      · intro t t' l l' b h _ hb; rw [hl t l h] at hb; cases hb
      · intro t l h; rw [hl t l h]; trivial
    | step t inv lo mt rz sm sm2 pick _ hs ih => exact ⟨step_geninv ih.1 hs, step_freshInv ih.1 ih.2 hs⟩
  exact this.2

end Flurry.Proto.BinGN
