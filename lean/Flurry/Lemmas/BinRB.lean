import Flurry.Lemmas.BinRBChain
import Flurry.Lemmas.BinRBBasic
import Flurry.Lemmas.BinRBStep
import Flurry.Lemmas.BinRBInv
import Flurry.Lemmas.BinRBLock
import Flurry.Lemmas.BinRBGhost
import Flurry.Lemmas.BinRBLin
