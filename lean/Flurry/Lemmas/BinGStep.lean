import Flurry.Proto.BinG
import Flurry.Lemmas.BinKStep
/-! # Proto/BinG: the transitions in normal form

`StepN s t l s'` lists the transitions of thread `t` of `step = stepG true` with explicit successor
states, grouped by what they do to the shared state (as `Lemmas/BinKStep.lean`):
* `move` / `bmove` / `fin` / `bfin` (a call in flight), `kmove` / `kbmove` (treeify and resize
  threads): heap cells other than lock words, the `first` fields, the three bin cells and the table
  pointer are untouched; the program counter moves, one lock word of a node or the synchronisation
  words of one `TreeBin` may change;
* the stores of `Proto/BinK`: `cas`, `store`, `tval`, `prepend`, `treeLink`, `unlink`, `untree`,
  `untreeify`, `kbuild`, `kstore` (now in the cell of the key in table `tab`);
* the resize: `resizeStart`, `xcasMoved`, `xbuild` (list split), `ybuild` (tree split), `xstoreLow`,
  `xstoreHigh`, `xstoreMoved`, `xcommit`.
`step_stepN` dissects `step` once and for all. -/
namespace Flurry.Proto.BinG
open Flurry.Lin
open Flurry.Proto.BinK (nodeAt binAt lockSet isInsert)

/-- the state with the clock advanced -/
def tick (s : State) : State := { s with now := s.now + 1 }

/-- clock advanced, heap and `TreeBin` table replaced -/
def qst (s : State) (hp : List NodeS) (tb : List TBin) : State :=
  { s with now := s.now + 1, heap := hp, tbins := tb }

/-- the list unlink of node `i` of tree bin `b` -/
def unlinkOf (s : State) (b i : Nat) : State :=
  match predOf (chainOfBin s b) i with
  | some pr => setNode s pr (fun m => { m with next := (nodeAt s.heap i).next })
  | none => setBin s b (fun y => { y with first := (nodeAt s.heap i).next })

/-- the tree's view of key `k` in bin `b` -/
def absTree (s : State) (b k : Nat) : KSt :=
  match treeFind s b k with
  | some i => some (nodeAt s.heap i).val
  | none => none

/-- transitions of a thread with a call in flight that leave the shared state alone but for one lock
word of a node, and do not complete the call: `Move s t p pc pc' heap'` -/
inductive Move (s : State) (t : Nat) (p : Pending) : Pc → Pc → List NodeS → Prop
  | rTable {lo : Bool} : Move s t p (.rTable lo) (.rCell lo s.cur) s.heap
  | rCellMoved {lo : Bool} {tab : Tab} : cellOf s tab p.key = .moved →
      Move s t p (.rCell lo tab) (.rCell lo .new) s.heap
  | rCellList {lo : Bool} {tab : Tab} {h : Nat} : cellOf s tab p.key = .list h →
      Move s t p (.rCell lo tab) (.rNode (some h)) s.heap
  | rCellTree {lo : Bool} {tab : Tab} {b : Nat} : cellOf s tab p.key = .tree b →
      Move s t p (.rCell lo tab) (if lo then .lFirst b else .rFirst b) s.heap
  | rNodeNext {c : Nat} {n : NodeS} : s.heap[c]? = some n → n.key ≠ p.key →
      Move s t p (.rNode (some c)) (.rNode n.next) s.heap
  | rFirst {b : Nat} : Move s t p (.rFirst b) (.rState b (binAt s.tbins b).first) s.heap
  | rLinMode {b c : Nat} : ((binAt s.tbins b).writer || (binAt s.tbins b).waiter) = true →
      Move s t p (.rState b (some c)) (.rLin b c) s.heap
  | rTreeMode {b c : Nat} : ((binAt s.tbins b).writer || (binAt s.tbins b).waiter) = false →
      Move s t p (.rState b (some c)) (.rCas b c (binAt s.tbins b).readers) s.heap
  | rLinNext {b c : Nat} {n : NodeS} : s.heap[c]? = some n → n.key ≠ p.key →
      Move s t p (.rLin b c) (.rState b n.next) s.heap
  | rLinHit {b c : Nat} {n : NodeS} : s.heap[c]? = some n → n.key = p.key → p.op ≠ .has →
      Move s t p (.rLin b c) (.rVal c) s.heap
  | rCasFail {b c r : Nat} : Move s t p (.rCas b c r) (.rState b (some c)) s.heap
  | rTree {b : Nat} : Move s t p (.rTree b) (.rRelease b (treeFind s b p.key)) s.heap
  | lFirst {b : Nat} : Move s t p (.lFirst b) (.lNode (binAt s.tbins b).first) s.heap
  | lNext {c : Nat} {n : NodeS} : s.heap[c]? = some n → n.key ≠ p.key →
      Move s t p (.lNode (some c)) (.lNode n.next) s.heap
  | lHit {c : Nat} {n : NodeS} : s.heap[c]? = some n → n.key = p.key → p.op ≠ .has →
      Move s t p (.lNode (some c)) (.rVal c) s.heap
  | wTable : Move s t p .wTable (.wCell s.cur) s.heap
  | wCellMoved {tab : Tab} : cellOf s tab p.key = .moved → Move s t p (.wCell tab) (.wCell .new) s.heap
  | wCellCas {tab : Tab} : cellOf s tab p.key = .empty → isInsert p.op = true →
      Move s t p (.wCell tab) (.wCas tab) s.heap
  | wCellList {tab : Tab} {h : Nat} : cellOf s tab p.key = .list h →
      Move s t p (.wCell tab) (.wLock tab h) s.heap
  | wCellTree {tab : Tab} {b : Nat} : cellOf s tab p.key = .tree b →
      Move s t p (.wCell tab) (.tMutex tab b) s.heap
  | wCasFail {tab : Tab} : (cellOf s tab p.key ≠ .empty ∨ isInsert p.op = false) →
      Move s t p (.wCas tab) (.wCell tab) s.heap
  | wLock {tab : Tab} {h : Nat} {n : NodeS} : s.heap[h]? = some n → n.lock = none →
      Move s t p (.wLock tab h) (.wCheck tab h) (lockSet s.heap h (some t))
  | wCheckOk {tab : Tab} {h : Nat} : cellOf s tab p.key = .list h →
      Move s t p (.wCheck tab h) (.wFind tab h none (some h)) s.heap
  | wCheckFail {tab : Tab} {h : Nat} : cellOf s tab p.key ≠ .list h →
      Move s t p (.wCheck tab h) (.wUnlock tab h .none true) s.heap
  | wFindEnd {tab : Tab} {h : Nat} {pred : Option Nat} :
      Move s t p (.wFind tab h pred none) (.wStore tab h pred none none) s.heap
  | wFindHit {tab : Tab} {h : Nat} {pred : Option Nat} {c : Nat} {n : NodeS} : s.heap[c]? = some n →
      n.key = p.key → Move s t p (.wFind tab h pred (some c)) (.wStore tab h pred (some c) n.next) s.heap
  | wFindNext {tab : Tab} {h : Nat} {pred : Option Nat} {c : Nat} {n : NodeS} : s.heap[c]? = some n →
      n.key ≠ p.key → Move s t p (.wFind tab h pred (some c)) (.wFind tab h (some c) n.next) s.heap
  | wUnlockRetry {tab : Tab} {h : Nat} {res : KRes} :
      Move s t p (.wUnlock tab h res true) (.wCell tab) (lockSet s.heap h none)
  | tCheckOk {tab : Tab} {b : Nat} : cellOf s tab p.key = .tree b →
      Move s t p (.tCheck tab b) (.tFind tab b) s.heap
  | tCheckFail {tab : Tab} {b : Nat} : cellOf s tab p.key ≠ .tree b →
      Move s t p (.tCheck tab b) (.tUnlockM tab b .none true) s.heap
  | findVal {tab : Tab} {b i : Nat} {v : Nat × Nat} {res : KRes} : treeFind s b p.key = some i →
      specStep (some (nodeAt s.heap i).val) p.op = (some v, res) →
      Move s t p (.tFind tab b) (.tVal tab b i v res) s.heap
  | findInsert {tab : Tab} {b : Nat} : treeFind s b p.key = none → isInsert p.op = true →
      Move s t p (.tFind tab b) (.lrTry tab b .insert .none) s.heap
  | findRemove {tab : Tab} {b i : Nat} {res : KRes} : treeFind s b p.key = some i →
      specStep (some (nodeAt s.heap i).val) p.op = (none, res) →
      Move s t p (.tFind tab b) (.lrTry tab b (.remove i) res) s.heap
  | findDone {tab : Tab} {b : Nat} {res : KRes} :
      specStep (absTree s b p.key) p.op = (absTree s b p.key, res) →
      Move s t p (.tFind tab b) (.tUnlockM tab b res false) s.heap
  | lrTryFail {tab : Tab} {b : Nat} {k : After} {res : KRes} :
      Move s t p (.lrTry tab b k res) (.lrLoop tab b k res) s.heap

/-- transitions of a thread with a call in flight that change the synchronisation words of one
`TreeBin` and do not complete the call: `BMove s t p pc pc' tbins'` -/
inductive BMove (s : State) (t : Nat) (p : Pending) : Pc → Pc → List TBin → Prop
  | rCasOk {b c r : Nat} : (binAt s.tbins b).writer = false → (binAt s.tbins b).waiter = false →
      (binAt s.tbins b).readers = r →
      BMove s t p (.rCas b c r) (.rTree b) (s.tbins.modify b (fun x => { x with readers := x.readers + 1 }))
  | rRelVal {b i : Nat} : p.op ≠ .has →
      BMove s t p (.rRelease b (some i)) (.rVal i) (s.tbins.modify b (fun x => { x with readers := x.readers - 1 }))
  | tMutex {tab : Tab} {b : Nat} : (binAt s.tbins b).mutex = none →
      BMove s t p (.tMutex tab b) (.tCheck tab b) (s.tbins.modify b (fun x => { x with mutex := some t }))
  | lrTryOk {tab : Tab} {b : Nat} {k : After} {res : KRes} : (binAt s.tbins b).writer = false →
      (binAt s.tbins b).waiter = false → (binAt s.tbins b).readers = 0 →
      BMove s t p (.lrTry tab b k res) (afterLock tab b k res) (s.tbins.modify b (fun x => { x with writer := true }))
  | lrLoopOk {tab : Tab} {b : Nat} {k : After} {res : KRes} : (binAt s.tbins b).writer = false →
      (binAt s.tbins b).readers = 0 →
      BMove s t p (.lrLoop tab b k res) (afterLock tab b k res)
        (s.tbins.modify b (fun x => { x with writer := true, waiter := false }))
  | lrLoopWait {tab : Tab} {b : Nat} {k : After} {res : KRes} : (binAt s.tbins b).waiter = false →
      BMove s t p (.lrLoop tab b k res) (.lrLoop tab b k res) (s.tbins.modify b (fun x => { x with waiter := true }))
  | unlockRoot {tab : Tab} {b : Nat} {res : KRes} :
      BMove s t p (.tUnlockRoot tab b res) (.tUnlockM tab b res false)
        (s.tbins.modify b (fun x => { x with writer := false, waiter := false }))
  | tUnlockMRetry {tab : Tab} {b : Nat} {res : KRes} :
      BMove s t p (.tUnlockM tab b res true) (.wCell tab) (s.tbins.modify b (fun x => { x with mutex := none }))

/-- calls that complete without a store: `Fin s p pc res heap'` -/
inductive Fin (s : State) (p : Pending) : Pc → KRes → List NodeS → Prop
  | rCellEmpty {lo : Bool} {tab : Tab} : cellOf s tab p.key = .empty →
      Fin s p (.rCell lo tab) (absentRes p.op) s.heap
  | rNodeMiss : Fin s p (.rNode none) (absentRes p.op) s.heap
  | rNodeHit {c : Nat} {n : NodeS} : s.heap[c]? = some n → n.key = p.key →
      Fin s p (.rNode (some c)) (match p.op with | .has => .bool true | _ => .some n.val.1 n.val.2) s.heap
  | rMiss {b : Nat} : Fin s p (.rState b none) (absentRes p.op) s.heap
  | rLinHas {b c : Nat} {n : NodeS} : s.heap[c]? = some n → n.key = p.key → p.op = .has →
      Fin s p (.rLin b c) (.bool true) s.heap
  | rVal {i : Nat} {n : NodeS} : s.heap[i]? = some n → Fin s p (.rVal i) (.some n.val.1 n.val.2) s.heap
  | lMiss : Fin s p (.lNode none) (absentRes p.op) s.heap
  | lHas {c : Nat} {n : NodeS} : s.heap[c]? = some n → n.key = p.key → p.op = .has →
      Fin s p (.lNode (some c)) (.bool true) s.heap
  | wCellEmpty {tab : Tab} : cellOf s tab p.key = .empty → isInsert p.op = false →
      Fin s p (.wCell tab) .none s.heap
  | wUnlockFin {tab : Tab} {h : Nat} {res : KRes} :
      Fin s p (.wUnlock tab h res false) res (lockSet s.heap h none)

/-- calls that complete with a change of the synchronisation words of one `TreeBin`:
`BFin s p pc res tbins'` -/
inductive BFin (s : State) (p : Pending) : Pc → KRes → List TBin → Prop
  | rRelNone {b : Nat} : BFin s p (.rRelease b none) (absentRes p.op)
      (s.tbins.modify b (fun x => { x with readers := x.readers - 1 }))
  | rRelHas {b i : Nat} : p.op = .has → BFin s p (.rRelease b (some i)) (.bool true)
      (s.tbins.modify b (fun x => { x with readers := x.readers - 1 }))
  | tUnlockMFin {tab : Tab} {b : Nat} {res : KRes} : BFin s p (.tUnlockM tab b res false) res
      (s.tbins.modify b (fun x => { x with mutex := none }))

/-- transitions of the treeify thread and of the resizing thread that change at most one lock word
of a node: `KMove s t pc pc' heap'` -/
inductive KMove (s : State) (t : Nat) : Pc → Pc → List NodeS → Prop
  | kTable {k : Nat} : KMove s t (.kTable k) (.kCell s.cur k) s.heap
  | kCellList {tab : Tab} {k h : Nat} : cellOf s tab k = .list h →
      KMove s t (.kCell tab k) (.kLock tab k h) s.heap
  | kCellMoved {tab : Tab} {k : Nat} : cellOf s tab k = .moved → KMove s t (.kCell tab k) (.kCell .new k) s.heap
  | kCellOther {tab : Tab} {k : Nat} : (∀ h, cellOf s tab k ≠ .list h) → cellOf s tab k ≠ .moved →
      KMove s t (.kCell tab k) .idle s.heap
  | kLock {tab : Tab} {k h : Nat} {n : NodeS} : s.heap[h]? = some n → n.lock = none →
      KMove s t (.kLock tab k h) (.kCheck tab k h) (lockSet s.heap h (some t))
  | kCheckOk {tab : Tab} {k h : Nat} : cellOf s tab k = .list h →
      KMove s t (.kCheck tab k h) (.kBuild tab k h) s.heap
  | kCheckFail {tab : Tab} {k h : Nat} : cellOf s tab k ≠ .list h →
      KMove s t (.kCheck tab k h) (.kUnlock h) s.heap
  | kUnlock {h : Nat} : KMove s t (.kUnlock h) .idle (lockSet s.heap h none)
  | xCellEmpty : s.cell0 = .empty → KMove s t .xCell .xCasMoved s.heap
  | xCellList {h : Nat} : s.cell0 = .list h → KMove s t .xCell (.xLock h) s.heap
  | xCellTree {b : Nat} : s.cell0 = .tree b → KMove s t .xCell (.yMutex b) s.heap
  | xCellMoved : s.cell0 = .moved → KMove s t .xCell .xCommit s.heap
  | xCasFail : s.cell0 ≠ .empty → KMove s t .xCasMoved .xCell s.heap
  | xLock {h : Nat} {n : NodeS} : s.heap[h]? = some n → n.lock = none →
      KMove s t (.xLock h) (.xCheck h) (lockSet s.heap h (some t))
  | xCheckOk {h : Nat} : s.cell0 = .list h → KMove s t (.xCheck h) (.xBuild h) s.heap
  | xCheckFail {h : Nat} : s.cell0 ≠ .list h → KMove s t (.xCheck h) .xCell (lockSet s.heap h none)
  | yCheckOk {b : Nat} : s.cell0 = .tree b → KMove s t (.yCheck b) (.yBuild b) s.heap
  | xUnlockL {h : Nat} : KMove s t (.xUnlock (.inl h)) .xCommit (lockSet s.heap h none)

/-- transitions of the resizing thread that change the mutex of one `TreeBin`:
`KBMove s t pc pc' tbins'` -/
inductive KBMove (s : State) (t : Nat) : Pc → Pc → List TBin → Prop
  | yMutex {b : Nat} : (binAt s.tbins b).mutex = none →
      KBMove s t (.yMutex b) (.yCheck b) (s.tbins.modify b (fun x => { x with mutex := some t }))
  | yCheckFail {b : Nat} : s.cell0 ≠ .tree b →
      KBMove s t (.yCheck b) .xCell (s.tbins.modify b (fun x => { x with mutex := none }))
  | xUnlockT {b : Nat} : KBMove s t (.xUnlock (.inr b)) .xCommit (s.tbins.modify b (fun x => { x with mutex := none }))

/-- the state after the copy made by `kBuild` -/
def buildOf (s : State) (h : Nat) : State :=
  { s with
    heap := (copyChain s.heap (chainFrom s.heap s.heap.length (some h))
      (fun src nx => ⟨src.key, src.val, nx, none, true, some s.tbins.length⟩)).1,
    tbins := s.tbins ++ [{ first := (copyChain s.heap (chainFrom s.heap s.heap.length (some h))
      (fun src nx => ⟨src.key, src.val, nx, none, true, some s.tbins.length⟩)).2 }] }

/-- the state after the copy and store of `tUntreeify` -/
def untreeifyOf (s : State) (tab : Tab) (k b : Nat) : State :=
  setCell { s with
    heap := (copyChain s.heap (chainOfBin s b) (fun src nx => ⟨src.key, src.val, nx, none, false, none⟩)).1 }
    tab k (cellOfHead (copyChain s.heap (chainOfBin s b) (fun src nx => ⟨src.key, src.val, nx, none, false, none⟩)).2)

/-- the list split of `xBuild`: new heap, planned low cell, planned high cell -/
def xsplitOf (s : State) (h : Nat) : List NodeS × Cell × Cell :=
  let r := splitBin s.heap (chainFrom s.heap s.heap.length (some h))
  (r.1, cellOfHead r.2.1, cellOfHead r.2.2)

/-- the low nodes / the high nodes of the list of tree bin `b` -/
def lowOf (s : State) (b : Nat) : List Nat := (chainOfBin s b).filter fun i => !hiBit (s.heap.getD i dflt).key
def highOf (s : State) (b : Nat) : List Nat := (chainOfBin s b).filter fun i => hiBit (s.heap.getD i dflt).key

/-- the tree split of `yBuild`: the state after both sides, planned low cell, planned high cell -/
def ysplitOf (s : State) (b : Nat) (small small2 : Bool) : State × Cell × Cell :=
  let r1 := splitSide s b (lowOf s b) small (highOf s b).isEmpty
  let r2 := splitSide r1.1 b (highOf s b) small2 (lowOf s b).isEmpty
  (r2.1, r1.2, r2.2)

inductive StepN (s : State) (t : Nat) (l : Local) : State → Prop
  | idle : l.pc = .idle → StepN s t l (setT (tick s) t l)
  | maint (k : Nat) : l.pc = .idle → StepN s t l (setT (tick s) t { l with pc := .kTable k })
  | resizeStart : l.pc = .idle → s.resizing = false →
      StepN s t l { (setT (tick s) t { l with pc := .xCell }) with resizing := true }
  | invoke (k : Nat) (op : KOp) (lo : Bool) : l.pc = .idle →
      StepN s t l (setT (tick s) t
        { pc := if isReader op then .rTable lo else .wTable, call := some ⟨k, op, s.now + 1⟩ })
  | move (p : Pending) (pc' : Pc) (hp : List NodeS) : l.call = some p →
      Move s t p l.pc pc' hp → StepN s t l (setT (qst s hp s.tbins) t { l with pc := pc' })
  | bmove (p : Pending) (pc' : Pc) (tb : List TBin) : l.call = some p →
      BMove s t p l.pc pc' tb → StepN s t l (setT (qst s s.heap tb) t { l with pc := pc' })
  | kmove (pc' : Pc) (hp : List NodeS) : l.call = none →
      KMove s t l.pc pc' hp → StepN s t l (setT (qst s hp s.tbins) t { l with pc := pc' })
  | kbmove (pc' : Pc) (tb : List TBin) : l.call = none →
      KBMove s t l.pc pc' tb → StepN s t l (setT (qst s s.heap tb) t { l with pc := pc' })
  | fin (p : Pending) (res : KRes) (hp : List NodeS) : l.call = some p →
      Fin s p l.pc res hp → StepN s t l (finish (qst s hp s.tbins) t p res)
  | bfin (p : Pending) (res : KRes) (tb : List TBin) : l.call = some p →
      BFin s p l.pc res tb → StepN s t l (finish (qst s s.heap tb) t p res)
  | cas (p : Pending) (tab : Tab) (v vi : Nat) : l.call = some p → l.pc = .wCas tab →
      cellOf s tab p.key = .empty → (p.op = .ins v vi ∨ p.op = .tryIns v vi) →
      StepN s t l (finish (setCell (qst s (s.heap ++ [⟨p.key, (v, vi), none, none, false, none⟩]) s.tbins)
        tab p.key (.list s.heap.length)) t p .none)
  | store (p : Pending) (tab : Tab) (h : Nat) (pred hit hnext : Option Nat) : l.call = some p →
      l.pc = .wStore tab h pred hit hnext →
      StepN s t l (setT (storeAt (tick s) tab p pred hit hnext).1 t
        { l with pc := .wUnlock tab h (storeAt (tick s) tab p pred hit hnext).2 false })
  | tval (p : Pending) (tab : Tab) (b i : Nat) (v : Nat × Nat) (res : KRes) : l.call = some p →
      l.pc = .tVal tab b i v res →
      StepN s t l (setT (setNode (tick s) i (fun n => { n with val := v })) t { l with pc := .tUnlockM tab b res false })
  | prepend (p : Pending) (tab : Tab) (b v vi : Nat) : l.call = some p → l.pc = .tPrependLocked tab b →
      (p.op = .ins v vi ∨ p.op = .tryIns v vi) →
      StepN s t l (setT
        (setBin (qst s (s.heap ++ [⟨p.key, (v, vi), (binAt s.tbins b).first, none, false, some b⟩]) s.tbins)
          b (fun y => { y with first := some s.heap.length })) t
        { l with pc := .tTreeLinkLocked tab b s.heap.length })
  | treeLink (p : Pending) (tab : Tab) (b x : Nat) : l.call = some p → l.pc = .tTreeLinkLocked tab b x →
      StepN s t l (setT (setNode (tick s) x (fun n => { n with inTree := true })) t
        { l with pc := .tUnlockRoot tab b .none })
  | unlink (p : Pending) (tab : Tab) (b i : Nat) (res : KRes) (small : Bool) : l.call = some p →
      l.pc = .tUnlinkLocked tab b i res →
      StepN s t l (setT (unlinkOf (tick s) b i) t
        { l with pc := if small then .tUntreeify tab b res else .tRestructure tab b i res })
  | untree (p : Pending) (tab : Tab) (b i : Nat) (res : KRes) : l.call = some p → l.pc = .tRestructure tab b i res →
      StepN s t l (setT (setNode (tick s) i (fun n => { n with inTree := false })) t
        { l with pc := .tUnlockRoot tab b res })
  | untreeify (p : Pending) (tab : Tab) (b : Nat) (res : KRes) : l.call = some p → l.pc = .tUntreeify tab b res →
      StepN s t l (setT (untreeifyOf (tick s) tab p.key b) t { l with pc := .tUnlockM tab b res false })
  | kbuild (tab : Tab) (k h : Nat) : l.call = none → l.pc = .kBuild tab k h →
      StepN s t l (setT (buildOf (tick s) h) t { l with pc := .kStore tab k h s.tbins.length })
  | kstore (tab : Tab) (k h b : Nat) : l.call = none → l.pc = .kStore tab k h b →
      StepN s t l (setT (setCell (tick s) tab k (.tree b)) t { l with pc := .kUnlock h })
  | xcasMoved : l.call = none → l.pc = .xCasMoved → s.cell0 = .empty →
      StepN s t l { (setT (tick s) t { l with pc := .xCommit }) with cell0 := .moved }
  | xbuild (h : Nat) : l.call = none → l.pc = .xBuild h →
      StepN s t l (setT (qst s (xsplitOf s h).1 s.tbins) t
        { l with pc := .xStoreLow (.inl h) (xsplitOf s h).2.1 (xsplitOf s h).2.2 })
  | ybuild (b : Nat) (small small2 : Bool) : l.call = none → l.pc = .yBuild b →
      StepN s t l (setT (ysplitOf (tick s) b small small2).1 t
        { l with pc := .xStoreLow (.inr b) (ysplitOf (tick s) b small small2).2.1 (ysplitOf (tick s) b small small2).2.2 })
  | xstoreLow (unl : Nat ⊕ Nat) (lo hi : Cell) : l.call = none → l.pc = .xStoreLow unl lo hi →
      StepN s t l { (setT (tick s) t { l with pc := .xStoreHigh unl hi }) with lowCell := lo }
  | xstoreHigh (unl : Nat ⊕ Nat) (hi : Cell) : l.call = none → l.pc = .xStoreHigh unl hi →
      StepN s t l { (setT (tick s) t { l with pc := .xStoreMoved unl }) with highCell := hi }
  | xstoreMoved (unl : Nat ⊕ Nat) : l.call = none → l.pc = .xStoreMoved unl →
      StepN s t l { (setT (tick s) t { l with pc := .xUnlock unl }) with cell0 := .moved }
  | xcommit : l.call = none → l.pc = .xCommit →
      StepN s t l { (setT (tick s) t { l with pc := .idle }) with cur := .new }

end Flurry.Proto.BinG
