import Flurry.Lemmas.BinGProgRead
/-! # Proto/BinG, progress: every thread that is not blocked makes progress towards `idle`

`wmu s l` is an upper bound on the number of steps a thread with local state `l` still takes when it
runs alone from `s` before it is `idle` again *or blocked on a lock held by another thread*. It
extends the measure `mu` of the readers (`Lemmas/BinGProgRead.lean`) to writers of both bin forms, the
treeify thread and the resizing thread.

Why `wmu` decreases with every own step (`thread_step`):
* after a *fresh* load of its cell (`wCell`, `kCell`, `xCell`) the thread locks what it saw, and —
  running alone — its re-check succeeds (nobody else stores into the cell), the walk over the locked
  list is bounded through `rank`, and the store / unlock sequence has constant length;
* a thread that is *resumed* with a stale view (the cell changed while it was suspended: `wCas` on a
  cell that is no longer empty, `wLock` / `wCheck` / `tMutex` / `tCheck` / `xLock` / `xCheck` / `yMutex` /
  `yCheck` of a structure that is no longer in the cell) fails its re-check once, unlocks and loads the
  cell again; hence the case split on the content of the cell in `wmu`;
* the forwarding marker is followed at most once (`HInv.newNotMoved`);
* `lrTry` falls through to `lrLoop` once; `lrLoop` sets `WAITER` once and is then either blocked
  (readers remain) or takes the write lock. -/
namespace Flurry.Proto.BinG
open Flurry.Lin
open Flurry.Proto.BinK (nodeAt binAt lockSet isInsert NextOK nodeAt_of_some rank rank_le rank_lt get_set
  get_set_self get_set_ne binAt_modify binAt_modify_self)

/-- the call of the thread inserts -/
def insOf (l : Local) : Bool :=
  match l.call with
  | some p => isInsert p.op
  | none => false

/-- the bound for an operation that is about to load its cell in table `tab` -/
def fresh (n : Nat) : Tab → Nat
  | .new => 2 * n + 12
  | .old => 2 * n + 13

/-- `lrLoop` can take the write lock of `b` -/
def lrCond (s : State) (b : Nat) : Bool := !(binAt s.tbins b).writer && (binAt s.tbins b).readers == 0

/-- an upper bound on the number of own steps a thread with local state `l` still needs in `s` before
it is `idle` or blocked -/
def wmu (s : State) (l : Local) : Nat :=
  match l.pc with
  | .idle => 0
  | .wTable => 2 * s.heap.length + 14
  | .wCell tab => fresh s.heap.length tab
  | .wCas tab =>
    if cellOf s tab (keyOf l) = .empty ∧ insOf l = true then 1 else 1 + fresh s.heap.length tab
  | .wLock tab h =>
    if cellOf s tab (keyOf l) = .list h then 2 * s.heap.length + 6 else 3 + fresh s.heap.length tab
  | .wCheck tab h =>
    if cellOf s tab (keyOf l) = .list h then 2 * s.heap.length + 5 else 2 + fresh s.heap.length tab
  | .wFind _ _ _ none => 3
  | .wFind _ _ _ (some c) => rank s.heap c + 4
  | .wStore _ _ _ _ _ => 2
  | .wUnlock _ _ _ false => 1
  | .wUnlock tab _ _ true => 1 + fresh s.heap.length tab
  | .tMutex tab b => if cellOf s tab (keyOf l) = .tree b then 10 else 3 + fresh s.heap.length tab
  | .tCheck tab b => if cellOf s tab (keyOf l) = .tree b then 9 else 2 + fresh s.heap.length tab
  | .tFind _ _ => 8
  | .tVal _ _ _ _ _ => 2
  | .lrTry _ _ _ _ => 7
  | .lrLoop _ b _ _ => (if lrCond s b = true then 5 else 0) + (if (binAt s.tbins b).waiter = true then 0 else 1)
  | .tPrependLocked _ _ => 4
  | .tTreeLinkLocked _ _ _ => 3
  | .tUnlinkLocked _ _ _ _ => 4
  | .tRestructure _ _ _ _ => 3
  | .tUnlockRoot _ _ _ => 2
  | .tUntreeify _ _ _ => 2
  | .tUnlockM _ _ _ false => 1
  | .tUnlockM tab _ _ true => 1 + fresh s.heap.length tab
  | .kTable _ => 8
  | .kCell .old _ => 7
  | .kCell .new _ => 6
  | .kLock _ _ _ => 5
  | .kCheck _ _ _ => 4
  | .kBuild _ _ _ => 3
  | .kStore _ _ _ _ => 2
  | .kUnlock _ => 1
  | .xCell => 10
  | .xCasMoved => if s.cell0 = .empty then 2 else 11
  | .xLock h => if s.cell0 = .list h then 8 else 12
  | .xCheck h => if s.cell0 = .list h then 7 else 11
  | .xBuild _ => 6
  | .yMutex b => if s.cell0 = .tree b then 8 else 12
  | .yCheck b => if s.cell0 = .tree b then 7 else 11
  | .yBuild _ => 6
  | .xStoreLow _ _ _ => 5
  | .xStoreHigh _ _ => 4
  | .xStoreMoved _ => 3
  | .xUnlock _ => 2
  | .xCommit => 1
  | pc => mu s pc

/-- the result of one step of thread `t` (local state `l`) from `s`: it is `idle` again (a thread with a
call has returned: one entry added to `hist`), or it is at another program counter with the same call
and a smaller measure; the history is untouched unless it returned -/
def Progress (s : State) (t : Nat) (l : Local) (s' : State) : Prop :=
  (s'.threads[t]? = some { pc := .idle, call := none } ∧
    ((l.call = none ∧ s'.hist = s.hist) ∨
     ∃ p res, l.call = some p ∧
       s'.hist = (p.key, { tid := t, op := p.op, res := res, inv := p.inv, resp := s.now + 1 }) :: s.hist)) ∨
  (∃ pc', s'.threads[t]? = some { pc := pc', call := l.call } ∧ pc' ≠ .idle ∧ s'.hist = s.hist ∧
    wmu s' { pc := pc', call := l.call } < wmu s l)

theorem Progress.fin {s s1 : State} {t : Nat} {l : Local} {p : Pending} (hl : s.threads[t]? = some l)
    (hp : l.call = some p) (ht : s1.threads = s.threads) (hh : s1.hist = s.hist) (hn : s1.now = s.now + 1)
    (res : KRes) : Progress s t l (finish s1 t p res) := by
  left
  refine ⟨?_, Or.inr ⟨p, res, hp, ?_⟩⟩
  · show (s1.threads.set t _)[t]? = _
    rw [ht]; exact get_set_self hl
  · show (p.key, _) :: s1.hist = _
    rw [hh, hn]

theorem Progress.done {s s1 : State} {t : Nat} {l : Local} (hl : s.threads[t]? = some l)
    (hc : l.call = none) (ht : s1.threads = s.threads.set t { pc := .idle, call := l.call }) (hh : s1.hist = s.hist) :
    Progress s t l s1 := by
  left
  refine ⟨?_, Or.inl ⟨hc, hh⟩⟩
  rw [ht, hc]; exact get_set_self hl

theorem Progress.move {s s1 : State} {t : Nat} {l : Local} (hl : s.threads[t]? = some l)
    (pc' : Pc) (ht : s1.threads = s.threads.set t { pc := pc', call := l.call }) (hh : s1.hist = s.hist)
    (hne : pc' ≠ .idle) (hmu : wmu s1 { pc := pc', call := l.call } < wmu s l) : Progress s t l s1 := by
  right
  refine ⟨pc', ?_, hne, hh, hmu⟩
  rw [ht]; exact get_set_self hl

theorem fresh_new_lt_old (n : Nat) : fresh n .new < fresh n .old := by simp only [fresh]; omega

theorem lt_fresh {n k : Nat} (tab : Tab) (h : k ≤ 2 * n + 11) : k < fresh n tab := by
  cases tab <;> simp only [fresh] <;> omega

/-- the moves of a writer decrease the measure (`hp = s.heap` up to one lock word) -/
theorem Move.wmu_lt {s : State} {t : Nat} {p : Pending} {pc pc' : Pc} {hp : List NodeS}
    (hm : Move s t p pc pc' hp) (H : HInv s) (hnr : readerPc pc = false)
    (hb : PB s.heap.length ⟨pc, some p⟩) :
    pc' ≠ .idle ∧ hp.length = s.heap.length ∧
      ∀ s1 : State, s1.heap = hp → s1.tbins = s.tbins → s1.cell0 = s.cell0 → s1.lowCell = s.lowCell →
        s1.highCell = s.highCell → wmu s1 ⟨pc', some p⟩ < wmu s ⟨pc, some p⟩ := by
  have hcell : ∀ s1 : State, s1.cell0 = s.cell0 → s1.lowCell = s.lowCell → s1.highCell = s.highCell →
      ∀ tab k, cellOf s1 tab k = cellOf s tab k := by
    intro s1 h0 h1 h2 tab k
    unfold cellOf
    rw [h0, h1, h2]
  cases hm with
  | wTable =>
    refine ⟨(by intro e; cases e), rfl, ?_⟩
    intro s1 hh _ _ _ _
    show fresh s1.heap.length s.cur < 2 * s.heap.length + 14
    rw [hh]
    cases s.cur <;> simp only [fresh] <;> omega
  | @wCellMoved tab hc =>
    cases tab with
    | new => exact absurd hc (cellOf_new_not_moved H _)
    | old =>
      refine ⟨(by intro e; cases e), rfl, ?_⟩
      intro s1 hh _ _ _ _
      show fresh s1.heap.length .new < fresh s.heap.length .old
      rw [hh]; exact fresh_new_lt_old _
  | @wCellCas tab hc hi =>
    refine ⟨(by intro e; cases e), rfl, ?_⟩
    intro s1 hh _ h0 h1 h2
    show (if cellOf s1 tab p.key = .empty ∧ isInsert p.op = true then 1 else 1 + fresh s1.heap.length tab) <
      fresh s.heap.length tab
    rw [hcell s1 h0 h1 h2, if_pos ⟨hc, hi⟩]
    exact lt_fresh tab (by omega)
  | @wCellList tab h hc =>
    refine ⟨(by intro e; cases e), rfl, ?_⟩
    intro s1 hh _ h0 h1 h2
    show (if cellOf s1 tab p.key = .list h then 2 * s1.heap.length + 6 else 3 + fresh s1.heap.length tab) <
      fresh s.heap.length tab
    rw [hcell s1 h0 h1 h2, if_pos hc, hh]
    exact lt_fresh tab (by omega)
  | @wCellTree tab b hc =>
    refine ⟨(by intro e; cases e), rfl, ?_⟩
    intro s1 hh _ h0 h1 h2
    show (if cellOf s1 tab p.key = .tree b then 10 else 3 + fresh s1.heap.length tab) < fresh s.heap.length tab
    rw [hcell s1 h0 h1 h2, if_pos hc]
    exact lt_fresh tab (by omega)
  | @wCasFail tab hor =>
    refine ⟨(by intro e; cases e), rfl, ?_⟩
    intro s1 hh _ _ _ _
    show fresh s1.heap.length tab <
      (if cellOf s tab p.key = .empty ∧ isInsert p.op = true then 1 else 1 + fresh s.heap.length tab)
    rw [hh, if_neg]
    · omega
    · rintro ⟨h1, h2⟩
      rcases hor with h | h
      · exact h h1
      · rw [h] at h2; cases h2
  | @wLock tab h n hn hlk =>
    have hlen : (lockSet s.heap h (some t)).length = s.heap.length := by unfold lockSet; rw [List.length_modify]
    refine ⟨(by intro e; cases e), hlen, ?_⟩
    intro s1 hh _ h0 h1 h2
    show (if cellOf s1 tab p.key = .list h then 2 * s1.heap.length + 5 else 2 + fresh s1.heap.length tab) <
      (if cellOf s tab p.key = .list h then 2 * s.heap.length + 6 else 3 + fresh s.heap.length tab)
    rw [hcell s1 h0 h1 h2, hh, hlen]
    split <;> omega
  | @wCheckOk tab h hc =>
    refine ⟨(by intro e; cases e), rfl, ?_⟩
    intro s1 hh _ _ _ _
    show rank s1.heap h + 4 < (if cellOf s tab p.key = .list h then 2 * s.heap.length + 5 else 2 + fresh s.heap.length tab)
    rw [if_pos hc, hh]
    have := rank_le_two (cellOf_list_lt H hc)
    omega
  | @wCheckFail tab h hc =>
    refine ⟨(by intro e; cases e), rfl, ?_⟩
    intro s1 hh _ _ _ _
    show 1 + fresh s1.heap.length tab <
      (if cellOf s tab p.key = .list h then 2 * s.heap.length + 5 else 2 + fresh s.heap.length tab)
    rw [if_neg hc, hh]
    omega
  | wFindEnd =>
    refine ⟨(by intro e; cases e), rfl, ?_⟩
    intro s1 _ _ _ _ _
    show 2 < 3
    omega
  | @wFindHit tab h pred c n hn hk =>
    refine ⟨(by intro e; cases e), rfl, ?_⟩
    intro s1 _ _ _ _ _
    show 2 < rank s.heap c + 4
    omega
  | @wFindNext tab h pred c n hn hk =>
    refine ⟨(by intro e; cases e), rfl, ?_⟩
    intro s1 hh _ _ _ _
    cases hx : n.next with
    | none =>
      show 3 < rank s.heap c + 4
      omega
    | some j =>
      show rank s1.heap j + 4 < rank s.heap c + 4
      rw [hh]
      have := rank_lt H.nextOK hn hx
      omega
  | @wUnlockRetry tab h res =>
    have hlen : (lockSet s.heap h none).length = s.heap.length := by unfold lockSet; rw [List.length_modify]
    refine ⟨(by intro e; cases e), hlen, ?_⟩
    intro s1 hh _ _ _ _
    show fresh s1.heap.length tab < 1 + fresh s.heap.length tab
    rw [hh, hlen]; omega
  | @tCheckOk tab b hc =>
    refine ⟨(by intro e; cases e), rfl, ?_⟩
    intro s1 _ _ _ _ _
    show 8 < (if cellOf s tab p.key = .tree b then 9 else 2 + fresh s.heap.length tab)
    rw [if_pos hc]; omega
  | @tCheckFail tab b hc =>
    refine ⟨(by intro e; cases e), rfl, ?_⟩
    intro s1 hh _ _ _ _
    show 1 + fresh s1.heap.length tab < (if cellOf s tab p.key = .tree b then 9 else 2 + fresh s.heap.length tab)
    rw [if_neg hc, hh]; omega
  | findVal _ _ =>
    refine ⟨(by intro e; cases e), rfl, ?_⟩
    intro s1 _ _ _ _ _
    show 2 < 8
    omega
  | findInsert _ _ =>
    refine ⟨(by intro e; cases e), rfl, ?_⟩
    intro s1 _ _ _ _ _
    show 7 < 8
    omega
  | findRemove _ _ =>
    refine ⟨(by intro e; cases e), rfl, ?_⟩
    intro s1 _ _ _ _ _
    show 7 < 8
    omega
  | findDone _ =>
    refine ⟨(by intro e; cases e), rfl, ?_⟩
    intro s1 _ _ _ _ _
    show 1 < 8
    omega
  | @lrTryFail tab b k res =>
    refine ⟨(by intro e; cases e), rfl, ?_⟩
    intro s1 _ htb _ _ _
    show (if lrCond s1 b = true then 5 else 0) + (if (binAt s1.tbins b).waiter = true then 0 else 1) < 7
    split <;> split <;> omega
  | _ => cases hnr

/-- the moves of the treeify thread and of the resizing thread decrease the measure -/
theorem KMove.wmu_lt {s : State} {t : Nat} {pc pc' : Pc} {hp : List NodeS}
    (hm : KMove s t pc pc' hp) (H : HInv s) :
    hp.length = s.heap.length ∧
      ∀ s1 : State, s1.heap = hp → s1.cell0 = s.cell0 → (pc' = .idle ∨ wmu s1 ⟨pc', none⟩ < wmu s ⟨pc, none⟩) := by
  have hl1 : ∀ h x, (lockSet s.heap h x).length = s.heap.length := by
    intro h x; unfold lockSet; rw [List.length_modify]
  cases hm with
  | kTable =>
    refine ⟨rfl, fun s1 _ _ => Or.inr ?_⟩
    cases s.cur
    · show 7 < 8
      omega
    · show 6 < 8
      omega
  | @kCellList tab k h hc =>
    refine ⟨rfl, fun s1 _ _ => Or.inr ?_⟩
    cases tab
    · show 5 < 7
      omega
    · show 5 < 6
      omega
  | @kCellMoved tab k hc =>
    cases tab with
    | new => exact absurd hc (cellOf_new_not_moved H _)
    | old =>
      refine ⟨rfl, fun s1 _ _ => Or.inr ?_⟩
      show 6 < 7
      omega
  | kCellOther _ _ => exact ⟨rfl, fun s1 _ _ => Or.inl rfl⟩
  | kLock hn hlk =>
    refine ⟨hl1 _ _, fun s1 _ _ => Or.inr ?_⟩
    show 4 < 5
    omega
  | kCheckOk _ =>
    refine ⟨rfl, fun s1 _ _ => Or.inr ?_⟩
    show 3 < 4
    omega
  | kCheckFail _ =>
    refine ⟨rfl, fun s1 _ _ => Or.inr ?_⟩
    show 1 < 4
    omega
  | kUnlock => exact ⟨hl1 _ _, fun s1 _ _ => Or.inl rfl⟩
  | xCellEmpty h0 =>
    refine ⟨rfl, fun s1 _ hc0 => Or.inr ?_⟩
    show (if s1.cell0 = .empty then 2 else 11) < 10
    rw [hc0, if_pos h0]; omega
  | @xCellList h h0 =>
    refine ⟨rfl, fun s1 _ hc0 => Or.inr ?_⟩
    show (if s1.cell0 = .list h then 8 else 12) < 10
    rw [hc0, if_pos h0]; omega
  | @xCellTree b h0 =>
    refine ⟨rfl, fun s1 _ hc0 => Or.inr ?_⟩
    show (if s1.cell0 = .tree b then 8 else 12) < 10
    rw [hc0, if_pos h0]; omega
  | xCellMoved _ =>
    refine ⟨rfl, fun s1 _ _ => Or.inr ?_⟩
    show 1 < 10
    omega
  | xCasFail hne =>
    refine ⟨rfl, fun s1 _ _ => Or.inr ?_⟩
    show 10 < (if s.cell0 = .empty then 2 else 11)
    rw [if_neg hne]; omega
  | @xLock h n hn hlk =>
    refine ⟨hl1 _ _, fun s1 _ hc0 => Or.inr ?_⟩
    show (if s1.cell0 = .list h then 7 else 11) < (if s.cell0 = .list h then 8 else 12)
    rw [hc0]; split <;> omega
  | @xCheckOk h h0 =>
    refine ⟨rfl, fun s1 _ _ => Or.inr ?_⟩
    show 6 < (if s.cell0 = .list h then 7 else 11)
    rw [if_pos h0]; omega
  | @xCheckFail h hne =>
    refine ⟨hl1 _ _, fun s1 _ _ => Or.inr ?_⟩
    show 10 < (if s.cell0 = .list h then 7 else 11)
    rw [if_neg hne]; omega
  | @yCheckOk b h0 =>
    refine ⟨rfl, fun s1 _ _ => Or.inr ?_⟩
    show 6 < (if s.cell0 = .tree b then 7 else 11)
    rw [if_pos h0]; omega
  | xUnlockL =>
    refine ⟨hl1 _ _, fun s1 _ _ => Or.inr ?_⟩
    show 1 < 2
    omega

end Flurry.Proto.BinG
