import Flurry.Lemmas.ResizeThms
/-! # Proto/Resize: progress (target 8)

`mu s` is a natural-number measure – the sum over all threads of a potential `pot` that bounds the
number of steps the thread can still take inside the machinery – with

* `mu_decreases`: **every** step of a thread inside the machinery (`quiet l = false`: participant
  or finisher) strictly decreases `mu`. This includes failed CASes: the potential of a thread at
  `claimCas ni` / `leaveCas sc` is *staleness aware* (larger when the loaded value is out of date),
  and a successful step of another thread that makes a loaded value stale pays for it
  (`8 * Δ transferIndex` resp. `5 * Δ cnt`).
* `progress_possible`: from every reachable state there is a finite run of steps of non-idle
  threads that reaches `allIdle` (and then `quiescent_after` applies).

`stride ≥ 1` is needed (with `stride = 0` a claim does not lower `transfer_index`). -/
namespace Flurry.Proto.Resize

variable {n0 nthreads stride : Nat} {s s' : State} {t : Nat} {l l' : Local}

/-! ## sums over `List.set` -/

theorem sum_map_le_add {α} {f g : α → Nat} {k : Nat} {l : List α}
    (h : ∀ (u : Nat) (b : α), l[u]? = some b → g b ≤ f b + k) :
    (l.map g).sum ≤ (l.map f).sum + l.length * k := by
  induction l with
  | nil => simp
  | cons y l ih =>
    have h0 := h 0 y (by simp)
    have := ih (fun u b hu => h (u + 1) b (by simpa using hu))
    simp only [List.map_cons, List.sum_cons, List.length_cons, Nat.add_mul]
    omega

theorem sum_set_le {α} {f g : α → Nat} {k : Nat} {l : List α} {t : Nat} {a x : α}
    (hl : l[t]? = some a)
    (h : ∀ (u : Nat) (b : α), u ≠ t → l[u]? = some b → g b ≤ f b + k) :
    ((l.set t x).map g).sum + f a ≤ (l.map f).sum + g x + l.length * k := by
  induction l generalizing t with
  | nil => simp at hl
  | cons y l ih =>
    cases t with
    | zero =>
      simp at hl; subst hl
      have := sum_map_le_add (f := f) (g := g) (k := k) (l := l)
        (fun u b hu => h (u + 1) b (by omega) (by simpa using hu))
      simp only [List.set_cons_zero, List.map_cons, List.sum_cons, List.length_cons, Nat.add_mul]
      omega
    | succ t =>
      simp at hl
      have h0 := h 0 y (by omega) (by simp)
      have := ih hl (fun u b hu hb => h (u + 1) b (by omega) (by simpa using hb))
      simp only [List.set_cons_succ, List.map_cons, List.sum_cons, List.length_cons, Nat.add_mul]
      omega

/-! ## the measure -/

/-- cost bound of the finisher's sweep and publication -/
def FIN (n : Nat) : Nat := 3 * (n + 1) + 10
/-- cost bound from `leaveLoad` on -/
def LV (n : Nat) (sc : SC) : Nat := FIN n + 5 * cnt sc + 10
/-- cost bound of a participant at the top of the claim loop -/
def RR (n : Nat) (sc : SC) (ti : Int) : Nat := 8 * ti.toNat + LV n sc + 10
/-- bins left in the claimed stride -/
def qq (l : Local) : Nat := (l.i - l.bound).toNat
/-- `i` is outside the table: the "done" branch of `dispatch` -/
def outR (n : Nat) (l : Local) : Prop := l.i < 0 ∨ (n : Int) ≤ l.i

instance (n : Nat) (l : Local) : Decidable (outR n l) := by unfold outR; infer_instance

/-- potential of one thread; depends on the shared state only through `n`, `size_ctl`,
`transfer_index` and the number of threads -/
def pot (n : Nat) (sc : SC) (ti : Int) (len : Nat) (l : Local) : Nat :=
  match l.pc with
  | .idle | .casInit _ | .casJoin _ | .helpCheckNext | .helpCheckTable | .helpLoadSc
  | .helpLoadIndex _ | .acLoadTable _ | .acLoadNext _ | .acLoadIndex _ => 0
  | .swapNext => len * (8 * n + 5) + 8 * n + LV n sc + 21
  | .storeIndex => len * (8 * n + 5) + 8 * n + LV n sc + 20
  | .claimLoad =>
    if l.finishing then (if l.advance then 3 * (l.i + 1).toNat + 6 else 3 * (l.i + 1).toNat + 10)
    else (if l.advance then 3 * qq l + 4 + RR n sc ti else 3 * qq l + 7 + RR n sc ti)
  | .claimCas ni => if ti = ni then 3 + RR n sc ti else 3 * qq l + 8 + RR n sc ti
  | .dispatch =>
    if l.finishing then (if outR n l then 4 else 3 * (l.i + 1).toNat + 8)
    else (if outR n l then LV n sc + 3 else 3 * qq l + 6 + RR n sc ti)
  | .processBin =>
    if l.finishing then 3 * (l.i + 1).toNat + 7 else 3 * qq l + 5 + RR n sc ti
  | .leaveLoad => LV n sc + 2
  | .leaveCas sc' => if sc = sc' then LV n sc + 1 else LV n sc + 6
  | .pubClearNext => 3
  | .pubSwapTable => 2
  | .pubStoreCtl => 1

def potS (s : State) (l : Local) : Nat := pot s.n s.sizeCtl s.transferIndex s.threads.length l

def mu (s : State) : Nat := (s.threads.map (potS s)).sum

theorem pot_quiet {n : Nat} {sc : SC} {ti : Int} {len : Nat} {l : Local} (h : quiet l = true) :
    pot n sc ti len l = 0 := by
  unfold quiet at h; unfold pot
  split <;> simp_all

/-- master lemma: thread `t` moves from `l` to `l'`, every other potential grows by at most `k` -/
theorem mu_lt (hl : s.threads[t]? = some l) (hth : s'.threads = s.threads.set t l') (k : Nat)
    (hoth : ∀ (u : Nat) (lu : Local), u ≠ t → s.threads[u]? = some lu → potS s' lu ≤ potS s lu + k)
    (hself : potS s' l' + s.threads.length * k < potS s l) : mu s' < mu s := by
  have := sum_set_le (f := potS s) (g := potS s') (k := k) (x := l') hl hoth
  simp only [mu, hth]
  omega


/-! ## how the potential of the *other* threads reacts to a change of the shared state -/

macro "pot_arith" : tactic =>
  `(tactic| ((repeat' split) <;> (try simp only [outR] at *) <;> omega))

/-- a successful claim lowers `transfer_index`: nobody's potential grows -/
theorem pot_ti_mono {n : Nat} {sc : SC} {ni nb : Int} {len : Nat} {lu : Local}
    (hq : ∀ ni', lu.pc = .claimCas ni' → lu.i < lu.bound) (h0 : 0 ≤ nb) (h1 : nb < ni) :
    pot n sc nb len lu ≤ pot n sc ni len lu := by
  cases hpc : lu.pc <;> simp only [pot, hpc, RR, qq] <;> try pot_arith
  rename_i ni'
  have := hq ni' hpc
  pot_arith

/-- a successful leave lowers the count: nobody's potential grows -/
theorem pot_sc_mono {n g c : Nat} {ti : Int} {len : Nat} {lu : Local} (hc : 1 ≤ c) :
    pot n (.resizing g (c - 1)) ti len lu ≤ pot n (.resizing g c) ti len lu := by
  cases hpc : lu.pc <;> simp only [pot, hpc, RR, LV, cnt] <;> pot_arith

/-- `transfer_index.store(n)`: every other potential grows by at most `8 n + 5` -/
theorem pot_store {n : Nat} {sc : SC} {ti : Int} {len : Nat} {lu : Local}
    (hq : ∀ ni', lu.pc = .claimCas ni' → lu.i < lu.bound) :
    pot n sc (n : Int) len lu ≤ pot n sc ti len lu + (8 * n + 5) := by
  cases hpc : lu.pc <;> simp only [pot, hpc, RR, qq] <;> try pot_arith
  rename_i ni'
  have := hq ni' hpc
  pot_arith


/-! ## every step of a thread inside the machinery decreases `mu` -/

/-- number of steps a thread on its way into the machinery (at the initiation CAS, or somewhere on
one of the two join paths up to and including the join CAS) needs at most to get in or give up -/
def epot (l : Local) : Nat :=
  match l.pc with
  | .casInit _ | .casJoin _ => 1
  | .helpLoadIndex _ | .acLoadIndex _ => 2
  | .helpLoadSc | .acLoadNext _ => 3
  | .helpCheckTable | .acLoadTable _ => 4
  | .helpCheckNext => 5
  | _ => 0

/-- thread is on its way in: at one of the two entry CASes or on a join path -/
def isEntry (l : Local) : Bool := epot l != 0

/-- conclusion of the per-pc lemmas: `mu` decreases and `t` did not move to an entry CAS -/
def Decr (s s' : State) (t : Nat) : Prop :=
  mu s' < mu s ∧ ∃ l', s'.threads = s.threads.set t l' ∧ isEntry l' = false

macro "pot_fin" : tactic =>
  `(tactic| ((try simp only [RR, LV, FIN, qq, outR, Nat.mul_zero, Nat.add_zero, Bool.false_eq_true,
      if_false, if_true] at *) <;> grind))

macro "pot_others" : tactic =>
  `(tactic| (intro u lu _ _; simp [potS, setT]))

theorem mu_claimLoad {c : Nat} (h : Inv n0 nthreads stride s)
    (hl : s.threads[t]? = some l) (hpc : l.pc = .claimLoad)
    (hs : step s t c = some s') : Decr s s' t := by
  have hL := h.locals t l hl
  simp only [LocalOk, hpc] at hL
  simp only [step, hl, hpc] at hs
  split at hs
  · injection hs with hs; subst hs
    rename_i h1; try simp at h1
    refine ⟨mu_lt hl rfl 0 (by pot_others) ?_, _, rfl, rfl⟩
    simp only [potS, setT, pot, hpc, h1]
    pot_fin
  · rename_i h1; try simp at h1
    split at hs
    · injection hs with hs; subst hs
      rename_i h2; try simp at h2
      refine ⟨mu_lt hl rfl 0 (by pot_others) ?_, _, rfl, rfl⟩
      simp only [potS, setT, pot, hpc, h1]
      pot_fin
    · rename_i h2
      split at hs
      · injection hs with hs; subst hs
        rename_i h3; try simp at h3
        refine ⟨mu_lt hl rfl 0 (by pot_others) ?_, _, rfl, rfl⟩
        simp only [potS, setT, pot, hpc, h1]
        pot_fin
      · injection hs with hs; subst hs
        rename_i h3; try simp at h3
        refine ⟨mu_lt hl rfl 0 (by pot_others) ?_, _, rfl, rfl⟩
        simp only [potS, setT, pot, hpc, h1]
        pot_fin


theorem mu_swapNext {c : Nat} (_h : Inv n0 nthreads stride s)
    (hl : s.threads[t]? = some l) (hpc : l.pc = .swapNext)
    (hs : step s t c = some s') : Decr s s' t := by
  simp only [step, hl, hpc] at hs
  injection hs with hs; subst hs
  refine ⟨mu_lt hl rfl 0 (by pot_others) ?_, _, rfl, rfl⟩
  simp only [potS, setT, pot, hpc, List.length_set]
  pot_fin

theorem mu_storeIndex {c : Nat} (h : Inv n0 nthreads stride s)
    (hl : s.threads[t]? = some l) (hpc : l.pc = .storeIndex)
    (hs : step s t c = some s') : Decr s s' t := by
  simp only [step, hl, hpc] at hs
  injection hs with hs; subst hs
  refine ⟨mu_lt hl rfl (8 * s.n + 5) ?_ ?_, _, rfl, rfl⟩
  · intro u lu _ hu
    have hLu := h.locals u lu hu
    simp only [potS, setT, List.length_set]
    apply pot_store
    intro ni' hp; simp only [LocalOk, hp] at hLu; exact hLu.2.1
  · simp only [potS, setT, pot, hpc]
    pot_fin

theorem mu_claimCas {ni : Int} {c : Nat} (h : Inv n0 nthreads stride s) (hst : 1 ≤ stride)
    (hl : s.threads[t]? = some l) (hpc : l.pc = .claimCas ni)
    (hs : step s t c = some s') : Decr s s' t := by
  have hL := h.locals t l hl
  simp only [LocalOk, hpc] at hL
  have hstr := h.stride_eq
  simp only [step, hl, hpc] at hs
  split at hs
  · injection hs with hs; subst hs
    rename_i h1; simp at h1
    have hnb0 : (0 : Int) ≤ (if ni > (s.stride : Int) then ni - s.stride else 0) := by split <;> omega
    have hnb1 : (if ni > (s.stride : Int) then ni - s.stride else 0) < ni := by split <;> omega
    refine ⟨mu_lt hl rfl 0 ?_ ?_, _, rfl, rfl⟩
    · intro u lu _ hu
      have hLu := h.locals u lu hu
      simp only [potS, setT, List.length_set, h1, Nat.add_zero]
      apply pot_ti_mono _ hnb0 hnb1
      intro ni' hp; simp only [LocalOk, hp] at hLu; exact hLu.2.1
    · simp only [potS, setT, pot, hpc, h1]
      pot_fin
  · injection hs with hs; subst hs
    rename_i h1; simp at h1
    refine ⟨mu_lt hl rfl 0 (by pot_others) ?_, _, rfl, rfl⟩
    simp only [potS, setT, pot, hpc, h1]
    pot_fin

theorem mu_dispatch {c : Nat} (_h : Inv n0 nthreads stride s)
    (hl : s.threads[t]? = some l) (hpc : l.pc = .dispatch)
    (hs : step s t c = some s') : Decr s s' t := by
  simp only [step, hl, hpc] at hs
  split at hs
  · rename_i h1; try simp at h1
    split at hs
    · injection hs with hs; subst hs
      rename_i h2; try simp at h2
      refine ⟨mu_lt hl rfl 0 (by pot_others) ?_, _, rfl, rfl⟩
      simp only [potS, pot, hpc, h2]
      pot_fin
    · injection hs with hs; subst hs
      rename_i h2; try simp at h2
      refine ⟨mu_lt hl rfl 0 (by pot_others) ?_, _, rfl, rfl⟩
      simp only [potS, setT, pot, hpc, h2]
      pot_fin
  · injection hs with hs; subst hs
    rename_i h1; try simp at h1
    refine ⟨mu_lt hl rfl 0 (by pot_others) ?_, _, rfl, rfl⟩
    simp only [potS, setT, pot, hpc]
    pot_fin

theorem mu_processBin {c : Nat} (_h : Inv n0 nthreads stride s)
    (hl : s.threads[t]? = some l) (hpc : l.pc = .processBin)
    (hs : step s t c = some s') : Decr s s' t := by
  simp only [step, hl, hpc] at hs
  split at hs
  · injection hs with hs; subst hs
    refine ⟨mu_lt hl rfl 0 (by pot_others) ?_, _, rfl, rfl⟩
    simp only [potS, setT, pot, hpc]
    pot_fin
  · injection hs with hs; subst hs
    refine ⟨mu_lt hl rfl 0 (by pot_others) ?_, _, rfl, rfl⟩
    simp only [potS, setT, pot, hpc]
    pot_fin

theorem mu_leaveLoad {c : Nat} (_h : Inv n0 nthreads stride s)
    (hl : s.threads[t]? = some l) (hpc : l.pc = .leaveLoad)
    (hs : step s t c = some s') : Decr s s' t := by
  simp only [step, hl, hpc] at hs
  injection hs with hs; subst hs
  refine ⟨mu_lt hl rfl 0 (by pot_others) ?_, _, rfl, rfl⟩
  simp only [potS, setT, pot, hpc]
  pot_fin

theorem mu_leaveCas {sc : SC} {c : Nat} (h : Inv n0 nthreads stride s)
    (hl : s.threads[t]? = some l) (hpc : l.pc = .leaveCas sc)
    (hs : step s t c = some s') : Decr s s' t := by
  have hL := h.locals t l hl
  simp only [LocalOk, hpc] at hL
  have hp : participating l = true := by simp [participating, hpc, hL]
  obtain ⟨k, hsc, hk, hk2, hF, hS⟩ := h.part_facts hl hp
  simp only [step, hl, hpc] at hs
  split at hs
  · have : sc = .resizing s.gen k := by simp_all
    subst this
    simp only at hs
    split at hs
    · injection hs with hs; subst hs
      rename_i h1 h2; simp at h2; subst h2
      refine ⟨mu_lt hl rfl 0 ?_ ?_, _, rfl, rfl⟩
      · intro u lu _ hu
        simp only [potS, setT, List.length_set, hsc, Nat.add_zero]
        exact pot_sc_mono (by omega)
      · simp only [potS, setT, pot, hpc, hsc]
        pot_fin
    · injection hs with hs; subst hs
      refine ⟨mu_lt hl rfl 0 ?_ ?_, _, rfl, rfl⟩
      · intro u lu _ hu
        simp only [potS, setT, List.length_set, hsc, Nat.add_zero]
        exact pot_sc_mono (by omega)
      · simp only [potS, pot, hpc, hsc]
        pot_fin
  · injection hs with hs; subst hs
    rename_i h1; simp at h1
    refine ⟨mu_lt hl rfl 0 (by pot_others) ?_, _, rfl, rfl⟩
    simp only [potS, setT, pot, hpc, h1]
    pot_fin

theorem mu_pubClearNext {c : Nat} (_h : Inv n0 nthreads stride s)
    (hl : s.threads[t]? = some l) (hpc : l.pc = .pubClearNext)
    (hs : step s t c = some s') : Decr s s' t := by
  simp only [step, hl, hpc] at hs
  injection hs with hs; subst hs
  refine ⟨mu_lt hl rfl 0 (by pot_others) ?_, _, rfl, rfl⟩
  simp only [potS, pot, hpc]
  pot_fin

theorem mu_pubSwapTable {c : Nat} (h : Inv n0 nthreads stride s)
    (hl : s.threads[t]? = some l) (hpc : l.pc = .pubSwapTable)
    (hs : step s t c = some s') : Decr s s' t := by
  have hp : isFinisher l = true := by simp [isFinisher, hpc]
  simp only [step, hl, hpc] at hs
  injection hs with hs; subst hs
  refine ⟨mu_lt hl rfl 0 ?_ ?_, _, rfl, rfl⟩
  · intro u lu hne hu
    have hq := h.others_quiet hl hp hne hu
    simp [potS, pot_quiet hq]
  · simp only [potS, pot, hpc]
    pot_fin

theorem mu_pubStoreCtl {c : Nat} (h : Inv n0 nthreads stride s)
    (hl : s.threads[t]? = some l) (hpc : l.pc = .pubStoreCtl)
    (hs : step s t c = some s') : Decr s s' t := by
  have hp : isFinisher l = true := by simp [isFinisher, hpc]
  simp only [step, hl, hpc] at hs
  injection hs with hs; subst hs
  refine ⟨mu_lt hl rfl 0 ?_ ?_, _, rfl, rfl⟩
  · intro u lu hne hu
    have hq := h.others_quiet hl hp hne hu
    simp [potS, pot_quiet hq]
  · simp only [potS, pot, hpc]
    pot_fin


/-- **the measure theorem**: every step of a thread inside the machinery (participant or finisher;
successful or failed CAS alike) strictly decreases `mu` -/
theorem mu_decreases_inv {c : Nat} (h : Inv n0 nthreads stride s) (hst : 1 ≤ stride)
    (hl : s.threads[t]? = some l) (hact : quiet l = false)
    (hs : step s t c = some s') : Decr s s' t := by
  cases hpc : l.pc with
  | idle => simp [quiet, hpc] at hact
  | casInit sc => simp [quiet, hpc] at hact
  | casJoin sc => simp [quiet, hpc] at hact
  | helpCheckNext => simp [quiet, hpc] at hact
  | helpCheckTable => simp [quiet, hpc] at hact
  | helpLoadSc => simp [quiet, hpc] at hact
  | helpLoadIndex sc => simp [quiet, hpc] at hact
  | acLoadTable sc => simp [quiet, hpc] at hact
  | acLoadNext sc => simp [quiet, hpc] at hact
  | acLoadIndex sc => simp [quiet, hpc] at hact
  | swapNext => exact mu_swapNext h hl hpc hs
  | storeIndex => exact mu_storeIndex h hl hpc hs
  | claimLoad => exact mu_claimLoad h hl hpc hs
  | claimCas ni => exact mu_claimCas h hst hl hpc hs
  | dispatch => exact mu_dispatch h hl hpc hs
  | processBin => exact mu_processBin h hl hpc hs
  | leaveLoad => exact mu_leaveLoad h hl hpc hs
  | leaveCas sc => exact mu_leaveCas h hl hpc hs
  | pubClearNext => exact mu_pubClearNext h hl hpc hs
  | pubSwapTable => exact mu_pubSwapTable h hl hpc hs
  | pubStoreCtl => exact mu_pubStoreCtl h hl hpc hs

theorem mu_decreases {n nthreads stride : Nat} {c : Nat} (hr : Reachable n nthreads stride s)
    (hst : 1 ≤ stride) (hl : s.threads[t]? = some l) (hact : quiet l = false)
    (hs : step s t c = some s') : mu s' < mu s :=
  (mu_decreases_inv hr.inv hst hl hact hs).1

/-! ## existence of a terminating run -/

/-- a run in which only non-idle threads take steps (no new initiation, no new helper) -/
inductive BusyRun : State → List (Nat × Nat) → State → Prop
  | nil (s : State) : BusyRun s [] s
  | cons {s s' s'' : State} {t c : Nat} {l : Local} {r : List (Nat × Nat)} :
      s.threads[t]? = some l → l.pc ≠ .idle → step s t c = some s' → BusyRun s' r s'' →
      BusyRun s ((t, c) :: r) s''

theorem BusyRun.run_eq {r : List (Nat × Nat)} {s s' : State} (h : BusyRun s r s') :
    run s r = some s' := by
  induction h with
  | nil => rfl
  | cons _ _ hs _ ih => simp [run, hs, ih]

theorem BusyRun.append {r1 r2 : List (Nat × Nat)} {s1 s2 s3 : State} (h1 : BusyRun s1 r1 s2)
    (h2 : BusyRun s2 r2 s3) : BusyRun s1 (r1 ++ r2) s3 := by
  induction h1 with
  | nil => simpa using h2
  | cons a b c' _ ih => exact BusyRun.cons a b c' (ih h2)

theorem step_isSome (hl : s.threads[t]? = some l) (c : Nat) : ∃ s', step s t c = some s' := by
  cases hpc : l.pc <;> simp only [step, hl, hpc] <;> (repeat' split) <;> exact ⟨_, rfl⟩

/-- steps the threads on their way in still need -/
def E (s : State) : Nat := (s.threads.map epot).sum

theorem sum_map_set {α} {f : α → Nat} {l : List α} {t : Nat} {a x : α} (hl : l[t]? = some a) :
    ((l.set t x).map f).sum + f a = (l.map f).sum + f x := by
  induction l generalizing t with
  | nil => simp at hl
  | cons y l ih =>
    cases t with
    | zero => simp at hl; subst hl; simp; omega
    | succ t =>
      simp at hl
      have := ih hl
      simp only [List.set_cons_succ, List.map_cons, List.sum_cons]; omega

theorem E_eq_zero_iff : E s = 0 ↔ ∀ l ∈ s.threads, isEntry l = false := by
  simp only [E, isEntry]
  induction s.threads with
  | nil => simp
  | cons y l ih => simp [Nat.add_eq_zero_iff, ih]

/-- a step of a thread on its way in brings it closer to the machinery (or back to `idle`) -/
theorem step_entry {c : Nat} (hl : s.threads[t]? = some l) (he : isEntry l = true)
    (hs : step s t c = some s') : ∃ l', s'.threads = s.threads.set t l' ∧ epot l' < epot l := by
  cases hpc : l.pc <;> simp [isEntry, epot, hpc] at he
  all_goals
    simp only [step, hl, hpc] at hs
    (repeat' split at hs) <;>
      (injection hs with hs; subst hs; exact ⟨_, rfl, by simp [epot, hpc]⟩)

theorem E_of_step {l'} (hl : s.threads[t]? = some l) (hth : s'.threads = s.threads.set t l') :
    E s' + epot l = E s + epot l' := by
  have := sum_map_set (f := epot) (x := l') hl
  simp only [E, hth]; omega

/-- phase 1: let every thread that is on its way in go all the way (in, or back to `idle`) -/
theorem drain_entries {n nthreads stride : Nat} (hr : Reachable n nthreads stride s) :
    ∃ r s1, BusyRun s r s1 ∧ Reachable n nthreads stride s1 ∧ E s1 = 0 := by
  generalize hk : E s = k
  induction k using Nat.strongRecOn generalizing s with
  | _ k ih =>
    by_cases h0 : E s = 0
    · exact ⟨[], s, BusyRun.nil s, hr, h0⟩
    · have : ¬ ∀ l ∈ s.threads, isEntry l = false := fun h => h0 (E_eq_zero_iff.mpr h)
      simp only [Classical.not_forall] at this
      obtain ⟨l, hmem, he⟩ := this
      have he : isEntry l = true := by simpa using he
      obtain ⟨t, hl⟩ := List.mem_iff_getElem?.mp hmem
      obtain ⟨s', hs⟩ := step_isSome hl 0
      obtain ⟨l', hth, he'⟩ := step_entry hl he hs
      have hE := E_of_step hl hth
      obtain ⟨r, s1, hrun, hr1, h0⟩ := ih (E s') (by omega) (Reachable.step t 0 hr hs) rfl
      have hne : l.pc ≠ .idle := by intro h; simp [isEntry, epot, h] at he
      exact ⟨_, s1, BusyRun.cons hl hne hs hrun, hr1, h0⟩

/-- phase 2: run the threads inside the machinery until none is left -/
theorem drain_active {n nthreads stride : Nat} (hst : 1 ≤ stride)
    (hr : Reachable n nthreads stride s) (hE : E s = 0) :
    ∃ r s2, BusyRun s r s2 ∧ Reachable n nthreads stride s2 ∧ allIdle s2 := by
  generalize hk : mu s = k
  induction k using Nat.strongRecOn generalizing s with
  | _ k ih =>
    rcases Nat.eq_zero_or_pos (s.threads.countP (fun l => !quiet l)) with h0 | hpos
    · refine ⟨[], s, BusyRun.nil s, hr, ?_⟩
      intro l hmem
      have hq : quiet l = true := by
        have := List.countP_eq_zero.mp h0 l hmem; simpa using this
      have he : isEntry l = false := E_eq_zero_iff.mp hE l hmem
      unfold quiet at hq; unfold isEntry epot at he
      cases hpc : l.pc <;> simp_all
    · obtain ⟨l, hmem, hact⟩ := List.countP_pos_iff.mp hpos
      have hact : quiet l = false := by simpa using hact
      obtain ⟨t, hl⟩ := List.mem_iff_getElem?.mp hmem
      obtain ⟨s', hs⟩ := step_isSome hl 0
      obtain ⟨hlt, l', hth, he'⟩ := mu_decreases_inv hr.inv hst hl hact hs
      have hE' := E_of_step hl hth
      have he0 : epot l = 0 := by
        have := E_eq_zero_iff.mp hE l hmem; simpa [isEntry] using this
      have he1 : epot l' = 0 := by simpa [isEntry] using he'
      have hr' := Reachable.step t 0 hr hs
      obtain ⟨r, s2, hrun, hr2, hidle⟩ := ih (mu s') (by omega) hr' (by omega) rfl
      have hne : l.pc ≠ .idle := by intro h; simp [quiet, h] at hact
      exact ⟨_, s2, BusyRun.cons hl hne hs hrun, hr2, hidle⟩

/-- **progress**: from every reachable state (in particular from every state whose word is
`resizing`) there is a finite run in which only non-idle threads take steps – so nobody newly
initiates or starts to help – that ends with all threads idle; the map is then not resizing and
carries the threshold of the final table length -/
theorem progress_possible {n nthreads stride : Nat} (hst : 1 ≤ stride)
    (hr : Reachable n nthreads stride s) :
    ∃ r s', BusyRun s r s' ∧ run s r = some s' ∧ Reachable n nthreads stride s' ∧ allIdle s' ∧
      s'.sizeCtl = .idle (threshold s'.n) ∧ s'.nextTable = false := by
  obtain ⟨r1, s1, hrun1, hr1, hE⟩ := drain_entries hr
  obtain ⟨r2, s2, hrun2, hr2, hidle⟩ := drain_active hst hr1 hE
  have hrun := hrun1.append hrun2
  exact ⟨_, s2, hrun, hrun.run_eq, hr2, hidle, quiescent_after hr2 hidle⟩

end Flurry.Proto.Resize
