import Flurry.LinMap
/-! # Index orders versus lists of calls (generic)

`Lin.Linearizable` and `LinMap.MapLinearizable` speak about an order of *indices* into the history.
For the locality proof it is more convenient to speak about a *permutation of the list of calls*
itself. This file proves, once and for all (generic in the type of calls `α`, the state `σ`, the
step function and the real-time relation), that the two formulations are equivalent
(`glinI_iff_glinL`). -/
namespace Flurry.LinGen

variable {α β σ : Type}

/-- run a list of calls through a partial step function -/
def runL (step : σ → α → Option σ) : List α → σ → Option σ
  | [], s => some s
  | a :: l, s => (step s a).bind (runL step l)

/-- run the calls `order` (indices into `h`) through a partial step function -/
def runI (step : σ → α → Option σ) (h : List α) : List Nat → σ → Option σ
  | [], s => some s
  | i :: rest, s =>
    match h[i]? with
    | none => none
    | some a => (step s a).bind (runI step h rest)

/-- linearizability, index form (the shape of `Linearizable` / `MapLinearizable`) -/
def GLinI (step : σ → α → Option σ) (rt : α → α → Prop) (h : List α) (init : σ) (Q : σ → Prop) : Prop :=
  ∃ order : List Nat,
    order.Perm (List.range h.length) ∧
    (∀ (p q : Nat) (a b : α), p < q → order[p]? >>= (h[·]?) = some a → order[q]? >>= (h[·]?) = some b →
        rt a b) ∧
    ∃ m, runI step h order init = some m ∧ Q m

/-- linearizability, list form: a permutation of the calls themselves -/
def GLinL (step : σ → α → Option σ) (rt : α → α → Prop) (h : List α) (init : σ) (Q : σ → Prop) : Prop :=
  ∃ l : List α, l.Perm h ∧ l.Pairwise rt ∧ ∃ m, runL step l init = some m ∧ Q m

/-- a permutation of the image of a list is the image of a permutation -/
theorem exists_perm_map (f : α → β) : ∀ (l : List β) (L : List α), l.Perm (L.map f) →
    ∃ L' : List α, L'.Perm L ∧ L'.map f = l
  | [], L, hp => by
    have h1 : L.map f = [] := List.Perm.eq_nil hp.symm
    have h2 : L = [] := by simpa using h1
    subst h2
    exact ⟨[], List.Perm.refl _, rfl⟩
  | b :: l, L, hp => by
    have hb : b ∈ L.map f := hp.subset List.mem_cons_self
    obtain ⟨x, hx, rfl⟩ := List.mem_map.1 hb
    obtain ⟨s, t, rfl⟩ := List.append_of_mem hx
    have h1 : (s ++ x :: t).Perm (x :: (s ++ t)) := List.perm_middle
    have h2 : (f x :: l).Perm (f x :: (s ++ t).map f) := hp.trans (h1.map f)
    obtain ⟨L'', hL, hm⟩ := exists_perm_map f l (s ++ t) (List.Perm.cons_inv h2)
    exact ⟨x :: L'', (List.Perm.cons x hL).trans h1.symm, by simp [hm]⟩

theorem range_map_getElem? (h : List α) : (List.range h.length).map (h[·]?) = h.map some := by
  apply List.ext_getElem?
  intro i
  by_cases hi : i < h.length
  · simp [hi]
  · simp [hi]

/-- an index order and a list of calls that describe the same sequence -/
theorem runI_eq_runL (step : σ → α → Option σ) (h : List α) : ∀ (order : List Nat) (l : List α) (s : σ),
    order.map (h[·]?) = l.map some → runI step h order s = runL step l s
  | [], l, s, he => by
    have : l = [] := by simpa using he.symm
    subst this; rfl
  | i :: rest, [], s, he => by simp at he
  | i :: rest, a :: l, s, he => by
    simp only [List.map_cons, List.cons.injEq] at he
    simp only [runI, he.1, runL]
    cases step s a with
    | none => rfl
    | some s' => exact runI_eq_runL step h rest l s' he.2

theorem bind_getElem?_eq (h : List α) (order : List Nat) (l : List α)
    (he : order.map (h[·]?) = l.map some) (p : Nat) : (order[p]? >>= (h[·]?)) = l[p]? := by
  have h1 : (order.map (h[·]?))[p]? = (l.map some)[p]? := by rw [he]
  simp only [List.getElem?_map] at h1
  cases ho : order[p]? with
  | none =>
    rw [ho] at h1
    cases hl : l[p]? with
    | none => rfl
    | some a => rw [hl] at h1; simp at h1
  | some i =>
    rw [ho] at h1
    cases hl : l[p]? with
    | none => rw [hl] at h1; simp at h1
    | some a =>
      rw [hl] at h1
      simpa using h1

theorem indexed_iff_pairwise (rt : α → α → Prop) (h : List α) (order : List Nat) (l : List α)
    (he : order.map (h[·]?) = l.map some) :
    (∀ (p q : Nat) (a b : α), p < q → order[p]? >>= (h[·]?) = some a → order[q]? >>= (h[·]?) = some b →
        rt a b) ↔ l.Pairwise rt := by
  simp only [bind_getElem?_eq h order l he]
  rw [List.pairwise_iff_getElem]
  constructor
  · intro hi p q hp hq hpq
    exact hi p q _ _ hpq (List.getElem?_eq_getElem hp) (List.getElem?_eq_getElem hq)
  · intro hpw p q a b hpq ha hb
    obtain ⟨hp, rfl⟩ := List.getElem?_eq_some_iff.1 ha
    obtain ⟨hq, rfl⟩ := List.getElem?_eq_some_iff.1 hb
    exact hpw p q hp hq hpq

/-- the two formulations of linearizability agree -/
theorem glinI_iff_glinL (step : σ → α → Option σ) (rt : α → α → Prop) (h : List α) (init : σ)
    (Q : σ → Prop) : GLinI step rt h init Q ↔ GLinL step rt h init Q := by
  constructor
  · rintro ⟨order, hperm, hrt, m, hrun, hQ⟩
    have h1 : (order.map (h[·]?)).Perm (h.map some) := by
      rw [← range_map_getElem?]; exact hperm.map _
    obtain ⟨l, hl, he⟩ := exists_perm_map some _ h h1
    refine ⟨l, hl, (indexed_iff_pairwise rt h order l he.symm).1 hrt, m, ?_, hQ⟩
    rw [← runI_eq_runL step h order l init he.symm]; exact hrun
  · rintro ⟨l, hl, hpw, m, hrun, hQ⟩
    have h1 : (l.map some).Perm ((List.range h.length).map (h[·]?)) := by
      rw [range_map_getElem?]; exact hl.map _
    obtain ⟨order, ho, he⟩ := exists_perm_map (h[·]?) _ _ h1
    refine ⟨order, ho, (indexed_iff_pairwise rt h order l he).2 hpw, m, ?_, hQ⟩
    rw [runI_eq_runL step h order l init he]; exact hrun

end Flurry.LinGen
