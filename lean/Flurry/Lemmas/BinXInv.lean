import Flurry.Lemmas.BinXThreads
/-! # Proto/BinX: the structural invariant holds in every reachable state (C01, C10)

`stepK_inv`: every transition preserves `Inv` (with the ghost state updated by `tBuild`, by the store
of the forwarding marker and by the empty-bin CAS); `reachable_inv`. Consequences: mutual exclusion
of the validated lock holders (`validated_mutex`), exactly-one-resize facts (`resize_facts`). -/
namespace Flurry.Proto.BinX
open Flurry.Lin

/-! ## facts about the pure moves -/

theorem Move.holds {s : State} {p : Pending} {pc pc' : Pc} (hm : Move s p pc pc') {h : Nat}
    (hh : Holds pc' h) : Holds pc h := by
  cases hm <;> first | exact hh | exact False.elim hh

theorem Move.isOp {s : State} {p : Pending} {pc pc' : Pc} (hm : Move s p pc pc') :
    isOp pc' ∧ isOp pc ∧ ¬ isT pc ∧ ¬ isT pc' := by
  cases hm <;> exact ⟨trivial, trivial, id, id⟩

theorem Move.pcOp {s : State} {p : Pending} {pc pc' : Pc} (hm : Move s p pc pc') {op : KOp}
    (hp : PcOp pc op) : PcOp pc' op := by
  cases hm <;> exact hp

theorem TMove.isT {s : State} {pc pc' : Pc} (hm : TMove s pc pc') : isT pc ∧ isT pc' ∧ ¬ isOp pc ∧ ¬ isOp pc' := by
  cases hm <;> exact ⟨trivial, trivial, id, id⟩

theorem Move.pcPh {s : State} {g : Ghost} (H : HInv s g) {p : Pending} {pc pc' : Pc} (hm : Move s p pc pc')
    (hp : PcPh s g pc) : PcPh s g pc' := by
  cases hm with
  | rTable =>
    intro ht
    simp only [tabOf, Option.some.injEq] at ht
    exact H.curNew ht
  | wTable =>
    intro ht
    simp only [tabOf, Option.some.injEq] at ht
    exact H.curNew ht
  | @rCellMoved tab hc =>
    intro _
    cases tab with
    | old => exact H.post_of_moved hc
    | new => exact hp rfl
  | @wCellMoved tab hc =>
    intro _
    cases tab with
    | old => exact H.post_of_moved hc
    | new => exact hp rfl
  | rCellNode _ => intro ht; cases ht
  | rNext _ _ => intro ht; cases ht
  | wCellEmpty _ _ => exact hp
  | wCellNode _ => exact hp
  | casFail => exact hp
  | checkOk _ => exact hp
  | checkFail _ => exact hp
  | findEnd => exact hp
  | findHit _ _ => exact hp
  | findNext _ _ => exact hp

theorem Walk.start {heap : List NodeS} {h : Nat} {l : List Nat} (key : Nat) :
    Walk heap (h :: l) key none (some h) :=
  ⟨[], h :: l, rfl, rfl, rfl, fun j hj => by cases hj⟩

theorem Walk.next {heap : List NodeS} {C : List Nat} {key : Nat} {pred : Option Nat} {c : Nat} {n : NodeS}
    {st : Option Nat} (hC : IsChain heap st C)
    (w : Walk heap C key pred (some c)) (hn : heap[c]? = some n) (hk : n.key ≠ key) :
    Walk heap C key (some c) n.next := by
  obtain ⟨l1, l2, hch, hpred, hkeys⟩ := w.hit_some
  rw [hch] at hC
  obtain ⟨b, -, h2⟩ := hC.split
  obtain ⟨-, n', hn', hs⟩ := IsSeg.cons_iff.1 h2
  rw [hn] at hn'; cases hn'
  refine ⟨l1 ++ [c], l2, by rw [hch]; simp, ?_, by simp, ?_⟩
  · cases l2 with
    | nil => exact IsSeg.nil_iff.1 hs
    | cons d l3 => exact (IsSeg.cons_iff.1 hs).1
  · intro j hj
    rcases List.mem_append.1 hj with hj | hj
    · exact hkeys j hj
    · have : j = c := by simpa using hj
      subst this
      rw [nodeAt_of_some hn]; exact hk

theorem Move.walk {s : State} {g : Ghost} (H : HInv s g) {p : Pending} {pc pc' : Pc} (hm : Move s p pc pc')
    (hw : WalkOK s p pc) : WalkOK s p pc' := by
  cases hm with
  | @checkOk tab h hc =>
    show Walk _ _ _ _ _
    rw [hc]
    rw [cellOf_eq] at hc
    obtain ⟨l', hl'⟩ := chainH_node H.nextOK (H.headOK _ h hc)
    rw [hl']
    exact Walk.start p.key
  | findEnd => exact ⟨hw, fun i hi => by cases hi⟩
  | @findHit tab h pred c n hn hk =>
    exact ⟨hw, fun i hi => by cases hi; rw [nodeAt_of_some hn]; exact ⟨hk, rfl⟩⟩
  | @findNext tab h pred c n hn hk =>
    show Walk _ _ _ _ _
    have hC := H.isChain (cellId tab p.key)
    unfold chId at hC
    rw [← cellOf_eq] at hC
    exact Walk.next hC hw hn hk
  | rTable => trivial
  | rCellMoved _ => trivial
  | rCellNode _ => trivial
  | rNext _ _ => trivial
  | wTable => trivial
  | wCellEmpty _ _ => trivial
  | wCellMoved _ => trivial
  | wCellNode _ => trivial
  | casFail => trivial
  | checkFail _ => trivial

theorem Move.vcell {s : State} {p : Pending} {pc pc' : Pc} {call : Option Pending} (hm : Move s p pc pc')
    (hc : call = some p) {id : CellId} {h : Nat} (hv : vcell ⟨pc', call⟩ = some (id, h)) :
    vcell ⟨pc, call⟩ = some (id, h) ∨ (getCell s id = .node h) := by
  subst hc
  cases hm with
  | @checkOk tab h' hcell =>
    right
    simp only [BinX.vcell, Option.some.injEq, Prod.mk.injEq] at hv
    obtain ⟨rfl, rfl⟩ := hv
    rw [← cellOf_eq]; exact hcell
  | findEnd => left; exact hv
  | findHit _ _ => left; exact hv
  | findNext _ _ => left; exact hv
  | rTable => cases hv
  | rCellMoved _ => cases hv
  | rCellNode _ => cases hv
  | rNext _ _ => cases hv
  | wTable => cases hv
  | wCellEmpty _ _ => cases hv
  | wCellMoved _ => cases hv
  | wCellNode _ => cases hv
  | casFail => cases hv
  | checkFail _ => cases hv

/-- the lock words of the nodes held by other threads do not change: transitions that keep all lock words -/
theorem lock_frame_quiet {s s' : State} {g : Ghost} {t : Nat} (I : Inv s g)
    (hq : ∀ j, j < s.heap.length → (nodeAt s'.heap j).lock = (nodeAt s.heap j).lock) :
    ∀ (t1 : Nat) (l1 : Local) (h1 : Nat), t1 ≠ t → s.threads[t1]? = some l1 → Holds l1.pc h1 →
      (nodeAt s'.heap h1).lock = (nodeAt s.heap h1).lock := by
  intro t1 l1 h1 _ hl1 hh
  exact hq h1 (I.lock.lockHeld t1 l1 h1 hl1 hh).1

/-- ... and lock / unlock of a node that is free or held by the stepping thread -/
theorem lock_frame_mod {s s' : State} {g : Ghost} {t : Nat} (I : Inv s g) {i : Nat} {x : Option Nat}
    (hh : s'.heap = s.heap.modify i (fun m => { m with lock := x }))
    (hx : (nodeAt s.heap i).lock = none ∨ (nodeAt s.heap i).lock = some t) :
    ∀ (t1 : Nat) (l1 : Local) (h1 : Nat), t1 ≠ t → s.threads[t1]? = some l1 → Holds l1.pc h1 →
      (nodeAt s'.heap h1).lock = (nodeAt s.heap h1).lock := by
  intro t1 l1 h1 hne hl1 hh1
  obtain ⟨hlt, hmine⟩ := I.lock.lockHeld t1 l1 h1 hl1 hh1
  rw [hh, nodeAt_modify]
  split
  · rename_i hc
    obtain ⟨rfl, _⟩ := hc
    rcases hx with h2 | h2
    · rw [hmine] at h2; cases h2
    · rw [hmine] at h2; cases h2; exact absurd rfl hne
  · rfl

/-- assembling the invariant after a transition -/
theorem inv_step {s s' : State} {g g' : Ghost} {t : Nat} {l l' : Local} (I : Inv s g)
    (hl : s.threads[t]? = some l) (m : MemStep s s' (vcell l) g g')
    (hthr : s'.threads = s.threads.set t l') (T' : TInv s')
    (hres : s'.resizing = s.resizing ∨ (s'.resizing = true ∧ s.resizing = false))
    (hlT : isT l.pc ∨ WStep s s' g g')
    (hself : PcPh s' g' l'.pc)
    (hT : isT l'.pc → isT l.pc ∨ s.resizing = false)
    (hresz : isT l'.pc → s'.resizing = true)
    (hmid : ∀ lo hg, g'.ph = .mid lo hg → (isMidPc l.pc ∨ g.ph ≠ g'.ph) → isMidPc l'.pc)
    (hlock : ∀ (t1 : Nat) (l1 : Local) (h1 : Nat), t1 ≠ t → s.threads[t1]? = some l1 → Holds l1.pc h1 →
      (nodeAt s'.heap h1).lock = (nodeAt s.heap h1).lock)
    (hselfH : ∀ h, Holds l'.pc h → h < s'.heap.length ∧ (nodeAt s'.heap h).lock = some t)
    (hselfV : ∀ id h, vcell l' = some (id, h) → getCell s' id = .node h ∧ Holds l'.pc h)
    (hselfW : ∀ p, l'.call = some p → WalkOK s' p l'.pc) : MemStep s s' (vcell l) g g' ∧ Inv s' g' :=
  ⟨m, m.hinv I.heap, T', pinv_step I hl m hthr hres hlT hself hT hresz hmid,
    linv_step I hl m hthr hlock hselfH hselfV, winv_step I hl m hthr hselfW⟩

theorem PcPh.cells {s s' : State} {g : Ghost} {pc : Pc} (hp : PcPh s g pc)
    (hL : s'.lowCell = s.lowCell) (hH : s'.highCell = s.highCell) : PcPh s' g pc := by
  cases pc <;> first | exact hp | skip
  · obtain ⟨h1, h2, h3⟩ := hp; exact ⟨h1, by rw [hL]; exact h2, by rw [hH]; exact h3⟩
  · obtain ⟨lo, h1, h2, h3⟩ := hp; exact ⟨lo, h1, by rw [hL]; exact h2, by rw [hH]; exact h3⟩
  · obtain ⟨lo, hg, h1, h2, h3⟩ := hp; exact ⟨lo, hg, h1, by rw [hL]; exact h2, by rw [hH]; exact h3⟩

/-- obligations of a transition that does not touch the memory -/
theorem inv_same {s s' : State} {g : Ghost} {t : Nat} {l l' : Local} (I : Inv s g)
    (hl : s.threads[t]? = some l)
    (hh : s'.heap = s.heap) (h0 : s'.cell0 = s.cell0) (hL : s'.lowCell = s.lowCell) (hH : s'.highCell = s.highCell)
    (hc : s'.cur = s.cur)
    (hthr : s'.threads = s.threads.set t l') (T' : TInv s')
    (hres : s'.resizing = s.resizing ∨ (s'.resizing = true ∧ s.resizing = false))
    (hself : PcPh s g l'.pc)
    (hT : isT l'.pc → isT l.pc ∨ s.resizing = false)
    (hresz : isT l'.pc → s'.resizing = true)
    (hmid : isMidPc l.pc → isMidPc l'.pc)
    (hselfH : ∀ h, Holds l'.pc h → Holds l.pc h)
    (hselfV : ∀ id h, vcell l' = some (id, h) → (vcell l = some (id, h) ∨ getCell s id = .node h) ∧ Holds l'.pc h)
    (hselfW : ∀ p, l'.call = some p → WalkOK s p l'.pc) : MemStep s s' (vcell l) g g ∧ Inv s' g := by
  have hcell : ∀ id, getCell s' id = getCell s id := by
    intro id; cases id <;> assumption
  refine inv_step I hl (.same hh h0 hL hH hc) hthr T' hres (Or.inr (.of_same hL hH)) (hself.cells hL hH) hT hresz ?_
    (lock_frame_quiet I (fun j _ => by rw [hh])) ?_ ?_ ?_
  · intro lo hg _ hm
    rcases hm with hm | hm
    · exact hmid hm
    · exact absurd rfl hm
  · intro h hh'
    obtain ⟨h1, h2⟩ := I.lock.lockHeld t l h hl (hselfH h hh')
    exact ⟨by rw [hh]; exact h1, by rw [hh]; exact h2⟩
  · intro id h hv
    obtain ⟨h1, h2⟩ := hselfV id h hv
    refine ⟨?_, h2⟩
    rw [hcell]
    rcases h1 with h1 | h1
    · exact (I.lock.validated t l id h hl h1).1
    · exact h1
  · intro p hp
    refine (hselfW p hp).congr ?_
    intro tab _
    rw [cellOf_eq, cellOf_eq, hcell, hh]
    exact ⟨rfl, rfl, fun j _ => ⟨rfl, rfl⟩⟩

theorem isMidPc_isT {pc : Pc} (h : isMidPc pc) : isT pc := by
  cases pc <;> first | trivial | exact False.elim h

theorem vcell_holds {l : Local} {id : CellId} {h : Nat} (hv : vcell l = some (id, h)) : Holds l.pc h := by
  obtain ⟨pc, call⟩ := l
  unfold vcell at hv
  cases pc <;> cases call <;> simp only [reduceCtorEq] at hv <;>
    (simp only [Option.some.injEq, Prod.mk.injEq] at hv; exact hv.2)

theorem PcPh.of_tab {s s' : State} {g g' : Ghost} {pc pc' : Pc} (hp : PcPh s g pc) (hT : ¬ isT pc) (hT' : ¬ isT pc')
    (htab : tabOf pc' = tabOf pc) (hmono : g.ph = .post → g'.ph = .post) : PcPh s' g' pc' := by
  have h1 : tabOf pc = some .new → g.ph = .post := by
    cases pc <;> first | exact absurd trivial hT | exact hp
  cases pc' <;> first | exact absurd trivial hT' | exact fun ht => hmono (h1 (htab ▸ ht))

theorem PcPh.idle (s : State) (g : Ghost) : PcPh s g .idle := fun h => by cases h

theorem invoke_pc (op : KOp) :
    (if isReader op then Pc.rTable else Pc.wTable) = .rTable ∨ (if isReader op then Pc.rTable else Pc.wTable) = .wTable := by
  cases isReader op
  · right; rfl
  · left; rfl

theorem tinv_of_frame {s s1 s' : State} (T : TInv s1) (h1 : s1.threads = s.threads) (h2 : s1.hist = s.hist)
    (h3 : s1.now = s.now) (hs' : s'.threads = s.threads ∧ s'.hist = s.hist ∧ s'.now = s.now) : TInv s' := by
  obtain ⟨e1, e2, e3⟩ := hs'
  exact ⟨by rw [e1, ← h1]; exact T.opOK, by rw [e1, ← h1]; exact T.callOK, by rw [e2, e3, ← h2, ← h3]; exact T.histTime,
    by rw [e1, e3, ← h1, ← h3]; exact T.pendTime, by rw [e1, e2, ← h1, ← h2]; exact T.uniqHP,
    by rw [e1, ← h1]; exact T.uniqPP, by rw [e2, ← h2]; exact T.uniqHH⟩

/-- **every transition preserves the structural invariant** -/
theorem stepK_inv {s s' : State} {g : Ghost} {t : Nat} {l : Local} (I : Inv s g)
    (hl : s.threads[t]? = some l) (hk : StepK s t l s') : ∃ g', MemStep s s' (vcell l) g g' ∧ Inv s' g' := by
  have T := I.thr
  have H := I.heap
  cases hk with
  | idle hpc =>
    refine ⟨g, inv_same I hl rfl rfl rfl rfl rfl rfl
      (tinv_keep T hl rfl rfl rfl rfl (fun p hp => T.opOK t l p hl hp) Iff.rfl) (Or.inl rfl)
      (I.ph.pcPh t l hl) (fun h => Or.inl h) (fun h => I.ph.resz t l hl h) id (fun h hh => hh)
      (fun id h hv => ⟨Or.inl hv, vcell_holds hv⟩) (fun p hp => I.walk.walk t l p hl hp)⟩
  | invoke k op hpc =>
    have hcases := invoke_pc op
    refine ⟨g, inv_same (l' := { pc := if isReader op then .rTable else .wTable, call := some ⟨k, op, s.now + 1⟩ })
      I hl rfl rfl rfl rfl rfl rfl
      (tinv_invoke T hl rfl rfl rfl rfl ?_ ?_) (Or.inl rfl) ?_ ?_ ?_ ?_ ?_ ?_ ?_⟩
    · cases hr : isReader op <;> simp [PcOp, hr]
    · rcases hcases with h | h <;> (show isOp (if isReader op then Pc.rTable else Pc.wTable); rw [h]; trivial)
    · show PcPh s g (if isReader op then Pc.rTable else Pc.wTable)
      rcases hcases with h | h <;> (rw [h]; intro ht; cases ht)
    · intro hT; exfalso; revert hT
      show ¬ isT (if isReader op then Pc.rTable else Pc.wTable)
      rcases hcases with h | h <;> (rw [h]; exact id)
    · intro hT; exfalso; revert hT
      show ¬ isT (if isReader op then Pc.rTable else Pc.wTable)
      rcases hcases with h | h <;> (rw [h]; exact id)
    · intro hm; rw [hpc] at hm; exact False.elim hm
    · intro h hh; exfalso; revert hh
      show ¬ Holds (if isReader op then Pc.rTable else Pc.wTable) h
      rcases hcases with h' | h' <;> (rw [h']; exact id)
    · intro id h hv; exfalso; revert hv
      show vcell ⟨if isReader op then Pc.rTable else Pc.wTable, _⟩ = some (id, h) → False
      rcases hcases with h' | h' <;> (rw [h']; intro hv; cases hv)
    · intro p _
      show WalkOK s p (if isReader op then Pc.rTable else Pc.wTable)
      rcases hcases with h' | h' <;> (rw [h']; trivial)
  | resize hpc hr =>
    refine ⟨g, inv_same (l' := { l with pc := .tCell }) I hl rfl rfl rfl rfl rfl rfl
      (tinv_keep T hl rfl rfl rfl rfl (fun _ _ => trivial) (by rw [hpc]; exact ⟨fun h => h, fun h => h⟩))
      (Or.inr ⟨rfl, hr⟩) (I.ph.noResz hr) (fun _ => Or.inr hr) (fun _ => rfl)
      (by intro hm; rw [hpc] at hm; exact False.elim hm) (fun h hh => False.elim hh)
      (fun id h hv => by cases hv) (fun p _ => trivial)⟩
  | move p pc' hp hm =>
    obtain ⟨o1, o2, o3, o4⟩ := hm.isOp
    refine ⟨g, inv_same (l' := { l with pc := pc' }) I hl rfl rfl rfl rfl rfl rfl
      (tinv_keep T hl rfl rfl rfl rfl (fun p' hp' => hm.pcOp (T.opOK t l p' hl hp'))
        ⟨fun _ => o2, fun _ => o1⟩) (Or.inl rfl) (hm.pcPh H (I.ph.pcPh t l hl))
      (fun h => absurd h o4) (fun h => absurd h o4) (fun h => absurd (isMidPc_isT h) o3)
      (fun h hh => hm.holds hh) ?_ ?_⟩
    · intro id h hv
      obtain ⟨pc, call⟩ := l
      simp only at hp hm hv
      exact ⟨hm.vcell hp hv, vcell_holds hv⟩
    · intro p' hp'
      simp only at hp'
      rw [hp] at hp'; cases hp'
      exact hm.walk H (I.walk.walk t l p hl hp)
  | tmove pc' hp hm =>
    obtain ⟨pc, call⟩ := l
    simp only at hp hm
    subst hp
    obtain ⟨o1, o2, o3, o4⟩ := hm.isT
    have hph := I.ph.pcPh t _ hl
    refine ⟨g, inv_same (l' := { pc := pc', call := none }) I hl rfl rfl rfl rfl rfl rfl
      (tinv_keep T hl rfl rfl rfl rfl (fun p' hp' => by cases hp')
        ⟨fun h => absurd h o4, fun h => absurd h o3⟩) (Or.inl rfl) ?_
      (fun _ => Or.inl o1) (fun _ => I.ph.resz t _ hl o1) ?_ ?_ ?_ ?_⟩
    · cases hm with
      | cellEmpty _ => exact hph
      | cellNode _ => exact hph
      | cellMoved hc => exact absurd hc (H.pre hph).2.1
      | casFail _ => exact hph
      | checkOk _ => exact hph
    · intro hmid
      cases hm <;> exact False.elim hmid
    · intro h hh
      cases hm <;> first | exact False.elim hh | exact hh
    · intro id h hv
      cases hm with
      | cellEmpty _ => cases hv
      | cellNode _ => cases hv
      | cellMoved _ => cases hv
      | casFail _ => cases hv
      | @checkOk h' hc =>
        simp only [vcell, Option.some.injEq, Prod.mk.injEq] at hv
        obtain ⟨rfl, rfl⟩ := hv
        exact ⟨Or.inr hc, rfl⟩
    · intro p' hp'
      cases hp'
  | lockMove p h x pc' hp hm =>
    obtain ⟨pc, call⟩ := l
    simp only at hp hm
    subst hp
    have hph := I.ph.pcPh t _ hl
    have hlen : (s.heap.modify h (fun m => { m with lock := x })).length = s.heap.length := List.length_modify ..
    refine ⟨g, inv_step (l' := { pc := pc', call := some p }) I hl (.lock h x rfl rfl rfl rfl rfl) rfl
      (tinv_keep T hl rfl rfl rfl rfl ?_ ?_) (Or.inl rfl) (Or.inr (.of_same rfl rfl)) ?_ ?_ ?_ ?_ ?_ ?_ ?_ ?_⟩
    · intro p' hp'
      have := T.opOK t _ p' hl hp'
      cases hm <;> exact this
    · cases hm <;> exact ⟨fun _ => trivial, fun _ => trivial⟩
    · cases hm <;> exact hph.of_tab id id rfl id
    · intro hT; cases hm <;> exact False.elim hT
    · intro hT; cases hm <;> exact False.elim hT
    · intro lo hg _ hmid
      rcases hmid with hmid | hmid
      · cases hm <;> exact False.elim hmid
      · exact absurd rfl hmid
    · cases hm with
      | lock hn hlk => exact lock_frame_mod I rfl (Or.inl (by rw [nodeAt_of_some hn]; exact hlk))
      | @unlockRetry tab h' res =>
        exact lock_frame_mod I rfl (Or.inr (I.lock.lockHeld t _ h hl rfl).2)
    · intro h' hh
      cases hm with
      | lock hn hlk =>
        have : h = h' := hh
        subst this
        have hlt : h < s.heap.length := (List.getElem?_eq_some_iff.1 hn).1
        refine ⟨by show h < (s.heap.modify h _).length; rw [hlen]; exact hlt, ?_⟩
        show (nodeAt (s.heap.modify h _) h).lock = _
        rw [nodeAt_modify, if_pos ⟨rfl, hlt⟩]
      | unlockRetry => exact False.elim hh
    · intro id h' hv
      cases hm <;> cases hv
    · intro p' _
      cases hm <;> trivial
  | tlockMove h x pc' hp hm =>
    obtain ⟨pc, call⟩ := l
    simp only at hp hm
    subst hp
    have hph := I.ph.pcPh t _ hl
    have hlen : (s.heap.modify h (fun m => { m with lock := x })).length = s.heap.length := List.length_modify ..
    have hT0 : isT pc := by cases hm <;> trivial
    refine ⟨g, inv_step (l' := { pc := pc', call := none }) I hl (.lock h x rfl rfl rfl rfl rfl) rfl
      (tinv_keep T hl rfl rfl rfl rfl ?_ ?_) (Or.inl rfl) (Or.inl hT0) ?_ ?_ ?_ ?_ ?_ ?_ ?_ ?_⟩
    · intro p' hp'; cases hp'
    · cases hm <;> exact ⟨fun h => False.elim h, fun h => False.elim h⟩
    · cases hm <;> exact hph
    · intro _; exact Or.inl hT0
    · intro _; exact I.ph.resz t _ hl hT0
    · intro lo hg _ hmid
      rcases hmid with hmid | hmid
      · cases hm <;> exact False.elim hmid
      · exact absurd rfl hmid
    · cases hm with
      | lock hn hlk => exact lock_frame_mod I rfl (Or.inl (by rw [nodeAt_of_some hn]; exact hlk))
      | checkFail _ => exact lock_frame_mod I rfl (Or.inr (I.lock.lockHeld t _ h hl rfl).2)
      | unlock => exact lock_frame_mod I rfl (Or.inr (I.lock.lockHeld t _ h hl rfl).2)
    · intro h' hh
      cases hm with
      | lock hn hlk =>
        have : h = h' := hh
        subst this
        have hlt : h < s.heap.length := (List.getElem?_eq_some_iff.1 hn).1
        refine ⟨by show h < (s.heap.modify h _).length; rw [hlen]; exact hlt, ?_⟩
        show (nodeAt (s.heap.modify h _) h).lock = _
        rw [nodeAt_modify, if_pos ⟨rfl, hlt⟩]
      | checkFail _ => exact False.elim hh
      | unlock => exact False.elim hh
    · intro id h' hv
      cases hm <;> cases hv
    · intro p' hp'
      cases hp'
  | fin p res hp hf =>
    obtain ⟨pc, call⟩ := l
    simp only at hp hf
    subst hp
    refine ⟨g, inv_same (l' := { pc := .idle, call := none }) I hl rfl rfl rfl rfl rfl rfl
      (tinv_finish T hl rfl rfl rfl rfl rfl id) (Or.inl rfl) (PcPh.idle s g) (fun h => False.elim h)
      (fun h => False.elim h) ?_ (fun h hh => False.elim hh) (fun id h hv => by cases hv) (fun p' hp' => by cases hp')⟩
    intro hmid
    cases hf <;> exact False.elim hmid
  | cas p tab v vi hp hpc hc hop =>
    rw [cellOf_eq] at hc
    have act := I.active_of_empty (k := p.key) hl (by rw [hpc]; exact id) (by rw [hpc]; rfl) hc
    obtain ⟨f1, f2, f3, f4, f5, f6⟩ := setCell_frame { tick s with heap := s.heap ++ [⟨p.key, (v, vi), none, none⟩] }
      tab p.key (.node s.heap.length)
    obtain ⟨he, -⟩ := cas_effect (s := s) (s' := finish (setCell { tick s with heap := s.heap ++ [⟨p.key, (v, vi), none, none⟩] }
      tab p.key (.node s.heap.length)) t p .none) (new := ⟨p.key, (v, vi), none, none⟩) H act hc rfl
      (keyOn_cellId tab p.key) f1 (by
        intro id'
        have := getCell_setCell { tick s with heap := s.heap ++ [⟨p.key, (v, vi), none, none⟩] } tab p.key
          (.node s.heap.length) id'
        have e2 : getCell { tick s with heap := s.heap ++ [⟨p.key, (v, vi), none, none⟩] } id' = getCell s id' := by
          cases id' <;> rfl
        rw [e2] at this
        rw [← this]
        cases id' <;> rfl) f5
    have hlk : ∀ j, j < s.heap.length → (nodeAt (finish (setCell { tick s with heap := s.heap ++ [⟨p.key, (v, vi), none, none⟩] } tab p.key (.node s.heap.length)) t p .none).heap j).lock = (nodeAt s.heap j).lock := by
      obtain ⟨_, _, _, h⟩ := he; exact h
    refine ⟨g, inv_step (l' := { pc := .idle, call := none }) I hl (.upd _ act he (Or.inl hc))
      (by show (setCell _ tab p.key _).threads.set t _ = _; rw [f2]; rfl)
      (tinv_finish (l' := { pc := .idle, call := none }) T hl hp
        (by show (setCell _ tab p.key _).threads.set t _ = _; rw [f2]; rfl)
        (by show (setCell _ tab p.key _).now = _; rw [f4]; rfl)
        (by show _ :: (setCell _ tab p.key _).hist = _; rw [f3, f4]; rfl) rfl id)
      (Or.inl (by show (setCell _ tab p.key _).resizing = _; rw [f6]; rfl))
      (Or.inr (.of_active act)) (PcPh.idle _ g) (fun h => False.elim h) (fun h => False.elim h)
      ?_ (lock_frame_quiet I hlk) (fun h hh => False.elim hh) (fun id h hv => by cases hv) (fun p' hp' => by cases hp')⟩
    intro lo hg hp'; exact absurd hp' (act.ne_mid lo hg)
  | store p tab h pred hit hnext hp hpc =>
    obtain ⟨act, he, hthr, hhist, hnow, hres, -, -⟩ := I.store_ok hl hp hpc
    have he' : Effect s (setT (storeAt (tick s) tab p pred hit hnext).1 t
        { l with pc := .wUnlock tab h (storeAt (tick s) tab p pred hit hnext).2 false }) g (cellId tab p.key) := by
      obtain ⟨C', u, hs, hlk⟩ := he.of_tick
      refine ⟨C', ?_, ?_, hlk⟩
      · exact ⟨u.nextOK, u.len, fun id' hne => by rw [← u.cell id' hne]; cases id' <;> rfl, u.cur,
          by intro hm; apply u.notMoved; rw [← hm]; cases (cellId tab p.key) <;> rfl,
          by have := u.chain; revert this; cases (cellId tab p.key) <;> exact id, u.other, u.keys, u.side⟩
      · exact ⟨hs.len, hs.key, hs.ordS, hs.movedMono, hs.off, hs.lc, hs.unl⟩
    have hlk : ∀ j, j < s.heap.length → (nodeAt (setT (storeAt (tick s) tab p pred hit hnext).1 t { l with pc := .wUnlock tab h (storeAt (tick s) tab p pred hit hnext).2 false }).heap j).lock = (nodeAt s.heap j).lock := by
      obtain ⟨_, _, _, h⟩ := he'; exact h
    obtain ⟨hlt, hmine⟩ := I.lock.lockHeld t l h hl (by rw [hpc]; rfl)
    have hlen : s.heap.length ≤ (setT (storeAt (tick s) tab p pred hit hnext).1 t { l with pc := .wUnlock tab h (storeAt (tick s) tab p pred hit hnext).2 false }).heap.length := by
      obtain ⟨_, u, _, _⟩ := he'; exact u.len
    refine ⟨g, inv_step (l' := { l with pc := .wUnlock tab h (storeAt (tick s) tab p pred hit hnext).2 false })
      I hl (.upd _ act he' (Or.inr ⟨h, vcell_wStore hp hpc⟩))
      (by show (storeAt (tick s) tab p pred hit hnext).1.threads.set t _ = _; rw [hthr]; rfl)
      (tinv_keep (l' := { l with pc := .wUnlock tab h (storeAt (tick s) tab p pred hit hnext).2 false }) T hl
        (by show (storeAt (tick s) tab p pred hit hnext).1.threads.set t _ = _; rw [hthr]; rfl)
        (by show (storeAt (tick s) tab p pred hit hnext).1.now = _; rw [hnow]; rfl)
        (by show (storeAt (tick s) tab p pred hit hnext).1.hist = _; rw [hhist]; rfl) rfl
        (fun p' hp' => by have := T.opOK t l p' hl hp'; rw [hpc] at this; exact this)
        (by rw [hpc]; exact ⟨fun _ => trivial, fun _ => trivial⟩))
      (Or.inl (by show (storeAt (tick s) tab p pred hit hnext).1.resizing = _; rw [hres]; rfl))
      (Or.inr (.of_active act)) ?_ (fun h => False.elim h) (fun h => False.elim h)
      ?_ (lock_frame_quiet I hlk) ?_ (fun id h hv => by cases hv) (fun p' hp' => trivial)⟩
    · have := I.ph.pcPh t l hl
      rw [hpc] at this
      exact this.of_tab id id rfl id
    · intro lo hg hp'; exact absurd hp' (act.ne_mid lo hg)
    · intro h' hh
      have : h = h' := hh
      subst this
      exact ⟨by omega, by rw [hlk h hlt]; exact hmine⟩
  | unlockFin p tab h res hp hpc =>
    have hlen : (s.heap.modify h (fun m => { m with lock := none })).length = s.heap.length := List.length_modify ..
    refine ⟨g, inv_step (l' := { pc := .idle, call := none }) I hl (.lock h none rfl rfl rfl rfl rfl) rfl
      (tinv_finish T hl hp rfl rfl rfl rfl id) (Or.inl rfl) (Or.inr (.of_same rfl rfl)) (PcPh.idle _ g)
      (fun h => False.elim h) (fun h => False.elim h) ?_
      (lock_frame_mod I rfl (Or.inr (I.lock.lockHeld t l h hl (by rw [hpc]; rfl)).2))
      (fun h hh => False.elim hh) (fun id h hv => by cases hv) (fun p' hp' => by cases hp')⟩
    intro lo hg _ hmid
    rcases hmid with hmid | hmid
    · rw [hpc] at hmid; exact False.elim hmid
    · exact absurd rfl hmid
  | casMoved hp hpc hc =>
    have hph := I.ph.pcPh t l hl
    rw [hpc] at hph
    have hT0 : isT l.pc := by rw [hpc]; trivial
    refine ⟨_, inv_step (l' := { l with pc := .tCommit }) I hl (.casMoved hph hc rfl rfl rfl rfl rfl) rfl
      (tinv_of_frame (s1 := setT (tick s) t { l with pc := .tCommit })
        (tinv_keep T hl rfl rfl rfl rfl (fun p' hp' => by rw [hp] at hp'; cases hp')
          (by rw [hpc]; exact ⟨fun h => False.elim h, fun h => False.elim h⟩)) rfl rfl rfl ⟨rfl, rfl, rfl⟩)
      (Or.inl rfl) (Or.inl hT0) rfl (fun _ => Or.inl hT0) (fun _ => I.ph.resz t l hl hT0)
      (fun lo hg hp' => by cases hp') (lock_frame_quiet I (fun j _ => rfl)) (fun h hh => False.elim hh)
      (fun id h hv => by cases hv) (fun p' hp' => by simp only at hp'; rw [hp] at hp'; cases hp')⟩
  | build h hp hpc =>
    have hph := I.ph.pcPh t l hl
    rw [hpc] at hph
    have hT0 : isT l.pc := by rw [hpc]; trivial
    have hv : vcell l = some (.c0, h) := by
      obtain ⟨pc, call⟩ := l
      simp only at hpc; subst hpc; rfl
    obtain ⟨hc, -⟩ := I.lock.validated t l _ h hl hv
    obtain ⟨hlt, hmine⟩ := I.lock.lockHeld t l h hl (by rw [hpc]; rfl)
    obtain ⟨-, -, -, hnode, hlen⟩ := build_effect (s' := setT { tick s with heap := (splitBin s.heap (chainFrom s.heap s.heap.length (some h))).1 } t
        { l with pc := .tStoreLow h (splitBin s.heap (chainFrom s.heap s.heap.length (some h))).2.1 (splitBin s.heap (chainFrom s.heap s.heap.length (some h))).2.2 })
      H hph hc rfl rfl rfl rfl rfl
    obtain ⟨-, -, hlow, hhigh⟩ := H.pre hph
    refine ⟨_, inv_step (l' := { l with pc := .tStoreLow h (splitBin s.heap (chainFrom s.heap s.heap.length (some h))).2.1 (splitBin s.heap (chainFrom s.heap s.heap.length (some h))).2.2 })
      I hl (.build h hph hv hc rfl rfl rfl rfl rfl) rfl
      (tinv_of_frame (s1 := setT (tick s) t { l with pc := .tStoreLow h (splitBin s.heap (chainFrom s.heap s.heap.length (some h))).2.1 (splitBin s.heap (chainFrom s.heap s.heap.length (some h))).2.2 })
        (tinv_keep T hl rfl rfl rfl rfl (fun p' hp' => by rw [hp] at hp'; cases hp')
          (by rw [hpc]; exact ⟨fun h => False.elim h, fun h => False.elim h⟩)) rfl rfl rfl ⟨rfl, rfl, rfl⟩)
      (Or.inl rfl) (Or.inl hT0) ⟨rfl, hlow, hhigh⟩ (fun _ => Or.inl hT0) (fun _ => I.ph.resz t l hl hT0)
      (fun lo hg _ _ => trivial) (lock_frame_quiet I (fun j hj => by rw [hnode j hj])) ?_ ?_
      (fun p' hp' => by simp only at hp'; rw [hp] at hp'; cases hp')⟩
    · intro h' hh
      have : h = h' := hh
      subst this
      exact ⟨Nat.lt_of_lt_of_le hlt hlen, by rw [hnode h hlt]; exact hmine⟩
    · intro id h' hv'
      simp only [vcell, Option.some.injEq, Prod.mk.injEq] at hv'
      obtain ⟨rfl, rfl⟩ := hv'
      exact ⟨hc, rfl⟩
  | storeLow h lo hg hp hpc =>
    have hph := I.ph.pcPh t l hl
    rw [hpc] at hph
    have hT0 : isT l.pc := by rw [hpc]; trivial
    have hv : vcell l = some (.c0, h) := by
      obtain ⟨pc, call⟩ := l
      simp only at hpc; subst hpc; rfl
    obtain ⟨hc, -⟩ := I.lock.validated t l _ h hl hv
    obtain ⟨hlt, hmine⟩ := I.lock.lockHeld t l h hl (by rw [hpc]; rfl)
    refine ⟨g, inv_step (l' := { l with pc := .tStoreHigh h hg }) I hl
      (.storeNew lo hg hph.1 rfl rfl (Or.inr ⟨hph.2.1, rfl⟩) (Or.inl rfl) rfl) rfl
      (tinv_of_frame (s1 := setT (tick s) t { l with pc := .tStoreHigh h hg })
        (tinv_keep T hl rfl rfl rfl rfl (fun p' hp' => by rw [hp] at hp'; cases hp')
          (by rw [hpc]; exact ⟨fun h => False.elim h, fun h => False.elim h⟩)) rfl rfl rfl ⟨rfl, rfl, rfl⟩)
      (Or.inl rfl) (Or.inl hT0) ⟨lo, hph.1, rfl, hph.2.2⟩ (fun _ => Or.inl hT0) (fun _ => I.ph.resz t l hl hT0)
      (fun lo hg _ _ => trivial) (lock_frame_quiet I (fun j _ => rfl)) ?_ ?_
      (fun p' hp' => by simp only at hp'; rw [hp] at hp'; cases hp')⟩
    · intro h' hh
      have : h = h' := hh
      subst this
      exact ⟨hlt, hmine⟩
    · intro id h' hv'
      simp only [vcell, Option.some.injEq, Prod.mk.injEq] at hv'
      obtain ⟨rfl, rfl⟩ := hv'
      exact ⟨hc, rfl⟩
  | storeHigh h hg hp hpc =>
    have hph := I.ph.pcPh t l hl
    rw [hpc] at hph
    obtain ⟨lo, h1, h2, h3⟩ := hph
    have hT0 : isT l.pc := by rw [hpc]; trivial
    have hv : vcell l = some (.c0, h) := by
      obtain ⟨pc, call⟩ := l
      simp only at hpc; subst hpc; rfl
    obtain ⟨hc, -⟩ := I.lock.validated t l _ h hl hv
    obtain ⟨hlt, hmine⟩ := I.lock.lockHeld t l h hl (by rw [hpc]; rfl)
    refine ⟨g, inv_step (l' := { l with pc := .tStoreMoved h }) I hl
      (.storeNew lo hg h1 rfl rfl (Or.inl rfl) (Or.inr ⟨h3, rfl⟩) rfl) rfl
      (tinv_of_frame (s1 := setT (tick s) t { l with pc := .tStoreMoved h })
        (tinv_keep T hl rfl rfl rfl rfl (fun p' hp' => by rw [hp] at hp'; cases hp')
          (by rw [hpc]; exact ⟨fun h => False.elim h, fun h => False.elim h⟩)) rfl rfl rfl ⟨rfl, rfl, rfl⟩)
      (Or.inl rfl) (Or.inl hT0) ⟨lo, hg, h1, h2, rfl⟩ (fun _ => Or.inl hT0) (fun _ => I.ph.resz t l hl hT0)
      (fun lo hg _ _ => trivial) (lock_frame_quiet I (fun j _ => rfl)) ?_ ?_
      (fun p' hp' => by simp only at hp'; rw [hp] at hp'; cases hp')⟩
    · intro h' hh
      have : h = h' := hh
      subst this
      exact ⟨hlt, hmine⟩
    · intro id h' hv'
      simp only [vcell, Option.some.injEq, Prod.mk.injEq] at hv'
      obtain ⟨rfl, rfl⟩ := hv'
      exact ⟨hc, rfl⟩
  | storeMoved h hp hpc =>
    have hph := I.ph.pcPh t l hl
    rw [hpc] at hph
    obtain ⟨lo, hg, h1, h2, h3⟩ := hph
    have hT0 : isT l.pc := by rw [hpc]; trivial
    have hv : vcell l = some (.c0, h) := by
      obtain ⟨pc, call⟩ := l
      simp only at hpc; subst hpc; rfl
    obtain ⟨hlt, hmine⟩ := I.lock.lockHeld t l h hl (by rw [hpc]; rfl)
    refine ⟨_, inv_step (l' := { l with pc := .tUnlock h }) I hl
      (.moved h lo hg h1 hv h2 h3 rfl rfl rfl rfl rfl) rfl
      (tinv_of_frame (s1 := setT (tick s) t { l with pc := .tUnlock h })
        (tinv_keep T hl rfl rfl rfl rfl (fun p' hp' => by rw [hp] at hp'; cases hp')
          (by rw [hpc]; exact ⟨fun h => False.elim h, fun h => False.elim h⟩)) rfl rfl rfl ⟨rfl, rfl, rfl⟩)
      (Or.inl rfl) (Or.inl hT0) rfl (fun _ => Or.inl hT0) (fun _ => I.ph.resz t l hl hT0)
      (fun lo hg hp' => by cases hp') (lock_frame_quiet I (fun j _ => rfl)) ?_ (fun id h hv => by cases hv)
      (fun p' hp' => by simp only at hp'; rw [hp] at hp'; cases hp')⟩
    intro h' hh
    have : h = h' := hh
    subst this
    exact ⟨hlt, hmine⟩
  | commit hp hpc =>
    have hph := I.ph.pcPh t l hl
    rw [hpc] at hph
    have hT0 : isT l.pc := by rw [hpc]; trivial
    refine ⟨g, inv_step (l' := { l with pc := .idle }) I hl (.commit hph rfl rfl rfl rfl) rfl
      (tinv_of_frame (s1 := setT (tick s) t { l with pc := .idle })
        (tinv_keep T hl rfl rfl rfl rfl (fun p' hp' => by rw [hp] at hp'; cases hp')
          (by rw [hpc]; exact ⟨fun h => False.elim h, fun h => False.elim h⟩)) rfl rfl rfl ⟨rfl, rfl, rfl⟩)
      (Or.inl rfl) (Or.inl hT0) (PcPh.idle _ g) (fun h => False.elim h) (fun h => False.elim h)
      ?_ (lock_frame_quiet I (fun j _ => rfl)) (fun h hh => False.elim hh) (fun id h hv => by cases hv)
      (fun p' hp' => by simp only at hp'; rw [hp] at hp'; cases hp')⟩
    intro lo hg hp' _
    rw [hph] at hp'; cases hp'

theorem init_thread {n t : Nat} {l : Local} (hl : (init n).threads[t]? = some l) : l = {} := by
  simp only [init, List.getElem?_replicate] at hl
  split at hl
  · cases hl; rfl
  · cases hl

theorem init_inv (n : Nat) : Inv (init n) {} := by
  have hch : ∀ c, c = Cell.empty → chainH (init n).heap c = [] := by
    intro c hc; subst hc; exact chainH_empty _
  refine ⟨⟨?_, ⟨Nat.le_refl _, Nat.zero_le _⟩, ?_, ?_, ?_, ?_, ?_, ?_, ?_, ?_, ?_, ?_, ?_, ?_, ?_⟩,
    ⟨?_, ?_, ?_, ?_, ?_, ?_, ?_⟩, ⟨?_, ?_, ?_, ?_, ?_⟩, ⟨?_, ?_⟩, ⟨?_⟩⟩
  · intro i n' j h; simp [init] at h
  · intro h hh; cases hh
  · intro h hh; cases hh
  · intro h hh; cases hh
  · intro a ha; exact absurd (show a ∈ ([] : List Nat) from (by have h2 : chO (init n) = [] := hch _ rfl; rw [h2] at ha; exact ha)) (by simp)
  · intro a ha; exact absurd (show a ∈ ([] : List Nat) from (by have h2 : chL (init n) = [] := hch _ rfl; rw [h2] at ha; exact ha)) (by simp)
  · intro a ha; exact absurd (show a ∈ ([] : List Nat) from (by have h2 : chH (init n) = [] := hch _ rfl; rw [h2] at ha; exact ha)) (by simp)
  · intro a ha; exact absurd (show a ∈ ([] : List Nat) from (by have h2 : chL (init n) = [] := hch _ rfl; rw [h2] at ha; exact ha)) (by simp)
  · intro a ha; exact absurd (show a ∈ ([] : List Nat) from (by have h2 : chH (init n) = [] := hch _ rfl; rw [h2] at ha; exact ha)) (by simp)
  · intro a ha; exact absurd (show a ∈ ([] : List Nat) from (by have h2 : chO (init n) = [] := hch _ rfl; rw [h2] at ha; exact ha)) (by simp)
  · intro h; cases h
  · intro _; exact ⟨rfl, by simp [init], rfl, rfl⟩
  · intro lo hg h; cases h
  · intro h; cases h
  · intro t l p hl hc; rw [init_thread hl] at hc; cases hc
  · intro t l hl; rw [init_thread hl]; exact ⟨fun h => False.elim h, fun h => by cases h⟩
  · intro x hx; simp [init] at hx
  · intro t l p hl hc; rw [init_thread hl] at hc; cases hc
  · intro x hx; simp [init] at hx
  · intro t t' l l' p p' hl _ hc; rw [init_thread hl] at hc; cases hc
  · simp [init]
  · intro t l hl; rw [init_thread hl]; exact PcPh.idle _ _
  · intro t t' l l' hl _ hT; rw [init_thread hl] at hT; exact False.elim hT
  · intro t l hl hT; rw [init_thread hl] at hT; exact False.elim hT
  · intro _; rfl
  · intro lo hg h; cases h
  · intro t l h hl hh; rw [init_thread hl] at hh; exact False.elim hh
  · intro t l id h hl hv; rw [init_thread hl] at hv; cases hv
  · intro t l p hl hc; rw [init_thread hl] at hc; cases hc

theorem step_inv {s s' : State} {g : Ghost} {t : Nat} {inv : Option (Nat × KOp)} {rz : Bool} (I : Inv s g)
    (hs : step s t inv rz = some s') : ∃ g', Inv s' g' := by
  cases hl : s.threads[t]? with
  | none => unfold step stepG at hs; rw [hl] at hs; cases hs
  | some l =>
    obtain ⟨g', -, I'⟩ := stepK_inv I hl (step_stepK hl hs)
    exact ⟨g', I'⟩

theorem reachable_inv {n : Nat} {s : State} (hr : Reachable n s) : ∃ g, Inv s g := by
  induction hr with
  | init => exact ⟨_, init_inv n⟩
  | step t inv rz _ hs ih =>
    obtain ⟨g, I⟩ := ih
    exact step_inv I hs

end Flurry.Proto.BinX
