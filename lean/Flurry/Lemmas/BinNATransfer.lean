import Flurry.Lemmas.BinNALin
/-! # Proto/BinNA: a resize has no abstract effect; validated locks (C10)

`stepK_abs_nocall`: no step of a thread that is not executing a call — the resizing thread
(allocation of the next generation, CAS to `moved`, lock / unlock, the three stores, commit) or an idle
thread — changes the abstract content `absOf s k` of any key. `vcell`: the cell on which a thread holds
a validated lock. -/
namespace Flurry.Proto.BinNA
open Flurry.Lin

theorem stepK_abs_nocall {s s' : State} {t : Nat} {l : Local} (I : Inv s) (hl : s.threads[t]? = some l)
    (hcall : l.call = none) (hstep : StepK s t l s') (k : Nat) : absOf s' k = absOf s k := by
  have I' := stepK_inv I hl hstep
  have hpc0 := I.pc t l hl
  cases hstep with
  | idle hpc => apply absOf_congr <;> rfl
  | invoke k' op hpc => apply absOf_congr <;> rfl
  | resize hpc hr =>
    rw [I'.absOf_eq, I.absOf_eq]
    congr 1
    refine abs_same ?_ ?_ k
    · rfl
    · exact fun g j => getD2_append_replicate s.tabs _ g j .empty
  | move p pc' hp hm => rw [hcall] at hp; cases hp
  | tmove pc' hp hm => apply absOf_congr <;> rfl
  | acq g0 j pc' ha hfree => apply absOf_congr <;> rfl
  | rel g0 j pc' hrel => apply absOf_congr <;> rfl
  | fin p res hp hf => rw [hcall] at hp; cases hp
  | cas p g0 v vi hp hpc hc hop => rw [hcall] at hp; cases hp
  | store p g0 hp hpc => rw [hcall] at hp; cases hp
  | unlockFin p g0 res hp hpc => rw [hcall] at hp; cases hp
  | casMoved j hp hpc hc =>
    rw [hpc] at hpc0
    have hcells := getCell_of_setCell (s' := setT (setCell (tick s) s.cur j .moved) t { l with pc := .tNext })
      I rfl (by have := I.len_ge; omega) hpc0.2
    rw [I'.absOf_eq, I.absOf_eq]
    refine abs_casMoved ?_ hcells hc ?_ k
    · rfl
    intro j' hj'
    refine I.child j' (by rw [hj', hc]; simp) ?_
    exact I.noMid hl (by rw [hpc]; trivial) (fun q h => by rw [hpc] at h; exact h) _
  | storeLow j lo hi hp hpc =>
    rw [hpc] at hpc0
    obtain ⟨h1, h2, h3, xs, h4, h5, h6, h7, h8⟩ := hpc0
    have hlen := I.len_rz h1
    have hcells := getCell_of_setCell
      (s' := setT (setCell (tick s) (s.cur + 1) j lo) t { l with pc := .tStoreHigh j hi })
      I rfl (by omega) (by rw [Nat.pow_succ]; omega)
    rw [I'.absOf_eq, I.absOf_eq]
    congr 1
    refine abs_storeChild ?_ hcells ?_ k
    · rfl
    · rw [mod_self_of_lt h2, h4]; simp
  | storeHigh j hi hp hpc =>
    rw [hpc] at hpc0
    obtain ⟨h1, h2, h3, xs, h4, h5, h6, h8⟩ := hpc0
    have hlen := I.len_rz h1
    have hcells := getCell_of_setCell
      (s' := setT (setCell (tick s) (s.cur + 1) (j + 2 ^ s.cur) hi) t { l with pc := .tStoreMoved j })
      I rfl (by omega) (by rw [Nat.pow_succ]; omega)
    rw [I'.absOf_eq, I.absOf_eq]
    congr 1
    refine abs_storeChild ?_ hcells ?_ k
    · rfl
    · rw [add_pow_mod h2, h4]; simp
  | storeMoved j hp hpc =>
    rw [hpc] at hpc0
    obtain ⟨h1, h2, h3, xs, h4, h5, h8⟩ := hpc0
    have hcells := getCell_of_setCell (s' := setT (setCell (tick s) s.cur j .moved) t { l with pc := .tUnlock j })
      I rfl (by have := I.len_ge; omega) h2
    rw [I'.absOf_eq, I.absOf_eq]
    refine abs_storeMoved ?_ hcells h4 h5 h8 k
    rfl
  | commit hp hpc =>
    rw [hpc] at hpc0
    rw [I'.absOf_eq, I.absOf_eq]
    congr 1
    refine abs_commit I ?_ ?_ hpc0.2 k
    · rfl
    · exact fun _ _ => rfl

/-- the cell on which the thread holds a validated lock: a writer about to store, the resizing
thread between its successful re-check and the store of the marker -/
def vcell (s : State) (l : Local) : Option (Nat × Nat) :=
  match l.pc, l.call with
  | .wStore g, some p => some (g, ix g p.key)
  | .tStoreLow j _ _, _ => some (s.cur, j)
  | .tStoreHigh j _, _ => some (s.cur, j)
  | .tStoreMoved j, _ => some (s.cur, j)
  | _, _ => none

theorem vcell_spec {s : State} {t : Nat} {l : Local} {g j : Nat} (h : vcell s l = some (g, j))
    (hpc : PcOK s t (keyOf l) l.pc) :
    getLock s g j = some t ∧ isList (getCell s g j) = true ∧ Fwd s g j := by
  obtain ⟨pc, call⟩ := l
  cases pc <;> cases call <;> simp only [vcell, Option.some.injEq, Prod.mk.injEq, reduceCtorEq] at h
  case wStore.some g0 p =>
    obtain ⟨rfl, rfl⟩ := h
    exact ⟨hpc.2.1, hpc.2.2, hpc.1⟩
  all_goals
    obtain ⟨rfl, rfl⟩ := h
    obtain ⟨_, _, h3, xs, h4, _⟩ := hpc
    exact ⟨h3, by rw [h4]; rfl, fwd_cur s _⟩

end Flurry.Proto.BinNA
