import Flurry.Lemmas.BinNIFrames
/-! # Proto/BinN: what a transition does to the nodes reachable through `next` (C07)

`Reach heap p i`: node `i` is reachable from the pointer `p` through `next`. `Delta k h h'`: every old node
keeps its key, and its `next` either stays, or skips one node (a writer's unlink), or is set to a FRESH node
that has no successor and whose key is not `k` (a writer's append). `stepK_delta`: every transition of
`Proto/BinN` that leaves `absOf k = some v` unchanged is such a `Delta k` — the transfer never writes the
`next` of an old node, a lock only writes the lock word, and an append of a node with key `k` would be an
insert that found `k` absent. Hence (`Reach.delta`) the nodes with key `k` reachable from a fixed pointer
can only become fewer. -/
namespace Flurry.Proto.BinN
open Flurry.Lin
open Flurry.Proto.BinX (NodeS Cell Pending isReader dflt chainFrom cellHead cellOfHead nodeAt nodeAt_of_some getElem?_nodeAt
  IsSeg IsChain chainH Walk)

inductive Reach (heap : List NodeS) : Option Nat → Nat → Prop
  | here {c : Nat} {nd : NodeS} : heap[c]? = some nd → Reach heap (some c) c
  | step {c i : Nat} {nd : NodeS} : heap[c]? = some nd → Reach heap nd.next i → Reach heap (some c) i

theorem Reach.lt {heap : List NodeS} {p : Option Nat} {i : Nat} (h : Reach heap p i) : i < heap.length := by
  induction h with
  | @here c nd hn =>
    rcases Nat.lt_or_ge c heap.length with h | h
    · exact h
    · rw [List.getElem?_eq_none h] at hn; cases hn
  | step _ _ ih => exact ih

theorem Reach.ord_le {cr : CR} {heap : List NodeS} (hok : NextOK cr heap) {p : Option Nat} {i : Nat}
    (h : Reach heap p i) : ∀ c, p = some c → ord cr c ≤ ord cr i := by
  induction h with
  | here _ => intro c hc; cases hc; exact Int.le_refl _
  | @step c i nd hn hr ih =>
    intro c' hc; cases hc
    cases hnx : nd.next with
    | none => rw [hnx] at hr; cases hr
    | some b =>
      have h1 := ih b hnx
      have h2 := (hok c nd b hn hnx).1
      omega

/-- no cycles: a node is not reachable from its successor -/
theorem Reach.ord_lt {cr : CR} {heap : List NodeS} (hok : NextOK cr heap) {c i : Nat} {nd : NodeS}
    (hn : heap[c]? = some nd) (hr : Reach heap nd.next i) : ord cr c < ord cr i := by
  cases hnx : nd.next with
  | none => rw [hnx] at hr; cases hr
  | some b =>
    have h1 := (hr.ord_le hok) b hnx
    have h2 := (hok c nd b hn hnx).1
    omega

/-- everything reachable from the head of a chain is on the chain -/
theorem Reach.mem_chain {heap : List NodeS} {p : Option Nat} {i : Nat} (h : Reach heap p i) :
    ∀ l, IsChain heap p l → i ∈ l := by
  induction h with
  | here _ => intro l hl; cases hl; simp
  | @step c i nd hn hr ih =>
    intro l hl
    cases hl with
    | cons hn' hs =>
      rw [hn] at hn'; cases hn'
      exact List.mem_cons_of_mem _ (ih _ hs)

structure Delta (k : Nat) (h h' : List NodeS) : Prop where
  len : h.length ≤ h'.length
  old : ∀ (c : Nat) (nd' : NodeS), c < h.length → h'[c]? = some nd' → ∃ nd, h[c]? = some nd ∧ nd'.key = nd.key ∧
    (nd'.next = nd.next ∨
     (∃ x ndx, nd.next = some x ∧ h[x]? = some ndx ∧ nd'.next = ndx.next) ∨
     (∃ j ndj, nd'.next = some j ∧ h.length ≤ j ∧ h'[j]? = some ndj ∧ ndj.key ≠ k ∧ ndj.next = none))

/-- what is reachable afterwards was reachable before, or is a fresh node whose key is not `k` -/
theorem Reach.delta {k : Nat} {cr : CR} {h h' : List NodeS} (d : Delta k h h') (hok : NextOK cr h) {p : Option Nat} {i : Nat}
    (hr : Reach h' p i) : (∀ c, p = some c → c < h.length) →
    (i < h.length ∧ Reach h p i) ∨ (h.length ≤ i ∧ ∀ nd, h'[i]? = some nd → nd.key ≠ k) := by
  induction hr with
  | @here c nd' hn' =>
    intro hp
    obtain ⟨nd, hn, -, -⟩ := d.old c nd' (hp c rfl) hn'
    exact Or.inl ⟨hp c rfl, .here hn⟩
  | @step c i nd' hn' hr ih =>
    intro hp
    obtain ⟨nd, hn, -, hcase⟩ := d.old c nd' (hp c rfl) hn'
    rcases hcase with e | ⟨x, ndx, hx, hndx, e⟩ | ⟨j, ndj, e, hj, hndj, hkj, hnj⟩
    · have hval : ∀ b, nd'.next = some b → b < h.length := fun b hb => (hok c nd b hn (by rw [← e]; exact hb)).2
      rcases ih hval with ⟨h1, h2⟩ | h2
      · exact Or.inl ⟨h1, .step hn (by rw [← e]; exact h2)⟩
      · exact Or.inr h2
    · have hval : ∀ b, nd'.next = some b → b < h.length := fun b hb => (hok x ndx b hndx (by rw [← e]; exact hb)).2
      rcases ih hval with ⟨h1, h2⟩ | h2
      · exact Or.inl ⟨h1, .step hn (by rw [hx]; exact .step hndx (by rw [← e]; exact h2))⟩
      · exact Or.inr h2
    · rw [e] at hr
      cases hr with
      | here _ => exact Or.inr ⟨hj, fun nd hnd => by rw [hndj] at hnd; cases hnd; exact hkj⟩
      | step hj' hr2 =>
        rw [hndj] at hj'; cases hj'
        rw [hnj] at hr2; cases hr2

/-! ## constructing `Delta` -/

theorem getElem?_modify' {α : Type} (h : List α) (i c : Nat) (f : α → α) :
    (h.modify i f)[c]? = if i = c then h[c]?.map f else h[c]? := by
  rw [List.getElem?_modify]; by_cases e : i = c <;> simp [e]

theorem delta_kn {k : Nat} {h h' : List NodeS} (hlen : h.length ≤ h'.length)
    (hold : ∀ (c : Nat) (nd' : NodeS), c < h.length → h'[c]? = some nd' →
      ∃ nd, h[c]? = some nd ∧ nd'.key = nd.key ∧ nd'.next = nd.next) : Delta k h h' :=
  ⟨hlen, fun c nd' hc hn => by
    obtain ⟨nd, h1, h2, h3⟩ := hold c nd' hc hn
    exact ⟨nd, h1, h2, Or.inl h3⟩⟩

theorem delta_same (k : Nat) (h : List NodeS) : Delta k h h :=
  delta_kn (Nat.le_refl _) (fun _ nd' _ hn => ⟨nd', hn, rfl, rfl⟩)

theorem delta_append (k : Nat) (h ext : List NodeS) : Delta k h (h ++ ext) :=
  delta_kn (by simp) (fun c nd' hc hn => by
    rw [List.getElem?_append_left hc] at hn
    exact ⟨nd', hn, rfl, rfl⟩)

theorem delta_modify (k : Nat) (h : List NodeS) (i : Nat) (f : NodeS → NodeS)
    (hf : ∀ m, (f m).key = m.key ∧ (f m).next = m.next) : Delta k h (h.modify i f) :=
  delta_kn (by simp) (fun c nd' hc hn => by
    rw [getElem?_modify'] at hn
    by_cases e : i = c
    · rw [if_pos e] at hn
      cases hx : h[c]? with
      | none => rw [hx] at hn; cases hn
      | some nd =>
        rw [hx] at hn; cases hn
        exact ⟨nd, rfl, (hf nd).1, (hf nd).2⟩
    · rw [if_neg e] at hn
      exact ⟨nd', hn, rfl, rfl⟩)

/-- the writer's append behind node `l` -/
theorem delta_link {k : Nat} (h : List NodeS) (l : Nat) (new : NodeS) (hk : new.key ≠ k) (hn : new.next = none) :
    Delta k h ((h ++ [new]).modify l (fun n => { n with next := some h.length })) := by
  refine ⟨by simp, fun c nd' hc hget => ?_⟩
  rw [getElem?_modify'] at hget
  by_cases e : l = c
  · subst e
    rw [if_pos rfl, List.getElem?_append_left hc] at hget
    cases hx : h[l]? with
    | none => rw [hx] at hget; cases hget
    | some nd =>
      rw [hx] at hget; cases hget
      refine ⟨nd, rfl, rfl, Or.inr (Or.inr ⟨h.length, new, rfl, Nat.le_refl _, ?_, hk, hn⟩)⟩
      rw [getElem?_modify', if_neg (by omega)]
      simp
  · rw [if_neg e, List.getElem?_append_left hc] at hget
    exact ⟨nd', hget, rfl, Or.inl rfl⟩

/-- the writer's unlink of the successor `i` of node `pr` -/
theorem delta_unlink {k : Nat} (h : List NodeS) {pr i : Nat} {npr ni : NodeS} (hpr : h[pr]? = some npr)
    (hnx : npr.next = some i) (hi : h[i]? = some ni) :
    Delta k h (h.modify pr (fun m => { m with next := ni.next })) := by
  refine ⟨by simp, fun c nd' hc hget => ?_⟩
  rw [getElem?_modify'] at hget
  by_cases e : pr = c
  · subst e
    rw [if_pos rfl, hpr] at hget
    cases hget
    exact ⟨npr, hpr, rfl, Or.inr (Or.inl ⟨i, ni, hnx, hi, rfl⟩)⟩
  · rw [if_neg e] at hget
    exact ⟨nd', hget, rfl, Or.inl rfl⟩

/-- the predecessor remembered by a writer's walk points to the node it found -/
theorem walk_pred_hit {heap : List NodeS} {a : Option Nat} {C : List Nat} (hc : IsChain heap a C) {key : Nat}
    {pred hit : Option Nat} (w : Walk heap C key pred hit) {i pr : Nat} (hi : hit = some i) (hp : pred = some pr) :
    ∃ npr ni, heap[pr]? = some npr ∧ npr.next = some i ∧ heap[i]? = some ni := by
  obtain ⟨l1, l2, rfl, h2, h1, -⟩ := w
  cases l2 with
  | nil => rw [hi] at h2; cases h2
  | cons i' l2' =>
    rw [hi] at h2
    have : i = i' := by simpa using h2
    subst this
    rw [hp] at h1
    obtain ⟨ys, rfl⟩ := List.getLast?_eq_some_iff.1 h1.symm
    rw [List.append_assoc] at hc
    obtain ⟨b, -, hb⟩ := IsSeg.split hc
    obtain ⟨-, npr, hnpr, hs⟩ := IsSeg.cons_iff.1 hb
    obtain ⟨hnx, ni, hni, -⟩ := IsSeg.cons_iff.1 hs
    exact ⟨npr, ni, hnpr, hnx, hni⟩

theorem storeAt_res_append (s : State) (g : Nat) (p : Pending) (pred hnext : Option Nat) {v vi : Nat}
    (hop : p.op = .ins v vi ∨ p.op = .tryIns v vi) : (storeAt s g p pred none hnext).2 = .none := by
  unfold storeAt
  rcases hop with h | h <;> rw [h]

theorem spec_res_present (v0 : Nat × Nat) {op : KOp} {v vi : Nat} (hop : op = .ins v vi ∨ op = .tryIns v vi) :
    (specStep (some v0) op).2 ≠ .none := by
  obtain ⟨a, b⟩ := v0
  rcases hop with h | h <;> rw [h] <;> simp [specStep, resOf]

/-- the writer's store, on the nodes -/
theorem storeAt_delta (s : State) (g : Nat) (p : Pending) (pred hit hnext : Option Nat) (k : Nat)
    (happ : hit = none → ∀ v vi, (p.op = .ins v vi ∨ p.op = .tryIns v vi) → p.key ≠ k)
    (hunl : ∀ i pr, hit = some i → pred = some pr →
      ∃ npr ni, s.heap[pr]? = some npr ∧ npr.next = some i ∧ s.heap[i]? = some ni ∧ hnext = ni.next) :
    Delta k s.heap (storeAt s g p pred hit hnext).1.heap := by
  have hval : ∀ (i : Nat) (x : Nat × Nat), Delta k s.heap (setNode s i (fun n => { n with val := x })).heap :=
    fun i x => delta_modify k s.heap i _ (fun m => ⟨rfl, rfl⟩)
  have happend : ∀ v vi, (p.op = .ins v vi ∨ p.op = .tryIns v vi) → hit = none →
      Delta k s.heap (appendAt s g p.key pred (v, vi)).heap := by
    intro v vi hop hh
    unfold appendAt
    cases pred with
    | some l => exact delta_link s.heap l _ (happ hh v vi hop) rfl
    | none => exact delta_append k s.heap _
  have hunlink : ∀ i, hit = some i → Delta k s.heap (unlinkAt s g p.key pred hnext).heap := by
    intro i hh
    unfold unlinkAt
    cases pred with
    | some pr =>
      obtain ⟨npr, ni, h1, h2, h3, h4⟩ := hunl i pr hh rfl
      subst h4
      exact delta_unlink s.heap h1 h2 h3
    | none => exact delta_same k s.heap
  unfold storeAt
  cases hop : p.op with
  | ins v vi =>
    cases hit with
    | some i => exact hval i _
    | none => exact happend v vi (Or.inl hop) rfl
  | tryIns v vi =>
    cases hit with
    | some i => exact delta_same k s.heap
    | none => exact happend v vi (Or.inr hop) rfl
  | rm =>
    cases hit with
    | some i => exact hunlink i rfl
    | none => exact delta_same k s.heap
  | cipInc nvi =>
    cases hit with
    | some i => exact hval i _
    | none => exact delta_same k s.heap
  | cipRm =>
    cases hit with
    | some i => exact hunlink i rfl
    | none => exact delta_same k s.heap
  | get => exact delta_same k s.heap
  | has => exact delta_same k s.heap

end Flurry.Proto.BinN
