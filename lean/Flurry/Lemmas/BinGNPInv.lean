import Flurry.Lemmas.BinGNPBase
import Flurry.Lemmas.BinKInv
/-! # Proto/BinGN (port of `Lemmas/BinGInv.lean`): the structural invariant — definitions

`Lemmas/BinGInv.lean` re-stated for the cells `Cid = (g, j)` of any number of generations. What differs:
* `HInv.side`: every key on the list / in the tree of cell `(g, j)` satisfies `key % 2^g = j` (for ALL cells);
  `HInv.binsDistinct`: two cells hold the same `TreeBin` only while the transfer that re-uses it is past its first
  store (`Reusing`);
* `cidOf s l`: the resizing thread works in cell `(cur, j)` (`xIdx`), every other thread in `idOf g (keyOf l)`;
* `pend`, `PrivBin`, `PrivX` refer to the cell under transfer `(cur, j)` and its children `(cur+1, j)`,
  `(cur+1, j + 2^cur)` instead of `cell0` / `lowCell` / `highCell`;
* `XInv`: the generation structure (`len`, `rows`, `old`, `newNotMoved`, `noResz`, `idx`, `pre`, `post`, `nextEmpty`,
  `tabNew`) replaces `noResz` / `pre` / `post` / `lowEmpty` / `highEmpty` / `tabNew` / `curMoved` of BinG;
  `Plan s j lo hi` is relative to the cell `(cur, j)` and the split bit `bitAt cur`.
Everything else is verbatim. -/
namespace Flurry.Proto.BinGNP
open Flurry.Lin
open Flurry.Proto.BinK (nodeAt binAt NextOK IsChain IsSeg chainOf CInv absL)

/-! ## cells -/

/-- the start of the list of a structure -/
def startOf (tbins : List TBin) : Cell → Option Nat
  | .list h => some h
  | .tree b => (binAt tbins b).first
  | _ => none

/-- the list of a structure -/
def chainC (s : State) (c : Cell) : List Nat := chainOf s.heap (startOf s.tbins c)

theorem chainOfCell_eq (s : State) (c : Cell) : chainOfCell s c = chainC s c := by
  unfold chainOfCell chainC chainOf startOf chainOfBin binAt
  cases c with
  | empty => simp only; rw [Flurry.Proto.BinK.chainFrom_none]
  | list h => rfl
  | tree b => rfl
  | moved => simp only; rw [Flurry.Proto.BinK.chainFrom_none]

theorem chainOfBin_eq (s : State) (b : Nat) : chainOfBin s b = chainC s (.tree b) := rfl

/-- the nodes in the tree of a structure -/
def treeOf (s : State) (c : Cell) (j : Nat) : Prop :=
  j < s.heap.length ∧ (nodeAt s.heap j).inTree = true ∧ ∃ b, c = .tree b ∧ (nodeAt s.heap j).owner = some b

/-- the owner of the nodes of a structure -/
def ownerOf : Cell → Option Nat
  | .tree b => some b
  | _ => none

/-- the cell a lookup of `k` ends in -/
def liveId (s : State) (k : Nat) : Cid :=
  if cellAt s (idOf s.cur k) = .moved then idOf (s.cur + 1) k else idOf s.cur k

/-- the live chain of key `k` -/
def LC (s : State) (k : Nat) : List Nat := chainC s (liveCell s k)

theorem absOf_eq (s : State) (k : Nat) : absOf s k = absL s.heap (LC s k) k := by
  unfold absOf absL LC nodeAt
  rw [chainOfCell_eq]
  cases (chainC s (liveCell s k)).find? (fun i => (s.heap.getD i dflt).key == k) <;> rfl

/-! ## a structure that holds the selected part of an old chain -/

/-- the structure `C` holds exactly the nodes of the list `O` of the old structure `old` whose key
satisfies `sel`: as re-used nodes (a suffix of `O`, in the same order) or as copies (nodes not on `O`,
same key and value, in front of the re-used ones) -/
structure CopyOK (s : State) (old : Cell) (sel : Nat → Bool) (C : Cell) : Prop where
  notMoved : C ≠ .moved
  cinv : CInv s.heap (startOf s.tbins C) (treeOf s C)
  cellOK : ∀ b, C = .tree b → b < s.tbins.length
  chainOwner : ∀ j ∈ chainC s C, (nodeAt s.heap j).owner = ownerOf C
  selOK : ∀ j, (j ∈ chainC s C ∨ treeOf s C j) → sel (nodeAt s.heap j).key = true
  src : ∀ j ∈ chainC s C, j ∉ chainC s old → ∃ i ∈ chainC s old, (nodeAt s.heap i).key = (nodeAt s.heap j).key ∧
    (nodeAt s.heap i).val = (nodeAt s.heap j).val ∧ ∀ r ∈ chainC s old, r ∈ chainC s C → List.Sublist [i, r] (chainC s old)
  cover : ∀ i ∈ chainC s old, sel (nodeAt s.heap i).key = true → ∃ j ∈ chainC s C,
    (nodeAt s.heap j).key = (nodeAt s.heap i).key ∧ (nodeAt s.heap j).val = (nodeAt s.heap i).val ∧
    (j = i ∨ j ∉ chainC s old)
  suffix : ∀ r ∈ chainC s old, r ∈ chainC s C → ∀ i ∈ chainC s old, List.Sublist [r, i] (chainC s old) → i ∈ chainC s C
  order : ∀ i c, i ∈ chainC s old → c ∈ chainC s old → List.Sublist [i, c] (chainC s C) → List.Sublist [i, c] (chainC s old)
  /-- a `TreeBin` other than the old one is fresh: default synchronisation words, the tree holds
  exactly the nodes of the list, none of which is an old node -/
  fresh : ∀ b, C = .tree b → old ≠ .tree b →
    binAt s.tbins b = { first := (binAt s.tbins b).first } ∧
    (∀ j, j < s.heap.length → ((nodeAt s.heap j).owner = some b ↔ j ∈ chainC s C)) ∧
    (∀ j ∈ chainC s C, (nodeAt s.heap j).inTree = true)

/-! ## the heap -/

/-- the transfer that re-uses `TreeBin` `b` is past its first store: `b` is in cell `(cur, j0)` and in a child -/
def Reusing (s : State) (b j0 : Nat) : Prop :=
  ∃ (t : Nat) (l : Local), s.threads[t]? = some l ∧
    ((∃ hi, l.pc = .xStoreHigh j0 (.inr b) hi) ∨ l.pc = .xStoreMoved j0 (.inr b))


structure HInv (s : State) : Prop where
  cinv : ∀ id, CInv s.heap (startOf s.tbins (cellAt s id)) (treeOf s (cellAt s id))
  ownerOK : ∀ j b, (nodeAt s.heap j).owner = some b → b < s.tbins.length
  firstOK : ∀ b h, (binAt s.tbins b).first = some h → h < s.heap.length
  cellOK : ∀ id b, cellAt s id = .tree b → b < s.tbins.length
  chainOwner : ∀ id, ∀ j ∈ chainC s (cellAt s id), (nodeAt s.heap j).owner = ownerOf (cellAt s id)
  /-- every key on the list / in the tree of cell `(g, j)` belongs to the cell -/
  side : ∀ id : Cid, ∀ j, (j ∈ chainC s (cellAt s id) ∨ treeOf s (cellAt s id) j) →
    (nodeAt s.heap j).key % 2 ^ id.1 = id.2
  /-- two cells hold the same `TreeBin` only while the transfer that re-uses it is past its first store -/
  binsDistinct : ∀ (id id' : Cid) b, cellAt s id = .tree b → cellAt s id' = .tree b → id = id' ∨
    ∃ j0, Reusing s b j0 ∧ ((id = (s.cur, j0) ∧ id'.1 = s.cur + 1 ∧ id'.2 % 2 ^ s.cur = j0) ∨
      (id' = (s.cur, j0) ∧ id.1 = s.cur + 1 ∧ id.2 % 2 ^ s.cur = j0))

theorem HInv.nextOK {s : State} (H : HInv s) : NextOK s.heap := (H.cinv (0, 0)).nextOK

/-! ## classification of program counters -/

def readerPc : Pc → Bool
  | .rTable _ | .rCell _ _ | .rNode _ | .rFirst _ | .rState _ _ | .rLin _ _ | .rCas _ _ _ | .rTree _
  | .rRelease _ _ | .rVal _ | .lFirst _ | .lNode _ => true
  | _ => false

/-- program counters of the treeify thread -/
def kPc : Pc → Bool
  | .kTable _ | .kCell _ _ | .kLock _ _ _ | .kCheck _ _ _ | .kBuild _ _ _ | .kStore _ _ _ _ | .kUnlock _ => true
  | _ => false

/-- program counters of the resizing thread -/
def xPc : Pc → Bool
  | .xNext | .xCell _ | .xCasMoved _ | .xLock _ _ | .xCheck _ _ | .xBuild _ _ | .yMutex _ _ | .yCheck _ _ | .yBuild _ _
  | .xStoreLow _ _ _ _ | .xStoreHigh _ _ _ | .xStoreMoved _ _ | .xUnlock _ | .xCommit => true
  | _ => false

/-- program counters without a call in flight -/
def noCallPc (pc : Pc) : Bool := pc == .idle || kPc pc || xPc pc

def unlL : Nat ⊕ Nat → Option Nat
  | .inl h => some h
  | .inr _ => none

def unlT : Nat ⊕ Nat → Option Nat
  | .inl _ => none
  | .inr b => some b

/-- holds the lock word of node `h` -/
def holdsLock : Pc → Option Nat
  | .wCheck _ h | .wFind _ h _ _ | .wStore _ h _ _ _ | .wUnlock _ h _ _ => some h
  | .kCheck _ _ h | .kBuild _ _ h | .kStore _ _ h _ | .kUnlock h => some h
  | .xCheck _ h | .xBuild _ h => some h
  | .xStoreLow _ unl _ _ | .xStoreHigh _ unl _ | .xStoreMoved _ unl | .xUnlock unl => unlL unl
  | _ => none

/-- the table a program counter works in -/
def tabOf : Pc → Option Nat
  | .rCell _ tab | .wCell tab | .wCas tab | .wLock tab _ | .wCheck tab _ | .wFind tab _ _ _
  | .wStore tab _ _ _ _ | .wUnlock tab _ _ _ => some tab
  | .tMutex tab _ | .tCheck tab _ | .tFind tab _ | .tVal tab _ _ _ _ | .lrTry tab _ _ _ | .lrLoop tab _ _ _
  | .tPrependLocked tab _ | .tTreeLinkLocked tab _ _ | .tUnlinkLocked tab _ _ _ | .tRestructure tab _ _ _
  | .tUnlockRoot tab _ _ | .tUntreeify tab _ _ | .tUnlockM tab _ _ _ => some tab
  | .kCell tab _ | .kLock tab _ _ | .kCheck tab _ _ | .kBuild tab _ _ | .kStore tab _ _ _ => some tab
  | _ => none

/-- the key whose cell the thread works in -/
def keyOf (l : Local) : Nat :=
  match l.pc, l.call with
  | .kCell _ k, _ | .kLock _ k _, _ | .kCheck _ k _, _ | .kBuild _ k _, _ | .kStore _ k _ _, _ => k
  | _, some p => p.key
  | _, none => 0

/-- the cell (of generation `cur`) the resizing thread is transferring -/
def xIdx : Pc → Option Nat
  | .xCell j | .xCasMoved j | .xLock j _ | .xCheck j _ | .xBuild j _ | .yMutex j _ | .yCheck j _ | .yBuild j _
  | .xStoreLow j _ _ _ | .xStoreHigh j _ _ | .xStoreMoved j _ => some j
  | _ => none

/-- the cell the thread works in -/
def cidOf (s : State) (l : Local) : Cid :=
  match xIdx l.pc with
  | some j => (s.cur, j)
  | none =>
    match tabOf l.pc with
    | some tab => idOf tab (keyOf l)
    | none => (0, 0)

/-- past the successful re-check of its cell against `list h`, before its store -/
def validL : Pc → Option Nat
  | .wFind _ h _ _ | .wStore _ h _ _ _ | .kBuild _ _ h | .kStore _ _ h _ => some h
  | .xBuild _ h => some h
  | .xStoreLow _ unl _ _ | .xStoreHigh _ unl _ | .xStoreMoved _ unl => unlL unl
  | _ => none

/-- holds the mutex of `TreeBin` `b` -/
def holdsMutex : Pc → Option Nat
  | .tCheck _ b | .tFind _ b | .tVal _ b _ _ _ | .lrTry _ b _ _ | .lrLoop _ b _ _ | .tPrependLocked _ b
  | .tTreeLinkLocked _ b _ | .tUnlinkLocked _ b _ _ | .tRestructure _ b _ _ | .tUnlockRoot _ b _
  | .tUntreeify _ b _ | .tUnlockM _ b _ _ => some b
  | .yCheck _ b | .yBuild _ b => some b
  | .xStoreLow _ unl _ _ | .xStoreHigh _ unl _ | .xStoreMoved _ unl | .xUnlock unl => unlT unl
  | _ => none

/-- past the successful re-check of its cell against `tree b`, before the untreeify / forwarding store -/
def validT : Pc → Option Nat
  | .tFind _ b | .tVal _ b _ _ _ | .lrTry _ b _ _ | .lrLoop _ b _ _ | .tPrependLocked _ b
  | .tTreeLinkLocked _ b _ | .tUnlinkLocked _ b _ _ | .tRestructure _ b _ _ | .tUnlockRoot _ b _
  | .tUntreeify _ b _ => some b
  | .yBuild _ b => some b
  | .xStoreLow _ unl _ _ | .xStoreHigh _ unl _ | .xStoreMoved _ unl => unlT unl
  | _ => none

/-- holds the write lock of its `TreeBin` -/
def wr : Pc → Bool
  | .tPrependLocked _ _ | .tTreeLinkLocked _ _ _ | .tUnlinkLocked _ _ _ _ | .tRestructure _ _ _ _
  | .tUnlockRoot _ _ _ | .tUntreeify _ _ _ => true
  | _ => false

def isLoop : Pc → Bool
  | .lrLoop _ _ _ _ => true
  | _ => false

/-- holds a read lock of `TreeBin` `b` -/
def holdsRead : Pc → Option Nat
  | .rTree b | .rRelease b _ => some b
  | _ => none

/-- the `TreeBin` a program counter refers to -/
def binRef : Pc → Option Nat
  | .rFirst b | .rState b _ | .rLin b _ | .rCas b _ _ | .rTree b | .rRelease b _ | .lFirst b | .tMutex _ b => some b
  | .tCheck _ b | .tFind _ b | .tVal _ b _ _ _ | .lrTry _ b _ _ | .lrLoop _ b _ _ | .tPrependLocked _ b
  | .tTreeLinkLocked _ b _ | .tUnlinkLocked _ b _ _ | .tRestructure _ b _ _ | .tUnlockRoot _ b _
  | .tUntreeify _ b _ | .tUnlockM _ b _ _ => some b
  | .yMutex _ b | .yCheck _ b | .yBuild _ b => some b
  | .xStoreLow _ unl _ _ | .xStoreHigh _ unl _ | .xStoreMoved _ unl | .xUnlock unl => unlT unl
  | _ => none

/-- the structures a thread has built (or stored into a cell that is not yet live) but not yet published -/
def pend (s : State) : Pc → List Cell
  | .kStore _ _ _ b => [.tree b]
  | .xStoreLow _ _ lo hi => [lo, hi]
  | .xStoreHigh j _ hi => [cellAt s (s.cur + 1, j), hi]
  | .xStoreMoved j _ => [cellAt s (s.cur + 1, j), cellAt s (s.cur + 1, j + 2 ^ s.cur)]
  | _ => []

/-- a `TreeBin` that is built but not yet published (the re-used bin of a transfer is in the old cell) -/
def PrivBin (s : State) (b : Nat) : Prop :=
  ∃ (t : Nat) (l : Local), s.threads[t]? = some l ∧ (.tree b : Cell) ∈ pend s l.pc ∧
    ∀ j, xIdx l.pc = some j → cellAt s (s.cur, j) ≠ .tree b

/-- private nodes of a treeify: the nodes of its unpublished `TreeBin` -/
def PrivK (s : State) (j : Nat) : Prop :=
  ∃ (t : Nat) (l : Local) (tab : Nat) (k h b : Nat), s.threads[t]? = some l ∧ l.pc = .kStore tab k h b ∧
    (nodeAt s.heap j).owner = some b

/-- private nodes of the transfer: the copies in the new structures that are not yet live -/
def PrivX (s : State) (j : Nat) : Prop :=
  ∃ (t : Nat) (l : Local) (C : Cell), s.threads[t]? = some l ∧ xPc l.pc = true ∧ C ∈ pend s l.pc ∧
    j ∈ chainC s C ∧ ∀ j0, xIdx l.pc = some j0 → j ∉ chainC s (cellAt s (s.cur, j0))

/-- nodes that may still be written or linked: on the chain of a cell, or private -/
def Used (s : State) (j : Nat) : Prop :=
  (∃ id, j ∈ chainC s (cellAt s id)) ∨ PrivK s j ∨ PrivX s j

/-- number of threads whose pc satisfies `q` -/
def cnt (q : Pc → Bool) (ls : List Local) : Nat := (ls.filter (fun l => q l.pc)).length

/-! ## threads and times -/

def PcOp (pc : Pc) (op : KOp) : Prop := noCallPc pc = false → isReader op = readerPc pc

structure TInv (s : State) : Prop where
  opOK : ∀ (t : Nat) (l : Local) (p : Pending), s.threads[t]? = some l → l.call = some p → PcOp l.pc p.op
  callOK : ∀ (t : Nat) (l : Local), s.threads[t]? = some l → (l.call = none ↔ noCallPc l.pc = true)
  histTime : ∀ x ∈ s.hist, x.2.inv ≤ x.2.resp ∧ x.2.resp ≤ s.now
  pendTime : ∀ (t : Nat) (l : Local) (p : Pending), s.threads[t]? = some l → l.call = some p → p.inv ≤ s.now
  uniqHP : ∀ x ∈ s.hist, ∀ (t : Nat) (l : Local) (p : Pending), s.threads[t]? = some l → l.call = some p →
    x.2.inv ≠ p.inv
  uniqPP : ∀ (t t' : Nat) (l l' : Local) (p p' : Pending), s.threads[t]? = some l → s.threads[t']? = some l' →
    l.call = some p → l'.call = some p' → p.inv = p'.inv → t = t'
  uniqHH : s.hist.Pairwise (fun x y => x.2.inv ≠ y.2.inv)

/-! ## the resize -/

/-- the low child of the cell under transfer has been stored (and the forwarding marker has not) -/
def lowStored : Pc → Option Nat
  | .xStoreHigh j _ _ | .xStoreMoved j _ => some j
  | _ => none

def highStored : Pc → Option Nat
  | .xStoreMoved j _ => some j
  | _ => none

/-- the resizing thread works on cell `(cur, j)`, which is not forwarded (it has seen it non-empty, or is about
to CAS it) -/
def xPre : Pc → Bool
  | .xCasMoved _ | .xLock _ _ | .xCheck _ _ | .xBuild _ _ | .yMutex _ _ | .yCheck _ _ | .yBuild _ _
  | .xStoreLow _ _ _ _ | .xStoreHigh _ _ _ | .xStoreMoved _ _ => true
  | _ => false

def sideSel (g : Nat) (b : Bool) : Nat → Bool := fun k => bitAt g k == b

/-- the two new structures are the two sides of the chain of the old cell `(cur, j)` -/
structure Plan (s : State) (j : Nat) (lo hi : Cell) : Prop where
  low : CopyOK s (cellAt s (s.cur, j)) (sideSel s.cur false) lo
  high : CopyOK s (cellAt s (s.cur, j)) (sideSel s.cur true) hi
  distinct : ∀ b, lo = .tree b → hi ≠ .tree b

/-- what the program counter of the resizing thread says about the children of the cell under transfer -/
def XPc (s : State) : Pc → Prop
  | .xStoreLow j _ lo hi => Plan s j lo hi
  | .xStoreHigh j _ hi => Plan s j (cellAt s (s.cur + 1, j)) hi
  | .xStoreMoved j _ => Plan s j (cellAt s (s.cur + 1, j)) (cellAt s (s.cur + 1, j + 2 ^ s.cur))
  | _ => True

/-- the transfer in progress has stored child `j'` -/
def StoredW (s : State) (j' : Nat) : Prop :=
  ∃ (t : Nat) (l : Local), s.threads[t]? = some l ∧
    (lowStored l.pc = some j' ∨ ∃ j, highStored l.pc = some j ∧ j' = j + 2 ^ s.cur)

structure XInv (s : State) : Prop where
  uniqX : ∀ (t t' : Nat) (l l' : Local), s.threads[t]? = some l → s.threads[t']? = some l' →
    xPc l.pc = true → xPc l'.pc = true → t = t'
  resz : ∀ (t : Nat) (l : Local), s.threads[t]? = some l → xPc l.pc = true → s.resizing = true
  /-- the shape of the tables: generations `0 … cur` (+ `cur + 1` while a resize runs), `2^g` cells each -/
  len : s.tabs.length = s.cur + 1 + (if s.resizing then 1 else 0)
  rows : ∀ g row, s.tabs[g]? = some row → row.length = 2 ^ g
  /-- every cell of a generation older than `cur` is forwarded -/
  old : ∀ g j, g < s.cur → j < 2 ^ g → cellAt s (g, j) = .moved
  /-- no cell of the next generation is forwarded -/
  newNotMoved : ∀ j, cellAt s (s.cur + 1, j) ≠ .moved
  noResz : s.resizing = false → ∀ j, cellAt s (s.cur, j) ≠ .moved
  idx : ∀ (t : Nat) (l : Local) (j : Nat), s.threads[t]? = some l → xIdx l.pc = some j → j < 2 ^ s.cur
  /-- while the resizing thread works on a cell (past its load), the cell is not forwarded -/
  pre : ∀ (t : Nat) (l : Local) (j : Nat), s.threads[t]? = some l → xPre l.pc = true → xIdx l.pc = some j →
    cellAt s (s.cur, j) ≠ .moved
  /-- the resizing thread commits only when every cell is forwarded -/
  post : ∀ (t : Nat) (l : Local), s.threads[t]? = some l → l.pc = .xCommit → ∀ j, j < 2 ^ s.cur →
    cellAt s (s.cur, j) = .moved
  /-- cells of the generation being filled are empty until the transfer of their parent stores them -/
  nextEmpty : ∀ j', cellAt s (s.cur + 1, j') ≠ .empty → cellAt s (s.cur, j' % 2 ^ s.cur) = .moved ∨ StoredW s j'
  /-- a thread works in a generation `≤ cur + 1`, and in `cur + 1` only behind a forwarding marker -/
  tabNew : ∀ (t : Nat) (l : Local) (g : Nat), s.threads[t]? = some l → tabOf l.pc = some g →
    g ≤ s.cur + 1 ∧ (g = s.cur + 1 → cellAt s (idOf s.cur (keyOf l)) = .moved)
  plan : ∀ (t : Nat) (l : Local), s.threads[t]? = some l → XPc s l.pc

/-! ## the locks -/

structure LInv (s : State) : Prop where
  lk : ∀ (t : Nat) (l : Local) (h : Nat), s.threads[t]? = some l →
    (holdsLock l.pc = some h ↔ (nodeAt s.heap h).lock = some t)
  lkValid : ∀ h x, (nodeAt s.heap h).lock = some x → x < s.threads.length
  vL : ∀ (t : Nat) (l : Local) (h : Nat), s.threads[t]? = some l → validL l.pc = some h →
    cellAt s (cidOf s l) = .list h
  mx : ∀ (t : Nat) (l : Local) (b : Nat), s.threads[t]? = some l →
    (holdsMutex l.pc = some b ↔ (binAt s.tbins b).mutex = some t)
  mxValid : ∀ b x, (binAt s.tbins b).mutex = some x → x < s.threads.length
  vT : ∀ (t : Nat) (l : Local) (b : Nat), s.threads[t]? = some l → validT l.pc = some b →
    cellAt s (cidOf s l) = .tree b
  bitsNone : ∀ id b, cellAt s id = .tree b → (binAt s.tbins b).mutex = none →
    (binAt s.tbins b).writer = false ∧ (binAt s.tbins b).waiter = false
  bitsSome : ∀ (id : Cid) (b t : Nat) (l : Local), cellAt s id = .tree b → s.threads[t]? = some l →
    (binAt s.tbins b).mutex = some t →
    (binAt s.tbins b).writer = wr l.pc ∧ ((binAt s.tbins b).waiter = true → isLoop l.pc = true)
  rd : ∀ b, b < s.tbins.length →
    (binAt s.tbins b).readers = cnt (fun pc => holdsRead pc == some b) s.threads
  wrd : ∀ b, (binAt s.tbins b).writer = true → (binAt s.tbins b).readers = 0
  refOK : ∀ (t : Nat) (l : Local) (b : Nat), s.threads[t]? = some l → binRef l.pc = some b →
    b < s.tbins.length ∧ ¬ PrivBin s b

/-- the thread is past a successful re-check of its cell -/
def validated (pc : Pc) : Bool := (validL pc).isSome || (validT pc).isSome

/-! ## what the program counters know -/

/-- the walk of a validated list-bin writer looking for `key` on the list from `h`: the nodes passed
are the prefix `l1` (none of them has the key), `pred` is the last of them, `cur` the next -/
def Walk (s : State) (h key : Nat) (pred cur : Option Nat) : Prop :=
  ∃ l1 l2, chainOf s.heap (some h) = l1 ++ l2 ∧ cur = l2.head? ∧ pred = l1.getLast? ∧
    ∀ j ∈ l1, (nodeAt s.heap j).key ≠ key

/-- the writer has found the node `i` of the list of bin `b` and will make `p`'s result `res` by removing it -/
def RemOK (s : State) (b : Nat) (p : Pending) (i : Nat) (res : KRes) : Prop :=
  i ∈ chainOfBin s b ∧ (nodeAt s.heap i).inTree = true ∧ (nodeAt s.heap i).key = p.key ∧
    specStep (some (nodeAt s.heap i).val) p.op = (none, res)

/-- no node of the tree of `b` has the key of `p` -/
def FreshOK (s : State) (b : Nat) (p : Pending) : Prop :=
  ∀ j, j < s.heap.length → (nodeAt s.heap j).owner = some b → (nodeAt s.heap j).inTree = true →
    (nodeAt s.heap j).key ≠ p.key

def PcInv (s : State) (p : Pending) : Pc → Prop
  | .rNode (some c) => c < s.heap.length
  | .rState _ (some c) => c < s.heap.length
  | .rCas _ c _ => c < s.heap.length
  | .rLin _ c => c < s.heap.length
  | .lNode (some c) => c < s.heap.length
  | .rVal _ => p.op ≠ .has
  | .wFind _ h pred cur => Walk s h p.key pred cur
  | .wStore _ h pred hit hnext => Walk s h p.key pred hit ∧
      ∀ i, hit = some i → (nodeAt s.heap i).key = p.key ∧ hnext = (nodeAt s.heap i).next
  | .tVal _ b i v res => i ∈ chainOfBin s b ∧ (nodeAt s.heap i).key = p.key ∧
      specStep (some (nodeAt s.heap i).val) p.op = (some v, res)
  | .lrTry _ b .insert _ => FreshOK s b p
  | .lrLoop _ b .insert _ => FreshOK s b p
  | .tPrependLocked _ b => FreshOK s b p
  | .tTreeLinkLocked _ b x => x ∈ chainOfBin s b ∧ (nodeAt s.heap x).inTree = false ∧ (nodeAt s.heap x).key = p.key ∧
      FreshOK s b p
  | .lrTry _ b (.remove i) res => RemOK s b p i res
  | .lrLoop _ b (.remove i) res => RemOK s b p i res
  | .tUnlinkLocked _ b i res => RemOK s b p i res
  | .tRestructure _ b i _ => i ∉ chainOfBin s b ∧ (nodeAt s.heap i).inTree = true ∧ i < s.heap.length ∧
      (nodeAt s.heap i).owner = some b
  | _ => True

/-- the private `TreeBin` of a treeify is a copy of the list from `h` and is in no cell -/
def KInv (s : State) : Pc → Prop
  | .kStore _ _ h b => CopyOK s (.list h) (fun _ => true) (.tree b) ∧ ∀ id, cellAt s id ≠ .tree b
  | _ => True

structure DInv (s : State) : Prop where
  pcInv : ∀ (t : Nat) (l : Local) (p : Pending), s.threads[t]? = some l → l.call = some p → PcInv s p l.pc
  kInv : ∀ (t : Nat) (l : Local), s.threads[t]? = some l → KInv s l.pc
  /-- a node in the tree of a `TreeBin` that is in a cell is on its list, unless a remover is about to
  take it out of the tree (or to untreeify) -/
  treeSub : ∀ id b, cellAt s id = .tree b → ∀ j, j < s.heap.length → (nodeAt s.heap j).owner = some b →
    (nodeAt s.heap j).inTree = true → j ∉ chainOfBin s b →
    ∃ (t : Nat) (l : Local), s.threads[t]? = some l ∧
      ((∃ tab res, l.pc = .tRestructure tab b j res) ∨ (∃ tab res, l.pc = .tUntreeify tab b res))
  /-- a node on the list of a `TreeBin` that is in a cell is in its tree, unless an inserter is about
  to link it -/
  chainSub : ∀ id b, cellAt s id = .tree b → ∀ j ∈ chainOfBin s b, (nodeAt s.heap j).inTree = false →
    ∃ (t : Nat) (l : Local) (tab : Nat), s.threads[t]? = some l ∧ l.pc = .tTreeLinkLocked tab b j

/-- the structural invariant -/
structure Inv (s : State) : Prop where
  heap : HInv s
  thr : TInv s
  rsz : XInv s
  lock : LInv s
  data : DInv s

end Flurry.Proto.BinGNP
