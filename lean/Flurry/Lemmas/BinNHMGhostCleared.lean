import Flurry.Lemmas.BinNGhostCleared
import Flurry.Lemmas.BinNGhostMoved
import Flurry.Lemmas.BinNHMGhostMoved
/-! # Proto/BinNH — port of the `Proto/BinN` lemma file of the same name to the heap invariant with ONE
MID-TRANSFER CELL PER HELPER (`Lemmas/BinNHMDefs.lean`); statements about `BinN.State`. Original header: hindsight across the store that empties a cell (C01)

`Good.cleared`: the justification of a reader survives the store that empties the (active) cell `id`: all
nodes of its chain die at once, with the values and successors they have now. -/
namespace Flurry.Proto.BinNHM
open Flurry.Proto.BinN
open Flurry.Lin
open Flurry.Proto.BinX (NodeS Cell Pending dflt chainFrom cellHead cellOfHead nodeAt nodeAt_of_some getElem?_nodeAt
  IsSeg IsChain chainH absIn KeysDistinct)

theorem Good.cleared {A A' : Nat → KSt} {k inv : Nat} {s s' : State} {G : Ghost} {id : CellId}
    {cur : Option Nat} (hgood : Good G A k inv s cur) (H : HInv s G)
    (hO : ∀ id', id' ≠ id → chId s' id' = chId s id')
    (hLC : ∀ k, LC s' k = if liveId s k = id then [] else LC s k)
    (hlive : ∀ j, Live s' G j → Live s G j ∧ j ∉ chId s id)
    (hh : s'.heap = s.heap)
    (hnow : s'.now = s.now + 1) (hA' : ∀ τ, τ ≤ s.now → A' τ = A τ) (hA : A s.now = absOf s k)
    (hinv : inv ≤ s.now) : Good G A' k inv s' cur := by
  have hAnow : A' s.now = absOf s k := by rw [hA' _ (Nat.le_refl _)]; exact hA
  have hchain := H.isChain id
  have hlt : ∀ c ∈ chId s id, c < s.heap.length := fun c hc => H.chain_lt hc
  -- nodes of the cleared chain that were on the live chain of `k`
  have onC : liveId s k = id → ∀ (n c : Nat), ((s.heap.length : Int) - ord G.cr c).toNat ≤ n → c ∈ chId s id →
      (∀ i ∈ chId s id, ord G.cr i < ord G.cr c → (nodeAt s.heap i).key ≠ k) →
      Good G A' k inv s' (some c) := by
    intro hlid n
    have hlc : LC s k = chId s id := by rw [H.LC_eq, hlid]
    induction n with
    | zero =>
      intro c hn hc _
      have := hlt c hc
      have := ord_le_self G.cr c
      omega
    | succ n ih =>
      intro c hn hc hbefore
      have hcl := hlt c hc
      have hn' := getElem?_nodeAt hcl
      refine .off (fun hl => (hlive c hl).2 hc) (by rw [hh]; exact hcl) ?_ ?_
      · intro hk
        rw [hh] at hk ⊢
        have hle : ∀ i ∈ chId s id, ord G.cr i ≤ ord G.cr c → (nodeAt s.heap i).key ≠ k := by
          intro i hi hic
          rcases Int.lt_or_eq_of_le hic with hlt' | heq
          · exact hbefore i hi hlt'
          · rw [ord_inj heq]; exact hk
        cases hnx : (nodeAt s.heap c).next with
        | none =>
          have h3 := hchain.succ_noneN H.nextOK hc hn' hnx
          refine .absent (τ := s.now) hinv (by omega) ?_
          rw [hAnow, H.absOf_none_iff, hlc]
          intro i hi
          exact hle i hi (h3 i hi)
        | some d =>
          obtain ⟨hd, h3⟩ := hchain.succ_someN H.nextOK hc hn' hnx
          have hcd := (H.nextOK c _ d hn' hnx).1
          refine ih d (by omega) hd ?_
          intro i hi hid
          exact hle i hi (h3 i hi hid)
      · intro hk
        rw [hh] at hk ⊢
        refine ⟨s.now, hinv, by omega, ?_⟩
        rw [hAnow]
        exact H.absOf_some_iff.2 ⟨c, by rw [hlc]; exact hc, hk, rfl⟩
  -- nodes of the cleared chain that a reader of another key stands on
  have forC : ∀ {τ : Nat}, ¬ keyOn id k → inv ≤ τ → τ ≤ s.now → A τ = none →
      ∀ (n c : Nat), ((s.heap.length : Int) - ord G.cr c).toNat ≤ n → c ∈ chId s id →
      Good G A' k inv s' (some c) := by
    intro τ hno h1 h2 h3 n
    induction n with
    | zero =>
      intro c hn hc
      have := hlt c hc
      have := ord_le_self G.cr c
      omega
    | succ n ih =>
      intro c hn hc
      have hcl := hlt c hc
      have hn' := getElem?_nodeAt hcl
      have hside : (nodeAt s.heap c).key ≠ k := by
        intro hk
        have := H.side id c hc
        rw [hk] at this
        exact hno this
      refine .off (fun hl => (hlive c hl).2 hc) (by rw [hh]; exact hcl) ?_
        (fun hk => absurd (by rw [hh] at hk; exact hk) hside)
      intro _
      rw [hh]
      cases hnx : (nodeAt s.heap c).next with
      | none => exact .absent h1 (by omega) (by rw [hA' _ h2]; exact h3)
      | some d =>
        obtain ⟨hd, -⟩ := hchain.succ_someN H.nextOK hc hn' hnx
        have hcd := (H.nextOK c _ d hn' hnx).1
        exact ih d (by omega) hd
  induction hgood with
  | absent h1 h2 h3 => exact .absent h1 (by omega) (by rw [hA' _ h2]; exact h3)
  | @on c hcm hbefore =>
    by_cases hlid : liveId s k = id
    · have hlc : LC s k = chId s id := by rw [H.LC_eq, hlid]
      rw [hlc] at hcm hbefore
      exact onC hlid _ c (Nat.le_refl _) hcm hbefore
    · have hlc' : LC s' k = LC s k := by rw [hLC k, if_neg hlid]
      refine .on (by rw [hlc']; exact hcm) ?_
      intro i hi hic
      rw [hlc'] at hi
      rw [hh]
      exact hbefore i hi hic
  | @foreign c τ id' hcm hno h1 h2 h3 =>
    by_cases he : id' = id
    · subst he
      exact forC hno h1 h2 h3 _ c (Nat.le_refl _) hcm
    · exact .foreign (by rw [hO id' he]; exact hcm) hno h1 (by omega) (by rw [hA' _ h2]; exact h3)
  | @off c hcl hclt _ hval ih =>
    refine .off (fun hl => hcl (hlive c hl).1) (by rw [hh]; exact hclt) ?_ ?_
    · intro hk
      rw [hh] at hk ⊢
      exact ih hk
    · intro hk
      rw [hh] at hk ⊢
      obtain ⟨τ, h1, h2, h3⟩ := hval hk
      exact ⟨τ, h1, by omega, by rw [hA' _ h2]; exact h3⟩

end Flurry.Proto.BinNHM
