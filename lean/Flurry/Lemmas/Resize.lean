import Flurry.Lemmas.ResizeBasic
import Flurry.Lemmas.ResizeInv
import Flurry.Lemmas.ResizeThms
import Flurry.Lemmas.ResizeProgress
import Flurry.Lemmas.ResizeExamples
/-! # Cooperative resize protocol (`Proto/Resize.lean`): summary

All theorems are about every `Reachable n nthreads stride s` (any `n`, any number of threads;
`stride ≥ 1` is needed for progress only).

* `ResizeBasic.lean`: `countP_set_add`, `countP_le_one_unique`; counters `P` (= `numParticipants`),
  `F` (finishers), `S` (threads at `pubStoreCtl`); `LocalOk` (thread-local facts, among them the
  finisher-sweep invariant `MovedFrom` and, for the threads on a join path, `JoinOk`: the word they
  are going to CAS on is not younger than the table they hold, and a "finishing" word they carry
  is not the current word) and the inductive invariant `Inv` (which contains `checkGen = true`,
  `staleJoins = 0` and `heldGen ≤ gen` for every thread).
* `ResizeInv.lean`: `Inv.init`, one `Inv.step_<pc>` per program counter (21), `Inv.step`,
  `Reachable.inv`.
* `ResizeThms.lean` (targets 1–7):
  1. `count_invariant` (+ `count_invariant_gen`, `count_invariant_gen'`, `count_invariant_idle`)
  2. `single_finisher` (= `single_finisher_unique` ∧ `single_finisher_word` ∧
     `single_finisher_idle`), `single_finisher_exists`, `no_finisher`
  3. `moved_once`
  4. `all_moved_at_publish`, `all_migrated_once_at_publish`, `finisher_sweep`,
     `processBin_in_range`
  5. `single_publication`
  6. `no_overlap`, `resize_starts_from_idle`, `stamp_stable`
  7. `quiescent_after`
  8. `no_stale_join` (`staleJoins = 0`), `join_ready_current`, `join_step_current`,
     `join_path_word`, `held_le_gen`, `checkGen_true`, `maxResizers_eq`
* `ResizeProgress.lean` (target 8): the measure `mu`, `mu_decreases` (every step of a thread inside
  the machinery, failed CASes included, strictly decreases `mu`), `progress_possible` (a finite run
  of non-idle threads reaches `allIdle`: first the threads on their way in – at an entry CAS or on
  a join path, measured by `epot` – are run until they are in or back at `idle`, then `mu`).
* `ResizeExamples.lean`: `decide`-checked runs (`single`, `two`, `staleIndex`, `staleJoin`) and
  `stale_stamp_window`. `staleJoin` reaches `staleJoins = 1` from `init 2 2 1 false` (no generation
  comparison in `help_transfer`) and `staleJoins = 0` from `init 2 2 1 true`.

Deviation from the targets as literally stated: in the window between `pubSwapTable` and
`pubStoreCtl` the word is `resizing (s.gen - 1) 1` (old stamp, new `gen`), so
`s.sizeCtl = resizing g c → g = s.gen` and "a finisher exists only while
`s.sizeCtl = resizing s.gen 1`" fail there (`stale_stamp_window`); `count_invariant` and
`single_finisher` state the exact disjunction. -/
