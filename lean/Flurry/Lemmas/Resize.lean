import Flurry.Lemmas.ResizeBasic
import Flurry.Lemmas.ResizeInv
import Flurry.Lemmas.ResizeThms
import Flurry.Lemmas.ResizeProgress
import Flurry.Lemmas.ResizeExamples
/-! # Cooperative resize protocol (`Proto/Resize.lean`): summary

All theorems are about every `Reachable n nthreads stride s` (any `n`, any number of threads;
`stride ≥ 1` is needed for progress only).

* `ResizeBasic.lean`: `countP_set_add`, `countP_le_one_unique`; counters `P` (= `numParticipants`),
  `F` (finishers), `S` (threads at `pubStoreCtl`); `LocalOk` (thread-local facts, among them the
  finisher-sweep invariant `MovedFrom`) and the inductive invariant `Inv`.
* `ResizeInv.lean`: `Inv.init`, one `Inv.step_<pc>` per program counter (14), `Inv.step`,
  `Reachable.inv`.
* `ResizeThms.lean` (targets 1–7):
  1. `count_invariant` (+ `count_invariant_gen`, `count_invariant_gen'`, `count_invariant_idle`)
  2. `single_finisher` (= `single_finisher_unique` ∧ `single_finisher_word` ∧
     `single_finisher_idle`), `single_finisher_exists`, `no_finisher`
  3. `moved_once`
  4. `all_moved_at_publish`, `all_migrated_once_at_publish`, `finisher_sweep`,
     `processBin_in_range`
  5. `single_publication`
  6. `no_overlap`, `resize_starts_from_idle`, `stamp_stable`
  7. `quiescent_after`
* `ResizeProgress.lean` (target 8): the measure `mu`, `mu_decreases` (every step of a thread inside
  the machinery, failed CASes included, strictly decreases `mu`), `progress_possible` (a finite run
  of non-idle threads reaches `allIdle`).
* `ResizeExamples.lean`: `decide`-checked runs (`single`, `two`, `staleIndex`) and
  `stale_stamp_window`.

Deviation from the targets as literally stated: in the window between `pubSwapTable` and
`pubStoreCtl` the word is `resizing (s.gen - 1) 1` (old stamp, new `gen`), so
`s.sizeCtl = resizing g c → g = s.gen` and "a finisher exists only while
`s.sizeCtl = resizing s.gen 1`" fail there (`stale_stamp_window`); `count_invariant` and
`single_finisher` state the exact disjunction. -/
