import Flurry.Lemmas.BinKLock
/-! # Proto/BinK: the transitions that touch lock words and synchronisation words only preserve the
structural invariant (C01, a bin that changes its kind)

`inv_q`: the generic part (heap invariant, what the program counters know, list = tree) for a
transition that is `Quiet`; `PcFacts` / `LockKind`: what such a transition does to the classification
of the program counter, proved once per transition family by case analysis; `inv_quiet_step`: the
transitions that leave every `TreeBin` alone; `inv_bmove`, `inv_bfin`: the transitions that change the
synchronisation words of one `TreeBin`. -/
namespace Flurry.Proto.BinK
open Flurry.Lin

theorem binAt_modify_first (tbins : List TBin) (b : Nat) {f : TBin → TBin} (hf : ∀ x, (f x).first = x.first)
    (c : Nat) : (binAt (tbins.modify b f) c).first = (binAt tbins c).first := by
  rw [binAt_modify]
  split
  · exact hf _
  · rfl

/-- the generic part of the preservation of `Inv` by a quiet transition -/
theorem inv_q {s s' : State} {t : Nat} {l l' : Local} (I : Inv s) (hl : s.threads[t]? = some l)
    (q : Quiet s s') (hthr : s'.threads = s.threads.set t l') (T' : TInv s') (L' : LInv s')
    (hsrc : (∀ b j res, l.pc ≠ .tRestructure b j res) ∧ (∀ b res, l.pc ≠ .tUntreeify b res) ∧
      (∀ b j, l.pc ≠ .tTreeLinkLocked b j))
    (hks : ∀ h b, l'.pc ≠ .kStore h b)
    (hnew : ∀ p, l'.call = some p → PcInv s p l'.pc)
    (hbin : ∀ b, binRef l.pc ≠ some b → binAt s'.tbins b = binAt s.tbins b) : Inv s' := by
  have H := I.heap
  refine ⟨q.hinv H, T', L', ?_, ?_, ?_, ?_⟩
  · intro t1 l1 p1 h1 hc1
    rw [hthr] at h1
    rcases get_set h1 with ⟨rfl, rfl⟩ | ⟨_, h1⟩
    · exact (hnew p1 hc1).quiet q H
    · exact (I.data.pcInv t1 l1 p1 h1 hc1).quiet q H
  · intro t1 l1 h1
    rw [hthr] at h1
    rcases get_set h1 with ⟨rfl, rfl⟩ | ⟨hne, h1⟩
    · cases hpc : l1.pc <;> simp only [KInv]
      exact absurd hpc (hks _ _)
    · have hk := I.data.kInv t1 l1 h1
      cases hpc : l1.pc <;> simp only [KInv]
      rename_i h b
      rw [hpc] at hk
      simp only [KInv] at hk
      refine hk.quiet q H (hbin b ?_)
      intro hr
      exact (I.lock.refOK t l b hl hr).2 t1 l1 h h1 hpc
  · intro b hc j hj ho hin hnc
    rw [q.cell] at hc
    rw [q.heap.1] at hj
    rw [(q.heap.2 j).2.2.2.2] at ho
    rw [(q.heap.2 j).2.2.2.1] at hin
    rw [q.chain_eq H] at hnc
    obtain ⟨t0, l0, h0, hpc0⟩ := I.data.treeSub b hc j hj ho hin hnc
    by_cases ht : t0 = t
    · subst ht
      rw [hl] at h0; cases h0
      rcases hpc0 with ⟨res, hpc0⟩ | ⟨res, hpc0⟩
      · exact absurd hpc0 (hsrc.1 b j res)
      · exact absurd hpc0 (hsrc.2.1 b res)
    · exact ⟨t0, l0, by rw [hthr, get_set_ne ht]; exact h0, hpc0⟩
  · intro b hc j hj hin
    rw [q.cell] at hc
    rw [q.chain_eq H] at hj
    rw [(q.heap.2 j).2.2.2.1] at hin
    obtain ⟨t0, l0, h0, hpc0⟩ := I.data.chainSub b hc j hj hin
    by_cases ht : t0 = t
    · subst ht
      rw [hl] at h0; cases h0
      exact absurd hpc0 (hsrc.2.2 b j)
    · exact ⟨t0, l0, by rw [hthr, get_set_ne ht]; exact h0, hpc0⟩

/-! ## what a quiet transition does to the classification of the program counter -/

/-- what the lock invariant needs to know about the old and the new program counter -/
structure LFacts (s : State) (pc pc' : Pc) : Prop where
  vL : ∀ h, validL pc' = some h → validL pc = some h ∨ s.cell = .list h
  hm : holdsMutex pc' = holdsMutex pc
  vT : ∀ b, validT pc' = some b → validT pc = some b ∨ s.cell = .tree b
  hr : holdsRead pc' = holdsRead pc
  wrl : ∀ b, holdsMutex pc = some b → wr pc' = wr pc ∧ (isLoop pc = true → isLoop pc' = true)
  ref : ∀ b, binRef pc' = some b → binRef pc = some b ∨ s.cell = .tree b
  ks : ∀ h b, pc ≠ .kStore h b ∧ pc' ≠ .kStore h b

structure PcFacts (s : State) (pc pc' : Pc) : Prop extends LFacts s pc pc' where
  src : (∀ b j res, pc ≠ .tRestructure b j res) ∧ (∀ b res, pc ≠ .tUntreeify b res) ∧
    (∀ b j, pc ≠ .tTreeLinkLocked b j)

set_option linter.unusedSimpArgs false in
theorem Move.facts {s : State} {t : Nat} {p : Pending} {pc pc' : Pc} {hp : List NodeS}
    (hm : Move s t p pc pc' hp) : PcFacts s pc pc' := by
  cases hm
  case rCellTree lo b hc =>
    cases lo <;> refine ⟨⟨?_, ?_, ?_, ?_, ?_, ?_, ?_⟩, ?_⟩ <;>
      simp_all [validL, validT, holdsMutex, holdsRead, wr, isLoop, binRef]
  all_goals
    refine ⟨⟨?_, ?_, ?_, ?_, ?_, ?_, ?_⟩, ?_⟩ <;>
      simp_all [validL, validT, holdsMutex, holdsRead, wr, isLoop, binRef]

set_option linter.unusedSimpArgs false in
theorem Fin.facts {s : State} {p : Pending} {pc : Pc} {res : KRes} {hp : List NodeS}
    (hf : Fin s p pc res hp) : PcFacts s pc .idle := by
  cases hf
  all_goals
    refine ⟨⟨?_, ?_, ?_, ?_, ?_, ?_, ?_⟩, ?_⟩ <;>
      simp_all [validL, validT, holdsMutex, holdsRead, wr, isLoop, binRef]

set_option linter.unusedSimpArgs false in
theorem KMove.facts {s : State} {t : Nat} {pc pc' : Pc} {hp : List NodeS}
    (hk : KMove s t pc pc' hp) : PcFacts s pc pc' := by
  cases hk
  all_goals
    refine ⟨⟨?_, ?_, ?_, ?_, ?_, ?_, ?_⟩, ?_⟩ <;>
      simp_all [validL, validT, holdsMutex, holdsRead, wr, isLoop, binRef]

/-- what a transition does to the lock words of the nodes -/
def LockKind (s : State) (t : Nat) (pc pc' : Pc) (hp : List NodeS) : Prop :=
  (hp = s.heap ∧ holdsLock pc' = holdsLock pc) ∨
  (∃ h0, hp = lockSet s.heap h0 (some t) ∧ h0 < s.heap.length ∧ (nodeAt s.heap h0).lock = none ∧
    holdsLock pc = none ∧ holdsLock pc' = some h0) ∨
  (∃ h0, hp = lockSet s.heap h0 none ∧ holdsLock pc = some h0 ∧ holdsLock pc' = none)

theorem Move.lockKind {s : State} {t : Nat} {p : Pending} {pc pc' : Pc} {hp : List NodeS}
    (hm : Move s t p pc pc' hp) : LockKind s t pc pc' hp := by
  cases hm
  case wLock h n hn hlk =>
    exact Or.inr (Or.inl ⟨h, rfl, (List.getElem?_eq_some_iff.1 hn).1, by rw [nodeAt_of_some hn]; exact hlk, rfl, rfl⟩)
  case wUnlockRetry h res => exact Or.inr (Or.inr ⟨h, rfl, rfl, rfl⟩)
  case rCellTree lo b hc => cases lo <;> exact Or.inl ⟨rfl, rfl⟩
  all_goals exact Or.inl ⟨rfl, rfl⟩

theorem Fin.lockKind {s : State} {t : Nat} {p : Pending} {pc : Pc} {res : KRes} {hp : List NodeS}
    (hf : Fin s p pc res hp) : LockKind s t pc .idle hp := by
  cases hf
  case wUnlockFin h => exact Or.inr (Or.inr ⟨h, rfl, rfl, rfl⟩)
  all_goals exact Or.inl ⟨rfl, rfl⟩

theorem KMove.lockKind {s : State} {t : Nat} {pc pc' : Pc} {hp : List NodeS}
    (hk : KMove s t pc pc' hp) : LockKind s t pc pc' hp := by
  cases hk
  case kLock h n hn hlk =>
    exact Or.inr (Or.inl ⟨h, rfl, (List.getElem?_eq_some_iff.1 hn).1, by rw [nodeAt_of_some hn]; exact hlk, rfl, rfl⟩)
  case kUnlock h => exact Or.inr (Or.inr ⟨h, rfl, rfl, rfl⟩)
  all_goals exact Or.inl ⟨rfl, rfl⟩

theorem LockKind.heapEqv {s : State} {t : Nat} {pc pc' : Pc} {hp : List NodeS} (k : LockKind s t pc pc' hp) :
    HeapEqv s.heap hp := by
  rcases k with ⟨rfl, -⟩ | ⟨h0, rfl, -⟩ | ⟨h0, rfl, -⟩
  · exact HeapEqv.refl _
  · exact heapEqv_lockSet _ _ _
  · exact heapEqv_lockSet _ _ _

theorem LockKind.lockFun {s s' : State} {t : Nat} {l : Local} {pc' : Pc} (L : LInv s)
    (hl : s.threads[t]? = some l) (k : LockKind s t l.pc pc' s'.heap) :
    LockFun s s' t l.pc pc' ∧
      ∀ h, holdsLock pc' = some h → holdsLock l.pc = some h ∨ (nodeAt s.heap h).lock = none := by
  rcases k with ⟨hh, e⟩ | ⟨h0, hh, hlt, hfree, e0, e1⟩ | ⟨h0, hh, e0, e1⟩
  · exact ⟨lockfun_same L hl e (fun h => by rw [hh]), fun h hp => Or.inl (e ▸ hp)⟩
  · refine ⟨lockfun_acq e0 e1 hlt hh, fun h hp => Or.inr ?_⟩
    rw [e1] at hp; cases hp; exact hfree
  · refine ⟨lockfun_rel L hl e0 e1 hh, fun h hp => ?_⟩
    rw [e1] at hp; cases hp

/-- the lock invariant after a transition that leaves the bin cell, the mutexes and the
synchronisation words alone -/
theorem linv_same {s s' : State} {t : Nat} {l l' : Local} (L : LInv s) (H : HInv s) (hl : s.threads[t]? = some l)
    (hcell : s'.cell = s.cell) (hthr : s'.threads = s.threads.set t l')
    (htlen : s'.tbins.length = s.tbins.length)
    (hsync : ∀ b, (binAt s'.tbins b).mutex = (binAt s.tbins b).mutex ∧
      (binAt s'.tbins b).writer = (binAt s.tbins b).writer ∧ (binAt s'.tbins b).waiter = (binAt s.tbins b).waiter ∧
      (binAt s'.tbins b).readers = (binAt s.tbins b).readers)
    (hlf : LockFun s s' t l.pc l'.pc)
    (hacq : ∀ h, holdsLock l'.pc = some h → holdsLock l.pc = some h ∨ (nodeAt s.heap h).lock = none)
    (F : LFacts s l.pc l'.pc) : LInv s' := by
  refine LInv.of_parts (lk_step L hl hthr hlf hacq ?_ (Or.inl hcell))
    (mx_step L hl hthr (mutexfun_same L hl F.hm (fun b => (hsync b).1)) (fun b hb => Or.inl (F.hm ▸ hb)) ?_
      (Or.inl hcell))
    (rw_gen L H hl hthr (fun b => by rw [hcell]) htlen (fun b => ⟨(hsync b).1, (hsync b).2.1, (hsync b).2.2.1⟩)
      (fun b _ => by rw [(hsync b).2.2.2, F.hr]) (fun b hw => by rw [(hsync b).2.2.2]; exact L.wrd b hw) F.wrl F.ref
      (fun h b => ⟨fun e => absurd e (F.ks h b).1, fun e => absurd e (F.ks h b).2⟩))
  · intro h hv
    rw [hcell]
    rcases F.vL h hv with h1 | h1
    · exact L.vL t l h hl h1
    · exact h1
  · intro b hv
    rw [hcell]
    rcases F.vT b hv with h1 | h1
    · exact L.vT t l b hl h1
    · exact h1

/-- transitions that leave every `TreeBin` alone -/
theorem inv_quiet_step {s s' : State} {t : Nat} {l l' : Local} (I : Inv s) (hl : s.threads[t]? = some l)
    (htb : s'.tbins = s.tbins) (hcell : s'.cell = s.cell) (hthr : s'.threads = s.threads.set t l')
    (T' : TInv s') (k : LockKind s t l.pc l'.pc s'.heap) (F : PcFacts s l.pc l'.pc)
    (hnew : ∀ p, l'.call = some p → PcInv s p l'.pc) : Inv s' := by
  have L := I.lock
  have H := I.heap
  have q : Quiet s s' := ⟨hcell, k.heapEqv, by rw [htb], fun b => by rw [htb]⟩
  obtain ⟨hlf, hacq⟩ := k.lockFun L hl
  have L' : LInv s' := linv_same L H hl hcell hthr (by rw [htb]) (fun b => by rw [htb]; exact ⟨rfl, rfl, rfl, rfl⟩)
    hlf hacq F.toLFacts
  exact inv_q I hl q hthr T' L' F.src (fun h b => (F.ks h b).2) hnew (fun b _ => by rw [htb])

/-! ## transitions that change the synchronisation words of one `TreeBin` -/

/-- the generic part: heap, cell and lock words untouched, one `TreeBin` modified (not its `first`) -/
theorem inv_b {s s' : State} {t : Nat} {l l' : Local} {b0 : Nat} {f : TBin → TBin} (I : Inv s)
    (hl : s.threads[t]? = some l) (hheap : s'.heap = s.heap) (hcell : s'.cell = s.cell)
    (htb : s'.tbins = s.tbins.modify b0 f) (hf : ∀ x, (f x).first = x.first)
    (hthr : s'.threads = s.threads.set t l') (T' : TInv s')
    (href : binRef l.pc = some b0)
    (e1 : holdsLock l'.pc = holdsLock l.pc) (e2 : validL l'.pc = none)
    (M' : MxPart s') (R' : RwPart s')
    (hsrc : (∀ b j res, l.pc ≠ .tRestructure b j res) ∧ (∀ b res, l.pc ≠ .tUntreeify b res) ∧
      (∀ b j, l.pc ≠ .tTreeLinkLocked b j))
    (hks : ∀ h b, l'.pc ≠ .kStore h b)
    (hnew : ∀ p, l'.call = some p → PcInv s p l'.pc) : Inv s' := by
  have L := I.lock
  have q : Quiet s s' := ⟨hcell, by rw [hheap]; exact HeapEqv.refl _, by rw [htb, List.length_modify],
    fun b => by rw [htb]; exact binAt_modify_first _ _ hf b⟩
  have L' : LInv s' := by
    refine LInv.of_parts (lk_step L hl hthr (lockfun_same L hl e1 (fun h => by rw [hheap]))
      (fun h hp => Or.inl (e1 ▸ hp)) (fun h hv => by rw [e2] at hv; cases hv) (Or.inl hcell)) M' R'
  refine inv_q I hl q hthr T' L' hsrc hks hnew ?_
  intro b hb
  rw [htb, binAt_modify_ne]
  intro e; subst e; exact hb href

theorem afterLock_holdsMutex (b : Nat) (k : After) (res : KRes) : holdsMutex (afterLock b k res) = some b := by
  cases k <;> rfl

theorem afterLock_wr (b : Nat) (k : After) (res : KRes) : wr (afterLock b k res) = true := by
  cases k <;> rfl

theorem afterLock_validT (b : Nat) (k : After) (res : KRes) : validT (afterLock b k res) = some b := by
  cases k <;> rfl

theorem afterLock_binRef (b : Nat) (k : After) (res : KRes) : binRef (afterLock b k res) = some b := by
  cases k <;> rfl

theorem afterLock_misc (b : Nat) (k : After) (res : KRes) :
    holdsLock (afterLock b k res) = none ∧ validL (afterLock b k res) = none ∧
    holdsRead (afterLock b k res) = none ∧ readerPc (afterLock b k res) = false ∧
    kPc (afterLock b k res) = false ∧ afterLock b k res ≠ .idle ∧ (∀ h b', afterLock b k res ≠ .kStore h b') := by
  cases k <;> simp [afterLock, holdsLock, validL, holdsRead, readerPc, kPc]

/-- the read-write lock part for a change of the reader count of `b0` by thread `t` -/
theorem rw_readers {s s' : State} {t : Nat} {l l' : Local} {b0 : Nat} {f : TBin → TBin} (L : LInv s) (H : HInv s)
    (hl : s.threads[t]? = some l) (hthr : s'.threads = s.threads.set t l')
    (hcell : s'.cell = s.cell) (htb : s'.tbins = s.tbins.modify b0 f) (hb0 : b0 < s.tbins.length)
    (hf : ∀ x, (f x).mutex = x.mutex ∧ (f x).writer = x.writer ∧ (f x).waiter = x.waiter)
    (hrd0 : (f (binAt s.tbins b0)).readers + (if holdsRead l.pc = some b0 then 1 else 0) =
      (binAt s.tbins b0).readers + (if holdsRead l'.pc = some b0 then 1 else 0))
    (hother : ∀ b, b ≠ b0 → (holdsRead l.pc = some b ↔ holdsRead l'.pc = some b))
    (hw : (binAt s.tbins b0).writer = true → (f (binAt s.tbins b0)).readers = 0)
    (e3 : holdsMutex l.pc = none)
    (e8 : ∀ b, binRef l'.pc = some b → binRef l.pc = some b ∨ s.cell = .tree b)
    (e9 : ∀ h b, l.pc = .kStore h b ↔ l'.pc = .kStore h b) : RwPart s' := by
  refine rw_gen L H hl hthr (fun b => by rw [hcell]) (by rw [htb, List.length_modify]) ?_ ?_ ?_ ?_ e8 e9
  · intro b
    rw [htb, binAt_modify]
    split
    · exact hf _
    · exact ⟨rfl, rfl, rfl⟩
  · intro b _
    by_cases hb : b = b0
    · subst hb
      rw [htb, binAt_modify_self _ hb0]
      exact hrd0
    · rw [htb, binAt_modify_ne _ (fun e => hb e.symm)]
      by_cases h1 : holdsRead l.pc = some b
      · rw [if_pos h1, if_pos ((hother b hb).1 h1)]
      · rw [if_neg h1, if_neg (fun h2 => h1 ((hother b hb).2 h2))]
  · intro b hwb
    by_cases hb : b = b0
    · subst hb
      rw [htb, binAt_modify_self _ hb0]
      exact hw hwb
    · rw [htb, binAt_modify_ne _ (fun e => hb e.symm)]
      exact L.wrd b hwb
  · intro b hb
    rw [e3] at hb; cases hb

theorem inv_bmove {s : State} {t : Nat} {l : Local} {p : Pending} {pc' : Pc} {tb : List TBin} (I : Inv s)
    (hl : s.threads[t]? = some l) (hp : l.call = some p) (hm : BMove s t p l.pc pc' tb) :
    Inv (setT (qst s s.heap tb) t { l with pc := pc' }) := by
  have L := I.lock
  have H := I.heap
  have hni := I.thr.opOK t l p hl hp
  have hP := I.data.pcInv t l p hl hp
  obtain ⟨pc, call⟩ := l
  simp only at hm hp hni hP
  subst hp
  have T' : ∀ pc'', (PcOp pc p.op → PcOp pc'' p.op) →
      TInv (setT (qst s s.heap tb) t { pc := pc'', call := some p }) := by
    intro pc'' himp
    refine tinv_keep (l' := { pc := pc'', call := some p }) I.thr hl rfl rfl rfl rfl ?_
    intro p1 hp1
    cases hp1
    exact himp hni
  cases hm with
  | @rCasOk b c r h1 h2 h3 =>
    have hb0 := (L.refOK t _ b hl rfl).1
    refine inv_b (l' := { pc := .rTree b, call := some p }) I hl rfl rfl rfl (fun x => rfl) rfl
      (T' _ (fun h => by intro _ _; have := h (by simp) rfl; simpa [readerPc] using this)) rfl rfl rfl ?_ ?_
      ⟨by simp, by simp, by simp⟩ (by simp) (by intro p1 _; simp only [PcInv])
    · exact mx_step (l' := { pc := .rTree b, call := some p }) L hl rfl
        (mutexfun_same L hl rfl (fun b' => by
          show (binAt (s.tbins.modify b _) b').mutex = _
          rw [binAt_modify]; split <;> rfl))
        (fun b' hb' => by simp [holdsMutex] at hb') (fun b' hb' => by simp [validT] at hb') (Or.inl rfl)
    · refine rw_readers (l' := { pc := .rTree b, call := some p }) (b0 := b) L H hl rfl rfl rfl hb0
        (fun x => ⟨rfl, rfl, rfl⟩) ?_ ?_ ?_ rfl ?_ ?_
      · simp [holdsRead]
      · intro b' hb'
        simp [holdsRead]
        exact fun e => hb' e.symm
      · intro hw; rw [h1] at hw; cases hw
      · intro b' hb'; left; simpa [binRef] using hb'
      · intro h b'; simp
  | @rRelVal b i hop =>
    have hb0 := (L.refOK t _ b hl rfl).1
    have hpos := L.reader_pos (b := b) hl rfl
    refine inv_b (l' := { pc := .rVal i, call := some p }) I hl rfl rfl rfl (fun x => rfl) rfl
      (T' _ (fun h => by intro _ _; have := h (by simp) rfl; simpa [readerPc] using this)) rfl rfl rfl ?_ ?_
      ⟨by simp, by simp, by simp⟩ (by simp) (by intro p1 hp1; cases hp1; simp only [PcInv]; exact hop)
    · exact mx_step (l' := { pc := .rVal i, call := some p }) L hl rfl
        (mutexfun_same L hl rfl (fun b' => by
          show (binAt (s.tbins.modify b _) b').mutex = _
          rw [binAt_modify]; split <;> rfl))
        (fun b' hb' => by simp [holdsMutex] at hb') (fun b' hb' => by simp [validT] at hb') (Or.inl rfl)
    · refine rw_readers (l' := { pc := .rVal i, call := some p }) (b0 := b) L H hl rfl rfl rfl hb0
        (fun x => ⟨rfl, rfl, rfl⟩) ?_ ?_ ?_ rfl ?_ ?_
      · simp [holdsRead]; omega
      · intro b' hb'
        simp [holdsRead]
        exact fun e => hb' e.symm
      · intro hw; have := L.wrd b hw; simp only; omega
      · intro b' hb'; simp [binRef] at hb'
      · intro h b'; simp
  | @tMutex b hmx =>
    have hb0 := (L.refOK t _ b hl rfl).1
    have hmf : MutexFun s (setT (qst s s.heap (s.tbins.modify b (fun x => { x with mutex := some t }))) t
        { pc := .tCheck b, call := some p }) t (.tMutex b) (.tCheck b) :=
      mutexfun_acq (l := ⟨.tMutex b, some p⟩) rfl rfl hb0 rfl
    refine inv_b (l' := { pc := .tCheck b, call := some p }) I hl rfl rfl rfl (fun x => rfl) rfl
      (T' _ (fun h => by intro _ _; have := h (by simp) rfl; simpa [readerPc] using this)) rfl rfl rfl ?_ ?_
      ⟨by simp, by simp, by simp⟩ (by simp) (by intro p1 _; simp only [PcInv])
    · exact mx_step (l' := { pc := .tCheck b, call := some p }) L hl rfl hmf
        (fun b' hb' => by simp [holdsMutex] at hb'; subst hb'; exact Or.inr hmx)
        (fun b' hb' => by simp [validT] at hb') (Or.inl rfl)
    · have hself : binAt (s.tbins.modify b (fun x => { x with mutex := some t })) b =
          { binAt s.tbins b with mutex := some t } := binAt_modify_self _ hb0
      refine rw_bin (l' := { pc := .tCheck b, call := some p }) (b0 := b) (tb := s.tbins.modify b (fun x => { x with mutex := some t })) L H hl rfl rfl
        rfl (by rw [List.length_modify]) hb0
        (fun b' hb' => binAt_modify_ne _ (fun e => hb' e.symm)) (by rw [hself]) (Or.inl rfl) hmf
        ?_ ?_ ?_ ?_ ?_ rfl ?_ ?_
      · intro hc _
        rw [hself]
        obtain ⟨e1, e2⟩ := L.bitsNone b hc hmx
        exact ⟨e1, fun hw => by rw [e2] at hw; cases hw⟩
      · intro _ hm'
        have : (binAt (s.tbins.modify b (fun x => { x with mutex := some t })) b).mutex = none := hm'
        rw [hself] at this; cases this
      · intro x hx hm'
        have : (binAt (s.tbins.modify b (fun x => { x with mutex := some t })) b).mutex = some x := hm'
        rw [hself] at this
        exact absurd (Option.some.inj this).symm hx
      · intro hw
        have : (binAt (s.tbins.modify b (fun x => { x with mutex := some t })) b).writer = true := hw
        rw [hself] at this
        exact L.wrd b this
      · intro _ hw
        rw [hself]; exact hw
      · intro b' hb'; left; simpa [binRef] using hb'
      · intro h b'; simp
  | @lrTryOk b k res h1 h2 h3 =>
    have hb0 := (L.refOK t _ b hl rfl).1
    have hmt := (L.mx t _ b hl).1 rfl
    obtain ⟨m1, m2, m3, m4, m5, m6, m7⟩ := afterLock_misc b k res
    have hself : binAt (s.tbins.modify b (fun x => { x with writer := true })) b =
        { binAt s.tbins b with writer := true } := binAt_modify_self _ hb0
    have hmf : MutexFun s (setT (qst s s.heap (s.tbins.modify b (fun x => { x with writer := true }))) t
        { pc := afterLock b k res, call := some p }) t (.lrTry b k res) (afterLock b k res) :=
      mutexfun_same (l := ⟨.lrTry b k res, some p⟩) L hl (afterLock_holdsMutex b k res) (fun b' => by
        show (binAt (s.tbins.modify b _) b').mutex = _
        rw [binAt_modify]; split <;> rfl)
    refine inv_b (l' := { pc := afterLock b k res, call := some p }) I hl rfl rfl rfl (fun x => rfl) rfl
      (T' _ (fun h => by intro _ _; have := h (by simp) rfl; rw [m4]; simpa [readerPc] using this)) rfl
      m1 m2 ?_ ?_ ⟨by simp, by simp, by simp⟩ m7 ?_
    · exact mx_step (l' := { pc := afterLock b k res, call := some p }) L hl rfl hmf
        (fun b' hb' => by left; rw [afterLock_holdsMutex] at hb'; exact hb')
        (fun b' hb' => by
          rw [afterLock_validT] at hb'; cases hb'
          exact L.vT t _ b hl rfl) (Or.inl rfl)
    · refine rw_bin (l' := { pc := afterLock b k res, call := some p }) (b0 := b) (tb := s.tbins.modify b (fun x => { x with writer := true })) L H hl rfl rfl
        rfl (by rw [List.length_modify]) hb0
        (fun b' hb' => binAt_modify_ne _ (fun e => hb' e.symm)) (by rw [hself]) (Or.inr rfl) hmf ?_ ?_ ?_ ?_ ?_ m3 ?_ ?_
      · intro _ _
        rw [hself, afterLock_wr]
        exact ⟨rfl, fun hw => by simp only at hw; rw [h2] at hw; cases hw⟩
      · intro _ hm'
        have : (binAt (s.tbins.modify b (fun x => { x with writer := true })) b).mutex = none := hm'
        rw [hself] at this
        simp only at this
        rw [hmt] at this; cases this
      · intro x hx hm'
        have : (binAt (s.tbins.modify b (fun x => { x with writer := true })) b).mutex = some x := hm'
        rw [hself] at this
        simp only at this
        rw [hmt] at this
        exact absurd (Option.some.inj this).symm hx
      · intro _; exact h3
      · intro _ _
        rw [hself]
      · intro b' hb'; left; rw [afterLock_binRef] at hb'; exact hb'
      · intro h b'; exact ⟨(fun e => by cases e), fun e => absurd e (m7 h b')⟩
    · intro p1 hp1
      cases hp1
      cases k with
      | insert => simp only [afterLock, PcInv] at hP ⊢; exact hP
      | remove i => simp only [afterLock, PcInv] at hP ⊢; exact hP
  | @lrLoopOk b k res h1 h3 =>
    have hb0 := (L.refOK t _ b hl rfl).1
    have hmt := (L.mx t _ b hl).1 rfl
    obtain ⟨m1, m2, m3, m4, m5, m6, m7⟩ := afterLock_misc b k res
    have hself : binAt (s.tbins.modify b (fun x => { x with writer := true, waiter := false })) b =
        { binAt s.tbins b with writer := true, waiter := false } := binAt_modify_self _ hb0
    have hmf : MutexFun s (setT (qst s s.heap (s.tbins.modify b (fun x => { x with writer := true, waiter := false }))) t
        { pc := afterLock b k res, call := some p }) t (.lrLoop b k res) (afterLock b k res) :=
      mutexfun_same (l := ⟨.lrLoop b k res, some p⟩) L hl (afterLock_holdsMutex b k res) (fun b' => by
        show (binAt (s.tbins.modify b _) b').mutex = _
        rw [binAt_modify]; split <;> rfl)
    refine inv_b (l' := { pc := afterLock b k res, call := some p }) I hl rfl rfl rfl (fun x => rfl) rfl
      (T' _ (fun h => by intro _ _; have := h (by simp) rfl; rw [m4]; simpa [readerPc] using this)) rfl
      m1 m2 ?_ ?_ ⟨by simp, by simp, by simp⟩ m7 ?_
    · exact mx_step (l' := { pc := afterLock b k res, call := some p }) L hl rfl hmf
        (fun b' hb' => by left; rw [afterLock_holdsMutex] at hb'; exact hb')
        (fun b' hb' => by
          rw [afterLock_validT] at hb'; cases hb'
          exact L.vT t _ b hl rfl) (Or.inl rfl)
    · refine rw_bin (l' := { pc := afterLock b k res, call := some p }) (b0 := b) (tb := s.tbins.modify b (fun x => { x with writer := true, waiter := false })) L H hl rfl rfl
        rfl (by rw [List.length_modify]) hb0
        (fun b' hb' => binAt_modify_ne _ (fun e => hb' e.symm)) (by rw [hself]) (Or.inr rfl) hmf ?_ ?_ ?_ ?_ ?_ m3 ?_ ?_
      · intro _ _
        rw [hself, afterLock_wr]
        exact ⟨rfl, fun hw => by cases hw⟩
      · intro _ hm'
        have : (binAt (s.tbins.modify b (fun x => { x with writer := true, waiter := false })) b).mutex = none := hm'
        rw [hself] at this
        simp only at this
        rw [hmt] at this; cases this
      · intro x hx hm'
        have : (binAt (s.tbins.modify b (fun x => { x with writer := true, waiter := false })) b).mutex = some x := hm'
        rw [hself] at this
        simp only at this
        rw [hmt] at this
        exact absurd (Option.some.inj this).symm hx
      · intro _; exact h3
      · intro _ _
        rw [hself]
      · intro b' hb'; left; rw [afterLock_binRef] at hb'; exact hb'
      · intro h b'; exact ⟨(fun e => by cases e), fun e => absurd e (m7 h b')⟩
    · intro p1 hp1
      cases hp1
      cases k with
      | insert => simp only [afterLock, PcInv] at hP ⊢; exact hP
      | remove i => simp only [afterLock, PcInv] at hP ⊢; exact hP
  | @lrLoopWait b k res h2 =>
    have hb0 := (L.refOK t _ b hl rfl).1
    have hmt := (L.mx t _ b hl).1 rfl
    have hself : binAt (s.tbins.modify b (fun x => { x with waiter := true })) b =
        { binAt s.tbins b with waiter := true } := binAt_modify_self _ hb0
    have hmf : MutexFun s (setT (qst s s.heap (s.tbins.modify b (fun x => { x with waiter := true }))) t
        { pc := .lrLoop b k res, call := some p }) t (.lrLoop b k res) (.lrLoop b k res) :=
      mutexfun_same (l := ⟨.lrLoop b k res, some p⟩) L hl rfl (fun b' => by
        show (binAt (s.tbins.modify b _) b').mutex = _
        rw [binAt_modify]; split <;> rfl)
    refine inv_b (l' := { pc := .lrLoop b k res, call := some p }) I hl rfl rfl rfl (fun x => rfl) rfl
      (T' _ id) rfl rfl rfl ?_ ?_ ⟨by simp, by simp, by simp⟩ (by simp) (by intro p1 hp1; cases hp1; exact hP)
    · exact mx_step (l' := { pc := .lrLoop b k res, call := some p }) L hl rfl hmf
        (fun b' hb' => Or.inl hb') (fun b' hb' => by
          simp [validT] at hb'; subst hb'
          exact L.vT t _ b hl rfl) (Or.inl rfl)
    · refine rw_bin (l' := { pc := .lrLoop b k res, call := some p }) (b0 := b) (tb := s.tbins.modify b (fun x => { x with waiter := true })) L H hl rfl rfl
        rfl (by rw [List.length_modify]) hb0
        (fun b' hb' => binAt_modify_ne _ (fun e => hb' e.symm)) (by rw [hself]) (Or.inr rfl) hmf ?_ ?_ ?_ ?_ ?_ rfl ?_ ?_
      · intro hc _
        rw [hself]
        exact ⟨(L.bitsSome b t _ hc hl hmt).1, fun _ => rfl⟩
      · intro _ hm'
        have : (binAt (s.tbins.modify b (fun x => { x with waiter := true })) b).mutex = none := hm'
        rw [hself] at this
        simp only at this
        rw [hmt] at this; cases this
      · intro x hx hm'
        have : (binAt (s.tbins.modify b (fun x => { x with waiter := true })) b).mutex = some x := hm'
        rw [hself] at this
        simp only at this
        rw [hmt] at this
        exact absurd (Option.some.inj this).symm hx
      · intro hw
        have : (binAt (s.tbins.modify b (fun x => { x with waiter := true })) b).writer = true := hw
        rw [hself] at this
        exact L.wrd b this
      · intro _ hw
        rw [hself]; exact hw
      · intro b' hb'; exact Or.inl hb'
      · intro h b'; simp
  | @unlockRoot b res =>
    have hb0 := (L.refOK t _ b hl rfl).1
    have hmt := (L.mx t _ b hl).1 rfl
    have hcell := L.vT t _ b hl rfl
    have hself : binAt (s.tbins.modify b (fun x => { x with writer := false, waiter := false })) b =
        { binAt s.tbins b with writer := false, waiter := false } := binAt_modify_self _ hb0
    have hmf : MutexFun s (setT (qst s s.heap (s.tbins.modify b (fun x => { x with writer := false, waiter := false }))) t
        { pc := .tUnlockM b res false, call := some p }) t (.tUnlockRoot b res) (.tUnlockM b res false) :=
      mutexfun_same (l := ⟨.tUnlockRoot b res, some p⟩) L hl rfl (fun b' => by
        show (binAt (s.tbins.modify b _) b').mutex = _
        rw [binAt_modify]; split <;> rfl)
    refine inv_b (l' := { pc := .tUnlockM b res false, call := some p }) I hl rfl rfl rfl (fun x => rfl) rfl
      (T' _ (fun h => by intro _ _; have := h (by simp) rfl; simpa [readerPc] using this)) rfl rfl rfl ?_ ?_
      ⟨by simp, by simp, by simp⟩ (by simp) (by intro p1 hp1; simp only [PcInv])
    · exact mx_step (l' := { pc := .tUnlockM b res false, call := some p }) L hl rfl hmf
        (fun b' hb' => Or.inl hb') (fun b' hb' => by simp [validT] at hb') (Or.inl rfl)
    · refine rw_bin (l' := { pc := .tUnlockM b res false, call := some p }) (b0 := b) (tb := s.tbins.modify b (fun x => { x with writer := false, waiter := false })) L H hl rfl rfl
        rfl (by rw [List.length_modify]) hb0
        (fun b' hb' => binAt_modify_ne _ (fun e => hb' e.symm)) (by rw [hself]) (Or.inr rfl) hmf ?_ ?_ ?_ ?_ ?_ rfl ?_ ?_
      · intro _ _
        rw [hself]
        exact ⟨rfl, fun hw => by cases hw⟩
      · intro _ hm'
        have : (binAt (s.tbins.modify b (fun x => { x with writer := false, waiter := false })) b).mutex = none := hm'
        rw [hself] at this
        simp only at this
        rw [hmt] at this; cases this
      · intro x hx hm'
        have : (binAt (s.tbins.modify b (fun x => { x with writer := false, waiter := false })) b).mutex = some x := hm'
        rw [hself] at this
        simp only at this
        rw [hmt] at this
        exact absurd (Option.some.inj this).symm hx
      · intro hw
        have : (binAt (s.tbins.modify b (fun x => { x with writer := false, waiter := false })) b).writer = true := hw
        rw [hself] at this
        cases this
      · intro hc _
        exact absurd hcell hc
      · intro b' hb'; exact Or.inl hb'
      · intro h b'; simp
  | @tUnlockMRetry b res =>
    have hb0 := (L.refOK t _ b hl rfl).1
    have hmt := (L.mx t _ b hl).1 rfl
    have hself : binAt (s.tbins.modify b (fun x => { x with mutex := none })) b =
        { binAt s.tbins b with mutex := none } := binAt_modify_self _ hb0
    have hmf : MutexFun s (setT (qst s s.heap (s.tbins.modify b (fun x => { x with mutex := none }))) t
        { pc := .wCell, call := some p }) t (.tUnlockM b res true) .wCell :=
      mutexfun_rel (l := ⟨.tUnlockM b res true, some p⟩) L hl rfl rfl rfl
    refine inv_b (l' := { pc := .wCell, call := some p }) I hl rfl rfl rfl (fun x => rfl) rfl
      (T' _ (fun h => by intro _ _; have := h (by simp) rfl; simpa [readerPc] using this)) rfl rfl rfl ?_ ?_
      ⟨by simp, by simp, by simp⟩ (by simp) (by intro p1 hp1; simp only [PcInv])
    · exact mx_step (l' := { pc := .wCell, call := some p }) L hl rfl hmf
        (fun b' hb' => by simp [holdsMutex] at hb') (fun b' hb' => by simp [validT] at hb') (Or.inl rfl)
    · refine rw_bin (l' := { pc := .wCell, call := some p }) (b0 := b) (tb := s.tbins.modify b (fun x => { x with mutex := none })) L H hl rfl rfl
        rfl (by rw [List.length_modify]) hb0
        (fun b' hb' => binAt_modify_ne _ (fun e => hb' e.symm)) (by rw [hself]) (Or.inr rfl) hmf ?_ ?_ ?_ ?_ ?_ rfl ?_ ?_
      · intro _ hm'
        have : (binAt (s.tbins.modify b (fun x => { x with mutex := none })) b).mutex = some t := hm'
        rw [hself] at this; cases this
      · intro hc _
        rw [hself]
        obtain ⟨e1, e2⟩ := L.bitsSome b t _ hc hl hmt
        refine ⟨e1, ?_⟩
        cases hw : (binAt s.tbins b).waiter with
        | false => rfl
        | true => have := e2 hw; cases this
      · intro x _ hm'
        have : (binAt (s.tbins.modify b (fun x => { x with mutex := none })) b).mutex = some x := hm'
        rw [hself] at this; cases this
      · intro hw
        have : (binAt (s.tbins.modify b (fun x => { x with mutex := none })) b).writer = true := hw
        rw [hself] at this
        exact L.wrd b this
      · intro _ hw
        rw [hself]; exact hw
      · intro b' hb'; simp [binRef] at hb'
      · intro h b'; simp

theorem inv_bfin {s : State} {t : Nat} {l : Local} {p : Pending} {res : KRes} {tb : List TBin} (I : Inv s)
    (hl : s.threads[t]? = some l) (hp : l.call = some p) (hf : BFin s p l.pc res tb) :
    Inv (finish (qst s s.heap tb) t p res) := by
  have L := I.lock
  have H := I.heap
  obtain ⟨pc, call⟩ := l
  simp only at hf hp
  subst hp
  have T' : TInv (finish (qst s s.heap tb) t p res) :=
    tinv_finish (l' := { pc := .idle, call := none }) I.thr hl rfl rfl rfl rfl rfl
  have hrel : ∀ (b : Nat) (hit : Option Nat), pc = .rRelease b hit →
      tb = s.tbins.modify b (fun x => { x with readers := x.readers - 1 }) →
      Inv (finish (qst s s.heap tb) t p res) := by
    intro b hit hpc htb
    subst hpc htb
    have hb0 := (L.refOK t _ b hl rfl).1
    have hpos := L.reader_pos (b := b) hl rfl
    refine inv_b (l' := { pc := .idle, call := none }) I hl rfl rfl rfl (fun x => rfl) rfl T' rfl rfl rfl ?_ ?_
      ⟨by simp, by simp, by simp⟩ (by simp) (by intro p1 hp1; cases hp1)
    · exact mx_step (l' := { pc := .idle, call := none }) L hl rfl
        (mutexfun_same L hl rfl (fun b' => by
          show (binAt (s.tbins.modify b _) b').mutex = _
          rw [binAt_modify]; split <;> rfl))
        (fun b' hb' => by simp [holdsMutex] at hb') (fun b' hb' => by simp [validT] at hb') (Or.inl rfl)
    · refine rw_readers (l' := { pc := .idle, call := none }) (b0 := b) L H hl rfl rfl rfl hb0
        (fun x => ⟨rfl, rfl, rfl⟩) ?_ ?_ ?_ rfl ?_ ?_
      · simp [holdsRead]; omega
      · intro b' hb'
        simp [holdsRead]
        exact fun e => hb' e.symm
      · intro hw; have := L.wrd b hw; simp only; omega
      · intro b' hb'; simp [binRef] at hb'
      · intro h b'; simp
  cases hf with
  | @rRelNone b => exact hrel b none rfl rfl
  | @rRelHas b i hop => exact hrel b (some i) rfl rfl
  | @tUnlockMFin b =>
    have hb0 := (L.refOK t _ b hl rfl).1
    have hmt := (L.mx t _ b hl).1 rfl
    have hself : binAt (s.tbins.modify b (fun x => { x with mutex := none })) b =
        { binAt s.tbins b with mutex := none } := binAt_modify_self _ hb0
    have hmf : MutexFun s (finish (qst s s.heap (s.tbins.modify b (fun x => { x with mutex := none }))) t p res)
        t (.tUnlockM b res false) .idle :=
      mutexfun_rel (l := ⟨.tUnlockM b res false, some p⟩) L hl rfl rfl rfl
    refine inv_b (l' := { pc := .idle, call := none }) I hl rfl rfl rfl (fun x => rfl) rfl T' rfl rfl rfl ?_ ?_
      ⟨by simp, by simp, by simp⟩ (by simp) (by intro p1 hp1; cases hp1)
    · exact mx_step (l' := { pc := .idle, call := none }) L hl rfl hmf
        (fun b' hb' => by simp [holdsMutex] at hb') (fun b' hb' => by simp [validT] at hb') (Or.inl rfl)
    · refine rw_bin (l' := { pc := .idle, call := none }) (b0 := b)
        (tb := s.tbins.modify b (fun x => { x with mutex := none })) L H hl rfl rfl
        rfl (by rw [List.length_modify]) hb0
        (fun b' hb' => binAt_modify_ne _ (fun e => hb' e.symm)) (by rw [hself]) (Or.inr rfl) hmf ?_ ?_ ?_ ?_ ?_ rfl ?_ ?_
      · intro _ hm'
        rw [hself] at hm'; cases hm'
      · intro hc _
        rw [hself]
        obtain ⟨e1, e2⟩ := L.bitsSome b t _ hc hl hmt
        refine ⟨e1, ?_⟩
        cases hw : (binAt s.tbins b).waiter with
        | false => rfl
        | true => have := e2 hw; cases this
      · intro x _ hm'
        rw [hself] at hm'; cases hm'
      · intro hw
        rw [hself] at hw
        exact L.wrd b hw
      · intro _ hw
        rw [hself]; exact hw
      · intro b' hb'; simp [binRef] at hb'
      · intro h b'; simp

/-! ## what the new program counter of a `Move` knows -/

theorem treeFind_some {s : State} {b k i : Nat} (h : treeFind s b k = some i) :
    i < s.heap.length ∧ (nodeAt s.heap i).owner = some b ∧ (nodeAt s.heap i).inTree = true ∧
      (nodeAt s.heap i).key = k := by
  rw [treeFind_def] at h
  have h1 := List.mem_of_find?_eq_some h
  have h2 := List.find?_some h
  simp only [Bool.and_eq_true, beq_iff_eq] at h2
  exact ⟨List.mem_range.1 h1, h2.1.1, h2.1.2, h2.2⟩

theorem treeFind_none {s : State} {b k : Nat} (h : treeFind s b k = none) :
    ∀ j, j < s.heap.length → (nodeAt s.heap j).owner = some b → (nodeAt s.heap j).inTree = true →
      (nodeAt s.heap j).key ≠ k := by
  rw [treeFind_def, List.find?_eq_none] at h
  intro j hj ho hin hk
  have := h j (List.mem_range.2 hj)
  simp only [Bool.and_eq_true, beq_iff_eq, not_and] at this
  exact this ⟨ho, hin⟩ hk

/-- while thread `t` holds the validated mutex of the live `TreeBin` at a pc other than the exceptional
ones, every tree node is on the list -/
theorem Inv.tree_sub_chain {s : State} (I : Inv s) {t : Nat} {l : Local} {b : Nat} (hl : s.threads[t]? = some l)
    (hv : validT l.pc = some b) (h1 : ∀ j res, l.pc ≠ .tRestructure b j res) (h2 : ∀ res, l.pc ≠ .tUntreeify b res) :
    ∀ j, j < s.heap.length → (nodeAt s.heap j).owner = some b → (nodeAt s.heap j).inTree = true → j ∈ liveChain s := by
  intro j hj ho hin
  apply Classical.byContradiction
  intro hnc
  have hc := I.lock.vT t l b hl hv
  obtain ⟨t', l', hl', hpc⟩ := I.data.treeSub b hc j hj ho hin hnc
  have hv' : validated l'.pc = true := by
    rcases hpc with ⟨res, hpc⟩ | ⟨res, hpc⟩ <;> rw [hpc] <;> rfl
  have hvv : validated l.pc = true := by unfold validated; rw [hv]; simp
  have := I.lock.valid_unique hl hl' hvv hv'
  subst this
  rw [hl] at hl'; cases hl'
  rcases hpc with ⟨res, hpc⟩ | ⟨res, hpc⟩
  · exact h1 j res hpc
  · exact h2 res hpc

theorem Inv.chain_sub_tree {s : State} (I : Inv s) {t : Nat} {l : Local} {b : Nat} (hl : s.threads[t]? = some l)
    (hv : validT l.pc = some b) (h1 : ∀ j, l.pc ≠ .tTreeLinkLocked b j) :
    ∀ j ∈ liveChain s, (nodeAt s.heap j).inTree = true := by
  intro j hj
  cases hin : (nodeAt s.heap j).inTree with
  | true => rfl
  | false =>
    have hc := I.lock.vT t l b hl hv
    obtain ⟨t', l', hl', hpc⟩ := I.data.chainSub b hc j hj hin
    have hv' : validated l'.pc = true := by rw [hpc]; rfl
    have hvv : validated l.pc = true := by unfold validated; rw [hv]; simp
    have := I.lock.valid_unique hl hl' hvv hv'
    subst this
    rw [hl] at hl'; cases hl'
    exact absurd hpc (h1 j)

theorem Walk.start {s : State} (H : HInv s) {h : Nat} (hc : s.cell = .list h) (key : Nat) :
    Walk s key none (some h) := by
  have hch := H.isChain
  have : liveStart s = some h := by unfold liveStart; rw [hc]
  rw [this] at hch
  obtain ⟨l, hl⟩ := IsChain.start_some hch
  exact ⟨[], h :: l, by rw [hl]; rfl, rfl, rfl, fun j hj => by cases hj⟩

theorem Walk.next {s : State} (H : HInv s) {key : Nat} {pred : Option Nat} {c : Nat} {n : NodeS}
    (w : Walk s key pred (some c)) (hn : s.heap[c]? = some n) (hk : n.key ≠ key) :
    Walk s key (some c) n.next := by
  obtain ⟨l1, l2, hch, hcur, -, hkeys⟩ := w
  cases l2 with
  | nil => cases hcur
  | cons c' l2' =>
    cases hcur
    have hchain := H.isChain
    rw [hch] at hchain
    have hnx := hchain.next_eq hn
    refine ⟨l1 ++ [c], l2', by rw [hch]; simp, hnx, by simp, ?_⟩
    intro j hj
    rcases List.mem_append.1 hj with hj | hj
    · exact hkeys j hj
    · have : j = c := by simpa using hj
      subst this
      rw [nodeAt_of_some hn]; exact hk

theorem Walk.cur_mem {s : State} {key : Nat} {pred : Option Nat} {i : Nat} (w : Walk s key pred (some i)) :
    i ∈ liveChain s := by
  obtain ⟨l1, l2, hch, hcur, -, -⟩ := w
  cases l2 with
  | nil => cases hcur
  | cons c l2' => cases hcur; rw [hch]; simp

theorem next_lt {s : State} (H : HInv s) {c : Nat} {n : NodeS} (hn : s.heap[c]? = some n) {b : Nat}
    (hb : n.next = some b) : b < s.heap.length := (H.cinv.nextOK c n b hn hb).1

theorem Move.pcInv {s : State} {t : Nat} {p : Pending} {l : Local} {pc' : Pc} {hp : List NodeS}
    (hm : Move s t p l.pc pc' hp) (I : Inv s) (hl : s.threads[t]? = some l) (hpc : l.call = some p) :
    PcInv s p pc' := by
  have h0 := I.data.pcInv t l p hl hpc
  have H := I.heap
  obtain ⟨pc, call⟩ := l
  simp only at hm h0 hpc
  cases hm with
  | @rCellList lo h hc =>
    simp only [PcInv]
    exact H.cinv.startOK h (by unfold liveStart; rw [hc])
  | @rCellTree lo b hc => cases lo <;> simp only [PcInv, if_true, Bool.false_eq_true, if_false]
  | @rNodeNext c n hn hk =>
    cases hnx : n.next with
    | none => simp only [PcInv]
    | some b => simp only [PcInv]; exact next_lt H hn hnx
  | @rFirst b =>
    cases hf : (binAt s.tbins b).first with
    | none => simp only [PcInv]
    | some h => simp only [PcInv]; exact H.firstOK b h hf
  | rLinMode _ => simp only [PcInv] at h0 ⊢; exact h0
  | rTreeMode _ => simp only [PcInv] at h0 ⊢; exact h0
  | @rLinNext b c n hn hk =>
    cases hnx : n.next with
    | none => simp only [PcInv]
    | some b' => simp only [PcInv]; exact next_lt H hn hnx
  | rLinHit _ _ hop => simp only [PcInv]; exact hop
  | rCasFail => simp only [PcInv] at h0 ⊢; exact h0
  | rTree => simp only [PcInv]
  | @lFirst b =>
    cases hf : (binAt s.tbins b).first with
    | none => simp only [PcInv]
    | some h => simp only [PcInv]; exact H.firstOK b h hf
  | @lNext c n hn hk =>
    cases hnx : n.next with
    | none => simp only [PcInv]
    | some b => simp only [PcInv]; exact next_lt H hn hnx
  | lHit _ _ hop => simp only [PcInv]; exact hop
  | wCellCas _ _ => simp only [PcInv]
  | wCellList _ => simp only [PcInv]
  | wCellTree _ => simp only [PcInv]
  | wCasFail _ => simp only [PcInv]
  | wLock _ _ => simp only [PcInv]
  | wCheckOk hc => simp only [PcInv]; exact Walk.start H hc p.key
  | wCheckFail _ => simp only [PcInv]
  | wFindEnd =>
    simp only [PcInv] at h0 ⊢
    exact ⟨h0, fun i hi => by cases hi⟩
  | @wFindHit h pred c n hn hk =>
    simp only [PcInv] at h0 ⊢
    refine ⟨h0, ?_⟩
    intro i hi
    cases hi
    rw [nodeAt_of_some hn]
    exact ⟨hk, rfl⟩
  | @wFindNext h pred c n hn hk =>
    simp only [PcInv] at h0 ⊢
    exact h0.next H hn hk
  | wUnlockRetry => simp only [PcInv]
  | tCheckOk _ => simp only [PcInv]
  | tCheckFail _ => simp only [PcInv]
  | @findVal b i v res hf hspec =>
    obtain ⟨hi, ho, hin, hk⟩ := treeFind_some hf
    simp only [PcInv]
    exact ⟨I.tree_sub_chain hl rfl (by intro j res; simp) (by intro res; simp) i hi ho hin, hk, hspec⟩
  | @findInsert b hf _ => simp only [PcInv]; exact treeFind_none hf
  | @findRemove b i res hf hspec =>
    obtain ⟨hi, ho, hin, hk⟩ := treeFind_some hf
    simp only [PcInv, RemOK]
    exact ⟨I.tree_sub_chain hl rfl (by intro j res; simp) (by intro res; simp) i hi ho hin, hin, hk, hspec⟩
  | findDone _ => simp only [PcInv]
  | @lrTryFail b k res =>
    cases k with
    | insert => simp only [PcInv] at h0 ⊢; exact h0
    | remove i => simp only [PcInv] at h0 ⊢; exact h0

set_option linter.unusedSimpArgs false in
theorem Move.tfacts {s : State} {t : Nat} {p : Pending} {pc pc' : Pc} {hp : List NodeS}
    (hm : Move s t p pc pc' hp) : readerPc pc' = readerPc pc ∧ pc ≠ .idle ∧ kPc pc = false ∧ kPc pc' = false := by
  cases hm
  case rCellTree lo b hc => cases lo <;> simp [readerPc, kPc]
  all_goals simp [readerPc, kPc]

/-- **the transitions that leave every `TreeBin` alone preserve the invariant** -/
theorem inv_move {s : State} {t : Nat} {l : Local} {p : Pending} {pc' : Pc} {hp : List NodeS} (I : Inv s)
    (hl : s.threads[t]? = some l) (hpc : l.call = some p) (hm : Move s t p l.pc pc' hp) :
    Inv (setT (qst s hp s.tbins) t { l with pc := pc' }) := by
  obtain ⟨f1, f2, f3, f4⟩ := hm.tfacts
  refine inv_quiet_step (l' := { l with pc := pc' }) I hl rfl rfl rfl ?_ hm.lockKind hm.facts ?_
  · refine tinv_keep (l' := { l with pc := pc' }) I.thr hl rfl rfl rfl rfl ?_
    intro p1 hp1 _ _
    show isReader p1.op = readerPc pc'
    rw [f1]
    exact I.thr.opOK t l p1 hl hp1 f2 f3
  · intro p1 hp1
    have : p1 = p := by
      have h : l.call = some p1 := hp1
      rw [hpc] at h; exact (Option.some.inj h).symm
    subst this
    exact hm.pcInv I hl hpc

theorem inv_kmove {s : State} {t : Nat} {l : Local} {pc' : Pc} {hp : List NodeS} (I : Inv s)
    (hl : s.threads[t]? = some l) (hpc : l.call = none) (hk : KMove s t l.pc pc' hp) :
    Inv (setT (qst s hp s.tbins) t { l with pc := pc' }) := by
  refine inv_quiet_step (l' := { l with pc := pc' }) I hl rfl rfl rfl ?_ hk.lockKind hk.facts ?_
  · refine tinv_keep (l' := { l with pc := pc' }) I.thr hl rfl rfl rfl rfl ?_
    intro p1 hp1
    rw [hpc] at hp1; cases hp1
  · intro p1 hp1
    have h : l.call = some p1 := hp1
    rw [hpc] at h; cases h

theorem inv_fin {s : State} {t : Nat} {l : Local} {p : Pending} {res : KRes} {hp : List NodeS} (I : Inv s)
    (hl : s.threads[t]? = some l) (hpc : l.call = some p) (hf : Fin s p l.pc res hp) :
    Inv (finish (qst s hp s.tbins) t p res) := by
  refine inv_quiet_step (l' := { pc := .idle, call := none }) I hl rfl rfl rfl ?_ hf.lockKind hf.facts ?_
  · exact tinv_finish (l' := { pc := .idle, call := none }) I.thr hl hpc rfl rfl rfl rfl
  · intro p1 hp1; cases hp1

theorem pcFacts_refl_idle (s : State) : PcFacts s .idle .idle := by
  refine ⟨⟨?_, ?_, ?_, ?_, ?_, ?_, ?_⟩, ?_⟩ <;> simp [validL, validT, holdsMutex, holdsRead, wr, isLoop, binRef]

theorem inv_idle {s : State} {t : Nat} {l : Local} (I : Inv s) (hl : s.threads[t]? = some l) (hpc : l.pc = .idle) :
    Inv (setT (tick s) t l) := by
  refine inv_quiet_step (l' := l) I hl rfl rfl rfl ?_ (Or.inl ⟨rfl, rfl⟩) (by rw [hpc]; exact pcFacts_refl_idle s) ?_
  · exact tinv_keep (l' := l) I.thr hl rfl rfl rfl rfl (fun p hp => I.thr.opOK t l p hl hp)
  · intro p1 hp1; exact I.data.pcInv t l p1 hl hp1

theorem inv_maint {s : State} {t : Nat} {l : Local} (I : Inv s) (hl : s.threads[t]? = some l) (hpc : l.pc = .idle) :
    Inv (setT (tick s) t { l with pc := .kCell }) := by
  refine inv_quiet_step (l' := { l with pc := .kCell }) I hl rfl rfl rfl ?_ (Or.inl ⟨rfl, by rw [hpc]; rfl⟩) ?_ ?_
  · refine tinv_keep (l' := { l with pc := .kCell }) I.thr hl rfl rfl rfl rfl ?_
    intro p _ _ h; cases h
  · rw [hpc]; refine ⟨⟨?_, ?_, ?_, ?_, ?_, ?_, ?_⟩, ?_⟩ <;> simp [validL, validT, holdsMutex, holdsRead, wr, isLoop, binRef]
  · intro p1 _; simp only [PcInv]

theorem inv_invoke {s : State} {t : Nat} {l : Local} (I : Inv s) (hl : s.threads[t]? = some l) (hpc : l.pc = .idle)
    (k : Nat) (op : KOp) (lo : Bool) :
    Inv (setT (tick s) t { pc := if isReader op then .rCell lo else .wCell, call := some ⟨k, op, s.now + 1⟩ }) := by
  refine inv_quiet_step (l' := { pc := if isReader op then .rCell lo else .wCell, call := some ⟨k, op, s.now + 1⟩ })
    I hl rfl rfl rfl ?_ (Or.inl ⟨rfl, by rw [hpc]; cases isReader op <;> rfl⟩) ?_ ?_
  · refine tinv_invoke (l' := { pc := if isReader op then .rCell lo else .wCell, call := some ⟨k, op, s.now + 1⟩ })
      I.thr hl rfl rfl rfl rfl ?_
    intro _ _
    cases isReader op <;> simp [readerPc]
  · rw [hpc]
    cases isReader op <;> refine ⟨⟨?_, ?_, ?_, ?_, ?_, ?_, ?_⟩, ?_⟩ <;>
      simp [validL, validT, holdsMutex, holdsRead, wr, isLoop, binRef]
  · intro p1 _
    show PcInv s p1 (if isReader op then .rCell lo else .wCell)
    cases isReader op <;> simp [PcInv]

end Flurry.Proto.BinK
