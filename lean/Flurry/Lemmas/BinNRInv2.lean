import Flurry.Lemmas.BinNRMain
/-! # Proto/BinNR: the bookkeeping invariant of the retire lists and of `waitFor` (C04)

`RInv2 s`:
* `k1`–`k3`: a retire obligation is a `live` node, in exactly one retire list, once;
* `w1`/`w2`: every thread that was under a guard when `i` was retired (`w0 i`) is still awaited (`∈ waitFor`) or has
  left a guard since (`∈ exited i`); for a freed node all of them have;
* `w3`: `waitFor` only contains threads under a guard; `w4`: `waitFor ⊆ w0` and nobody in `waitFor` has exited. -/
namespace Flurry.Proto.BinNR
open Flurry.Lin
open Flurry.Proto.BinX (NodeS Cell Pending isReader dflt chainFrom cellHead cellOfHead nodeAt get_set get_set_ne)
open Flurry.Proto.BinN (Pc Local cellAt cellOf chainOfCell Ghost Inv HInv Live chId getCell CellId StepK step_stepK)

structure RInv2 (s : State) : Prop where
  k1 : ∀ t i, i ∈ s.pend t → s.life i = .live
  k2 : ∀ t, (s.pend t).Nodup
  k3 : ∀ t t' i, i ∈ s.pend t → i ∈ s.pend t' → t = t'
  w1 : ∀ i w, s.life i = .retired w → ∀ x ∈ s.w0 i, x ∈ w ∨ x ∈ s.exited i
  w2 : ∀ i, s.life i = .freed → ∀ x ∈ s.w0 i, x ∈ s.exited i
  w3 : ∀ i w, s.life i = .retired w → ∀ x ∈ w, guarded s.n x = true
  w4 : ∀ i w, s.life i = .retired w → ∀ x ∈ w, x ∈ s.w0 i ∧ x ∉ s.exited i

/-- the step ends the guard of `t` -/
def exitsB (s : State) (t : Nat) (n' : BinN.State) : Bool := guarded s.n t && !guarded n' t
/-- the retire obligations of `t` after the step -/
def pend1 (s : State) (t : Nat) : List Nat := s.pend t ++ retiredBy false s.n t

theorem afterBase_life (s : State) (t : Nat) (n' : BinN.State) (i : Nat) :
    (afterBase false s t n').life i =
      if (exitsB s t n' && (pend1 s t).contains i) = true then .retired (guardedSet n')
      else shrinkLife (guarded n') (s.life i) := rfl
theorem afterBase_pend (s : State) (t : Nat) (n' : BinN.State) (t' : Nat) :
    (afterBase false s t n').pend t' =
      if t' = t then (if exitsB s t n' = true then [] else pend1 s t) else s.pend t' := rfl
theorem afterBase_w0 (s : State) (t : Nat) (n' : BinN.State) (i : Nat) :
    (afterBase false s t n').w0 i =
      if (exitsB s t n' && (pend1 s t).contains i) = true then guardedSet n' else s.w0 i := rfl
theorem afterBase_exited (s : State) (t : Nat) (n' : BinN.State) (i : Nat) :
    (afterBase false s t n').exited i =
      if (exitsB s t n' && (pend1 s t).contains i) = true then []
      else if exitsB s t n' = true then t :: s.exited i else s.exited i := rfl

/-- the nodes a step hands to `retire` are pairwise different -/
theorem retiredBy_nodup {n : BinN.State} {G : Ghost} (I : Inv n G) (t : Nat) : (retiredBy false n t).Nodup := by
  unfold retiredBy
  cases hl : n.threads[t]? with
  | none => exact List.nodup_nil
  | some l =>
    obtain ⟨pc, call⟩ := l
    simp only
    split
    · split <;> simp
    · rename_i j h
      simp only [Bool.false_eq_true, if_false]
      exact copiedPrefix_nodup I hl rfl
    · simp
    · exact List.nodup_nil

theorem RInv2.base {s : State} {G : Ghost} (R : RInv s G) (K : RInv2 s) {t : Nat} {l : Local} {pick : Nat}
    {n' : BinN.State} (hl : s.n.threads[t]? = some l) (hK : StepK s.n t l pick n')
    (hRB : ∀ i ∈ retiredBy false s.n t, Live0 s.n i ∧ ¬ Live0 n' i ∧ guarded s.n t = true) :
    RInv2 (afterBase false s t n') := by
  obtain ⟨l', hthr, -⟩ := acquire hK
  have hgother : ∀ x, x ≠ t → guarded n' x = guarded s.n x := by
    intro x hne; unfold guarded; rw [hthr, get_set_ne hne]
  have hnone : ∀ i, Live0 s.n i → s.unl i = none := by
    intro i h0
    cases hu : s.unl i with
    | none => rfl
    | some u => exact absurd h0.live (R.j1 i u hu).1
  have P1 : ∀ i, i ∈ pend1 s t → s.life i = .live := by
    intro i hi
    rcases List.mem_append.1 hi with hi | hi
    · exact K.k1 t i hi
    · exact R.j4n i (hnone i (hRB i hi).1)
  have P3 : ∀ i t', i ∈ pend1 s t → i ∈ s.pend t' → t' = t := by
    intro i t' hi hi'
    rcases List.mem_append.1 hi with hi | hi
    · exact K.k3 t' t i hi' hi
    · have := (R.j7 t' i hi').1
      rw [hnone i (hRB i hi).1] at this; cases this
  have P2 : (pend1 s t).Nodup := by
    unfold pend1
    rw [List.nodup_append]
    refine ⟨K.k2 t, retiredBy_nodup R.inv t, ?_⟩
    intro a ha b hb hab
    subst hab
    have := (R.j7 t a ha).1
    rw [hnone a (hRB a hb).1] at this; cases this
  have hexit : exitsB s t n' = true → guarded n' t = false := by
    intro h; unfold exitsB at h
    simp only [Bool.and_eq_true, Bool.not_eq_true'] at h; exact h.2
  refine ⟨?_, ?_, ?_, ?_, ?_, ?_, ?_⟩
  · -- k1
    intro t1 i hi
    rw [afterBase_pend] at hi
    rw [afterBase_life]
    by_cases ht : t1 = t
    · subst ht
      rw [if_pos rfl] at hi
      by_cases he : exitsB s t1 n' = true
      · rw [if_pos he] at hi; cases hi
      · rw [if_neg he] at hi
        have : (exitsB s t1 n' && (pend1 s t1).contains i) = false := by
          cases h : exitsB s t1 n' with
          | true => exact absurd h he
          | false => rfl
        rw [this, if_neg (by simp), shrinkLife_live]
        exact P1 i hi
    · rw [if_neg ht] at hi
      have hnc : ¬ (exitsB s t n' && (pend1 s t).contains i) = true := by
        intro hc
        simp only [Bool.and_eq_true, List.contains_iff_mem] at hc
        exact ht (P3 i t1 hc.2 hi)
      rw [if_neg hnc, shrinkLife_live]
      exact K.k1 t1 i hi
  · -- k2
    intro t1
    rw [afterBase_pend]
    by_cases ht : t1 = t
    · rw [if_pos ht]
      by_cases he : exitsB s t n' = true
      · rw [if_pos he]; exact List.nodup_nil
      · rw [if_neg he]; exact P2
    · rw [if_neg ht]; exact K.k2 t1
  · -- k3
    intro t1 t2 i h1 h2
    rw [afterBase_pend] at h1 h2
    by_cases e1 : t1 = t
    · by_cases e2 : t2 = t
      · rw [e1, e2]
      · rw [if_pos e1] at h1
        rw [if_neg e2] at h2
        by_cases he : exitsB s t n' = true
        · rw [if_pos he] at h1; cases h1
        · rw [if_neg he] at h1
          rw [e1]; exact (P3 i t2 h1 h2).symm
    · rw [if_neg e1] at h1
      by_cases e2 : t2 = t
      · rw [if_pos e2] at h2
        by_cases he : exitsB s t n' = true
        · rw [if_pos he] at h2; cases h2
        · rw [if_neg he] at h2
          rw [e2]; exact P3 i t1 h2 h1
      · rw [if_neg e2] at h2
        exact K.k3 t1 t2 i h1 h2
  · -- w1
    intro i w' hw x hx
    rw [afterBase_life] at hw
    rw [afterBase_w0] at hx
    rw [afterBase_exited]
    by_cases hc : (exitsB s t n' && (pend1 s t).contains i) = true
    · rw [if_pos hc] at hw hx
      cases hw
      exact Or.inl hx
    · rw [if_neg hc] at hw hx
      rw [if_neg hc]
      obtain ⟨w, hlw, rfl⟩ := shrinkLife_retired hw
      rcases K.w1 i w hlw x hx with h | h
      · by_cases hg : guarded n' x = true
        · exact Or.inl (List.mem_filter.2 ⟨h, hg⟩)
        · right
          have hgx := K.w3 i w hlw x h
          have hxt : x = t := by
            apply Classical.byContradiction
            intro hne
            rw [hgother x hne] at hg
            exact hg hgx
          subst hxt
          have he : exitsB s x n' = true := by
            unfold exitsB
            rw [hgx]
            cases h' : guarded n' x with
            | true => exact absurd h' hg
            | false => rfl
          rw [if_pos he]
          exact List.mem_cons_self
      · right
        by_cases he : exitsB s t n' = true
        · rw [if_pos he]; exact List.mem_cons_of_mem _ h
        · rw [if_neg he]; exact h
  · -- w2
    intro i hf x hx
    rw [afterBase_life] at hf
    rw [afterBase_w0] at hx
    rw [afterBase_exited]
    by_cases hc : (exitsB s t n' && (pend1 s t).contains i) = true
    · rw [if_pos hc] at hf; cases hf
    · rw [if_neg hc] at hf hx
      rw [if_neg hc]
      rw [shrinkLife_freed] at hf
      have := K.w2 i hf x hx
      by_cases he : exitsB s t n' = true
      · rw [if_pos he]; exact List.mem_cons_of_mem _ this
      · rw [if_neg he]; exact this
  · -- w3
    intro i w' hw x hx
    rw [afterBase_life] at hw
    by_cases hc : (exitsB s t n' && (pend1 s t).contains i) = true
    · rw [if_pos hc] at hw
      cases hw
      exact mem_guardedSet.1 hx
    · rw [if_neg hc] at hw
      obtain ⟨w, -, rfl⟩ := shrinkLife_retired hw
      exact (List.mem_filter.1 hx).2
  · -- w4
    intro i w' hw x hx
    rw [afterBase_life] at hw
    rw [afterBase_w0, afterBase_exited]
    by_cases hc : (exitsB s t n' && (pend1 s t).contains i) = true
    · rw [if_pos hc] at hw
      rw [if_pos hc, if_pos hc]
      cases hw
      exact ⟨hx, by simp⟩
    · rw [if_neg hc] at hw
      rw [if_neg hc, if_neg hc]
      obtain ⟨w, hlw, rfl⟩ := shrinkLife_retired hw
      obtain ⟨hxw, hgx⟩ := List.mem_filter.1 hx
      obtain ⟨h1, h2⟩ := K.w4 i w hlw x hxw
      refine ⟨h1, ?_⟩
      by_cases he : exitsB s t n' = true
      · rw [if_pos he]
        intro hm
        rcases List.mem_cons.1 hm with rfl | hm
        · rw [hexit he] at hgx; cases hgx
        · exact h2 hm
      · rw [if_neg he]; exact h2

theorem RInv2.retire {s s' : State} {G : Ghost} (R : RInv s G) (K : RInv2 s) {t i : Nat}
    (hs : stepG false s t (.retire i) = some s') : RInv2 s' := by
  unfold stepG at hs
  simp only at hs
  split at hs
  · rename_i hc
    cases hs
    have hi : i ∈ s.pend t := by simpa using hc
    refine ⟨?_, ?_, ?_, ?_, ?_, ?_, ?_⟩
    · intro t1 j hj
      have hj' : j ∈ (if t1 = t then (s.pend t).erase i else s.pend t1) := hj
      show (if j = i then _ else s.life j) = Life.live
      by_cases ht : t1 = t
      · subst ht
        rw [if_pos rfl] at hj'
        obtain ⟨hne, hm⟩ := (K.k2 t1).mem_erase_iff.1 hj'
        rw [if_neg hne]; exact K.k1 t1 j hm
      · rw [if_neg ht] at hj'
        have hne : j ≠ i := by
          intro e; subst e; exact ht (K.k3 t1 t j hj' hi)
        rw [if_neg hne]; exact K.k1 t1 j hj'
    · intro t1
      show (if t1 = t then (s.pend t).erase i else s.pend t1).Nodup
      by_cases ht : t1 = t
      · rw [if_pos ht]; exact (K.k2 t).sublist List.erase_sublist
      · rw [if_neg ht]; exact K.k2 t1
    · intro t1 t2 j h1 h2
      have h1' : j ∈ (if t1 = t then (s.pend t).erase i else s.pend t1) := h1
      have h2' : j ∈ (if t2 = t then (s.pend t).erase i else s.pend t2) := h2
      have m1 : j ∈ s.pend t1 := by
        by_cases ht : t1 = t
        · rw [if_pos ht] at h1'; rw [ht]; exact List.mem_of_mem_erase h1'
        · rw [if_neg ht] at h1'; exact h1'
      have m2 : j ∈ s.pend t2 := by
        by_cases ht : t2 = t
        · rw [if_pos ht] at h2'; rw [ht]; exact List.mem_of_mem_erase h2'
        · rw [if_neg ht] at h2'; exact h2'
      exact K.k3 t1 t2 j m1 m2
    · intro j w hw x hx
      have hw' : (if j = i then Life.retired (guardedSet s.n) else s.life j) = Life.retired w := hw
      have hx' : x ∈ (if j = i then guardedSet s.n else s.w0 j) := hx
      show x ∈ w ∨ x ∈ (if j = i then [] else s.exited j)
      by_cases hj : j = i
      · rw [if_pos hj] at hw' hx'; cases hw'; exact Or.inl hx'
      · rw [if_neg hj] at hw' hx'; rw [if_neg hj]; exact K.w1 j w hw' x hx'
    · intro j hf x hx
      have hf' : (if j = i then Life.retired (guardedSet s.n) else s.life j) = Life.freed := hf
      have hx' : x ∈ (if j = i then guardedSet s.n else s.w0 j) := hx
      show x ∈ (if j = i then [] else s.exited j)
      by_cases hj : j = i
      · rw [if_pos hj] at hf'; cases hf'
      · rw [if_neg hj] at hf' hx'; rw [if_neg hj]; exact K.w2 j hf' x hx'
    · intro j w hw x hx
      have hw' : (if j = i then Life.retired (guardedSet s.n) else s.life j) = Life.retired w := hw
      show guarded s.n x = true
      by_cases hj : j = i
      · rw [if_pos hj] at hw'; cases hw'; exact mem_guardedSet.1 hx
      · rw [if_neg hj] at hw'; exact K.w3 j w hw' x hx
    · intro j w hw x hx
      have hw' : (if j = i then Life.retired (guardedSet s.n) else s.life j) = Life.retired w := hw
      show x ∈ (if j = i then guardedSet s.n else s.w0 j) ∧ x ∉ (if j = i then [] else s.exited j)
      by_cases hj : j = i
      · rw [if_pos hj] at hw'; rw [if_pos hj, if_pos hj]; cases hw'; exact ⟨hx, by simp⟩
      · rw [if_neg hj] at hw'; rw [if_neg hj, if_neg hj]; exact K.w4 j w hw' x hx
  · cases hs

theorem RInv2.free {s s' : State} (K : RInv2 s) {t i : Nat}
    (hs : stepG false s t (.free i) = some s') : RInv2 s' := by
  unfold stepG at hs
  simp only at hs
  split at hs
  · rename_i hc
    cases hs
    refine ⟨?_, K.k2, K.k3, ?_, ?_, ?_, ?_⟩
    · intro t1 j hj
      show (if j = i then Life.freed else s.life j) = Life.live
      have := K.k1 t1 j hj
      by_cases hji : j = i
      · subst hji; rw [hc] at this; cases this
      · rw [if_neg hji]; exact this
    · intro j w hw
      have hw' : (if j = i then Life.freed else s.life j) = Life.retired w := hw
      by_cases hji : j = i
      · rw [if_pos hji] at hw'; cases hw'
      · rw [if_neg hji] at hw'; exact K.w1 j w hw'
    · intro j hf x hx
      have hf' : (if j = i then Life.freed else s.life j) = Life.freed := hf
      by_cases hji : j = i
      · subst hji
        rcases K.w1 j [] hc x hx with h | h
        · cases h
        · exact h
      · rw [if_neg hji] at hf'; exact K.w2 j hf' x hx
    · intro j w hw
      have hw' : (if j = i then Life.freed else s.life j) = Life.retired w := hw
      by_cases hji : j = i
      · rw [if_pos hji] at hw'; cases hw'
      · rw [if_neg hji] at hw'; exact K.w3 j w hw'
    · intro j w hw
      have hw' : (if j = i then Life.freed else s.life j) = Life.retired w := hw
      by_cases hji : j = i
      · rw [if_pos hji] at hw'; cases hw'
      · rw [if_neg hji] at hw'; exact K.w4 j w hw'
  · cases hs

theorem RInv2.init (n : Nat) : RInv2 (init n) := by
  refine ⟨?_, ?_, ?_, ?_, ?_, ?_, ?_⟩
  · intro t i h; cases h
  · intro t; exact List.nodup_nil
  · intro t t' i h; cases h
  · intro i w h; cases h
  · intro i h; cases h
  · intro i w h; cases h
  · intro i w h; cases h

theorem reachable_rinv2 {nt : Nat} {s : State} (hr : Reachable nt s) : RInv2 s := by
  induction hr with
  | init => exact RInv2.init nt
  | @step s s' t a hr hs ih =>
    obtain ⟨G, R⟩ := reachable_rinv hr
    cases a with
    | base inv rz pick =>
      unfold step stepG at hs
      simp only at hs
      cases hb : BinN.step s.n t inv rz pick with
      | none => rw [hb] at hs; cases hs
      | some n' =>
        rw [hb] at hs
        cases hs
        cases hl : s.n.threads[t]? with
        | none => unfold BinN.step BinN.stepG at hb; rw [hl] at hb; cases hb
        | some l =>
          have hK := step_stepK hl hb
          exact RInv2.base R ih hl hK (retiredBy_dead R.inv hl hK)
    | retire i => exact RInv2.retire R ih hs
    | free i => exact RInv2.free ih hs

end Flurry.Proto.BinNR
