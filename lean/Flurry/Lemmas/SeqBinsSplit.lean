import Flurry.Lemmas.SeqBinsUpdate
/-! # B7: the split of a bin on resize (`splitBin`: `splitList` with `lastRunStart`, `splitTree`)

A node of bin `i` of a table of `n = 2^k` bins goes to bin `i` of the doubled table if its bit
`hash & n` is `0` and to bin `i + n` otherwise (`bini_double`, `runBit_cases`). -/
namespace Flurry.Seq
open Flurry Flurry.Gen

/-- the two filters of a split -/
abbrev bit0 (n : Nat) : Node → Bool := fun nd => runBit nd.hash n == 0
abbrev bit1 (n : Nat) : Node → Bool := fun nd => runBit nd.hash n != 0

theorem bit0_eq_not_bit1 (n : Nat) (x : Node) : bit0 n x = !bit1 n x := by
  simp only [bit0, bit1, bne, Bool.not_not]
theorem bit1_eq_not_bit0 (n : Nat) (x : Node) : bit1 n x = !bit0 n x := by
  simp only [bit0, bit1, bne]

theorem filter_bits_perm (n : Nat) (l : List Node) :
    (l.filter (bit0 n) ++ l.filter (bit1 n)).Perm l := by
  have : bit1 n = fun x => !bit0 n x := funext (bit1_eq_not_bit0 n)
  rw [this]; exact List.filter_append_perm _ _

/-! ## where a node goes -/

theorem two_mul_two_pow (k : Nat) : 2 * 2 ^ k = 2 ^ (k + 1) := by rw [Nat.pow_succ]; omega

theorem nodeOk_double_lo {hash : Nat → Nat} {k i : Nat} {nd : Node}
    (h : NodeOk hash (2 ^ k) i nd) (hb : bit0 (2 ^ k) nd = true) :
    NodeOk hash (2 * 2 ^ k) i nd := by
  refine ⟨h.1, ?_⟩
  rw [two_mul_two_pow, bini_double, h.2]
  simp only [bit0, beq_iff_eq] at hb
  omega

theorem nodeOk_double_hi {hash : Nat → Nat} {k i : Nat} {nd : Node}
    (h : NodeOk hash (2 ^ k) i nd) (hb : bit1 (2 ^ k) nd = true) :
    NodeOk hash (2 * 2 ^ k) (i + 2 ^ k) nd := by
  refine ⟨h.1, ?_⟩
  rw [two_mul_two_pow, bini_double, h.2]
  simp only [bit1, bne_iff_ne, ne_eq] at hb
  rcases runBit_cases nd.hash k with h0 | h1
  · exact absurd h0 hb
  · rw [h1]

theorem nodeOk_filter_lo {hash : Nat → Nat} {k i : Nat} {l : List Node}
    (h : ∀ nd ∈ l, NodeOk hash (2 ^ k) i nd) :
    ∀ nd ∈ l.filter (bit0 (2 ^ k)), NodeOk hash (2 * 2 ^ k) i nd := by
  intro nd hnd
  obtain ⟨h1, h2⟩ := List.mem_filter.1 hnd
  exact nodeOk_double_lo (h nd h1) h2

theorem nodeOk_filter_hi {hash : Nat → Nat} {k i : Nat} {l : List Node}
    (h : ∀ nd ∈ l, NodeOk hash (2 ^ k) i nd) :
    ∀ nd ∈ l.filter (bit1 (2 ^ k)), NodeOk hash (2 * 2 ^ k) (i + 2 ^ k) nd := by
  intro nd hnd
  obtain ⟨h1, h2⟩ := List.mem_filter.1 hnd
  exact nodeOk_double_hi (h nd h1) h2

/-! ## `lastRunStart` -/

theorem lastRunStart_lt (n : Nat) (ns : List Node) (hn : ns ≠ []) :
    lastRunStart n ns < ns.length := by
  fun_induction lastRunStart n ns with
  | case1 => simp at hn
  | case2 a => simp
  | case3 a b rest r hc ih => simp
  | case4 a b rest r hc ih =>
    have := ih (by simp)
    simp only [List.length_cons] at this ⊢
    omega

/-- the suffix from `lastRunStart` on has a constant bit -/
theorem lastRunStart_const (n : Nat) (ns : List Node) :
    ∀ x ∈ ns.drop (lastRunStart n ns), ∀ y ∈ ns.drop (lastRunStart n ns),
      runBit x.hash n = runBit y.hash n := by
  fun_induction lastRunStart n ns with
  | case1 => simp
  | case2 a => simp
  | case3 a b rest r hc ih =>
    simp only [Bool.and_eq_true, beq_iff_eq] at hc
    obtain ⟨hr, hab⟩ := hc
    simp only [r] at hr
    rw [hr] at ih
    simp only [List.drop_zero] at ih ⊢
    have key : ∀ x ∈ a :: b :: rest, runBit x.hash n = runBit b.hash n := by
      intro x hx
      rcases List.mem_cons.1 hx with rfl | hx
      · exact hab
      · exact ih x hx b (by simp)
    intro x hx y hy
    rw [key x hx, key y hy]
  | case4 a b rest r hc ih => simpa using ih

/-- … and it is maximal: the node before it has the other bit -/
theorem lastRunStart_maximal (n : Nat) (ns : List Node) (j : Nat)
    (hj : lastRunStart n ns = j + 1) :
    ∃ a b, ns[j]? = some a ∧ ns[j + 1]? = some b ∧ runBit a.hash n ≠ runBit b.hash n := by
  fun_induction lastRunStart n ns generalizing j with
  | case1 => simp at hj
  | case2 a => simp at hj
  | case3 a b rest r hc ih => simp at hj
  | case4 a b rest r hc ih =>
    have hrj : lastRunStart n (b :: rest) = j := by simp only [r] at hj; omega
    cases j with
    | zero =>
      simp only [r, hrj, beq_self_eq_true, Bool.true_and, beq_iff_eq] at hc
      exact ⟨a, b, by simp, by simp, hc⟩
    | succ j' =>
      obtain ⟨x, y, h1, h2, h3⟩ := ih j' hrj
      exact ⟨x, y, by simpa using h1, by simpa using h2, h3⟩

/-! ## `splitList` -/

theorem splitList_foldl (n : Nat) (pre lo0 hi0 : List Node) :
    pre.foldl (fun (acc : List Node × List Node) nd =>
      if runBit nd.hash n == 0 then (nd :: acc.1, acc.2) else (acc.1, nd :: acc.2)) (lo0, hi0)
    = ((pre.filter (bit0 n)).reverse ++ lo0, (pre.filter (bit1 n)).reverse ++ hi0) := by
  induction pre generalizing lo0 hi0 with
  | nil => rfl
  | cons a pre ih =>
    rw [List.foldl_cons]
    by_cases hc : runBit a.hash n = 0
    · have e0 : bit0 n a = true := by simp [bit0, hc]
      have e1 : ¬ bit1 n a = true := by simp [bit1, hc]
      rw [List.filter_cons_of_pos e0, List.filter_cons_of_neg e1]
      simp only [hc, beq_self_eq_true, if_true]
      rw [ih]; simp
    · have e0 : ¬ bit0 n a = true := by simp [bit0, hc]
      have e1 : bit1 n a = true := by simp [bit1, hc]
      rw [List.filter_cons_of_neg e0, List.filter_cons_of_pos e1]
      have : (runBit a.hash n == 0) = false := by simp [hc]
      simp only [this, Bool.false_eq_true, if_false]
      rw [ih]; simp

theorem const_filter (n : Nat) (a : Node) (l : List Node)
    (key : ∀ x ∈ a :: l, runBit x.hash n = runBit a.hash n) :
    (if runBit a.hash n == 0 then a :: l else []) = (a :: l).filter (bit0 n) ∧
    (if runBit a.hash n == 0 then [] else a :: l) = (a :: l).filter (bit1 n) := by
  by_cases h0 : runBit a.hash n = 0
  · have e0 : (a :: l).filter (bit0 n) = a :: l :=
      List.filter_eq_self.2 (fun x hx => by simp [bit0, key x hx, h0])
    have e1 : (a :: l).filter (bit1 n) = [] :=
      List.filter_eq_nil_iff.2 (fun x hx => by simp [bit1, key x hx, h0])
    rw [e0, e1]; simp [h0]
  · have e0 : (a :: l).filter (bit0 n) = [] :=
      List.filter_eq_nil_iff.2 (fun x hx => by simp [bit0, key x hx, h0])
    have e1 : (a :: l).filter (bit1 n) = a :: l :=
      List.filter_eq_self.2 (fun x hx => by simp [bit1, key x hx, h0])
    rw [e0, e1]; simp [h0]

/-- the exact result of `splitList`: the reused suffix, preceded by the *reversed* copies of the
prefix nodes with that bit -/
theorem splitList_eq (n : Nat) (ns : List Node) :
    splitList n ns =
      (((ns.take (lastRunStart n ns)).filter (bit0 n)).reverse
          ++ (ns.drop (lastRunStart n ns)).filter (bit0 n),
       ((ns.take (lastRunStart n ns)).filter (bit1 n)).reverse
          ++ (ns.drop (lastRunStart n ns)).filter (bit1 n)) := by
  have hconst := lastRunStart_const n ns
  simp only [splitList]
  rw [splitList_foldl]
  cases hs : ns.drop (lastRunStart n ns) with
  | nil => simp
  | cons a l =>
    rw [hs] at hconst
    obtain ⟨h0, h1⟩ := const_filter n a l (fun x hx => hconst x hx a (by simp))
    simp only
    rw [h0, h1]

theorem splitList_lo_perm (n : Nat) (ns : List Node) :
    (splitList n ns).1.Perm (ns.filter (bit0 n)) := by
  rw [splitList_eq]
  conv => rhs; rw [← List.take_append_drop (lastRunStart n ns) ns, List.filter_append]
  exact (List.reverse_perm _).append_right _

theorem splitList_hi_perm (n : Nat) (ns : List Node) :
    (splitList n ns).2.Perm (ns.filter (bit1 n)) := by
  rw [splitList_eq]
  conv => rhs; rw [← List.take_append_drop (lastRunStart n ns) ns, List.filter_append]
  exact (List.reverse_perm _).append_right _

/-! ## `splitTree` -/

/-- one half of `splitTree` (`mk` / `mkHi`), for any test `c` that refuses the empty list -/
theorem splitTree_half {hash : Nat → Nat} {n' j : Nat} {t : RB.T} {o : List Node}
    (p q : Node → Bool) (hq : ∀ x, q x = !p x) (c : Bool)
    (hne : o ≠ []) (hnd : KeysNodup o) (hi : RB.TreeInv t) (hp : (RB.toList t).Perm o)
    (hok : ∀ nd ∈ o.filter p, NodeOk hash n' j nd) (hc : c = false → o.filter p ≠ []) :
    let r : Bin := if c then untreeify (o.filter p)
      else if (o.filter q).length != 0 then .tree (RB.ofList (o.filter p)) (o.filter p)
      else .tree t o
    BinWF hash n' j r ∧ r.nodes = o.filter p := by
  have hnd' : KeysNodup (o.filter p) := hnd.filter p
  intro r
  simp only [r]
  cases c with
  | true => exact ⟨untreeify_wf hok hnd', by simp [untreeify]⟩
  | false =>
    simp only [Bool.false_eq_true, if_false]
    split
    · exact ⟨treeify_wf ⟨hc rfl, hok, hnd'⟩, rfl⟩
    next hl =>
      have hq0 : o.filter q = [] := by simpa using hl
      have hall : o.filter p = o := by
        rw [List.filter_eq_self]
        intro x hx
        have := List.filter_eq_nil_iff.1 hq0 x hx
        rw [hq] at this; simpa using this
      rw [hall] at hok
      exact ⟨⟨hne, hok, hnd, hi, hp⟩, hall.symm⟩

theorem untreeifyLow_ne_nil {l : List Node} (h : untreeifyLow l.length = false) : l ≠ [] := by
  intro he; rw [he] at h; revert h; decide

theorem untreeifyHigh_ne_nil {l : List Node} (h : untreeifyHigh l.length = false) : l ≠ [] := by
  intro he; rw [he] at h; revert h; decide

theorem splitTree_nodes (n : Nat) (t : RB.T) (o : List Node) :
    (splitTree n t o).1.nodes = o.filter (bit0 n) ∧ (splitTree n t o).2.nodes = o.filter (bit1 n) := by
  simp only [splitTree]
  constructor
  · split
    · simp [untreeify]
    · split
      · rfl
      next hl =>
        have hq0 : o.filter (bit1 n) = [] := by simpa using hl
        simp only [Bin.nodes]; symm
        rw [List.filter_eq_self]
        intro x hx
        have := List.filter_eq_nil_iff.1 hq0 x hx
        rw [bit1_eq_not_bit0] at this; simpa using this
  · split
    · simp [untreeify]
    · split
      · rfl
      next hl =>
        have hq0 : o.filter (bit0 n) = [] := by simpa using hl
        simp only [Bin.nodes]; symm
        rw [List.filter_eq_self]
        intro x hx
        have := List.filter_eq_nil_iff.1 hq0 x hx
        rw [bit0_eq_not_bit1] at this; simpa using this

theorem splitTree_wf {hash : Nat → Nat} {k i : Nat} {t : RB.T} {o : List Node}
    (hb : BinWF hash (2 ^ k) i (.tree t o)) :
    BinWF hash (2 * 2 ^ k) i (splitTree (2 ^ k) t o).1 ∧
    BinWF hash (2 * 2 ^ k) (i + 2 ^ k) (splitTree (2 ^ k) t o).2 := by
  obtain ⟨h1, h2, h3, h4, h5⟩ := hb
  constructor
  · exact (splitTree_half (bit0 (2 ^ k)) (bit1 (2 ^ k)) (bit1_eq_not_bit0 _)
      (untreeifyLow (o.filter (bit0 (2 ^ k))).length) h1 h3 h4 h5 (nodeOk_filter_lo h2)
      untreeifyLow_ne_nil).1
  · exact (splitTree_half (bit1 (2 ^ k)) (bit0 (2 ^ k)) (bit0_eq_not_bit1 _)
      (untreeifyHigh (o.filter (bit1 (2 ^ k))).length) h1 h3 h4 h5 (nodeOk_filter_hi h2)
      untreeifyHigh_ne_nil).1

/-! ## `splitBin` -/

/-- the node lists of the two halves (for a tree bin these are equalities, `splitTree_nodes`; for a
list bin see `splitList_eq` for the exact order) -/
theorem splitBin_nodes_perm (n : Nat) (b : Bin) :
    (splitBin n b).1.nodes.Perm (b.nodes.filter (bit0 n)) ∧
    (splitBin n b).2.nodes.Perm (b.nodes.filter (bit1 n)) := by
  cases b with
  | empty => simp [splitBin, Bin.nodes]
  | list ns =>
    simp only [splitBin, nodes_ofNodes, nodes_list]
    exact ⟨splitList_lo_perm n ns, splitList_hi_perm n ns⟩
  | tree t o =>
    obtain ⟨h1, h2⟩ := splitTree_nodes n t o
    simp only [splitBin, Bin.nodes] at h1 h2 ⊢
    rw [h1, h2]; exact ⟨List.Perm.refl _, List.Perm.refl _⟩

/-- **B7** -/
theorem splitBin_wf {hash : Nat → Nat} {k i : Nat} {b : Bin} (hb : BinWF hash (2 ^ k) i b) :
    BinWF hash (2 * 2 ^ k) i (splitBin (2 ^ k) b).1 ∧
    BinWF hash (2 * 2 ^ k) (i + 2 ^ k) (splitBin (2 ^ k) b).2 ∧
    ((splitBin (2 ^ k) b).1.nodes ++ (splitBin (2 ^ k) b).2.nodes).Perm b.nodes := by
  obtain ⟨p0, p1⟩ := splitBin_nodes_perm (2 ^ k) b
  refine ⟨?_, ?_, (p0.append p1).trans (filter_bits_perm _ _)⟩
  · cases b with
    | empty => trivial
    | list ns =>
      simp only [splitBin, nodes_ofNodes, nodes_list] at p0 ⊢
      exact binWF_ofNodes (fun nd hnd => nodeOk_filter_lo hb.2.1 nd (p0.subset hnd))
        ((hb.2.2.filter _).perm p0.symm)
    | tree t o => exact (splitTree_wf hb).1
  · cases b with
    | empty => trivial
    | list ns =>
      simp only [splitBin, nodes_ofNodes, nodes_list] at p1 ⊢
      exact binWF_ofNodes (fun nd hnd => nodeOk_filter_hi hb.2.1 nd (p1.subset hnd))
        ((hb.2.2.filter _).perm p1.symm)
    | tree t o => exact (splitTree_wf hb).2

/-- B7 in the form of the task statement (`i < n` is not needed) -/
theorem splitBin_wf' {hash : Nat → Nat} {n i : Nat} {b : Bin} (hn : IsPow2 n)
    (hb : BinWF hash n i b) :
    BinWF hash (2 * n) i (splitBin n b).1 ∧ BinWF hash (2 * n) (i + n) (splitBin n b).2 ∧
    ((splitBin n b).1.nodes ++ (splitBin n b).2.nodes).Perm b.nodes := by
  obtain ⟨k, rfl⟩ := hn
  exact splitBin_wf hb

/-- a lookup after the split: the half is chosen by the bit of the hash -/
theorem splitBin_find {hash : Nat → Nat} {k i : Nat} {b : Bin} (hb : BinWF hash (2 ^ k) i b)
    (h key : Nat) :
    (if runBit h (2 ^ k) == 0 then (splitBin (2 ^ k) b).1 else (splitBin (2 ^ k) b).2).find h key
      = b.find h key := by
  obtain ⟨w0, w1, -⟩ := splitBin_wf hb
  obtain ⟨p0, p1⟩ := splitBin_nodes_perm (2 ^ k) b
  apply Option.ext
  intro e
  rw [Bin.find_iff hb]
  split
  next hc =>
    rw [Bin.find_iff w0, p0.mem_iff, List.mem_filter]
    constructor
    · exact fun ⟨⟨h1, _⟩, h2⟩ => ⟨h1, h2⟩
    · exact fun ⟨h1, h2⟩ => ⟨⟨h1, by simpa [bit0, h2.1] using hc⟩, h2⟩
  next hc =>
    rw [Bin.find_iff w1, p1.mem_iff, List.mem_filter]
    constructor
    · exact fun ⟨⟨h1, _⟩, h2⟩ => ⟨h1, h2⟩
    · exact fun ⟨h1, h2⟩ => ⟨⟨h1, by simpa [bit1, h2.1] using hc⟩, h2⟩

end Flurry.Seq
