import Flurry.Lemmas.RBInsert
set_option linter.unusedSimpArgs false
/-! # `find_tree_node` and the value update on tree bins

`findNode` is not a plain search-tree descent (on equal hashes and unequal keys it goes to the
only child when there is only one, and compares keys otherwise), but on a `BST` it finds exactly
the entry with the given hash and key. Core Lean only. -/
namespace Flurry.RB
open T Ctx Ins

/-- `findNode` without the comparison counter -/
def findP (h k : Nat) : T → Option Node
  | nil => none
  | node _ l x r =>
    if x.hash > h then findP h k l
    else if x.hash < h then findP h k r
    else if x.key == k then some x
    else match l, r with
      | nil, _ => findP h k r
      | _, nil => findP h k l
      | _, _ => if x.key > k then findP h k l else findP h k r

/-- the entry found does not depend on the comparison counter -/
theorem findNode_fst (h k : Nat) (t : T) (c : Nat) : (findNode h k t c).1 = findP h k t := by
  fun_induction findNode h k t c <;> simp_all [findP] <;> grind

theorem find_eq_findP (h k : Nat) (t : T) : find h k t = findP h k t := findNode_fst h k t 0

/-- soundness: what is found is an entry of the tree with the right hash and key -/
theorem findP_sound (h k : Nat) (t : T) (e : Node) (hf : findP h k t = some e) :
    e ∈ toList t ∧ e.hash = h ∧ e.key = k := by
  fun_induction findP h k t <;> simp_all [toList] <;> omega

/-- completeness on search trees -/
theorem findP_complete (h k : Nat) (t : T) (e : Node) (hb : BST t) (he : e ∈ toList t)
    (hh : e.hash = h) (hk : e.key = k) : findP h k t = some e := by
  fun_induction findP h k t <;> simp_all [toList, BST, all_iff, lt]
  all_goals grind

theorem find_iff (h k : Nat) (t : T) (e : Node) (hb : BST t) :
    find h k t = some e ↔ e ∈ toList t ∧ e.hash = h ∧ e.key = k := by
  rw [find_eq_findP]
  exact ⟨findP_sound h k t e, fun ⟨h1, h2, h3⟩ => findP_complete h k t e hb h1 h2 h3⟩

theorem find_none_iff (h k : Nat) (t : T) (hb : BST t) :
    find h k t = none ↔ ∀ x ∈ toList t, ¬(x.hash = h ∧ x.key = k) := by
  constructor
  · intro hn x hx ⟨h1, h2⟩
    rw [(find_iff h k t x hb).2 ⟨hx, h1, h2⟩] at hn
    cases hn
  · intro hall
    cases hf : find h k t with
    | none => rfl
    | some e =>
      obtain ⟨h1, h2, h3⟩ := (find_iff h k t e hb).1 hf
      exact absurd ⟨h2, h3⟩ (hall e h1)

/-- `find` after `insertNew` of an absent key -/
theorem find_insertNew (t : T) (e : Node) (hi : TreeInv t)
    (hne : ∀ x ∈ toList t, ¬(x.hash = e.hash ∧ x.key = e.key)) (h k : Nat) :
    find h k (insertNew t e) = if e.hash = h ∧ e.key = k then some e else find h k t := by
  have hb' := (insertNew_inv t e hi hne).1
  have hp := insertNew_toList_perm t e hne
  split
  next heq =>
    exact (find_iff h k _ e hb').2 ⟨hp.symm.subset List.mem_cons_self, heq.1, heq.2⟩
  next hneq =>
    cases hf : find h k t with
    | none =>
      rw [find_none_iff h k _ hb']
      rw [find_none_iff h k _ hi.1] at hf
      intro x hx
      rcases List.mem_cons.1 (hp.subset hx) with rfl | hx
      · exact hneq
      · exact hf x hx
    | some y =>
      obtain ⟨h1, h2, h3⟩ := (find_iff h k t y hi.1).1 hf
      exact (find_iff h k _ y hb').2 ⟨hp.symm.subset (List.mem_cons_of_mem _ h1), h2, h3⟩

/-- comparison count of one lookup: at most two key comparisons per level -/
theorem findNode_cost (h k : Nat) (t : T) (c : Nat) : (findNode h k t c).2 ≤ c + 2 * height t := by
  fun_induction findNode h k t c <;> simp_all [height] <;> omega

/-! ## `setVal` -/

/-- the update applied to the matching entry -/
def upd (h k v vi : Nat) (x : Node) : Node :=
  if x.hash = h ∧ x.key = k then { x with val := v, vi := vi } else x

@[simp] theorem upd_hash (h k v vi : Nat) (x : Node) : (upd h k v vi x).hash = x.hash := by
  unfold upd; split <;> rfl

@[simp] theorem upd_key (h k v vi : Nat) (x : Node) : (upd h k v vi x).key = x.key := by
  unfold upd; split <;> rfl

theorem lt_upd_iff (h k v vi : Nat) (a b : Node) : lt (upd h k v vi a) (upd h k v vi b) ↔ lt a b := by
  simp [lt]

theorem map_upd_id (h k v vi : Nat) (l : List Node) (hl : ∀ x ∈ l, ¬(x.hash = h ∧ x.key = k)) :
    l.map (upd h k v vi) = l := by
  induction l with
  | nil => rfl
  | cons a l ih =>
    simp only [List.map_cons, List.mem_cons, forall_eq_or_imp] at hl ⊢
    rw [ih hl.2]
    simp [upd, hl.1]

theorem upd_id (h k v vi : Nat) (x : Node) (hx : ¬(x.hash = h ∧ x.key = k)) : upd h k v vi x = x := by
  simp [upd, hx]

theorem setVal_toList_upd (h k v vi : Nat) (t : T) (hb : BST t) :
    toList (setVal h k v vi t) = (toList t).map (upd h k v vi) := by
  induction t with
  | nil => rfl
  | node c l x r ihl ihr =>
    obtain ⟨b1, b2, b3, b4⟩ := hb
    rw [all_iff] at b1 b2
    have ihl := ihl b3
    have ihr := ihr b4
    have hL : (x.hash < h ∨ (x.hash = h ∧ x.key ≤ k)) →
        (toList l).map (upd h k v vi) = toList l := fun hx =>
      map_upd_id _ _ _ _ _ (fun y hy => by have := b1 y hy; unfold lt at this; omega)
    have hR : (h < x.hash ∨ (x.hash = h ∧ k ≤ x.key)) →
        (toList r).map (upd h k v vi) = toList r := fun hx =>
      map_upd_id _ _ _ _ _ (fun y hy => by have := b2 y hy; unfold lt at this; omega)
    have hX := upd_id h k v vi x
    simp only [setVal, toList, List.map_append, List.map_cons]
    split
    · rw [hX (by omega), hR (by omega)]; simp [toList, ihl]
    · split
      · rw [hX (by omega), hL (by omega)]; simp [toList, ihr]
      · split
        next hk =>
          simp at hk
          rw [hL (by omega), hR (by omega)]
          simp [toList, upd, hk]; omega
        next hk =>
          simp at hk
          split
          · rw [hX (by omega)]; simp [toList, ihr]
          · rw [hX (by omega)]; simp [toList, ihl]
          · split
            · rw [hX (by omega), hR (by omega)]; simp [toList, ihl]
            · rw [hX (by omega), hL (by omega)]; simp [toList, ihr]

theorem setVal_toList (h k v vi : Nat) (t : T) (hb : BST t) :
    toList (setVal h k v vi t) =
      (toList t).map (fun x => if x.hash = h ∧ x.key = k then { x with val := v, vi := vi } else x) :=
  setVal_toList_upd h k v vi t hb

@[simp] theorem isRed_setVal (h k v vi : Nat) (t : T) : isRed (setVal h k v vi t) = isRed t := by
  fun_induction setVal h k v vi t <;> simp

theorem noRedRed_setVal (h k v vi : Nat) (t : T) (hn : NoRedRed t) : NoRedRed (setVal h k v vi t) := by
  fun_induction setVal h k v vi t <;> simp_all [NoRedRed]

theorem bh_setVal (h k v vi : Nat) (t : T) (n : Nat) (hn : BH t n) : BH (setVal h k v vi t) n := by
  induction hn with
  | nil => exact BH.nil
  | red h1 h2 ih1 ih2 =>
    unfold setVal; repeat' split
    all_goals first | exact BH.red ih1 ih2 | exact BH.red ih1 h2 | exact BH.red h1 ih2 | exact BH.red h1 h2
  | black h1 h2 ih1 ih2 =>
    unfold setVal; repeat' split
    all_goals first | exact BH.black ih1 ih2 | exact BH.black ih1 h2 | exact BH.black h1 ih2 | exact BH.black h1 h2

theorem bst_setVal (h k v vi : Nat) (t : T) (hb : BST t) : BST (setVal h k v vi t) := by
  have hb' := hb
  rw [bst_iff_pairwise] at hb' ⊢
  rw [setVal_toList_upd h k v vi t hb, List.pairwise_map]
  exact hb'.imp (fun {a b} hab => (lt_upd_iff h k v vi a b).2 hab)

theorem setVal_inv (h k v vi : Nat) (t : T) (hi : TreeInv t) : TreeInv (setVal h k v vi t) := by
  obtain ⟨h1, h2, h3, n, h4⟩ := hi
  exact ⟨bst_setVal h k v vi t h1, by simpa using h2, noRedRed_setVal h k v vi t h3, n,
    bh_setVal h k v vi t n h4⟩

theorem size_setVal (h k v vi : Nat) (t : T) : size (setVal h k v vi t) = size t := by
  fun_induction setVal h k v vi t <;> simp_all [size]

/-- after `setVal` on a search tree, a lookup of the same key sees the new value -/
theorem find_setVal_same (h k v vi : Nat) (t : T) (e : Node) (hb : BST t)
    (hf : find h k t = some e) :
    find h k (setVal h k v vi t) = some { e with val := v, vi := vi } := by
  obtain ⟨h1, h2, h3⟩ := (find_iff h k t e hb).1 hf
  refine (find_iff h k _ _ (bst_setVal h k v vi t hb)).2 ⟨?_, h2, h3⟩
  rw [setVal_toList_upd h k v vi t hb, List.mem_map]
  exact ⟨e, h1, by simp [upd, h2, h3]⟩

end Flurry.RB
