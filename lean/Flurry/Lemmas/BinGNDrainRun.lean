import Flurry.Lemmas.BinGNDrainStep
import Flurry.Lemmas.BinGNProgStuck
/-! # Proto/BinGN, termination: every quiet step of a non-idle thread decreases `gmu`; runs are bounded
(port of `Lemmas/BinGDrainRun.lean`)

`step_gmu_lt`: the strict decrease, assembled from `stepN_effect`; `stepN_frame_nx`: a thread other than the resizing
thread forwards no cell and overwrites no marker (`LInv.vL`, `LInv.vT`); `xnext_pick_cond`: the `pick` restriction.
`QStep` / `QRun`: quiet steps of threads that are not `idle`, and finite runs of them.
`qrun_bounded`, `drain_exists`, `qrun_maximal_quiescent`, `no_infinite_qrun`, `qrun_call_returns`. -/
namespace Flurry.Proto.BinGNP
open Flurry.Lin
open Flurry.Proto.BinK (nodeAt binAt get_set get_set_self get_set_ne)

/-! ## bounds available in every reachable state -/

theorem WalkOK.mono {n m : Nat} (h : n ≤ m) {pc : Pc} (hw : WalkOK n pc) : WalkOK m pc := by
  unfold WalkOK at *
  split <;> simp_all <;> omega

theorem walkOK_of_inv {s : State} (I : Inv s) (B : BInv s) {t : Nat} {l : Local} (hl : s.threads[t]? = some l) :
    WalkOK s.heap.length l.pc := by
  have hb := B t l hl
  have hcall := I.thr.callOK t l hl
  have hpi := I.data.pcInv t l
  obtain ⟨pc, call⟩ := l
  cases call with
  | none =>
    cases pc with
    | wFind tab h pred cur => cases cur <;> first | trivial | exact hb
    | rNode cur => cases cur <;> first | trivial | (exfalso; simp [noCallPc, kPc, xPc] at hcall)
    | rState b cur => cases cur <;> first | trivial | (exfalso; simp [noCallPc, kPc, xPc] at hcall)
    | lNode cur => cases cur <;> first | trivial | (exfalso; simp [noCallPc, kPc, xPc] at hcall)
    | rLin b c => exfalso; simp [noCallPc, kPc, xPc] at hcall
    | rCas b c r => exfalso; simp [noCallPc, kPc, xPc] at hcall
    | _ => trivial
  | some p =>
    have h := hpi p hl rfl
    cases pc with
    | wFind tab h pred cur => cases cur <;> first | trivial | exact hb
    | rNode cur => cases cur <;> first | trivial | exact h
    | rState b cur => cases cur <;> first | trivial | exact h
    | lNode cur => cases cur <;> first | trivial | exact h
    | rLin b c => exact h
    | rCas b c r => exact h
    | _ => trivial

theorem heap_lt_N (s : State) : s.heap.length < N s := by
  unfold N
  have : 0 < 4 ^ G s := Nat.pow_pos (by omega)
  have := Nat.le_mul_of_pos_right (s.heap.length + 1) this
  omega

theorem PM_mono {T L L' : Nat} (h : L ≤ L') : PM T L ≤ PM T L' := by unfold PM; omega

theorem putCell_tabs_length (s : State) (g j : Nat) (c : Cell) : (putCell s g j c).tabs.length = s.tabs.length := by
  show (List.modify _ _ _).length = _
  rw [List.length_modify]

theorem storeAt_tabs_resizing (s : State) (g : Nat) (p : Pending) (pred hit hnext : Option Nat) :
    (storeAt s g p pred hit hnext).1.tabs.length = s.tabs.length ∧
    (storeAt s g p pred hit hnext).1.resizing = s.resizing := by
  unfold storeAt
  cases p.op <;> cases hit <;> cases pred <;>
    first | exact ⟨rfl, rfl⟩ | exact ⟨putCell_tabs_length _ _ _ _, rfl⟩

theorem mv_trans {s s1 s' : State} (h1 : (viewOf s1).cur = (viewOf s).cur ∧ mvOf (viewOf s1) = mvOf (viewOf s))
    (ht : s'.tabs = s1.tabs) (hc : s'.cur = s1.cur) :
    (viewOf s').cur = (viewOf s).cur ∧ mvOf (viewOf s') = mvOf (viewOf s) :=
  have h2 := mvOf_of_tabs ht hc
  ⟨h2.1.trans h1.1, h2.2.trans h1.2⟩

theorem storeAt_shape (X : State) (g : Nat) (p : Pending) (pred hit hnext : Option Nat) :
    ((storeAt X g p pred hit hnext).1.tabs = X.tabs ∧ (storeAt X g p pred hit hnext).1.cur = X.cur) ∨
    ∃ (Y : State) (c : Cell), (storeAt X g p pred hit hnext).1 = putCell Y g (p.key % 2 ^ g) c ∧ Y.tabs = X.tabs ∧
      Y.cur = X.cur ∧ c ≠ .moved := by
  unfold storeAt
  cases p.op <;> cases hit <;> cases pred <;> cases hnext <;>
    first
    | exact Or.inl ⟨rfl, rfl⟩
    | exact Or.inr ⟨_, _, rfl, rfl, rfl, by intro h; cases h⟩

theorem storeAt_mv {s : State} (X : State) (hX : X.tabs = s.tabs) (hXc : X.cur = s.cur) (g : Nat) (p : Pending)
    (pred hit hnext : Option Nat) (hnm : cellAt s (idOf g p.key) ≠ .moved) :
    (viewOf (storeAt X g p pred hit hnext).1).cur = (viewOf s).cur ∧
      mvOf (viewOf (storeAt X g p pred hit hnext).1) = mvOf (viewOf s) := by
  rcases storeAt_shape X g p pred hit hnext with ⟨ht, hc⟩ | ⟨Y, c, e, hY, hYc, hcm⟩
  · exact mvOf_of_tabs (ht.trans hX) (hc.trans hXc)
  · rw [e]
    exact mvOf_putCell_nm (s := s) Y (hY.trans hX) (hYc.trans hXc) hnm hcm

/-- no step of a thread that is not `idle` allocates a generation -/
theorem stepN_tabs_length {s s' : State} {t : Nat} {l : Local} (hk : StepN s t l s') (hne : l.pc ≠ .idle) :
    s'.tabs.length = s.tabs.length := by
  obtain ⟨pc, call⟩ := l
  cases hk with
  | idle hpc => exact absurd hpc hne
  | maint k hpc => exact absurd hpc hne
  | resizeStart hpc hr => exact absurd hpc hne
  | invoke k op lo hpc => exact absurd hpc hne
  | store p g h pred hit hnext hc hpc => exact (storeAt_tabs_resizing (tick s) g p pred hit hnext).1
  | cas p g v vi hc hpc he hop => exact putCell_tabs_length _ _ _ _
  | untreeify p g b res hc hpc => exact putCell_tabs_length _ _ _ _
  | kstore g k h b hc hpc => exact putCell_tabs_length _ _ _ _
  | unlink p g b i res small hc hpc =>
    show (unlinkOf (tick s) b i).tabs.length = _
    unfold unlinkOf
    split <;> rfl
  | xcasMoved j hc hpc h0 => exact putCell_tabs_length _ _ _ _
  | ybuild j b small small2 hc hpc =>
    show (ysplitOf (tick s) b small small2).1.tabs.length = _
    rw [(ysplitOf_tabs_cur (tick s) b small small2).1]; rfl
  | xstoreLow j unl lo hi hc hpc => exact putCell_tabs_length _ _ _ _
  | xstoreHigh j unl hi hc hpc => exact putCell_tabs_length _ _ _ _
  | xstoreMoved j unl hc hpc => exact putCell_tabs_length _ _ _ _
  | _ => rfl

/-- a step of a thread that is neither `idle` nor the resizing thread allocates no generation, neither starts nor
ends a resize, leaves the table pointer alone and forwards no cell (nor overwrites a forwarding marker) -/
theorem stepN_frame_nx {s s' : State} {t : Nat} {l : Local} (I : Inv s) (hl : s.threads[t]? = some l)
    (hk : StepN s t l s') (hne : l.pc ≠ .idle)
    (hnx : xPc l.pc = false) : s'.tabs.length = s.tabs.length ∧ s'.resizing = s.resizing ∧
      (viewOf s').cur = (viewOf s).cur ∧ mvOf (viewOf s') = mvOf (viewOf s) := by
  have hvL := I.lock.vL t l
  have hvT := I.lock.vT t l
  obtain ⟨pc, call⟩ := l
  cases hk with
  | idle hpc => exact absurd hpc hne
  | maint k hpc => exact absurd hpc hne
  | resizeStart hpc hr => exact absurd hpc hne
  | invoke k op lo hpc => exact absurd hpc hne
  | store p g h pred hit hnext hc hpc =>
    cases hpc; cases hc
    have hnm : cellAt s (idOf g p.key) ≠ .moved := by
      have := hvL h hl rfl
      intro e; rw [show cellAt s (idOf g p.key) = _ from this] at e; cases e
    have h1 := storeAt_tabs_resizing (tick s) g p pred hit hnext
    exact ⟨h1.1, h1.2, mv_trans (storeAt_mv (s := s) (tick s) rfl rfl g p pred hit hnext hnm) rfl rfl⟩
  | cas p g v vi hc hpc he hop =>
    have hnm : cellAt s (idOf g p.key) ≠ .moved := by
      rw [← cellOf_eq, he]; intro e; cases e
    exact ⟨putCell_tabs_length _ _ _ _, rfl,
      mv_trans (mvOf_putCell_nm (s := s) (qst s (s.heap ++ [⟨p.key, (v, vi), none, none, false, none⟩]) s.tbins) rfl rfl
        (g := g) (j := p.key % 2 ^ g) (c := .list s.heap.length) hnm (by intro h; cases h)) rfl rfl⟩
  | untreeify p g b res hc hpc =>
    cases hpc; cases hc
    have hnm : cellAt s (idOf g p.key) ≠ .moved := by
      have := hvT b hl rfl
      intro e; rw [show cellAt s (idOf g p.key) = _ from this] at e; cases e
    refine ⟨putCell_tabs_length _ _ _ _, rfl, mv_trans (s1 := untreeifyOf (tick s) g p.key b) ?_ rfl rfl⟩
    unfold untreeifyOf
    refine mvOf_putCell_nm (s := s) _ rfl rfl hnm ?_
    unfold Flurry.Proto.BinG.cellOfHead
    split <;> (intro h; cases h)
  | kstore g k h b hc hpc =>
    cases hpc
    have hnm : cellAt s (idOf g k) ≠ .moved := by
      have := hvL h hl rfl
      intro e; rw [show cellAt s (idOf g k) = _ from this] at e; cases e
    exact ⟨putCell_tabs_length _ _ _ _, rfl,
      mv_trans (mvOf_putCell_nm (s := s) (tick s) rfl rfl (g := g) (j := k % 2 ^ g) (c := .tree b) hnm
        (by intro h; cases h)) rfl rfl⟩
  | unlink p g b i res small hc hpc =>
    have : (unlinkOf (tick s) b i).tabs = s.tabs ∧ (unlinkOf (tick s) b i).cur = s.cur ∧
        (unlinkOf (tick s) b i).resizing = s.resizing := by
      unfold unlinkOf
      split <;> exact ⟨rfl, rfl, rfl⟩
    exact ⟨by show (unlinkOf (tick s) b i).tabs.length = _; rw [this.1], this.2.2,
      mvOf_of_tabs (s := s) (s' := setT (unlinkOf (tick s) b i) t _) this.1 this.2.1⟩
  | xcasMoved j hc hpc h0 => cases hpc; cases hnx
  | xbuild j h hc hpc => cases hpc; cases hnx
  | ybuild j b small small2 hc hpc => cases hpc; cases hnx
  | xstoreLow j unl lo hi hc hpc => cases hpc; cases hnx
  | xstoreHigh j unl hi hc hpc => cases hpc; cases hnx
  | xstoreMoved j unl hc hpc => cases hpc; cases hnx
  | xcommit hc hpc => cases hpc; cases hnx
  | _ => exact ⟨rfl, rfl, mvOf_of_tabs rfl rfl⟩

/-- the pick of the resizing thread at `xNext`, when restricted to cells that are not forwarded, is such a cell -/
theorem xnext_pick_cond {s s' : State} {t : Nat} {call : Option Pending}
    (hl : s.threads[t]? = some ⟨.xNext, call⟩) {inv : Option (Nat × KOp)} {lo : Bool} {mt : Option Nat}
    {rz sm sm2 : Bool} {pick : Nat} (hs : step s t inv lo mt rz sm sm2 pick = some s')
    (hpk : allMoved s s.cur = false → cellAt s (s.cur, pick % 2 ^ s.cur) ≠ .moved) (j : Nat)
    (h' : ∃ call', s'.threads[t]? = some ⟨.xCell j, call'⟩) : umv (viewOf s) j = true := by
  unfold step stepG at hs
  rw [hl] at hs
  cases call with
  | some p => cases hs
  | none =>
    dsimp only at hs
    obtain ⟨call', h'⟩ := h'
    split at hs
    · cases hs
      have : (setT { s with now := s.now + 1 } t ⟨.xCommit, none⟩).threads[t]? = some ⟨.xCommit, none⟩ := get_set_self hl
      rw [this] at h'
      cases h'
    · rename_i hnam
      cases hs
      have : (setT { s with now := s.now + 1 } t ⟨.xCell (pick % 2 ^ s.cur), none⟩).threads[t]? =
          some ⟨.xCell (pick % 2 ^ s.cur), none⟩ := get_set_self hl
      rw [this] at h'
      cases h'
      have ham : allMoved s s.cur = false := by
        cases h : allMoved s s.cur with
        | false => rfl
        | true => exact absurd h hnam
      have hnm := hpk ham
      have hlt : pick % 2 ^ s.cur < 2 ^ s.cur := Nat.mod_lt _ (Nat.pow_pos (by omega))
      show (decide (pick % 2 ^ s.cur < 2 ^ s.cur) && !(cellAt s (s.cur, pick % 2 ^ s.cur) == .moved)) = true
      simp [hlt, hnm]

/-- a failed CAS of a reader was a CAS that had to fail -/
theorem rcas_fail_cond {s s' : State} {t : Nat} {b c r : Nat} {call : Option Pending}
    (hl : s.threads[t]? = some ⟨.rCas b c r, call⟩) {inv : Option (Nat × KOp)} {lo : Bool} {mt : Option Nat}
    {rz sm sm2 : Bool} {pick : Nat} (hs : step s t inv lo mt rz sm sm2 pick = some s')
    (h' : ∃ call', s'.threads[t]? = some ⟨.rState b (some c), call'⟩) : casOk s b r = false := by
  cases hc : casOk s b r with
  | false => rfl
  | true =>
    exfalso
    unfold step stepG at hs
    rw [hl] at hs
    cases call with
    | none => cases hs
    | some p =>
      dsimp only at hs
      have hc' := hc
      unfold casOk binAt at hc'
      rw [if_pos hc'] at hs
      cases hs
      obtain ⟨call', h'⟩ := h'
      have : (setT (setBin { s with now := s.now + 1 } b (fun x => { x with readers := x.readers + 1 })) t
          ⟨.rTree b, some p⟩).threads[t]? = some ⟨.rTree b, some p⟩ := get_set_self hl
      rw [this] at h'
      cases h'

/-! ## the decrease -/

theorem G_set {s s' : State} {t : Nat} {l l' : Local} (hl : s.threads[t]? = some l)
    (hthr : s'.threads = s.threads.set t l') (d : Nat) (hg : growV (viewOf s') l' + d ≤ growV (viewOf s) l)
    (hoth : ∀ i x, i ≠ t → s.threads[i]? = some x → growV (viewOf s') x ≤ growV (viewOf s) x) : G s' + d ≤ G s := by
  unfold G
  rw [hthr]
  exact sum_set_add_le (growV (viewOf s)) (growV (viewOf s')) d s.threads t l l' hl hoth hg

theorem growV_nx {v : View} {l : Local} (h : xPc l.pc = false) : growV v l = grow l.pc := by
  obtain ⟨pc, call⟩ := l
  cases pc <;> first | rfl | cases h

theorem N_le_of_same {s s' : State} (hlen : s'.heap.length = s.heap.length) (hG : G s' ≤ G s) : N s' ≤ N s := by
  unfold N
  rw [hlen]
  exact Nat.mul_le_mul_left _ (Nat.pow_le_pow_right (by omega) hG)

theorem N_le_of_grow {s s' : State} (hlen : s'.heap.length + 1 ≤ 4 * (s.heap.length + 1)) (hG : G s' + 1 ≤ G s) :
    N s' ≤ N s := by
  unfold N
  calc (s'.heap.length + 1) * 4 ^ G s' ≤ (4 * (s.heap.length + 1)) * 4 ^ G s' := Nat.mul_le_mul_right _ hlen
    _ = (s.heap.length + 1) * 4 ^ (G s' + 1) := by rw [Nat.pow_succ]; ac_rfl
    _ ≤ (s.heap.length + 1) * 4 ^ G s := Nat.mul_le_mul_left _ (Nat.pow_le_pow_right (by omega) hG)

theorem W_le {s s' : State} (hlen : s'.threads.length = s.threads.length) (htab : s'.tabs.length = s.tabs.length)
    (hN : N s' ≤ N s) : W s' ≤ W s := by
  unfold W
  rw [hlen, htab]
  have := Nat.mul_le_mul_left s.threads.length (PM_mono (T := s.tabs.length) hN)
  omega

/-- **every enabled quiet step of a thread that is not `idle` strictly decreases `gmu`** (in fact every
enabled step of such a thread, whatever the scheduler's arguments: they are ignored) -/
theorem step_gmu_lt {n : Nat} {s s' : State} (hr : Reachable n s) {t : Nat} {l : Local}
    (hl : s.threads[t]? = some l) (hne : l.pc ≠ .idle) {inv : Option (Nat × KOp)} {lo : Bool}
    {mt : Option Nat} {rz sm sm2 : Bool} {pick : Nat} (hs : step s t inv lo mt rz sm sm2 pick = some s')
    (hpk : l.pc = .xNext → allMoved s s.cur = false → cellAt s (s.cur, pick % 2 ^ s.cur) ≠ .moved) : gmu s' < gmu s := by
  have I := reachable_inv hr
  have hr' : Reachable n s' := Flurry.Proto.BinGN.Reachable.step t inv lo mt rz sm sm2 pick hr hs
  have I' := reachable_inv hr'
  have B' := reachable_binv hr'
  have hcas : ∀ b c r, l.pc = .rCas b c r → (∃ call, s'.threads[t]? = some ⟨.rState b (some c), call⟩) →
      casOk s b r = false := by
    intro b c r hpc h'
    obtain ⟨pc, call⟩ := l
    cases hpc
    exact rcas_fail_cond hl hs h'
  have hpick : ∀ j, l.pc = .xNext → (∃ call, s'.threads[t]? = some ⟨.xCell j, call⟩) → umv (viewOf s) j = true := by
    intro j hpc h'
    obtain ⟨pc, call⟩ := l
    cases hpc
    exact xnext_pick_cond hl hs (hpk rfl) j h'
  obtain ⟨l', he⟩ := stepN_effect I hl hne (Nat.le_of_lt (heap_lt_N s)) hpick hcas (step_stepN hl hs)
  have htabs : s'.tabs.length = s.tabs.length := stepN_tabs_length (step_stepN hl hs) hne
  have hoth : ∀ i x, i ≠ t → s.threads[i]? = some x →
      (xPc x.pc = true → daV (viewOf s') x = daV (viewOf s) x ∧ growV (viewOf s') x = growV (viewOf s) x) := by
    intro i x hi hx hxx
    have hnx : xPc l.pc = false := by
      cases h : xPc l.pc with
      | false => rfl
      | true => exact absurd (I.rsz.uniqX i t x l hx hl hxx h) hi
    have hfr := stepN_frame_nx I hl (step_stepN hl hs) hne hnx
    exact daV_growV_xeq hfr.2.2.1 hfr.2.2.2 x hxx
  have hgoth : ∀ i x, i ≠ t → s.threads[i]? = some x → growV (viewOf s') x ≤ growV (viewOf s) x := by
    intro i x hi hx
    cases hxx : xPc x.pc with
    | true => rw [(hoth i x hi hx hxx).2]; exact Nat.le_refl _
    | false => rw [growV_nx hxx, growV_nx hxx]; exact Nat.le_refl _
  rcases he with e | e
  · -- calm
    have hG : G s' ≤ G s := by
      unfold G
      rw [e.thr, e.view]
      exact sum_set_add_le _ _ 0 s.threads t l l' hl (fun _ _ _ _ => Nat.le_refl _) e.grow
    have hfr1 : s'.tabs.length = s.tabs.length := congrArg View.T e.view
    have hN : N s' ≤ N s := N_le_of_same e.hlen hG
    have htl : s'.threads.length = s.threads.length := by rw [e.thr, List.length_set]
    have hW := W_le htl hfr1 hN
    have hDA : DA s' ≤ DA s := by
      unfold DA
      rw [e.thr, e.view]
      exact sum_set_add_le _ _ 0 s.threads t l l' hl (fun _ _ _ _ => Nat.le_refl _) e.da
    have hPS : PS s' + 1 ≤ PS s := by
      unfold PS
      rw [e.thr, e.view]
      refine sum_set_add_le (pmV (N s) (viewOf s)) (pmV (N s') (viewOf s)) 1 s.threads t l l' hl
        (fun _ x _ _ => pmV_mono hN _ x) ?_
      have := pmV_mono hN (viewOf s) l'
      have := e.pm
      omega
    unfold gmu
    have := Nat.mul_le_mul hW hDA
    omega
  · -- disturbing
    have hGN : N s' ≤ N s := by
      rcases e.hlen with ⟨h1, h2⟩ | ⟨h1, h2⟩
      · exact N_le_of_same h1 (G_set hl e.thr 0 h2 hgoth)
      · exact N_le_of_grow h1 (G_set hl e.thr 1 h2 hgoth)
    have htl : s'.threads.length = s.threads.length := by rw [e.thr, List.length_set]
    have hW := W_le htl htabs hGN
    have hDA : DA s' + 1 ≤ DA s := by
      unfold DA
      rw [e.thr]
      refine sum_set_add_le (daV (viewOf s)) (daV (viewOf s')) 1 s.threads t l l' hl ?_ e.da
      intro i x hi hx
      cases hxx : xPc x.pc with
      | true => rw [(hoth i x hi hx hxx).1]; exact Nat.le_refl _
      | false =>
      obtain ⟨pcx, callx⟩ := x
      cases pcx with
      | lrLoop tab b k res =>
        show 4 + (if (binAt s'.tbins b).waiter = true then 0 else 1) ≤
          4 + (if (binAt s.tbins b).waiter = true then 0 else 1)
        by_cases hw : (binAt s.tbins b).waiter = true
        · have hb : b < s.tbins.length := (I.lock.refOK i _ b hx rfl).1
          rcases e.keep b hb hw with h | h
          · rw [h, hw]; exact Nat.le_refl _
          · exfalso
            have h1 := (I.lock.mx t l b hl).1 h
            have h2 := (I.lock.mx i _ b hx).1 (show holdsMutex (Flurry.Proto.BinGN.Pc.lrLoop tab b k res) = some b from rfl)
            rw [h1] at h2
            exact hi (Option.some.inj h2).symm
        · rw [if_neg hw]
          split <;> omega
      | _ => first | exact Nat.le_refl _ | cases hxx
    have hPS : PS s' ≤ s'.threads.length * PM s'.tabs.length (N s') := by
      unfold PS
      refine sum_map_le_card _ _ _ (fun x hx => ?_)
      obtain ⟨i, hi⟩ := List.mem_iff_getElem?.1 hx
      exact pmV_le _ ((walkOK_of_inv I' B' hi).mono (Nat.le_of_lt (heap_lt_N s')))
    have hPM := Nat.mul_le_mul_left s.threads.length (PM_mono (T := s.tabs.length) hGN)
    rw [htl, htabs] at hPS
    unfold gmu
    have h1 : W s' * DA s' ≤ W s * DA s' := Nat.mul_le_mul_right _ hW
    have h2 : W s * (DA s' + 1) ≤ W s * DA s := Nat.mul_le_mul_left _ hDA
    have h3 : W s * (DA s' + 1) = W s * DA s' + W s := by rw [Nat.mul_add, Nat.mul_one]
    have h4 : W s = s.threads.length * PM s.tabs.length (N s) + 1 := rfl
    omega

/-! ## quiet runs -/

/-- a quiet step of a thread that is not `idle`: no call, treeify or resize is started.
**Scheduler restriction on `pick`**: when the stepping thread is the resizing thread at `xNext` and some cell of
generation `cur` is not yet forwarded, the cell it is given, `pick % 2 ^ cur`, is one that is not yet forwarded
(the model's `xNext` accepts any cell, and `xCell j` on a forwarded cell returns to `xNext` without progress: an
adversarial `pick` could loop there for ever). -/
def QStep (s s' : State) : Prop :=
  ∃ (t : Nat) (l : Local) (lo sm sm2 : Bool) (pick : Nat), s.threads[t]? = some l ∧ l.pc ≠ .idle ∧
    (l.pc = .xNext → allMoved s s.cur = false → cellAt s (s.cur, pick % 2 ^ s.cur) ≠ .moved) ∧
    stepQuiet s t lo sm sm2 pick = some s'

/-- `k` quiet steps of threads that are not `idle` -/
inductive QRun : State → Nat → State → Prop
  | nil (s : State) : QRun s 0 s
  | cons {s s1 s2 : State} {k : Nat} : QStep s s1 → QRun s1 k s2 → QRun s (k + 1) s2

theorem QStep.reachable {n : Nat} {s s' : State} (hr : Reachable n s) (h : QStep s s') : Reachable n s' := by
  obtain ⟨t, l, lo, sm, sm2, pick, _, _, _, hs⟩ := h
  exact Flurry.Proto.BinGN.Reachable.step t none lo none false sm sm2 pick hr hs

theorem QRun.reachable {n : Nat} {s s' : State} {k : Nat} (hr : Reachable n s) (h : QRun s k s') : Reachable n s' := by
  induction h with
  | nil => exact hr
  | cons h1 _ ih => exact ih (h1.reachable hr)

theorem QRun.snoc {s s1 s2 : State} {k : Nat} (h : QRun s k s1) (h2 : QStep s1 s2) : QRun s (k + 1) s2 := by
  induction h with
  | nil => exact .cons h2 (.nil _)
  | cons h1 _ ih => exact .cons h1 (ih h2)

theorem QStep.gmu_lt {n : Nat} {s s' : State} (hr : Reachable n s) (h : QStep s s') : gmu s' < gmu s := by
  obtain ⟨t, l, lo, sm, sm2, pick, hl, hne, hpk, hs⟩ := h
  exact step_gmu_lt hr hl hne hs hpk

theorem qrun_bounded {n : Nat} {s s' : State} {k : Nat} (hr : Reachable n s) (h : QRun s k s') :
    k + gmu s' ≤ gmu s := by
  induction h with
  | nil => omega
  | cons h1 _ ih =>
    have := h1.gmu_lt hr
    have := ih (h1.reachable hr)
    omega

/-- a state that is not quiescent has a quiet step (`binGN_never_stuck_aux`), also under the restriction on `pick` -/
theorem qstep_of_not_quiescent {n : Nat} {s : State} (hr : Reachable n s) (hq : ¬ quiescent s) : ∃ s', QStep s s' := by
  obtain ⟨t, l, hl, hne, he⟩ := binGN_never_stuck_aux (reachable_inv hr) (reachable_binv hr) hq
  have hpick : ∃ pick, allMoved s s.cur = false → cellAt s (s.cur, pick % 2 ^ s.cur) ≠ .moved := by
    cases ham : allMoved s s.cur with
    | true => exact ⟨0, fun h => by cases h⟩
    | false =>
      unfold Flurry.Proto.BinGN.allMoved at ham
      have hlen := (reachable_inv hr).rsz.len
      have hcur : s.cur < s.tabs.length := by omega
      have hrow := (reachable_inv hr).rsz.rows s.cur _ (List.getElem?_eq_getElem hcur)
      have hgd : s.tabs.getD s.cur [] = s.tabs[s.cur] := by
        rw [List.getD_eq_getElem?_getD, List.getElem?_eq_getElem hcur]; rfl
      rw [hgd] at ham
      have : ∃ x ∈ s.tabs[s.cur], (x == (.moved : Cell)) = false := by
        apply Classical.byContradiction
        intro hno
        have : s.tabs[s.cur].all (· == .moved) = true := by
          rw [List.all_eq_true]
          intro x hx
          show (x == (.moved : Cell)) = true
          cases hb : (x == (.moved : Cell)) with
          | true => rfl
          | false => exact absurd ⟨x, hx, hb⟩ hno
        rw [this] at ham
        cases ham
      obtain ⟨x, hx, hxm⟩ := this
      obtain ⟨j, hj, hjx⟩ := List.getElem_of_mem hx
      refine ⟨j, fun _ => ?_⟩
      have hjlt : j < 2 ^ s.cur := by rw [← hrow]; exact hj
      rw [Nat.mod_eq_of_lt hjlt]
      show Flurry.Proto.BinGN.cellAt s s.cur j ≠ .moved
      unfold Flurry.Proto.BinGN.cellAt
      rw [hgd, List.getD_eq_getElem?_getD, List.getElem?_eq_getElem hj, hjx]
      intro hm
      have : (x == (.moved : Cell)) = true := by rw [show x = (.moved : Cell) from hm]; rfl
      rw [this] at hxm
      cases hxm
  obtain ⟨pick, hp⟩ := hpick
  obtain ⟨s', hs⟩ := Option.isSome_iff_exists.1 (he none false none false false false pick)
  exact ⟨s', t, l, false, false, false, pick, hl, hne, fun _ => hp, hs⟩

/-- a quiescent state has no quiet step of a thread that is not `idle` -/
theorem no_qstep_of_quiescent {s s' : State} (hq : quiescent s) : ¬ QStep s s' := by
  rintro ⟨t, l, lo, sm, sm2, pick, hl, hne, _⟩
  exact hne (hq l (List.mem_iff_getElem?.2 ⟨t, hl⟩))

/-- a maximal quiet run ends in a quiescent state -/
theorem qrun_maximal_quiescent {n : Nat} {s s' : State} {k : Nat} (hr : Reachable n s) (h : QRun s k s')
    (hmax : ∀ s'', ¬ QStep s' s'') : quiescent s' := by
  apply Classical.byContradiction
  intro hq
  obtain ⟨s'', h''⟩ := qstep_of_not_quiescent (h.reachable hr) hq
  exact hmax s'' h''

/-- from every reachable state some quiet run reaches a quiescent state -/
theorem drain_exists {n : Nat} : ∀ (m : Nat) {s : State}, Reachable n s → gmu s ≤ m →
    ∃ k s', QRun s k s' ∧ quiescent s'
  | 0, s, hr, hm => by
    by_cases hq : quiescent s
    · exact ⟨0, s, .nil s, hq⟩
    · obtain ⟨s', h'⟩ := qstep_of_not_quiescent hr hq
      have := h'.gmu_lt hr
      omega
  | m + 1, s, hr, hm => by
    by_cases hq : quiescent s
    · exact ⟨0, s, .nil s, hq⟩
    · obtain ⟨s1, h1⟩ := qstep_of_not_quiescent hr hq
      have := h1.gmu_lt hr
      obtain ⟨k, s', hrun, hq'⟩ := drain_exists m (h1.reachable hr) (by omega)
      exact ⟨k + 1, s', .cons h1 hrun, hq'⟩

/-- there is no infinite sequence of quiet steps of threads that are not `idle` -/
theorem no_infinite_qrun {n : Nat} {s : State} (hr : Reachable n s) (f : Nat → State) (h0 : f 0 = s)
    (hstep : ∀ i, QStep (f i) (f (i + 1))) : False := by
  have hrun : ∀ k, QRun s k (f k) := by
    intro k
    induction k with
    | zero => rw [h0]; exact .nil s
    | succ k ih => exact ih.snoc (hstep k)
  have := qrun_bounded hr (hrun (gmu s + 1))
  omega

/-! ## every call returns -/

/-- the call `p` of thread `t` has been answered: `hist` has an entry with its key, operation and
invocation time -/
def Answered (s : State) (t : Nat) (p : Pending) : Prop :=
  ∃ res resp, (p.key, { tid := t, op := p.op, res := res, inv := p.inv, resp := resp }) ∈ s.hist

/-- a step of a thread that is not `idle` keeps its call and the history, or answers its call -/
theorem stepN_call {s s' : State} {t : Nat} {l : Local} (hk : StepN s t l s') (hne : l.pc ≠ .idle) :
    (∃ l', s'.threads = s.threads.set t l' ∧ l'.call = l.call ∧ s'.hist = s.hist) ∨
    (∃ p res, l.call = some p ∧ s'.threads = s.threads.set t ⟨.idle, none⟩ ∧
      s'.hist = (p.key, { tid := t, op := p.op, res := res, inv := p.inv, resp := s.now + 1 }) :: s.hist) := by
  obtain ⟨pc, call⟩ := l
  cases hk with
  | idle hpc => exact absurd hpc hne
  | maint k hpc => exact absurd hpc hne
  | resizeStart hpc hr => exact absurd hpc hne
  | invoke k op lo hpc => exact absurd hpc hne
  | fin p res hp hc hf => exact Or.inr ⟨p, res, hc, rfl, rfl⟩
  | bfin p res tb hc hf => exact Or.inr ⟨p, res, hc, rfl, rfl⟩
  | cas p g v vi hc hpc he hop => exact Or.inr ⟨p, .none, hc, rfl, rfl⟩
  | store p g h pred hit hnext hc hpc =>
    refine Or.inl ⟨⟨.wUnlock g h (storeAt (tick s) g p pred hit hnext).2 false, call⟩, ?_, rfl, ?_⟩
    · show (storeAt (tick s) g p pred hit hnext).1.threads.set t _ = _
      rw [(storeAt_frame (tick s) g p pred hit hnext).1]; rfl
    · show (storeAt (tick s) g p pred hit hnext).1.hist = _
      rw [(storeAt_frame (tick s) g p pred hit hnext).2.1]; rfl
  | unlink p g b i res small hc hpc =>
    refine Or.inl ⟨⟨if small then .tUntreeify g b res else .tRestructure g b i res, call⟩, ?_, rfl, ?_⟩
    · show (unlinkOf (tick s) b i).threads.set t _ = _
      rw [(unlinkOf_frame (tick s) b i).1]; rfl
    · show (unlinkOf (tick s) b i).hist = _
      rw [(unlinkOf_frame (tick s) b i).2.1]; rfl
  | ybuild j b small small2 hc hpc =>
    refine Or.inl ⟨⟨.xStoreLow j (.inr b) (ysplitOf (tick s) b small small2).2.1 (ysplitOf (tick s) b small small2).2.2, call⟩,
      ?_, rfl, ?_⟩
    · show (ysplitOf (tick s) b small small2).1.threads.set t _ = _
      rw [(ysplitOf_frame (tick s) b small small2).1]; rfl
    · show (ysplitOf (tick s) b small small2).1.hist = _
      rw [(ysplitOf_frame (tick s) b small small2).2.1]; rfl
  | _ => exact Or.inl ⟨_, rfl, rfl, rfl⟩

theorem QStep.call_kept {n : Nat} {s s' : State} (_hr : Reachable n s) (h : QStep s s') {t0 : Nat} {l0 : Local}
    {p : Pending} (hl0 : s.threads[t0]? = some l0) (hp : l0.call = some p) :
    (∃ l1, s'.threads[t0]? = some l1 ∧ l1.call = some p ∧ s'.hist = s.hist) ∨
    (∃ l1, s'.threads[t0]? = some l1 ∧ l1.call = some p ∧ ∃ e, s'.hist = e :: s.hist) ∨
    (∃ res, s'.hist = (p.key, { tid := t0, op := p.op, res := res, inv := p.inv, resp := s.now + 1 }) :: s.hist) := by
  obtain ⟨t, l, lo, sm, sm2, pick, hl, hne, _, hs⟩ := h
  have hk := stepN_call (step_stepN hl hs) hne
  by_cases htt : t0 = t
  · subst htt
    rw [hl] at hl0
    cases hl0
    rcases hk with ⟨l', hthr, hc, hh⟩ | ⟨p', res, hp', _, hh⟩
    · exact Or.inl ⟨l', by rw [hthr]; exact get_set_self hl, by rw [hc]; exact hp, hh⟩
    · rw [hp] at hp'
      cases hp'
      exact Or.inr (Or.inr ⟨res, hh⟩)
  · rcases hk with ⟨l', hthr, _, hh⟩ | ⟨p', res, _, hthr, hh⟩
    · exact Or.inl ⟨l0, by rw [hthr, get_set_ne htt]; exact hl0, hp, hh⟩
    · exact Or.inr (Or.inl ⟨l0, by rw [hthr, get_set_ne htt]; exact hl0, hp, _, hh⟩)

theorem QStep.hist_mono {s s' : State} (h : QStep s s') : ∀ x ∈ s.hist, x ∈ s'.hist := by
  obtain ⟨t, l, lo, sm, sm2, pick, hl, hne, _, hs⟩ := h
  intro x hx
  rcases stepN_call (step_stepN hl hs) hne with ⟨_, _, _, hh⟩ | ⟨_, _, _, _, hh⟩
  · rw [hh]; exact hx
  · rw [hh]; exact List.mem_cons_of_mem _ hx

theorem QRun.hist_mono {s s' : State} {k : Nat} (h : QRun s k s') : ∀ x ∈ s.hist, x ∈ s'.hist := by
  induction h with
  | nil => exact fun _ h => h
  | cons h1 _ ih => exact fun x hx => ih x (h1.hist_mono x hx)

/-- along a quiet run the call of a thread stays pending until it is answered, and answers stay -/
theorem qrun_call_returns {n : Nat} {s s' : State} {k : Nat} (hr : Reachable n s) (h : QRun s k s') {t0 : Nat}
    {l0 : Local} {p : Pending} (hl0 : s.threads[t0]? = some l0) (hp : l0.call = some p) :
    (∃ l1, s'.threads[t0]? = some l1 ∧ l1.call = some p) ∨ Answered s' t0 p := by
  induction h generalizing l0 with
  | nil => exact Or.inl ⟨l0, hl0, hp⟩
  | @cons s s1 s2 k h1 hrun ih =>
    have hr1 := h1.reachable hr
    have hmono : ∀ x ∈ s1.hist, x ∈ s2.hist := hrun.hist_mono
    rcases h1.call_kept hr hl0 hp with ⟨l1, hl1, hp1, _⟩ | ⟨l1, hl1, hp1, _⟩ | ⟨res, hh⟩
    · exact ih hr1 hl1 hp1
    · exact ih hr1 hl1 hp1
    · exact Or.inr ⟨res, _, hmono _ (by rw [hh]; exact List.mem_cons_self)⟩

end Flurry.Proto.BinGNP
