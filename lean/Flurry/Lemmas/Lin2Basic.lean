import Flurry.Lin2
/-! # Linearizability: the certificate checker is sound (and complete)

(C13 port of `Flurry/Lemmas/LinBasic.lean` to the per-key operations of `Flurry/Lin2.lean`, i.e. with `retain`'s conditional removal `condRm`; below, "`Proto/Bin`" / `Base.` is `Flurry.Proto.BinR.Base` (`Proto/BinRBase.lean`) and "`Proto/BinW`" is `Flurry.Proto.BinR` (`Proto/BinR.lean`), which in addition has the `retain` visit steps.)

`validate_sound`, `validate_iff`, `linearizable_iff_validate`. -/
namespace Flurry.Lin2

/-- boolean real-time compatibility of two call indices: both exist and the first may precede the second -/
def rtOk (h : History2) (i j : Nat) : Bool :=
  match h[i]?, h[j]? with
  | some a, some b => mayPrecede a b
  | _, _ => false

theorem realTimeOk_cons (h : History2) (i : Nat) (rest : List Nat) :
    realTimeOk h (i :: rest) = (rest.all (rtOk h i) && realTimeOk h rest) := rfl

theorem rtOk_iff {h : History2} {i j : Nat} :
    rtOk h i j = true ↔ ∃ a b, h[i]? = some a ∧ h[j]? = some b ∧ ¬ b.resp < a.inv := by
  unfold rtOk
  cases hi : h[i]? <;> cases hj : h[j]? <;> simp [mayPrecede]

theorem realTimeOk_iff {h : History2} {order : List Nat} :
    realTimeOk h order = true ↔ order.Pairwise (fun i j => rtOk h i j = true) := by
  induction order with
  | nil => simp [realTimeOk]
  | cons i rest ih => simp [realTimeOk_cons, ih, List.pairwise_cons, List.all_eq_true]

theorem perm_range_of_length_of_mem : ∀ (n : Nat) (order : List Nat),
    order.length = n → (∀ i, i < n → i ∈ order) → order.Perm (List.range n)
  | 0, order, hl, _ => by
    have : order = [] := List.eq_nil_of_length_eq_zero hl
    subst this; simp
  | n + 1, order, hl, hm => by
    have hn : n ∈ order := hm n (Nat.lt_succ_self n)
    have h1 : order.Perm (n :: order.erase n) := List.perm_cons_erase hn
    have h2 : (order.erase n).Perm (List.range n) := by
      apply perm_range_of_length_of_mem n
      · rw [List.length_erase_of_mem hn, hl]; rfl
      · intro i hi
        exact (List.mem_erase_of_ne (by omega)).2 (hm i (by omega))
    rw [List.range_succ]
    exact h1.trans ((List.Perm.cons n h2).trans (List.perm_append_singleton n _).symm)

theorem isPermOfRange_iff {order : List Nat} {n : Nat} :
    isPermOfRange order n = true ↔ order.Perm (List.range n) := by
  constructor
  · intro hv
    simp only [isPermOfRange, Bool.and_eq_true, beq_iff_eq, List.all_eq_true, List.mem_range,
      List.contains_iff_mem] at hv
    exact perm_range_of_length_of_mem n order hv.1 hv.2
  · intro hp
    simp only [isPermOfRange, Bool.and_eq_true, beq_iff_eq, List.all_eq_true, List.mem_range,
      List.contains_iff_mem]
    refine ⟨by simpa using hp.length_eq, fun i hi => hp.symm.subset (List.mem_range.2 hi)⟩

theorem isPermOfRange_perm {order : List Nat} {n : Nat} (hv : isPermOfRange order n = true) :
    order.Perm (List.range n) := isPermOfRange_iff.1 hv

theorem validate_iff {h : History2} {order : List Nat} {init fin : KSt} :
    validate h order init fin = true ↔
      order.Perm (List.range h.length) ∧ order.Pairwise (fun i j => rtOk h i j = true) ∧
      replay2 h order init = some fin := by
  simp [validate, isPermOfRange_iff, realTimeOk_iff, and_assoc]

/-- the indexed real-time condition of `Linearizable2`, from the pairwise one -/
theorem indexed_of_pairwise {h : History2} {order : List Nat}
    (hp : order.Pairwise (fun i j => rtOk h i j = true)) :
    ∀ (p q : Nat) (a b : Call2), p < q → order[p]? >>= (h[·]?) = some a →
      order[q]? >>= (h[·]?) = some b → ¬ (b.resp < a.inv) := by
  intro p q a b hpq ha hb
  rw [List.pairwise_iff_getElem] at hp
  cases hop : order[p]? with
  | none => simp [hop] at ha
  | some i =>
    cases hoq : order[q]? with
    | none => simp [hoq] at hb
    | some j =>
      simp only [hop, hoq, Option.bind_eq_bind, Option.bind_some] at ha hb
      obtain ⟨hp', rfl⟩ := List.getElem?_eq_some_iff.1 hop
      obtain ⟨hq', rfl⟩ := List.getElem?_eq_some_iff.1 hoq
      obtain ⟨a', b', ha', hb', hab⟩ := rtOk_iff.1 (hp p q hp' hq' hpq)
      rw [ha] at ha'; rw [hb] at hb'
      cases ha'; cases hb'
      exact hab

/-- conversely, for an order whose entries are valid indices -/
theorem pairwise_of_indexed {h : History2} {order : List Nat}
    (hlt : ∀ i ∈ order, i < h.length)
    (hi : ∀ (p q : Nat) (a b : Call2), p < q → order[p]? >>= (h[·]?) = some a →
      order[q]? >>= (h[·]?) = some b → ¬ (b.resp < a.inv)) :
    order.Pairwise (fun i j => rtOk h i j = true) := by
  rw [List.pairwise_iff_getElem]
  intro p q hp hq hpq
  have h1 : order[p] < h.length := hlt _ (List.getElem_mem hp)
  have h2 : order[q] < h.length := hlt _ (List.getElem_mem hq)
  refine rtOk_iff.2 ⟨h[order[p]], h[order[q]], List.getElem?_eq_getElem h1, List.getElem?_eq_getElem h2, ?_⟩
  apply hi p q _ _ hpq
  · simp [List.getElem?_eq_getElem hp, List.getElem?_eq_getElem h1]
  · simp [List.getElem?_eq_getElem hq, List.getElem?_eq_getElem h2]

/-- `Linearizable2` in pairwise form -/
theorem linearizable_iff_pairwise {h : History2} {init fin : KSt} :
    Linearizable2 h init fin ↔ ∃ order : List Nat,
      order.Perm (List.range h.length) ∧ order.Pairwise (fun i j => rtOk h i j = true) ∧
      replay2 h order init = some fin := by
  constructor
  · rintro ⟨order, hp, hrt, hr⟩
    refine ⟨order, hp, pairwise_of_indexed (fun i hi => List.mem_range.1 (hp.subset hi)) hrt, hr⟩
  · rintro ⟨order, hp, hrt, hr⟩
    exact ⟨order, hp, indexed_of_pairwise hrt, hr⟩

/-- **Target 1**: an accepted certificate proves linearizability. -/
theorem validate_sound {h : History2} {order : List Nat} {init fin : KSt}
    (hv : validate h order init fin = true) : Linearizable2 h init fin :=
  linearizable_iff_pairwise.2 ⟨order, validate_iff.1 hv⟩

/-- the checker is also complete: linearizable iff some certificate is accepted -/
theorem linearizable_iff_validate {h : History2} {init fin : KSt} :
    Linearizable2 h init fin ↔ ∃ order, validate h order init fin = true := by
  rw [linearizable_iff_pairwise]
  exact ⟨fun ⟨o, ho⟩ => ⟨o, validate_iff.2 ho⟩, fun ⟨o, ho⟩ => ⟨o, validate_iff.1 ho⟩⟩

end Flurry.Lin2
