import Flurry.Lemmas.BinNInv
import Flurry.Lemmas.BinNInvFrame
import Flurry.Lemmas.BinNHMInvFrame
/-! # Proto/BinNH — port of the `Proto/BinN` lemma file of the same name to the heap invariant with ONE
MID-TRANSFER CELL PER HELPER (`Lemmas/BinNHMDefs.lean`); statements about `BinN.State`. Original header: every transition preserves the structural invariant (C01, C10) -/
namespace Flurry.Proto.BinNHM
open Flurry.Proto.BinN
open Flurry.Lin
open Flurry.Proto.BinX (NodeS Cell Pending isReader dflt chainFrom cellHead cellOfHead nodeAt nodeAt_of_some getElem?_nodeAt
  nodeAt_append_left IsSeg IsChain chainH absIn KeysDistinct Walk get_set get_set_self get_set_ne cellOfHead_ne_moved)

/-- what a transition does to the abstract states of the keys -/
inductive AbsEff (s s' : State) (l : Local) : Prop
  | quiet : (∀ k, absOf s' k = absOf s k) → AbsEff s s' l
  | cas (p : Pending) (g v vi : Nat) : l.call = some p → l.pc = .wCas g → cellOf s g p.key = .empty →
      (p.op = .ins v vi ∨ p.op = .tryIns v vi) →
      (∀ k, absOf s' k = if p.key = k then some (v, vi) else absOf s k) → AbsEff s s' l
  | store (p : Pending) (g h : Nat) (pred hit hnext : Option Nat) : l.call = some p →
      l.pc = .wStore g h pred hit hnext →
      specStep (absOf s p.key) p.op = (absOf s' p.key, (storeAt (tick s) g p pred hit hnext).2) →
      (∀ k, k ≠ p.key → absOf s' k = absOf s k) → AbsEff s s' l

/-- the new program counter is not one of `Proto/BinN`'s resizing program counters -/
theorem noT_set {s s' : State} {t : Nat} {l' : Local}
    (h : ∀ (t : Nat) (l : Local), s.threads[t]? = some l → ¬ isT l.pc)
    (hthr : s'.threads = s.threads.set t l') (hT : ¬ isT l'.pc) :
    ∀ (t : Nat) (l : Local), s'.threads[t]? = some l → ¬ isT l.pc := by
  intro t1 l1 h1
  rw [hthr] at h1
  rcases get_set h1 with ⟨-, rfl⟩ | ⟨-, h1⟩
  · exact hT
  · exact h t1 l1 h1

/-- no reader / writer is validated on a cell that is being split: the frame. `hnew`: the acting thread does not
become validated on a cell that is being split. -/
theorem midw_set {s s' : State} {G : Ghost} {t : Nat} {l' : Local}
    (h : ∀ j, IsMid G j → ∀ (t1 : Nat) (l1 : Local) (h : Nat), s.threads[t1]? = some l1 →
      vcell s.cur l1 ≠ some (s.cur, j, h))
    (hthr : s'.threads = s.threads.set t l') (hc : s'.cur = s.cur)
    (hnew : ∀ j h, IsMid G j → vcell s.cur l' ≠ some (s.cur, j, h)) :
    ∀ j, IsMid G j → ∀ (t1 : Nat) (l1 : Local) (h : Nat), s'.threads[t1]? = some l1 →
      vcell s'.cur l1 ≠ some (s'.cur, j, h) := by
  intro j hm t1 l1 h0 h1
  rw [hthr] at h1
  rw [hc]
  rcases get_set h1 with ⟨-, rfl⟩ | ⟨-, h1⟩
  · exact hnew j h0 hm
  · exact h j hm t1 l1 h0 h1

/-- transitions that do not touch the memory -/
theorem inv_same {s s' : State} {G : Ghost} {t : Nat} {l l' : Local} (I : Inv s G) (_hl : s.threads[t]? = some l)
    (Gn' : GenInv s') (Tn' : TInv s') (m : SameMem s s') (hthr : s'.threads = s.threads.set t l')
    (hT : ¬ isT l'.pc) (hnew : ∀ j h, IsMid G j → vcell s.cur l' ≠ some (s.cur, j, h))
    (hself : ∀ p, l'.call = some p → WalkOK s' p l'.pc) :
    Inv s' G ∧ MemStep s s' G G ∧ AbsEff s s' l := by
  obtain ⟨a, b, c, d⟩ := m
  refine ⟨⟨Gn', I.heap.congr a b c d, Tn', ?_, noT_set I.noT hthr hT, midw_set I.midw hthr c hnew⟩,
    .heap (HeapStep.of_same a b c), .quiet (absOf_congr' a b c)⟩
  refine winv_frame I.walk hthr ?_ hself
  intro t1 l1 g j h _ _ _ _
  exact hfr_same b (chId_congr a b) (fun i => by rw [a]; exact ⟨rfl, rfl⟩) g j

/-- transitions that change a lock word -/
theorem inv_lock {s s' : State} {G : Ghost} {t : Nat} {l l' : Local} {i : Nat} {x : Option Nat} (I : Inv s G)
    (_hl : s.threads[t]? = some l) (Gn' : GenInv s') (Tn' : TInv s')
    (hh : s'.heap = s.heap.modify i (fun m => { m with lock := x }))
    (ht : s'.tabs = s.tabs) (hc : s'.cur = s.cur) (hr : s'.resizing = s.resizing)
    (hthr : s'.threads = s.threads.set t l')
    (hT : ¬ isT l'.pc) (hnew : ∀ j h, IsMid G j → vcell s.cur l' ≠ some (s.cur, j, h))
    (hself : ∀ p, l'.call = some p → WalkOK s' p l'.pc) :
    Inv s' G ∧ MemStep s s' G G ∧ AbsEff s s' l := by
  obtain ⟨H', hs, hch, habs, -, hn⟩ := lock_effect I.heap hh ht hc hr
  refine ⟨⟨Gn', H', Tn', ?_, noT_set I.noT hthr hT, midw_set I.midw hthr hc hnew⟩, .heap hs, .quiet habs⟩
  refine winv_frame I.walk hthr ?_ hself
  intro t1 l1 g j h _ _ _ _
  exact hfr_same ht hch (fun i => ⟨(hn i).1, (hn i).2.2⟩) g j

/-- transitions that store into the chain of an active cell -/
theorem inv_update {s s' : State} {G : Ghost} {t : Nat} {l l' : Local} {id : CellId} (I : Inv s G)
    (_hl : s.threads[t]? = some l) (Gn' : GenInv s') (Tn' : TInv s') (act : Active s G id)
    (e : Effect s s' G id) (hthr : s'.threads = s.threads.set t l')
    (hT : ¬ isT l'.pc) (hnew : ∀ j h, IsMid G j → vcell s.cur l' ≠ some (s.cur, j, h))
    (hother : ∀ (t1 : Nat) (l1 : Local) (h : Nat), t1 ≠ t → s.threads[t1]? = some l1 →
      vcell s.cur l1 ≠ some (id.1, id.2, h))
    (hself : ∀ p, l'.call = some p → WalkOK s' p l'.pc) :
    Inv s' G ∧ MemStep s s' G G := by
  obtain ⟨C', u, hs, -⟩ := e
  refine ⟨⟨Gn', hinv_update I.heap act u, Tn', ?_, noT_set I.noT hthr hT, midw_set I.midw hthr u.cur hnew⟩, .heap hs⟩
  refine winv_frame I.walk hthr ?_ hself
  intro t1 l1 g j h n1 h1 hv _
  refine hfr_update I.heap act u ?_
  intro he
  apply hother t1 l1 h n1 h1
  rw [← he]; exact hv

/-- a store into the chain of an active cell leaves the cell that is being split and its children alone -/
theorem Update.mid_cells {s s' : State} {G : Ghost} {id : CellId} {C' : List Nat} (H : HInv s G) (act : Active s G id)
    (u : Update s s' G id C') {j : Nat} {lo hg : Option Nat} {fr : Nat × Nat} (hm : G.mid j = some (lo, hg, fr)) :
    cellAt s' s.cur j = cellAt s s.cur j ∧ cellAt s' (s.cur + 1) j = cellAt s (s.cur + 1) j ∧
    cellAt s' (s.cur + 1) (j + 2 ^ s.cur) = cellAt s (s.cur + 1) (j + 2 ^ s.cur) := by
  obtain ⟨h1, h2, h3, -⟩ := act.ne_mid H hm
  exact ⟨u.cell (s.cur, j) (fun h => h1 h.symm), u.cell (s.cur + 1, j) (fun h => h2 h.symm),
    u.cell (s.cur + 1, j + 2 ^ s.cur) (fun h => h3 h.symm)⟩

/-- the split only appends nodes -/
theorem splitBinB_ext (bit : Nat → Bool) (heap : List NodeS) (c : List Nat) :
    ∃ ext, (splitBinB bit heap c).1 = heap ++ ext := by
  unfold splitBinB
  simp only
  generalize (c.take (lastRunStartB bit heap c)) = pre
  generalize (if (match (List.drop (lastRunStartB bit heap c) c).head? with
        | some i => bit (heap.getD i dflt).key
        | none => false) = true then none else (List.drop (lastRunStartB bit heap c) c).head?) = lo
  generalize (if (match (List.drop (lastRunStartB bit heap c) c).head? with
        | some i => bit (heap.getD i dflt).key
        | none => false) = true then (List.drop (lastRunStartB bit heap c) c).head? else none) = hg
  suffices h : ∀ (pre : List Nat) (hp : List NodeS) (lo hg : Option Nat), (∃ ext, hp = heap ++ ext) →
      ∃ ext, (pre.foldl
        (fun (acc : List NodeS × Option Nat × Option Nat) i =>
          let (hp, lo, hg) := acc
          let n := hp.getD i dflt
          let idx := hp.length
          if bit n.key then (hp ++ [⟨n.key, n.val, hg, none⟩], lo, some idx)
          else (hp ++ [⟨n.key, n.val, lo, none⟩], some idx, hg)) (hp, lo, hg)).1 = heap ++ ext from
    h pre heap lo hg ⟨[], by simp⟩
  intro pre
  induction pre with
  | nil => intro hp lo hg h; exact h
  | cons i pre ih =>
    intro hp lo hg h
    obtain ⟨ext, rfl⟩ := h
    simp only [List.foldl_cons]
    split
    · exact ih _ _ _ ⟨ext ++ [_], by rw [List.append_assoc]⟩
    · exact ih _ _ _ ⟨ext ++ [_], by rw [List.append_assoc]⟩

end Flurry.Proto.BinNHM
