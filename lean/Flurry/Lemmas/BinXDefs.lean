import Flurry.Lemmas.BinXChain
/-! # Proto/BinX: the invariants (definitions) (C01, C10)

Ghost state `Ghost`: the phase of the (single) transfer (`pre`: the old bin is live and has not been
split; `mid lo hg`: the list has been split, `lo` / `hg` are the heads of the new lists, the old bin
is still the live one; `post`: the forwarding marker is visible, the new bins are live) and the index
range `cr` of the copies.

* `SideOK`: what the split guarantees about one new list (relative to the old chain `O`);
* `HInv`: the heap invariant (all three chains are well-formed, duplicate-free in keys, on the right
  side; phase facts);
* `TInv`: times, operations and program counters fit; `PInv`: the program counters fit the phase;
  `LInv`: the lock protocol; `WInv`: the positions remembered by a walking writer are current. -/
namespace Flurry.Proto.BinX
open Flurry.Lin

inductive Phase where
  | pre
  | mid (lo hg : Option Nat)
  | post
deriving DecidableEq

structure Ghost where
  ph : Phase := .pre
  cr : CR := (0, 0)

def chO (s : State) : List Nat := chainH s.heap s.cell0
def chL (s : State) : List Nat := chainH s.heap s.lowCell
def chH (s : State) : List Nat := chainH s.heap s.highCell
def chB (s : State) (b : Bool) : List Nat := if b then chH s else chL s

/-- the chain a lookup of `k` ends in -/
def LC (s : State) (k : Nat) : List Nat := chainOfCell s (liveCell s k)

/-- what the split guarantees about the new list `X` of side `b`, relative to the old chain `O` -/
structure SideOK (heap : List NodeS) (cr : CR) (O : List Nat) (b : Bool) (X : List Nat) : Prop where
  side : ∀ j ∈ X, hiBit (nodeAt heap j).key = b
  keys : KeysDistinct heap X
  mem : ∀ j ∈ X, j ∈ O ∨ isCopy cr j
  /-- a copy has the key and value of an old node that lies before every re-used node of `X` -/
  src : ∀ j ∈ X, isCopy cr j → ∃ i ∈ O, (nodeAt heap i).key = (nodeAt heap j).key ∧
    (nodeAt heap i).val = (nodeAt heap j).val ∧ ∀ r ∈ O, r ∈ X → i < r
  /-- every old node of side `b` is re-used or has a copy in `X` -/
  cover : ∀ i ∈ O, hiBit (nodeAt heap i).key = b → ∃ j ∈ X, (nodeAt heap j).key = (nodeAt heap i).key ∧
    (nodeAt heap j).val = (nodeAt heap i).val ∧ (j = i ∨ isCopy cr j)
  /-- the re-used nodes are a suffix of the old chain -/
  suffix : ∀ r ∈ O, r ∈ X → ∀ i ∈ O, r < i → i ∈ X

/-- the state of the split: `lo` / `hg` are the heads of well-formed new lists -/
def Split (heap : List NodeS) (cr : CR) (O : List Nat) (lo hg : Option Nat) : Prop :=
  (∀ i ∈ O, i < cr.1) ∧ ∃ L H, IsChain heap lo L ∧ IsChain heap hg H ∧
    SideOK heap cr O false L ∧ SideOK heap cr O true H

/-- nodes that may still be written or (re-)linked -/
def Live (s : State) (cr : CR) (i : Nat) : Prop :=
  i ∈ chO s ∨ i ∈ chL s ∨ i ∈ chH s ∨ (s.cell0 ≠ .moved ∧ isCopy cr i)

structure HInv (s : State) (g : Ghost) : Prop where
  nextOK : NextOK g.cr s.heap
  crOK : g.cr.1 ≤ g.cr.2 ∧ g.cr.2 ≤ s.heap.length
  head0 : ∀ h, s.cell0 = .node h → h < s.heap.length
  headL : ∀ h, s.lowCell = .node h → h < s.heap.length
  headH : ∀ h, s.highCell = .node h → h < s.heap.length
  keysO : KeysDistinct s.heap (chO s)
  keysL : KeysDistinct s.heap (chL s)
  keysH : KeysDistinct s.heap (chH s)
  sideL : ∀ i ∈ chL s, hiBit (nodeAt s.heap i).key = false
  sideH : ∀ i ∈ chH s, hiBit (nodeAt s.heap i).key = true
  oNotCopy : ∀ i ∈ chO s, ¬ isCopy g.cr i
  curNew : s.cur = .new → g.ph = .post
  pre : g.ph = .pre → g.cr.1 = g.cr.2 ∧ s.cell0 ≠ .moved ∧ s.lowCell = .empty ∧ s.highCell = .empty
  mid : ∀ lo hg, g.ph = .mid lo hg → (∃ h, s.cell0 = .node h) ∧
    (s.lowCell = .empty ∨ s.lowCell = cellOfHead lo) ∧ (s.highCell = .empty ∨ s.highCell = cellOfHead hg) ∧
    Split s.heap g.cr (chO s) lo hg
  post : g.ph = .post → s.cell0 = .moved

/-! ## threads -/

def PcOp : Pc → KOp → Prop
  | .rTable, op => isReader op = true
  | .rCell _, op => isReader op = true
  | .rNode _, op => isReader op = true
  | .wTable, op => isReader op = false
  | .wCell _, op => isReader op = false
  | .wCas _, op => isReader op = false
  | .wLock _ _, op => isReader op = false
  | .wCheck _ _, op => isReader op = false
  | .wFind _ _ _ _, op => isReader op = false
  | .wStore _ _ _ _ _, op => isReader op = false
  | .wUnlock _ _ _ _, op => isReader op = false
  | _, _ => True

/-- program counters of the resizing thread -/
def isT : Pc → Prop
  | .tCell | .tCasMoved | .tLock _ | .tCheck _ | .tBuild _ | .tStoreLow _ _ _ | .tStoreHigh _ _
  | .tStoreMoved _ | .tUnlock _ | .tCommit => True
  | _ => False

/-- program counters of a call in flight -/
def isOp : Pc → Prop
  | .rTable | .rCell _ | .rNode _ | .wTable | .wCell _ | .wCas _ | .wLock _ _ | .wCheck _ _
  | .wFind _ _ _ _ | .wStore _ _ _ _ _ | .wUnlock _ _ _ _ => True
  | _ => False

structure TInv (s : State) : Prop where
  opOK : ∀ (t : Nat) (l : Local) (p : Pending), s.threads[t]? = some l → l.call = some p → PcOp l.pc p.op
  callOK : ∀ (t : Nat) (l : Local), s.threads[t]? = some l → (isOp l.pc ↔ l.call.isSome)
  histTime : ∀ x ∈ s.hist, x.2.inv ≤ x.2.resp ∧ x.2.resp ≤ s.now
  pendTime : ∀ (t : Nat) (l : Local) (p : Pending), s.threads[t]? = some l → l.call = some p → p.inv ≤ s.now
  uniqHP : ∀ x ∈ s.hist, ∀ (t : Nat) (l : Local) (p : Pending), s.threads[t]? = some l → l.call = some p →
    x.2.inv ≠ p.inv
  uniqPP : ∀ (t t' : Nat) (l l' : Local) (p p' : Pending), s.threads[t]? = some l → s.threads[t']? = some l' →
    l.call = some p → l'.call = some p' → p.inv = p'.inv → t = t'
  uniqHH : s.hist.Pairwise (fun x y => x.2.inv ≠ y.2.inv)

/-- the table a program counter works in -/
def tabOf : Pc → Option Tab
  | .rCell tab | .wCell tab | .wCas tab | .wLock tab _ | .wCheck tab _ | .wFind tab _ _ _
  | .wStore tab _ _ _ _ | .wUnlock tab _ _ _ => some tab
  | _ => none

/-- how a program counter constrains the phase and the new cells -/
def PcPh (s : State) (g : Ghost) : Pc → Prop
  | .tCell | .tCasMoved | .tLock _ | .tCheck _ | .tBuild _ => g.ph = .pre
  | .tStoreLow _ lo hg => g.ph = .mid lo hg ∧ s.lowCell = .empty ∧ s.highCell = .empty
  | .tStoreHigh _ hg => ∃ lo, g.ph = .mid lo hg ∧ s.lowCell = cellOfHead lo ∧ s.highCell = .empty
  | .tStoreMoved _ => ∃ lo hg, g.ph = .mid lo hg ∧ s.lowCell = cellOfHead lo ∧ s.highCell = cellOfHead hg
  | .tUnlock _ | .tCommit => g.ph = .post
  | pc => tabOf pc = some .new → g.ph = .post

def isMidPc : Pc → Prop
  | .tStoreLow _ _ _ | .tStoreHigh _ _ | .tStoreMoved _ => True
  | _ => False

structure PInv (s : State) (g : Ghost) : Prop where
  pcPh : ∀ (t : Nat) (l : Local), s.threads[t]? = some l → PcPh s g l.pc
  uniqT : ∀ (t t' : Nat) (l l' : Local), s.threads[t]? = some l → s.threads[t']? = some l' →
    isT l.pc → isT l'.pc → t = t'
  resz : ∀ (t : Nat) (l : Local), s.threads[t]? = some l → isT l.pc → s.resizing = true
  noResz : s.resizing = false → g.ph = .pre
  midHas : ∀ lo hg, g.ph = .mid lo hg → ∃ (t : Nat) (l : Local), s.threads[t]? = some l ∧ isMidPc l.pc

/-! ## locks -/

inductive CellId where | c0 | low | high
deriving DecidableEq

def cellId (tab : Tab) (k : Nat) : CellId :=
  match tab with
  | .old => .c0
  | .new => if hiBit k then .high else .low

def getCell (s : State) : CellId → Cell
  | .c0 => s.cell0
  | .low => s.lowCell
  | .high => s.highCell

theorem cellOf_eq (s : State) (tab : Tab) (k : Nat) : cellOf s tab k = getCell s (cellId tab k) := by
  cases tab with
  | old => rfl
  | new => unfold cellOf cellId; dsimp only; split <;> rfl

/-- the thread holds the mutex of node `h` -/
def Holds : Pc → Nat → Prop
  | .wCheck _ h', h => h' = h
  | .wFind _ h' _ _, h => h' = h
  | .wStore _ h' _ _ _, h => h' = h
  | .wUnlock _ h' _ _, h => h' = h
  | .tCheck h', h => h' = h
  | .tBuild h', h => h' = h
  | .tStoreLow h' _ _, h => h' = h
  | .tStoreHigh h' _, h => h' = h
  | .tStoreMoved h', h => h' = h
  | .tUnlock h', h => h' = h
  | _, _ => False

/-- the cell on which the thread holds a validated lock, and the head it saw -/
def vcell (l : Local) : Option (CellId × Nat) :=
  match l.pc, l.call with
  | .wFind tab h _ _, some p => some (cellId tab p.key, h)
  | .wStore tab h _ _ _, some p => some (cellId tab p.key, h)
  | .tBuild h, _ => some (.c0, h)
  | .tStoreLow h _ _, _ => some (.c0, h)
  | .tStoreHigh h _, _ => some (.c0, h)
  | .tStoreMoved h, _ => some (.c0, h)
  | _, _ => none

structure LInv (s : State) : Prop where
  lockHeld : ∀ (t : Nat) (l : Local) (h : Nat), s.threads[t]? = some l → Holds l.pc h →
    h < s.heap.length ∧ (nodeAt s.heap h).lock = some t
  validated : ∀ (t : Nat) (l : Local) (id : CellId) (h : Nat), s.threads[t]? = some l → vcell l = some (id, h) →
    getCell s id = .node h ∧ Holds l.pc h

/-! ## walks -/

/-- the walk of a validated writer looking for `key`, seen on the current chain `C`: the nodes passed
are the prefix `l1` (none of them has the key), `pred` is the last of them, `cur` the next node -/
def Walk (heap : List NodeS) (C : List Nat) (key : Nat) (pred cur : Option Nat) : Prop :=
  ∃ l1 l2, C = l1 ++ l2 ∧ cur = l2.head? ∧ pred = l1.getLast? ∧
    ∀ j ∈ l1, (nodeAt heap j).key ≠ key

def WalkOK (s : State) (p : Pending) : Pc → Prop
  | .wFind tab _ pred cur => Walk s.heap (chainH s.heap (cellOf s tab p.key)) p.key pred cur
  | .wStore tab _ pred hit hnext => Walk s.heap (chainH s.heap (cellOf s tab p.key)) p.key pred hit ∧
      ∀ i, hit = some i → (nodeAt s.heap i).key = p.key ∧ hnext = (nodeAt s.heap i).next
  | _ => True

structure WInv (s : State) : Prop where
  walk : ∀ (t : Nat) (l : Local) (p : Pending), s.threads[t]? = some l → l.call = some p → WalkOK s p l.pc

/-- the structural invariant -/
structure Inv (s : State) (g : Ghost) : Prop where
  heap : HInv s g
  thr : TInv s
  ph : PInv s g
  lock : LInv s
  walk : WInv s

end Flurry.Proto.BinX
