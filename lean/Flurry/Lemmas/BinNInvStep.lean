import Flurry.Lemmas.BinNInv
/-! # Proto/BinN: every transition preserves the structural invariant — the case analysis (C01, C10) -/
namespace Flurry.Proto.BinN
open Flurry.Lin
open Flurry.Proto.BinX (NodeS Cell Pending isReader dflt chainFrom cellHead cellOfHead nodeAt nodeAt_of_some getElem?_nodeAt
  nodeAt_append_left IsSeg IsChain chainH absIn KeysDistinct Walk get_set get_set_self get_set_ne cellOfHead_ne_moved)

theorem stepK_inv {s s' : State} {G : Ghost} {t : Nat} {l : Local} {pick : Nat} (I : Inv s G)
    (hl : s.threads[t]? = some l) (hstep : StepK s t l pick s') :
    ∃ G', Inv s' G' ∧ MemStep s s' G G' ∧ AbsEff s s' l := by
  have Gn' := stepK_geninv I.gen hl hstep
  have Tn' := stepK_tinv I.thr hl hstep
  have S' := Gn'.shape
  have H := I.heap
  have T := I.gen.thr t l hl
  cases hstep with
  | idle hpc =>
    exact ⟨G, inv_same (l' := l) I hl Gn' Tn' ⟨rfl, rfl, rfl, rfl⟩ rfl (by rw [hpc]; exact fun h => h)
      (by rw [hpc]; exact fun h => h) (fun p _ => by rw [hpc]; trivial)⟩
  | invoke k op hpc =>
    refine ⟨G, inv_same I hl Gn' Tn' ⟨rfl, rfl, rfl, rfl⟩ rfl (by rw [hpc]; exact fun h => h) ?_ ?_⟩
    · cases isReader op <;> exact fun h => h
    · intro p _; cases isReader op <;> trivial
  | resize hpc hr =>
    have hmid := I.mid_none_of_not_resizing hr
    obtain ⟨H', hs, habs⟩ := alloc_effect H S' hmid rfl rfl rfl rfl hr
    have nT : ∀ (t1 : Nat) (l1 : Local), s.threads[t1]? = some l1 → ¬ isT l1.pc := by
      intro t1 l1 h1 hT
      have := (I.gen.thr t1 l1 h1).tres hT
      rw [hr] at this; cases this
    refine ⟨G, ⟨Gn', H', Tn', ?_, ?_⟩, .heap hs, .quiet habs⟩
    · refine pinv_of ?_ (fun h => by rw [hmid] at h; cases h)
      intro t1 l1 h1 hm1
      rcases get_set h1 with ⟨rfl, rfl⟩ | ⟨n1, h1⟩
      · exact hm1.elim
      · exact absurd (isMidPc_isT hm1) (nT _ _ h1)
    · refine winv_frame (l' := { l with pc := .tNext }) I.walk rfl ?_ (fun p _ => trivial)
      intro t1 l1 g j h _ _ _ _
      refine ⟨cellT_alloc _ _ _ _, rfl, fun i _ => ⟨rfl, rfl⟩⟩
  | move p pc' hp hm =>
    obtain ⟨pc, call⟩ := l
    simp only at hp hm
    subst hp
    refine ⟨G, inv_same I hl Gn' Tn' ⟨rfl, rfl, rfl, rfl⟩ rfl ?_ ?_ ?_⟩
    · cases hm <;> exact fun h => h
    · cases hm <;> exact fun h => h
    · intro p' hp'
      cases hp'
      exact hm.walk H (I.walk.walk t _ p hl rfl)
  | tmove pc' hp hm =>
    obtain ⟨pc, call⟩ := l
    simp only at hp hm
    subst hp
    refine ⟨G, inv_same I hl Gn' Tn' ⟨rfl, rfl, rfl, rfl⟩ rfl ?_ ?_ (fun p hp' => by cases hp')⟩
    · cases hm <;> exact fun h => h
    · cases hm <;> exact fun h => h
  | lockMove p h x pc' hp hm =>
    obtain ⟨pc, call⟩ := l
    simp only at hp hm
    subst hp
    refine ⟨G, inv_lock I hl Gn' Tn' rfl rfl rfl rfl rfl ?_ ?_ ?_⟩
    · cases hm <;> exact fun h => h
    · cases hm <;> exact fun h => h
    · intro p' _; cases hm <;> trivial
  | tlockMove h x pc' hp hm =>
    obtain ⟨pc, call⟩ := l
    simp only at hp hm
    subst hp
    refine ⟨G, inv_lock I hl Gn' Tn' rfl rfl rfl rfl rfl ?_ ?_ (fun p hp' => by cases hp')⟩
    · cases hm <;> exact fun h => h
    · cases hm <;> exact fun h => h
  | fin p res hp hf =>
    obtain ⟨pc, call⟩ := l
    simp only at hp hf
    subst hp
    refine ⟨G, inv_same (l' := { pc := .idle, call := none }) I hl Gn' Tn' ⟨rfl, rfl, rfl, rfl⟩ rfl ?_
      (fun h => h) (fun p hp' => by cases hp')⟩
    cases hf <;> exact fun h => h
  | cas p g v vi hp hpc hc hop =>
    obtain ⟨pc, call⟩ := l
    simp only at hp hpc
    subst hp hpc
    have act := I.active_of_empty hl rfl rfl hc
    obtain ⟨e, habs⟩ := cas_finish_effect (t := t) H p act hc (v, vi)
    obtain ⟨I', m⟩ := inv_update (l' := { pc := .idle, call := none }) I hl Gn' Tn' act e rfl (fun h => h) (fun h => h)
      (fun t1 l1 h _ h1 => no_vcell_of_not_node I.gen (by show ∀ h, cellOf s g p.key ≠ _; rw [hc]; simp) t1 l1 h h1)
      (fun p hp' => by cases hp')
    exact ⟨G, I', m, .cas p g v vi rfl rfl hc hop habs⟩
  | store p g h pred hit hnext hp hpc =>
    obtain ⟨pc, call⟩ := l
    simp only at hp hpc
    subst hp hpc
    have hv0 : vcell s.cur { pc := Pc.wStore g h pred hit hnext, call := some p } = some (g, p.key % 2 ^ g, h) := rfl
    have act := I.active_of_vcell hl rfl rfl (fun h => h) hv0
    obtain ⟨hcell, -⟩ := T.valid _ _ _ hv0
    have hwr : isReader p.op = false := I.thr.opOK t _ p hl rfl
    have hw := I.walk.walk t _ p hl rfl
    obtain ⟨e, hthr, -, -, -, hspec, hoth⟩ := store_effect (s := tick s) (H.sameMem (SameMem.tick s)) p hwr
      (act.sameMem (SameMem.tick s)) (h := h) hcell hw.1 hw.2
    have mt : SameMem (tick s) s := ⟨rfl, rfl, rfl, rfl⟩
    have e' := e.congr mt (SameMem.setT _ t { pc := .wUnlock g h (storeAt (tick s) g p pred hit hnext).2 false, call := some p })
    have hthr' : (setT (storeAt (tick s) g p pred hit hnext).1 t
        { pc := .wUnlock g h (storeAt (tick s) g p pred hit hnext).2 false, call := some p }).threads =
        s.threads.set t { pc := .wUnlock g h (storeAt (tick s) g p pred hit hnext).2 false, call := some p } := by
      show (storeAt _ _ _ _ _ _).1.threads.set _ _ = _
      rw [hthr]; rfl
    obtain ⟨I', m⟩ := inv_update I hl Gn' Tn' act e' hthr' (fun h => h) (fun h => h)
      (no_vcell_of_mutex I.gen hl hv0) (fun p _ => trivial)
    refine ⟨G, I', m, .store p g h pred hit hnext rfl rfl ?_ ?_⟩
    · rw [absOf_sameMem (SameMem.setT _ _ _)]
      rw [absOf_sameMem (SameMem.tick s)] at hspec
      exact hspec
    · intro k hk
      rw [absOf_sameMem (SameMem.setT _ _ _), hoth k hk, absOf_sameMem (SameMem.tick s)]
  | unlockFin p g h res hp hpc =>
    obtain ⟨pc, call⟩ := l
    simp only at hp hpc
    subst hp hpc
    exact ⟨G, inv_lock (l' := { pc := .idle, call := none }) I hl Gn' Tn' rfl rfl rfl rfl rfl (fun h => h) (fun h => h)
      (fun p hp' => by cases hp')⟩
  | casMoved j hp hpc hc =>
    obtain ⟨pc, call⟩ := l
    simp only at hp hpc
    subst hp hpc
    have R := T.tres trivial
    have hmid := I.mid_none hl trivial (fun h => h)
    have hj := T.idx j rfl
    obtain ⟨H', hs, habs⟩ := casMoved_effect H S' hmid hj hc R rfl rfl rfl rfl
    refine ⟨G, ⟨Gn', H', Tn', pinv_T_none (l' := { pc := .tNext, call := none }) I.gen hl trivial rfl (fun h => h) hmid, ?_⟩,
      .heap hs, .quiet habs⟩
    refine winv_frame (l' := { pc := .tNext, call := none }) I.walk rfl ?_ (fun p hp' => by cases hp')
    intro t1 l1 g j' h n1 h1 hv _
    refine hfr_put (s := s) (s' := putCell (setT (tick s) t { pc := .tNext, call := none }) s.cur j .moved) (g0 := s.cur) (j0 := j) (c := .moved) rfl rfl ?_
    rintro ⟨rfl, rfl⟩
    exact no_vcell_of_not_node I.gen (by rw [hc]; simp) t1 l1 h h1 hv
  | build j h hp hpc =>
    obtain ⟨pc, call⟩ := l
    simp only at hp hpc
    subst hp hpc
    have R := T.tres trivial
    have hmid := I.mid_none hl trivial (fun h => h)
    have hj := T.idx j rfl
    have hv0 : vcell s.cur { pc := Pc.tBuild j h, call := none } = some (s.cur, j, h) := rfl
    obtain ⟨hc0, -⟩ := T.valid _ _ _ hv0
    obtain ⟨H', hs, habs, -⟩ := build_effect (s' := setT { tick s with heap := (splitBinB (bitAt s.cur) s.heap (chainFrom s.heap s.heap.length (some h))).1 } t
        { pc := .tStoreLow j h (splitBinB (bitAt s.cur) s.heap (chainFrom s.heap s.heap.length (some h))).2.1
            (splitBinB (bitAt s.cur) s.heap (chainFrom s.heap s.heap.length (some h))).2.2, call := none })
      H hmid hj hc0 rfl rfl rfl rfl
    obtain ⟨ext, hext⟩ := splitBinB_ext (bitAt s.cur) s.heap (chainFrom s.heap s.heap.length (some h))
    have hnm : cellAt s s.cur j ≠ .moved := by rw [hc0]; simp
    refine ⟨_, ⟨Gn', H', Tn', ?_, ?_⟩, .heap hs, .quiet habs⟩
    · refine pinv_T_mid I.gen hl trivial rfl ?_ trivial
      refine ⟨rfl, ?_, ?_⟩
      · exact H.nextEmpty j (by rw [Nat.mod_eq_of_lt hj]; exact hnm) (by rw [Nat.mod_eq_of_lt hj]; exact midIdx_none hmid _)
      · exact H.nextEmpty (j + 2 ^ s.cur) (by rw [high_mod j s.cur hj]; exact hnm)
          (by rw [high_mod j s.cur hj]; exact midIdx_none hmid _)
    · refine winv_frame I.walk rfl ?_ (fun p hp' => by cases hp')
      intro t1 l1 g j' h' _ _ _ _
      have hch := chId_of_ext H H' hext rfl (g, j')
      refine ⟨rfl, hch, ?_⟩
      intro i hi
      have hil : i < s.heap.length := H.chain_lt (id := (g, j')) hi
      show (nodeAt (splitBinB _ _ _).1 i).key = _ ∧ (nodeAt (splitBinB _ _ _).1 i).next = _
      rw [hext, nodeAt_append_left ext hil]
      exact ⟨rfl, rfl⟩
  | storeLow j h lo hg hp hpc =>
    obtain ⟨pc, call⟩ := l
    simp only at hp hpc
    subst hp hpc
    have R := T.tres trivial
    have hj := T.idx j rfl
    obtain ⟨hmid, hlow, hhigh⟩ := I.ph.pcMid t _ hl
    have hv0 : vcell s.cur { pc := Pc.tStoreLow j h lo hg, call := none } = some (s.cur, j, h) := rfl
    obtain ⟨hc0, -⟩ := T.valid _ _ _ hv0
    have hnm : cellAt s s.cur j ≠ .moved := by rw [hc0]; simp
    obtain ⟨H', hs, habs⟩ := storeNew_effect (s' := putCell (setT (tick s) t { pc := .tStoreHigh j h hg, call := none }) (s.cur + 1) j (cellOfHead lo))
      H S' hmid R (Or.inl ⟨rfl, rfl, hlow⟩) rfl rfl rfl rfl
    refine ⟨G, ⟨Gn', H', Tn', ?_, ?_⟩, .heap hs, .quiet habs⟩
    · refine pinv_T_mid I.gen hl trivial rfl ?_ trivial
      refine ⟨lo, hmid, ?_, ?_⟩
      · show cellAt _ (s.cur + 1) j = _
        exact cellAt_put_self H.shape rfl (H.shape.next_lt R) (by rw [Nat.pow_succ]; omega)
      · show cellAt _ (s.cur + 1) (j + 2 ^ s.cur) = _
        rw [cellAt_put_ne (s := s) (g := s.cur + 1) (j := j) rfl (by intro ⟨_, h2⟩; have := two_pow_pos s.cur; omega)]
        exact hhigh
    · refine winv_frame I.walk rfl ?_ (fun p hp' => by cases hp')
      intro t1 l1 g j' h' n1 h1 hv _
      refine hfr_put (s := s) (s' := putCell (setT (tick s) t { pc := .tStoreHigh j h hg, call := none }) (s.cur + 1) j (cellOfHead lo)) (g0 := s.cur + 1) (j0 := j) (c := cellOfHead lo) rfl rfl ?_
      rintro ⟨rfl, rfl⟩
      exact no_vcell_child I.gen hl trivial hnm (Nat.mod_eq_of_lt hj) t1 l1 h' n1 h1 hv
  | storeHigh j h hg hp hpc =>
    obtain ⟨pc, call⟩ := l
    simp only at hp hpc
    subst hp hpc
    have R := T.tres trivial
    have hj := T.idx j rfl
    obtain ⟨lo, hmid, hlow, hhigh⟩ := I.ph.pcMid t _ hl
    have hv0 : vcell s.cur { pc := Pc.tStoreHigh j h hg, call := none } = some (s.cur, j, h) := rfl
    obtain ⟨hc0, -⟩ := T.valid _ _ _ hv0
    have hnm : cellAt s s.cur j ≠ .moved := by rw [hc0]; simp
    obtain ⟨H', hs, habs⟩ := storeNew_effect (s' := putCell (setT (tick s) t { pc := .tStoreMoved j h, call := none }) (s.cur + 1) (j + 2 ^ s.cur) (cellOfHead hg))
      H S' hmid R (Or.inr ⟨rfl, rfl, hhigh⟩) rfl rfl rfl rfl
    refine ⟨G, ⟨Gn', H', Tn', ?_, ?_⟩, .heap hs, .quiet habs⟩
    · refine pinv_T_mid I.gen hl trivial rfl ?_ trivial
      refine ⟨lo, hg, hmid, ?_, ?_⟩
      · show cellAt _ (s.cur + 1) j = _
        rw [cellAt_put_ne (s := s) (g := s.cur + 1) (j := j + 2 ^ s.cur) rfl (by intro ⟨_, h2⟩; have := two_pow_pos s.cur; omega)]
        exact hlow
      · show cellAt _ (s.cur + 1) (j + 2 ^ s.cur) = _
        exact cellAt_put_self H.shape rfl (H.shape.next_lt R) (by rw [Nat.pow_succ]; omega)
    · refine winv_frame I.walk rfl ?_ (fun p hp' => by cases hp')
      intro t1 l1 g j' h' n1 h1 hv _
      refine hfr_put (s := s) (s' := putCell (setT (tick s) t { pc := .tStoreMoved j h, call := none }) (s.cur + 1) (j + 2 ^ s.cur) (cellOfHead hg)) (g0 := s.cur + 1) (j0 := j + 2 ^ s.cur) (c := cellOfHead hg) rfl rfl ?_
      rintro ⟨rfl, rfl⟩
      exact no_vcell_child I.gen hl trivial hnm (high_mod j s.cur hj) t1 l1 h' n1 h1 hv
  | storeMoved j h hp hpc =>
    obtain ⟨pc, call⟩ := l
    simp only at hp hpc
    subst hp hpc
    have R := T.tres trivial
    have hj := T.idx j rfl
    obtain ⟨lo, hg, hmid, hlow, hhigh⟩ := I.ph.pcMid t _ hl
    have hv0 : vcell s.cur { pc := Pc.tStoreMoved j h, call := none } = some (s.cur, j, h) := rfl
    obtain ⟨H', habs⟩ := moved_effect (s' := putCell (setT (tick s) t { pc := .tUnlock j h, call := none }) s.cur j .moved)
      H S' hmid hlow hhigh rfl rfl rfl rfl
    obtain ⟨-, sL, sH⟩ := mid_chains H hmid hlow hhigh
    refine ⟨{ G with mid := none }, ⟨Gn', H', Tn', pinv_T_none (l' := { pc := .tUnlock j h, call := none }) I.gen hl trivial rfl (fun h => h) rfl, ?_⟩,
      ?_, .quiet habs⟩
    · refine winv_frame (l' := { pc := .tUnlock j h, call := none }) I.walk rfl ?_ (fun p hp' => by cases hp')
      intro t1 l1 g j' h' n1 h1 hv _
      refine hfr_put (s := s) (s' := putCell (setT (tick s) t { pc := .tUnlock j h, call := none }) s.cur j .moved) (g0 := s.cur) (j0 := j) (c := .moved) rfl rfl ?_
      rintro ⟨rfl, rfl⟩
      exact no_vcell_of_mutex I.gen hl hv0 t1 l1 h' n1 h1 hv
    · refine .moved j lo hg hmid rfl rfl rfl rfl ?_ ?_ ?_
      · exact cellAt_put_self H.shape rfl H.shape.cur_lt hj
      · intro id hne
        exact getCell_put_ne (s := s) rfl hne
      · intro b
        cases b
        · exact sL
        · exact sH
  | commit hp hpc =>
    obtain ⟨pc, call⟩ := l
    simp only at hp hpc
    subst hp hpc
    have R := T.tres trivial
    have hmid := I.mid_none hl trivial (fun h => h)
    have hall := T.commit rfl
    obtain ⟨H', hs, habs⟩ := commit_effect (s' := { (setT (tick s) t { pc := .idle, call := none }) with cur := s.cur + 1, resizing := false })
      H S' hmid hall rfl rfl rfl rfl R
    refine ⟨G, ⟨Gn', H', Tn', pinv_T_none (l' := { pc := .idle, call := none }) I.gen hl trivial rfl (fun h => h) hmid, ?_⟩,
      .heap hs, .quiet habs⟩
    refine winv_frame (l' := { pc := .idle, call := none }) I.walk rfl ?_ (fun p hp' => by cases hp')
    intro t1 l1 g j' h' _ _ _ _
    exact ⟨rfl, rfl, fun i _ => ⟨rfl, rfl⟩⟩

end Flurry.Proto.BinN
