import Flurry.Lemmas.BinGLin
/-! # Proto/BinG at quiescence: what an iterator yields is what lookups find (C05)

`liveCells s`: the cells a lookup that starts now can end in (`[cell0]` until the forwarding marker is
stored, `[lowCell, highCell]` afterwards). `entries s`: the (key, value) pairs of the nodes on the lists
of the live cells, in list order — what an iterator that starts now and runs alone yields (for a tree
bin the iterator walks the `first` / `next` list, `chainOfBin`).

From the structural invariant `Inv` (`Lemmas/BinGInv.lean`):
* `entries_keys_nodup`, `mem_entries_iff_absOf`, `entries_own_cell`: no key twice (across both live
  cells), iteration = lookup, every entry in the cell its key selects — in EVERY reachable state (these
  are facts about the lists; quiescence is what makes `absOf` the value lookups *return*, by
  `binG_linearizable_quiescent`);
* `quiescent_node_unlocked`, `quiescent_bin_unlocked`: at quiescence no lock word, mutex, write lock,
  waiter bit or read lock is held;
* `entries_linearized`: at quiescence the history of a yielded key linearizes to "present with the
  yielded value", that of any other key to "absent".
The all-or-nothing statement about the resize is in `Lemmas/BinGCommit.lean` (a new invariant). -/
namespace Flurry.Proto.BinG
open Flurry.Lin
open Flurry.Proto.BinK (nodeAt binAt CInv absL chainOf get_set get_set_ne)

/-! ## definitions -/

/-- the cells a lookup that starts now can end in -/
def liveCells (s : State) : List Cell :=
  if s.cell0 = .moved then [s.lowCell, s.highCell] else [s.cell0]

/-- the (key, value) pairs on the list of the structure in cell `c`, in list order -/
def entriesOfCell (s : State) (c : Cell) : List (Nat × (Nat × Nat)) :=
  (chainOfCell s c).map fun i => ((s.heap.getD i dflt).key, (s.heap.getD i dflt).val)

/-- what an iterator that starts now and runs alone yields: the entries of the live cells -/
def entries (s : State) : List (Nat × (Nat × Nat)) := (liveCells s).flatMap (entriesOfCell s)

theorem mem_entriesOfCell {s : State} {c : Cell} {k : Nat} {v : Nat × Nat} :
    (k, v) ∈ entriesOfCell s c ↔ ∃ i ∈ chainC s c, (nodeAt s.heap i).key = k ∧ (nodeAt s.heap i).val = v := by
  unfold entriesOfCell
  rw [chainOfCell_eq, List.mem_map]
  constructor
  · rintro ⟨i, hi, he⟩
    simp only [Prod.mk.injEq] at he
    exact ⟨i, hi, he.1, he.2⟩
  · rintro ⟨i, hi, hk, hv⟩
    exact ⟨i, hi, by simp only [Prod.mk.injEq]; exact ⟨hk, hv⟩⟩

theorem entriesOfCell_keys (s : State) (c : Cell) :
    (entriesOfCell s c).map (·.1) = (chainC s c).map fun i => (nodeAt s.heap i).key := by
  unfold entriesOfCell
  rw [chainOfCell_eq, List.map_map]
  rfl

theorem entries_not_moved {s : State} (h : s.cell0 ≠ .moved) : entries s = entriesOfCell s s.cell0 := by
  unfold entries liveCells
  rw [if_neg h]
  simp

theorem entries_moved {s : State} (h : s.cell0 = .moved) :
    entries s = entriesOfCell s s.lowCell ++ entriesOfCell s s.highCell := by
  unfold entries liveCells
  rw [if_pos h]
  simp

/-! ## no key twice -/

/-- the keys on the list of any of the three cells are pairwise distinct -/
theorem cell_keys_nodup {s : State} (H : HInv s) (id : Cid) :
    ((entriesOfCell s (cellAt s id)).map (·.1)).Nodup := by
  rw [entriesOfCell_keys]
  have C := H.cinv id
  have hnd : (chainC s (cellAt s id)).Nodup := C.nodup
  unfold List.Nodup
  rw [List.pairwise_map]
  refine List.Pairwise.imp_of_mem ?_ hnd
  intro a b ha hb hab hk
  exact hab (C.distinct a b ha hb hk)

/-- an entry of a cell of the next table is on the side of that cell -/
theorem cell_side {s : State} (H : HInv s) {id : Cid} (hid : id ≠ .c0) {k : Nat} {v : Nat × Nat}
    (h : (k, v) ∈ entriesOfCell s (cellAt s id)) : hiBit k = sideOf id := by
  obtain ⟨i, hi, hk, -⟩ := mem_entriesOfCell.1 h
  rw [← hk]
  exact H.side id hid i (Or.inl hi)

theorem entries_keys_nodup {s : State} (H : HInv s) : ((entries s).map (·.1)).Nodup := by
  by_cases hm : s.cell0 = .moved
  · rw [entries_moved hm, List.map_append, List.nodup_append]
    refine ⟨cell_keys_nodup H .lo, cell_keys_nodup H .hi, ?_⟩
    intro a ha b hb hab
    obtain ⟨⟨k, v⟩, hx, rfl⟩ := List.mem_map.1 ha
    obtain ⟨⟨k', v'⟩, hy, rfl⟩ := List.mem_map.1 hb
    have h1 := cell_side H (id := .lo) (by decide) hx
    have h2 := cell_side H (id := .hi) (by decide) hy
    simp only at hab
    subst hab
    rw [h1] at h2
    cases h2
  · rw [entries_not_moved hm]
    exact cell_keys_nodup H .c0

/-- no entry is yielded twice -/
theorem entries_nodup {s : State} (H : HInv s) : (entries s).Nodup := by
  have h := entries_keys_nodup H
  unfold List.Nodup at h ⊢
  rw [List.pairwise_map] at h
  exact h.imp (fun hab e => hab (by rw [e]))

/-! ## every entry is in the cell its key selects -/

theorem entries_own_cell {s : State} (H : HInv s) {k : Nat} {v : Nat × Nat} :
    ((k, v) ∈ entriesOfCell s s.lowCell → hiBit k = false) ∧
    ((k, v) ∈ entriesOfCell s s.highCell → hiBit k = true) :=
  ⟨fun h => cell_side H (id := .lo) (by decide) h, fun h => cell_side H (id := .hi) (by decide) h⟩

/-- an entry is on the list of the cell a lookup of its key ends in -/
theorem entries_in_liveCell {s : State} (H : HInv s) {k : Nat} {v : Nat × Nat} :
    (k, v) ∈ entries s ↔ (k, v) ∈ entriesOfCell s (liveCell s k) := by
  rw [liveCell_eq H]
  unfold liveId
  by_cases hm : s.cell0 = .moved
  · rw [entries_moved hm, if_pos hm, List.mem_append]
    unfold idOf
    dsimp only
    constructor
    · rintro (h | h)
      · rw [if_neg (by rw [(entries_own_cell H).1 h]; decide)]; exact h
      · rw [if_pos ((entries_own_cell H).2 h)]; exact h
    · intro h
      by_cases hb : hiBit k = true
      · rw [if_pos hb] at h; exact Or.inr h
      · rw [if_neg hb] at h; exact Or.inl h
  · rw [entries_not_moved hm, if_neg hm]
    rfl

/-! ## iteration = lookup -/

theorem mem_entries_iff_absOf {s : State} (H : HInv s) (k : Nat) (v : Nat × Nat) :
    (k, v) ∈ entries s ↔ absOf s k = some v := by
  rw [entries_in_liveCell H, mem_entriesOfCell, absOf_eq]
  unfold LC
  have hd : ∀ i j, i ∈ chainC s (liveCell s k) → j ∈ chainC s (liveCell s k) →
      (nodeAt s.heap i).key = (nodeAt s.heap j).key → i = j := by
    rw [liveCell_eq H]
    exact (H.cinv (liveId s k)).distinct
  rw [Flurry.Proto.BinK.absL_eq_some_iff hd]

theorem mem_keys_iff_absOf {s : State} (H : HInv s) (k : Nat) :
    k ∈ (entries s).map (·.1) ↔ absOf s k ≠ none := by
  rw [List.mem_map]
  constructor
  · rintro ⟨⟨k', v⟩, h, rfl⟩
    rw [(mem_entries_iff_absOf H k' v).1 h]
    exact fun e => by cases e
  · intro h
    cases ha : absOf s k with
    | none => exact absurd ha h
    | some v => exact ⟨(k, v), (mem_entries_iff_absOf H k v).2 ha, rfl⟩

/-- the number of entries is the number of keys a lookup finds: any duplicate-free enumeration of
those keys is a permutation of the keys yielded -/
theorem entries_count {s : State} (H : HInv s) {ks : List Nat} (hnd : ks.Nodup)
    (hks : ∀ k, k ∈ ks ↔ absOf s k ≠ none) :
    ks.Perm ((entries s).map (·.1)) ∧ ks.length = (entries s).length := by
  have hp : ks.Perm ((entries s).map (·.1)) := by
    rw [List.perm_ext_iff_of_nodup hnd (entries_keys_nodup H)]
    intro k
    rw [hks, mem_keys_iff_absOf H]
  refine ⟨hp, ?_⟩
  rw [hp.length_eq, List.length_map]

/-! ## nothing is locked at quiescence -/

theorem quiescent_node_unlocked {s : State} (I : Inv s) (hq : quiescent s) (j : Nat) :
    (nodeAt s.heap j).lock = none := by
  cases hlk : (nodeAt s.heap j).lock with
  | none => rfl
  | some x =>
    exfalso
    have hx := I.lock.lkValid j x hlk
    have hlx : s.threads[x]? = some s.threads[x] := List.getElem?_eq_getElem hx
    have := (I.lock.lk x _ j hlx).2 hlk
    rw [hq _ (List.getElem_mem hx)] at this
    cases this

theorem quiescent_mutex_free {s : State} (I : Inv s) (hq : quiescent s) (b : Nat) :
    (binAt s.tbins b).mutex = none := by
  cases hmx : (binAt s.tbins b).mutex with
  | none => rfl
  | some x =>
    exfalso
    have hx := I.lock.mxValid b x hmx
    have hlx : s.threads[x]? = some s.threads[x] := List.getElem?_eq_getElem hx
    have := (I.lock.mx x _ b hlx).2 hmx
    rw [hq _ (List.getElem_mem hx)] at this
    cases this

theorem quiescent_no_readers {s : State} (I : Inv s) (hq : quiescent s) {b : Nat} (hb : b < s.tbins.length) :
    (binAt s.tbins b).readers = 0 := by
  rw [I.lock.rd b hb]
  unfold cnt
  rw [List.length_eq_zero_iff, List.filter_eq_nil_iff]
  intro l hl
  rw [hq l hl]
  simp [holdsRead]

/-- a `TreeBin` that is in a cell is completely unlocked -/
theorem quiescent_bin_unlocked {s : State} (I : Inv s) (hq : quiescent s) {id : Cid} {b : Nat}
    (hc : cellAt s id = .tree b) :
    (binAt s.tbins b).mutex = none ∧ (binAt s.tbins b).writer = false ∧ (binAt s.tbins b).waiter = false ∧
      (binAt s.tbins b).readers = 0 := by
  have hm := quiescent_mutex_free I hq b
  obtain ⟨hw, hwt⟩ := I.lock.bitsNone id b hc hm
  exact ⟨hm, hw, hwt, quiescent_no_readers I hq (I.heap.cellOK id b hc)⟩

/-- a live cell is one of the three cells -/
theorem liveCells_sub {s : State} {c : Cell} (h : c ∈ liveCells s) : ∃ id, c = cellAt s id := by
  unfold liveCells at h
  split at h
  · simp only [List.mem_cons, List.not_mem_nil, or_false] at h
    rcases h with rfl | rfl
    · exact ⟨.lo, rfl⟩
    · exact ⟨.hi, rfl⟩
  · simp only [List.mem_cons, List.not_mem_nil, or_false] at h
    exact ⟨.c0, h⟩

/-- no live cell holds the forwarding marker -/
theorem liveCells_not_moved {s : State} (H : HInv s) {c : Cell} (h : c ∈ liveCells s) : c ≠ .moved := by
  unfold liveCells at h
  split at h
  · simp only [List.mem_cons, List.not_mem_nil, or_false] at h
    rcases h with rfl | rfl
    · exact H.newNotMoved.1
    · exact H.newNotMoved.2
  · simp only [List.mem_cons, List.not_mem_nil, or_false] at h
    subst h
    assumption

/-- at quiescence the history of a yielded key linearizes to "present with the yielded value", that of
any other key to "absent" -/
theorem entries_linearized {n : Nat} {s : State} (hr : Reachable n s) (hq : quiescent s) (k : Nat) :
    (∀ v, (k, v) ∈ entries s → Lin.Linearizable (callsOn s k) none (some v)) ∧
    (k ∉ (entries s).map (·.1) → Lin.Linearizable (callsOn s k) none none) := by
  have H := (reachable_inv hr).heap
  have hlin := binG_linearizable_quiescent_aux hr hq k
  constructor
  · intro v hv
    rw [← (mem_entries_iff_absOf H k v).1 hv]
    exact hlin
  · intro hk
    have : absOf s k = none := by
      cases ha : absOf s k with
      | none => rfl
      | some v => exact absurd ((mem_keys_iff_absOf H k).2 (by rw [ha]; exact fun e => by cases e)) hk
    rw [this] at hlin
    exact hlin

/-- the cell a lookup of `k` ends in is a live cell -/
theorem liveCell_mem_liveCells {s : State} (H : HInv s) (k : Nat) : liveCell s k ∈ liveCells s := by
  rw [liveCell_eq H]
  unfold liveId liveCells idOf
  by_cases hm : s.cell0 = .moved
  · rw [if_pos hm, if_pos hm]
    dsimp only
    split <;> simp [cellAt]
  · rw [if_neg hm, if_neg hm]
    simp [cellAt]

/-- all the locks of the structures in the live cells are free: no node on a live list has its lock word
taken, a `TreeBin` in a live cell has its mutex, write lock, waiter bit and reader count clear -/
theorem quiescent_live_unlocked {s : State} (I : Inv s) (hq : quiescent s) {c : Cell} (hc : c ∈ liveCells s) :
    (∀ j ∈ chainOfCell s c, (nodeAt s.heap j).lock = none) ∧
    ∀ b, c = .tree b → (binAt s.tbins b).mutex = none ∧ (binAt s.tbins b).writer = false ∧
      (binAt s.tbins b).waiter = false ∧ (binAt s.tbins b).readers = 0 := by
  refine ⟨fun j _ => quiescent_node_unlocked I hq j, ?_⟩
  intro b hb
  obtain ⟨id, hid⟩ := liveCells_sub hc
  exact quiescent_bin_unlocked I hq (id := id) (by rw [← hid, hb])

end Flurry.Proto.BinG
