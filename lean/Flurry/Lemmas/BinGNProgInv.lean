import Flurry.Lemmas.BinGNPLin
/-! # Proto/BinGN, progress (port of the `Lemmas/BinGProg*.lean` file of the same name): what a program counter needs for its step to be *defined*

`stepG` returns `none` (not enabled) in three kinds of situations:
1. a lock is taken (`wLock`, `kLock`, `xLock`: the lock word of the head node; `tMutex`, `yMutex`: the
   mutex of the `TreeBin`; `lrLoop`: parked with `WAITER` set while readers remain) — real waiting;
2. a heap index held in the program counter is outside the heap, the call does not fit the program
   counter (`tFind` by a reader, `tPrependLocked` by a call that does not insert), or there is no call
   although the program counter needs one — *never the case in a reachable state*.
The structural invariant `Inv` (`Lemmas/BinGInv.lean`) excludes most of (2); the rest is `BInv` below:
the indices in `rRelease (some i)`, `rVal i`, `wLock h`, `kLock h`, `xLock h`, `wFind … (some c)` are
inside the heap, and a writer on the insert path (`lrTry … .insert`, `lrLoop … .insert`,
`tPrependLocked`) carries an inserting call. -/
namespace Flurry.Proto.BinGNP
open Flurry.Lin
open Flurry.Proto.BinK (nodeAt binAt lockSet isInsert NextOK get_set get_set_self get_set_ne)

/-- the heap indices of the program counter are below `n`; the insert path carries an inserting call -/
def PB (n : Nat) (l : Local) : Prop :=
  match l.pc with
  | .rRelease _ (some i) => i < n
  | .rVal i => i < n
  | .wLock _ h => h < n
  | .kLock _ _ h => h < n
  | .xLock _ h => h < n
  | .wFind _ _ _ (some c) => c < n
  | .lrTry _ _ .insert _ => ∃ p, l.call = some p ∧ isInsert p.op = true
  | .lrLoop _ _ .insert _ => ∃ p, l.call = some p ∧ isInsert p.op = true
  | .tPrependLocked _ _ => ∃ p, l.call = some p ∧ isInsert p.op = true
  | _ => True

theorem PB.mono {n m : Nat} (h : n ≤ m) {l : Local} (hb : PB n l) : PB m l := by
  unfold PB at *
  split <;> simp_all <;> omega

/-- the auxiliary invariant of the progress proofs -/
def BInv (s : State) : Prop := ∀ (t : Nat) (l : Local), s.threads[t]? = some l → PB s.heap.length l

theorem binv_step {s s' : State} {t : Nat} {l' : Local} (B : BInv s)
    (hthr : s'.threads = s.threads.set t l') (hlen : s.heap.length ≤ s'.heap.length)
    (hb : PB s.heap.length l') : BInv s' := by
  intro t1 l1 h1
  rw [hthr] at h1
  rcases get_set h1 with ⟨_, rfl⟩ | ⟨_, h1⟩
  · exact hb.mono hlen
  · exact (B t1 l1 h1).mono hlen

theorem cellOf_list_lt {s : State} (H : HInv s) {tab : Nat} {k h : Nat} (hc : cellOf s tab k = .list h) :
    h < s.heap.length := by
  rw [cellOf_eq] at hc
  exact (H.cinv (idOf tab k)).startOK h (by rw [hc]; rfl)

theorem cellAt_list_lt {s : State} (H : HInv s) {id : Cid} {h : Nat} (hc : cellAt s id = .list h) : h < s.heap.length :=
  (H.cinv id).startOK h (by rw [hc]; rfl)

theorem Move.pb {s : State} {t : Nat} {p : Pending} {pc pc' : Pc} {hp' : List NodeS} {call : Option Pending}
    (hm : Move s t p pc pc' hp') (I : Inv s) (hp : call = some p) (hb : PB s.heap.length ⟨pc, call⟩) :
    PB s.heap.length ⟨pc', call⟩ := by
  cases hm with
  | @rCellTree lo tab b _ => cases lo <;> trivial
  | @rTree b =>
    cases hf : treeFind s b p.key with
    | none => simp only [PB]
    | some i => simp only [PB]; exact (treeFind_some hf).1
  | rLinHit hn _ _ => exact (List.getElem?_eq_some_iff.1 hn).1
  | lHit hn _ _ => exact (List.getElem?_eq_some_iff.1 hn).1
  | wCellList hc => exact cellOf_list_lt I.heap hc
  | wCheckOk hc => exact cellOf_list_lt I.heap hc
  | @wFindNext tab h pred c n hn _ =>
    cases hx : n.next with
    | none => simp only [PB]
    | some j => simp only [PB]; exact (I.heap.nextOK c n j hn hx).1
  | findInsert _ hi => exact ⟨p, hp, hi⟩
  | @lrTryFail tab b k res => cases k <;> first | trivial | exact hb
  | _ => trivial

theorem BMove.pb {s : State} {t : Nat} {p : Pending} {pc pc' : Pc} {tb : List TBin} {call : Option Pending}
    (hm : BMove s t p pc pc' tb) (hb : PB s.heap.length ⟨pc, call⟩) :
    PB s.heap.length ⟨pc', call⟩ := by
  cases hm with
  | rRelVal _ => exact hb
  | @lrTryOk tab b k res _ _ _ => cases k <;> first | trivial | exact hb
  | @lrLoopOk tab b k res _ _ => cases k <;> first | trivial | exact hb
  | @lrLoopWait tab b k res _ => exact hb
  | _ => trivial

theorem KMove.pb {s : State} {t : Nat} {pc pc' : Pc} {hp' : List NodeS} {call : Option Pending}
    (hm : KMove s t pc pc' hp') (I : Inv s) : PB s.heap.length ⟨pc', call⟩ := by
  cases hm with
  | kCellList hc => exact cellOf_list_lt I.heap hc
  | xCellList hc => exact cellAt_list_lt I.heap hc
  | _ => trivial

theorem KBMove.pb {s : State} {t : Nat} {pc pc' : Pc} {tb : List TBin} {call : Option Pending}
    (hm : KBMove s t pc pc' tb) : PB s.heap.length ⟨pc', call⟩ := by
  cases hm <;> trivial

theorem stepN_binv {s s' : State} {t : Nat} {l : Local} (I : Inv s) (B : BInv s) (hl : s.threads[t]? = some l)
    (hlen : s.heap.length ≤ s'.heap.length) (hk : StepN s t l s') : BInv s' := by
  have hbl := B t l hl
  obtain ⟨pc, call⟩ := l
  cases hk with
  | idle hpc => exact binv_step (l' := ⟨pc, call⟩) B rfl hlen hbl
  | maint k hpc => exact binv_step (l' := ⟨.kTable k, call⟩) B rfl hlen trivial
  | resizeStart hpc hr => exact binv_step (l' := ⟨.xNext, call⟩) B rfl hlen trivial
  | invoke k op lo hpc =>
    refine binv_step (l' := ⟨if isReader op then .rTable lo else .wTable, some ⟨k, op, s.now + 1⟩⟩) B rfl hlen ?_
    cases isReader op <;> trivial
  | move p pc' hp hc hm => exact binv_step (l' := ⟨pc', call⟩) B rfl hlen (hm.pb I hc hbl)
  | bmove p pc' tb hc hm => exact binv_step (l' := ⟨pc', call⟩) B rfl hlen (hm.pb hbl)
  | kmove pc' hp hc hm => exact binv_step (l' := ⟨pc', call⟩) B rfl hlen (hm.pb I)
  | kbmove pc' tb hc hm => exact binv_step (l' := ⟨pc', call⟩) B rfl hlen hm.pb
  | fin p res hp hc hf => exact binv_step (l' := ⟨.idle, none⟩) B rfl hlen trivial
  | bfin p res tb hc hf => exact binv_step (l' := ⟨.idle, none⟩) B rfl hlen trivial
  | cas p tab v vi hc hpc he hop =>
    refine binv_step (t := t) (l' := ⟨.idle, none⟩) B ?_ hlen trivial
    show (setCell _ tab p.key _).threads.set t _ = _
    rw [setCell_threads]; rfl
  | store p tab h pred hit hnext hc hpc =>
    refine binv_step (t := t) (l' := ⟨.wUnlock tab h (storeAt (tick s) tab p pred hit hnext).2 false, call⟩) B ?_ hlen trivial
    show (storeAt (tick s) tab p pred hit hnext).1.threads.set t _ = _
    rw [(storeAt_frame (tick s) tab p pred hit hnext).1]; rfl
  | tval p tab b i v res hc hpc => exact binv_step (l' := ⟨.tUnlockM tab b res false, call⟩) B rfl hlen trivial
  | prepend p tab b v vi hc hpc hop =>
    exact binv_step (l' := ⟨.tTreeLinkLocked tab b s.heap.length, call⟩) B rfl hlen trivial
  | treeLink p tab b x hc hpc => exact binv_step (l' := ⟨.tUnlockRoot tab b .none, call⟩) B rfl hlen trivial
  | unlink p tab b i res small hc hpc =>
    refine binv_step (t := t) (l' := ⟨if small then .tUntreeify tab b res else .tRestructure tab b i res, call⟩)
      B ?_ hlen (by cases small <;> trivial)
    show (unlinkOf (tick s) b i).threads.set t _ = _
    rw [(unlinkOf_frame (tick s) b i).1]; rfl
  | untree p tab b i res hc hpc => exact binv_step (l' := ⟨.tUnlockRoot tab b res, call⟩) B rfl hlen trivial
  | untreeify p tab b res hc hpc =>
    refine binv_step (t := t) (l' := ⟨.tUnlockM tab b res false, call⟩) B ?_ hlen trivial
    show (untreeifyOf (tick s) tab p.key b).threads.set t _ = _
    rw [(untreeifyOf_frame (tick s) tab p.key b).1]; rfl
  | kbuild tab k h hc hpc => exact binv_step (l' := ⟨.kStore tab k h s.tbins.length, call⟩) B rfl hlen trivial
  | kstore tab k h b hc hpc =>
    refine binv_step (t := t) (l' := ⟨.kUnlock h, call⟩) B ?_ hlen trivial
    show (setCell (tick s) tab k _).threads.set t _ = _
    rw [setCell_threads]; rfl
  | xcasMoved j hc hpc h0 =>
    refine binv_step (t := t) (l' := ⟨.xNext, call⟩) B ?_ hlen trivial
    show (putCell _ _ _ _).threads = _
    rfl
  | xbuild j h hc hpc =>
    exact binv_step (l' := ⟨.xStoreLow j (.inl h) (xsplitOf s h).2.1 (xsplitOf s h).2.2, call⟩) B rfl hlen trivial
  | ybuild j b small small2 hc hpc =>
    refine binv_step (t := t) (l' := ⟨.xStoreLow j (.inr b) (ysplitOf (tick s) b small small2).2.1
      (ysplitOf (tick s) b small small2).2.2, call⟩) B ?_ hlen trivial
    show (ysplitOf (tick s) b small small2).1.threads.set t _ = _
    rw [(ysplitOf_frame (tick s) b small small2).1]; rfl
  | xstoreLow j unl lo hi hc hpc => exact binv_step (t := t) (l' := ⟨.xStoreHigh j unl hi, call⟩) B (by show (putCell _ _ _ _).threads = _; rfl) hlen trivial
  | xstoreHigh j unl hi hc hpc => exact binv_step (t := t) (l' := ⟨.xStoreMoved j unl, call⟩) B (by show (putCell _ _ _ _).threads = _; rfl) hlen trivial
  | xstoreMoved j unl hc hpc => exact binv_step (t := t) (l' := ⟨.xUnlock unl, call⟩) B (by show (putCell _ _ _ _).threads = _; rfl) hlen trivial
  | xcommit hc hpc => exact binv_step (l' := ⟨.idle, call⟩) B rfl hlen trivial

theorem init_binv (n : Nat) : BInv (init n) := by
  intro t l hl
  rw [init_threads hl]
  trivial

theorem reachable_binv {n : Nat} {s : State} (hr : Reachable n s) : BInv s := by
  induction hr with
  | init => exact init_binv n
  | @step s s' t inv lo mt rz sm sm2 pick hr hs ih =>
    have I := reachable_inv hr
    have F := Flurry.Proto.BinGN.reachable_freshInv hr
    have E := step_eff I (pubRead_of I F) (planSep_of I F) hs
      (reachable_xshape (Flurry.Proto.BinGN.Reachable.step t inv lo mt rz sm sm2 pick hr hs))
    cases hl : s.threads[t]? with
    | none => unfold step stepG at hs; rw [hl] at hs; cases hs
    | some l => exact stepN_binv I ih hl (E.kstep 0).len (step_stepN hl hs)

end Flurry.Proto.BinGNP
