import Flurry.Lemmas.BinRProj
/-! # Proto/BinW: the transitions in normal form (C01)

(C13 port of `Flurry/Lemmas/BinWStep.lean` to the per-key operations of `Flurry/Lin2.lean`, i.e. with `retain`'s conditional removal `condRm`; below, "`Proto/Bin`" / `Base.` is `Flurry.Proto.BinR.Base` (`Proto/BinRBase.lean`) and "`Proto/BinW`" is `Flurry.Proto.BinR` (`Proto/BinR.lean`), which in addition has the `retain` visit steps.)

`StepW s t l s'` lists the transitions of `BinW.step` with explicit successor states. The
transitions that `Proto/Bin` also has are phrased through `Base.Move` / `Base.LockMove` / `Base.Fin`
on the projected state; the new ones are the three walk steps and the store through the
remembered positions. `step_stepW` dissects `step` once and for all. -/
namespace Flurry.Proto.BinR
open Flurry.Lin2

theorem tick_def (s : State) : ({ s with now := s.now + 1 } : State) = tick s := rfl

theorem proj_setT_tick (s : State) (t : Nat) (l : Local) :
    proj (setT (tick s) t l) = Base.setT (Base.tick (proj s)) t (cL l) := proj_setT _ _ _

theorem proj_finish_tick (s : State) (t : Nat) (p : Pending) (res : KRes) :
    proj (finish (tick s) t p res) = Base.finish (Base.tick (proj s)) t (cP p) res := proj_finish _ _ _ _

/-- the thread is walking the list or about to store through remembered positions -/
def walkPc : Pc → Prop
  | .wFind _ _ _ => True
  | .wStore _ _ _ _ => True
  | _ => False

theorem walkPc_iff {pc : Pc} : walkPc pc ↔ ∃ h, cPc pc = .wWrite h := by
  cases pc <;> simp [walkPc, cPc]

inductive StepW (s : State) (t : Nat) (l : Local) : State → Prop
  | idle : l.pc = .idle → StepW s t l (tick s)
  | invoke (k : Nat) (op : KOp2) : l.pc = .idle →
      StepW s t l (setT (tick s) t
        { pc := if isReader op then .rHead else .wHead, call := some ⟨k, op, s.now + 1⟩ })
  | move (p : Pending) (pc' : Pc) : l.call = some p → Base.Move (proj s) (cP p) (cPc l.pc) (cPc pc') →
      ¬ walkPc l.pc → (walkPc pc' → ∃ h, l.pc = .wCheck h ∧ pc' = .wFind h none (some h)) →
      StepW s t l (setT (tick s) t { l with pc := pc' })
  | lockMove (p : Pending) (h : Nat) (x : Option Nat) (pc' : Pc) : l.call = some p →
      Base.LockMove (proj s) t (cPc l.pc) h x (cPc pc') → ¬ walkPc l.pc → ¬ walkPc pc' →
      StepW s t l (setT (setNode (tick s) h (fun m => { m with lock := x })) t { l with pc := pc' })
  | fin (p : Pending) (res : KRes) : l.call = some p → Base.Fin (proj s) (cP p) (cPc l.pc) res →
      StepW s t l (finish (tick s) t p res)
  | cas (p : Pending) (v vi : Nat) : l.call = some p → l.pc = .wCas → s.head = none →
      (p.op = .ins v vi ∨ p.op = .tryIns v vi) →
      StepW s t l (finish { tick s with heap := s.heap ++ [⟨p.key, (v, vi), none, none⟩],
                                        head := some s.heap.length } t p .none)
  | walkEnd (p : Pending) (h : Nat) (pred : Option Nat) : l.call = some p → l.pc = .wFind h pred none →
      StepW s t l (setT (tick s) t { l with pc := .wStore h pred none none })
  | walkHit (p : Pending) (h : Nat) (pred : Option Nat) (c : Nat) (n : NodeS) : l.call = some p →
      l.pc = .wFind h pred (some c) → s.heap[c]? = some n → n.key = p.key →
      StepW s t l (setT (tick s) t { l with pc := .wStore h pred (some c) n.next })
  | walkNext (p : Pending) (h : Nat) (pred : Option Nat) (c : Nat) (n : NodeS) : l.call = some p →
      l.pc = .wFind h pred (some c) → s.heap[c]? = some n → n.key ≠ p.key →
      StepW s t l (setT (tick s) t { l with pc := .wFind h (some c) n.next })
  | store (p : Pending) (h : Nat) (pred hit hnext : Option Nat) : l.call = some p →
      l.pc = .wStore h pred hit hnext →
      StepW s t l (setT (storeAt (tick s) p pred hit hnext).1 t
        { l with pc := .wUnlock h (storeAt (tick s) p pred hit hnext).2 false })
  | unlockFin (p : Pending) (h : Nat) (res : KRes) : l.call = some p → l.pc = .wUnlock h res false →
      StepW s t l (finish (setNode (tick s) h (fun m => { m with lock := none })) t p res)
  /-- a step of the first half of a `retain` visit (no call in flight; invisible on the projection) -/
  | visitMove (pc' : Pc) : cPc l.pc = .idle → cPc pc' = .idle →
      StepW s t l (setT (tick s) t { l with pc := pc' })
  /-- the predicate said "drop": the visit becomes the call `condRm vi` of the id it loaded -/
  | visitDrop (k vi : Nat) : l.pc = .vLoaded k vi →
      StepW s t l (setT (tick s) t { pc := .wHead, call := some ⟨k, .condRm vi, s.now + 1⟩ })

theorem step_stepW {s s' : State} {t : Nat} {l : Local} {inv : Option Inv}
    (hl : s.threads[t]? = some l) (hs : step s t inv = some s') : StepW s t l s' := by
  unfold step stepG at hs
  rw [hl] at hs
  obtain ⟨pc, call⟩ := l
  simp only [tick_def] at hs
  cases pc with
  | idle =>
    cases inv with
    | none =>
      simp only [Option.some.injEq] at hs
      subst hs
      exact .idle rfl
    | some ko =>
      cases ko with
      | call k op =>
        simp only [Option.some.injEq] at hs
        subst hs
        exact .invoke k op rfl
      | visit k =>
        simp only [Option.some.injEq] at hs
        subst hs
        exact .visitMove (.vHead k) rfl rfl
      | drop =>
        simp only [Option.some.injEq] at hs
        subst hs
        exact .idle rfl
  | vHead k =>
    simp only [Option.some.injEq] at hs
    subst hs
    exact .visitMove _ rfl rfl
  | vNode k cur =>
    cases cur with
    | none =>
      simp only [Option.some.injEq] at hs
      subst hs
      exact .visitMove _ rfl rfl
    | some c =>
      simp only at hs
      cases hn : s.heap[c]? with
      | none => rw [hn] at hs; simp at hs
      | some n =>
        rw [hn] at hs
        simp only at hs
        split at hs
        · simp only [Option.some.injEq] at hs
          subst hs
          exact .visitMove _ rfl rfl
        · simp only [Option.some.injEq] at hs
          subst hs
          exact .visitMove _ rfl rfl
  | vLoaded k vi =>
    cases inv with
    | none =>
      simp only [Option.some.injEq] at hs
      subst hs
      exact .visitMove _ rfl rfl
    | some ko =>
      cases ko with
      | call k' op =>
        simp only [Option.some.injEq] at hs
        subst hs
        exact .visitMove _ rfl rfl
      | visit k' =>
        simp only [Option.some.injEq] at hs
        subst hs
        exact .visitMove _ rfl rfl
      | drop =>
        simp only [Option.some.injEq] at hs
        subst hs
        exact .visitDrop k vi rfl
  | rHead =>
    cases call with
    | none => simp at hs
    | some p =>
      simp only [Option.some.injEq] at hs
      subst hs
      exact StepW.move p (.rNode s.head) rfl (by exact .rHead) (fun h => h) (fun h => h.elim)
  | rNode cur =>
    cases call with
    | none => simp at hs
    | some p =>
      cases cur with
      | none =>
        simp only [Option.some.injEq] at hs
        subst hs
        exact StepW.fin p _ rfl (by exact .miss)
      | some c =>
        simp only at hs
        cases hn : s.heap[c]? with
        | none => rw [hn] at hs; simp at hs
        | some n =>
          have hn' : (proj s).heap[c]? = some (cN n) := by rw [proj_node, hn]; rfl
          rw [hn] at hs
          simp only at hs
          by_cases hk : n.key = p.key
          · rw [if_pos (by simpa using hk)] at hs
            simp only [Option.some.injEq] at hs
            subst hs
            exact StepW.fin p _ rfl (by exact (.hit hn' hk))
          · rw [if_neg (by simpa using hk)] at hs
            simp only [Option.some.injEq] at hs
            subst hs
            exact StepW.move p (.rNode n.next) rfl (by exact (.rNext hn' hk)) (fun h => h) (fun h => h.elim)
  | wHead =>
    cases call with
    | none => simp at hs
    | some p =>
      simp only at hs
      split at hs
      · rename_i hh
        split at hs
        · simp only [Option.some.injEq] at hs; subst hs
          exact StepW.move p .wCas rfl (by exact (.toCas hh)) (fun h => h) (fun h => h.elim)
        · simp only [Option.some.injEq] at hs; subst hs
          exact StepW.move p .wCas rfl (by exact (.toCas hh)) (fun h => h) (fun h => h.elim)
        · rename_i h1 h2
          simp only [Option.some.injEq] at hs; subst hs
          exact StepW.fin p _ rfl (by exact (.emptyBin hh (fun v vi => ⟨h1 v vi, h2 v vi⟩)))
      · rename_i h hh
        simp only [Option.some.injEq] at hs
        subst hs
        exact StepW.move p (.wLock h) rfl (by exact (.toLock hh)) (fun h => h) (fun h => h.elim)
  | wCas =>
    cases call with
    | none => simp at hs
    | some p =>
      simp only at hs
      split at hs
      · rename_i v vi hh hop
        simp only [Option.some.injEq] at hs; subst hs
        exact .cas p v vi rfl rfl hh (Or.inl hop)
      · rename_i v vi hh hop
        simp only [Option.some.injEq] at hs; subst hs
        exact .cas p v vi rfl rfl hh (Or.inr hop)
      · simp only [Option.some.injEq] at hs; subst hs
        exact StepW.move p .wHead rfl (by exact .casFail) (fun h => h) (fun h => h.elim)
  | wLock h =>
    cases call with
    | none => simp at hs
    | some p =>
      simp only at hs
      cases hn : s.heap[h]? with
      | none => rw [hn] at hs; simp at hs
      | some n =>
        have hn' : (proj s).heap[h]? = some (cN n) := by rw [proj_node, hn]; rfl
        rw [hn] at hs
        simp only at hs
        cases hlk : n.lock with
        | some x => rw [hlk] at hs; simp at hs
        | none =>
          rw [hlk] at hs
          simp only [Option.isSome_none, Bool.false_eq_true, if_false, Option.some.injEq] at hs
          subst hs
          exact StepW.lockMove p h (some t) (.wCheck h) rfl (by exact (.lock hn' hlk)) (fun h => h) (fun h => h)
  | wCheck h =>
    cases call with
    | none => simp at hs
    | some p =>
      simp only [Bool.not_true, Bool.false_or] at hs
      by_cases hh : s.head = some h
      · rw [if_pos (by simpa using hh)] at hs
        simp only [Option.some.injEq] at hs
        subst hs
        exact StepW.move p (.wFind h none (some h)) rfl (by exact (.checkOk hh)) (fun h => h)
          (fun _ => ⟨h, rfl, rfl⟩)
      · rw [if_neg (by simpa using hh)] at hs
        simp only [Option.some.injEq] at hs
        subst hs
        exact StepW.move p (.wUnlock h .none true) rfl (by exact .checkFail) (fun h => h) (fun h => h.elim)
  | wFind h pred cur =>
    cases call with
    | none => simp at hs
    | some p =>
      cases cur with
      | none =>
        simp only [Option.some.injEq] at hs
        subst hs
        exact .walkEnd p h pred rfl rfl
      | some c =>
        simp only at hs
        cases hn : s.heap[c]? with
        | none => rw [hn] at hs; simp at hs
        | some n =>
          rw [hn] at hs
          simp only at hs
          by_cases hk : n.key = p.key
          · rw [if_pos (by simpa using hk)] at hs
            simp only [Option.some.injEq] at hs
            subst hs
            exact .walkHit p h pred c n rfl rfl hn hk
          · rw [if_neg (by simpa using hk)] at hs
            simp only [Option.some.injEq] at hs
            subst hs
            exact .walkNext p h pred c n rfl rfl hn hk
  | wStore h pred hit hnext =>
    cases call with
    | none => simp at hs
    | some p =>
      simp only [Option.some.injEq] at hs
      subst hs
      exact .store p h pred hit hnext rfl rfl
  | wUnlock h res retry =>
    cases call with
    | none => simp at hs
    | some p =>
      simp only at hs
      cases retry with
      | true =>
        simp only [if_true, Option.some.injEq] at hs
        subst hs
        exact StepW.lockMove p h none .wHead rfl (by exact .unlockRetry) (fun h => h) (fun h => h)
      | false =>
        simp only [Bool.false_eq_true, if_false, Option.some.injEq] at hs
        subst hs
        exact .unlockFin p h res rfl rfl

end Flurry.Proto.BinR
