import Flurry.Lemmas.BinRMain
/-! # Proto/BinR: the store of a `condRm` writer, and the first half of a `retain` visit (C13)

`condRm_store`: in a reachable state, the single store of a writer executing `condRm vi` happens
under the validated bin lock, the node it remembered (`hit`) is the node of its key on the live
chain, and the store unlinks it iff that node's current value id is `vi`; otherwise the state is
left as it is. `visit_*`: the steps of the first half of a `retain` visit, read off `step`. -/
namespace Flurry.Proto.BinR
open Flurry.Lin2

theorem storeAt_condRm_res (s : State) {p : Pending} {vi : Nat} (hop : p.op = .condRm vi)
    (pred hit hnext : Option Nat) : (storeAt s p pred hit hnext).2 = .none := by
  unfold storeAt
  simp only [hop]
  cases hit with
  | none => rfl
  | some i =>
    simp only
    split <;> rfl

theorem storeAt_condRm_none (s : State) {p : Pending} {vi : Nat} (hop : p.op = .condRm vi)
    (pred hnext : Option Nat) : (storeAt s p pred none hnext).1 = s := by
  unfold storeAt
  simp only [hop]

theorem storeAt_condRm_other (s : State) {p : Pending} {vi i : Nat} (hop : p.op = .condRm vi)
    (pred hnext : Option Nat) (hv : (s.heap.getD i ⟨0, (0, 0), none, none⟩).val.2 ≠ vi) :
    (storeAt s p pred (some i) hnext).1 = s := by
  unfold storeAt
  simp only [hop, if_neg hv]

/-- what the single store of a `condRm vi` writer does, in a reachable state -/
theorem condRm_store {n : Nat} {s : State} (hr : Reachable n s) {t : Nat} {l : Local} {p : Pending}
    {h : Nat} {pred hit hnext : Option Nat} {vi : Nat}
    (hl : s.threads[t]? = some l) (hpc : l.pc = .wStore h pred hit hnext) (hc : l.call = some p)
    (hop : p.op = .condRm vi) :
    (s.head = some h ∧ (s.heap.getD h ⟨0, (0, 0), none, none⟩).lock = some t) ∧
    (chain s).find? (fun i => (s.heap.getD i ⟨0, (0, 0), none, none⟩).key == p.key) = hit ∧
    (storeAt s p pred hit hnext).2 = .none ∧
    (match hit with
      | some i =>
        if (s.heap.getD i ⟨0, (0, 0), none, none⟩).val.2 = vi then
          absOf s p.key = some (s.heap.getD i ⟨0, (0, 0), none, none⟩).val ∧
          absOf (storeAt s p pred hit hnext).1 p.key = none
        else (storeAt s p pred hit hnext).1 = s
      | none => (storeAt s p pred hit hnext).1 = s) ∧
    ∀ k, k ≠ p.key → absOf (storeAt s p pred hit hnext).1 k = absOf s k := by
  have W := reachable_winv hr
  have H := W.inv.heap
  have w := W.walk t l p hl hc
  rw [hpc] at w
  have hfind := (w.1.positions H (fun i hi => (w.2 i hi).1)).1
  have hfind' : (Base.chain (proj s)).find?
      (fun i => ((proj s).heap.getD i ⟨0, (0, 0), none, none⟩).key == p.key) = hit := hfind
  have hfindS : (chain s).find? (fun i => (s.heap.getD i ⟨0, (0, 0), none, none⟩).key == p.key) = hit := by
    rw [chain_proj] at hfind'
    simpa only [getD_proj, cN_key] using hfind'
  have hval := W.linv.validated t (cL l) h (proj_thread hl) (by rw [cL_pc, hpc]; rfl)
  have hlock := (W.linv.lockHeld t (cL l) h (proj_thread hl) (by rw [cL_pc, hpc]; exact rfl)).2
  have hlock' : (s.heap.getD h ⟨0, (0, 0), none, none⟩).lock = some t := by
    have : Base.nodeAt (proj s).heap h = cN (s.heap.getD h ⟨0, (0, 0), none, none⟩) := getD_proj s h
    rw [this] at hlock
    exact hlock
  obtain ⟨e1, e2⟩ := storeAt_eq_writerStore (s := s) (p := p) H w.1 w.2
  obtain ⟨-, -, -, -, -, hspec, hothers⟩ := Base.writerStore_spec H (cP p) (by rw [cP_op, hop]; rfl)
  rw [← e1, ← e2, absOf_proj, absOf_proj, cP_key, cP_op] at hspec
  refine ⟨⟨hval, hlock'⟩, hfindS, storeAt_condRm_res s hop _ _ _, ?_, ?_⟩
  · cases hit with
    | none => exact storeAt_condRm_none s hop _ _
    | some i =>
      simp only
      by_cases hv : (s.heap.getD i ⟨0, (0, 0), none, none⟩).val.2 = vi
      · rw [if_pos hv]
        have habs : absOf s p.key = some (s.heap.getD i ⟨0, (0, 0), none, none⟩).val := by
          have := Base.absOf_of_hit H hfind
          rw [absOf_proj] at this
          rw [this]
          have hn : Base.nodeAt (proj s).heap i = cN (s.heap.getD i ⟨0, (0, 0), none, none⟩) := getD_proj s i
          rw [hn]; rfl
        refine ⟨habs, ?_⟩
        rw [habs, hop] at hspec
        have hs : specStep2 (some (s.heap.getD i ⟨0, (0, 0), none, none⟩).val) (.condRm vi) = (none, .none) := by
          have : (s.heap.getD i ⟨0, (0, 0), none, none⟩).val =
              ((s.heap.getD i ⟨0, (0, 0), none, none⟩).val.1, vi) := by rw [← hv]
          rw [this]
          simp [specStep2]
        rw [hs] at hspec
        exact (congrArg Prod.fst hspec).symm
      · rw [if_neg hv]
        exact storeAt_condRm_other s hop _ _ hv
  · intro k hk
    have := hothers k (by rw [cP_key]; exact hk)
    rw [← e1, absOf_proj, absOf_proj] at this
    exact this

/-! ## the first half of a `retain` visit -/

/-- the load of the value pointer: a visit reaches `vLoaded k vi` only by finding, at the node `c` it
holds, the key `k`, and `vi` is the id of the value that node holds at that moment -/
theorem visit_load {s s' : State} {t : Nat} {l : Local} {inv : Option Inv} {k c : Nat}
    (hl : s.threads[t]? = some l) (hpc : l.pc = .vNode k (some c)) (hs : step s t inv = some s') :
    ∃ nd, s.heap[c]? = some nd ∧
      s' = setT (tick s) t { l with pc := if nd.key = k then .vLoaded k nd.val.2 else .vNode k nd.next } := by
  unfold step stepG at hs
  rw [hl] at hs
  obtain ⟨pc, call⟩ := l
  simp only at hpc
  subst hpc
  simp only at hs
  cases hn : s.heap[c]? with
  | none => rw [hn] at hs; simp at hs
  | some nd =>
    rw [hn] at hs
    simp only at hs
    refine ⟨nd, rfl, ?_⟩
    by_cases hk : nd.key = k
    · rw [if_pos (by simpa using hk)] at hs
      rw [if_pos hk]
      exact (Option.some.inj hs).symm
    · rw [if_neg (by simpa using hk)] at hs
      rw [if_neg hk]
      exact (Option.some.inj hs).symm

/-- the predicate says "drop": the visit becomes the call `condRm vi` for exactly the id it loaded -/
theorem visit_drop {s : State} {t : Nat} {l : Local} {k vi : Nat}
    (hl : s.threads[t]? = some l) (hpc : l.pc = .vLoaded k vi) :
    step s t (some .drop) =
      some (setT (tick s) t { pc := .wHead, call := some ⟨k, .condRm vi, s.now + 1⟩ }) := by
  unfold step stepG
  rw [hl]
  obtain ⟨pc, call⟩ := l
  simp only at hpc
  subst hpc
  rfl

/-- the predicate says "keep": the visit ends; no call is started, and heap, bin cell and history
are as before — an entry for which `f` returned true is not touched by that visit -/
theorem visit_keep {s : State} {t : Nat} {l : Local} {k vi : Nat} {inv : Option Inv}
    (hl : s.threads[t]? = some l) (hpc : l.pc = .vLoaded k vi) (hinv : inv ≠ some .drop) :
    step s t inv = some (setT (tick s) t { l with pc := .idle }) := by
  unfold step stepG
  rw [hl]
  obtain ⟨pc, call⟩ := l
  simp only at hpc
  subst hpc
  cases inv with
  | none => rfl
  | some i =>
    cases i with
    | call k' op => rfl
    | visit k' => rfl
    | drop => exact absurd rfl hinv

end Flurry.Proto.BinR
