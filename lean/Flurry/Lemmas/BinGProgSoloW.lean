import Flurry.Lemmas.BinGProgStepW
import Flurry.Lemmas.BinGProgSolo
/-! # Proto/BinG, progress: a thread that runs alone is `idle` again or blocked within a bounded number of steps

`thread_solo_aux`: induction on the measure `wmu` with `thread_step` (`Lemmas/BinGProgStepW.lean`).
`wmu_le`: the measure of a thread that is not a reader is at most `2 * heap.length + 16`. -/
namespace Flurry.Proto.BinG
open Flurry.Lin
open Flurry.Proto.BinK (rank)

/-- what a solo run of thread `t` (local state `l` in `s`) ends in: the thread is `idle` again (a thread
with a call has returned: one entry added to `hist`), or it stands — with the same call, `hist`
untouched — at a waiting program counter and what it waits for is taken -/
def SoloEnd (s : State) (t : Nat) (l : Local) (s' : State) : Prop :=
  (s'.threads[t]? = some { pc := .idle, call := none } ∧
    ((l.call = none ∧ s'.hist = s.hist) ∨
     ∃ p res resp, l.call = some p ∧
       s'.hist = (p.key, { tid := t, op := p.op, res := res, inv := p.inv, resp := resp }) :: s.hist)) ∨
  (∃ l', s'.threads[t]? = some l' ∧ l'.call = l.call ∧ Blocked s' l'.pc ∧ s'.hist = s.hist)

theorem thread_solo_aux {n : Nat} {t : Nat} (sm sm2 : Bool) : ∀ (m : Nat) {s : State} {l : Local},
    Reachable n s → s.threads[t]? = some l → l.pc ≠ .idle → wmu s l < m →
    ∃ k, k ≤ m ∧ ∃ s', runSolo t sm sm2 k s = some s' ∧ Reachable n s' ∧ SoloEnd s t l s'
  | 0, s, l, _, _, _, hm => by omega
  | m + 1, s, l, hr, hl, hne, hm => by
    by_cases hbl : Blocked s l.pc
    · exact ⟨0, by omega, s, rfl, hr, Or.inr ⟨l, hl, rfl, hbl, rfl⟩⟩
    · obtain ⟨s1, hs, hp⟩ := thread_step (reachable_inv hr) (reachable_binv hr) hl hne hbl none false none false sm sm2
      have hr1 : Reachable n s1 := Reachable.step t none false none false sm sm2 hr hs
      rcases hp with ⟨hidle, hh⟩ | ⟨pc', hl1, hne1, hh1, hmu⟩
      · refine ⟨1, by omega, s1, by simp only [runSolo, hs], hr1, Or.inl ⟨hidle, ?_⟩⟩
        rcases hh with hh | ⟨p, res, hp, hh⟩
        · exact Or.inl hh
        · exact Or.inr ⟨p, res, _, hp, hh⟩
      · obtain ⟨k, hk, s', hrun, hr', he⟩ :=
          thread_solo_aux sm sm2 m (l := ⟨pc', l.call⟩) hr1 hl1 hne1 (by omega)
        refine ⟨k + 1, by omega, s', by simp only [runSolo, hs]; exact hrun, hr', ?_⟩
        rcases he with ⟨hidle, hh⟩ | ⟨l', hl', hc', hb', hh'⟩
        · refine Or.inl ⟨hidle, ?_⟩
          rcases hh with ⟨hc, hh⟩ | ⟨p, res, resp, hp, hh⟩
          · exact Or.inl ⟨hc, hh.trans hh1⟩
          · exact Or.inr ⟨p, res, resp, hp, by rw [hh, hh1]⟩
        · exact Or.inr ⟨l', hl', hc', hb', hh'.trans hh1⟩

theorem fresh_le (n : Nat) (tab : Tab) : fresh n tab ≤ 2 * n + 13 := by
  cases tab <;> simp only [fresh] <;> omega

/-- the measure of a thread that is not a reader -/
theorem wmu_le {s : State} {l : Local} (hnr : readerPc l.pc = false) (hb : PB s.heap.length l) :
    wmu s l ≤ 2 * s.heap.length + 16 := by
  obtain ⟨pc, call⟩ := l
  cases pc with
  | wCell tab => have := fresh_le s.heap.length tab; simp only [wmu]; omega
  | wCas tab => have := fresh_le s.heap.length tab; simp only [wmu]; split <;> omega
  | wLock tab h => have := fresh_le s.heap.length tab; simp only [wmu]; split <;> omega
  | wCheck tab h => have := fresh_le s.heap.length tab; simp only [wmu]; split <;> omega
  | wFind tab h pred cur =>
    cases cur with
    | none => simp only [wmu]; omega
    | some c =>
      have hc : c < s.heap.length := hb
      have := rank_le_two hc
      simp only [wmu]; omega
  | wUnlock tab h res retry =>
    have := fresh_le s.heap.length tab
    cases retry <;> simp only [wmu] <;> omega
  | tMutex tab b => have := fresh_le s.heap.length tab; simp only [wmu]; split <;> omega
  | tCheck tab b => have := fresh_le s.heap.length tab; simp only [wmu]; split <;> omega
  | tUnlockM tab b res retry =>
    have := fresh_le s.heap.length tab
    cases retry <;> simp only [wmu] <;> omega
  | lrLoop tab b k res => simp only [wmu]; split <;> split <;> omega
  | kCell tab k => cases tab <;> simp only [wmu] <;> omega
  | xCasMoved => simp only [wmu]; split <;> omega
  | xLock h => simp only [wmu]; split <;> omega
  | xCheck h => simp only [wmu]; split <;> omega
  | yMutex b => simp only [wmu]; split <;> omega
  | yCheck b => simp only [wmu]; split <;> omega
  | rTable _ | rCell _ _ | rNode _ | rFirst _ | rState _ _ | rLin _ _ | rCas _ _ _ | rTree _ | rRelease _ _
  | rVal _ | lFirst _ | lNode _ => cases hnr
  | _ => simp only [wmu] <;> omega

/-- the bound for a thread that is not a reader: an explicit function of the heap size only -/
def soloBoundW (s : State) : Nat := 2 * s.heap.length + 17

/-- the bound for any thread -/
def soloBoundAll (s : State) : Nat := 4 * s.heap.length + 17

theorem writer_solo_progress_aux {n : Nat} {s : State} (hr : Reachable n s) {t : Nat} {l : Local}
    (hl : s.threads[t]? = some l) (hne : l.pc ≠ .idle) (hnr : readerPc l.pc = false) (sm sm2 : Bool) :
    ∃ k, k ≤ soloBoundW s ∧ ∃ s', runSolo t sm sm2 k s = some s' ∧ Reachable n s' ∧ SoloEnd s t l s' :=
  thread_solo_aux sm sm2 (soloBoundW s) hr hl hne
    (by have := wmu_le hnr (reachable_binv hr t l hl); unfold soloBoundW; omega)

theorem thread_solo_progress_aux {n : Nat} {s : State} (hr : Reachable n s) {t : Nat} {l : Local}
    (hl : s.threads[t]? = some l) (hne : l.pc ≠ .idle) (sm sm2 : Bool) :
    ∃ k, k ≤ soloBoundAll s ∧ ∃ s', runSolo t sm sm2 k s = some s' ∧ Reachable n s' ∧ SoloEnd s t l s' := by
  refine thread_solo_aux sm sm2 (soloBoundAll s) hr hl hne ?_
  unfold soloBoundAll
  by_cases hrd : readerPc l.pc = true
  · obtain ⟨p, _, hp, _, _⟩ := reader_step_aux (reachable_inv hr) (reachable_binv hr) hl hrd none false none false sm sm2
    have := mu_le_soloBound (walkBound_of_pcInv ((reachable_inv hr).data.pcInv t l p hl hp))
    rw [wmu_reader hrd]
    unfold soloBound at this
    omega
  · have hnr : readerPc l.pc = false := by cases h : readerPc l.pc <;> simp_all
    have := wmu_le hnr (reachable_binv hr t l hl)
    omega

end Flurry.Proto.BinG
