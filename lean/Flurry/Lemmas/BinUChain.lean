import Flurry.Proto.BinU
/-! # Proto/BinU: heap segments and the chain (C01, tree bins)

The same development as `Lemmas/BinChain.lean`, for the list of a tree bin: new nodes are
*prepended*, so `next` pointers go strictly **downwards** (`NextOK`) and chains are strictly
decreasing index lists. `IsSeg`, `chainFrom_isChain`, and the two list surgeries (`isChain_prepend`,
`isChain_unlink`). -/
namespace Flurry.Proto.BinU
open Flurry.Lin

def nodeAt (heap : List NodeS) (i : Nat) : NodeS := heap.getD i dflt

theorem nodeAt_eq (heap : List NodeS) (i : Nat) : nodeAt heap i = (heap[i]?).getD dflt := by
  simp [nodeAt, List.getD_eq_getElem?_getD]

theorem nodeAt_of_some {heap : List NodeS} {i : Nat} {n : NodeS} (h : heap[i]? = some n) :
    nodeAt heap i = n := by
  rw [nodeAt_eq, h]; rfl

theorem getElem?_nodeAt {heap : List NodeS} {i : Nat} (h : i < heap.length) :
    heap[i]? = some (nodeAt heap i) := by
  rw [nodeAt_eq, List.getElem?_eq_getElem h]; rfl

theorem nodeAt_modify (heap : List NodeS) (i : Nat) (f : NodeS → NodeS) (j : Nat) :
    nodeAt (heap.modify i f) j = if i = j ∧ j < heap.length then f (nodeAt heap j) else nodeAt heap j := by
  rw [nodeAt_eq, nodeAt_eq, List.getElem?_modify]
  by_cases hj : j < heap.length
  · rw [List.getElem?_eq_getElem hj]
    by_cases hij : i = j <;> simp [hij, hj]
  · rw [List.getElem?_eq_none (by omega)]
    simp [hj]

theorem nodeAt_append_left {heap : List NodeS} (l : List NodeS) {j : Nat} (hj : j < heap.length) :
    nodeAt (heap ++ l) j = nodeAt heap j := by
  rw [nodeAt_eq, nodeAt_eq, List.getElem?_append_left hj]

theorem nodeAt_append_new (heap : List NodeS) (n : NodeS) : nodeAt (heap ++ [n]) heap.length = n := by
  rw [nodeAt_eq]; simp

/-- `next` pointers go strictly downwards (new nodes are prepended) -/
def NextOK (heap : List NodeS) : Prop :=
  ∀ (i : Nat) (n : NodeS) (j : Nat), heap[i]? = some n → n.next = some j → j < i

inductive IsSeg (heap : List NodeS) : Option Nat → List Nat → Option Nat → Prop
  | nil (e : Option Nat) : IsSeg heap e [] e
  | cons {i : Nat} {n : NodeS} {l : List Nat} {e : Option Nat} :
      heap[i]? = some n → IsSeg heap n.next l e → IsSeg heap (some i) (i :: l) e

abbrev IsChain (heap : List NodeS) (a : Option Nat) (l : List Nat) : Prop := IsSeg heap a l none

theorem IsSeg.nil_iff {heap : List NodeS} {a e : Option Nat} : IsSeg heap a [] e ↔ a = e := by
  constructor
  · intro h; cases h; rfl
  · rintro rfl; exact .nil _

theorem IsSeg.cons_iff {heap : List NodeS} {a e : Option Nat} {i : Nat} {l : List Nat} :
    IsSeg heap a (i :: l) e ↔ a = some i ∧ ∃ n, heap[i]? = some n ∧ IsSeg heap n.next l e := by
  constructor
  · intro h; cases h with | cons h1 h2 => exact ⟨rfl, _, h1, h2⟩
  · rintro ⟨rfl, n, h1, h2⟩; exact .cons h1 h2

theorem IsSeg.append {heap : List NodeS} {a b c : Option Nat} {l1 l2 : List Nat}
    (h1 : IsSeg heap a l1 b) (h2 : IsSeg heap b l2 c) : IsSeg heap a (l1 ++ l2) c := by
  induction h1 with
  | nil e => simpa using h2
  | cons hn _ ih => exact .cons hn (ih h2)

theorem IsSeg.split {heap : List NodeS} {l2 : List Nat} {c : Option Nat} :
    ∀ {l1 : List Nat} {a : Option Nat}, IsSeg heap a (l1 ++ l2) c →
      ∃ b, IsSeg heap a l1 b ∧ IsSeg heap b l2 c
  | [], a, h => ⟨a, .nil _, by simpa using h⟩
  | i :: l1, a, h => by
    rw [List.cons_append, IsSeg.cons_iff] at h
    obtain ⟨rfl, n, hn, hs⟩ := h
    obtain ⟨b, hb1, hb2⟩ := IsSeg.split hs
    exact ⟨b, .cons hn hb1, hb2⟩

theorem IsSeg.unique {heap : List NodeS} {a : Option Nat} {l1 : List Nat}
    (h1 : IsSeg heap a l1 none) : ∀ {l2 : List Nat}, IsSeg heap a l2 none → l1 = l2 := by
  generalize he : (none : Option Nat) = e at h1
  induction h1 with
  | nil e =>
    subst he
    intro l2 h2
    cases h2; rfl
  | cons hn _ ih =>
    subst he
    intro l2 h2
    cases h2 with
    | cons hn2 hs2 =>
      rw [hn] at hn2; cases hn2
      rw [ih rfl hs2]

theorem IsSeg.valid {heap : List NodeS} {a e : Option Nat} {l : List Nat} (h : IsSeg heap a l e) :
    ∀ j ∈ l, ∃ n, heap[j]? = some n := by
  induction h with
  | nil e => intro j hj; cases hj
  | cons hn _ ih =>
    intro j hj
    rcases List.mem_cons.1 hj with rfl | hj
    · exact ⟨_, hn⟩
    · exact ih j hj

theorem IsSeg.lt_length {heap : List NodeS} {a e : Option Nat} {l : List Nat} (h : IsSeg heap a l e) :
    ∀ j ∈ l, j < heap.length := by
  intro j hj
  obtain ⟨n, hn⟩ := h.valid j hj
  exact (List.getElem?_eq_some_iff.1 hn).1

/-- every node of a segment is at or below its start -/
theorem IsSeg.ub {heap : List NodeS} (hok : NextOK heap) {a e : Option Nat} {l : List Nat}
    (h : IsSeg heap a l e) : ∀ j ∈ l, ∀ i, a = some i → j ≤ i := by
  induction h with
  | nil e => intro j hj; cases hj
  | cons hn hs ih =>
    rename_i i n l e
    intro j hj i' hi'
    cases hi'
    rcases List.mem_cons.1 hj with rfl | hj
    · exact Nat.le_refl _
    · cases hnx : n.next with
      | none =>
        rw [hnx] at hs
        cases hs with
        | nil => cases hj
      | some b =>
        have := ih j hj b hnx
        have := hok _ _ _ hn hnx
        omega

/-- every node of a segment is strictly above its end pointer -/
theorem IsSeg.lb {heap : List NodeS} (hok : NextOK heap) {a e : Option Nat} {l : List Nat}
    (h : IsSeg heap a l e) : ∀ j ∈ l, ∀ x, e = some x → x < j := by
  induction h with
  | nil e => intro j hj; cases hj
  | cons hn hs ih =>
    rename_i i n l e
    intro j hj x hx
    rcases List.mem_cons.1 hj with rfl | hj
    · cases hl : l with
      | nil =>
        subst hl
        rw [IsSeg.nil_iff] at hs
        rw [hx] at hs
        exact hok _ _ _ hn hs
      | cons b l' =>
        subst hl
        have h1 := ih b (List.mem_cons_self) x hx
        obtain ⟨hb, -⟩ := IsSeg.cons_iff.1 hs
        have := hok _ _ _ hn hb
        omega
    · exact ih j hj x hx

/-- segments are strictly decreasing -/
theorem IsSeg.sorted {heap : List NodeS} (hok : NextOK heap) {a e : Option Nat} {l : List Nat}
    (h : IsSeg heap a l e) : l.Pairwise (· > ·) := by
  induction h with
  | nil e => exact List.Pairwise.nil
  | cons hn hs ih =>
    rename_i i n l e
    refine List.pairwise_cons.2 ⟨?_, ih⟩
    intro j hj
    cases hnx : n.next with
    | none =>
      rw [hnx] at hs
      cases hs with
      | nil => cases hj
    | some b =>
      have := hs.ub hok j hj b hnx
      have := hok _ _ _ hn hnx
      omega

theorem IsSeg.nodup {heap : List NodeS} (hok : NextOK heap) {a e : Option Nat} {l : List Nat}
    (h : IsSeg heap a l e) : l.Nodup :=
  (h.sorted hok).imp (fun hab => Nat.ne_of_gt hab)

/-- a segment only depends on the `next` fields of its own nodes -/
theorem IsSeg.congr {heap heap' : List NodeS} {a e : Option Nat} {l : List Nat}
    (h : IsSeg heap a l e)
    (hsame : ∀ j ∈ l, ∀ n, heap[j]? = some n → ∃ n', heap'[j]? = some n' ∧ n'.next = n.next) :
    IsSeg heap' a l e := by
  induction h with
  | nil e => exact .nil _
  | cons hn hs ih =>
    obtain ⟨n', hn', hnx⟩ := hsame _ (List.mem_cons_self) _ hn
    refine .cons hn' ?_
    rw [hnx]
    exact ih (fun j hj => hsame j (List.mem_cons_of_mem _ hj))

theorem IsSeg.at_mem {heap : List NodeS} {a e : Option Nat} {l : List Nat} (h : IsSeg heap a l e)
    {c : Nat} (hc : c ∈ l) :
    ∃ l1 l2 n, l = l1 ++ c :: l2 ∧ heap[c]? = some n ∧ IsSeg heap a l1 (some c) ∧
      IsSeg heap n.next l2 e := by
  obtain ⟨l1, l2, rfl⟩ := List.append_of_mem hc
  obtain ⟨b, h1, h2⟩ := h.split
  obtain ⟨rfl, n, hn, hs⟩ := IsSeg.cons_iff.1 h2
  exact ⟨l1, l2, n, rfl, hn, h1, hs⟩

/-- the last node of a chain: every chain node is at or above it -/
theorem IsSeg.succ_none {heap : List NodeS} (hok : NextOK heap) {a : Option Nat} {l : List Nat}
    (h : IsChain heap a l) {c : Nat} {n : NodeS} (hc : c ∈ l) (hn : heap[c]? = some n)
    (hnx : n.next = none) : ∀ j ∈ l, c ≤ j := by
  obtain ⟨l1, l2, n', rfl, hn', h1, h2⟩ := h.at_mem hc
  rw [hn] at hn'; cases hn'
  rw [hnx] at h2
  cases h2
  intro j hj
  rcases List.mem_append.1 hj with hj | hj
  · exact Nat.le_of_lt (h1.lb hok j hj c rfl)
  · rcases List.mem_cons.1 hj with rfl | hj
    · exact Nat.le_refl _
    · cases hj

/-- the successor of a chain node is the next chain node below it -/
theorem IsSeg.succ_some {heap : List NodeS} (hok : NextOK heap) {a : Option Nat} {l : List Nat}
    (h : IsChain heap a l) {c b : Nat} {n : NodeS} (hc : c ∈ l) (hn : heap[c]? = some n)
    (hnx : n.next = some b) : b ∈ l ∧ ∀ j ∈ l, b < j → c ≤ j := by
  obtain ⟨l1, l2, n', rfl, hn', h1, h2⟩ := h.at_mem hc
  rw [hn] at hn'; cases hn'
  rw [hnx] at h2
  cases h2 with
  | cons hb hs =>
    rename_i nb l2'
    refine ⟨by simp, ?_⟩
    intro j hj hjb
    rcases List.mem_append.1 hj with hj | hj
    · exact Nat.le_of_lt (h1.lb hok j hj c rfl)
    · rcases List.mem_cons.1 hj with rfl | hj
      · exact Nat.le_refl _
      · have := (IsSeg.cons hb hs).ub hok j hj b rfl
        omega

/-- the executable `chainFrom` computes the chain (with enough fuel) -/
theorem chainFrom_isChain {heap : List NodeS} (hok : NextOK heap) :
    ∀ (fuel : Nat) (st : Option Nat),
      (∀ i, st = some i → i < heap.length ∧ i < fuel) →
      IsChain heap st (chainFrom heap fuel st)
  | 0, none, _ => by simp only [chainFrom]; exact .nil _
  | 0, some i, h => by have := h i rfl; omega
  | fuel + 1, none, _ => by simp only [chainFrom]; exact .nil _
  | fuel + 1, some i, h => by
    have hi := h i rfl
    have hn : heap[i]? = some heap[i] := List.getElem?_eq_getElem hi.1
    simp only [chainFrom, hn]
    refine .cons hn (chainFrom_isChain hok fuel _ ?_)
    intro j hj
    have := hok _ _ _ hn hj
    omega

/-- prepending a fresh node whose `next` is the old first pointer -/
theorem isChain_prepend {heap : List NodeS} {a : Option Nat} {l : List Nat}
    (h : IsChain heap a l) (new : NodeS) (hnew : new.next = a) :
    IsChain (heap ++ [new]) (some heap.length) (heap.length :: l) := by
  refine .cons (n := new) (by simp) ?_
  rw [hnew]
  refine h.congr ?_
  intro j _ n hn
  have hjl : j < heap.length := (List.getElem?_eq_some_iff.1 hn).1
  exact ⟨n, by rw [List.getElem?_append_left hjl, hn], rfl⟩

/-- unlinking the node `i` behind `pr` -/
theorem isChain_unlink {heap : List NodeS} (hok : NextOK heap) {a : Option Nat} {l1 l2 : List Nat}
    {pr i : Nat} {ni : NodeS} (h : IsChain heap a (l1 ++ pr :: i :: l2)) (hni : heap[i]? = some ni) :
    IsChain (heap.modify pr (fun m => { m with next := ni.next })) a (l1 ++ pr :: l2) := by
  have hnd := h.nodup hok
  obtain ⟨b, h1, h2⟩ := h.split
  obtain ⟨rfl, np, hnp, hs⟩ := IsSeg.cons_iff.1 h2
  obtain ⟨hb, ni', hni', hs2⟩ := IsSeg.cons_iff.1 hs
  rw [hni] at hni'; cases hni'
  have h5 := List.nodup_append.1 hnd
  have hpr1 : pr ∉ l1 := fun hm => h5.2.2 pr hm pr (by simp) rfl
  have hpr2 : pr ∉ l2 := by
    intro hm
    have := (List.nodup_cons.1 h5.2.1).1
    exact this (List.mem_cons_of_mem _ hm)
  refine IsSeg.append (b := some pr) ?_ ?_
  · refine h1.congr ?_
    intro j hj n hn
    have hne : pr ≠ j := fun he => hpr1 (he ▸ hj)
    refine ⟨n, ?_, rfl⟩
    rw [List.getElem?_modify, hn]
    simp [hne]
  · refine .cons (n := { np with next := ni.next }) ?_ ?_
    · rw [List.getElem?_modify, hnp]; simp
    · refine hs2.congr ?_
      intro j hj n hn
      have hne : pr ≠ j := fun he => hpr2 (he ▸ hj)
      refine ⟨n, ?_, rfl⟩
      rw [List.getElem?_modify, hn]
      simp [hne]

/-! ## `predOf` -/

theorem predOf_none_of_not_mem_tail (i : Nat) : ∀ l : List Nat, i ∉ l.tail → predOf l i = none
  | [], _ => rfl
  | [_], _ => rfl
  | a :: b :: rest, h => by
    have hb : b ≠ i := fun he => h (by simp [he])
    have hr : i ∉ (b :: rest).tail := fun hm => h (by simp at hm ⊢; exact Or.inr hm)
    simp only [predOf, beq_iff_eq, hb, if_false]
    exact predOf_none_of_not_mem_tail i (b :: rest) hr

theorem predOf_head (i : Nat) (l : List Nat) (hi : i ∉ l) : predOf (i :: l) i = none :=
  predOf_none_of_not_mem_tail i (i :: l) hi

theorem predOf_mid (i a : Nat) (l2 : List Nat) (ha : a ≠ i) :
    ∀ l1 : List Nat, i ∉ l1 → predOf (l1 ++ a :: i :: l2) i = some a
  | [], _ => by simp [predOf]
  | [x], _ => by
    simp only [List.cons_append, List.nil_append, predOf, beq_iff_eq, ha, if_false, if_true]
  | x :: y :: l1, h => by
    have hy : y ≠ i := fun he => h (by simp [he])
    have hr : i ∉ y :: l1 := fun hm => h (List.mem_cons_of_mem _ hm)
    simp only [List.cons_append, predOf, beq_iff_eq, hy, if_false]
    exact predOf_mid i a l2 ha (y :: l1) hr

theorem predOf_cases {l : List Nat} (hnd : l.Nodup) {i : Nat} (hi : i ∈ l) :
    (∃ l2, l = i :: l2 ∧ predOf l i = none) ∨
    (∃ l1 pr l2, l = l1 ++ pr :: i :: l2 ∧ predOf l i = some pr) := by
  obtain ⟨l1, l2, rfl⟩ := List.append_of_mem hi
  have h5 := List.nodup_append.1 hnd
  have hi1 : i ∉ l1 := fun hm => h5.2.2 i hm i (by simp) rfl
  have hi2 : i ∉ l2 := (List.nodup_cons.1 h5.2.1).1
  rcases List.eq_nil_or_concat l1 with rfl | ⟨l1', pr, rfl⟩
  · exact Or.inl ⟨l2, rfl, predOf_head i l2 hi2⟩
  · refine Or.inr ⟨l1', pr, l2, by simp, ?_⟩
    have hpr : pr ≠ i := fun he => hi1 (by simp [he])
    have : i ∉ l1' := fun hm => hi1 (by simp [hm])
    have h := predOf_mid i pr l2 hpr l1' this
    simpa using h

end Flurry.Proto.BinU
