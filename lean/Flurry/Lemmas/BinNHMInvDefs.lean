import Flurry.Lemmas.BinNInvDefs
import Flurry.Lemmas.BinNGhostCleared
import Flurry.Lemmas.BinNHMGhostCleared
import Flurry.Lemmas.BinXInv
/-! # Proto/BinNH — port of the `Proto/BinN` lemma file of the same name to the heap invariant with ONE
MID-TRANSFER CELL PER HELPER (`Lemmas/BinNHMDefs.lean`); statements about `BinN.State`. Original header: the complete structural invariant and the classification of the transitions by their effect
on the memory (definitions, frame lemmas) -/
namespace Flurry.Proto.BinNHM
open Flurry.Proto.BinN
open Flurry.Lin
open Flurry.Proto.BinX (NodeS Cell Pending dflt chainFrom cellHead cellOfHead nodeAt nodeAt_of_some getElem?_nodeAt
  IsSeg IsChain chainH absIn KeysDistinct Walk get_set get_set_self get_set_ne nextA nextA_old nextA_new)

/-- the structural invariant of the shared memory, the readers and the writers (the resizing threads are
not threads of `s`: see `Lemmas/BinNHFull.lean`) -/
structure Inv (s : State) (G : Ghost) : Prop where
  gen : GenInv s
  heap : HInv s G
  thr : TInv s
  walk : WInv s
  /-- no thread of `s` is at one of `Proto/BinN`'s own resizing program counters -/
  noT : ∀ (t : Nat) (l : Local), s.threads[t]? = some l → ¬ isT l.pc
  /-- no reader / writer holds a validated lock on a cell that is being split (a helper holds its bin lock) -/
  midw : ∀ j, IsMid G j → ∀ (t1 : Nat) (l1 : Local) (h : Nat), s.threads[t1]? = some l1 →
    vcell s.cur l1 ≠ some (s.cur, j, h)

/-! ## walks -/

theorem WalkOK.congr {s s' : State} {p : Pending} {pc : Pc} (w : WalkOK s p pc)
    (hf : ∀ g, genOfPc pc = some g → cellOf s' g p.key = cellOf s g p.key ∧
      chainH s'.heap (cellOf s g p.key) = chainH s.heap (cellOf s g p.key) ∧
      ∀ j ∈ chainH s.heap (cellOf s g p.key), (nodeAt s'.heap j).key = (nodeAt s.heap j).key ∧
        (nodeAt s'.heap j).next = (nodeAt s.heap j).next) : WalkOK s' p pc := by
  cases pc with
  | wFind g h pred cur =>
    obtain ⟨h1, h2, h3⟩ := hf g rfl
    show Walk s'.heap (chainH s'.heap (cellOf s' g p.key)) p.key pred cur
    rw [h1, h2]
    exact Walk.congr w (fun j hj => (h3 j hj).1)
  | wStore g h pred hit hnext =>
    obtain ⟨h1, h2, h3⟩ := hf g rfl
    obtain ⟨w1, w2⟩ := w
    refine ⟨?_, ?_⟩
    · show Walk s'.heap (chainH s'.heap (cellOf s' g p.key)) p.key pred hit
      rw [h1, h2]
      exact Walk.congr w1 (fun j hj => (h3 j hj).1)
    · intro i hi
      subst hi
      obtain ⟨e1, e2⟩ := h3 i w1.cur_mem
      rw [e1, e2]; exact w2 i rfl
  | _ => trivial

theorem Move.walk {s : State} {G : Ghost} (H : HInv s G) {p : Pending} {pc pc' : Pc} (hm : Move s p pc pc')
    (hw : WalkOK s p pc) : WalkOK s p pc' := by
  cases hm with
  | @checkOk g h hc =>
    show Walk _ _ _ _ _
    rw [hc]
    obtain ⟨l', hl'⟩ := chainH_node H.nextOK (H.head (cellId g p.key) h hc)
    rw [hl']
    exact Walk.start p.key
  | findEnd => exact ⟨hw, fun i hi => by cases hi⟩
  | @findHit g h pred c n hn hk =>
    exact ⟨hw, fun i hi => by cases hi; rw [nodeAt_of_some hn]; exact ⟨hk, rfl⟩⟩
  | @findNext g h pred c n hn hk =>
    show Walk _ _ _ _ _
    have hC := H.isChain (cellId g p.key)
    exact Walk.next hC hw hn hk
  | rTable => trivial
  | rCellMoved _ => trivial
  | rCellNode _ => trivial
  | rNext _ _ => trivial
  | wTable => trivial
  | wCellEmpty _ _ => trivial
  | wCellMoved _ => trivial
  | wCellNode _ => trivial
  | casFail => trivial
  | checkFail _ => trivial

/-- the walks of the other threads survive a transition that leaves the chains of their validated cells alone -/
theorem winv_frame {s s' : State} {t : Nat} {l' : Local} (W : WInv s)
    (hthr : s'.threads = s.threads.set t l')
    (hfr : ∀ (t1 : Nat) (l1 : Local) (g j h : Nat), t1 ≠ t → s.threads[t1]? = some l1 →
      vcell s.cur l1 = some (g, j, h) → ¬ isT l1.pc →
      cellAt s' g j = cellAt s g j ∧ chainH s'.heap (cellAt s g j) = chainH s.heap (cellAt s g j) ∧
      ∀ i ∈ chainH s.heap (cellAt s g j), (nodeAt s'.heap i).key = (nodeAt s.heap i).key ∧
        (nodeAt s'.heap i).next = (nodeAt s.heap i).next)
    (hself : ∀ p, l'.call = some p → WalkOK s' p l'.pc) : WInv s' := by
  refine ⟨?_⟩
  intro t1 l1 p1 hl1 hc1
  rw [hthr] at hl1
  rcases get_set hl1 with ⟨rfl, rfl⟩ | ⟨hne, hl1⟩
  · exact hself p1 hc1
  · have hold := W.walk t1 l1 p1 hl1 hc1
    obtain ⟨pc1, call1⟩ := l1
    simp only at hc1 hold
    subst hc1
    cases pc1 with
    | wFind g h pred cur =>
      obtain ⟨e1, e2, e3⟩ := hfr t1 _ g (p1.key % 2 ^ g) h hne hl1 rfl (fun h => h)
      refine hold.congr ?_
      intro g' hg'
      cases hg'
      exact ⟨e1, e2, e3⟩
    | wStore g h pred hit hnext =>
      obtain ⟨e1, e2, e3⟩ := hfr t1 _ g (p1.key % 2 ^ g) h hne hl1 rfl (fun h => h)
      refine hold.congr ?_
      intro g' hg'
      cases hg'
      exact ⟨e1, e2, e3⟩
    | _ => trivial

/-! ## which cells are active -/

/-- a thread that works in generation `g` and sees a cell that is not forwarded sees an active cell — unless
the cell is the one being split (then it is a list whose lock the resizing thread holds) -/
theorem Inv.active_of_gen {s : State} {G : Ghost} (I : Inv s G) {t : Nat} {l : Local} {p : Pending} {g : Nat}
    (hl : s.threads[t]? = some l) (hp : l.call = some p) (hg : genOfPc l.pc = some g)
    (hnm : cellOf s g p.key ≠ .moved) (hmid : g = s.cur → ¬ IsMid G (p.key % 2 ^ g)) :
    Active s G (cellId g p.key) := by
  obtain ⟨h1, h2⟩ := (I.gen.thr t l hl).gen p g hp hg
  by_cases hc : g = s.cur + 1
  · right
    refine ⟨hc, by rw [hc]; exact mod_lt_pow _ _, ?_⟩
    have := h2 hc
    unfold cellId; simp only
    rw [hc, mod_succ_mod]
    exact this
  · by_cases hc' : g = s.cur
    · left
      exact ⟨hc', by rw [hc']; exact mod_lt_pow _ _, hnm, hmid hc'⟩
    · exact absurd (I.gen.old g _ (by omega) (mod_lt_pow _ _)) hnm

/-- an empty cell is not the one being split -/
theorem Inv.active_of_empty {s : State} {G : Ghost} (I : Inv s G) {t : Nat} {l : Local} {p : Pending} {g : Nat}
    (hl : s.threads[t]? = some l) (hp : l.call = some p) (hg : genOfPc l.pc = some g)
    (he : cellOf s g p.key = .empty) : Active s G (cellId g p.key) := by
  refine I.active_of_gen hl hp hg (by rw [he]; simp) ?_
  intro hc hm
  obtain ⟨lo, hg', fr, hmid⟩ := isMid_some hm
  obtain ⟨-, ⟨h, hn⟩, -⟩ := I.heap.mid _ lo hg' fr hmid
  rw [← hc] at hn
  unfold cellOf at he
  rw [he] at hn; cases hn

/-- a validated writer works on an active cell -/
theorem Inv.active_of_vcell {s : State} {G : Ghost} (I : Inv s G) {t : Nat} {l : Local} {p : Pending} {g h : Nat}
    (hl : s.threads[t]? = some l) (hp : l.call = some p) (hg : genOfPc l.pc = some g) (hT : ¬ isT l.pc)
    (hv : vcell s.cur l = some (g, p.key % 2 ^ g, h)) : Active s G (cellId g p.key) := by
  obtain ⟨hcell, -⟩ := (I.gen.thr t l hl).valid _ _ _ hv
  refine I.active_of_gen hl hp hg (by show cellAt s g _ ≠ _; rw [hcell]; simp) ?_
  intro hc hm
  subst hc
  exact I.midw _ hm t l h hl hv

/-! ## the effect of a transition on the memory, as far as the readers are concerned -/

inductive MemStep (s s' : State) (G G' : Ghost) : Prop
  | heap : HeapStep s s' G G' → MemStep s s' G G'
  | moved (jm : Nat) (lo hg : Option Nat) (fr : Nat × Nat) : G.mid jm = some (lo, hg, fr) →
      (∀ j0 x, G'.mid j0 = some x → j0 ≠ jm ∧ G.mid j0 = some x) → G'.cr = G.cr →
      s'.heap = s.heap → s'.cur = s.cur → getCell s' (s.cur, jm) = .moved →
      (∀ id, id ≠ (s.cur, jm) → getCell s' id = getCell s id) →
      (∀ b, SideOK (bitAt s.cur) s.heap G.cr fr (chId s (s.cur, jm)) b (chId s (childId s.cur jm b))) →
      MemStep s s' G G'
  | clear (id : CellId) : G' = G → (∀ id', id' ≠ id → chId s' id' = chId s id') →
      (∀ k, LC s' k = if liveId s k = id then [] else LC s k) →
      (∀ j, Live s' G j → Live s G j ∧ j ∉ chId s id) → s'.heap = s.heap → MemStep s s' G G'

/-- how the justification of a reader is carried over a transition -/
def Carries (k : Nat) (s s' : State) (G G' : Ghost) (A A' : Nat → KSt) : Prop :=
  ∀ (inv : Nat) (cur : Option Nat), inv ≤ s.now → Good G A k inv s cur → Good G' A' k inv s' cur

/-- **every transition carries the justifications of the readers** -/
theorem MemStep.carries {k : Nat} {s s' : State} {G G' : Ghost} {A : Nat → KSt} {x : KSt}
    (m : MemStep s s' G G') (H : HInv s G) (H' : HInv s' G')
    (hnow : s'.now = s.now + 1) (hA : A s.now = absOf s k) : Carries k s s' G G' A (nextA A s.now x) := by
  intro inv cur hinv hg
  have hold : ∀ τ, τ ≤ s.now → nextA A s.now x τ = A τ := fun τ h => nextA_old h
  cases m with
  | heap hs => exact hg.step H H' hs hnow hold hA hinv
  | moved jm lo hg' fr h1 h2 h3 h4 h5 h6 h7 h8 => exact hg.moved H H' h1 h2 h3 h4 h5 h6 h7 h8 hnow hold hA hinv
  | clear id h1 h2 h3 h4 h5 =>
    subst h1
    exact hg.cleared H h2 h3 h4 h5 hnow hold hA hinv

end Flurry.Proto.BinNHM
