import Flurry.Lemmas.BinGNPInvW
/-! # Proto/BinGN (port of `Lemmas/BinGFactsT2.lean`): the facts about the tree-bin writer stores `prepend` and `unlink`

`prepend_facts` (`tPrependLocked`: a fresh node is put in front of the list of the `TreeBin` of the
writer's cell) and `unlink_facts` (`tUnlinkLocked`: the list unlink of a removal): `Eff s s'`, the
specified effect on the abstract state of the writer's key, and no effect on the other keys.
Both are stores into the structure of the cell `id := idOf tab p.key = cidOf s l`, in which the writer is
validated (`I.lock.vT`); the frame is handled by `inv_store`, `kstep_of_store`, `eff_store`
(`Lemmas/BinGNPInvW.lean`).

Differences from the BinG original: `tab : Nat` (a generation); both lemmas conclude `XShape s' → (Eff s s' ∧ …)`
(as in `Lemmas/BinGNPFactsX.lean`); the side condition of the prepended node is `p.key % 2 ^ tab = p.key % 2 ^ tab`
(`rfl`, the writer works in `idOf tab p.key`). -/
namespace Flurry.Proto.BinGNP
open Flurry.Lin
open Flurry.Proto.BinK (nodeAt binAt NextOK IsChain IsSeg chainOf CInv absL HeapStep getElem?_nodeAt nodeAt_of_some
  chainOf_eq chainOf_isChain get_set get_set_self get_set_ne nodeAt_modify nodeAt_append_left nodeAt_append_new
  nodeAt_ge binAt_modify binAt_modify_self binAt_modify_ne predOf_cases absL_eq_none_iff absL_eq_some_iff)
open Store

/-! ## shared pieces -/

/-- a thread that holds the mutex of a `TreeBin` in a cell, at a pc other than the exceptional ones:
every tree node of the bin is on its list -/
private theorem tree_sub_chain_mx {s : State} (I : Inv s) {t : Nat} {l : Local} {id : Cid} {b : Nat}
    (hl : s.threads[t]? = some l) (hc : cellAt s id = .tree b) (hm : holdsMutex l.pc = some b)
    (h1 : ∀ tab j res, l.pc ≠ .tRestructure tab b j res) (h2 : ∀ tab res, l.pc ≠ .tUntreeify tab b res) :
    ∀ j, j < s.heap.length → (nodeAt s.heap j).owner = some b → (nodeAt s.heap j).inTree = true →
      j ∈ chainOfBin s b := by
  intro j hj ho hin
  apply Classical.byContradiction
  intro hnc
  obtain ⟨t', l', hl', hpc⟩ := I.data.treeSub id b hc j hj ho hin hnc
  have hm' : holdsMutex l'.pc = some b := by
    rcases hpc with ⟨tab, res, hpc⟩ | ⟨tab, res, hpc⟩ <;> rw [hpc] <;> rfl
  have e1 := (I.lock.mx t l b hl).1 hm
  have e2 := (I.lock.mx t' l' b hl').1 hm'
  rw [e1] at e2
  have := Option.some.inj e2
  subst this
  rw [hl] at hl'; cases hl'
  rcases hpc with ⟨tab, res, hpc⟩ | ⟨tab, res, hpc⟩
  · exact h1 tab j res hpc
  · exact h2 tab res hpc

private theorem chain_sub_tree_mx {s : State} (I : Inv s) {t : Nat} {l : Local} {id : Cid} {b : Nat}
    (hl : s.threads[t]? = some l) (hc : cellAt s id = .tree b) (hm : holdsMutex l.pc = some b)
    (h1 : ∀ tab j, l.pc ≠ .tTreeLinkLocked tab b j) :
    ∀ j ∈ chainOfBin s b, (nodeAt s.heap j).inTree = true := by
  intro j hj
  cases hin : (nodeAt s.heap j).inTree with
  | true => rfl
  | false =>
    obtain ⟨t', l', tab, hl', hpc⟩ := I.data.chainSub id b hc j hj hin
    have hm' : holdsMutex l'.pc = some b := by rw [hpc]; rfl
    have e1 := (I.lock.mx t l b hl).1 hm
    have e2 := (I.lock.mx t' l' b hl').1 hm'
    rw [e1] at e2
    have := Option.some.inj e2
    subst this
    rw [hl] at hl'; cases hl'
    exact absurd hpc (h1 tab j)

/-- the lock invariant after a store of a tree-bin writer that holds the write lock: cells, lock words and
synchronisation words unchanged, the new pc holds what the old one held -/
private theorem tw_linv {s s' : State} {t : Nat} {l l' : Local} {b : Nat} (I : Inv s) (hl : s.threads[t]? = some l)
    (hcell : ∀ id, cellAt s' id = cellAt s id) (hthr : s'.threads = s.threads.set t l') (hcur : s'.cur = s.cur)
    (htlen : s'.tbins.length = s.tbins.length)
    (hsync : ∀ b, (binAt s'.tbins b).mutex = (binAt s.tbins b).mutex ∧
      (binAt s'.tbins b).writer = (binAt s.tbins b).writer ∧ (binAt s'.tbins b).waiter = (binAt s.tbins b).waiter ∧
      (binAt s'.tbins b).readers = (binAt s.tbins b).readers)
    (hlock : ∀ h, (nodeAt s'.heap h).lock = (nodeAt s.heap h).lock)
    (e1 : holdsLock l'.pc = holdsLock l.pc) (e2 : validL l'.pc = none)
    (e3 : validT l'.pc = some b) (e3' : validT l.pc = some b) (ecid : cidOf s l' = cidOf s l)
    (e4 : holdsMutex l'.pc = holdsMutex l.pc) (e5 : holdsRead l'.pc = holdsRead l.pc)
    (e6 : wr l'.pc = wr l.pc) (e7 : isLoop l.pc = false) (e8 : binRef l'.pc = binRef l.pc)
    (e9 : pend s' l'.pc = []) : LInv s' := by
  refine linv_same I.lock hl hcell hthr hcur htlen hsync (lockfun_same I.lock hl e1 hlock)
    (fun h hh => Or.inl (e1 ▸ hh)) (fun h hv => by rw [e2] at hv; cases hv) ?_ e4 e5
    (fun _ _ _ => ⟨e6, fun h => by rw [e7] at h; cases h⟩) (fun b' hb' => Or.inl (e8 ▸ hb')) ?_
  · intro b' hv
    rw [e3] at hv; cases hv
    rw [ecid]
    exact I.lock.vT t l b hl e3'
  · rintro b' _ ⟨t1, l1, h1, hmem, hc0⟩
    rw [hthr] at h1
    rcases get_set h1 with ⟨rfl, rfl⟩ | ⟨_, h1⟩
    · rw [e9] at hmem; cases hmem
    · rw [pend_congr hcur (fun j0 _ => ⟨hcell _, hcell _⟩)] at hmem
      exact ⟨t1, l1, h1, hmem, fun j hj => by rw [← hcur, ← hcell]; exact hc0 j hj⟩

/-- the abstract state of a key whose live cell is `id` -/
private theorem absOf_live {s : State} (X : XInv s) {id : Cid} {k : Nat} (h : liveId s k = id) :
    absOf s k = absL s.heap (chainC s (cellAt s id)) k := by
  rw [absOf_eq, LC_eq_live X.newNotMoved k, h]

private theorem cellAt_same {s s' : State} (h : s'.tabs = s.tabs) (id : Cid) : cellAt s' id = cellAt s id := by
  unfold cellAt BinGN.cellAt
  rw [h]

/-! ## `tPrependLocked` -/

/-- the insertion of a new key into the tree bin: the store to `first` (`tPrependLocked`) -/
theorem prepend_facts {s : State} {t : Nat} {l : Local} {p : Pending} {tab : Nat} {b v vi : Nat}
    (I : Inv s) (hl : s.threads[t]? = some l) (hp : l.call = some p) (hpc : l.pc = .tPrependLocked tab b)
    (hop : p.op = .ins v vi ∨ p.op = .tryIns v vi) :
    let s' := setT (setBin (qst s (s.heap ++ [⟨p.key, (v, vi), (binAt s.tbins b).first, none, false, some b⟩]) s.tbins) b
        (fun y => { y with first := some s.heap.length })) t { l with pc := .tTreeLinkLocked tab b s.heap.length }
    XShape s' → (Eff s s' ∧ specStep (absOf s p.key) p.op = (absOf s' p.key, .none) ∧
      ∀ k, k ≠ p.key → absOf s' k = absOf s k) := by
  obtain ⟨pc, call⟩ := l
  simp only at hp hpc
  subst hp hpc
  intro s' XS'
  let new : NodeS := ⟨p.key, (v, vi), (binAt s.tbins b).first, none, false, some b⟩
  let l' : Local := ⟨.tTreeLinkLocked tab b s.heap.length, some p⟩
  let id : Cid := idOf tab p.key
  have H := I.heap
  have X := I.rsz
  have h0 := I.data.pcInv t _ p hl rfl
  simp only [PcInv, FreshOK] at h0
  have hcell : cellAt s id = .tree b := I.lock.vT t _ b hl rfl
  have W : Writable s id := I.writable_valid hl rfl rfl
  have hb0 : b < s.tbins.length := H.cellOK id b hcell
  have hsub := tree_sub_chain_mx I hl hcell rfl (fun _ _ _ h => by cases h) (fun _ _ h => by cases h)
  have hsup := chain_sub_tree_mx I hl hcell rfl (fun _ _ h => by cases h)
  have hcells : ∀ id', cellAt s' id' = cellAt s id' := cellAt_same rfl
  have hcell' : cellAt s' id = .tree b := by rw [hcells]; exact hcell
  have hheap : s'.heap = s.heap ++ [new] := rfl
  have htb : s'.tbins = s.tbins.modify b (fun y => { y with first := some s.heap.length }) := rfl
  have hthr : s'.threads = s.threads.set t l' := rfl
  have hre : ∀ b' j0, Reusing s b' j0 → Reusing s' b' j0 :=
    reusing_of_set_pc hthr hl ⟨fun _ _ _ h => (by cases h), fun _ _ h => (by cases h)⟩
  have hold0 : ∀ j, j < s.heap.length → nodeAt s'.heap j = nodeAt s.heap j := fun j hj => nodeAt_append_left _ hj
  have hnew0 : nodeAt s'.heap s.heap.length = new := nodeAt_append_new _ _
  have hlen : s'.heap.length = s.heap.length + 1 := by rw [hheap]; simp
  have hchain : chainC s (cellAt s id) = chainOfBin s b := by rw [hcell]; rfl
  have hfr : ∀ j, (j ∈ chainC s (cellAt s id) ∨ treeOf s (cellAt s id) j) → (nodeAt s.heap j).key ≠ new.key := by
    intro j hj
    rcases hj with hj | hj
    · have ho := H.chainOwner id j hj
      rw [hcell] at ho
      exact h0 j ((H.cinv id).chain_lt hj) ho (hsup j (by rw [← hchain]; exact hj))
    · rw [hcell] at hj
      obtain ⟨h1, h2, b', hb', h3⟩ := hj
      cases hb'
      exact h0 j h1 h3 h2
  have hT : ∀ j, treeOf s' (cellAt s' id) j → j < s.heap.length ∧ treeOf s (cellAt s id) j := by
    intro j hj
    rw [hcell'] at hj
    obtain ⟨h1, h2, b', hb', h3⟩ := hj
    cases hb'
    have hjl : j < s.heap.length := by
      apply Classical.byContradiction
      intro hn
      have : j = s.heap.length := by omega
      subst this
      rw [hnew0] at h2; cases h2
    rw [hold0 j hjl] at h2 h3
    rw [hcell]
    exact ⟨hjl, hjl, h2, b, rfl, h3⟩
  obtain ⟨H', T, hs, hlc, ⟨_, _⟩, habs⟩ := sprepend_store (s' := s') (id := id) (new := new) H X W hheap
    (by rw [hcell']; show (binAt s'.tbins b).first = _; rw [htb, binAt_modify_self _ hb0])
    (by rw [hcell]; rfl) hfr hT (by rw [htb, List.length_modify])
    (by intro b' hb'; rw [htb, binAt_modify_ne]; intro e; subst e; exact hb' hcell)
    (fun id' _ => hcells id') rfl hre (by rw [hcells]) (by rw [hcell']; rfl) rfl
  have hlc' : chainOfBin s' b = s.heap.length :: chainOfBin s b := by
    rw [← hchain, ← hlc, hcell']; rfl
  -- the abstract states
  have hlive : liveId s p.key = id := liveId_of_side W rfl
  have habs0 : absOf s p.key = none := by
    rw [absOf_live X hlive, absL_eq_none_iff]
    intro j hj; exact hfr j (Or.inl hj)
  -- the invariant
  have hsync : ∀ b', (binAt s'.tbins b').mutex = (binAt s.tbins b').mutex ∧
      (binAt s'.tbins b').writer = (binAt s.tbins b').writer ∧ (binAt s'.tbins b').waiter = (binAt s.tbins b').waiter ∧
      (binAt s'.tbins b').readers = (binAt s.tbins b').readers := by
    intro b'
    rw [htb, binAt_modify]
    split <;> exact ⟨rfl, rfl, rfl, rfl⟩
  have hlock : ∀ h, (nodeAt s'.heap h).lock = (nodeAt s.heap h).lock := by
    intro h
    by_cases hh : h < s.heap.length
    · rw [hold0 h hh]
    · by_cases hh2 : h = s.heap.length
      · subst hh2; rw [hnew0, nodeAt_ge (Nat.le_refl _)]; rfl
      · rw [nodeAt_ge (by omega), nodeAt_ge (by omega)]
  have T' : TInv s' := by
    refine tinv_keep (l' := l') I.thr hl hthr rfl rfl rfl ⟨(fun h => by cases h), (fun h => by cases h)⟩ ?_
    intro p1 hp1 _
    exact I.thr.opOK t ⟨.tPrependLocked tab b, some p⟩ p1 hl hp1 rfl
  have L' : LInv s' :=
    tw_linv (l' := l') (b := b) I hl hcells hthr rfl (by rw [htb, List.length_modify]) hsync hlock
      rfl rfl rfl rfl rfl rfl rfl rfl rfl rfl rfl
  have Iv' : Inv s' := by
    refine inv_store (l' := l') I W T hl (Or.inl ⟨rfl, rfl⟩) hthr H' T' L' XS' rfl
      (fun b' hb' => Or.inl (by rw [← hcells]; exact hb')) ?_
      (by simp only [KInv, l']) ?_ ?_
    · intro p1 hp1
      cases hp1
      simp only [PcInv, FreshOK, l']
      refine ⟨by rw [hlc']; exact List.mem_cons_self, by rw [hnew0], by rw [hnew0], ?_⟩
      intro j hj ho hin
      rw [hlen] at hj
      by_cases hjl : j < s.heap.length
      · rw [hold0 j hjl] at ho hin ⊢
        exact h0 j hjl ho hin
      · have : j = s.heap.length := by omega
        subst this
        rw [hnew0] at hin; cases hin
    · intro b' hc' j hj ho hin hnc
      rw [hcell'] at hc'; cases hc'
      rw [hlen] at hj
      exfalso
      by_cases hjl : j < s.heap.length
      · rw [hold0 j hjl] at ho hin
        exact hnc (by rw [hlc']; exact List.mem_cons_of_mem _ (hsub j hjl ho hin))
      · have : j = s.heap.length := by omega
        subst this
        rw [hnew0] at hin; cases hin
    · intro b' hc' j hj hin
      rw [hcell'] at hc'; cases hc'
      rw [hlc'] at hj
      rcases List.mem_cons.1 hj with hj | hj
      · exact ⟨tab, by rw [hj]⟩
      · have hjl : j < s.heap.length := (H.cinv id).chain_lt (show j ∈ chainC s (cellAt s id) by rw [hchain]; exact hj)
        rw [hold0 j hjl, hsup j hj] at hin; cases hin
  have hnm : cellAt s' id ≠ .moved := by rw [hcell']; exact fun h => by cases h
  have ks : ∀ k, KStep s s' k :=
    kstep_of_store (l' := l') I W H' T hs (fun _ h => h.elim) (fun id' => by rw [hcells]) hl hthr (fun _ _ _ _ h => by cases h)
      (fun h => by cases h)
  have E : Eff s s' :=
    eff_store Iv' I W T ks hnm (fun b' hb' _ => by rw [hcells]; exact hb') (fun b' _ hb' _ => by rw [hcells]; exact hb')
      (fun b' _ hw => Or.inl (by rw [(hsync b').2.1]; exact hw)) (fun b' hb' => Or.inl (by rw [hcells]; exact hb'))
      (fun b' hb' => Or.inl (by rw [← hcells]; exact hb'))
  refine ⟨E, ?_, ?_⟩
  · rw [habs0, habs p.key, if_pos rfl]
    rcases hop with hop | hop <;> rw [hop] <;> rfl
  · intro k hk
    rw [habs k, if_neg (fun e => hk e.symm)]

/-! ## `tUnlinkLocked` -/

/-- the shape of the state after the list unlink of node `i` of the list of `TreeBin` `b` -/
private theorem unlinkOf_shape_g {s : State} {b i : Nat} (hok : NextOK s.heap) (hnd : (chainOfBin s b).Nodup)
    (hb0 : b < s.tbins.length) (hi : i ∈ chainOfBin s b) :
    (unlinkOf (tick s) b i).tabs = s.tabs ∧ (unlinkOf (tick s) b i).cur = s.cur ∧
      (unlinkOf (tick s) b i).resizing = s.resizing ∧
      (unlinkOf (tick s) b i).now = s.now + 1 ∧
      (unlinkOf (tick s) b i).hist = s.hist ∧ (unlinkOf (tick s) b i).threads = s.threads ∧
      (unlinkOf (tick s) b i).tbins.length = s.tbins.length ∧
      (∀ b', (binAt (unlinkOf (tick s) b i).tbins b').mutex = (binAt s.tbins b').mutex ∧
        (binAt (unlinkOf (tick s) b i).tbins b').writer = (binAt s.tbins b').writer ∧
        (binAt (unlinkOf (tick s) b i).tbins b').waiter = (binAt s.tbins b').waiter ∧
        (binAt (unlinkOf (tick s) b i).tbins b').readers = (binAt s.tbins b').readers) ∧
      (∀ b', b' ≠ b → binAt (unlinkOf (tick s) b i).tbins b' = binAt s.tbins b') ∧
      ((∃ l2, chainOfBin s b = i :: l2 ∧ (unlinkOf (tick s) b i).heap = s.heap ∧
          (binAt (unlinkOf (tick s) b i).tbins b).first = (nodeAt s.heap i).next) ∨
        (∃ l1 pr l2, chainOfBin s b = l1 ++ pr :: i :: l2 ∧
          (unlinkOf (tick s) b i).heap = s.heap.modify pr (fun m => { m with next := (nodeAt s.heap i).next }) ∧
          (binAt (unlinkOf (tick s) b i).tbins b).first = (binAt s.tbins b).first)) := by
  have _ := hok
  have hlcb : chainOfBin (tick s) b = chainOfBin s b := rfl
  rcases predOf_cases hnd hi with ⟨l2, hch, hpr⟩ | ⟨l1, pr, l2, hch, hpr⟩
  · have hU : unlinkOf (tick s) b i = setBin (tick s) b (fun y => { y with first := (nodeAt s.heap i).next }) := by
      unfold unlinkOf; rw [hlcb, hpr]; rfl
    rw [hU]
    have hb : ∀ b', binAt (setBin (tick s) b (fun y => { y with first := (nodeAt s.heap i).next })).tbins b' =
        if b = b' ∧ b' < s.tbins.length then { binAt s.tbins b' with first := (nodeAt s.heap i).next }
        else binAt s.tbins b' := fun b' => binAt_modify _ _ _ _
    refine ⟨rfl, rfl, rfl, rfl, rfl, rfl, by show (s.tbins.modify b _).length = _; rw [List.length_modify],
      ?_, ?_, Or.inl ⟨l2, hch, rfl, ?_⟩⟩
    · intro b'
      rw [hb]
      split <;> exact ⟨rfl, rfl, rfl, rfl⟩
    · intro b' hne
      rw [hb, if_neg (fun e => hne e.1.symm)]
    · rw [hb, if_pos ⟨rfl, hb0⟩]
  · have hU : unlinkOf (tick s) b i = setNode (tick s) pr (fun m => { m with next := (nodeAt s.heap i).next }) := by
      unfold unlinkOf; rw [hlcb, hpr]; rfl
    rw [hU]
    exact ⟨rfl, rfl, rfl, rfl, rfl, rfl, rfl, fun b' => ⟨rfl, rfl, rfl, rfl⟩, fun _ _ => rfl,
      Or.inr ⟨l1, pr, l2, hch, rfl, rfl⟩⟩

/-- the removal from the tree bin: the list unlink (`tUnlinkLocked`) -/
theorem unlink_facts {s : State} {t : Nat} {l : Local} {p : Pending} {tab : Nat} {b i : Nat} {res : KRes} (small : Bool)
    (I : Inv s) (hl : s.threads[t]? = some l) (hp : l.call = some p) (hpc : l.pc = .tUnlinkLocked tab b i res) :
    let s' := setT (unlinkOf (tick s) b i) t
      { l with pc := if small then .tUntreeify tab b res else .tRestructure tab b i res }
    XShape s' → (Eff s s' ∧ specStep (absOf s p.key) p.op = (absOf s' p.key, res) ∧
      ∀ k, k ≠ p.key → absOf s' k = absOf s k) := by
  obtain ⟨pc, call⟩ := l
  simp only at hp hpc
  subst hp hpc
  intro s' XS'
  let pc' : Pc := if small then .tUntreeify tab b res else .tRestructure tab b i res
  let l' : Local := ⟨pc', some p⟩
  let id : Cid := idOf tab p.key
  have H := I.heap
  have X := I.rsz
  have h0 := I.data.pcInv t _ p hl rfl
  simp only [PcInv, RemOK] at h0
  obtain ⟨hi, hin0, hkey0, hspec⟩ := h0
  have hcell : cellAt s id = .tree b := I.lock.vT t _ b hl rfl
  have W : Writable s id := I.writable_valid hl rfl rfl
  have hb0 : b < s.tbins.length := H.cellOK id b hcell
  have hsub := tree_sub_chain_mx I hl hcell rfl (fun _ _ _ h => by cases h) (fun _ _ h => by cases h)
  have hsup := chain_sub_tree_mx I hl hcell rfl (fun _ _ h => by cases h)
  have hchain : chainC s (cellAt s id) = chainOfBin s b := by rw [hcell]; rfl
  have hnd : (chainOfBin s b).Nodup := by rw [← hchain]; exact (H.cinv id).nodup
  have hi' : i ∈ chainC s (cellAt s id) := by rw [hchain]; exact hi
  have hil : i < s.heap.length := (H.cinv id).chain_lt hi'
  obtain ⟨hc0, hcur, _, hnow, hhist, hthr0, htlen, hsync, hbin, hcase⟩ :=
    unlinkOf_shape_g H.nextOK hnd hb0 hi
  have hcells : ∀ id', cellAt s' id' = cellAt s id' := cellAt_same hc0
  have hcell' : cellAt s' id = .tree b := by rw [hcells]; exact hcell
  have hnow : s'.now = s.now + 1 := hnow
  have hhist : s'.hist = s.hist := hhist
  have hthr : s'.threads = s.threads.set t l' := by
    show (unlinkOf (tick s) b i).threads.set t _ = _
    rw [hthr0]
  have hre : ∀ b' j0, Reusing s b' j0 → Reusing s' b' j0 :=
    reusing_of_set_pc hthr hl ⟨fun _ _ _ h => (by cases h), fun _ _ h => (by cases h)⟩
  have htlen : s'.tbins.length = s.tbins.length := htlen
  have hsync : ∀ b', (binAt s'.tbins b').mutex = (binAt s.tbins b').mutex ∧
      (binAt s'.tbins b').writer = (binAt s.tbins b').writer ∧ (binAt s'.tbins b').waiter = (binAt s.tbins b').waiter ∧
      (binAt s'.tbins b').readers = (binAt s.tbins b').readers := hsync
  have hbin : ∀ b', b' ≠ b → binAt s'.tbins b' = binAt s.tbins b' := hbin
  have hcase : (∃ l2, chainOfBin s b = i :: l2 ∧ s'.heap = s.heap ∧
        (binAt s'.tbins b).first = (nodeAt s.heap i).next) ∨
      (∃ l1 pr l2, chainOfBin s b = l1 ++ pr :: i :: l2 ∧
        s'.heap = s.heap.modify pr (fun m => { m with next := (nodeAt s.heap i).next }) ∧
        (binAt s'.tbins b).first = (binAt s.tbins b).first) := hcase
  have hfields0 : ∀ j, (nodeAt s'.heap j).inTree = (nodeAt s.heap j).inTree ∧
      (nodeAt s'.heap j).owner = (nodeAt s.heap j).owner := by
    intro j
    rcases hcase with ⟨l2, _, hh, _⟩ | ⟨l1, pr, l2, _, hh, _⟩
    · rw [hh]; exact ⟨rfl, rfl⟩
    · rw [hh, nodeAt_modify]; split <;> exact ⟨rfl, rfl⟩
  have hlen0 : s'.heap.length = s.heap.length := by
    rcases hcase with ⟨l2, _, hh, _⟩ | ⟨l1, pr, l2, _, hh, _⟩
    · rw [hh]
    · rw [hh, List.length_modify]
  have hT : ∀ j, treeOf s' (cellAt s' id) j → treeOf s (cellAt s id) j := by
    intro j hj
    rw [hcell'] at hj
    rw [hcell]
    obtain ⟨h1, h2, b', hb', h3⟩ := hj
    cases hb'
    rw [hlen0] at h1
    rw [(hfields0 j).1] at h2
    rw [(hfields0 j).2] at h3
    exact ⟨h1, h2, b, rfl, h3⟩
  have hcase' : (∃ l2, chainC s (cellAt s id) = i :: l2 ∧ s'.heap = s.heap ∧
        startOf s'.tbins (cellAt s' id) = (nodeAt s.heap i).next) ∨
      (∃ l1 pr l2, chainC s (cellAt s id) = l1 ++ pr :: i :: l2 ∧
        s'.heap = s.heap.modify pr (fun m => { m with next := (nodeAt s.heap i).next }) ∧
        startOf s'.tbins (cellAt s' id) = startOf s.tbins (cellAt s id)) := by
    rw [hchain, hcell', hcell]
    exact hcase
  have hnm : cellAt s' id ≠ .moved := by rw [hcell']; exact fun h => by cases h
  obtain ⟨H', T, hs, hmem, hlen, hf, habs⟩ := sunlink_store (s' := s') (id := id) (i := i) H X W hcase' hT htlen
    (by intro b' hb'; exact hbin b' (fun e => hb' (by rw [e]; exact hcell)))
    (fun id' _ => hcells id') hcur hre (by rw [hcells]) hnm
  have hmem' : ∀ j, j ∈ chainOfBin s' b ↔ j ∈ chainOfBin s b ∧ j ≠ i := by
    intro j
    have := hmem j
    rw [hcell', hchain] at this
    exact this
  -- facts about the new pc
  have hpc'1 : holdsLock pc' = none := by cases small <;> rfl
  have hpc'2 : validL pc' = none := by cases small <;> rfl
  have hpc'3 : validT pc' = some b := by cases small <;> rfl
  have hpc'4 : holdsMutex pc' = some b := by cases small <;> rfl
  have hpc'5 : holdsRead pc' = none := by cases small <;> rfl
  have hpc'6 : wr pc' = true := by cases small <;> rfl
  have hpc'7 : binRef pc' = some b := by cases small <;> rfl
  have hpc'8 : pend s' pc' = [] := by cases small <;> rfl
  have hpc'9 : noCallPc pc' = false := by cases small <;> rfl
  have hpc'10 : readerPc pc' = false := by cases small <;> rfl
  have hpc'11 : xPc pc' = false := by cases small <;> rfl
  have hpc'13 : cidOf s l' = id := by cases small <;> rfl
  have hpc'14 : ∀ tab1 k1 h1 b1, pc' ≠ .kStore tab1 k1 h1 b1 := by
    cases small <;> intro _ _ _ _ h <;> simp [pc'] at h
  have hpc'15 : KInv s' pc' := by cases small <;> simp only [pc', KInv, if_true, Bool.false_eq_true, if_false]
  -- the abstract states
  have hlive : liveId s p.key = id := by
    have := W.liveId_of_mem H (Or.inl hi')
    rw [hkey0] at this
    exact this
  have habs1 : absOf s p.key = some (nodeAt s.heap i).val := by
    have hd : ∀ a c, a ∈ chainC s (cellAt s id) → c ∈ chainC s (cellAt s id) →
        (nodeAt s.heap a).key = (nodeAt s.heap c).key → a = c := (H.cinv id).distinct
    rw [absOf_live X hlive, absL_eq_some_iff hd]
    exact ⟨i, hi', hkey0, rfl⟩
  -- the invariant
  have T' : TInv s' := by
    refine tinv_keep (l' := l') I.thr hl hthr hnow hhist rfl
      ⟨(fun h => by cases h), (fun h => by rw [hpc'9] at h; cases h)⟩ ?_
    intro p1 hp1 _
    have := I.thr.opOK t ⟨.tUnlinkLocked tab b i res, some p⟩ p1 hl hp1 rfl
    rw [hpc'10]
    exact this
  have L' : LInv s' :=
    tw_linv (l' := l') (b := b) I hl hcells hthr hcur htlen hsync (fun h => (hf h).2.2.2.2)
      hpc'1 hpc'2 hpc'3 rfl hpc'13 hpc'4 hpc'5 hpc'6 rfl hpc'7 hpc'8
  have Iv' : Inv s' := by
    refine inv_store (l' := l') I W T hl (Or.inl ⟨rfl, rfl⟩) hthr H' T' L' XS' hpc'11
      (fun b' hb' => Or.inl (by rw [← hcells]; exact hb')) ?_ hpc'15 ?_ ?_
    · intro p1 hp1
      cases hp1
      cases small with
      | true => simp only [l', pc', if_true, PcInv]
      | false =>
        simp only [l', pc', Bool.false_eq_true, if_false, PcInv]
        refine ⟨fun h => ((hmem' i).1 h).2 rfl, by rw [(hf i).2.2.1]; exact hin0, by rw [hlen]; exact hil, ?_⟩
        rw [(hf i).2.2.2.1]
        have := H.chainOwner id i hi'
        rw [hcell] at this
        exact this
    · intro b' hcb j hj ho hin hnc
      rw [hcell'] at hcb; cases hcb
      rw [hlen] at hj
      rw [(hf j).2.2.1] at hin; rw [(hf j).2.2.2.1] at ho
      have hjc := hsub j hj ho hin
      have hji : j = i := by
        apply Classical.byContradiction
        intro hne
        exact hnc ((hmem' j).2 ⟨hjc, hne⟩)
      subst hji
      cases small with
      | true => exact Or.inr ⟨tab, res, rfl⟩
      | false => exact Or.inl ⟨tab, res, rfl⟩
    · intro b' hcb j hj hin
      rw [hcell'] at hcb; cases hcb
      rw [(hf j).2.2.1, hsup j ((hmem' j).1 hj).1] at hin; cases hin
  have ks : ∀ k, KStep s s' k :=
    kstep_of_store (l' := l') I W H' T hs (fun _ h => h.elim) (W.moved_iff X (fun id' _ => hcells id') hnm) hl hthr
      (fun tab1 k1 h1 b1 h => absurd h (hpc'14 tab1 k1 h1 b1)) (fun h => by rw [hpc'11] at h; cases h)
  have E : Eff s s' :=
    eff_store Iv' I W T ks hnm (fun b' hb' _ => by rw [hcells]; exact hb') (fun b' _ hb' _ => by rw [hcells]; exact hb')
      (fun b' _ hw => Or.inl (by rw [(hsync b').2.1]; exact hw)) (fun b' hb' => Or.inl (by rw [hcells]; exact hb'))
      (fun b' hb' => Or.inl (by rw [← hcells]; exact hb'))
  refine ⟨E, ?_, ?_⟩
  · rw [habs1, habs p.key, if_pos hkey0]
    exact hspec
  · intro k hk
    rw [habs k, if_neg (by rw [hkey0]; exact fun e => hk e.symm)]

end Flurry.Proto.BinGNP
