import Flurry.Lemmas.TableK
/-! # Proto/TableK: non-vacuity — a concrete reachable quiescent table with calls in two bins

Two bins, two threads. Thread 0 inserts key 1 (bin 1) while thread 1 inserts key 2 (bin 0); then
thread 0 reads key 2 (bin 0) while thread 1 removes key 1 (bin 1), the four calls interleaved step
by step. The final state is reachable and quiescent, the map history holds the four calls with
times on ONE clock (the calls of different bins overlap), and the abstract map is `{2 ↦ (20, 200)}`.
`step` refuses a call on a key of another bin and a thread that is busy in another bin. -/
namespace Flurry.Proto.TableK
open Flurry.Lin Flurry.LinMap

/-- `(bin, thread, invocation, listOnly, maint, small)` -/
abbrev Sch := Nat × Nat × Option (Nat × KOp) × Bool × Bool × Bool

def run (S : State) : List Sch → Option State
  | [] => some S
  | (i, t, inv, lo, mt, sm) :: rest =>
    match step S i t inv lo mt sm with
    | some S' => run S' rest
    | none => none

theorem run_reachable {m n : Nat} : ∀ (sched : List Sch) {S S' : State},
    Reachable m n S → run S sched = some S' → Reachable m n S'
  | [], S, S', hr, h => by
    simp only [run, Option.some.injEq] at h
    exact h ▸ hr
  | (i, t, inv, lo, mt, sm) :: rest, S, S', hr, h => by
    simp only [run] at h
    cases hs : step S i t inv lo mt sm with
    | none => rw [hs] at h; cases h
    | some S1 =>
      rw [hs] at h
      exact run_reachable rest (Reachable.step i t inv lo mt sm hr hs) h

abbrev call (i t k : Nat) (op : KOp) : Sch := (i, t, some (k, op), false, false, false)
abbrev go (i t : Nat) : Sch := (i, t, none, false, false, false)

def exSchedule : List Sch :=
  [ call 1 0 1 (.ins 10 100), call 0 1 2 (.ins 20 200), go 1 0, go 0 1, go 0 1, go 1 0,
    call 0 0 2 .get, call 1 1 1 .rm, go 1 1, go 0 0, go 1 1, go 1 1, go 0 0, go 1 1, go 1 1, go 1 1, go 1 1 ]

def exHist : MHistory :=
  [ ⟨2, ⟨1, .ins 20 200, .none, 2, 5⟩⟩, ⟨2, ⟨0, .get, .some 20 200, 7, 13⟩⟩,
    ⟨1, ⟨0, .ins 10 100, .none, 1, 6⟩⟩, ⟨1, ⟨1, .rm, .some 10 100, 8, 16⟩⟩ ]

def exCheck : Bool :=
  match run (init 2 2) exSchedule with
  | some S =>
    S.bins.all (fun b => b.threads.all (fun l => l.pc == .idle)) && mhist S == exHist &&
      absMap S 1 == none && absMap S 2 == some (20, 200) &&
      (S.bins.map (fun b => b.hist.map (·.1))) == [[2, 2], [1, 1]]
  | none => false

theorem exCheck_true : exCheck = true := by decide

/-- a reachable quiescent table with two bins whose history holds calls on two keys of two bins -/
theorem example_state :
    ∃ S : State, Reachable 2 2 S ∧ quiescent S ∧ mhist S = exHist ∧ absMap S 1 = none ∧ absMap S 2 = some (20, 200) ∧
      S.bins.map (fun b => b.hist.map (·.1)) = [[2, 2], [1, 1]] := by
  have h := exCheck_true
  unfold exCheck at h
  cases hrun : run (init 2 2) exSchedule with
  | none => rw [hrun] at h; cases h
  | some S =>
    rw [hrun] at h
    simp only [Bool.and_eq_true, List.all_eq_true, beq_iff_eq] at h
    obtain ⟨⟨⟨⟨hq, hh⟩, h1⟩, h2⟩, hb⟩ := h
    exact ⟨S, run_reachable exSchedule Reachable.init hrun, fun b hb l hl => hq b hb l hl, hh, h1, h2, hb⟩

/-- a call on a key of another bin is refused; so is a thread that is busy in another bin -/
theorem example_refused :
    (step (init 2 2) 0 0 (some (1, .ins 1 1)) false false false).isNone = true ∧
    ((run (init 2 2) [call 0 0 2 (.ins 1 1), call 1 0 1 .get]).isNone = true) := by decide

end Flurry.Proto.TableK
