import Flurry.Lemmas.BinNGInv
import Flurry.Lemmas.BinNInvAux
import Flurry.Lemmas.BinNHMInvAux
/-! # Proto/BinNH — port of the `Proto/BinN` lemma file of the same name to the heap invariant with ONE
MID-TRANSFER CELL PER HELPER (`Lemmas/BinNHMDefs.lean`); statements about `BinN.State`. Original header: the ghost invariant (trace `A`, points `pt`, hindsight justification of every reader) -/
namespace Flurry.Proto.BinNHM
open Flurry.Proto.BinN
open Flurry.Lin
open Flurry.Proto.BinX (NodeS Cell Pending isReader dflt nodeAt nodeAt_of_some get_set get_set_self get_set_ne
  nextA nextA_old nextA_new updPt updPt_self updPt_ne CallOK Sim isReader_eq_isRead)

structure GInv (k : Nat) (s : State) (G : Ghost) (A : Nat → KSt) (pt : Nat → Nat) : Prop where
  core : GCore k s A pt
  readers : ∀ (t : Nat) (l : Local) (p : Pending) (cur : Option Nat), s.threads[t]? = some l →
    l.call = some p → p.key = k → l.pc = .rNode cur → Good G A k p.inv s cur

/-- the readers' justifications survive a transition -/
theorem readers_step {k : Nat} {s s' : State} {G G' : Ghost} {A A' : Nat → KSt} {pt : Nat → Nat} {t : Nat}
    {l' : Local} (g : GInv k s G A pt) (T : TInv s) (hcar : Carries k s s' G G' A A')
    (hthr : s'.threads = s.threads.set t l')
    (hself : ∀ (p : Pending) (cur : Option Nat), l'.call = some p → p.key = k → l'.pc = .rNode cur →
      p.inv ≤ s.now ∧ Good G A k p.inv s cur) :
    ∀ (t1 : Nat) (l1 : Local) (p1 : Pending) (cur : Option Nat), s'.threads[t1]? = some l1 →
      l1.call = some p1 → p1.key = k → l1.pc = .rNode cur → Good G' A' k p1.inv s' cur := by
  intro t1 l1 p1 cur h1 hc1 hk1 hpc1
  rw [hthr] at h1
  rcases get_set h1 with ⟨rfl, rfl⟩ | ⟨_, h1⟩
  · obtain ⟨hi, hg⟩ := hself p1 cur hc1 hk1 hpc1
    exact hcar _ _ hi hg
  · exact hcar _ _ (T.pendTime t1 l1 p1 h1 hc1) (g.readers t1 l1 p1 cur h1 hc1 hk1 hpc1)

/-- transitions that add no call on `k` and do not change the abstract state of `k` -/
theorem ginv_quiet {k : Nat} {s s' : State} {G G' : Ghost} {A : Nat → KSt} {pt : Nat → Nat} {t : Nat}
    {l l' : Local} {hnew : List (Nat × Call)}
    (g : GInv k s G A pt) (T : TInv s) (hcar : Carries k s s' G G' A (nextA A s.now (absOf s' k)))
    (hl : s.threads[t]? = some l) (hthr : s'.threads = s.threads.set t l') (hnow : s'.now = s.now + 1)
    (hhist : s'.hist = hnew ++ s.hist) (hnk : ∀ c, (k, c) ∉ hnew)
    (habs : absOf s' k = absOf s k)
    (he : extOf k s.now t l = none) (he' : extOf k (s.now + 1) t l' = none)
    (hself : ∀ (p : Pending) (cur : Option Nat), l'.call = some p → p.key = k → l'.pc = .rNode cur →
      p.inv ≤ s.now ∧ Good G A k p.inv s cur) :
    GInv k s' G' (nextA A s.now (absOf s' k)) pt :=
  ⟨gcore_quiet g.core T hl hthr hnow hhist hnk habs he he', readers_step g T hcar hthr hself⟩

/-- transitions that add the call `c0` of thread `t` (to the history or as a stored writer) -/
theorem ginv_new {k : Nat} {s s' : State} {G G' : Ghost} {A : Nat → KSt} {pt : Nat → Nat} {t : Nat}
    {l l' : Local} {hnew : List (Nat × Call)} {p : Pending} {c0 : Call} {τ0 : Nat}
    (g : GInv k s G A pt) (T : TInv s) (hcar : Carries k s s' G G' A (nextA A s.now (absOf s' k)))
    (hl : s.threads[t]? = some l) (hp : l.call = some p)
    (hthr : s'.threads = s.threads.set t l') (hnow : s'.now = s.now + 1)
    (hhist : s'.hist = hnew ++ s.hist)
    (he : extOf k s.now t l = none)
    (honly : ∀ c', (k, c') ∈ hnew ∨ extOf k (s.now + 1) t l' = some c' → c' = c0)
    (hmem : c0 ∈ callsOnExt s' k)
    (hinv0 : c0.inv = p.inv)
    (hok : CallOK (nextA A s.now (absOf s' k)) (updPt pt p.inv τ0) c0)
    (hw : isRead c0.op = false → τ0 = s.now + 1)
    (hchg : absOf s' k ≠ absOf s k → isRead c0.op = false)
    (hself : ∀ (p : Pending) (cur : Option Nat), l'.call = some p → p.key = k → l'.pc = .rNode cur →
      p.inv ≤ s.now ∧ Good G A k p.inv s cur) :
    GInv k s' G' (nextA A s.now (absOf s' k)) (updPt pt p.inv τ0) :=
  ⟨gcore_new g.core T hl hp hthr hnow hhist he honly hmem hinv0 hok hw hchg, readers_step g T hcar hthr hself⟩

/-- a quiet transition of a thread without a call -/
theorem ginv_quiet_nocall {k : Nat} {s s' : State} {G G' : Ghost} {A : Nat → KSt} {pt : Nat → Nat} {t : Nat}
    {l l' : Local}
    (g : GInv k s G A pt) (T : TInv s) (hcar : Carries k s s' G G' A (nextA A s.now (absOf s' k)))
    (hl : s.threads[t]? = some l) (hthr : s'.threads = s.threads.set t l') (hnow : s'.now = s.now + 1)
    (hhist : s'.hist = s.hist) (habs : absOf s' k = absOf s k) (hc : l.call = none) (hc' : l'.call = none) :
    GInv k s' G' (nextA A s.now (absOf s' k)) pt :=
  ginv_quiet (hnew := []) g T hcar hl hthr hnow hhist (by simp) habs (extOf_none_of_call hc)
    (extOf_none_of_call hc') (fun p cur h => by rw [hc'] at h; cases h)

end Flurry.Proto.BinNHM
