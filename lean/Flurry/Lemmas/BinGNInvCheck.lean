import Flurry.Lemmas.BinGNExamples
/-! # Proto/BinGN: the candidate structural invariant (heap, transfer plan, locks, data), as an EXECUTABLE check

NOT a proof. `violations s` evaluates, clause by clause, the structural invariant `Inv` of `Lemmas/BinGInv.lean`
re-stated for the cells `(g, j)` of ANY number of generations (what `binGN_linearizable_quiescent` will need):

* `HInv`: `NextOK`; for every cell `(g, j)`: the start of its structure is a heap index, the list is a proper
  chain (ends in `none`, no repetition), keys on list ∪ tree are pairwise distinct, the owner of every list node is
  the `TreeBin` of the cell (or nobody), **every key on the list / in the tree belongs to the cell:
  `key % 2^g = j`** (the generalisation of `side`); `ownerOK`, `firstOK`, `cellOK`; two cells hold the same
  `TreeBin` only while a transfer that re-uses it is between its first store and the marker (`binsDistinct`);
* `XInv.plan`: the planned / stored children of the cell `(cur, j)` under transfer are `CopyOK` (the nine clauses of
  `BinG.CopyOK`, with `sel k = (bitAt cur k == side)`) relative to the chain of `(cur, j)`, and not the same `TreeBin`;
* `LInv`: `bitsNone`, `bitsSome` for the `TreeBin`s in cells; `refOK` (a referenced `TreeBin` exists and is not an
  unpublished one); (`lk`, `mx`, `vL`, `vT`, `rd`, `wrd` are PROVED: `GenInv`, `OwnInv`, `RwInv`);
* `DInv`: `PcInv` (the walk of a list writer, `tVal`, `FreshOK`, `RemOK`, `tTreeLinkLocked`, `tRestructure`),
  `KInv` (the private `TreeBin` of a treeify is a copy of the list and is in no cell), `treeSub`, `chainSub`.

`checkRuns` replays random schedules and evaluates `violations` after EVERY step. Result (see the `#eval` at the end
and the report): no clause is ever violated — the BinG invariant generalises clause by clause. -/
namespace Flurry.Proto.BinGN
open Flurry.Lin

def nodeA (s : State) (i : Nat) : NodeS := s.heap.getD i dflt
def binA (s : State) (b : Nat) : TBin := s.tbins.getD b dfltB

def startOfC (s : State) : Cell → Option Nat
  | .list h => some h
  | .tree b => (binA s b).first
  | _ => none

def ownerOfC : Cell → Option Nat
  | .tree b => some b
  | _ => none

/-- the nodes in the tree of a structure -/
def treeNodes (s : State) : Cell → List Nat
  | .tree b => (List.range s.heap.length).filter fun i => (nodeA s i).owner == some b && (nodeA s i).inTree
  | _ => []

def allCells (s : State) : List (Nat × Nat × Cell) :=
  (List.range s.tabs.length).flatMap fun g => (List.range (2 ^ g)).map fun j => (g, j, cellAt s g j)

def nextOKB (s : State) : Bool :=
  (List.range s.heap.length).all fun i =>
    match (nodeA s i).next with
    | none => true
    | some j => j < s.heap.length && j != i &&
        (!(i < j) || (match (nodeA s j).next with | none => true | some j' => j < j'))

/-- the chain is complete: it ends in a node without successor (it was not cut off by the fuel) and has no
repetition -/
def properChain (s : State) (c : Cell) : Bool :=
  let L := chainOfCell s c
  L.Nodup && L.all (· < s.heap.length) &&
  (match startOfC s c with
   | none => L.isEmpty
   | some h => h < s.heap.length && L.head? == some h &&
       (match L.getLast? with | some z => (nodeA s z).next == none | none => false))

def keysDistinctB (s : State) (c : Cell) : Bool :=
  let U := (chainOfCell s c ++ treeNodes s c).eraseDups
  (U.map fun i => (nodeA s i).key).Nodup

def idxOf (L : List Nat) (i : Nat) : Nat := L.findIdx (· == i)

/-- `BinG.CopyOK`, clause by clause; returns the names of the violated clauses -/
def copyOKV (s : State) (tag : String) (old : Cell) (sel : Nat → Bool) (C : Cell) : List String :=
  let O := chainOfCell s old
  let L := chainOfCell s C
  let T := treeNodes s C
  let chk (n : String) (b : Bool) : List String := if b then [] else [tag ++ "." ++ n]
  chk "notMoved" (C != .moved) ++
  chk "cinv" (properChain s C && keysDistinctB s C) ++
  chk "cellOK" (match C with | .tree b => b < s.tbins.length | _ => true) ++
  chk "chainOwner" (L.all fun j => (nodeA s j).owner == ownerOfC C) ++
  chk "selOK" ((L ++ T).all fun j => sel (nodeA s j).key) ++
  chk "src" (L.all fun j => O.contains j ||
    O.any fun i => (nodeA s i).key == (nodeA s j).key && (nodeA s i).val == (nodeA s j).val &&
      O.all fun r => !(L.contains r) || idxOf O i < idxOf O r) ++
  chk "cover" (O.all fun i => !(sel (nodeA s i).key) ||
    L.any fun j => (nodeA s j).key == (nodeA s i).key && (nodeA s j).val == (nodeA s i).val &&
      (j == i || !(O.contains j))) ++
  chk "suffix" (O.all fun r => !(L.contains r) || O.all fun i => !(idxOf O r < idxOf O i) || L.contains i) ++
  chk "order" (O.all fun i => O.all fun c =>
    !(L.contains i && L.contains c && idxOf L i < idxOf L c) || idxOf O i < idxOf O c) ++
  chk "fresh" (match C with
    | .tree b =>
      old == .tree b ||
        (binA s b == { first := (binA s b).first } &&
         ((List.range s.heap.length).all fun j => ((nodeA s j).owner == some b) == L.contains j) &&
         L.all fun j => (nodeA s j).inTree)
    | _ => true)

/-- the structures a thread has built (or stored into a cell that is not yet live) but not yet published -/
def pendC (s : State) : Pc → List Cell
  | .kStore _ _ _ b => [.tree b]
  | .xStoreLow _ _ lo hi => [lo, hi]
  | .xStoreHigh j _ hi => [cellAt s (s.cur + 1) j, hi]
  | .xStoreMoved j _ => [cellAt s (s.cur + 1) j, cellAt s (s.cur + 1) (j + 2 ^ s.cur)]
  | _ => []

/-- the cell under transfer -/
def xferIdx : Pc → Option Nat
  | .xStoreLow j _ _ _ | .xStoreHigh j _ _ | .xStoreMoved j _ => some j
  | _ => none

def privBinB (s : State) (b : Nat) : Bool :=
  s.threads.any fun l => (pendC s l.pc).contains (.tree b) &&
    (match xferIdx l.pc with | some j => cellAt s s.cur j != .tree b | none => true)

def binRefC : Pc → Option Nat
  | .rFirst b | .rState b _ | .rLin b _ | .rCas b _ _ | .rTree b | .rRelease b _ | .lFirst b | .tMutex _ b
  | .tCheck _ b | .tFind _ b | .tVal _ b _ _ _ | .lrTry _ b _ _ | .lrLoop _ b _ _ | .tPrependLocked _ b
  | .tTreeLinkLocked _ b _ | .tUnlinkLocked _ b _ _ | .tRestructure _ b _ _ | .tUnlockRoot _ b _
  | .tUntreeify _ b _ | .tUnlockM _ b _ _ | .yMutex _ b | .yCheck _ b | .yBuild _ b => some b
  | .xStoreLow _ (.inr b) _ _ | .xStoreHigh _ (.inr b) _ | .xStoreMoved _ (.inr b) | .xUnlock (.inr b) => some b
  | _ => none

def wrC : Pc → Bool
  | .tPrependLocked _ _ | .tTreeLinkLocked _ _ _ | .tUnlinkLocked _ _ _ _ | .tRestructure _ _ _ _
  | .tUnlockRoot _ _ _ | .tUntreeify _ _ _ => true
  | _ => false

def isLoopC : Pc → Bool
  | .lrLoop _ _ _ _ => true
  | _ => false

/-- the walk of a validated list writer -/
def walkB (s : State) (h key : Nat) (pred cur : Option Nat) : Bool :=
  let L := chainOfCell s (.list h)
  let pos := match cur with | none => L.length | some c => idxOf L c
  let l1 := L.take pos
  (match cur with | none => true | some c => L.contains c) && pred == l1.getLast? &&
    l1.all fun j => (nodeA s j).key != key

def freshOKB (s : State) (b key : Nat) : Bool :=
  (List.range s.heap.length).all fun j =>
    !((nodeA s j).owner == some b && (nodeA s j).inTree) || (nodeA s j).key != key

def remOKB (s : State) (b : Nat) (p : Pending) (i : Nat) (res : KRes) : Bool :=
  (chainOfBin s b).contains i && (nodeA s i).inTree && (nodeA s i).key == p.key &&
    specStep (some (nodeA s i).val) p.op == (none, res)

def pcInvB (s : State) (p : Pending) : Pc → Bool
  | .rNode (some c) | .rState _ (some c) | .rCas _ c _ | .rLin _ c | .lNode (some c) => c < s.heap.length
  | .rVal _ => p.op != .has
  | .wFind _ h pred cur => walkB s h p.key pred cur
  | .wStore _ h pred hit hnext => walkB s h p.key pred hit &&
      (match hit with | some i => (nodeA s i).key == p.key && hnext == (nodeA s i).next | none => true)
  | .tVal _ b i v res => (chainOfBin s b).contains i && (nodeA s i).key == p.key &&
      specStep (some (nodeA s i).val) p.op == (some v, res)
  | .lrTry _ b .insert _ | .lrLoop _ b .insert _ | .tPrependLocked _ b => freshOKB s b p.key
  | .tTreeLinkLocked _ b x => (chainOfBin s b).contains x && !(nodeA s x).inTree && (nodeA s x).key == p.key &&
      freshOKB s b p.key
  | .lrTry _ b (.remove i) res | .lrLoop _ b (.remove i) res | .tUnlinkLocked _ b i res => remOKB s b p i res
  | .tRestructure _ b i _ => !(chainOfBin s b).contains i && (nodeA s i).inTree && i < s.heap.length &&
      (nodeA s i).owner == some b
  | _ => true

/-- the names of the violated clauses (empty = the candidate invariant holds) -/
def violations (s : State) : List String :=
  let chk (n : String) (b : Bool) : List String := if b then [] else [n]
  let cells := allCells s
  chk "nextOK" (nextOKB s) ++
  chk "cinv.chain" (cells.all fun (_, _, c) => properChain s c) ++
  chk "cinv.keysDistinct" (cells.all fun (_, _, c) => keysDistinctB s c) ++
  chk "ownerOK" ((List.range s.heap.length).all fun i =>
    match (nodeA s i).owner with | some b => b < s.tbins.length | none => true) ++
  chk "firstOK" ((List.range s.tbins.length).all fun b =>
    match (binA s b).first with | some h => h < s.heap.length | none => true) ++
  chk "chainOwner" (cells.all fun (_, _, c) => (chainOfCell s c).all fun i => (nodeA s i).owner == ownerOfC c) ++
  chk "side" (cells.all fun (g, j, c) => (chainOfCell s c ++ treeNodes s c).all fun i => (nodeA s i).key % 2 ^ g == j) ++
  chk "binsDistinct" (cells.all fun (g, j, c) => cells.all fun (g', j', c') =>
    match c with
    | .tree b =>
      !(c' == .tree b) || (g == g' && j == j') ||
        -- parent `(cur, j0)` and its child, while the transfer that re-uses `b` is past its first store
        (s.threads.any fun l => match l.pc with
          | .xStoreHigh j0 (.inr b') _ | .xStoreMoved j0 (.inr b') =>
            b' == b && ((g == s.cur && j == j0 && g' == s.cur + 1 && j' % 2 ^ s.cur == j0) ||
                        (g' == s.cur && j' == j0 && g == s.cur + 1 && j % 2 ^ s.cur == j0))
          | _ => false)
    | _ => true) ++
  -- the plan of the transfer
  (s.threads.flatMap fun l =>
    match xferIdx l.pc with
    | none => []
    | some j =>
      let old := cellAt s s.cur j
      match pendC s l.pc with
      | [lo, hi] =>
        copyOKV s "plan.low" old (fun k => !bitAt s.cur k) lo ++ copyOKV s "plan.high" old (fun k => bitAt s.cur k) hi ++
        chk "plan.distinct" (match lo with | .tree b => hi != .tree b | _ => true)
      | _ => ["plan.shape"]) ++
  -- the private `TreeBin` of a treeify
  (s.threads.flatMap fun l =>
    match l.pc with
    | .kStore _ _ h b => copyOKV s "kInv" (.list h) (fun _ => true) (.tree b) ++
        chk "kInv.inNoCell" (cells.all fun (_, _, c) => c != .tree b)
    | _ => []) ++
  -- locks: the synchronisation words of the `TreeBin`s in cells
  chk "bitsNone" (cells.all fun (_, _, c) => match c with
    | .tree b => (binA s b).mutex.isSome || (!(binA s b).writer && !(binA s b).waiter)
    | _ => true) ++
  chk "bitsSome" (cells.all fun (_, _, c) => match c with
    | .tree b => (match (binA s b).mutex with
      | some t => let l := s.threads.getD t {}
          (binA s b).writer == wrC l.pc && (!(binA s b).waiter || isLoopC l.pc)
      | none => true)
    | _ => true) ++
  chk "refOK" (s.threads.all fun l => match binRefC l.pc with
    | some b => b < s.tbins.length && !privBinB s b
    | none => true) ++
  -- data
  chk "pcInv" (s.threads.all fun l => match l.call with | some p => pcInvB s p l.pc | none => true) ++
  chk "treeSub" (cells.all fun (_, _, c) => match c with
    | .tree b => (treeNodes s c).all fun j => (chainOfBin s b).contains j ||
        s.threads.any fun l => match l.pc with
          | .tRestructure _ b' j' _ => b' == b && j' == j
          | .tUntreeify _ b' _ => b' == b
          | _ => false
    | _ => true) ++
  chk "chainSub" (cells.all fun (_, _, c) => match c with
    | .tree b => (chainOfBin s b).all fun j => (nodeA s j).inTree ||
        s.threads.any fun l => match l.pc with
          | .tTreeLinkLocked _ b' j' => b' == b && j' == j
          | _ => false
    | _ => true)

/-- replay a schedule and collect the violated clauses of every visited state -/
def checkSched (f : StepFn) (n : Nat) (sc : Sched) : Cov × Nat := Id.run do
  let mut s := init n
  let mut bad : Cov := []
  let mut states := 0
  for a in sc do
    match act f s a with
    | none => pure ()
    | some s' =>
      s := s'
      states := states + 1
      for v in violations s do bad := bad.bump v
  return (bad, states)

/-- `nruns` random schedules (as `explore`), the candidate invariant evaluated after every step -/
def checkRuns (cfg : Cfg) (seed0 nruns : Nat) : Cov × Nat := Id.run do
  let mut bad : Cov := []
  let mut states := 0
  for i in [0:nruns] do
    let (sc, _, _) := oneRun cfg (rngNext (seed0 + 7919 * i)) []
    let (b, n) := checkSched (if cfg.noCheck then stepNoCheck else step) cfg.nthreads sc
    states := states + n
    for (k, c) in b do
      for _ in [0:c] do bad := bad.bump k
  return (bad, states)

/-- a small sample at build time -/
def sampleInv : Cov × Nat := checkRuns { nthreads := 3, steps := 200, wake := 2 } 5 25

#eval IO.println s!"candidate invariant: {sampleInv.2} states checked, violated clauses: {repr sampleInv.1}"

end Flurry.Proto.BinGN
