import Flurry.Proto.BinGN
/-! # Proto/BinGN, port of the `Lemmas/BinG*.lean` development: the namespace `Flurry.Proto.BinGNP`

The files `Lemmas/BinGNP*.lean` are the `Lemmas/BinG*.lean` files re-done for `Proto/BinGN` (cells `(g, j)`, any
number of resizes). They live in their own namespace so that the BinG names (`cellAt s id`, `keyOf`, `Inv`, …) can
be kept; the model is re-exported here. In this namespace a cell id is `Cid = Nat × Nat` and
`cellAt s id = BinGN.cellAt s id.1 id.2`; a "table" is a generation `g : Nat`. -/
namespace Flurry.Proto.BinGNP
open Flurry.Lin

export Flurry.Proto.BinK (NodeS TBin Pending After isReader dflt dfltB chainFrom copyChain predOf absentRes)
export Flurry.Proto.BinG (Cell cellOfHead)
export Flurry.Proto.BinGN (Pc Local State init bitAt cellOf putCell setCell chainOfBin chainOfCell liveFrom liveCell
  absOf treeFind setNode setBin setT finish storeAt lastRunStartB splitBinB splitSide afterLock allMoved stepG step
  stepNoCheck Reachable ReachableNoCheck callsOn quiescent)

abbrev Cid := Nat × Nat

/-- cell `(g, j)` -/
def cellAt (s : State) (id : Cid) : Cell := Flurry.Proto.BinGN.cellAt s id.1 id.2

/-- the cell of key `k` in generation `g` -/
def idOf (g k : Nat) : Cid := (g, k % 2 ^ g)

theorem cellOf_eq (s : State) (g k : Nat) : cellOf s g k = cellAt s (idOf g k) := rfl

end Flurry.Proto.BinGNP
