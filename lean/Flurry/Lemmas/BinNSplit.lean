import Flurry.Lemmas.BinNOrd
import Flurry.Lemmas.BinXSplit
/-! # Proto/BinN: the split of the old list (`splitBinB`) establishes `Split` (C01, C10)

Port of `Lemmas/BinXSplit` to several generations of copies: `splitBinB bit heap O` re-uses the last
run of `O` and prepends a fresh copy of every earlier node to its side's list. The old chain may contain
copies of earlier generations, so it is sorted by `ord cr0` (not by index). We show: the new heap extends
the old one, `next` pointers still go upwards in `ord` once the fresh index range has been added to the
copy set, and the two new lists are chains satisfying `SideOK`. -/
namespace Flurry.Proto.BinN
open Flurry.Lin
open Flurry.Proto.BinX (NodeS Cell dflt chainFrom nodeAt IsSeg IsChain KeysDistinct nodeAt_append_left
  nodeAt_append_new nodeAt_of_some isChain_head isChain_head_lt mem_takeWhile_imp' mem_drop_lastRun)

/-! ## the order -/

private theorem ord_copy {cr : CR} {i : Nat} (h : isCopy cr i) : ord cr i = -(i : Int) - 1 := by
  unfold ord; rw [if_pos h]

private theorem ord_not_copy {cr : CR} {i : Nat} (h : ¬ isCopy cr i) : ord cr i = (i : Int) := by
  unfold ord; rw [if_neg h]

private theorem ord_inj {cr : CR} {i j : Nat} (h : ord cr i = ord cr j) : i = j := by
  unfold ord at h
  split at h <;> split at h <;> omega

private theorem ord_ge (cr : CR) (i : Nat) : -(i : Int) - 1 ≤ ord cr i := by
  unfold ord; split <;> omega

private theorem ord_congr {cr cr' : CR} {i : Nat} (h : cr' i = cr i) : ord cr' i = ord cr i := by
  by_cases hc : isCopy cr i
  · have hc' : isCopy cr' i := by unfold isCopy at hc ⊢; rw [h]; exact hc
    rw [ord_copy hc, ord_copy hc']
  · have hc' : ¬ isCopy cr' i := by unfold isCopy at hc ⊢; rw [h]; exact hc
    rw [ord_not_copy hc, ord_not_copy hc']

/-- below the added range nothing changes -/
private theorem addRange_below {cr : CR} {a b i : Nat} (h : i < a) : addRange cr a b i = cr i := by
  unfold addRange
  have : decide (a ≤ i) = false := decide_eq_false (by omega)
  rw [this]; simp

private theorem addRange_empty (cr : CR) (a i : Nat) : addRange cr a a i = cr i := by
  unfold addRange
  by_cases h : a ≤ i
  · have : decide (i < a) = false := decide_eq_false (by omega)
    rw [this]; simp
  · have : decide (a ≤ i) = false := decide_eq_false h
    rw [this]; simp

private theorem addRange_grow {cr : CR} {a b i : Nat} (h : i < b) : addRange cr a (b + 1) i = addRange cr a b i := by
  unfold addRange
  have h1 : decide (i < b + 1) = true := decide_eq_true (by omega)
  have h2 : decide (i < b) = true := decide_eq_true h
  rw [h1, h2]

private theorem addRange_in {cr : CR} {a b i : Nat} (h1 : a ≤ i) (h2 : i < b) : isCopy (addRange cr a b) i := by
  unfold isCopy addRange
  have h1 : decide (a ≤ i) = true := decide_eq_true h1
  have h2 : decide (i < b) = true := decide_eq_true h2
  rw [h1, h2]; simp

private theorem ord_below {cr : CR} {a b i : Nat} (h : i < a) : ord (addRange cr a b) i = ord cr i :=
  ord_congr (addRange_below h)

private theorem ord_grow {cr : CR} {a b i : Nat} (h : i < b) :
    ord (addRange cr a (b + 1)) i = ord (addRange cr a b) i :=
  ord_congr (addRange_grow h)

/-- every node of a segment is at or above its start -/
private theorem segLb {cr : CR} {heap : List NodeS} (hok : NextOK cr heap) {a e : Option Nat} {l : List Nat}
    (h : IsSeg heap a l e) : ∀ j ∈ l, ∀ i, a = some i → ord cr i ≤ ord cr j := by
  induction h with
  | nil e => intro j hj; cases hj
  | cons hn hs ih =>
    rename_i i n l e
    intro j hj i' hi'
    cases hi'
    rcases List.mem_cons.1 hj with rfl | hj
    · exact Int.le_refl _
    · cases hnx : n.next with
      | none =>
        rw [hnx] at hs
        cases hs with
        | nil => cases hj
      | some b =>
        have := ih j hj b hnx
        have := (hok _ _ _ hn hnx).1
        omega

/-- segments are strictly increasing in `ord` -/
private theorem segSorted {cr : CR} {heap : List NodeS} (hok : NextOK cr heap) {a e : Option Nat} {l : List Nat}
    (h : IsSeg heap a l e) : l.Pairwise (fun x y => ord cr x < ord cr y) := by
  induction h with
  | nil e => exact List.Pairwise.nil
  | cons hn hs ih =>
    rename_i i n l e
    refine List.pairwise_cons.2 ⟨?_, ih⟩
    intro j hj
    cases hnx : n.next with
    | none =>
      rw [hnx] at hs
      cases hs with
      | nil => cases hj
    | some b =>
      have := segLb hok hs j hj b hnx
      have := (hok _ _ _ hn hnx).1
      omega

/-! ## the last run -/

/-- the split bit of the node `i` of `heap` -/
def bitOfB (bit : Nat → Bool) (heap : List NodeS) (i : Nat) : Bool := bit (nodeAt heap i).key

theorem lastRunStartB_le (bit : Nat → Bool) (heap : List NodeS) (c : List Nat) :
    lastRunStartB bit heap c ≤ c.length := by
  unfold lastRunStartB
  dsimp only
  split <;> omega

/-- all nodes of the last run have the same split bit -/
theorem lastRunStartB_bits (bit : Nat → Bool) (heap : List NodeS) (c : List Nat) :
    ∃ b, ∀ i ∈ c.drop (lastRunStartB bit heap c), bitOfB bit heap i = b := by
  unfold lastRunStartB
  dsimp only
  split
  · rename_i hnone
    have : c = [] := by simpa using hnone
    subst this
    exact ⟨false, by intro i hi; cases hi⟩
  · rename_i b hb
    refine ⟨b, ?_⟩
    have hlen : ((c.map fun i => bit (heap.getD i dflt).key).reverse.takeWhile (· == b)).length =
        (c.reverse.takeWhile (fun i => bitOfB bit heap i == b)).length := by
      rw [← List.map_reverse, List.takeWhile_map, List.length_map]
      rfl
    rw [hlen]
    intro i hi
    have := mem_drop_lastRun (fun i => bitOfB bit heap i == b) c i hi
    simpa using this

/-! ## the fold of `splitBinB` -/

/-- one iteration of the copy loop of `splitBinB` -/
def splitStepB (bit : Nat → Bool) (acc : List NodeS × Option Nat × Option Nat) (i : Nat) :
    List NodeS × Option Nat × Option Nat :=
  if bit (acc.1.getD i dflt).key then
    (acc.1 ++ [⟨(acc.1.getD i dflt).key, (acc.1.getD i dflt).val, acc.2.2, none⟩], acc.2.1, some acc.1.length)
  else
    (acc.1 ++ [⟨(acc.1.getD i dflt).key, (acc.1.getD i dflt).val, acc.2.1, none⟩], some acc.1.length, acc.2.2)

/-- the split bit of a run (of its head) -/
def runBitOfB (bit : Nat → Bool) (heap : List NodeS) (run : List Nat) : Bool :=
  match run.head? with
  | some i => bit (heap.getD i dflt).key
  | none => false

theorem splitBinB_eq (bit : Nat → Bool) (heap : List NodeS) (c : List Nat) :
    splitBinB bit heap c = (c.take (lastRunStartB bit heap c)).foldl (splitStepB bit)
      (heap,
       (if runBitOfB bit heap (c.drop (lastRunStartB bit heap c)) then none
        else (c.drop (lastRunStartB bit heap c)).head?),
       (if runBitOfB bit heap (c.drop (lastRunStartB bit heap c)) then (c.drop (lastRunStartB bit heap c)).head?
        else none)) := rfl

theorem runBitOfB_spec {bit : Nat → Bool} {heap : List NodeS} {run : List Nat} {b : Bool}
    (h : ∀ i ∈ run, bitOfB bit heap i = b) :
    ∀ i ∈ run, bitOfB bit heap i = runBitOfB bit heap run := by
  cases run with
  | nil => intro i hi; cases hi
  | cons a run =>
    intro i hi
    have : runBitOfB bit heap (a :: run) = bitOfB bit heap a := rfl
    rw [this, h i hi, h a List.mem_cons_self]

/-- the copies on the new list of side `b`, after the nodes `P` have been processed -/
structure CopiesOKB (bit : Nat → Bool) (heap hp : List NodeS) (P : List Nat) (b : Bool) (C : List Nat) : Prop where
  copy : ∀ x ∈ C, heap.length ≤ x ∧ x < hp.length
  side : ∀ x ∈ C, bitOfB bit hp x = b
  cover : ∀ i ∈ P, bitOfB bit heap i = b → ∃ x ∈ C, (nodeAt hp x).key = (nodeAt heap i).key ∧
    (nodeAt hp x).val = (nodeAt heap i).val

theorem CopiesOKB.grow {bit : Nat → Bool} {heap hp : List NodeS} {P : List Nat} {b : Bool} {C : List Nat}
    (h : CopiesOKB bit heap hp P b C) (ext : List NodeS) : CopiesOKB bit heap (hp ++ ext) P b C where
  copy x hx := ⟨(h.copy x hx).1, by rw [List.length_append]; have := (h.copy x hx).2; omega⟩
  side x hx := by
    unfold bitOfB
    rw [nodeAt_append_left ext (h.copy x hx).2]
    exact h.side x hx
  cover i hi hb := by
    obtain ⟨x, hx, h1, h2⟩ := h.cover i hi hb
    refine ⟨x, hx, ?_⟩
    rw [nodeAt_append_left ext (h.copy x hx).2]
    exact ⟨h1, h2⟩

theorem CopiesOKB.addOther {bit : Nat → Bool} {heap hp : List NodeS} {P : List Nat} {b : Bool} {C : List Nat}
    (h : CopiesOKB bit heap hp P b C) {i : Nat} (hb : bitOfB bit heap i ≠ b) :
    CopiesOKB bit heap hp (P ++ [i]) b C where
  copy := h.copy
  side := h.side
  cover i' hi' hb' := by
    rcases List.mem_append.1 hi' with hi' | hi'
    · exact h.cover i' hi' hb'
    · rw [List.mem_singleton] at hi'
      subst hi'
      exact absurd hb' hb

theorem CopiesOKB.addSame {bit : Nat → Bool} {heap hp : List NodeS} {P : List Nat} {b : Bool} {C : List Nat}
    (h : CopiesOKB bit heap hp P b C) {i x : Nat} (hx1 : heap.length ≤ x) (hx2 : x < hp.length)
    (hs : bitOfB bit hp x = b) (hk : (nodeAt hp x).key = (nodeAt heap i).key)
    (hv : (nodeAt hp x).val = (nodeAt heap i).val) : CopiesOKB bit heap hp (P ++ [i]) b (x :: C) where
  copy y hy := by
    rcases List.mem_cons.1 hy with rfl | hy
    · exact ⟨hx1, hx2⟩
    · exact h.copy y hy
  side y hy := by
    rcases List.mem_cons.1 hy with rfl | hy
    · exact hs
    · exact h.side y hy
  cover i' hi' hb' := by
    rcases List.mem_append.1 hi' with hi' | hi'
    · obtain ⟨y, hy, h1⟩ := h.cover i' hi' hb'
      exact ⟨y, List.mem_cons_of_mem _ hy, h1⟩
    · rw [List.mem_singleton] at hi'
      subst hi'
      exact ⟨x, List.mem_cons_self, hk, hv⟩

/-- the grown heap after the nodes `P` have been copied -/
structure HeapOKB (cr0 : CR) (heap : List NodeS) (P : List Nat) (hp : List NodeS) : Prop where
  ext : ∃ cs, hp = heap ++ cs
  src : ∀ x, heap.length ≤ x → x < hp.length → ∃ i ∈ P, (nodeAt hp x).key = (nodeAt heap i).key ∧
    (nodeAt hp x).val = (nodeAt heap i).val
  inj : ∀ x y, heap.length ≤ x → x < hp.length → heap.length ≤ y → y < hp.length →
    (nodeAt hp x).key = (nodeAt hp y).key → x = y
  nextOK : NextOK (addRange cr0 heap.length hp.length) hp

theorem HeapOKB.le {cr0 : CR} {heap : List NodeS} {P : List Nat} {hp : List NodeS} (h : HeapOKB cr0 heap P hp) :
    heap.length ≤ hp.length := by
  obtain ⟨cs, rfl⟩ := h.ext
  rw [List.length_append]; omega

theorem HeapOKB.old {cr0 : CR} {heap : List NodeS} {P : List Nat} {hp : List NodeS} (h : HeapOKB cr0 heap P hp)
    {x : Nat} (hx : x < heap.length) : nodeAt hp x = nodeAt heap x := by
  obtain ⟨cs, rfl⟩ := h.ext
  exact nodeAt_append_left cs hx

theorem HeapOKB.step {cr0 : CR} {heap : List NodeS} {P : List Nat} {hp : List NodeS} (h : HeapOKB cr0 heap P hp)
    {i : Nat} (hfresh : ∀ j ∈ P, (nodeAt heap j).key ≠ (nodeAt heap i).key) (n : NodeS)
    (hk : n.key = (nodeAt heap i).key) (hv : n.val = (nodeAt heap i).val)
    (hnx : ∀ j, n.next = some j → j < hp.length) : HeapOKB cr0 heap (P ++ [i]) (hp ++ [n]) := by
  have hle := h.le
  have hL : (hp ++ [n]).length = hp.length + 1 := by simp
  have hnew : nodeAt (hp ++ [n]) hp.length = n := nodeAt_append_new hp n
  have hsrc' : ∀ x, heap.length ≤ x → x < hp.length + 1 → ∃ i' ∈ P ++ [i],
      (nodeAt (hp ++ [n]) x).key = (nodeAt heap i').key ∧ (nodeAt (hp ++ [n]) x).val = (nodeAt heap i').val := by
    intro x hx1 hx2
    by_cases hx : x < hp.length
    · obtain ⟨i', hi', h1⟩ := h.src x hx1 hx
      refine ⟨i', List.mem_append_left _ hi', ?_⟩
      rw [nodeAt_append_left [n] hx]; exact h1
    · have : x = hp.length := by omega
      subst this
      refine ⟨i, by simp, ?_⟩
      rw [hnew]; exact ⟨hk, hv⟩
  have hne : ∀ x, heap.length ≤ x → x < hp.length → (nodeAt hp x).key ≠ n.key := by
    intro x hx1 hx2 he
    obtain ⟨i', hi', h1, -⟩ := h.src x hx1 hx2
    exact hfresh i' hi' (by rw [← h1, he, hk])
  refine ⟨?_, ?_, ?_, ?_⟩
  · obtain ⟨cs, hcs⟩ := h.ext
    exact ⟨cs ++ [n], by rw [hcs, List.append_assoc]⟩
  · rw [hL]; exact hsrc'
  · rw [hL]
    intro x y hx1 hx2 hy1 hy2 hxy
    by_cases hx : x < hp.length
    · by_cases hy : y < hp.length
      · rw [nodeAt_append_left [n] hx, nodeAt_append_left [n] hy] at hxy
        exact h.inj x y hx1 hx hy1 hy hxy
      · have : y = hp.length := by omega
        subst this
        rw [nodeAt_append_left [n] hx, hnew] at hxy
        exact absurd hxy (hne x hx1 hx)
    · have : x = hp.length := by omega
      subst this
      by_cases hy : y < hp.length
      · rw [nodeAt_append_left [n] hy, hnew] at hxy
        exact absurd hxy.symm (hne y hy1 hy)
      · omega
  · rw [hL]
    intro a m j ha hj
    by_cases hlt : a < hp.length
    · rw [List.getElem?_append_left hlt] at ha
      obtain ⟨h1, h2⟩ := h.nextOK a m j ha hj
      rw [ord_grow hlt, ord_grow h2]
      exact ⟨h1, by omega⟩
    · by_cases hae : a = hp.length
      · subst hae
        have : m = n := by
          have := nodeAt_of_some ha
          rw [hnew] at this; exact this.symm
        subst this
        have hjl := hnx j hj
        have h1 : ord (addRange cr0 heap.length (hp.length + 1)) hp.length = -(hp.length : Int) - 1 :=
          ord_copy (addRange_in hle (Nat.lt_succ_self _))
        have h2 := ord_ge (addRange cr0 heap.length (hp.length + 1)) j
        rw [h1]
        exact ⟨by omega, by omega⟩
      · have := (List.getElem?_eq_some_iff.1 ha).1
        rw [hL] at this
        omega

/-- the invariant of the copy loop: `P` are the nodes processed so far, `lr` / `hr` the re-used parts -/
structure SplitInvB (bit : Nat → Bool) (cr0 : CR) (heap : List NodeS) (lr hr : List Nat) (P : List Nat)
    (acc : List NodeS × Option Nat × Option Nat) : Prop where
  heapOK : HeapOKB cr0 heap P acc.1
  chains : ∃ LC HC, IsChain acc.1 acc.2.1 (LC ++ lr) ∧ IsChain acc.1 acc.2.2 (HC ++ hr) ∧
    CopiesOKB bit heap acc.1 P false LC ∧ CopiesOKB bit heap acc.1 P true HC

theorem splitInvB_step {bit : Nat → Bool} {cr0 : CR} {heap : List NodeS} {lr hr P : List Nat}
    {acc : List NodeS × Option Nat × Option Nat}
    (h : SplitInvB bit cr0 heap lr hr P acc) {i : Nat} (hi : i < heap.length)
    (hfresh : ∀ j ∈ P, (nodeAt heap j).key ≠ (nodeAt heap i).key) :
    SplitInvB bit cr0 heap lr hr (P ++ [i]) (splitStepB bit acc i) := by
  obtain ⟨hp, lo, hg⟩ := acc
  obtain ⟨hH, LC, HC, hL, hHc, hLC, hHC⟩ := h
  dsimp only at hH hL hHc hLC hHC
  have hget : hp.getD i dflt = nodeAt heap i := hH.old hi
  have hle := hH.le
  have hnew : ∀ n, nodeAt (hp ++ [n]) hp.length = n := nodeAt_append_new hp
  have hnewE : ∀ n : NodeS, (hp ++ [n])[hp.length]? = some n := by intro n; simp
  have hlen : ∀ n : NodeS, hp.length < (hp ++ [n]).length := by intro n; simp
  unfold splitStepB
  dsimp only
  rw [hget]
  by_cases hb : bit (nodeAt heap i).key = true
  · rw [if_pos hb]
    refine ⟨hH.step hfresh _ rfl rfl ?_, LC, hp.length :: HC, ?_, ?_, ?_, ?_⟩
    · intro j hj
      dsimp only at hj
      subst hj
      exact isChain_head_lt hHc
    · exact hL.append_heap _
    · exact .cons (hnewE _) (hHc.append_heap _)
    · refine (hLC.grow _).addOther ?_
      unfold bitOfB; rw [hb]; decide
    · refine (hHC.grow _).addSame hle (hlen _) ?_ ?_ ?_
      · unfold bitOfB; rw [hnew]; exact hb
      · rw [hnew]
      · rw [hnew]
  · rw [if_neg hb]
    refine ⟨hH.step hfresh _ rfl rfl ?_, hp.length :: LC, HC, ?_, ?_, ?_, ?_⟩
    · intro j hj
      dsimp only at hj
      subst hj
      exact isChain_head_lt hL
    · exact .cons (hnewE _) (hL.append_heap _)
    · exact hHc.append_heap _
    · refine (hLC.grow _).addSame hle (hlen _) ?_ ?_ ?_
      · unfold bitOfB; rw [hnew]; simpa using hb
      · rw [hnew]
      · rw [hnew]
    · refine (hHC.grow _).addOther ?_
      unfold bitOfB; simpa using hb

theorem splitInvB_fold {bit : Nat → Bool} {cr0 : CR} {heap : List NodeS} {lr hr : List Nat} :
    ∀ (Q P : List Nat) (acc : List NodeS × Option Nat × Option Nat), SplitInvB bit cr0 heap lr hr P acc →
      (∀ i ∈ Q, i < heap.length) →
      (P ++ Q).Pairwise (fun a b => (nodeAt heap a).key ≠ (nodeAt heap b).key) →
      SplitInvB bit cr0 heap lr hr (P ++ Q) (Q.foldl (splitStepB bit) acc)
  | [], P, acc, h, _, _ => by
    rw [List.append_nil]; exact h
  | i :: Q, P, acc, h, hlt, hpw => by
    have h1 := splitInvB_step h (hlt i List.mem_cons_self)
      (fun j hj => (List.pairwise_append.1 hpw).2.2 j hj i List.mem_cons_self)
    rw [List.append_cons] at hpw ⊢
    exact splitInvB_fold Q (P ++ [i]) _ h1 (fun j hj => hlt j (List.mem_cons_of_mem _ hj)) hpw

/-- the facts of the loop invariant give `SideOK` for the list `C ++ R` (fresh copies, then the re-used
run if it is on this side) -/
theorem sideOKB_of {bit : Nat → Bool} {cr0 : CR} {heap hp : List NodeS} {pre run C R : List Nat} {b rb : Bool}
    (hH : HeapOKB cr0 heap pre hp) (hC : CopiesOKB bit heap hp pre b C)
    (hlt : ∀ i ∈ pre ++ run, i < heap.length)
    (hsorted : (pre ++ run).Pairwise (fun x y => ord cr0 x < ord cr0 y))
    (hkeys : KeysDistinct heap (pre ++ run))
    (hrun : ∀ i ∈ run, bitOfB bit heap i = rb)
    (hR1 : ∀ r ∈ R, r ∈ run ∧ rb = b) (hR2 : rb = b → R = run) :
    SideOK bit hp (addRange cr0 heap.length hp.length) (heap.length, hp.length) (pre ++ run) b (C ++ R) := by
  have hpr : ∀ i ∈ pre, ∀ r ∈ run, ord cr0 i < ord cr0 r := (List.pairwise_append.1 hsorted).2.2
  have hltp : ∀ i ∈ pre, i < heap.length := fun i hi => hlt i (List.mem_append_left _ hi)
  have hltr : ∀ i ∈ run, i < heap.length := fun i hi => hlt i (List.mem_append_right _ hi)
  have hordO : ∀ i ∈ pre ++ run, ord (addRange cr0 heap.length hp.length) i = ord cr0 i :=
    fun i hi => ord_below (hlt i hi)
  -- the key of an element of `C` / of `R`
  have hCk : ∀ x ∈ C, ∃ i ∈ pre, (nodeAt hp x).key = (nodeAt heap i).key := by
    intro x hx
    obtain ⟨i, hi, h1, -⟩ := hH.src x (hC.copy x hx).1 (hC.copy x hx).2
    exact ⟨i, hi, h1⟩
  have hRk : ∀ x ∈ R, x ∈ run ∧ nodeAt hp x = nodeAt heap x := by
    intro x hx
    exact ⟨(hR1 x hx).1, hH.old (hltr x (hR1 x hx).1)⟩
  -- an element of the old chain on the new list is a re-used node
  have hOX : ∀ r ∈ pre ++ run, r ∈ C ++ R → r ∈ run ∧ rb = b := by
    intro r hr hrX
    rcases List.mem_append.1 hrX with hrC | hrR
    · have := (hC.copy r hrC).1
      have := hlt r hr
      omega
    · exact hR1 r hrR
  have hCR : ∀ x ∈ C, ∀ y ∈ R, (nodeAt hp x).key ≠ (nodeAt hp y).key := by
    intro x hx y hy he
    obtain ⟨i, hi, hik⟩ := hCk x hx
    obtain ⟨hyr, hyn⟩ := hRk y hy
    rw [hik, hyn] at he
    have h1 := hkeys i (List.mem_append_left _ hi) y (List.mem_append_right _ hyr) he
    have h2 := hpr i hi y hyr
    rw [h1] at h2
    omega
  refine ⟨?_, ?_, ?_, ?_, ?_, ?_⟩
  · intro x hx
    rcases List.mem_append.1 hx with hx | hx
    · exact hC.side x hx
    · obtain ⟨hxr, hxn⟩ := hRk x hx
      rw [hxn]
      exact (hrun x hxr).trans (hR1 x hx).2
  · intro x hx y hy hxy
    rcases List.mem_append.1 hx with hx | hx
    · rcases List.mem_append.1 hy with hy | hy
      · exact hH.inj x y (hC.copy x hx).1 (hC.copy x hx).2 (hC.copy y hy).1 (hC.copy y hy).2 hxy
      · exact absurd hxy (hCR x hx y hy)
    · rcases List.mem_append.1 hy with hy | hy
      · exact absurd hxy.symm (hCR y hy x hx)
      · obtain ⟨hxr, hxn⟩ := hRk x hx
        obtain ⟨hyr, hyn⟩ := hRk y hy
        rw [hxn, hyn] at hxy
        exact hkeys x (List.mem_append_right _ hxr) y (List.mem_append_right _ hyr) hxy
  · intro x hx
    rcases List.mem_append.1 hx with hx | hx
    · exact Or.inr (hC.copy x hx)
    · exact Or.inl (List.mem_append_right _ (hR1 x hx).1)
  · intro x _ hcp
    have hcp' : heap.length ≤ x ∧ x < hp.length := hcp
    obtain ⟨i, hi, h1, h2⟩ := hH.src x hcp'.1 hcp'.2
    refine ⟨i, List.mem_append_left _ hi, ?_, ?_, ?_⟩
    · rw [hH.old (hltp i hi)]; exact h1.symm
    · rw [hH.old (hltp i hi)]; exact h2.symm
    · intro r hr hrX
      rw [hordO i (List.mem_append_left _ hi), hordO r hr]
      exact hpr i hi r (hOX r hr hrX).1
  · intro i hi hib
    rw [hH.old (hlt i hi)] at hib ⊢
    rcases List.mem_append.1 hi with hip | hir
    · obtain ⟨x, hx, h1, h2⟩ := hC.cover i hip hib
      exact ⟨x, List.mem_append_left _ hx, h1, h2, Or.inr (hC.copy x hx)⟩
    · have hrb : rb = b := (hrun i hir).symm.trans hib
      refine ⟨i, List.mem_append_right _ (by rw [hR2 hrb]; exact hir), ?_, ?_, Or.inl rfl⟩
      · rw [hH.old (hlt i hi)]
      · rw [hH.old (hlt i hi)]
  · intro r hr hrX i hi hri
    obtain ⟨hrr, hrb⟩ := hOX r hr hrX
    rw [hordO r hr, hordO i hi] at hri
    rcases List.mem_append.1 hi with hip | hir
    · have := hpr i hip r hrr
      omega
    · exact List.mem_append_right _ (by rw [hR2 hrb]; exact hir)

/-- **the split**: the new heap extends the old one, its `next` pointers go upwards once the fresh index
range has been added to the copy set, and the two heads are the heads of well-formed lists of their sides -/
theorem splitBinB_spec {bit : Nat → Bool} {cr0 : CR} {heap : List NodeS} {h : Nat} {O : List Nat}
    (hok : NextOK cr0 heap) (hcr : ∀ i, isCopy cr0 i → i < heap.length)
    (hO : IsChain heap (some h) O) (hkeys : KeysDistinct heap O) :
    ∃ ext, (splitBinB bit heap O).1 = heap ++ ext ∧
      NextOK (addRange cr0 heap.length (splitBinB bit heap O).1.length) (splitBinB bit heap O).1 ∧
      Split bit (splitBinB bit heap O).1 (addRange cr0 heap.length (splitBinB bit heap O).1.length)
        (heap.length, (splitBinB bit heap O).1.length) O
        (splitBinB bit heap O).2.1 (splitBinB bit heap O).2.2 := by
  have _ := hcr
  have hsorted : O.Pairwise (fun x y => ord cr0 x < ord cr0 y) := segSorted hok hO
  have hlt : ∀ i ∈ O, i < heap.length := hO.lt_length
  have hpwk : O.Pairwise (fun a b => (nodeAt heap a).key ≠ (nodeAt heap b).key) :=
    hsorted.imp_of_mem (fun {a b} ha hb hab he => by
      have := hkeys a ha b hb he
      rw [this] at hab
      omega)
  rw [splitBinB_eq]
  generalize hk : lastRunStartB bit heap O = k
  have hsplit : O.take k ++ O.drop k = O := List.take_append_drop k O
  generalize hpre : O.take k = pre at hsplit ⊢
  have hrunb : ∃ b, ∀ i ∈ O.drop k, bitOfB bit heap i = b := hk ▸ lastRunStartB_bits bit heap O
  generalize hrune : O.drop k = run at hsplit hrunb ⊢
  obtain ⟨b0, hb0⟩ := hrunb
  have hrun := runBitOfB_spec hb0
  generalize runBitOfB bit heap run = rb at hrun ⊢
  subst hsplit
  -- the initial state of the loop
  obtain ⟨bh, hs1, hs2⟩ := hO.split
  have hbh := isChain_head hs2
  subst hbh
  have hnx0 : NextOK (addRange cr0 heap.length heap.length) heap := by
    intro a m j ha hj
    have := hok a m j ha hj
    rw [ord_congr (addRange_empty cr0 heap.length a), ord_congr (addRange_empty cr0 heap.length j)]
    exact this
  have hinit : SplitInvB bit cr0 heap (if rb then [] else run) (if rb then run else []) []
      (heap, (if rb then none else run.head?), (if rb then run.head? else none)) := by
    refine ⟨⟨⟨[], by simp⟩, ?_, ?_, hnx0⟩, [], [], ?_, ?_, ?_, ?_⟩
    · intro x h1 h2; dsimp only at h2; omega
    · intro x y h1 h2; dsimp only at h2; omega
    · cases rb
      · exact hs2
      · exact .nil _
    · cases rb
      · exact .nil _
      · exact hs2
    · exact ⟨fun x hx => (by cases hx), fun x hx => (by cases hx), fun i hi => (by cases hi)⟩
    · exact ⟨fun x hx => (by cases hx), fun x hx => (by cases hx), fun i hi => (by cases hi)⟩
  have hfin := splitInvB_fold pre [] _ hinit (fun i hi => hlt i (List.mem_append_left _ hi))
    (by rw [List.nil_append]; exact (List.pairwise_append.1 hpwk).1)
  rw [List.nil_append] at hfin
  generalize List.foldl (splitStepB bit) _ pre = res at hfin ⊢
  obtain ⟨hH, LC, HC, hL, hHc, hLC, hHC⟩ := hfin
  obtain ⟨cs, hcs⟩ := hH.ext
  refine ⟨cs, hcs, hH.nextOK, hlt, _, _, hL, hHc, ?_, ?_⟩
  · refine sideOKB_of hH hLC hlt hsorted hkeys hrun ?_ ?_
    · intro r hr
      cases rb
      · exact ⟨hr, rfl⟩
      · cases hr
    · intro hrb; subst hrb; rfl
  · refine sideOKB_of hH hHC hlt hsorted hkeys hrun ?_ ?_
    · intro r hr
      cases rb
      · cases hr
      · exact ⟨hr, rfl⟩
    · intro hrb; subst hrb; rfl

end Flurry.Proto.BinN
