import Flurry.Lemmas.BinGStepN
import Flurry.Lemmas.BinGInitG
import Flurry.Lemmas.BinGInvQB
import Flurry.Lemmas.BinGFactsL
import Flurry.Lemmas.BinGFactsT1
import Flurry.Lemmas.BinGFactsT2
import Flurry.Lemmas.BinGFactsK
import Flurry.Lemmas.BinGFactsX
import Flurry.Lemmas.BinGLinQ
/-! # Proto/BinG: every transition preserves the structural and the ghost invariant; linearizability

`stepN_eff`: every transition in normal form establishes `Eff` (structural invariant, `KStep` of every
key, frame facts for the lock-protocol readers) — by the per-transition lemmas of
`Lemmas/BinGInvQ*.lean` (quiet transitions), `Lemmas/BinGFactsL/T1/T2/K.lean` (the stores of list and
tree writers, treeify, untreeify) and `Lemmas/BinGFactsX.lean` (the resize). `ginv_step`: every
transition preserves `∃ A pt, GInv k s A pt` — by the class lemmas of `Lemmas/BinGLinQ.lean`.
Linearization points: as `Proto/BinK`; the transfer (`xStoreLow`, `xStoreHigh`, `xStoreMoved`,
`xCommit`) changes no abstract state. -/
namespace Flurry.Proto.BinG
open Flurry.Lin
open Flurry.Proto.BinK (nodeAt binAt)

/-! ## frames of the successor states -/

theorem setCell_hist (s : State) (tab : Tab) (k : Nat) (c : Cell) : (setCell s tab k c).hist = s.hist := by
  cases tab with
  | old => rfl
  | new => unfold setCell; dsimp only; split <;> rfl

theorem setCell_now (s : State) (tab : Tab) (k : Nat) (c : Cell) : (setCell s tab k c).now = s.now := by
  cases tab with
  | old => rfl
  | new => unfold setCell; dsimp only; split <;> rfl

theorem setCell_threads' (s : State) (tab : Tab) (k : Nat) (c : Cell) : (setCell s tab k c).threads = s.threads := by
  cases tab with
  | old => rfl
  | new => unfold setCell; dsimp only; split <;> rfl

theorem storeAt_frame (s : State) (tab : Tab) (p : Pending) (pred hit hnext : Option Nat) :
    (storeAt s tab p pred hit hnext).1.threads = s.threads ∧ (storeAt s tab p pred hit hnext).1.hist = s.hist ∧
      (storeAt s tab p pred hit hnext).1.now = s.now := by
  unfold storeAt
  cases p.op <;> cases hit <;> cases pred <;>
    simp only [setNode, setCell_threads', setCell_hist, setCell_now, and_self]

theorem unlinkOf_frame (s : State) (b i : Nat) :
    (unlinkOf s b i).threads = s.threads ∧ (unlinkOf s b i).hist = s.hist ∧ (unlinkOf s b i).now = s.now := by
  unfold unlinkOf
  split <;> exact ⟨rfl, rfl, rfl⟩

theorem untreeifyOf_frame (s : State) (tab : Tab) (k b : Nat) :
    (untreeifyOf s tab k b).threads = s.threads ∧ (untreeifyOf s tab k b).hist = s.hist ∧
      (untreeifyOf s tab k b).now = s.now := by
  unfold untreeifyOf
  exact ⟨setCell_threads' _ _ _ _, setCell_hist _ _ _ _, setCell_now _ _ _ _⟩

theorem ysplitOf_frame (s : State) (b : Nat) (small small2 : Bool) :
    (ysplitOf s b small small2).1.threads = s.threads ∧ (ysplitOf s b small small2).1.hist = s.hist ∧
      (ysplitOf s b small small2).1.now = s.now := by
  unfold ysplitOf
  dsimp only
  have f1 := splitSide_frame s b (lowOf s b) small (highOf s b).isEmpty
  have f2 := splitSide_frame (splitSide s b (lowOf s b) small (highOf s b).isEmpty).1 b (highOf s b) small2
    (lowOf s b).isEmpty
  have f := frame_trans f1 f2
  rw [f]
  exact ⟨rfl, rfl, rfl⟩

/-! ## the structural invariant -/

/-- **every transition establishes `Eff`** -/
theorem stepN_eff {s s' : State} {t : Nat} {l : Local} (I : Inv s) (hl : s.threads[t]? = some l)
    (hs : StepN s t l s') : Eff s s' := by
  cases hs with
  | idle hpc => exact (eff_idle I hl hpc).1
  | maint k hpc => exact (eff_maint I hl k hpc).1
  | resizeStart hpc hr => exact (eff_resizeStart I hl hpc hr).1
  | invoke k op lo hpc => exact (eff_invoke I hl k op lo hpc).1
  | move p pc' hp hpc hm => exact (eff_move I hl hpc hm).1
  | bmove p pc' tb hpc hm => exact (eff_bmove I hl hpc hm).1
  | kmove pc' hp hc hm => exact (eff_kmove I hl hc hm).1
  | kbmove pc' tb hc hm => exact (eff_kbmove I hl hc hm).1
  | fin p res hp hpc hf => exact (eff_fin I hl hpc hf).1
  | bfin p res tb hpc hf => exact (eff_bfin I hl hpc hf).1
  | cas p tab v vi hp hpc he hop => exact (cas_facts I hl hp hpc he hop).1
  | store p tab h pred hit hnext hp hpc => exact (store_facts I hl hp hpc).1
  | tval p tab b i v res hp hpc => exact (tval_facts I hl hp hpc).1
  | prepend p tab b v vi hp hpc hop => exact (prepend_facts I hl hp hpc hop).1
  | treeLink p tab b x hp hpc => exact (treeLink_facts I hl hp hpc).1
  | unlink p tab b i res small hp hpc => exact (unlink_facts small I hl hp hpc).1
  | untree p tab b i res hp hpc => exact (untree_facts I hl hp hpc).1
  | untreeify p tab b res hp hpc => exact (untreeify_facts I hl hp hpc).1
  | kbuild tab k h hc hpc => exact (kbuild_facts I hl hc hpc).1
  | kstore tab k h b hc hpc => exact (kstore_facts I hl hc hpc).1
  | xcasMoved hc hpc h0 => exact (xcasMoved_facts I hl hc hpc h0).1
  | xbuild h hc hpc => exact (xbuild_facts I hl hc hpc).1
  | ybuild b small small2 hc hpc => exact (ybuild_facts small small2 I hl hc hpc).1
  | xstoreLow unl lo hi hc hpc => exact (xstoreLow_facts I hl hc hpc).1
  | xstoreHigh unl hi hc hpc => exact (xstoreHigh_facts I hl hc hpc).1
  | xstoreMoved unl hc hpc => exact (xstoreMoved_facts I hl hc hpc).1
  | xcommit hc hpc => exact (eff_xcommit I hl hc hpc).1

theorem step_eff {s s' : State} {t : Nat} {inv : Option (Nat × KOp)} {lo : Bool} {mt : Option Nat}
    {rz sm sm2 : Bool} (I : Inv s) (hs : step s t inv lo mt rz sm sm2 = some s') : Eff s s' := by
  cases hl : s.threads[t]? with
  | none => unfold step stepG at hs; rw [hl] at hs; cases hs
  | some l => exact stepN_eff I hl (step_stepN hl hs)

theorem step_inv {s s' : State} {t : Nat} {inv : Option (Nat × KOp)} {lo : Bool} {mt : Option Nat}
    {rz sm sm2 : Bool} (I : Inv s) (hs : step s t inv lo mt rz sm sm2 = some s') : Inv s' :=
  (step_eff I hs).inv

theorem reachable_inv {n : Nat} {s : State} (hr : Reachable n s) : Inv s := by
  induction hr with
  | init => exact init_inv n
  | step t inv lo mt rz sm sm2 _ hs ih => exact step_inv ih hs

/-! ## the ghost invariant -/

/-- **every transition preserves the ghost invariant** -/
theorem ginv_step {k : Nat} {s s' : State} {A : Nat → KSt} {pt : Nat → Nat} {t : Nat} {l : Local}
    (g : GInv k s A pt) (I : Inv s) (hl : s.threads[t]? = some l) (hstep : StepN s t l s') :
    ∃ A' pt', GInv k s' A' pt' := by
  cases hstep with
  | idle hpc =>
    obtain ⟨E, habs⟩ := eff_idle I hl hpc
    exact ginv_idle g I E hl hpc rfl rfl rfl habs
  | maint k0 hpc =>
    obtain ⟨E, habs⟩ := eff_maint I hl k0 hpc
    exact ginv_maint (pc' := .kTable k0) g I E hl hpc rfl rfl rfl habs
  | resizeStart hpc hr =>
    obtain ⟨E, habs⟩ := eff_resizeStart I hl hpc hr
    exact ginv_maint (pc' := .xCell) g I E hl hpc rfl rfl rfl habs
  | invoke k0 op lo hpc =>
    obtain ⟨E, habs⟩ := eff_invoke I hl k0 op lo hpc
    exact ginv_invoke g I E hl hpc rfl rfl rfl habs
  | move p pc' hp hpc hm =>
    obtain ⟨E, habs⟩ := eff_move I hl hpc hm
    exact ginv_move g I E hl hpc hm rfl rfl rfl habs
  | bmove p pc' tb hpc hm =>
    obtain ⟨E, habs⟩ := eff_bmove I hl hpc hm
    exact ginv_bmove g I E hl hpc hm rfl rfl rfl habs
  | kmove pc' hp hc hm =>
    obtain ⟨E, habs⟩ := eff_kmove I hl hc hm
    exact ginv_kmove g I E hl hc hm rfl rfl rfl habs
  | kbmove pc' tb hc hm =>
    obtain ⟨E, habs⟩ := eff_kbmove I hl hc hm
    exact ginv_kbmove g I E hl hc hm rfl rfl rfl habs
  | fin p res hp hpc hf =>
    obtain ⟨E, habs⟩ := eff_fin I hl hpc hf
    exact ginv_fin g I E hl hpc hf rfl rfl rfl habs
  | bfin p res tb hpc hf =>
    obtain ⟨E, habs⟩ := eff_bfin I hl hpc hf
    exact ginv_bfin g I E hl hpc hf rfl rfl rfl habs
  | cas p tab v vi hp hpc he hop =>
    obtain ⟨E, hspec, hother⟩ := cas_facts I hl hp hpc he hop
    refine ginv_cas g I E hl hp (by rw [hpc]; rfl) (by rw [hpc]; rfl) (by rw [hpc]; rfl) ?_ ?_ ?_ hspec hother
    · show (setCell _ tab p.key _).threads.set t _ = _
      rw [setCell_threads']; rfl
    · show (setCell _ tab p.key _).now = _
      rw [setCell_now]; rfl
    · show _ :: (setCell _ tab p.key _).hist = _
      rw [setCell_hist, setCell_now]; rfl
  | store p tab h pred hit hnext hp hpc =>
    obtain ⟨E, hspec, hother⟩ := store_facts I hl hp hpc
    obtain ⟨f1, f2, f3⟩ := storeAt_frame (tick s) tab p pred hit hnext
    refine ginv_point (l' := { l with pc := .wUnlock tab h (storeAt (tick s) tab p pred hit hnext).2 false })
      g I E hl hp (by rw [hpc]; rfl) rfl rfl rfl (by rw [hpc]; rfl) (by rw [hpc]; rfl) ?_ ?_ ?_ hspec hother
    · show (storeAt (tick s) tab p pred hit hnext).1.threads.set t _ = _
      rw [f1]; rfl
    · show (storeAt (tick s) tab p pred hit hnext).1.now = _
      rw [f3]; rfl
    · show (storeAt (tick s) tab p pred hit hnext).1.hist = _
      rw [f2]; rfl
  | tval p tab b i v res hp hpc =>
    obtain ⟨E, hspec, hother⟩ := tval_facts I hl hp hpc
    exact ginv_point (l' := { l with pc := .tUnlockM tab b res false }) g I E hl hp (by rw [hpc]; rfl) rfl rfl rfl
      (by rw [hpc]; rfl) (by rw [hpc]; rfl) rfl rfl rfl hspec hother
  | prepend p tab b v vi hp hpc hop =>
    obtain ⟨E, hspec, hother⟩ := prepend_facts I hl hp hpc hop
    exact ginv_point (l' := { l with pc := .tTreeLinkLocked tab b s.heap.length }) g I E hl hp (by rw [hpc]; rfl) rfl
      rfl rfl (by rw [hpc]; rfl) (by rw [hpc]; rfl) rfl rfl rfl hspec hother
  | treeLink p tab b x hp hpc =>
    obtain ⟨E, habs⟩ := treeLink_facts I hl hp hpc
    exact ginv_silent (l' := { l with pc := .tUnlockRoot tab b .none }) g I E hl rfl (by rw [hpc]; rfl) rfl rfl rfl rfl
      habs
  | unlink p tab b i res small hp hpc =>
    obtain ⟨E, hspec, hother⟩ := unlink_facts small I hl hp hpc
    obtain ⟨f1, f2, f3⟩ := unlinkOf_frame (tick s) b i
    refine ginv_point (res := res)
      (l' := { l with pc := if small then .tUntreeify tab b res else .tRestructure tab b i res })
      g I E hl hp (by rw [hpc]; rfl) (by cases small <;> rfl) rfl (by cases small <;> rfl) (by rw [hpc]; rfl)
      (by rw [hpc]; rfl) ?_ ?_ ?_ hspec hother
    · show (unlinkOf (tick s) b i).threads.set t _ = _
      rw [f1]; rfl
    · show (unlinkOf (tick s) b i).now = _
      rw [f3]; rfl
    · show (unlinkOf (tick s) b i).hist = _
      rw [f2]; rfl
  | untree p tab b i res hp hpc =>
    obtain ⟨E, habs⟩ := untree_facts I hl hp hpc
    exact ginv_silent (l' := { l with pc := .tUnlockRoot tab b res }) g I E hl rfl (by rw [hpc]; rfl) rfl rfl rfl rfl
      habs
  | untreeify p tab b res hp hpc =>
    obtain ⟨E, habs⟩ := untreeify_facts I hl hp hpc
    obtain ⟨f1, f2, f3⟩ := untreeifyOf_frame (tick s) tab p.key b
    refine ginv_silent (l' := { l with pc := .tUnlockM tab b res false }) g I E hl rfl (by rw [hpc]; rfl) rfl ?_ ?_ ?_
      habs
    · show (untreeifyOf (tick s) tab p.key b).threads.set t _ = _
      rw [f1]; rfl
    · show (untreeifyOf (tick s) tab p.key b).now = _
      rw [f3]; rfl
    · show (untreeifyOf (tick s) tab p.key b).hist = _
      rw [f2]; rfl
  | kbuild tab k0 h hc hpc =>
    obtain ⟨E, habs⟩ := kbuild_facts I hl hc hpc
    exact ginv_nocall (l' := { l with pc := .kStore tab k0 h s.tbins.length }) g I E hl hc hc rfl rfl rfl habs
  | kstore tab k0 h b hc hpc =>
    obtain ⟨E, habs⟩ := kstore_facts I hl hc hpc
    refine ginv_nocall (l' := { l with pc := .kUnlock h }) g I E hl hc hc ?_ ?_ ?_ habs
    · show (setCell (tick s) tab k0 (.tree b)).threads.set t _ = _
      rw [setCell_threads']; rfl
    · show (setCell (tick s) tab k0 (.tree b)).now = _
      rw [setCell_now]; rfl
    · show (setCell (tick s) tab k0 (.tree b)).hist = _
      rw [setCell_hist]; rfl
  | xcasMoved hc hpc h0 =>
    obtain ⟨E, habs⟩ := xcasMoved_facts I hl hc hpc h0
    exact ginv_nocall (l' := { l with pc := .xCommit }) g I E hl hc hc rfl rfl rfl habs
  | xbuild h hc hpc =>
    obtain ⟨E, habs⟩ := xbuild_facts I hl hc hpc
    exact ginv_nocall (l' := { l with pc := .xStoreLow (.inl h) (xsplitOf s h).2.1 (xsplitOf s h).2.2 }) g I E hl hc hc
      rfl rfl rfl habs
  | ybuild b small small2 hc hpc =>
    obtain ⟨E, habs⟩ := ybuild_facts small small2 I hl hc hpc
    obtain ⟨f1, f2, f3⟩ := ysplitOf_frame (tick s) b small small2
    refine ginv_nocall
      (l' := { l with pc := Pc.xStoreLow (.inr b) (ysplitOf (tick s) b small small2).2.1 (ysplitOf (tick s) b small small2).2.2 })
      g I E hl hc hc ?_ ?_ ?_ habs
    · show (ysplitOf (tick s) b small small2).1.threads.set t _ = _
      rw [f1]; rfl
    · show (ysplitOf (tick s) b small small2).1.now = _
      rw [f3]; rfl
    · show (ysplitOf (tick s) b small small2).1.hist = _
      rw [f2]; rfl
  | xstoreLow unl lo hi hc hpc =>
    obtain ⟨E, habs⟩ := xstoreLow_facts I hl hc hpc
    exact ginv_nocall (l' := { l with pc := .xStoreHigh unl hi }) g I E hl hc hc rfl rfl rfl habs
  | xstoreHigh unl hi hc hpc =>
    obtain ⟨E, habs⟩ := xstoreHigh_facts I hl hc hpc
    exact ginv_nocall (l' := { l with pc := .xStoreMoved unl }) g I E hl hc hc rfl rfl rfl habs
  | xstoreMoved unl hc hpc =>
    obtain ⟨E, habs⟩ := xstoreMoved_facts I hl hc hpc
    exact ginv_nocall (l' := { l with pc := .xUnlock unl }) g I E hl hc hc rfl rfl rfl habs
  | xcommit hc hpc =>
    obtain ⟨E, habs⟩ := eff_xcommit I hl hc hpc
    exact ginv_nocall (l' := { l with pc := .idle }) g I E hl hc hc rfl rfl rfl habs

/-- the ghost invariant holds in every reachable state -/
theorem reachable_ginv {n : Nat} {s : State} (hr : Reachable n s) (k : Nat) :
    ∃ A pt, GInv k s A pt := by
  induction hr with
  | init => exact ⟨_, _, init_ginv n k⟩
  | @step s s' t inv lo mt rz sm sm2 hr hs ih =>
    obtain ⟨A, pt, g⟩ := ih
    cases hl : s.threads[t]? with
    | none => unfold step stepG at hs; rw [hl] at hs; cases hs
    | some l => exact ginv_step g (reachable_inv hr) hl (step_stepN hl hs)

/-! ## linearizability -/

/-- **linearizability of the extended per-key history** (completed calls plus writers past their
linearization point), ending in the abstract state of the live structure of the key -/
theorem binG_linearizable_ext {n : Nat} {s : State} (hr : Reachable n s) (k : Nat) :
    Lin.Linearizable (callsOnExt s k) none (absOf s k) := by
  obtain ⟨A, pt, g⟩ := reachable_ginv hr k
  exact g.linearizable (reachable_inv hr).thr

/-- quiescent form -/
theorem binG_linearizable_quiescent_aux {n : Nat} {s : State} (hr : Reachable n s) (hq : quiescent s) (k : Nat) :
    Lin.Linearizable (callsOn s k) none (absOf s k) := by
  have := binG_linearizable_ext hr k
  rw [callsOnExt_quiescent hq] at this
  exact this

/-- the three stores of a transfer (low, high, forwarding marker), the CAS of the marker into an empty
cell and the commit `cur := new` leave the abstract state of every key unchanged -/
theorem transfer_abs_invariant_aux {n : Nat} {s s' : State} (hr : Reachable n s) {t : Nat}
    {inv : Option (Nat × KOp)} {lo : Bool} {mt : Option Nat} {rz sm sm2 : Bool} {l : Local}
    (hl : s.threads[t]? = some l)
    (hpc : (∃ unl lo hi, l.pc = .xStoreLow unl lo hi) ∨ (∃ unl hi, l.pc = .xStoreHigh unl hi) ∨
      (∃ unl, l.pc = .xStoreMoved unl) ∨ l.pc = .xCasMoved ∨ l.pc = .xCommit)
    (hs : step s t inv lo mt rz sm sm2 = some s') (k : Nat) : absOf s' k = absOf s k := by
  have I := reachable_inv hr
  have hN := step_stepN hl hs
  have hc : l.call = none := by
    apply (I.thr.callOK t l hl).2
    rcases hpc with ⟨_, _, _, h⟩ | ⟨_, _, h⟩ | ⟨_, h⟩ | h | h <;> rw [h] <;> rfl
  rcases hpc with ⟨unl, lo', hi', h⟩ | ⟨unl, hi', h⟩ | ⟨unl, h⟩ | h | h
  all_goals
    cases hN with
    | xstoreLow unl lo hi hc hpc => exact (xstoreLow_facts I hl hc hpc).2 k
    | xstoreHigh unl hi hc hpc => exact (xstoreHigh_facts I hl hc hpc).2 k
    | xstoreMoved unl hc hpc => exact (xstoreMoved_facts I hl hc hpc).2 k
    | xcasMoved hc hpc h0 => exact (xcasMoved_facts I hl hc hpc h0).2 k
    | xcommit hc hpc => exact (eff_xcommit I hl hc hpc).2 k
    | kmove pc' hp hc' hm => exact (eff_kmove I hl hc' hm).2 k
    | kbmove pc' tb hc' hm => exact (eff_kbmove I hl hc' hm).2 k
    | idle hpc' => rw [h] at hpc'; cases hpc'
    | maint k0 hpc' => rw [h] at hpc'; cases hpc'
    | resizeStart hpc' _ => rw [h] at hpc'; cases hpc'
    | invoke k0 op lo0 hpc' => rw [h] at hpc'; cases hpc'
    | move p pc' hp hpc' hm => rw [hc] at hpc'; cases hpc'
    | bmove p pc' tb hpc' hm => rw [hc] at hpc'; cases hpc'
    | fin p res hp hpc' hf => rw [hc] at hpc'; cases hpc'
    | bfin p res tb hpc' hf => rw [hc] at hpc'; cases hpc'
    | cas p tab v vi hp _ _ _ => rw [hc] at hp; cases hp
    | store p tab h0 pred hit hnext hp _ => rw [hc] at hp; cases hp
    | tval p tab b i v res hp _ => rw [hc] at hp; cases hp
    | prepend p tab b v vi hp _ _ => rw [hc] at hp; cases hp
    | treeLink p tab b x hp _ => rw [hc] at hp; cases hp
    | unlink p tab b i res small hp _ => rw [hc] at hp; cases hp
    | untree p tab b i res hp _ => rw [hc] at hp; cases hp
    | untreeify p tab b res hp _ => rw [hc] at hp; cases hp
    | kbuild tab k0 h0 _ hpc' => rw [h] at hpc'; cases hpc'
    | kstore tab k0 h0 b _ hpc' => rw [h] at hpc'; cases hpc'
    | xbuild h0 _ hpc' => rw [h] at hpc'; cases hpc'
    | ybuild b small small2 _ hpc' => rw [h] at hpc'; cases hpc'

/-- at quiescence every `TreeBin` that is in a cell is unlocked and its tree holds exactly the nodes
of its list -/
theorem quiescent_tree_eq_list_aux {n : Nat} {s : State} (hr : Reachable n s) (hq : quiescent s) {id : Cid} {b : Nat}
    (hc : cellAt s id = .tree b) :
    (binAt s.tbins b).mutex = none ∧ (binAt s.tbins b).writer = false ∧
    ∀ i, i < s.heap.length → ((nodeAt s.heap i).owner = some b ∧ (nodeAt s.heap i).inTree = true ↔
      i ∈ chainOfBin s b) := by
  have I := reachable_inv hr
  have hm : (binAt s.tbins b).mutex = none := by
    cases hmx : (binAt s.tbins b).mutex with
    | none => rfl
    | some x =>
      exfalso
      have hx := I.lock.mxValid b x hmx
      have hlx : s.threads[x]? = some s.threads[x] := List.getElem?_eq_getElem hx
      have := (I.lock.mx x _ b hlx).2 hmx
      rw [hq _ (List.getElem_mem hx)] at this
      cases this
  have hw := (I.lock.bitsNone id b hc hm).1
  obtain ⟨hsub, hsup⟩ := I.tree_eq_chain hc hw
  refine ⟨hm, hw, ?_⟩
  intro i hi
  constructor
  · rintro ⟨ho, hin⟩; exact hsub i hi ho hin
  · intro hmem
    have hmem' : i ∈ chainC s (cellAt s id) := by rw [hc]; exact hmem
    have ho := I.heap.chainOwner id i hmem'
    rw [hc] at ho
    exact ⟨ho, hsup i hmem⟩

end Flurry.Proto.BinG
