import Flurry.Lemmas.BinGStep
/-! # Proto/BinG: what a split guarantees about one side (pure heap level)

`SideSpec heap hp O b X`: the new list `X` of side `b` (chain in the new heap `hp`, which extends the
old heap `heap`) relative to the old chain `O`. Common interface of the list split (`splitBin`: the
last run re-used, the nodes before it copied and prepended) and of the tree split (`splitSide`: fresh
copies in list order, or the whole old list re-used when the other side is empty). -/
namespace Flurry.Proto.BinG
open Flurry.Lin
open Flurry.Proto.BinK (nodeAt binAt NextOK IsChain IsSeg chainOf)

structure SideSpec (heap hp : List NodeS) (O : List Nat) (b : Bool) (X : List Nat) : Prop where
  /-- all nodes of the new list are on side `b` -/
  side : ∀ j ∈ X, hiBit (nodeAt hp j).key = b
  keys : ∀ i j, i ∈ X → j ∈ X → (nodeAt hp i).key = (nodeAt hp j).key → i = j
  /-- a node of the new list is a re-used old node or a fresh one -/
  mem : ∀ j ∈ X, j ∈ O ∨ heap.length ≤ j
  /-- a fresh node has the key and value of an old node that lies before every re-used node of `X` -/
  src : ∀ j ∈ X, heap.length ≤ j → ∃ i ∈ O, (nodeAt heap i).key = (nodeAt hp j).key ∧
    (nodeAt heap i).val = (nodeAt hp j).val ∧ ∀ r ∈ O, r ∈ X → List.Sublist [i, r] O
  /-- every old node of side `b` is re-used or has a copy in `X` -/
  cover : ∀ i ∈ O, hiBit (nodeAt heap i).key = b → ∃ j ∈ X, (nodeAt hp j).key = (nodeAt heap i).key ∧
    (nodeAt hp j).val = (nodeAt heap i).val ∧ (j = i ∨ heap.length ≤ j)
  /-- the re-used nodes are a suffix of the old chain -/
  suffix : ∀ r ∈ O, r ∈ X → ∀ i ∈ O, List.Sublist [r, i] O → i ∈ X
  /-- the re-used nodes keep their order -/
  order : ∀ i c, i ∈ O → c ∈ O → List.Sublist [i, c] X → List.Sublist [i, c] O

end Flurry.Proto.BinG
