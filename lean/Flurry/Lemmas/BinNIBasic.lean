import Flurry.Proto.BinNI
import Flurry.Lemmas.BinNLin
/-! # Proto/BinNI: the shape of the transitions; the shared part is a reachable state of `Proto/BinN` (C07) -/
namespace Flurry.Proto.BinNI
open Flurry.Lin
open Flurry.Proto.BinX (NodeS Cell Pending isReader dflt chainFrom cellHead cellOfHead nodeAt get_set)
open Flurry.Proto.BinN (Ghost Inv HInv MemStep StepK cellAt LC Live)

/-- every transition of `BinN` advances the clock by one and changes at most the local state of its thread -/
theorem stepK_frame {s s' : BinN.State} {t : Nat} {l : BinN.Local} {pick : Nat} (h : StepK s t l pick s') :
    s'.now = s.now + 1 ∧ ∃ l', s'.threads = s.threads.set t l' := by
  cases h with
  | store p g hh pred hit hnext h1 h2 =>
    obtain ⟨e1, -, e3⟩ := BinN.storeAt_thn (BinN.tick s) g p pred hit hnext
    refine ⟨e3, { l with pc := .wUnlock g hh (BinN.storeAt (BinN.tick s) g p pred hit hnext).2 false }, ?_⟩
    show ((BinN.storeAt (BinN.tick s) g p pred hit hnext).1.threads).set t _ = _
    rw [e1]; rfl
  | _ => exact ⟨rfl, _, rfl⟩

/-- the no-op step of an idle thread: the clock ticks -/
theorem idle_step {n : BinN.State} {t : Nat} {l : BinN.Local} (hl : n.threads[t]? = some l) (hpc : l.pc = .idle) :
    BinN.step n t none false 0 = some { n with now := n.now + 1 } := by
  unfold BinN.step BinN.stepG
  rw [hl]
  obtain ⟨pc, call⟩ := l
  simp only at hpc; subst hpc
  rfl

/-- the three kinds of transitions -/
theorem step_cases {s s' : State} {t : Nat} {mk : Bool} {inv : Option (Nat × KOp)} {rz : Bool} {pick : Nat}
    (h : step s t mk inv rz pick = some s') :
    (s.its[t]? = some none ∧ mk = false ∧ ∃ n', BinN.step s.n t inv rz pick = some n' ∧ s' = { s with n := n' }) ∨
    (s.its[t]? = some none ∧ mk = true ∧ ∃ l, s.n.threads[t]? = some l ∧ l.pc = .idle ∧
      s' = { s with n := { s.n with now := s.n.now + 1 },
                    its := s.its.set t (some ⟨s.n.now + 1, s.n.cur, none, rootCells s.n.cur⟩) }) ∨
    (∃ it n', s.its[t]? = some (some it) ∧ BinN.step s.n t none false 0 = some n' ∧ iterStep s t it n' = some s') := by
  unfold step at h
  cases hi : s.its[t]? with
  | none => rw [hi] at h; cases h
  | some o =>
    rw [hi] at h
    cases o with
    | some it =>
      simp only at h
      cases hn : BinN.step s.n t none false 0 with
      | none => rw [hn] at h; cases h
      | some n' => rw [hn] at h; exact Or.inr (Or.inr ⟨it, n', rfl, rfl, h⟩)
    | none =>
      simp only at h
      cases mk with
      | false =>
        simp only [Bool.false_eq_true, if_false] at h
        cases hn : BinN.step s.n t inv rz pick with
        | none => rw [hn] at h; cases h
        | some n' => rw [hn] at h; cases h; exact Or.inl ⟨rfl, rfl, n', rfl, rfl⟩
      | true =>
        simp only [if_true] at h
        cases hl : s.n.threads[t]? with
        | none => rw [hl] at h; cases h
        | some l =>
          rw [hl] at h
          simp only at h
          by_cases hpc : l.pc = .idle
          · rw [if_pos hpc, idle_step hl hpc] at h
            cases h
            exact Or.inr (Or.inl ⟨rfl, rfl, l, rfl, hpc, rfl⟩)
          · rw [if_neg hpc] at h; cases h

/-- what a step of an iterator does -/
theorem iterStep_cases {s s' : State} {t : Nat} {it : Iter} {n' : BinN.State} (h : iterStep s t it n' = some s') :
    s'.n = n' ∧
    ((∃ c nd, it.ptr = some c ∧ n'.heap[c]? = some nd ∧ s'.its = s.its.set t (some { it with ptr := nd.next }) ∧
        s'.yields = ⟨t, it.t0, nd.key, nd.val, n'.now⟩ :: s.yields ∧ s'.ends = s.ends) ∨
     (it.ptr = none ∧ it.todo = [] ∧ s'.its = s.its.set t none ∧ s'.yields = s.yields ∧
        s'.ends = (t, it.t0, n'.now) :: s.ends) ∨
     (∃ g j rest ptr' todo', it.ptr = none ∧ it.todo = (g, j) :: rest ∧
        s'.its = s.its.set t (some { it with ptr := ptr', todo := todo' }) ∧ s'.yields = s.yields ∧ s'.ends = s.ends ∧
        ((cellAt n' g j = .empty ∧ ptr' = none ∧ todo' = rest) ∨
         (∃ hd, cellAt n' g j = .node hd ∧ ptr' = some hd ∧ todo' = rest) ∨
         (cellAt n' g j = .moved ∧ ptr' = none ∧ todo' = (g + 1, j) :: (g + 1, j + 2 ^ g) :: rest)))) := by
  unfold iterStep at h
  obtain ⟨t0, g0, ptr, todo⟩ := it
  cases ptr with
  | some c =>
    simp only at h
    cases hn : n'.heap[c]? with
    | none => rw [hn] at h; cases h
    | some nd =>
      rw [hn] at h; cases h
      exact ⟨rfl, Or.inl ⟨c, nd, rfl, hn, rfl, rfl, rfl⟩⟩
  | none =>
    simp only at h
    cases todo with
    | nil => cases h; exact ⟨rfl, Or.inr (Or.inl ⟨rfl, rfl, rfl, rfl, rfl⟩)⟩
    | cons x rest =>
      obtain ⟨g, j⟩ := x
      simp only at h
      cases hc : cellAt n' g j with
      | empty =>
        rw [hc] at h; cases h
        exact ⟨rfl, Or.inr (Or.inr ⟨g, j, rest, none, rest, rfl, rfl, rfl, rfl, rfl, Or.inl ⟨hc, rfl, rfl⟩⟩)⟩
      | node hd =>
        rw [hc] at h; cases h
        exact ⟨rfl, Or.inr (Or.inr ⟨g, j, rest, some hd, rest, rfl, rfl, rfl, rfl, rfl, Or.inr (Or.inl ⟨hd, hc, rfl, rfl⟩)⟩)⟩
      | moved =>
        rw [hc] at h; cases h
        exact ⟨rfl, Or.inr (Or.inr ⟨g, j, rest, none, _, rfl, rfl, rfl, rfl, rfl, Or.inr (Or.inr ⟨hc, rfl, rfl⟩)⟩)⟩

/-- on the shared part every transition is a transition of `Proto/BinN` -/
theorem step_n {s s' : State} {t : Nat} {mk : Bool} {inv : Option (Nat × KOp)} {rz : Bool} {pick : Nat}
    (h : step s t mk inv rz pick = some s') : ∃ inv' rz' pick', BinN.step s.n t inv' rz' pick' = some s'.n := by
  rcases step_cases h with ⟨-, -, n', hn, rfl⟩ | ⟨-, -, l, hl, hpc, rfl⟩ | ⟨it, n', -, hn, hi⟩
  · exact ⟨_, _, _, hn⟩
  · exact ⟨_, _, _, idle_step hl hpc⟩
  · rw [← (iterStep_cases hi).1] at hn; exact ⟨_, _, _, hn⟩

/-- **the shared part of a reachable state is a reachable state of `Proto/BinN`** -/
theorem reachable_n {n : Nat} {s : State} (hr : Reachable n s) : BinN.Reachable n s.n := by
  induction hr with
  | init => exact .init
  | step t mk inv rz pick _ hs ih =>
    obtain ⟨inv', rz', pick', h⟩ := step_n hs
    exact .step t inv' rz' pick' ih h

theorem Steps.trans {a b c : State} (h1 : Steps a b) (h2 : Steps b c) : Steps a c := by
  induction h2 with
  | refl => exact h1
  | tail t mk inv rz pick _ hs ih => exact .tail t mk inv rz pick ih hs

theorem Steps.reachable {n : Nat} {a b : State} (hr : Reachable n a) (h : Steps a b) : Reachable n b := by
  induction h with
  | refl => exact hr
  | tail t mk inv rz pick _ hs ih => exact .step t mk inv rz pick ih hs

end Flurry.Proto.BinNI
