import Flurry.Lemmas.RwLockInv
/-! # Lemmas/RwLockThms: safety and progress theorems of the tree-bin lock model

All statements are about every state reachable from `init n`, for every number `n` of readers. -/
namespace Flurry.Proto.RwLock
open Flurry.Gen

/-! ## 1. exact characterisation of the lock word -/

theorem writerHolds_iff (s : State) : writerHolds s = true ↔ s.wpc = .hold ∨ s.wpc = .swapOut := by
  rcases s with ⟨ls, ws, tk, wpc, wt, rs⟩
  cases wpc <;> simp [writerHolds]

/-- `WAITER` is set exactly while `waiting` is true and the writer is between its successful
`casWaiter` (→ `publish`) and its successful `casWriter` (→ `swapOut`) -/
theorem waiterBit_iff (s : State) : waiterBit s = true ↔
    s.waiting = true ∧ (s.wpc = .publish ∨ s.wpc = .load ∨ (∃ st, s.wpc = .decide st) ∨
      (∃ st, s.wpc = .casWriter st) ∨ s.wpc = .park) := by
  rcases s with ⟨ls, ws, tk, wpc, wt, rs⟩
  cases wpc <;> simp [waiterBit]

theorem wBits_eq (s : State) : wBits s.wpc s.waiting =
    (if writerHolds s then WRITER else 0) + (if waiterBit s then WAITER else 0) := by
  rcases s with ⟨ls, ws, tk, wpc, wt, rs⟩
  cases wpc <;> cases wt <;> simp [wBits, writerHolds, waiterBit]

theorem lockState_eq {n : Nat} {s : State} (h : Reachable n s) :
    s.lockState = (if writerHolds s then WRITER else 0) + (if waiterBit s then WAITER else 0)
      + READER * (numHolding s.readers : Int) := by
  have := (inv_of_reachable h).lock
  rw [wBits_eq] at this
  exact this

/-- the same with the constants unfolded -/
theorem lockState_eq' {n : Nat} {s : State} (h : Reachable n s) :
    s.lockState = (if writerHolds s then 1 else 0) + (if waiterBit s then 2 else 0)
      + 4 * (numHolding s.readers : Int) := by
  have := lockState_eq h
  simpa [WRITER, WAITER, READER] using this

/-- the `waiter` handle is published exactly while `waiting` and after `publish` / before the
`swapOut` has executed -/
theorem waiterSet_iff {n : Nat} {s : State} (h : Reachable n s) : s.waiterSet = true ↔
    s.waiting = true ∧ (s.wpc = .load ∨ (∃ st, s.wpc = .decide st) ∨
      (∃ st, s.wpc = .casWriter st) ∨ s.wpc = .park ∨ s.wpc = .swapOut) := by
  have hw := (inv_of_reachable h).writer
  rcases s with ⟨ls, ws, tk, wpc, wt, rs⟩
  cases wpc <;> simp_all [WInv]

theorem waiterSet_waiting {n : Nat} {s : State} (h : Reachable n s) (hw : s.waiterSet = true) :
    s.waiting = true := ((waiterSet_iff h).mp hw).1

/-- `casWaiter` is only attempted once per lock attempt -/
theorem casWaiter_not_waiting {n : Nat} {s : State} (h : Reachable n s) {st : Int}
    (hpc : s.wpc = .casWaiter st) : s.waiting = false ∧ hasBit st WAITER = false := by
  have hw := (inv_of_reachable h).writer
  rcases s with ⟨ls, ws, tk, wpc, wt, rs⟩
  simp only at hpc; subst hpc
  simp_all [WInv]

/-- a waiting writer always sees its own `WAITER` bit -/
theorem decide_waiting_hasBit {n : Nat} {s : State} (h : Reachable n s) {st : Int}
    (hpc : s.wpc = .decide st) (hwt : s.waiting = true) : hasBit st WAITER = true := by
  have hw := (inv_of_reachable h).writer
  rcases s with ⟨ls, ws, tk, wpc, wt, rs⟩
  simp only at hpc hwt; subst hpc
  simp_all [WInv]

/-- the value a reader CASes from has neither `WRITER` nor `WAITER` set -/
theorem reader_cas_free {n : Nat} {s : State} (h : Reachable n s) {i : Nat} {st : Int}
    (hi : s.readers[i]? = some (.cas st)) : hasBit st WAITER = false ∧ hasBit st WRITER = false :=
  (inv_of_reachable h).readers _ (List.mem_iff_getElem?.mpr ⟨i, hi⟩)

/-! ## 2. mutual exclusion -/

theorem mutual_exclusion {n : Nat} {s : State} (h : Reachable n s)
    (hw : s.wpc = .hold ∨ s.wpc = .swapOut) : numHolding s.readers = 0 := by
  have hw' := (inv_of_reachable h).writer
  rcases s with ⟨ls, ws, tk, wpc, wt, rs⟩
  rcases hw with hw | hw <;> simp only at hw <;> subst hw <;> simp_all [WInv, numHolding_eq_cnt]

/-- while the writer holds the lock the word is exactly `WRITER` -/
theorem lockState_eq_WRITER {n : Nat} {s : State} (h : Reachable n s)
    (hw : s.wpc = .hold ∨ s.wpc = .swapOut) : s.lockState = WRITER := by
  have h1 := lockState_eq h
  have h2 := mutual_exclusion h hw
  have h3 := (writerHolds_iff s).mpr hw
  have h4 : waiterBit s = false := by
    rcases s with ⟨ls, ws, tk, wpc, wt, rs⟩
    rcases hw with hw | hw <;> simp only at hw <;> subst hw <;> simp [waiterBit]
  simp [h2, h3, h4] at h1
  exact h1

/-- no reader is in the tree (`tree` or `release`) while the writer holds the lock -/
theorem no_reader_in_tree {n : Nat} {s : State} (h : Reachable n s)
    (hw : s.wpc = .hold ∨ s.wpc = .swapOut) (i : Nat) (pc : RPc) (hi : s.readers[i]? = some pc) :
    holdsRead pc = false := by
  have h0 := mutual_exclusion h hw
  cases hp : holdsRead pc with
  | false => rfl
  | true =>
    have : 1 ≤ cnt holdsRead s.readers := (cnt_pos_iff _ _).mpr ⟨i, pc, hi, hp⟩
    rw [numHolding_eq_cnt] at h0
    omega

/-! ## 3. no lost wake-up -/

theorem exists_of_cnt_isUnpark {rs : List RPc} (h : 1 ≤ cnt isUnpark rs) :
    ∃ i : Nat, rs[i]? = some .unpark := by
  obtain ⟨i, pc, hi, hp⟩ := (cnt_pos_iff _ _).mp h
  rw [isUnpark_iff] at hp; subst hp
  exact ⟨i, hi⟩

theorem exists_of_cnt_isLoadWaiter {rs : List RPc} (h : 1 ≤ cnt isLoadWaiter rs) :
    ∃ i : Nat, rs[i]? = some .loadWaiter := by
  obtain ⟨i, pc, hi, hp⟩ := (cnt_pos_iff _ _).mp h
  rw [isLoadWaiter_iff] at hp; subst hp
  exact ⟨i, hi⟩

/-- whenever the writer is about to park without a token, some reader is still going to produce
one: a reader still holds a read lock and the handle is published (the last one out sees
`READER|WAITER`, loads the handle and unparks), or a reader is already at `unpark`, or at
`loadWaiter` with the handle published -/
theorem no_lost_wakeup {n : Nat} {s : State} (h : Reachable n s)
    (hp : s.wpc = .park) (ht : s.token = false) :
    (1 ≤ numHolding s.readers ∧ s.waiterSet = true) ∨
    (∃ i : Nat, s.readers[i]? = some .unpark) ∨
    (∃ i : Nat, s.readers[i]? = some .loadWaiter ∧ s.waiterSet = true) := by
  have hw := (inv_of_reachable h).writer
  rcases s with ⟨ls, ws, tk, wpc, wt, rs⟩
  simp only at hp ht; subst hp; subst ht
  simp only [WInv] at hw
  obtain ⟨-, hws, hk⟩ := hw
  simp only [Bool.false_eq_true, false_or] at hk
  by_cases h1 : 1 ≤ cnt holdsRead rs
  · exact Or.inl ⟨h1, hws⟩
  · by_cases h2 : 1 ≤ cnt isUnpark rs
    · exact Or.inr (Or.inl (exists_of_cnt_isUnpark h2))
    · have h3 : 1 ≤ cnt isLoadWaiter rs := by omega
      obtain ⟨i, hi⟩ := exists_of_cnt_isLoadWaiter h3
      exact Or.inr (Or.inr ⟨i, hi, hws⟩)

/-- the same one step earlier: the writer has read a state with `WAITER` and readers and will go
to `park` -/
theorem no_lost_wakeup_decide {n : Nat} {s : State} (h : Reachable n s) {st : Int}
    (hp : s.wpc = .decide st) (hwt : s.waiting = true) (hst : freeExceptWaiter st = false)
    (ht : s.token = false) :
    (1 ≤ numHolding s.readers ∧ s.waiterSet = true) ∨
    (∃ i : Nat, s.readers[i]? = some .unpark) ∨
    (∃ i : Nat, s.readers[i]? = some .loadWaiter ∧ s.waiterSet = true) := by
  have hw := (inv_of_reachable h).writer
  rcases s with ⟨ls, ws, tk, wpc, wt, rs⟩
  simp only at hp ht hwt; subst hp; subst ht; subst hwt
  simp only [WInv] at hw
  obtain ⟨hws, hk⟩ := hw
  have hk := (hk trivial).2 hst
  simp only [Bool.false_eq_true, false_or] at hk
  by_cases h1 : 1 ≤ cnt holdsRead rs
  · exact Or.inl ⟨h1, hws⟩
  · by_cases h2 : 1 ≤ cnt isUnpark rs
    · exact Or.inr (Or.inl (exists_of_cnt_isUnpark h2))
    · have h3 : 1 ≤ cnt isLoadWaiter rs := by omega
      obtain ⟨i, hi⟩ := exists_of_cnt_isLoadWaiter h3
      exact Or.inr (Or.inr ⟨i, hi, hws⟩)

/-! ## 4. deadlock freedom and progress -/

theorem reader_always_enabled (s : State) (i : Nat) (more : Bool) (hi : i < s.readers.length) :
    (stepReader s i more).isSome = true := by
  have : s.readers[i]? = some s.readers[i] := List.getElem?_eq_getElem hi
  simp only [stepReader, this]
  cases s.readers[i] <;> simp only [] <;> (try split) <;> rfl

/-- the only disabled transition of the whole model is `park` without a token -/
theorem stepWriter_eq_none_iff (s : State) :
    stepWriter s = none ↔ s.wpc = .park ∧ s.token = false := by
  rcases s with ⟨ls, ws, tk, wpc, wt, rs⟩
  cases wpc <;> simp only [stepWriter] <;> (repeat' split) <;> simp_all

theorem deadlock_free {n : Nat} {s : State} (h : Reachable n s)
    (hidle : ∀ (i : Nat) (pc : RPc), s.readers[i]? = some pc → pc = .idle) :
    stepWriter s ≠ none := by
  intro hn
  obtain ⟨hp, ht⟩ := (stepWriter_eq_none_iff s).mp hn
  rcases no_lost_wakeup h hp ht with ⟨h1, -⟩ | ⟨i, hi⟩ | ⟨i, hi, -⟩
  · have : cnt holdsRead s.readers = 0 := cnt_eq_zero_of_all _ _ (by
      intro i pc hi; rw [hidle i pc hi]; rfl)
    rw [numHolding_eq_cnt] at h1; omega
  · cases hidle i _ hi
  · cases hidle i _ hi

/-- no reachable state is stuck -/
theorem not_stuck {n : Nat} {s : State} (h : Reachable n s) :
    ∃ (a : Actor) (more : Bool) (s' : State), step s a more = some s' := by
  by_cases hl : 0 < s.readers.length
  · have := reader_always_enabled s 0 false hl
    obtain ⟨s', hs'⟩ := Option.isSome_iff_exists.mp this
    exact ⟨.reader 0, false, s', hs'⟩
  · have hnil : s.readers = [] := List.eq_nil_of_length_eq_zero (by omega)
    have := deadlock_free h (by intro i pc hi; simp [hnil] at hi)
    cases hs : stepWriter s with
    | none => exact absurd hs this
    | some s' => exact ⟨.writer, false, s', hs⟩

end Flurry.Proto.RwLock
