import Flurry.Lemmas.BinGNGenStepW
/-! # Proto/BinGN: the generation invariant — tree-bin writers -/
namespace Flurry.Proto.BinGN
open Flurry.Lin

section
variable {s s' : State} {t : Nat} {inv : Option (Nat × KOp)} {lo : Bool} {mt : Option Nat} {rz sm sm2 : Bool}
  {pick : Nat} {p : Pending}

macro "wk_all'" I:ident hl:ident hs:ident : tactic =>
  `(tactic| (open_step $hs $hl; simp only [afterLock] at $hs:ident; repeat' split at $hs:ident
             all_goals first
               | (cases $hs:ident; done)
               | (cases $hs:ident; exact geninv_weak $I $hl rfl rfl rfl rfl (by ls) (by ms) (by dle))))

theorem step_tMutex {g b : Nat} (I : GenInv s) (hl : s.threads[t]? = some { pc := .tMutex g b, call := some p })
    (hs : step s t inv lo mt rz sm sm2 pick = some s') : GenInv s' := by
  have T := I.thr t _ hl
  have hb := (T.plan (.tree b) (by simp [desc, descPc])).2 b rfl
  open_step hs hl
  split at hs
  · cases hs
  · rename_i hfree
    cases hs
    have hf : mutexAt s.tbins b = none := by
      unfold mutexAt
      cases hx : (s.tbins.getD b dfltB).mutex with
      | none => rfl
      | some y => exfalso; apply hfree; show ((s.tbins.getD b dfltB).mutex).isSome = true; rw [hx]; rfl
    exact geninv_lockM (b := b) (x := some t) I hl rfl rfl rfl rfl rfl rfl (Or.inl hf) (fun h => by cases h)
      (Or.inr rfl) (Or.inl rfl) (fun h => by cases h) rfl (Or.inr ⟨rfl, rfl, hb⟩) rfl (fun c hc => by cases hc)

theorem step_tCheck {g b : Nat} (I : GenInv s) (hl : s.threads[t]? = some { pc := .tCheck g b, call := some p })
    (hs : step s t inv lo mt rz sm sm2 pick = some s') : GenInv s' := by
  have T := I.thr t _ hl
  open_step hs hl
  split at hs
  · rename_i hc
    cases hs
    have hc' : cellAt s g (p.key % 2 ^ g) = .tree b := by
      have := hc; simp only [beq_iff_eq] at this; exact this
    refine geninv_move I hl rfl rfl rfl rfl (.refl _) (.refl _) (fun h => by cases h) ?_
    refine T.mkV (fun h => by cases h) (Or.inr rfl) (Or.inl rfl) (fun h => by cases h) rfl rfl ?_ rfl
    intro g' j' c' hv
    simp only [desc, descPc, keyOf, Option.some.injEq, Prod.mk.injEq] at hv
    obtain ⟨rfl, rfl, rfl⟩ := hv
    exact ⟨hc', Or.inr ⟨b, rfl, rfl⟩⟩
  · cases hs; exact geninv_weak I hl rfl rfl rfl rfl (by ls) (by ms) (by dle)

theorem step_tFind {g b : Nat} (I : GenInv s) (hl : s.threads[t]? = some { pc := .tFind g b, call := some p })
    (hs : step s t inv lo mt rz sm sm2 pick = some s') : GenInv s' := by
  wk_all I hl hs

theorem step_tVal {g b i : Nat} {v : Nat × Nat} {res : KRes} (I : GenInv s)
    (hl : s.threads[t]? = some { pc := .tVal g b i v res, call := some p })
    (hs : step s t inv lo mt rz sm sm2 pick = some s') : GenInv s' := by
  wk_all I hl hs

theorem step_lrTry {g b : Nat} {k : After} {res : KRes} (I : GenInv s)
    (hl : s.threads[t]? = some { pc := .lrTry g b k res, call := some p })
    (hs : step s t inv lo mt rz sm sm2 pick = some s') : GenInv s' := by
  cases k <;> wk_all' I hl hs

theorem step_lrLoop {g b : Nat} {k : After} {res : KRes} (I : GenInv s)
    (hl : s.threads[t]? = some { pc := .lrLoop g b k res, call := some p })
    (hs : step s t inv lo mt rz sm sm2 pick = some s') : GenInv s' := by
  cases k <;> wk_all' I hl hs

theorem step_tPrependLocked {g b : Nat} (I : GenInv s)
    (hl : s.threads[t]? = some { pc := .tPrependLocked g b, call := some p })
    (hs : step s t inv lo mt rz sm sm2 pick = some s') : GenInv s' := by
  wk_all I hl hs

theorem step_tTreeLinkLocked {g b x : Nat} (I : GenInv s)
    (hl : s.threads[t]? = some { pc := .tTreeLinkLocked g b x, call := some p })
    (hs : step s t inv lo mt rz sm sm2 pick = some s') : GenInv s' := by
  wk_all I hl hs

theorem step_tUnlinkLocked {g b i : Nat} {res : KRes} (I : GenInv s)
    (hl : s.threads[t]? = some { pc := .tUnlinkLocked g b i res, call := some p })
    (hs : step s t inv lo mt rz sm sm2 pick = some s') : GenInv s' := by
  open_step hs hl
  cases hs
  split <;> split <;> exact geninv_weak I hl rfl rfl rfl rfl (by ls) (by ms) (by dle)

theorem step_tRestructure {g b i : Nat} {res : KRes} (I : GenInv s)
    (hl : s.threads[t]? = some { pc := .tRestructure g b i res, call := some p })
    (hs : step s t inv lo mt rz sm sm2 pick = some s') : GenInv s' := by
  wk_all I hl hs

theorem step_tUnlockRoot {g b : Nat} {res : KRes} (I : GenInv s)
    (hl : s.threads[t]? = some { pc := .tUnlockRoot g b res, call := some p })
    (hs : step s t inv lo mt rz sm sm2 pick = some s') : GenInv s' := by
  wk_all I hl hs

theorem step_tUntreeify {g b : Nat} {res : KRes} (I : GenInv s)
    (hl : s.threads[t]? = some { pc := .tUntreeify g b res, call := some p })
    (hs : step s t inv lo mt rz sm sm2 pick = some s') : GenInv s' := by
  have T := I.thr t _ hl
  open_step hs hl
  cases hs
  have hv0 : (desc s.cur { pc := Pc.tUntreeify g b res, call := some p }).valid =
      some (g, p.key % 2 ^ g, .tree b) := rfl
  obtain ⟨hcell, -⟩ := T.valid _ _ _ hv0
  exact geninv_put' (g0 := g) (j0 := p.key % 2 ^ g) (c := cellOfHead _) I hl rfl rfl rfl rfl
    (Or.inl (by rw [hcell]; simp)) (fun h => absurd h (cellOfHead_ne_moved _)) (no_valid_of_mutex I hl hv0)
    (by dsimp only [setT, setCell, putCell]; exact copyChain_lockSame _ _ _) (.refl _)
    (fun b' e => absurd e (cellOfHead_ne_tree _ _)) (by dle)
    (fun g j c h => by cases h)

theorem step_tUnlockM {g b : Nat} {res : KRes} {retry : Bool} (I : GenInv s)
    (hl : s.threads[t]? = some { pc := .tUnlockM g b res retry, call := some p })
    (hs : step s t inv lo mt rz sm sm2 pick = some s') : GenInv s' := by
  have T := I.thr t _ hl
  have hheld := (T.heldM b rfl).2
  open_step hs hl
  split at hs
  · cases hs
    exact geninv_lockM (b := b) (x := none) I hl rfl rfl rfl rfl rfl rfl (Or.inr hheld) (fun h => by cases h)
      (Or.inr rfl) (Or.inl rfl) (fun h => by cases h) rfl (Or.inl rfl) rfl (fun c hc => by cases hc)
  · cases hs
    exact geninv_lockM (b := b) (x := none) I hl rfl rfl rfl rfl rfl rfl (Or.inr hheld) (fun h => by cases h)
      (Or.inl rfl) (Or.inl rfl) (fun h => by cases h) rfl (Or.inl rfl) rfl (fun c hc => by cases hc)

end
end Flurry.Proto.BinGN
